import LymuiVerif.Lemmas.FpLinear
import LymuiVerif.Lemmas.FpHexcone
import LymuiVerif.Lemmas.QuantB2
/-!
# Rounded-model helpers for `Ansi::from_rgb` (C17)

Everything is for an arbitrary `M : FPModel`.

* `roundHA_ratio_stable`, `roundHA_ratio_stable_odd`, `roundHA_close_ratio`: a fraction `p/q` that is not a
  half-integer is at least `1/(2q)` away from every half-integer, so `Real.roundHA` is constant on the open
  interval of radius `1/(2q)` around it.  When `q` is odd there is never a tie (`2p` is even, `(2n+1)q` is odd).
* the four pre-rounding expressions of `Ansi::from_rgb` in the rounded model are within `1e-12` of the exact
  value (`scale5_close`, `unit_close`, `value_close`, `ramp_close`), whose denominators are `51`, `255`, `255`
  and `247` — all odd; hence `round` returns the exact-real result (`scale5_round`, `unit_round`,
  `value_round`, `ramp_round`).
* `cube_sum`: the sum `16 + 36 a + 6 b + c` of small whole numbers is computed exactly.
* `cube_toU8_fp`, `ramp_toU8_fp`, `bit_toU8_fp`, `value_eq_fp`: the rounded-model versions of the lemmas of the
  same name (without `_fp`) in `Lemmas/QuantB2.lean`, same right-hand sides.
-/
namespace FpMiscB
open FpLin Lemmas.QuantB2

/-! ## `round` near a fraction that is not a half-integer -/

/-- **stability of `round` at a non-tie fraction**: if `p/q` is not a half-integer (`2p ≠ (2n+1)q` for all `n`) then
every perturbation smaller than `1/(2q)` leaves `round` unchanged. -/
theorem roundHA_ratio_stable (p q : ℕ) (hq : 0 < q) (hnotie : ∀ n : ℤ, 2 * (p : ℤ) ≠ (2 * n + 1) * q)
    {e : ℝ} (he : |e| < 1 / (2 * (q : ℝ))) :
    Real.roundHA ((p : ℝ) / q + e) = Real.roundHA ((p : ℝ) / q) := by
  apply FpHexcone.roundHA_stable (δ := |e|) (by positivity) _ le_rfl
  intro n
  have hqpos : (0 : ℝ) < q := by exact_mod_cast hq
  have e2 : (p : ℝ) / q - ((n : ℝ) + 1 / 2) = ((2 * (p : ℤ) - (2 * n + 1) * q : ℤ) : ℝ) / (2 * q) := by
    push_cast; field_simp
  have hz : (2 * (p : ℤ) - (2 * n + 1) * q : ℤ) ≠ 0 := sub_ne_zero.mpr (hnotie n)
  have h1 : (1 : ℝ) ≤ |((2 * (p : ℤ) - (2 * n + 1) * q : ℤ) : ℝ)| := by
    rw [← Int.cast_abs]
    exact_mod_cast Int.one_le_abs hz
  rw [e2, abs_div, abs_of_pos (by positivity : (0 : ℝ) < 2 * q)]
  exact lt_of_lt_of_le he (div_le_div_of_nonneg_right h1 (by positivity))

/-- a fraction with an odd denominator is never a half-integer: `2p` is even, `(2n+1)q` is odd -/
theorem odd_notie (p q : ℕ) (hodd : q % 2 = 1) (n : ℤ) : 2 * (p : ℤ) ≠ (2 * n + 1) * q := by
  intro h
  have h1 : Even (2 * (p : ℤ)) := even_two_mul _
  have hq : Odd (q : ℤ) := by
    rw [Int.odd_iff]; omega
  have h2 : Odd ((2 * n + 1) * (q : ℤ)) := (odd_two_mul_add_one n).mul hq
  rw [h] at h1
  exact (Int.not_even_iff_odd.mpr h2) h1

/-- **no tie for an odd denominator**: `round` is constant within `1/(2q)` of `p/q` -/
theorem roundHA_ratio_stable_odd (p q : ℕ) (hodd : q % 2 = 1) {e : ℝ} (he : |e| < 1 / (2 * (q : ℝ))) :
    Real.roundHA ((p : ℝ) / q + e) = Real.roundHA ((p : ℝ) / q) :=
  roundHA_ratio_stable p q (by omega) (odd_notie p q hodd) he

/-- the form used below: a computed `a` within `tol < 1/(2q)` of an exact `x = p/q`, `q` odd -/
theorem roundHA_close_ratio {a x tol : ℝ} (p q : ℕ) (hodd : q % 2 = 1) (hx : x = (p : ℝ) / q)
    (h : |a - x| ≤ tol) (htol : tol < 1 / (2 * (q : ℝ))) : Real.roundHA a = Real.roundHA x := by
  have := roundHA_ratio_stable_odd p q hodd (e := a - x) (lt_of_le_of_lt h htol)
  rw [← hx] at this
  rw [← this]; congr 1; ring

variable (M : FPModel)

/-! ## the four values handed to `round` -/

/-- `v/255*5` (a cube digit before rounding) -/
theorem scale5_close (v : ℕ) (hv : v ≤ 255) :
    |M.rnd (M.rnd ((v : ℝ) / 255) * 5) - (v : ℝ) / 255 * 5| ≤ 1e-12 := by
  have V : Near (v : ℝ) v 0 255 := Near.nat (by exact_mod_cast hv) (by norm_num)
  have h := (V.div_const M (c := 255) (B' := 1) (by norm_num) (by norm_num) le_rfl).mul M
    (Near.exact (x := 5) (B := 5) (by norm_num) (by norm_num))
  exact h.finish rfl (by norm_num [FP.eps])

/-- the exact value is `5v/255` and `255` is odd: same `round` -/
theorem scale5_round (v : ℕ) (hv : v ≤ 255) :
    Real.roundHA (M.rnd (M.rnd ((v : ℝ) / 255) * 5)) = Real.roundHA ((v : ℝ) / 255 * 5) :=
  roundHA_close_ratio (5 * v) 255 (by norm_num) (by push_cast; ring) (scale5_close M v hv) (by norm_num)

/-- `v/255` (an ANSI-16 colour bit before rounding) -/
theorem unit_close (v : ℕ) (hv : v ≤ 255) : |M.rnd ((v : ℝ) / 255) - (v : ℝ) / 255| ≤ 1e-12 := by
  have V : Near (v : ℝ) v 0 255 := Near.nat (by exact_mod_cast hv) (by norm_num)
  have h := V.div_const M (c := 255) (B' := 1) (by norm_num) (by norm_num) le_rfl
  exact h.finish rfl (by norm_num [FP.eps])

theorem unit_round (v : ℕ) (hv : v ≤ 255) :
    Real.roundHA (M.rnd ((v : ℝ) / 255)) = Real.roundHA ((v : ℝ) / 255) :=
  roundHA_close_ratio v 255 (by norm_num) (by push_cast; ring) (unit_close M v hv) (by norm_num)

/-- `m/255*100/50` (the ANSI-16 brightness class before rounding) -/
theorem value_close (m : ℕ) (hm : m ≤ 255) :
    |M.rnd (M.rnd (M.rnd ((m : ℝ) / 255) * 100) / 50) - (m : ℝ) / 255 * 100 / 50| ≤ 1e-12 := by
  have V : Near (m : ℝ) m 0 255 := Near.nat (by exact_mod_cast hm) (by norm_num)
  have h := ((V.div_const M (c := 255) (B' := 1) (by norm_num) (by norm_num) le_rfl).mul M
    (Near.exact (x := 100) (B := 100) (by norm_num) (by norm_num))).div_const M (c := 50) (B' := 2)
    (by norm_num) (by norm_num) (by norm_num)
  exact h.finish rfl (by norm_num [FP.eps])

/-- the exact value is `2m/255` and `255` is odd: same `round` -/
theorem value_round (m : ℕ) (hm : m ≤ 255) :
    Real.roundHA (M.rnd (M.rnd (M.rnd ((m : ℝ) / 255) * 100) / 50)) = Real.roundHA ((m : ℝ) / 255 * 100 / 50) :=
  roundHA_close_ratio (2 * m) 255 (by norm_num) (by push_cast; ring) (value_close M m hm) (by norm_num)

/-- the byte difference `v - 8` is computed exactly -/
theorem rnd_sub8 (v : ℕ) (hv : v ≤ 255) : M.rnd ((v : ℝ) - 8) = (v : ℝ) - 8 := by
  have h := M.rnd_int ((v : ℤ) - 8) (by
    have h1 : ((v : ℤ) : ℝ) ≤ 255 := by exact_mod_cast hv
    have h0 : (0 : ℝ) ≤ ((v : ℤ) : ℝ) := by positivity
    push_cast
    rw [abs_le]; constructor <;> norm_num <;> linarith)
  push_cast at h; exact h

/-- `(v-8)/247*24+232` (the grey ramp before rounding), `8 ≤ v ≤ 255` -/
theorem ramp_close (v : ℕ) (h8 : 8 ≤ v) (hv : v ≤ 255) :
    |M.rnd (M.rnd (M.rnd (M.rnd ((v : ℝ) - 8) / 247) * 24) + 232) - (((v : ℝ) - 8) / 247 * 24 + 232)| ≤ 1e-12 := by
  rw [rnd_sub8 M v hv]
  have h8' : (8 : ℝ) ≤ v := by exact_mod_cast h8
  have hv' : (v : ℝ) ≤ 255 := by exact_mod_cast hv
  have V : Near ((v : ℝ) - 8) ((v : ℝ) - 8) 0 247 :=
    Near.exact_nonneg (by linarith) (by linarith) (by norm_num)
  have h := (((V.div_const M (c := 247) (B' := 1) (by norm_num) (by norm_num) le_rfl).mul M
    (Near.exact (x := 24) (B := 24) (by norm_num) (by norm_num))).add M
    (Near.exact (x := 232) (B := 232) (by norm_num) (by norm_num)))
  exact h.finish rfl (by norm_num [FP.eps])

/-- the exact value is `(24(v-8) + 232·247)/247` and `247` is odd: same `round` -/
theorem ramp_round (v : ℕ) (h8 : 8 ≤ v) (hv : v ≤ 255) :
    Real.roundHA (M.rnd (M.rnd (M.rnd (M.rnd ((v : ℝ) - 8) / 247) * 24) + 232))
      = Real.roundHA (((v : ℝ) - 8) / 247 * 24 + 232) :=
  roundHA_close_ratio (24 * (v - 8) + 232 * 247) 247 (by norm_num)
    (by push_cast [Nat.cast_sub h8]; field_simp; norm_num) (ramp_close M v h8 hv) (by norm_num)

/-! ## the cube sum -/

/-- `16 + 36a + 6b + c` for cube digits `a, b, c ≤ 5`: every partial result is a small whole number, hence exact -/
theorem cube_sum (a b c : ℕ) (ha : a ≤ 5) (hb : b ≤ 5) (hc : c ≤ 5) :
    M.rnd (M.rnd (M.rnd (16 + M.rnd (36 * (a : ℝ))) + M.rnd (6 * (b : ℝ))) + (c : ℝ))
      = 16 + 36 * (a : ℝ) + 6 * (b : ℝ) + (c : ℝ) := by
  have n : ∀ k : ℕ, k ≤ 255 → M.rnd (k : ℝ) = k := fun k hk =>
    FpErr.rnd_nat M k (le_trans hk (by norm_num))
  rw [show 36 * (a : ℝ) = ((36 * a : ℕ) : ℝ) by push_cast; ring, n _ (by omega),
    show 6 * (b : ℝ) = ((6 * b : ℕ) : ℝ) by push_cast; ring, n _ (by omega),
    show (16 : ℝ) + ((36 * a : ℕ) : ℝ) = ((16 + 36 * a : ℕ) : ℝ) by push_cast; ring, n _ (by omega),
    show ((16 + 36 * a : ℕ) : ℝ) + ((6 * b : ℕ) : ℝ) = ((16 + 36 * a + 6 * b : ℕ) : ℝ) by push_cast; ring,
    n _ (by omega),
    show ((16 + 36 * a + 6 * b : ℕ) : ℝ) + (c : ℝ) = ((16 + 36 * a + 6 * b + c : ℕ) : ℝ) by push_cast; ring,
    n _ (by omega)]

/-! ## the pieces of `Ansi::from_rgb` in the rounded model (compare `Lemmas/QuantB2.lean`) -/

theorem cube_toU8_fp (r g b : ℕ) (hr : r ≤ 255) (hg : g ≤ 255) (hb : b ≤ 255) :
    Real.toU8 (M.rnd (M.rnd (M.rnd (16 + M.rnd (36 * Real.roundHA (M.rnd (M.rnd ((r : ℝ) / 255) * 5))))
        + M.rnd (6 * Real.roundHA (M.rnd (M.rnd ((g : ℝ) / 255) * 5))))
        + Real.roundHA (M.rnd (M.rnd ((b : ℝ) / 255) * 5))))
      = 16 + 36 * ((10 * r + 255) / 510) + 6 * ((10 * g + 255) / 510) + (10 * b + 255) / 510 := by
  rw [scale5_round M r hr, scale5_round M g hg, scale5_round M b hb, ← cube_toU8 r g b hr hg hb,
    roundHA_scale5, roundHA_scale5, roundHA_scale5,
    cube_sum M _ _ _ (by omega) (by omega) (by omega)]

theorem ramp_toU8_fp (v : ℕ) (h8 : 8 ≤ v) (h : v ≤ 248) :
    Real.toU8 (Real.roundHA (M.rnd (M.rnd (M.rnd (M.rnd ((v : ℝ) - 8) / 247) * 24) + 232)))
      = 232 + (48 * (v - 8) + 247) / 494 := by
  rw [ramp_round M v h8 (by omega), ramp_toU8 v h8 h]

theorem bit_toU8_fp (v : ℕ) (h : v ≤ 255) :
    Real.toU8 (Real.roundHA (M.rnd ((v : ℝ) / 255))) = if 128 ≤ v then 1 else 0 := by
  rw [unit_round M v h, bit_toU8 v h]

theorem value_eq_fp (r g b : ℕ) (hr : r ≤ 255) (hg : g ≤ 255) (hb : b ≤ 255) :
    Real.roundHA (M.rnd (M.rnd (M.rnd (max (b : ℝ) (max (r : ℝ) (g : ℝ)) / 255) * 100) / 50))
      = (((4 * max b (max r g) + 255) / 510 : ℕ) : ℝ) := by
  rw [← value_eq r g b, ← Nat.cast_max, ← Nat.cast_max, value_round M _ (by omega)]

end FpMiscB
