import LymuiVerif.Lemmas.OkLabF2
/-!
# Lemmas for the XYZ-derived clauses of C13 (ranges) and C11 (greys)

Everything is about `x = Xyz.from_rgb c D65` (or the Adobe profile for Adobe RGB) of an 8-bit colour.
-/
namespace Lemmas.DerivedF2
open Gen Lemmas.Cie Lemmas.CurvesD2 Lemmas.LightnessF2 Lemmas.OkLabF2 Props.C08

/-! ## lightness ranges -/

/-- `0 ≤ 116 f(y) − 16 ≤ 100 + 5e-6` for `0 ≤ y ≤ 1.0000001` -/
theorem labL_range {y : ℝ} (h0 : 0 ≤ y) (h1 : y ≤ 10000001 / 10000000) :
    0 ≤ 116 * fCode y - 16 ∧ 116 * fCode y - 16 ≤ 100 + 5 / 10 ^ 6 := by
  have m0 : fCode 0 ≤ fCode y := fCode_strictMono.monotone h0
  have m1 : fCode y ≤ fCode (10000001 / 10000000) := fCode_strictMono.monotone h1
  have e0 : fCode 0 = 16 / 116 := by unfold fCode; rw [if_neg (by norm_num)]; ring
  have e1 : fCode (10000001 / 10000000) ≤ 100000004 / 100000000 := by
    unfold fCode
    rw [if_pos (by norm_num), Lemmas.Cie.cbrt_of_nonneg (by norm_num)]
    exact rpow_third_le (by norm_num) (by norm_num) (by norm_num)
  rw [e0] at m0
  constructor <;> linarith

theorem luvL_range {y : ℝ} (h0 : 0 ≤ y) (h1 : y ≤ 10000001 / 10000000) :
    0 ≤ lCodeLuv y ∧ lCodeLuv y ≤ 100 + 5 / 10 ^ 6 := by
  unfold lCodeLuv
  split_ifs with h
  · have k1 : (1 / 5 : ℝ) ≤ y ^ ((1 : ℝ) / 3) := le_rpow_third h0 (by norm_num; linarith)
    have k2 : y ^ ((1 : ℝ) / 3) ≤ 100000004 / 100000000 :=
      rpow_third_le (by norm_num) h0 (by norm_num; linarith)
    constructor <;> linarith
  · rw [not_lt] at h
    constructor <;> linarith

theorem hunterL_range {y : ℝ} (_h0 : 0 ≤ y) (h1 : y ≤ 10000001 / 10000000) :
    0 ≤ (if y = 0 then (0 : ℝ) else 1000 * Real.sqrt (y / 100)) ∧
    (if y = 0 then (0 : ℝ) else 1000 * Real.sqrt (y / 100)) ≤ 100 + 5 / 10 ^ 6 := by
  split_ifs with h
  · constructor <;> norm_num
  · have k : Real.sqrt (y / 100) ≤ 100000005 / 1000000000 := by
      rw [Real.sqrt_le_left (by norm_num)]
      norm_num
      linarith
    have k0 := Real.sqrt_nonneg (y / 100)
    constructor <;> linarith

/-! ## OkLab lightness range -/

theorem cbrt_zero : Real.cbrt 0 = 0 := by
  rw [Lemmas.Cie.cbrt_of_nonneg le_rfl, Real.zero_rpow (by norm_num)]

theorem okL_zero : okL 0 0 0 = 0 := by
  simp [okL, lmsL, lmsM, lmsS, cbrt_zero]

/-- `p22 x ≤ 1.000011` for `x ≤ 1.0000036` -/
theorem p22_le {x : ℝ} (hx : x ≤ 10000036 / 10000000) : p22 x ≤ 1000011 / 1000000 := by
  unfold p22
  have hw : max x 0 ≤ 10000036 / 10000000 := max_le hx (by norm_num)
  have h1 : (max x 0) ^ ((11 : ℝ) / 5) ≤ (10000036 / 10000000 : ℝ) ^ ((11 : ℝ) / 5) :=
    Real.rpow_le_rpow (le_max_right _ _) hw (by norm_num)
  have h2 : (10000036 / 10000000 : ℝ) ^ ((11 : ℝ) / 5) ≤ (10000036 / 10000000 : ℝ) ^ ((3 : ℕ) : ℝ) :=
    Real.rpow_le_rpow_of_exponent_le (by norm_num) (by norm_num)
  rw [Real.rpow_natCast] at h2
  have h3 : (10000036 / 10000000 : ℝ) ^ 3 ≤ 1000011 / 1000000 := by norm_num
  linarith

/-- the OkLab lightness of nonnegative linear components bounded by `1.000011` lies in `[0, 1 + 4e-6]` -/
theorem okL_range {R G B : ℝ} (hR : 0 ≤ R) (hG : 0 ≤ G) (hB : 0 ≤ B) (hR1 : R ≤ 1000011 / 1000000)
    (hG1 : G ≤ 1000011 / 1000000) (hB1 : B ≤ 1000011 / 1000000) :
    0 ≤ okL R G B ∧ okL R G B ≤ 1 + 4 / 10 ^ 6 := by
  constructor
  · have := okL_mono (R := 0) (G := 0) (B := 0) le_rfl le_rfl le_rfl hR hG hB
    rwa [okL_zero] at this
  · have h := okL_mono hR hG hB hR1 hG1 hB1
    refine le_trans h ?_
    unfold okL
    have a1 := cbrt_bounds (x := lmsL (1000011 / 1000000) (1000011 / 1000000) (1000011 / 1000000))
      (a := 1) (b := 10000037 / 10000000) (by norm_num) (by norm_num)
      (by unfold_ok; norm_num) (by unfold_ok; norm_num)
    have a2 := cbrt_bounds (x := lmsM (1000011 / 1000000) (1000011 / 1000000) (1000011 / 1000000))
      (a := 1) (b := 10000037 / 10000000) (by norm_num) (by norm_num)
      (by unfold_ok; norm_num) (by unfold_ok; norm_num)
    have a3 := cbrt_bounds (x := lmsS (1000011 / 1000000) (1000011 / 1000000) (1000011 / 1000000))
      (a := 1) (b := 10000037 / 10000000) (by norm_num) (by norm_num)
      (by unfold_ok; norm_num) (by unfold_ok; norm_num)
    simp only [C.OKL, FltReal.lit_eq]
    norm_num
    linarith [a1.1, a1.2, a2.1, a2.2, a3.1, a3.2]

/-! ## OkLab lightness of (nearly) white -/

/-- `p22 x ≥ 1 − 8e-6` for `x ≥ 1 − 3.6e-6` -/
theorem p22_ge {x : ℝ} (hx : 1 - 36 / 10 ^ 7 ≤ x) : 1 - 8 / 10 ^ 6 ≤ p22 x := by
  unfold p22
  have hw : (1 - 36 / 10 ^ 7 : ℝ) ≤ max x 0 := le_trans hx (le_max_left _ _)
  have h1 : (1 - 36 / 10 ^ 7 : ℝ) ^ ((11 : ℝ) / 5) ≤ (max x 0) ^ ((11 : ℝ) / 5) :=
    Real.rpow_le_rpow (by norm_num) hw (by norm_num)
  have e' : ((11 : ℝ) / 5) = ((11 : ℕ) : ℝ) / ((5 : ℕ) : ℝ) := by norm_num
  have c : (1 - 8 / 10 ^ 6 : ℝ) ≤ (1 - 36 / 10 ^ 7 : ℝ) ^ ((11 : ℝ) / 5) := by
    rw [e']
    exact le_rpow_div 11 5 (by norm_num) (by norm_num) (by norm_num) (by norm_num)
  linarith

/-- linear components all at least `1 − 8e-6`: OkLab lightness at least `1 − 4e-6` -/
theorem okL_lower {R G B : ℝ} (hR : 1 - 8 / 10 ^ 6 ≤ R) (hG : 1 - 8 / 10 ^ 6 ≤ G) (hB : 1 - 8 / 10 ^ 6 ≤ B) :
    1 - 4 / 10 ^ 6 ≤ okL R G B := by
  have h := okL_mono (R := 1 - 8 / 10 ^ 6) (G := 1 - 8 / 10 ^ 6) (B := 1 - 8 / 10 ^ 6)
    (by norm_num) (by norm_num) (by norm_num) hR hG hB
  refine le_trans ?_ h
  unfold okL
  have a1 := cbrt_bounds (x := lmsL (1 - 8 / 10 ^ 6) (1 - 8 / 10 ^ 6) (1 - 8 / 10 ^ 6))
    (a := 1 - 27 / 10 ^ 7) (b := 1) (by norm_num) (by norm_num)
    (by unfold_ok; norm_num) (by unfold_ok; norm_num)
  have a2 := cbrt_bounds (x := lmsM (1 - 8 / 10 ^ 6) (1 - 8 / 10 ^ 6) (1 - 8 / 10 ^ 6))
    (a := 1 - 27 / 10 ^ 7) (b := 1) (by norm_num) (by norm_num)
    (by unfold_ok; norm_num) (by unfold_ok; norm_num)
  have a3 := cbrt_bounds (x := lmsS (1 - 8 / 10 ^ 6) (1 - 8 / 10 ^ 6) (1 - 8 / 10 ^ 6))
    (a := 1 - 27 / 10 ^ 7) (b := 1) (by norm_num) (by norm_num)
    (by unfold_ok; norm_num) (by unfold_ok; norm_num)
  simp only [C.OKL, FltReal.lit_eq]
  norm_num
  linarith [a1.1, a1.2, a2.1, a2.2, a3.1, a3.2]

/-! ## encoded channels -/

/-- decoded 8-bit levels lie in the unit interval -/
theorem dec_unit (k : ℕ) (hk : k ≤ 255) : 0 ≤ decSrgb ((k : ℝ) / 255) ∧ decSrgb ((k : ℝ) / 255) ≤ 1 := by
  have : (k : ℝ) ≤ 255 := by exact_mod_cast hk
  exact decSrgb_unit _ (by positivity) (by rw [div_le_iff₀ (by norm_num)]; linarith)

theorem decA_unit (k : ℕ) (hk : k ≤ 255) : 0 ≤ decAdobe ((k : ℝ) / 255) ∧ decAdobe ((k : ℝ) / 255) ≤ 1 := by
  have : (k : ℝ) ≤ 255 := by exact_mod_cast hk
  exact decAdobe_unit _ (by positivity) (by rw [div_le_iff₀ (by norm_num)]; linarith)

/-- a power `0 ≤ p ≤ 1` of a number in `[0, M]`, `M ≥ 1`, is at most `M` -/
theorem rpow_le_of_le_one_exp {w M p : ℝ} (hw : 0 ≤ w) (hM : 1 ≤ M) (hwM : w ≤ M) (hp0 : 0 ≤ p)
    (hp1 : p ≤ 1) : w ^ p ≤ M := by
  calc w ^ p ≤ M ^ p := Real.rpow_le_rpow hw hwM hp0
    _ ≤ M ^ (1 : ℝ) := Real.rpow_le_rpow_of_exponent_le hM hp1
    _ = M := Real.rpow_one M

/-- BT.709 OETF on `[-1e-6, 1 + 1e-6]` -/
theorem oetf709_range {t : ℝ} (h0 : -(1 / 10 ^ 6) ≤ t) (h1 : t ≤ 1 + 1 / 10 ^ 6) :
    -(1 / 10 ^ 5) ≤ oetf709 t ∧ oetf709 t ≤ 1 + 1 / 10 ^ 5 := by
  unfold oetf709
  split_ifs with h
  · constructor <;> linarith
  · rw [not_lt] at h
    have ht0 : (0 : ℝ) ≤ t := by linarith
    have lo : (0.164 : ℝ) ≤ t ^ (0.45 : ℝ) := by
      rw [e045]
      exact le_rpow_div 9 20 (by norm_num) ht0 (by norm_num)
        (le_trans (by norm_num) (pow_le_pow_left₀ (by norm_num) h 9))
    have hi : t ^ (0.45 : ℝ) ≤ 1 + 1 / 10 ^ 6 :=
      rpow_le_of_le_one_exp ht0 (by norm_num) h1 (by norm_num) (by norm_num)
    constructor <;> linarith

/-- BT.2020 OETF on `[0, 1.0001]` -/
theorem oetf2020_range {t : ℝ} (h0 : 0 ≤ t) (h1 : t ≤ 1 + 1 / 10 ^ 4) :
    0 ≤ oetf2020 t ∧ oetf2020 t ≤ 1 + 2 / 10 ^ 4 := by
  unfold oetf2020 α2020 β2020
  split_ifs with h
  · constructor <;> linarith
  · rw [not_lt] at h
    have lo : (0.164 : ℝ) ≤ t ^ (0.45 : ℝ) := by
      rw [e045]
      exact le_rpow_div 9 20 (by norm_num) h0 (by norm_num)
        (le_trans (by norm_num) (pow_le_pow_left₀ (by norm_num) h 9))
    have hi : t ^ (0.45 : ℝ) ≤ 1 + 1 / 10 ^ 4 :=
      rpow_le_of_le_one_exp h0 (by norm_num) h1 (by norm_num) (by norm_num)
    constructor <;> linarith

/-- the BT.2020 linear components of an sRGB-gamut colour: `XR·(M65·l)` has nonnegative entries and
row sums `1.0000818, 0.9999872, 0.9997857` -/
theorem rec2020_lin_range (a b c : ℝ) (ha : 0 ≤ a ∧ a ≤ 1) (hb : 0 ≤ b ∧ b ≤ 1) (hc : 0 ≤ c ∧ c ≤ 1) :
    (0 ≤ dot C.rec2020_XR (dot C.X65 a b c) (dot C.Y65 a b c) (dot C.Z65 a b c) ∧
      dot C.rec2020_XR (dot C.X65 a b c) (dot C.Y65 a b c) (dot C.Z65 a b c) ≤ 1 + 1 / 10 ^ 4) ∧
    (0 ≤ dot C.XG (dot C.X65 a b c) (dot C.Y65 a b c) (dot C.Z65 a b c) ∧
      dot C.XG (dot C.X65 a b c) (dot C.Y65 a b c) (dot C.Z65 a b c) ≤ 1 + 1 / 10 ^ 4) ∧
    (0 ≤ dot C.XB (dot C.X65 a b c) (dot C.Y65 a b c) (dot C.Z65 a b c) ∧
      dot C.XB (dot C.X65 a b c) (dot C.Y65 a b c) (dot C.Z65 a b c) ≤ 1 + 1 / 10 ^ 4) := by
  obtain ⟨ha0, ha1⟩ := ha
  obtain ⟨hb0, hb1⟩ := hb
  obtain ⟨hc0, hc1⟩ := hc
  simp only [dot, C.X65, C.Y65, C.Z65, C.rec2020_XR, C.XG, C.XB, FltReal.lit_eq]
  norm_num
  refine ⟨⟨?_, ?_⟩, ⟨?_, ?_⟩, ⟨?_, ?_⟩⟩ <;> linarith

end Lemmas.DerivedF2
