import LymuiVerif.Inst.RoundedPartial
import LymuiVerif.Gen.Model
import LymuiVerif.Lemmas.FpErr
/-!
# Definedness in the rounded model (C04 in floating point): lifts, homomorphism lemmas, transfer curves

`RF.lift : RF M → PRF M` embeds a rounded number as a finite number of the partial rounded carrier.  A *bridging*
lemma `f (lift x) = lift (f x)` says: in the `PRF M` run of `f` on finite inputs every division has a non-zero
COMPUTED divisor, every `powf` a non-negative COMPUTED base (positive, when the exponent is not positive), every
`sqrt` a non-negative COMPUTED argument — so that the result is finite and is the `RF M` result.  Everything is for
an arbitrary `M : FPModel`.

Continued in `FpDefinedRgb`, `FpDefinedXyz`, `FpDefinedColour`, `FpDefinedRev`, `FpDefinedLuv`, `FpDefinedPolar`,
`FpDefinedImage`, `FpDefinedCounter` (all in namespace `Lemmas.FpDefined`); property file `Props/C04_fp.lean`.

The homomorphism lemmas `h_*` gather lifts upwards (`lift a + lift b = lift (a + b)`, …); the conditional ones
(`h_div`, `h_pow_pos`, `h_pow_nonneg`, `h_sqrt`, `h_rem`) carry the sign facts as side conditions on `.val`.
-/
set_option linter.unusedSimpArgs false
set_option linter.unusedVariables false
namespace Lemmas.FpDefined
open Gen
variable {M : FPModel}

/-! ## homomorphism lemmas -/
theorem h_add (a b : RF M) : RF.lift a + RF.lift b = RF.lift (a + b) := rfl
theorem h_sub (a b : RF M) : RF.lift a - RF.lift b = RF.lift (a - b) := rfl
theorem h_mul (a b : RF M) : RF.lift a * RF.lift b = RF.lift (a * b) := rfl
theorem h_neg (a : RF M) : -RF.lift a = RF.lift (-a) := rfl
theorem h_div (a b : RF M) (h : b.val ≠ 0) : RF.lift a / RF.lift b = RF.lift (a / b) := by
  simp only [FltPRF.lift_eq, FltPRF.div_fin _ _ h, FltRF.div_val]
theorem h_lit (b : UInt64) (n d : ℕ) : (Flt.lit b n d : PRF M) = RF.lift (Flt.lit b n d) := rfl
theorem h_ofNat (n : ℕ) : (Flt.ofNat n : PRF M) = RF.lift (Flt.ofNat n) := rfl
theorem h_le (a b : RF M) : Flt.le (RF.lift a) (RF.lift b) = Flt.le a b := rfl
theorem h_lt (a b : RF M) : Flt.lt (RF.lift a) (RF.lift b) = Flt.lt a b := rfl
theorem h_beq (a b : RF M) : Flt.beq (RF.lift a) (RF.lift b) = Flt.beq a b := rfl
theorem h_max (a b : RF M) : Flt.max (RF.lift a) (RF.lift b) = RF.lift (Flt.max a b) := rfl
theorem h_min (a b : RF M) : Flt.min (RF.lift a) (RF.lift b) = RF.lift (Flt.min a b) := rfl
theorem h_abs (a : RF M) : Flt.abs (RF.lift a) = RF.lift (Flt.abs a) := rfl
theorem h_round (a : RF M) : Flt.round (RF.lift a) = RF.lift (Flt.round a) := rfl
theorem h_floor (a : RF M) : Flt.floor (RF.lift a) = RF.lift (Flt.floor a) := rfl
theorem h_cbrt (a : RF M) : Flt.cbrt (RF.lift a) = RF.lift (Flt.cbrt a) := rfl
theorem h_atan2 (a b : RF M) : Flt.atan2 (RF.lift a) (RF.lift b) = RF.lift (Flt.atan2 a b) := rfl
theorem h_sin (a : RF M) : Flt.sin (RF.lift a) = RF.lift (Flt.sin a) := rfl
theorem h_cos (a : RF M) : Flt.cos (RF.lift a) = RF.lift (Flt.cos a) := rfl
theorem h_pi : (Flt.pi : PRF M) = RF.lift Flt.pi := rfl
theorem h_toU8 (a : RF M) : Flt.toU8 (RF.lift a) = Flt.toU8 a := rfl
theorem h_pow_pos (a b : RF M) (h : 0 < a.val) : Flt.pow (RF.lift a) (RF.lift b) = RF.lift (Flt.pow a b) := by
  simp only [FltPRF.lift_eq, FltPRF.pow_pos _ _ h, FltRF.pow_val]
theorem h_pow_nonneg (a b : RF M) (h : 0 ≤ a.val) (hb : 0 < b.val) :
    Flt.pow (RF.lift a) (RF.lift b) = RF.lift (Flt.pow a b) := by
  simp only [FltPRF.lift_eq, FltPRF.pow_nonneg _ _ h hb, FltRF.pow_val]
theorem h_sqrt (a : RF M) (h : 0 ≤ a.val) : Flt.sqrt (RF.lift a) = RF.lift (Flt.sqrt a) := by
  simp only [FltPRF.lift_eq, FltPRF.sqrt_nonneg _ h, FltRF.sqrt_val]
theorem h_powi (a : RF M) (n : ℤ) (h : 0 ≤ n) : Flt.powi (RF.lift a) n = RF.lift (Flt.powi a n) := by
  simp only [FltPRF.lift_eq, FltPRF.powi_nonneg _ _ h, FltRF.powi_val]
theorem h_rem (a b : RF M) (h : b.val ≠ 0) : Flt.rem (RF.lift a) (RF.lift b) = RF.lift (Flt.rem a b) := by
  simp only [FltPRF.lift_eq, FltPRF.rem_fin _ _ h, FltRF.rem_val]
theorem h_ite (c : Prop) [Decidable c] (a b : RF M) :
    (if c then RF.lift a else RF.lift b) = RF.lift (if c then a else b) := by
  split_ifs <;> rfl
/-- a two-way branch on a `Bool` test: bridge each arm under its own branch condition -/
theorem ite_bridge {c : Bool} {a b : PRF M} {a' b' : RF M} (ha : c = true → a = RF.lift a')
    (hb : c = false → b = RF.lift b') : (if c = true then a else b) = RF.lift (if c = true then a' else b') := by
  cases c
  · simpa using hb rfl
  · simpa using ha rfl
theorem ite_not_bridge {c : Bool} {a b : PRF M} {a' b' : RF M} (ha : c = false → a = RF.lift a')
    (hb : c = true → b = RF.lift b') : (if (!c) = true then a else b) = RF.lift (if (!c) = true then a' else b') := by
  cases c
  · simpa using ha rfl
  · simpa using hb rfl
theorem ite_map {β γ : Type} (f : β → γ) {c : Bool} {a b : γ} {a' b' : β} (ha : c = true → a = f a')
    (hb : c = false → b = f b') : (if c = true then a else b) = f (if c = true then a' else b') := by
  cases c
  · simpa using hb rfl
  · simpa using ha rfl
theorem ite_not_map {β γ : Type} (f : β → γ) {c : Bool} {a b : γ} {a' b' : β} (ha : c = false → a = f a')
    (hb : c = true → b = f b') : (if (!c) = true then a else b) = f (if (!c) = true then a' else b') := by
  cases c
  · simpa using ha rfl
  · simpa using hb rfl
theorem lift_isFin (a : RF M) : (RF.lift a).isFin = true := rfl

/-! ## signs of rounded values -/
theorem rnd_ge {x : ℝ} (h : 1e-200 ≤ x) : x * (1 - FP.eps) ≤ M.rnd x := by
  have h0 : 0 ≤ x := le_trans (by norm_num) h
  have := (abs_le.mp (FpErr.rnd_abs M (x := x) (B := x) (by rw [abs_of_nonneg h0]) h)).1
  linarith
theorem rnd_le {x : ℝ} (h : 1e-200 ≤ x) : M.rnd x ≤ x * (1 + FP.eps) := by
  have h0 : 0 ≤ x := le_trans (by norm_num) h
  have := (abs_le.mp (FpErr.rnd_abs M (x := x) (B := x) (by rw [abs_of_nonneg h0]) h)).2
  linarith
theorem rnd_pos {x : ℝ} (h : 1e-200 ≤ x) : 0 < M.rnd x := by
  have h0 : 0 < x := lt_of_lt_of_le (by norm_num) h
  have := rnd_ge (M := M) h
  have : 0 < x * (1 - FP.eps) := mul_pos h0 (by unfold FP.eps; norm_num)
  linarith
/-- rounding keeps at least half of a normal positive number -/
theorem rnd_half {x : ℝ} (h : 1e-200 ≤ x) : x / 2 ≤ M.rnd x := by
  have h0 : 0 ≤ x := le_trans (by norm_num) h
  have := rnd_ge (M := M) h
  have e : FP.eps = 1.2e-16 := rfl
  rw [e] at this; nlinarith
theorem rnd_twice {x : ℝ} (h : 1e-200 ≤ x) : M.rnd x ≤ 2 * x := by
  have h0 : 0 ≤ x := le_trans (by norm_num) h
  have := rnd_le (M := M) h
  have e : FP.eps = 1.2e-16 := rfl
  rw [e] at this; nlinarith
theorem lit_pos (b : UInt64) (n d : ℕ) (h : 1e-200 ≤ (n : ℝ) / d) : 0 < (Flt.lit b n d : RF M).val := rnd_pos h
theorem lit_ne (b : UInt64) (n d : ℕ) (h : 1e-200 ≤ (n : ℝ) / d) : (Flt.lit b n d : RF M).val ≠ 0 :=
  (lit_pos b n d h).ne'
theorem lit_nonneg (b : UInt64) (n d : ℕ) : 0 ≤ (Flt.lit b n d : RF M).val :=
  FpErr.rnd_nonneg M (by positivity)
theorem lit_zero (b : UInt64) : (Flt.lit b 0 1 : RF M).val = 0 := by
  simp only [FltRF.lit_val, Nat.cast_zero, zero_div, FpErr.rnd_zero]
theorem lit_int_val (b : UInt64) (n : ℕ) (h : n ≤ 2 ^ 53) : (Flt.lit b n 1 : RF M).val = n := FpErr.lit_int M n h
/-- an exponent written `1.0 / c` is positive -/
theorem one_div_lit_pos (b b' : UInt64) (n d : ℕ) (h1 : 1e-200 ≤ (n : ℝ) / d) (h2 : (n : ℝ) / d ≤ 1000) :
    0 < (Flt.lit b' 1 1 / Flt.lit b n d : RF M).val := by
  simp only [FltRF.div_val]
  rw [lit_int_val b' 1 (by norm_num)]
  have p := lit_pos (M := M) b n d h1
  have q : (Flt.lit b n d : RF M).val ≤ ((1000 : ℕ) : ℝ) :=
    FpErr.rnd_le_nat M 1000 (by norm_num) (by push_cast; exact h2)
  apply rnd_pos
  have : (1 : ℝ) / 1000 ≤ ((1 : ℕ) : ℝ) / (Flt.lit b n d : RF M).val := by
    push_cast at q ⊢
    rw [div_le_div_iff₀ (by norm_num) p]; linarith
  exact le_trans (by norm_num) this

/-- discharges the side conditions that only involve literals -/
macro "lit_side" : tactic => `(tactic| first
  | assumption
  | (apply lit_ne; norm_num)
  | (apply lit_pos; norm_num)
  | (apply one_div_lit_pos <;> norm_num)
  | (apply lit_nonneg))

/-- `0 ≤ (e).val` for an expression built from non-negative parts by rounded `+ * /`, `sqrt`, `max _ 0` -/
macro "fp_nonneg" : tactic => `(tactic| (
  simp only [FltRF.add_val, FltRF.mul_val, FltRF.div_val, FltRF.sqrt_val, FltRF.max_val, FltRF.abs_val]
  repeat' (first
    | assumption
    | exact le_of_lt (by assumption)
    | apply lit_nonneg
    | apply FpErr.rnd_nonneg
    | apply add_nonneg
    | apply div_nonneg
    | apply mul_nonneg
    | apply Real.sqrt_nonneg
    | apply abs_nonneg
    | exact le_max_right _ _
    | exact le_max_of_le_right (lit_nonneg _ _ _))))

macro "fp_side" : tactic => `(tactic| first | lit_side | fp_nonneg)

/-! ## lifts of the colour structures -/
def liftCymk (p : Cymk (RF M)) : Cymk (PRF M) := ⟨RF.lift p.c, RF.lift p.y, RF.lift p.m, RF.lift p.k⟩
def liftHsl (p : Hsl (RF M)) : Hsl (PRF M) := ⟨RF.lift p.h, RF.lift p.s, RF.lift p.l⟩
def liftHsv (p : Hsv (RF M)) : Hsv (PRF M) := ⟨RF.lift p.h, RF.lift p.s, RF.lift p.v⟩
def liftHwb (p : Hwb (RF M)) : Hwb (PRF M) := ⟨RF.lift p.h, RF.lift p.w, RF.lift p.b⟩
def liftYuv (p : Yuv (RF M)) : Yuv (PRF M) := ⟨RF.lift p.y, RF.lift p.u, RF.lift p.v⟩
def liftSrgb (p : Srgb (RF M)) : Srgb (PRF M) := ⟨RF.lift p.r, RF.lift p.g, RF.lift p.b⟩
def liftArgb (p : Argb (RF M)) : Argb (PRF M) := ⟨RF.lift p.r, RF.lift p.g, RF.lift p.b⟩
def liftXyz (p : Xyz (RF M)) : Xyz (PRF M) := ⟨RF.lift p.x, RF.lift p.y, RF.lift p.z⟩
def liftLab (p : Lab (RF M)) : Lab (PRF M) := ⟨RF.lift p.l, RF.lift p.a, RF.lift p.b⟩
def liftLchlab (p : Lchlab (RF M)) : Lchlab (PRF M) := ⟨RF.lift p.l, RF.lift p.c, RF.lift p.h⟩
def liftLuv (p : Luv (RF M)) : Luv (PRF M) := ⟨RF.lift p.l, RF.lift p.u, RF.lift p.v⟩
def liftLchuv (p : Lchuv (RF M)) : Lchuv (PRF M) := ⟨RF.lift p.l, RF.lift p.c, RF.lift p.h⟩
def liftHcl (p : Hcl (RF M)) : Hcl (PRF M) := ⟨RF.lift p.h, RF.lift p.c, RF.lift p.l⟩
def liftHlab (p : Hlab (RF M)) : Hlab (PRF M) := ⟨RF.lift p.l, RF.lift p.a, RF.lift p.b⟩
def liftXyy (p : Xyy (RF M)) : Xyy (PRF M) := ⟨RF.lift p.x, RF.lift p.y, RF.lift p._y⟩
def liftOkLab (p : OkLab (RF M)) : OkLab (PRF M) := ⟨RF.lift p.l, RF.lift p.a, RF.lift p.b⟩
def liftOkLch (p : OkLch (RF M)) : OkLch (PRF M) := ⟨RF.lift p.l, RF.lift p.c, RF.lift p.h⟩
def liftRec709 (p : Rec709 (RF M)) : Rec709 (PRF M) := ⟨RF.lift p.r, RF.lift p.g, RF.lift p.b⟩
def liftRec2020 (p : Rec2020 (RF M)) : Rec2020 (PRF M) := ⟨RF.lift p.r, RF.lift p.g, RF.lift p.b⟩
def liftRec2100 (p : Rec2100 (RF M)) : Rec2100 (PRF M) := ⟨RF.lift p.r, RF.lift p.g, RF.lift p.b⟩

/-! ## transfer curves: defined for EVERY finite input, in every model

The branch test is on the computed argument itself, so the `powf` arm is only reached with a base that is
positive (or `≥` a non-negative threshold, with a positive exponent). -/

theorem srgb_expand (x : RF M) :
    F64.compute_srgb_gamma_expanded (RF.lift x) = RF.lift (F64.compute_srgb_gamma_expanded x) := by
  unfold F64.compute_srgb_gamma_expanded
  simp only [h_lit, h_le]
  refine ite_bridge (fun h => ?_) (fun h => ?_)
  · simp (disch := lit_side) only [h_div]
  · simp only [FltRF.le_eq, decide_eq_false_iff_not, not_le] at h
    have hx : 0 < x.val := lt_of_le_of_lt (lit_nonneg _ _ _) h
    simp (disch := fp_side) only [h_add, h_div, h_pow_nonneg]

theorem srgb_correct (x : RF M) :
    F64.apply_srgb_gamma_correction (RF.lift x) = RF.lift (F64.apply_srgb_gamma_correction x) := by
  unfold F64.apply_srgb_gamma_correction
  simp only [h_lit, h_le]
  refine ite_bridge (fun h => ?_) (fun h => ?_)
  · simp only [h_mul]
  · simp only [FltRF.le_eq, decide_eq_false_iff_not, not_le] at h
    have hx : 0 < x.val := lt_of_le_of_lt (lit_nonneg _ _ _) h
    simp (disch := fp_side) only [h_add, h_sub, h_mul, h_div, h_pow_pos]

theorem argb_gamma (x : RF M) :
    F64.compute_argb_gamma (RF.lift x) = RF.lift (F64.compute_argb_gamma x) := by
  unfold F64.compute_argb_gamma
  simp only [h_lit, h_le]
  refine ite_bridge (fun h => ?_) (fun h => ?_)
  · rfl
  · simp only [FltRF.le_eq, decide_eq_false_iff_not, not_le] at h
    have hx : 0 < x.val := lt_of_le_of_lt (lit_nonneg _ _ _) h
    simp (disch := fp_side) only [h_pow_pos]

theorem argb_expand (x : RF M) :
    F64.compute_argb_gamma_expanded (RF.lift x) = RF.lift (F64.compute_argb_gamma_expanded x) := by
  unfold F64.compute_argb_gamma_expanded
  simp only [h_lit, h_le]
  refine ite_bridge (fun h => ?_) (fun h => ?_)
  · rfl
  · simp only [FltRF.le_eq, decide_eq_false_iff_not, not_le] at h
    have hx : 0 < x.val := lt_of_le_of_lt (lit_nonneg _ _ _) h
    simp (disch := fp_side) only [h_div, h_pow_pos]

theorem rec709_correct (x : RF M) :
    F64.compute_rec709_gamma_correction (RF.lift x) = RF.lift (F64.compute_rec709_gamma_correction x) := by
  unfold F64.compute_rec709_gamma_correction
  simp only [h_lit, h_lt]
  refine ite_bridge (fun h => ?_) (fun h => ?_)
  · simp only [h_mul]
  · simp only [FltRF.lt_eq, decide_eq_false_iff_not, not_lt] at h
    have hx : 0 ≤ x.val := le_trans (lit_nonneg _ _ _) h
    simp (disch := fp_side) only [h_sub, h_mul, h_pow_nonneg]

theorem rec709_expand (x : RF M) :
    F64.compute_rec709_gamma_expanded (RF.lift x) = RF.lift (F64.compute_rec709_gamma_expanded x) := by
  unfold F64.compute_rec709_gamma_expanded
  simp only [h_lit, h_lt]
  refine ite_bridge (fun h => ?_) (fun h => ?_)
  · simp (disch := lit_side) only [h_div]
  · simp only [FltRF.lt_eq, decide_eq_false_iff_not, not_lt] at h
    have hx : 0 ≤ x.val := le_trans (lit_nonneg _ _ _) h
    simp (disch := fp_side) only [h_add, h_div, h_pow_nonneg]

theorem rec2020_correct (x : RF M) :
    F64.compute_rec2020_gamma_correction (RF.lift x) = RF.lift (F64.compute_rec2020_gamma_correction x) := by
  unfold F64.compute_rec2020_gamma_correction
  simp only [h_lit, h_lt]
  refine ite_bridge (fun h => ?_) (fun h => ?_)
  · simp only [h_mul]
  · simp only [FltRF.lt_eq, decide_eq_false_iff_not, not_lt] at h
    have hx : 0 ≤ x.val := le_trans (lit_nonneg _ _ _) h
    simp (disch := fp_side) only [h_sub, h_mul, h_pow_nonneg]

theorem rec2020_expand (x : RF M) :
    F64.compute_rec2020_gamma_expanded (RF.lift x) = RF.lift (F64.compute_rec2020_gamma_expanded x) := by
  unfold F64.compute_rec2020_gamma_expanded
  simp only [h_lit, h_lt]
  refine ite_bridge (fun h => ?_) (fun h => ?_)
  · simp (disch := lit_side) only [h_div]
  · simp only [FltRF.lt_eq, decide_eq_false_iff_not, not_lt] at h
    have hx : 0 ≤ x.val := le_trans (lit_nonneg _ _ _) h
    -- `α - 1.0 ≥ 0` computed: `rnd α ≥ 1` because rounding does not cross the integer 1
    have hd : ∀ (b b' : UInt64) (n d : ℕ), (1 : ℝ) ≤ (n : ℝ) / d → 0 ≤ (Flt.lit b n d - Flt.lit b' 1 1 : RF M).val := by
      intro b b' n d hnd
      simp only [FltRF.sub_val]
      rw [lit_int_val b' 1 (by norm_num)]
      apply FpErr.rnd_nonneg
      have := FpErr.nat_le_rnd M 1 (by norm_num) (x := (n : ℝ) / d) (by push_cast; exact hnd)
      simp only [FltRF.lit_val]; push_cast at this ⊢; linarith
    have hd' := hd 0x3FF196BB98C7E282 0x3FF0000000000000 10993 10000 (by norm_num)
    simp (disch := fp_side) only [h_add, h_sub, h_div, h_pow_nonneg]

/-! ## PQ curves: defined for every NON-NEGATIVE finite input, in every model

`M.pow` of a non-negative base may come out as a tiny negative number (the model only bounds its error), so the sign of
`divider = (c2 - c3·…)·e` is argued from the numerator: `max(e - c1, 0)` is positive only if `e > c1 ≥ 0`. -/

theorem pq_eotf_nonneg (x : RF M) (hx : 0 ≤ x.val) : F64.pq_eotf (RF.lift x) = RF.lift (F64.pq_eotf x) := by
  unfold F64.pq_eotf
  have e1 : Flt.pow (RF.lift x) ((Flt.lit 0x3FF0000000000000 1 1) / (Flt.lit 0x4053B60000000000 2523 32)) =
      RF.lift (Flt.pow x ((Flt.lit 0x3FF0000000000000 1 1) / (Flt.lit 0x4053B60000000000 2523 32))) := by
    simp (disch := fp_side) only [h_lit, h_div, h_pow_nonneg]
  simp only [e1]
  generalize (Flt.pow x ((Flt.lit 0x3FF0000000000000 1 1) / (Flt.lit 0x4053B60000000000 2523 32)) : RF M) = e
  simp only [h_lit, h_sub, h_mul, h_max, h_beq]
  refine ite_bridge (fun h => ?_) (fun h => ?_)
  · rfl
  · simp only [FltRF.beq_eq, decide_eq_false_iff_not, lit_zero] at h
    have hexp : 0 < (Flt.lit 0x3FF0000000000000 1 1 / Flt.lit 0x3FC4640000000000 1305 8192 : RF M).val := by lit_side
    have hk : 0 ≤ (Flt.lit 0x4032DA0000000000 2413 128 - Flt.lit 0x4032B00000000000 299 16 : RF M).val := by
      simp only [FltRF.sub_val, FltRF.lit_val]
      apply FpErr.rnd_nonneg
      have : M.rnd (((299 : ℕ) : ℝ) / ((16 : ℕ) : ℝ)) ≤ M.rnd (((2413 : ℕ) : ℝ) / ((128 : ℕ) : ℝ)) :=
        M.rnd_mono (by norm_num)
      linarith
    have hq : 0 ≤ (Flt.max (e - Flt.lit 0x3FEAC00000000000 107 128) (Flt.lit 0x0000000000000000 0 1) /
        ((Flt.lit 0x4032DA0000000000 2413 128 - Flt.lit 0x4032B00000000000 299 16) * e) : RF M).val := by
      simp only [FltRF.div_val]
      apply FpErr.rnd_nonneg
      by_cases he : e.val ≤ (Flt.lit 0x3FEAC00000000000 107 128 : RF M).val
      · have : (Flt.max (e - Flt.lit 0x3FEAC00000000000 107 128) (Flt.lit 0x0000000000000000 0 1) : RF M).val = 0 := by
          simp only [FltRF.max_val, FltRF.sub_val, lit_zero]
          exact max_eq_right (FpErr.rnd_nonpos M (by linarith))
        rw [this, zero_div]
      · have he0 : 0 ≤ e.val := le_trans (lit_nonneg _ _ _) (not_le.mp he).le
        apply div_nonneg
        · simp only [FltRF.max_val, lit_zero]; exact le_max_right _ _
        · simp only [FltRF.mul_val]; exact FpErr.rnd_nonneg M (mul_nonneg hk he0)
    simp (disch := fp_side) only [h_div, h_mul, h_pow_nonneg]

end Lemmas.FpDefined
