import LymuiVerif.Inst.Real
import LymuiVerif.Lemmas.Rpow
/-!
# The transfer curves of `xyz/transfer.rs` at ℝ and the 8-bit quantiser

All statements are about the GENERATED functions `F64.compute_srgb_gamma_expanded` (sRGB decode),
`F64.apply_srgb_gamma_correction` (sRGB encode), `F64.compute_argb_gamma` (Adobe decode) and
`F64.compute_argb_gamma_expanded` (Adobe encode).
-/
namespace Lemmas.Curves
open Gen Lemmas.Rpow

/-! ## closed forms (definitional unfolding; a changed threshold, slope or exponent breaks them) -/

theorem srgb_dec_eq (v : ℝ) : F64.compute_srgb_gamma_expanded v =
    if v ≤ 0.04045 then v / 12.92 else ((v + 0.055) / 1.055) ^ (2.4 : ℝ) := by
  simp only [F64.compute_srgb_gamma_expanded, FltReal.lit_eq, FltReal.le_eq, FltReal.pow_eq,
    decide_eq_true_eq]
  norm_num
  -- indifferent to the order of commutative operands in the source
  try (split_ifs <;> ring)

theorem srgb_enc_eq (v : ℝ) : F64.apply_srgb_gamma_correction v =
    if v ≤ 0.0031308 then v * 12.92 else 1.055 * v ^ ((1 : ℝ) / 2.4) - 0.055 := by
  simp only [F64.apply_srgb_gamma_correction, FltReal.lit_eq, FltReal.le_eq, FltReal.pow_eq,
    decide_eq_true_eq]
  norm_num
  -- indifferent to the order of commutative operands in the source
  try (split_ifs <;> ring)

theorem argb_dec_eq (v : ℝ) : F64.compute_argb_gamma v =
    if v ≤ 0 then 0 else v ^ ((563 : ℝ) / 256) := by
  simp only [F64.compute_argb_gamma, FltReal.lit_eq, FltReal.le_eq, FltReal.pow_eq,
    decide_eq_true_eq]
  norm_num
  -- indifferent to the order of commutative operands in the source
  try (split_ifs <;> ring)

theorem argb_enc_eq (v : ℝ) : F64.compute_argb_gamma_expanded v =
    if v ≤ 0 then 0 else v ^ ((1 : ℝ) / ((563 : ℝ) / 256)) := by
  simp only [F64.compute_argb_gamma_expanded, FltReal.lit_eq, FltReal.le_eq, FltReal.pow_eq,
    decide_eq_true_eq]
  norm_num
  -- indifferent to the order of commutative operands in the source
  try (split_ifs <;> ring)

theorem srgb_dec_lin {v : ℝ} (h : v ≤ 0.04045) : F64.compute_srgb_gamma_expanded v = v / 12.92 := by
  rw [srgb_dec_eq, if_pos h]

theorem srgb_dec_pow {v : ℝ} (h : 0.04045 < v) :
    F64.compute_srgb_gamma_expanded v = ((v + 0.055) / 1.055) ^ (2.4 : ℝ) := by
  rw [srgb_dec_eq, if_neg (not_le.mpr h)]

theorem srgb_enc_lin {v : ℝ} (h : v ≤ 0.0031308) : F64.apply_srgb_gamma_correction v = v * 12.92 := by
  rw [srgb_enc_eq, if_pos h]

theorem srgb_enc_pow {v : ℝ} (h : 0.0031308 < v) :
    F64.apply_srgb_gamma_correction v = 1.055 * v ^ ((1 : ℝ) / 2.4) - 0.055 := by
  rw [srgb_enc_eq, if_neg (not_le.mpr h)]

/-- for nonnegative input the Adobe decode is the pure power `v ^ (563/256)` (the guard `v ≤ 0 ↦ 0`
agrees with it at 0 because `0 ^ (563/256) = 0`). -/
theorem argb_dec_nonneg {v : ℝ} (h : 0 ≤ v) : F64.compute_argb_gamma v = v ^ ((563 : ℝ) / 256) := by
  rw [argb_dec_eq]
  split_ifs with h0
  · have : v = 0 := le_antisymm h0 h
    rw [this, Real.zero_rpow (by norm_num)]
  · rfl

theorem argb_enc_pos {v : ℝ} (h : 0 < v) :
    F64.compute_argb_gamma_expanded v = v ^ ((1 : ℝ) / ((563 : ℝ) / 256)) := by
  rw [argb_enc_eq, if_neg (not_le.mpr h)]

theorem argb_enc_nonpos {v : ℝ} (h : v ≤ 0) : F64.compute_argb_gamma_expanded v = 0 := by
  rw [argb_enc_eq, if_pos h]

/-! ## numeric facts (integer-power comparisons) -/

private theorem e24 : (2.4 : ℝ) = ((12 : ℕ) : ℝ) / ((5 : ℕ) : ℝ) := by norm_num
private theorem e14 : (2.4 : ℝ) - 1 = ((7 : ℕ) : ℝ) / ((5 : ℕ) : ℝ) := by norm_num
private theorem eA : (563 : ℝ) / 256 = ((563 : ℕ) : ℝ) / ((256 : ℕ) : ℝ) := by norm_num
private theorem eA1 : (563 : ℝ) / 256 - 1 = ((307 : ℕ) : ℝ) / ((256 : ℕ) : ℝ) := by norm_num
private theorem eAi : (1 : ℝ) / ((563 : ℝ) / 256) = ((256 : ℕ) : ℝ) / ((563 : ℕ) : ℝ) := by norm_num

/-- the sRGB decode jumps UP at its threshold: linear value < power value at 0.04045 -/
theorem srgb_threshold_gap : (0.04045 : ℝ) / 12.92 < ((0.04045 + 0.055) / 1.055) ^ (2.4 : ℝ) := by
  rw [e24]
  exact lt_rpow_of_pow_lt (by norm_num) (by norm_num) 12 5 (by norm_num) (by norm_num)

/-- `A(10.6)^2.4 > 0.0031308` where `A(w) = (w/255 + 0.055)/1.055` -/
theorem srgb_fact_branch : (0.0031308 : ℝ) < ((10.6 / 255 + 0.055) / 1.055) ^ (2.4 : ℝ) := by
  rw [e24]
  exact lt_rpow_of_pow_lt (by norm_num) (by norm_num) 12 5 (by norm_num) (by norm_num)

/-- slope constant of the sRGB power branch from level 10.6 on: `A(10.6)^1.4 ≥ 0.035` -/
theorem srgb_fact_slope : (0.035 : ℝ) ≤ ((10.6 / 255 + 0.055) / 1.055) ^ ((2.4 : ℝ) - 1) := by
  rw [e14]
  exact le_rpow_of_pow_le (by norm_num) (by norm_num) 7 5 (by norm_num) (by norm_num)

set_option exponentiation.threshold 600 in
/-- slope constant of the Adobe decode from level 0.6 on: `(0.6/255)^(307/256) ≥ 7e-4` -/
theorem argb_fact_slope : (7e-4 : ℝ) ≤ ((0.6 : ℝ) / 255) ^ ((563 : ℝ) / 256 - 1) := by
  rw [eA1]
  exact le_rpow_of_pow_le (by norm_num) (by norm_num) 307 256 (by norm_num) (by norm_num)

set_option exponentiation.threshold 600 in
/-- level 0 of the Adobe encode: `(3e-7)^(256/563) ≤ 0.4/255` -/
theorem argb_fact_zero : ((3e-7 : ℝ)) ^ ((1 : ℝ) / ((563 : ℝ) / 256)) ≤ 0.4 / 255 := by
  rw [eAi]
  exact rpow_le_of_le_pow (by norm_num) (by norm_num) 256 563 (by norm_num) (by norm_num)

/-! ## the 8-bit quantiser `(v).round() as u8` -/

theorem toU8_natCast (n : ℕ) (hn : n ≤ 255) : Real.toU8 (n : ℝ) = n := by
  unfold Real.toU8
  split_ifs with h0 h1
  · have : (n : ℝ) = 0 := le_antisymm h0 (Nat.cast_nonneg n)
    exact_mod_cast this.symm
  · have : 255 ≤ n := by exact_mod_cast h1
    omega
  · exact Nat.floor_natCast n

/-- a value within 1/2 of the level `n ≤ 255` is quantised to `n` -/
theorem quant_eq (n : ℕ) (hn : n ≤ 255) (y : ℝ) (h : |y - n| < 1 / 2) :
    Real.toU8 (Real.roundHA y) = n := by
  obtain ⟨h1, h2⟩ := abs_lt.mp h
  have hr : Real.roundHA y = (n : ℝ) := by
    unfold Real.roundHA
    split_ifs with h0
    · have : ⌊y + 1 / 2⌋ = (n : ℤ) := by
        rw [Int.floor_eq_iff]; push_cast; constructor <;> linarith
      rw [this]; norm_cast
    · rw [not_le] at h0
      have hn0 : (n : ℝ) = 0 := by
        have : (n : ℝ) < 1 / 2 := by linarith
        have : n < 1 := by exact_mod_cast (by linarith : (n : ℝ) < 1)
        have : n = 0 := by omega
        simp [this]
      have : ⌊-y + 1 / 2⌋ = (0 : ℤ) := by
        rw [Int.floor_eq_iff]; push_cast; constructor <;> linarith
      rw [this, hn0]; simp
  rw [hr, toU8_natCast n hn]

/-- the quantiser clamps below: a non-positive value gives 0 -/
theorem quant_low (y : ℝ) (h : y ≤ 0) : Real.toU8 (Real.roundHA y) = 0 := by
  have hr : Real.roundHA y ≤ 0 := by
    unfold Real.roundHA
    split_ifs with h0
    · have hy : y = 0 := le_antisymm h h0
      have : ⌊y + 1 / 2⌋ = (0 : ℤ) := by
        rw [Int.floor_eq_iff, hy]; norm_num
      rw [this]; simp
    · have : (0 : ℤ) ≤ ⌊-y + 1 / 2⌋ := Int.floor_nonneg.mpr (by linarith)
      have : (0 : ℝ) ≤ (⌊-y + 1 / 2⌋ : ℝ) := by exact_mod_cast this
      linarith
  unfold Real.toU8
  rw [if_pos hr]

/-- the quantiser clamps above: a value of at least 255 gives 255 -/
theorem quant_high (y : ℝ) (h : 255 ≤ y) : Real.toU8 (Real.roundHA y) = 255 := by
  have hr : 255 ≤ Real.roundHA y := by
    unfold Real.roundHA
    rw [if_pos (by linarith)]
    have : (255 : ℤ) ≤ ⌊y + 1 / 2⌋ := Int.le_floor.mpr (by push_cast; linarith)
    exact_mod_cast this
  unfold Real.toU8
  rw [if_neg (by linarith), if_pos hr]

/-! ## monotonicity and range of the decode curves -/

theorem srgb_dec_strictMono : StrictMono (F64.compute_srgb_gamma_expanded (α := ℝ)) := by
  intro a b hab
  by_cases hb : b ≤ 0.04045
  · rw [srgb_dec_lin hb, srgb_dec_lin (by linarith)]
    exact div_lt_div_of_pos_right hab (by norm_num)
  · rw [not_le] at hb
    by_cases ha : a ≤ 0.04045
    · rw [srgb_dec_lin ha, srgb_dec_pow hb]
      have h1 : a / 12.92 ≤ (0.04045 : ℝ) / 12.92 := div_le_div_of_nonneg_right ha (by norm_num)
      have h2 : ((0.04045 + 0.055) / 1.055 : ℝ) ^ (2.4 : ℝ) ≤ ((b + 0.055) / 1.055) ^ (2.4 : ℝ) :=
        Real.rpow_le_rpow (by norm_num) (div_le_div_of_nonneg_right (by linarith) (by norm_num))
          (by norm_num)
      linarith [srgb_threshold_gap]
    · rw [not_le] at ha
      rw [srgb_dec_pow ha, srgb_dec_pow hb]
      exact Real.rpow_lt_rpow (div_nonneg (by linarith) (by norm_num))
        (div_lt_div_of_pos_right (by linarith) (by norm_num)) (by norm_num)

theorem srgb_dec_zero : F64.compute_srgb_gamma_expanded (0 : ℝ) = 0 := by
  rw [srgb_dec_lin (by norm_num)]; norm_num

theorem srgb_dec_one : F64.compute_srgb_gamma_expanded (1 : ℝ) = 1 := by
  rw [srgb_dec_pow (by norm_num)]; norm_num

theorem argb_dec_strictMonoOn :
    StrictMonoOn (F64.compute_argb_gamma (α := ℝ)) (Set.Ici 0) := by
  intro a ha b hb hab
  rw [argb_dec_nonneg ha, argb_dec_nonneg hb]
  exact Real.rpow_lt_rpow ha hab (by norm_num)

theorem argb_dec_zero : F64.compute_argb_gamma (0 : ℝ) = 0 := by
  rw [argb_dec_eq, if_pos le_rfl]

theorem argb_dec_one : F64.compute_argb_gamma (1 : ℝ) = 1 := by
  rw [argb_dec_nonneg (by norm_num)]; norm_num

/-! ## stability of encode ∘ decode at the 8-bit levels (no calculus: Bernoulli + power facts) -/

/-- **stability of the sRGB pair at the 8-bit levels**: a linear-light error of at most `3e-7`
moves the re-encoded level `n` by at most 0.4 (in fact ≈ 1e-3). -/
theorem srgb_stable (n : ℕ) (hn : n ≤ 255) (δ : ℝ) (hδ : |δ| ≤ 3e-7) :
    |F64.apply_srgb_gamma_correction (F64.compute_srgb_gamma_expanded ((n : ℝ) / 255) + δ) * 255 - n|
      ≤ 0.4 := by
  obtain ⟨hδ1, hδ2⟩ := abs_le.mp hδ
  have hn' : (n : ℝ) ≤ 255 := by exact_mod_cast hn
  by_cases h10 : n ≤ 10
  · have h10' : (n : ℝ) ≤ 10 := by exact_mod_cast h10
    have hn0 : (0 : ℝ) ≤ n := Nat.cast_nonneg n
    have e1 : (n : ℝ) / 255 / 12.92 = (n : ℝ) * (5 / 16473) := by ring
    rw [srgb_dec_lin (by linarith), srgb_enc_lin (by rw [e1]; linarith)]
    have key : ((n : ℝ) / 255 / 12.92 + δ) * 12.92 * 255 - n = δ * 3294.6 := by ring
    rw [key, abs_le]; constructor <;> linarith
  · rw [not_le] at h10
    have h11 : (11 : ℝ) ≤ n := by exact_mod_cast h10
    set A : ℝ := ((n : ℝ) / 255 + 0.055) / 1.055 with hA
    set Am : ℝ := (((n : ℝ) - 0.4) / 255 + 0.055) / 1.055 with hAm
    set Ap : ℝ := (((n : ℝ) + 0.4) / 255 + 0.055) / 1.055 with hAp
    set A0 : ℝ := ((10.6 : ℝ) / 255 + 0.055) / 1.055 with hA0
    have hA0pos : 0 < A0 := by rw [hA0]; norm_num
    have h0m : A0 ≤ Am := by rw [hA0, hAm]; apply div_le_div_of_nonneg_right _ (by norm_num); linarith
    have hmA : Am ≤ A := by rw [hA, hAm]; apply div_le_div_of_nonneg_right _ (by norm_num); linarith
    have hAp' : A ≤ Ap := by rw [hA, hAp]; apply div_le_div_of_nonneg_right _ (by norm_num); linarith
    have hdm : A - Am = 0.4 / 255 / 1.055 := by rw [hA, hAm]; ring
    have hdp : Ap - A = 0.4 / 255 / 1.055 := by rw [hA, hAp]; ring
    have hAmpos : 0 < Am := lt_of_lt_of_le hA0pos h0m
    have s1 := rpow_step_lb (p := 2.4) hA0pos h0m hmA (by norm_num) srgb_fact_slope
    have s2 := rpow_step_lb (p := 2.4) hA0pos (h0m.trans hmA) hAp' (by norm_num) srgb_fact_slope
    rw [hdm] at s1; rw [hdp] at s2
    have hb0 : A0 ^ (2.4 : ℝ) ≤ Am ^ (2.4 : ℝ) := Real.rpow_le_rpow hA0pos.le h0m (by norm_num)
    have hbr := srgb_fact_branch
    rw [srgb_dec_pow (by linarith)]
    rw [← hA]
    set t : ℝ := A ^ (2.4 : ℝ) + δ with ht
    have ht1 : Am ^ (2.4 : ℝ) ≤ t := by rw [ht]; norm_num at s1 ⊢; linarith
    have ht2 : t ≤ Ap ^ (2.4 : ℝ) := by rw [ht]; norm_num at s2 ⊢; linarith
    have htpos : 0.0031308 < t := by linarith
    rw [srgb_enc_pow htpos]
    have r1 : Am ≤ t ^ ((1 : ℝ) / 2.4) := by
      have := Real.rpow_le_rpow (Real.rpow_nonneg hAmpos.le _) ht1 (by norm_num : (0:ℝ) ≤ 1 / 2.4)
      rwa [rpow_rpow_inv hAmpos.le (by norm_num)] at this
    have r2 : t ^ ((1 : ℝ) / 2.4) ≤ Ap := by
      have := Real.rpow_le_rpow (by linarith) ht2 (by norm_num : (0:ℝ) ≤ 1 / 2.4)
      rwa [rpow_rpow_inv (by linarith) (by norm_num)] at this
    have em : 1.055 * Am = ((n : ℝ) - 0.4) / 255 + 0.055 := by rw [hAm]; field_simp
    have ep : 1.055 * Ap = ((n : ℝ) + 0.4) / 255 + 0.055 := by rw [hAp]; field_simp
    rw [abs_le]; constructor <;> linarith

/-- **stability of the Adobe pair at the 8-bit levels**: a linear-light error of at most `3e-7`
moves the re-encoded level `n` by at most 0.4 (the worst case is level 0, where the encode has
unbounded slope: `255·(3e-7)^(256/563) ≈ 0.28`). -/
theorem argb_stable (n : ℕ) (hn : n ≤ 255) (δ : ℝ) (hδ : |δ| ≤ 3e-7) :
    |F64.compute_argb_gamma_expanded (F64.compute_argb_gamma ((n : ℝ) / 255) + δ) * 255 - n|
      ≤ 0.4 := by
  obtain ⟨hδ1, hδ2⟩ := abs_le.mp hδ
  have hn' : (n : ℝ) ≤ 255 := by exact_mod_cast hn
  by_cases h0 : n = 0
  · subst h0
    simp only [Nat.cast_zero, zero_div, argb_dec_zero, zero_add, sub_zero]
    by_cases hd : δ ≤ 0
    · rw [argb_enc_nonpos hd]; norm_num
    · rw [not_le] at hd
      rw [argb_enc_pos hd]
      have h1 : δ ^ ((1 : ℝ) / ((563 : ℝ) / 256)) ≤ (3e-7 : ℝ) ^ ((1 : ℝ) / ((563 : ℝ) / 256)) :=
        Real.rpow_le_rpow hd.le hδ2 (by norm_num)
      have h2 := argb_fact_zero
      have h3 : 0 ≤ δ ^ ((1 : ℝ) / ((563 : ℝ) / 256)) := Real.rpow_nonneg hd.le _
      rw [abs_le]; constructor <;> linarith
  · have h1 : (1 : ℝ) ≤ n := by exact_mod_cast Nat.one_le_iff_ne_zero.mpr h0
    set u : ℝ := (n : ℝ) / 255 with hu
    set um : ℝ := ((n : ℝ) - 0.4) / 255 with hum
    set up : ℝ := ((n : ℝ) + 0.4) / 255 with hup
    have hu0pos : (0 : ℝ) < 0.6 / 255 := by norm_num
    have h0m : (0.6 : ℝ) / 255 ≤ um := by rw [hum]; apply div_le_div_of_nonneg_right _ (by norm_num); linarith
    have hmu : um ≤ u := by rw [hu, hum]; apply div_le_div_of_nonneg_right _ (by norm_num); linarith
    have hup' : u ≤ up := by rw [hu, hup]; apply div_le_div_of_nonneg_right _ (by norm_num); linarith
    have hdm : u - um = 0.4 / 255 := by rw [hu, hum]; ring
    have hdp : up - u = 0.4 / 255 := by rw [hu, hup]; ring
    have humpos : 0 < um := lt_of_lt_of_le hu0pos h0m
    have hupos : 0 < u := lt_of_lt_of_le humpos hmu
    have s1 := rpow_step_lb (p := (563 : ℝ) / 256) hu0pos h0m hmu (by norm_num) argb_fact_slope
    have s2 := rpow_step_lb (p := (563 : ℝ) / 256) hu0pos (h0m.trans hmu) hup' (by norm_num) argb_fact_slope
    rw [hdm] at s1; rw [hdp] at s2
    have hmpos : 0 < um ^ ((563 : ℝ) / 256) := Real.rpow_pos_of_pos humpos _
    rw [argb_dec_nonneg hupos.le]
    set t : ℝ := u ^ ((563 : ℝ) / 256) + δ with ht
    have ht1 : um ^ ((563 : ℝ) / 256) ≤ t := by rw [ht]; norm_num at s1 ⊢; linarith
    have ht2 : t ≤ up ^ ((563 : ℝ) / 256) := by rw [ht]; norm_num at s2 ⊢; linarith
    have htpos : 0 < t := by linarith
    rw [argb_enc_pos htpos]
    have r1 : um ≤ t ^ ((1 : ℝ) / ((563 : ℝ) / 256)) := by
      have := Real.rpow_le_rpow hmpos.le ht1 (by norm_num : (0:ℝ) ≤ 1 / ((563 : ℝ) / 256))
      rwa [rpow_rpow_inv humpos.le (by norm_num)] at this
    have r2 : t ^ ((1 : ℝ) / ((563 : ℝ) / 256)) ≤ up := by
      have := Real.rpow_le_rpow htpos.le ht2 (by norm_num : (0:ℝ) ≤ 1 / ((563 : ℝ) / 256))
      rwa [rpow_rpow_inv (by linarith) (by norm_num)] at this
    have em : um * 255 = (n : ℝ) - 0.4 := by rw [hum]; field_simp
    have ep : up * 255 = (n : ℝ) + 0.4 := by rw [hup]; field_simp
    rw [abs_le]; constructor <;> linarith

end Lemmas.Curves
