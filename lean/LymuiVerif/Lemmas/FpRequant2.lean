import LymuiVerif.Lemmas.FpRequant
import LymuiVerif.Lemmas.FpCieXyz
import LymuiVerif.Lemmas.ArgbRequantF1a
import LymuiVerif.Lemmas.FpRevOk
import LymuiVerif.Lemmas.OkLabXyzF1b
/-!
# Rounded-arithmetic (`RF M`) helpers for `Props/C02_fp_ok_adobe.lean`: re-quantisation through Adobe RGB, OkLab, OkLCh

The idea that makes the three remaining cases of C02 go through: measure every rounded CURVE evaluation against the
exact-real curve at the SAME (computed) argument.  Then the error is the error of `powf` and of the rounded exponent
only (`≈ 1e-14`, absolute), and the large Lipschitz / Hölder constants of `x^(256/563)`, `x^(1/2.2)` next to 0 never
multiply a rounding error; they only ever act inside the exact-real lemmas that exist already.

* Adobe: `argb_enc_self` (encoder, same argument: `1e-14`), `argb_dec_enc_sharp` (`decode (encode a)` within `4e-14` of
  `max a 0`, for every computed `a ≤ 1.001`; `Props.C08_fp_reverse.adobe_dec_enc_fp` had `4.2e-7`), `argb_stable_rel2`
  (`Lemmas.CurvesF1a.argb_stable_rel` with `β = 1.05e-6`), `back_perturb`, `T_upper`, `argb_requant_core`.
* OkLab, exact-real: `oklin_real` (`FpRevOk.okLin` at ℝ is Ottosson's inverse), `r1_pert`, `cube_lip`, `r2_pert`,
  `ottossonInv_pert` (Ottosson's inverse is `57`-Lipschitz where `|R1·lab| ≤ 1.00001`), `m2_box`, `ottosson_box` (crude ranges of
  the OkLab of a linear triple of `[0, 1.000001]³`: `|L| ≤ 1.0091`, `|a| ≤ 4.8581`, `|b| ≤ 1.6181`, `|R1·lab| ≤ 1.00001`).
* OkLab in `RF M`: `lms_add_wide`, `lms_sub_wide`, `oklin_fp_wide` (the linear-light triple of `Srgb::from(OkLab)` against the real
  one at the same input, `3e-12`, on the wide box), `chan_dec_wide` (`FpRevOk.chan_dec` for channels up to `1.0001`),
  `roundtrip_lin_abs`, `d65_requant_of_dec` (re-quantisation from computed decoded channels), `DecOK` with `DecOK.requant`,
  `DecOK.near`, `oklab_back_of_lin`, `oklab_back_core` (reverse conversion from a computed OkLab value within `4e-13` of Ottosson's
  transform of a linear triple), `fwd_chan`, `oklab_fwd_facts` (forward path; `Lemmas.FpEnc.oklab_core` at `e = 0`),
  `oklab_fwd_black`, `oklab_back_black`, `oklab_decok`, `oklch_decok`, `oklab_requant_core`, `oklch_requant_core`.
-/
namespace Lemmas.FpRequant2
open Gen FpErr Lemmas.Matrix Lemmas.XyzDispatch Lemmas.FpXyz Lemmas.FpEnc Lemmas.FpEnc2 Props.C08

/-! ## Adobe RGB -/
section adobe
variable (M : FPModel)

/-- **the Adobe encoder in `RF M` against the exact-real encoder of the SAME argument**: `1e-14` (error of `powf` and of
the rounded exponent `rnd (1 / rnd (563/256))`; the guard `a ≤ 0.0` is decided identically) -/
theorem argb_enc_self (a : RF M) (ha : a.val ≤ 2) :
    |(F64.compute_argb_gamma_expanded a).val - F64.compute_argb_gamma_expanded a.val| ≤ 1e-14 := by
  have z : M.rnd (((0:ℕ):ℝ) / ((1:ℕ):ℝ)) = 0 := by
    have := lit_int M 0 (by norm_num); simpa using this
  have ip := inv_exp_close M 563 256 (by norm_num) (by norm_num)
  by_cases hc : a.val ≤ 0
  · rw [Lemmas.Curves.argb_enc_nonpos hc]
    simp only [F64.compute_argb_gamma_expanded, FltRF.le_eq, FltRF.lit_val, z, hc, decide_true, if_true]
    norm_num
  · have hpos : 0 < a.val := not_le.mp hc
    rw [Lemmas.Curves.argb_enc_pos hpos]
    simp only [F64.compute_argb_gamma_expanded, FltRF.le_eq, FltRF.lit_val, z, hc, decide_false, if_false,
      FltRF.pow_val, FltRF.div_val, Bool.false_eq_true]
    have e : (1:ℝ) / ((563:ℝ)/256) = 1 / (((563:ℕ):ℝ)/((256:ℕ):ℝ)) := by norm_num
    rw [e]
    generalize hp : (1:ℝ) / (((563:ℕ):ℝ)/((256:ℕ):ℝ)) = p at *
    have hp0 : 0.4 ≤ p := by rw [← hp]; norm_num
    have hp1 : p ≤ 0.5 := by rw [← hp]; norm_num
    obtain ⟨hy1, hy2⟩ := abs_le.mp ip
    generalize M.rnd (M.rnd (((1:ℕ):ℝ) / ((1:ℕ):ℝ)) / M.rnd (((563:ℕ):ℝ) / ((256:ℕ):ℝ))) = p' at *
    have hp'0 : 0.3 ≤ p' := by unfold FP.eps at *; linarith
    have hp'1 : p' ≤ 1 := by unfold FP.eps at *; linarith
    have hB : a.val ^ p' ≤ 2 := by
      calc a.val ^ p' ≤ (2:ℝ) ^ p' := Real.rpow_le_rpow hpos.le ha (by linarith)
        _ ≤ (2:ℝ) ^ (1:ℝ) := Real.rpow_le_rpow_of_exponent_le (by norm_num) hp'1
        _ = 2 := Real.rpow_one 2
    have p1 := pow_close M hpos.le hB (by norm_num)
    have p2 := rpow_exp_close (x := a.val) (q := p') (q' := p) (p := 0.3) hpos ha (by norm_num) hp'0
      (by linarith) (by linarith) (by linarith) (by unfold FP.eps at *; exact ip.trans (by norm_num))
    have p2' : |a.val ^ p' - a.val ^ p| ≤ FP.eps * 3 * (1 / 0.3 + 8) :=
      p2.trans (mul_le_mul_of_nonneg_right ip (by norm_num))
    have t := abs_sub_le (M.pow a.val p') (a.val ^ p') (a.val ^ p)
    unfold FP.eps at *
    norm_num at p1 p2' ⊢
    linarith

/-- the exact-real Adobe encoder maps `(-∞, 2]` into `[0, 2]` -/
theorem argb_enc_real_range {v : ℝ} (hv : v ≤ 2) : |(F64.compute_argb_gamma_expanded v : ℝ)| ≤ 2 := by
  rcases le_or_gt v 0 with h | h
  · rw [Lemmas.Curves.argb_enc_nonpos h]; norm_num
  · rw [Lemmas.Curves.argb_enc_pos h, abs_of_nonneg (Real.rpow_nonneg h.le _)]
    calc v ^ ((1:ℝ) / ((563:ℝ)/256)) ≤ (2:ℝ) ^ ((1:ℝ) / ((563:ℝ)/256)) := Real.rpow_le_rpow h.le hv (by norm_num)
      _ ≤ (2:ℝ) ^ (1:ℝ) := Real.rpow_le_rpow_of_exponent_le (by norm_num) (by norm_num)
      _ = 2 := Real.rpow_one 2

/-- the Adobe encoder followed by the scaling by the literal `255`, against the exact-real encoder of the same argument -/
theorem argb_enc255_self (a s : RF M) (hs : s.val = 255) (ha : a.val ≤ 2) :
    |(F64.compute_argb_gamma_expanded a * s).val - F64.compute_argb_gamma_expanded a.val * 255| ≤ 1e-11 := by
  have hs0 : |s.val - 255| ≤ 0 := by rw [hs]; simp
  have e1 := argb_enc_self M a ha
  have m2 := mul_close M e1 hs0 (argb_enc_real_range ha) (By := 255) (by norm_num) (by norm_num)
  simp only [FltRF.mul_val]
  refine m2.trans ?_
  norm_num [FP.eps]

/-- **`decode (encode a)` of the Adobe curve pair in `RF M`**: within `4e-14` of `max a 0`, for EVERY computed `a ≤ 1.001`
(exact-real: equal, `Props.C02_curves.adobe_dec_enc_code`).  The encoder's error is `1e-14` absolute at the same argument and
the decoder `v^(563/256)` is Lipschitz, so the infinite slope of the encoder at 0 plays no role. -/
theorem argb_dec_enc_sharp (a : RF M) (ha : a.val ≤ 1.001) :
    |(F64.compute_argb_gamma (F64.compute_argb_gamma_expanded a)).val - max a.val 0| ≤ 4e-14 := by
  have e1 := argb_enc_self M a (by linarith)
  have hE1 : (F64.compute_argb_gamma_expanded a.val : ℝ) ≤ 1.001 := by
    rcases le_or_gt a.val 0 with h | h
    · rw [Lemmas.Curves.argb_enc_nonpos h]; norm_num
    · rw [Lemmas.Curves.argb_enc_pos h]
      calc a.val ^ ((1:ℝ) / ((563:ℝ)/256)) ≤ (1.001:ℝ) ^ ((1:ℝ) / ((563:ℝ)/256)) :=
            Real.rpow_le_rpow h.le ha (by norm_num)
        _ ≤ (1.001:ℝ) ^ (1:ℝ) := Real.rpow_le_rpow_of_exponent_le (by norm_num) (by norm_num)
        _ = 1.001 := Real.rpow_one _
  have hE0 : 0 ≤ (F64.compute_argb_gamma_expanded a.val : ℝ) := by
    rcases le_or_gt a.val 0 with h | h
    · rw [Lemmas.Curves.argb_enc_nonpos h]
    · rw [Lemmas.Curves.argb_enc_pos h]; exact Real.rpow_nonneg h.le _
  have d1 := argb_dec_tight M (F64.compute_argb_gamma_expanded a) (F64.compute_argb_gamma_expanded a.val) 1e-14 e1
    (by norm_num) hE1
  rw [max_eq_left hE0, ← adobe_decode_is_spec _ hE0, Props.C02_curves.adobe_dec_enc_code] at d1
  exact d1.trans (by norm_num)

/-- **stability of the Adobe pair under a relative + absolute linear-light error** `|δ| ≤ 2.4e-4·lin + 1.05e-6`
(`Lemmas.CurvesF1a.argb_stable_rel` has `1e-6`; level 0 tolerates `1.06e-6`, the other levels far more) -/
theorem argb_stable_rel2 (n : ℕ) (hn : n ≤ 255) (δ : ℝ)
    (hδ : |δ| ≤ 2.4e-4 * F64.compute_argb_gamma ((n : ℝ) / 255) + 1.05e-6) :
    |F64.compute_argb_gamma_expanded (F64.compute_argb_gamma ((n : ℝ) / 255) + δ) * 255 - n| ≤ 0.49 := by
  open Lemmas.CurvesF1a Lemmas.Curves in
  by_cases h0 : n = 0
  · subst h0
    simp only [Nat.cast_zero, zero_div, argb_dec_zero, mul_zero, zero_add] at hδ
    have := argb_stable_wide 0 (by norm_num) δ (hδ.trans (by norm_num))
    simpa using this
  have h1 : (1 : ℝ) ≤ n := by exact_mod_cast Nat.one_le_iff_ne_zero.mpr h0
  by_cases h19 : n ≤ 19
  · have hm := argb_dec_level_mono h19
    have e : ((19 : ℕ) : ℝ) = 19 := by norm_num
    rw [e] at hm
    have := argb_stable_pow 0.6 7e-4 0.4 (by norm_num) (by norm_num) argb_fact_slope n
      (by linarith) δ (hδ.trans (by linarith [argb_dec_19]))
    exact this.trans (by norm_num)
  rw [not_le] at h19
  have h20 : (20 : ℝ) ≤ n := by exact_mod_cast h19
  by_cases h99 : n ≤ 99
  · have hm := argb_dec_level_mono h99
    have e : ((99 : ℕ) : ℝ) = 99 := by norm_num
    rw [e] at hm
    have := argb_stable_pow 19.6 0.046 0.4 (by norm_num) (by norm_num) argb_fact_slope_196 n
      (by linarith) δ (hδ.trans (by linarith [argb_dec_99]))
    exact this.trans (by norm_num)
  rw [not_le] at h99
  have h100 : (100 : ℝ) ≤ n := by exact_mod_cast h99
  have hm := argb_dec_level_mono hn
  have e : ((255 : ℕ) : ℝ) / 255 = 1 := by norm_num
  rw [e, argb_dec_one] at hm
  have := argb_stable_pow 99.6 0.32 0.4 (by norm_num) (by norm_num) argb_fact_slope_996 n
    (by linarith) δ (hδ.trans (by linarith))
  exact this.trans (by norm_num)

open Lemmas.ArgbRequantF1a Lemmas.RequantF1a in
/-- the rows `argb::RR, GG, BB` are `1.09`-Lipschitz from the sup norm to each component -/
theorem back_perturb (m m0 : V3) (ε : ℝ) (h1 : |m.1 - m0.1| ≤ ε) (h2 : |m.2.1 - m0.2.1| ≤ ε)
    (h3 : |m.2.2 - m0.2.2| ≤ ε) : Lemmas.RequantF1a.Near (1.09 * ε) (back m) (back m0) := by
  obtain ⟨m1, m2, m3⟩ := m
  obtain ⟨n1, n2, n3⟩ := m0
  simp only at h1 h2 h3
  obtain ⟨a1, b1⟩ := abs_le.mp h1
  obtain ⟨a2, b2⟩ := abs_le.mp h2
  obtain ⟨a3, b3⟩ := abs_le.mp h3
  unfold Lemmas.RequantF1a.Near
  unfold_argb
  refine ⟨?_, ?_, ?_⟩ <;> rw [abs_le] <;> constructor <;> norm_num <;> linarith

open Lemmas.ArgbRequantF1a in
/-- the Adobe linear components of the Adobe-profile XYZ of a unit-cube triple are at most `1.0005` -/
theorem T_upper (l : V3) (h0 : 0 ≤ l.1) (h0' : l.1 ≤ 1) (h1 : 0 ≤ l.2.1) (h1' : l.2.1 ≤ 1) (h2 : 0 ≤ l.2.2)
    (h2' : l.2.2 ≤ 1) :
    (T (X0 .Adobe l)).1 ≤ 1.0005 ∧ (T (X0 .Adobe l)).2.1 ≤ 1.0005 ∧ (T (X0 .Adobe l)).2.2 ≤ 1.0005 := by
  obtain ⟨l0, l1, l2⟩ := l
  simp only at h0 h0' h1 h1' h2 h2'
  unfold_argb
  norm_num
  refine ⟨?_, ?_, ?_⟩ <;> linarith

open Lemmas.ArgbRequantF1a Lemmas.RequantF1a in
/-- **re-quantisation through Adobe RGB (Adobe profile) in `RF M`**: `rgb → xyz → Adobe RGB → xyz → rgb` returns the colour.
Real-model margin `0.49` of a level under `|δ| ≤ 2.4e-4·lin + 1.05e-6` (`argb_stable_rel2`); the exact-real round trip gives
`2.4e-4·lin + 1e-6` (`Lemmas.ArgbRequantF1a.lin_core_adobe`), the rounded evaluation adds `1.1e-11` in linear light and `1e-11`
of a level in the final encoder. -/
theorem argb_requant_core (c : Rgb) (hr : c.r ≤ 255) (hg : c.g ≤ 255) (hb : c.b ≤ 255) :
    Xyz.as_rgb (Xyz.from_Argb (Argb.from_Xyz (Xyz.from_rgb (α := RF M) c .Adobe))) .Adobe = c := by
  -- the real linear-light triple and its Adobe components
  have l0 := dec_level_nonneg .Adobe c.r
  have l0' := dec_level_le_one .Adobe hr
  have l1 := dec_level_nonneg .Adobe c.g
  have l1' := dec_level_le_one .Adobe hg
  have l2 := dec_level_nonneg .Adobe c.b
  have l2' := dec_level_le_one .Adobe hb
  obtain ⟨⟨ca0, cb0, cc0⟩, ⟨ca1, cb1, cc1⟩, ⟨ca2, cb2, cc2⟩⟩ :=
    clamp_admissible .Adobe (Or.inr rfl) (lin .Adobe c) l0 l0' l1 l1' l2 l2'
  obtain ⟨core, _⟩ := lin_core_adobe (lin .Adobe c) _ l0 l0' l1 l1' l2 l2' ca0 cb0 cc0 ca1 cb1 cc1 ca2 cb2 cc2
  obtain ⟨tu1, tu2, tu3⟩ := T_upper (lin .Adobe c) l0 l0' l1 l1' l2 l2'
  -- computed Adobe-linear components
  obtain ⟨f1, f2, f3⟩ := xyz_fp_close M .Adobe c hr hg hb
  have b1 := xyz_range .Adobe c hr hg hb 0
  have b2 := xyz_range .Adobe c hr hg hb 1
  have b3 := xyz_range .Adobe c hr hg hb 2
  simp only [V3.get] at b1 b2 b3
  obtain ⟨r1, r2, r3⟩ := argb_rows M
  obtain ⟨q1, q2, q3⟩ := rev3_close M r1 r2 r3 (v := xyzF M .Adobe c) (x := mulVec (fwd .Adobe) (lin .Adobe c))
    f1 f2 f3 b1 b2 b3 (by norm_num)
  have hT : T (X0 .Adobe (lin .Adobe c)) =
      (Props.C08.dot C.argb_XR (mulVec (fwd .Adobe) (lin .Adobe c)).1 (mulVec (fwd .Adobe) (lin .Adobe c)).2.1
        (mulVec (fwd .Adobe) (lin .Adobe c)).2.2,
       Props.C08.dot C.YG (mulVec (fwd .Adobe) (lin .Adobe c)).1 (mulVec (fwd .Adobe) (lin .Adobe c)).2.1
        (mulVec (fwd .Adobe) (lin .Adobe c)).2.2,
       Props.C08.dot C.ZB (mulVec (fwd .Adobe) (lin .Adobe c)).1 (mulVec (fwd .Adobe) (lin .Adobe c)).2.1
        (mulVec (fwd .Adobe) (lin .Adobe c)).2.2) := rfl
  rw [hT] at tu1 tu2 tu3
  simp only [hT, clamp] at core
  generalize Props.C08.dot C.argb_XR (mulVec (fwd .Adobe) (lin .Adobe c)).1 (mulVec (fwd .Adobe) (lin .Adobe c)).2.1
    (mulVec (fwd .Adobe) (lin .Adobe c)).2.2 = t1 at *
  generalize Props.C08.dot C.YG (mulVec (fwd .Adobe) (lin .Adobe c)).1 (mulVec (fwd .Adobe) (lin .Adobe c)).2.1
    (mulVec (fwd .Adobe) (lin .Adobe c)).2.2 = t2 at *
  generalize Props.C08.dot C.ZB (mulVec (fwd .Adobe) (lin .Adobe c)).1 (mulVec (fwd .Adobe) (lin .Adobe c)).2.1
    (mulVec (fwd .Adobe) (lin .Adobe c)).2.2 = t3 at *
  -- decode ∘ encode, computed
  set A1 := dotF' M (xyzF M .Adobe c) C.argb_XR with hA1
  set A2 := dotF' M (xyzF M .Adobe c) C.YG with hA2
  set A3 := dotF' M (xyzF M .Adobe c) C.ZB with hA3
  have key : ∀ (A : RF M) (t : ℝ), |A.val - t| ≤ 13 * 2e-13 + 2e-14 → t ≤ 1.0005 →
      |(F64.compute_argb_gamma (F64.compute_argb_gamma_expanded A)).val - max t 0| ≤ 3e-12 ∧
      |(F64.compute_argb_gamma (F64.compute_argb_gamma_expanded A)).val| ≤ 1.01 := by
    intro A t hAt ht
    obtain ⟨h1, h2⟩ := abs_le.mp hAt
    have d := argb_dec_enc_sharp M A (by linarith)
    have hm : |max A.val 0 - max t 0| ≤ 13 * 2e-13 + 2e-14 := (abs_max_sub_max_le_abs _ _ _).trans hAt
    have t3 := abs_sub_le (F64.compute_argb_gamma (F64.compute_argb_gamma_expanded A)).val (max A.val 0) (max t 0)
    have d' : |(F64.compute_argb_gamma (F64.compute_argb_gamma_expanded A)).val - max t 0| ≤ 3e-12 := by
      norm_num at d hm t3 ⊢; linarith
    refine ⟨d', ?_⟩
    have m0 : 0 ≤ max t 0 := le_max_right _ _
    have m1 : max t 0 ≤ 1.0005 := max_le ht (by norm_num)
    obtain ⟨k1, k2⟩ := abs_le.mp d'
    rw [abs_le]; constructor <;> linarith
  obtain ⟨d1, m1⟩ := key A1 t1 q1 tu1
  obtain ⟨d2, m2⟩ := key A2 t2 q2 tu2
  obtain ⟨d3, m3⟩ := key A3 t3 q3 tu3
  set D1 := F64.compute_argb_gamma (F64.compute_argb_gamma_expanded A1) with hD1
  set D2 := F64.compute_argb_gamma (F64.compute_argb_gamma_expanded A2) with hD2
  set D3 := F64.compute_argb_gamma (F64.compute_argb_gamma_expanded A3) with hD3
  -- the real matrix `argb::RR..` applied to the computed decoded triple
  have bp := back_perturb (D1.val, D2.val, D3.val) (max t1 0, max t2 0, max t3 0) 3e-12 d1 d2 d3
  have bz := back_perturb (D1.val, D2.val, D3.val) (0, 0, 0) 1.01 (by simpa using m1) (by simpa using m2)
    (by simpa using m3)
  have hz : back (0, 0, 0) = ⟨0, 0, 0⟩ := by simp [back, Props.C08.dot]
  rw [hz] at bz
  obtain ⟨z1, z2, z3⟩ := bz
  simp only [sub_zero] at z1 z2 z3
  obtain ⟨s1, s2, s3⟩ := argb_fwd_rows M
  obtain ⟨p1, p2, p3⟩ := rev3_close M s1 s2 s3 (e := 0) (v := (D1, D2, D3)) (x := (D1.val, D2.val, D3.val))
    (by simp) (by simp) (by simp) (m1.trans (by norm_num)) (m2.trans (by norm_num)) (m3.trans (by norm_num))
    (by norm_num)
  set X1 := dotF' M (D1, D2, D3) C.RR with hX1
  set X2 := dotF' M (D1, D2, D3) C.GG with hX2
  set X3 := dotF' M (D1, D2, D3) C.BB with hX3
  have hback : back (D1.val, D2.val, D3.val) =
      ⟨Props.C08.dot C.RR D1.val D2.val D3.val, Props.C08.dot C.GG D1.val D2.val D3.val,
        Props.C08.dot C.BB D1.val D2.val D3.val⟩ := rfl
  rw [hback] at bp z1 z2 z3
  simp only at p1 p2 p3 z1 z2 z3
  -- the computed XYZ as a real triple
  have hp : ∀ i, |V3.get (mulVec (rev .Adobe) (X1.val, X2.val, X3.val)) i -
      V3.get (mulVec (rev .Adobe) (ofXyz (back (D1.val, D2.val, D3.val)))) i| ≤ revNorm .Adobe * (13 * 0 + 2e-14) :=
    fun i => rev_perturb .Adobe (ofXyz (back (D1.val, D2.val, D3.val))) (X1.val, X2.val, X3.val) _ p1 p2 p3 i
  have hq : ∀ i, |V3.get (mulVec (rev .Adobe) (ofXyz (back (D1.val, D2.val, D3.val)))) i -
      V3.get (mulVec (rev .Adobe) (ofXyz (back (max t1 0, max t2 0, max t3 0)))) i| ≤ revNorm .Adobe * (1.09 * 3e-12) :=
    fun i => rev_perturb .Adobe (ofXyz (back (max t1 0, max t2 0, max t3 0))) (ofXyz (back (D1.val, D2.val, D3.val))) _
      bp.1 bp.2.1 bp.2.2 i
  have bX1 : |X1.val| ≤ 3 := by
    have := abs_sub_abs_le_abs_sub X1.val (Props.C08.dot C.RR D1.val D2.val D3.val); norm_num at z1 p1 this ⊢; linarith
  have bX2 : |X2.val| ≤ 3 := by
    have := abs_sub_abs_le_abs_sub X2.val (Props.C08.dot C.GG D1.val D2.val D3.val); norm_num at z2 p2 this ⊢; linarith
  have bX3 : |X3.val| ≤ 3 := by
    have := abs_sub_abs_le_abs_sub X3.val (Props.C08.dot C.BB D1.val D2.val D3.val); norm_num at z3 p3 this ⊢; linarith
  obtain ⟨v1, v2, v3⟩ := rev_rows M .Adobe
  have zz : ∀ t : ℝ, |t - t| ≤ 0 := fun t => by simp
  have g1 := dot3_close' M v1 (v := (X1, X2, X3)) (x := (X1.val, X2.val, X3.val)) (e := 0) (zz _) (zz _) (zz _)
    bX1 bX2 bX3 (by norm_num)
  have g2 := dot3_close' M v2 (v := (X1, X2, X3)) (x := (X1.val, X2.val, X3.val)) (e := 0) (zz _) (zz _) (zz _)
    bX1 bX2 bX3 (by norm_num)
  have g3 := dot3_close' M v3 (v := (X1, X2, X3)) (x := (X1.val, X2.val, X3.val)) (e := 0) (zz _) (zz _) (zz _)
    bX1 bX2 bX3 (by norm_num)
  -- one channel: from the linear-light closeness to the byte
  have chan1 : ∀ (n : ℕ), n ≤ 255 → ∀ (a : RF M) (w w' w'' : ℝ), |a.val - w| ≤ 13 * 0 + 2e-14 →
      |w - w'| ≤ revNorm .Adobe * (13 * 0 + 2e-14) → |w' - w''| ≤ revNorm .Adobe * (1.09 * 3e-12) →
      |w'' - F64.compute_argb_gamma ((n : ℝ) / 255)| ≤ 2.4e-4 * F64.compute_argb_gamma ((n : ℝ) / 255) + 1e-6 →
      Real.toU8 (Real.roundHA (F64.compute_argb_gamma_expanded a * Flt.lit 0x406FE00000000000 255 1).val) = n := by
    intro n hn a w w' w'' e1 e2 e3 e4
    have hl0 := dec_level_nonneg .Adobe n
    have hl1 := dec_level_le_one .Adobe hn
    simp only [dec] at hl0 hl1
    simp only [revNorm] at e2 e3
    have hδ : |a.val - F64.compute_argb_gamma ((n : ℝ) / 255)| ≤
        2.4e-4 * F64.compute_argb_gamma ((n : ℝ) / 255) + 1.05e-6 := by
      obtain ⟨a1, a2⟩ := abs_le.mp e1
      obtain ⟨a3, a4⟩ := abs_le.mp e2
      obtain ⟨a5, a6⟩ := abs_le.mp e3
      obtain ⟨a7, a8⟩ := abs_le.mp e4
      rw [abs_le]; constructor <;> norm_num at a1 a2 a3 a4 a5 a6 a7 a8 ⊢ <;> linarith
    have st := argb_stable_rel2 n hn _ hδ
    rw [add_sub_cancel] at st
    have ha2 : a.val ≤ 2 := by
      obtain ⟨_, k2⟩ := abs_le.mp hδ; norm_num at k2 ⊢; linarith
    have en := argb_enc255_self M a _ (lit255_val M) ha2
    apply Lemmas.Curves.quant_eq n hn
    have t3 := abs_sub_le (F64.compute_argb_gamma_expanded a * Flt.lit 0x406FE00000000000 255 1).val
      (F64.compute_argb_gamma_expanded a.val * 255) (n : ℝ)
    norm_num at st en t3 ⊢
    linarith
  rw [from_rgb_eq_fp', argb_from_xyz_fp, xyz_from_argb_fp, as_rgb_eq_fp]
  have c1 := core 0
  have c2 := core 1
  have c3 := core 2
  simp only [V3.get, lin, dec] at c1 c2 c3
  have k1 := chan1 c.r hr (dotF' M (X1, X2, X3) (revF M .Adobe).1) _ _ _ g1 (hp 0) (hq 0) c1
  have k2 := chan1 c.g hg (dotF' M (X1, X2, X3) (revF M .Adobe).2.1) _ _ _ g2 (hp 1) (hq 1) c2
  have k3 := chan1 c.b hb (dotF' M (X1, X2, X3) (revF M .Adobe).2.2) _ _ _ g3 (hp 2) (hq 2) c3
  simp only [preF, rlinF, encF]
  rw [k1, k2, k3]

end adobe

/-! ## OkLab, OkLCh: exact-real facts about Ottosson's transforms -/
section okreal
open Props.C07 FpRevOk Lemmas.OkLabF1b

/-- the real `okLin` is Ottosson's inverse transform -/
theorem oklin_real (q : OkLab ℝ) :
    (okLin q).r = (ottossonInv (q.l, q.a, q.b)).1 ∧ (okLin q).g = (ottossonInv (q.l, q.a, q.b)).2.1 ∧
    (okLin q).b = (ottossonInv (q.l, q.a, q.b)).2.2 := by
  simp only [okLin, ottossonInv, Props.C07.mulVec, Props.C07.row, cube3, R1, R2,
    C.ROL, C.ROM, C.ROS, C.ROR, C.ROG, C.ROB, FltReal.lit_eq, FltReal.powi_eq]
  norm_num
  refine ⟨?_, ?_, ?_⟩ <;> ring

theorem r1_pert (q q1 : Vec3) (ε : ℝ) (h1 : |q.1 - q1.1| ≤ ε) (h2 : |q.2.1 - q1.2.1| ≤ ε) (h3 : |q.2.2 - q1.2.2| ≤ ε) :
    |(Props.C07.mulVec R1 q).1 - (Props.C07.mulVec R1 q1).1| ≤ 2.4 * ε ∧ |(Props.C07.mulVec R1 q).2.1 - (Props.C07.mulVec R1 q1).2.1| ≤ 2.4 * ε ∧
    |(Props.C07.mulVec R1 q).2.2 - (Props.C07.mulVec R1 q1).2.2| ≤ 2.4 * ε := by
  obtain ⟨L, a, b⟩ := q
  obtain ⟨L1, a1, b1⟩ := q1
  simp only at h1 h2 h3
  obtain ⟨x1, x2⟩ := abs_le.mp h1
  obtain ⟨y1, y2⟩ := abs_le.mp h2
  obtain ⟨z1, z2⟩ := abs_le.mp h3
  simp only [Props.C07.mulVec, Props.C07.row, R1]
  refine ⟨?_, ?_, ?_⟩ <;> rw [abs_le] <;> constructor <;> norm_num <;> linarith

theorem cube_lip {x y : ℝ} (hx : |x| ≤ 1.01) (hy : |y| ≤ 1.01) : |x ^ 3 - y ^ 3| ≤ 3.07 * |x - y| := by
  have e1 : x ^ 3 - y ^ 3 = (x - y) * (x ^ 2 + x * y + y ^ 2) := by ring
  obtain ⟨a1, a2⟩ := abs_le.mp hx
  obtain ⟨b1, b2⟩ := abs_le.mp hy
  have hq0 : 0 ≤ x ^ 2 + x * y + y ^ 2 := by nlinarith [sq_nonneg (x + y), sq_nonneg x, sq_nonneg y]
  have hq : x ^ 2 + x * y + y ^ 2 ≤ 3.07 := by nlinarith
  rw [e1, abs_mul, abs_of_nonneg hq0, mul_comm]
  exact mul_le_mul_of_nonneg_right hq (abs_nonneg _)

theorem r2_pert (w u : Vec3) (η : ℝ) (h1 : |w.1 ^ 3 - u.1 ^ 3| ≤ η) (h2 : |w.2.1 ^ 3 - u.2.1 ^ 3| ≤ η)
    (h3 : |w.2.2 ^ 3 - u.2.2 ^ 3| ≤ η) :
    |(Props.C07.mulVec R2 (cube3 w)).1 - (Props.C07.mulVec R2 (cube3 u)).1| ≤ 7.7 * η ∧
    |(Props.C07.mulVec R2 (cube3 w)).2.1 - (Props.C07.mulVec R2 (cube3 u)).2.1| ≤ 7.7 * η ∧
    |(Props.C07.mulVec R2 (cube3 w)).2.2 - (Props.C07.mulVec R2 (cube3 u)).2.2| ≤ 7.7 * η := by
  obtain ⟨w1, w2, w3⟩ := w
  obtain ⟨u1, u2, u3⟩ := u
  simp only at h1 h2 h3
  obtain ⟨x1, x2⟩ := abs_le.mp h1
  obtain ⟨y1, y2⟩ := abs_le.mp h2
  obtain ⟨z1, z2⟩ := abs_le.mp h3
  simp only [Props.C07.mulVec, Props.C07.row, R2, cube3]
  generalize w1 ^ 3 = W1 at *
  generalize w2 ^ 3 = W2 at *
  generalize w3 ^ 3 = W3 at *
  generalize u1 ^ 3 = U1 at *
  generalize u2 ^ 3 = U2 at *
  generalize u3 ^ 3 = U3 at *
  refine ⟨?_, ?_, ?_⟩ <;> rw [abs_le] <;> constructor <;> norm_num <;> linarith

/-- **Ottosson's inverse under a perturbation of the Lab input**: `|q − q1| ≤ ε ≤ 1e-6`, `|R1·q1| ≤ 1.00001` -/
theorem ottossonInv_pert (q q1 : Vec3) (ε : ℝ) (hε : ε ≤ 1e-6) (h1 : |q.1 - q1.1| ≤ ε) (h2 : |q.2.1 - q1.2.1| ≤ ε)
    (h3 : |q.2.2 - q1.2.2| ≤ ε) (u1 : |(Props.C07.mulVec R1 q1).1| ≤ 1.00001) (u2 : |(Props.C07.mulVec R1 q1).2.1| ≤ 1.00001)
    (u3 : |(Props.C07.mulVec R1 q1).2.2| ≤ 1.00001) :
    (|(ottossonInv q).1 - (ottossonInv q1).1| ≤ 57 * ε ∧ |(ottossonInv q).2.1 - (ottossonInv q1).2.1| ≤ 57 * ε ∧
      |(ottossonInv q).2.2 - (ottossonInv q1).2.2| ≤ 57 * ε) ∧
    (|(Props.C07.mulVec R1 q).1| ≤ 1.01 ∧ |(Props.C07.mulVec R1 q).2.1| ≤ 1.01 ∧ |(Props.C07.mulVec R1 q).2.2| ≤ 1.01) := by
  have hε0 : 0 ≤ ε := le_trans (abs_nonneg _) h1
  obtain ⟨p1, p2, p3⟩ := r1_pert q q1 ε h1 h2 h3
  have b : ∀ x y : ℝ, |x - y| ≤ 2.4 * ε → |y| ≤ 1.00001 → |x| ≤ 1.01 := by
    intro x y hxy hy
    have := abs_sub_abs_le_abs_sub x y
    norm_num at hε ⊢; linarith
  have w1 := b _ _ p1 u1
  have w2 := b _ _ p2 u2
  have w3 := b _ _ p3 u3
  refine ⟨?_, w1, w2, w3⟩
  have c1 := (cube_lip w1 (u1.trans (by norm_num))).trans (mul_le_mul_of_nonneg_left p1 (by norm_num))
  have c2 := (cube_lip w2 (u2.trans (by norm_num))).trans (mul_le_mul_of_nonneg_left p2 (by norm_num))
  have c3 := (cube_lip w3 (u3.trans (by norm_num))).trans (mul_le_mul_of_nonneg_left p3 (by norm_num))
  have le : (3.07 : ℝ) * (2.4 * ε) ≤ 7.4 * ε := by nlinarith
  obtain ⟨k1, k2, k3⟩ := r2_pert (Props.C07.mulVec R1 q) (Props.C07.mulVec R1 q1) (7.4 * ε) (c1.trans le) (c2.trans le) (c3.trans le)
  have le2 : (7.7 : ℝ) * (7.4 * ε) ≤ 57 * ε := by nlinarith
  exact ⟨k1.trans le2, k2.trans le2, k3.trans le2⟩

theorem m2_box {p1 p2 p3 P : ℝ} (h1 : 0 ≤ p1 ∧ p1 ≤ P) (h2 : 0 ≤ p2 ∧ p2 ≤ P) (h3 : 0 ≤ p3 ∧ p3 ≤ P) :
    |(Props.C07.mulVec M2 (p1, p2, p3)).1| ≤ 1.009 * P ∧ |(Props.C07.mulVec M2 (p1, p2, p3)).2.1| ≤ 4.858 * P ∧
    |(Props.C07.mulVec M2 (p1, p2, p3)).2.2| ≤ 1.618 * P := by
  obtain ⟨a0, a1⟩ := h1; obtain ⟨b0, b1⟩ := h2; obtain ⟨c0, c1⟩ := h3
  simp only [Props.C07.mulVec, Props.C07.row, M2]
  refine ⟨?_, ?_, ?_⟩ <;> rw [abs_le] <;> constructor <;> norm_num <;> linarith

/-- the OkLab of a linear triple of `[0, B]³`, `B ≤ 1.000001`: crude ranges of the coordinates and of `R1·lab` -/
theorem ottosson_box {r g b B : ℝ} (hB : B ≤ 1.000001) (hr : 0 ≤ r ∧ r ≤ B) (hg : 0 ≤ g ∧ g ≤ B) (hb : 0 ≤ b ∧ b ≤ B) :
    (|(ottosson (r, g, b)).1| ≤ 1.0091 ∧ |(ottosson (r, g, b)).2.1| ≤ 4.8581 ∧ |(ottosson (r, g, b)).2.2| ≤ 1.6181) ∧
    (|(Props.C07.mulVec R1 (ottosson (r, g, b))).1| ≤ 1.00001 ∧ |(Props.C07.mulVec R1 (ottosson (r, g, b))).2.1| ≤ 1.00001 ∧
      |(Props.C07.mulVec R1 (ottosson (r, g, b))).2.2| ≤ 1.00001) := by
  have hB0 : 0 ≤ B := hr.1.trans hr.2
  obtain ⟨⟨l0, l1⟩, ⟨m0, m1⟩, ⟨s0, s1⟩⟩ := lms_box hr hg hb
  have hP0 : 0 ≤ Real.cbrt B := cbrt_nonneg hB0
  have hP1 : Real.cbrt B ≤ 1.000001 := by
    by_contra h
    rw [not_le] at h
    have h3 : (1.000001 : ℝ) ^ 3 < Real.cbrt B ^ 3 := pow_lt_pow_left₀ h (by norm_num) (by norm_num)
    rw [Lemmas.CurvesD2.cube_cbrt] at h3
    norm_num at h3 hB; linarith
  have p1 := And.intro (cbrt_nonneg l0) (cbrt_le_cbrt l0 l1)
  have p2 := And.intro (cbrt_nonneg m0) (cbrt_le_cbrt m0 m1)
  have p3 := And.intro (cbrt_nonneg s0) (cbrt_le_cbrt s0 s1)
  obtain ⟨⟨a1, b1⟩, ⟨a2, b2⟩, ⟨a3, b3⟩⟩ := table_residue p1 p2 p3
  obtain ⟨k1, k2, k3⟩ := m2_box p1 p2 p3
  have e' : ottosson (r, g, b) = Props.C07.mulVec M2 (Real.cbrt (Props.C07.mulVec M1 (r, g, b)).1, Real.cbrt (Props.C07.mulVec M1 (r, g, b)).2.1,
      Real.cbrt (Props.C07.mulVec M1 (r, g, b)).2.2) := rfl
  rw [e']
  generalize Real.cbrt B = P at *
  generalize Real.cbrt (Props.C07.mulVec M1 (r, g, b)).1 = x1 at *
  generalize Real.cbrt (Props.C07.mulVec M1 (r, g, b)).2.1 = x2 at *
  generalize Real.cbrt (Props.C07.mulVec M1 (r, g, b)).2.2 = x3 at *
  refine ⟨⟨k1.trans (by linarith), k2.trans (by linarith), k3.trans (by linarith)⟩, ?_, ?_, ?_⟩ <;>
    rw [abs_le] <;> constructor <;> linarith [p1.1, p1.2, p2.1, p2.2, p3.1, p3.2]


end okreal

/-! ## OkLab, OkLCh: the reverse conversion and the re-quantisation in `RF M` -/
section okfp
open FpLin FpCie FpRevOk
variable (M : FPModel)

theorem lms_add_wide (n1 d1 n2 d2 : ℕ) {L a b Bm : ℝ} (h1 : (n1 : ℝ) / d1 ≤ 2) (h2 : (n2 : ℝ) / d2 ≤ 2)
    (hL : |L| ≤ 1.01) (ha : |a| ≤ 4.9) (hb : |b| ≤ 1.7)
    (hm : |L + (n1 : ℝ) / d1 * a + (n2 : ℝ) / d2 * b| ≤ Bm) (hB : 1 ≤ Bm) :
    Near (M.rnd (M.rnd (L + M.rnd (M.rnd ((n1 : ℝ) / d1) * a)) + M.rnd (M.rnd ((n2 : ℝ) / d2) * b)))
      (L + (n1 : ℝ) / d1 * a + (n2 : ℝ) / d2 * b) (1 / 10 ^ 14) Bm := by
  have nL : Near L L 0 1.01 := Near.exact hL (by norm_num)
  have na : Near a a 0 4.9 := Near.exact ha (by norm_num)
  have nb : Near b b 0 1.7 := Near.exact hb (by norm_num)
  have n := (nL.add M ((Near.lit M n1 d1 (B := 2) h1 (by norm_num)).mul M na)).add M
    ((Near.lit M n2 d2 (B := 2) h2 (by norm_num)).mul M nb)
  refine ⟨n.err.trans ?_, hm, hB⟩
  norm_num [FP.eps]

theorem lms_sub_wide (n1 d1 n2 d2 : ℕ) {L a b Bm : ℝ} (h1 : (n1 : ℝ) / d1 ≤ 2) (h2 : (n2 : ℝ) / d2 ≤ 2)
    (hL : |L| ≤ 1.01) (ha : |a| ≤ 4.9) (hb : |b| ≤ 1.7)
    (hm : |L - (n1 : ℝ) / d1 * a - (n2 : ℝ) / d2 * b| ≤ Bm) (hB : 1 ≤ Bm) :
    Near (M.rnd (M.rnd (L - M.rnd (M.rnd ((n1 : ℝ) / d1) * a)) - M.rnd (M.rnd ((n2 : ℝ) / d2) * b)))
      (L - (n1 : ℝ) / d1 * a - (n2 : ℝ) / d2 * b) (1 / 10 ^ 14) Bm := by
  have nL : Near L L 0 1.01 := Near.exact hL (by norm_num)
  have na : Near a a 0 4.9 := Near.exact ha (by norm_num)
  have nb : Near b b 0 1.7 := Near.exact hb (by norm_num)
  have n := (nL.sub M ((Near.lit M n1 d1 (B := 2) h1 (by norm_num)).mul M na)).sub M
    ((Near.lit M n2 d2 (B := 2) h2 (by norm_num)).mul M nb)
  refine ⟨n.err.trans ?_, hm, hB⟩
  norm_num [FP.eps]

open Props.C07 in
/-- **the linear-light triple of `Srgb::from(OkLab)` in `RF M`** against the exact-real triple at the SAME (computed) input,
on the wide box `|L| ≤ 1.01`, `|a| ≤ 4.9`, `|b| ≤ 1.7`, `|R1·lab| ≤ 1.01`: each component within `3e-12` -/
theorem oklin_fp_wide (o : OkLab (RF M)) (hL : |o.l.val| ≤ 1.01) (ha : |o.a.val| ≤ 4.9) (hb : |o.b.val| ≤ 1.7)
    (w1 : |(Props.C07.mulVec R1 (o.l.val, o.a.val, o.b.val)).1| ≤ 1.01) (w2 : |(Props.C07.mulVec R1 (o.l.val, o.a.val, o.b.val)).2.1| ≤ 1.01)
    (w3 : |(Props.C07.mulVec R1 (o.l.val, o.a.val, o.b.val)).2.2| ≤ 1.01) :
    |(okLin o).r.val - (okLin (α := ℝ) ⟨o.l.val, o.a.val, o.b.val⟩).r| ≤ 3 / 10 ^ 12 ∧
    |(okLin o).g.val - (okLin (α := ℝ) ⟨o.l.val, o.a.val, o.b.val⟩).g| ≤ 3 / 10 ^ 12 ∧
    |(okLin o).b.val - (okLin (α := ℝ) ⟨o.l.val, o.a.val, o.b.val⟩).b| ≤ 3 / 10 ^ 12 := by
  simp only [Props.C07.mulVec, Props.C07.row, R1] at w1 w2 w3
  generalize ho0 : o.l.val = L at *
  generalize ho1 : o.a.val = a at *
  generalize ho2 : o.b.val = b at *
  have he5 : (1 : ℝ) / 10 ^ 14 ≤ 1 / 10 ^ 5 := by norm_num
  have nl := cube_near M (lms_add_wide M 1981688887 5000000000 2158037573 10000000000 (L := L) (a := a) (b := b)
    (Bm := 18 / 10) (by norm_num) (by norm_num) hL ha hb
    (by refine le_trans (le_of_eq ?_) (w1.trans (by norm_num)); congr 1; norm_num) (by norm_num)) he5
  have nm := cube_near M (lms_sub_wide M 527806729 5000000000 19954429 312500000 (L := L) (a := a) (b := b)
    (Bm := 18 / 10) (by norm_num) (by norm_num) hL ha hb
    (by refine le_trans (le_of_eq ?_) (w2.trans (by norm_num)); congr 1; norm_num; ring) (by norm_num)) he5
  have ns := cube_near M (lms_sub_wide M 35793671 400000000 322871387 250000000 (L := L) (a := a) (b := b)
    (Bm := 18 / 10) (by norm_num) (by norm_num) hL ha hb
    (by refine le_trans (le_of_eq ?_) (w3.trans (by norm_num)); congr 1; norm_num; ring) (by norm_num)) he5
  have r1 := Near.lit M 40767416621 10000000000 (B := 41 / 10) (by norm_num) (by norm_num)
  have r2 := Near.lit M 33077115913 10000000000 (B := 34 / 10) (by norm_num) (by norm_num)
  have r3 := Near.lit M 577424823 2500000000 (B := 1) (by norm_num) (by norm_num)
  have g1 := (Near.lit M 6342190023 5000000000 (B := 13 / 10) (by norm_num) (by norm_num)).neg
  have g2 := Near.lit M 26097574011 10000000000 (B := 27 / 10) (by norm_num) (by norm_num)
  have g3 := Near.lit M 682638793 2000000000 (B := 1) (by norm_num) (by norm_num)
  have k1 := (Near.lit M 41960863 10000000000 (B := 1) (by norm_num) (by norm_num)).neg
  have k2 := Near.lit M 7034186147 10000000000 (B := 1) (by norm_num) (by norm_num)
  have k3 := Near.lit M 1707614701 1000000000 (B := 18 / 10) (by norm_num) (by norm_num)
  simp only [okLin, C.ROL, C.ROM, C.ROS, C.ROR, C.ROG, C.ROB, FltRF.add_val, FltRF.sub_val, FltRF.mul_val,
    FltRF.powi_val, FltRF.lit_val, FltRF.neg_val, FltReal.lit_eq, FltReal.powi_eq, ho0, ho1, ho2]
  refine ⟨(((r1.mul M nl).sub M (r2.mul M nm)).add M (r3.mul M ns)).finish ?_ ?_,
    (((g1.mul M nl).add M (g2.mul M nm)).sub M (g3.mul M ns)).finish ?_ ?_,
    (((k1.mul M nl).sub M (k2.mul M nm)).add M (k3.mul M ns)).finish ?_ ?_⟩
  all_goals norm_num [FP.eps]

/-- `FpRevOk.chan_dec` on the wider range `x ≤ 1.0001` (full channels of 8-bit colours come back up to `1 + 2e-6`) and
with the linear value computed within `3e-12`: the decoded values differ by at most `6.4e-7` -/
theorem chan_dec_wide (t : RF M) {b x : ℝ} (ht : t.val = M.pow (max b 0) (pE M)) (hbx : |b - x| ≤ 3 / 10 ^ 12)
    (hx : x ≤ 1.0001) :
    |(F64.compute_srgb_gamma_expanded t).val - F64.compute_srgb_gamma_expanded ((max x 0) ^ pR)| ≤ 6.4e-7 := by
  have hp : pR = 5 / 11 := by rw [pR_eq]; norm_num
  have hX0 : 0 ≤ max x 0 := le_max_right _ _
  have hs0 : 0 ≤ (max x 0) ^ pR := Real.rpow_nonneg hX0 _
  have hs1 : (max x 0) ^ pR ≤ 1.0001 := by
    rcases le_total (max x 0) 1 with h | h
    · exact (Real.rpow_le_one hX0 h (by rw [hp]; norm_num)).trans (by norm_num)
    · calc (max x 0) ^ pR ≤ (max x 0) ^ (1 : ℝ) := Real.rpow_le_rpow_of_exponent_le h (by rw [hp]; norm_num)
        _ = max x 0 := Real.rpow_one _
        _ ≤ 1.0001 := max_le hx (by norm_num)
  obtain ⟨k1, k2⟩ := abs_le.mp (thrD_close M)
  rcases le_or_gt x (7 / 10000) with hd | hd
  · -- dark
    have hh : ((3 : ℝ) / 10 ^ 12) ^ pR ≤ 7.5e-6 := by
      have h := holder_5_11'
      refine le_trans (Real.rpow_le_rpow (by norm_num) (by norm_num) (by rw [hp]; norm_num)) h
    have eh := enc_holder M hbx (by norm_num) hh (by linarith : x ≤ 3 / 2)
    rw [← ht] at eh
    have hsd : (max x 0) ^ pR ≤ 0.038 :=
      (Real.rpow_le_rpow hX0 (max_le (by norm_num at hd ⊢; linarith) (by norm_num)) (by rw [hp]; norm_num)).trans dark_cert.1
    obtain ⟨e1, e2⟩ := abs_le.mp eh
    have hc : t.val ≤ thrD M := by norm_num at e2 hsd k1 ⊢; linarith
    have a := dec_lin_fp M t _ _ eh (by norm_num) (by rw [abs_of_nonneg hs0]; norm_num at hs1 ⊢; linarith) hc
    rw [Lemmas.Curves.srgb_dec_lin (by norm_num at hsd ⊢; linarith)]
    refine a.trans ?_; norm_num
  · -- not dark
    have em := enc_mid M hbx (by norm_num) hd.le (by linarith)
    rw [← ht] at em
    have hx0 : (0 : ℝ) ≤ x := by norm_num at hd; linarith
    have hsl : 0.03 ≤ (max x 0) ^ pR := by
      refine dark_cert.2.trans (Real.rpow_le_rpow (by norm_num) ?_ (by rw [hp]; norm_num))
      rw [max_eq_left hx0]; norm_num at hd ⊢; linarith
    have a := dec_any M t _ _ em (by norm_num) hsl (by norm_num at hs1 ⊢; linarith)
    refine a.trans ?_; norm_num

open Lemmas.Matrix Lemmas.XyzDispatch in
/-- `R·(M·l)` returns `l` up to `6e-7` per component on the cube `[-1.001, 1.001]³` (D65 rows) -/
theorem roundtrip_lin_abs (l : V3) (i : Fin 3) (h0 : |l.1| ≤ 1.001) (h1 : |l.2.1| ≤ 1.001) (h2 : |l.2.2| ≤ 1.001) :
    |V3.get (mulVec (rev .D65) (mulVec (fwd .D65) l)) i - V3.get l i| ≤ 6e-7 := by
  obtain ⟨l0, l1, l2⟩ := l
  simp only at h0 h1 h2
  obtain ⟨a1, a2⟩ := abs_le.mp h0
  obtain ⟨b1, b2⟩ := abs_le.mp h1
  obtain ⟨c1, c2⟩ := abs_le.mp h2
  fin_cases i <;> unfold_consts <;> rw [abs_le] <;> constructor <;> norm_num <;> norm_num at a1 a2 b1 b2 c1 c2 <;> linarith

open Lemmas.RequantF1a in
/-- **re-quantisation (D65) from a computed linear-light triple**: if the computed decoded channels `D` (what
`Xyz::from(Srgb)` multiplies by the D65 rows) are within `1.23e-4` of the linear-light channels of the 8-bit colour `c`,
and within `4e-5` on every channel of level `≥ 1`, then `as_rgb` of the computed XYZ, evaluated in `RF M`, is `c`.
(Limits: level 0 tolerates `0.5/(12.92·255) = 1.5176e-4`, the other levels `9e-5`, `Lemmas.CurvesF1a.srgb_stable_wide`.) -/
theorem d65_requant_of_dec (c : Rgb) (hr : c.r ≤ 255) (hg : c.g ≤ 255) (hb : c.b ≤ 255) (D1 D2 D3 : RF M)
    (h1 : |D1.val - F64.compute_srgb_gamma_expanded ((c.r : ℝ) / 255)| ≤ 1.23e-4)
    (h1' : 1 ≤ c.r → |D1.val - F64.compute_srgb_gamma_expanded ((c.r : ℝ) / 255)| ≤ 4e-5)
    (h2 : |D2.val - F64.compute_srgb_gamma_expanded ((c.g : ℝ) / 255)| ≤ 1.23e-4)
    (h2' : 1 ≤ c.g → |D2.val - F64.compute_srgb_gamma_expanded ((c.g : ℝ) / 255)| ≤ 4e-5)
    (h3 : |D3.val - F64.compute_srgb_gamma_expanded ((c.b : ℝ) / 255)| ≤ 1.23e-4)
    (h3' : 1 ≤ c.b → |D3.val - F64.compute_srgb_gamma_expanded ((c.b : ℝ) / 255)| ≤ 4e-5) :
    Xyz.as_rgb (⟨dotF' M (D1, D2, D3) C.X65, dotF' M (D1, D2, D3) C.Y65, dotF' M (D1, D2, D3) C.Z65⟩ : Xyz (RF M))
      .D65 = c := by
  have lv : ∀ n : ℕ, n ≤ 255 → 0 ≤ (F64.compute_srgb_gamma_expanded ((n : ℝ) / 255) : ℝ) ∧
      (F64.compute_srgb_gamma_expanded ((n : ℝ) / 255) : ℝ) ≤ 1 := fun n hn =>
    ⟨dec_level_nonneg .D65 n, dec_level_le_one .D65 hn⟩
  have mag : ∀ (D : RF M) (n : ℕ), n ≤ 255 →
      |D.val - F64.compute_srgb_gamma_expanded ((n : ℝ) / 255)| ≤ 1.23e-4 → |D.val| ≤ 1.001 := by
    intro D n hn h
    obtain ⟨k1, k2⟩ := abs_le.mp h
    obtain ⟨l0, l1⟩ := lv n hn
    rw [abs_le]; constructor <;> norm_num at k1 k2 ⊢ <;> linarith
  have m1 := mag D1 c.r hr h1
  have m2 := mag D2 c.g hg h2
  have m3 := mag D3 c.b hb h3
  obtain ⟨s1, s2, s3⟩ := fwd_rows M .D65
  simp only [fwdF] at s1 s2 s3
  have zz : ∀ t : ℝ, |t - t| ≤ 0 := fun t => by simp
  have p1 := dot3_close' M s1 (v := (D1, D2, D3)) (x := (D1.val, D2.val, D3.val)) (e := 0) (zz _) (zz _) (zz _)
    (m1.trans (by norm_num)) (m2.trans (by norm_num)) (m3.trans (by norm_num)) (by norm_num)
  have p2 := dot3_close' M s2 (v := (D1, D2, D3)) (x := (D1.val, D2.val, D3.val)) (e := 0) (zz _) (zz _) (zz _)
    (m1.trans (by norm_num)) (m2.trans (by norm_num)) (m3.trans (by norm_num)) (by norm_num)
  have p3 := dot3_close' M s3 (v := (D1, D2, D3)) (x := (D1.val, D2.val, D3.val)) (e := 0) (zz _) (zz _) (zz _)
    (m1.trans (by norm_num)) (m2.trans (by norm_num)) (m3.trans (by norm_num)) (by norm_num)
  set X1 := dotF' M (D1, D2, D3) C.X65 with hX1
  set X2 := dotF' M (D1, D2, D3) C.Y65 with hX2
  set X3 := dotF' M (D1, D2, D3) C.Z65 with hX3
  have hp : ∀ i, |V3.get (mulVec (rev .D65) (X1.val, X2.val, X3.val)) i -
      V3.get (mulVec (rev .D65) (mulVec (fwd .D65) (D1.val, D2.val, D3.val))) i| ≤ revNorm .D65 * (13 * 0 + 2e-14) :=
    fun i => rev_perturb .D65 (mulVec (fwd .D65) (D1.val, D2.val, D3.val)) (X1.val, X2.val, X3.val) _ p1 p2 p3 i
  have hw := fun i => roundtrip_lin_abs (D1.val, D2.val, D3.val) i m1 m2 m3
  have fz : mulVec (fwd .D65) ((0 : ℝ), (0 : ℝ), (0 : ℝ)) = (0, 0, 0) := by simp [mulVec, Lemmas.Matrix.dot]
  have fr := fun i => Lemmas.OkLabXyzF1b.fwd_perturb (D1.val, D2.val, D3.val) (0, 0, 0) 1.001
    (by simpa using m1) (by simpa using m2) (by simpa using m3) i
  have f1 := fr 0
  have f2 := fr 1
  have f3 := fr 2
  rw [fz] at f1 f2 f3
  simp only [V3.get, mulVec, sub_zero] at f1 f2 f3
  have bX1 : |X1.val| ≤ 3 := by
    have := abs_sub_abs_le_abs_sub X1.val (Lemmas.Matrix.dot (fwd .D65).1 (D1.val, D2.val, D3.val)); norm_num at f1 p1 this ⊢; linarith
  have bX2 : |X2.val| ≤ 3 := by
    have := abs_sub_abs_le_abs_sub X2.val (Lemmas.Matrix.dot (fwd .D65).2.1 (D1.val, D2.val, D3.val)); norm_num at f2 p2 this ⊢; linarith
  have bX3 : |X3.val| ≤ 3 := by
    have := abs_sub_abs_le_abs_sub X3.val (Lemmas.Matrix.dot (fwd .D65).2.2 (D1.val, D2.val, D3.val)); norm_num at f3 p3 this ⊢; linarith
  obtain ⟨v1, v2, v3⟩ := rev_rows M .D65
  have g1 := dot3_close' M v1 (v := (X1, X2, X3)) (x := (X1.val, X2.val, X3.val)) (e := 0) (zz _) (zz _) (zz _)
    bX1 bX2 bX3 (by norm_num)
  have g2 := dot3_close' M v2 (v := (X1, X2, X3)) (x := (X1.val, X2.val, X3.val)) (e := 0) (zz _) (zz _) (zz _)
    bX1 bX2 bX3 (by norm_num)
  have g3 := dot3_close' M v3 (v := (X1, X2, X3)) (x := (X1.val, X2.val, X3.val)) (e := 0) (zz _) (zz _) (zz _)
    bX1 bX2 bX3 (by norm_num)
  -- one channel
  have chan1 : ∀ (n : ℕ), n ≤ 255 → ∀ (a : RF M) (w w' d : ℝ), |a.val - w| ≤ 13 * 0 + 2e-14 →
      |w - w'| ≤ revNorm .D65 * (13 * 0 + 2e-14) → |w' - d| ≤ 6e-7 →
      |d - F64.compute_srgb_gamma_expanded ((n : ℝ) / 255)| ≤ 1.23e-4 →
      (1 ≤ n → |d - F64.compute_srgb_gamma_expanded ((n : ℝ) / 255)| ≤ 4e-5) →
      Real.toU8 (Real.roundHA (F64.apply_srgb_gamma_correction a * Flt.lit 0x406FE00000000000 255 1).val) = n := by
    intro n hn a w w' d e1 e2 e3 e4 e5
    obtain ⟨hl0, hl1⟩ := lv n hn
    simp only [revNorm] at e2
    obtain ⟨a1, a2⟩ := abs_le.mp e1
    obtain ⟨a3, a4⟩ := abs_le.mp e2
    obtain ⟨a5, a6⟩ := abs_le.mp e3
    apply Lemmas.Curves.quant_eq n hn
    rcases Nat.eq_zero_or_pos n with hz | hpos
    · subst hz
      simp only [Nat.cast_zero, zero_div, Lemmas.Curves.srgb_dec_zero, sub_zero] at e4 ⊢
      obtain ⟨a7, a8⟩ := abs_le.mp e4
      have ha : |a.val| ≤ 1.24e-4 := by
        rw [abs_le]; constructor <;> norm_num at a1 a2 a3 a4 a5 a6 a7 a8 ⊢ <;> linarith
      obtain ⟨k1, k2⟩ := abs_le.mp ha
      have en := srgb_enc_fp M a _ a.val (lit255_val M) (by rw [sub_self, abs_zero]; norm_num) (Or.inl (by norm_num at k2 ⊢; linarith))
        (by norm_num at k1 ⊢; linarith) (by norm_num at k2 ⊢; linarith)
      rw [Lemmas.Curves.srgb_enc_lin (by norm_num at k2 ⊢; linarith)] at en
      obtain ⟨n1, n2⟩ := abs_le.mp en
      rw [abs_lt]; constructor <;> norm_num at k1 k2 n1 n2 ⊢ <;> linarith
    · obtain ⟨a7, a8⟩ := abs_le.mp (e5 hpos)
      have hδ : |a.val - F64.compute_srgb_gamma_expanded ((n : ℝ) / 255)| ≤ 6e-5 := by
        rw [abs_le]; constructor <;> norm_num at a1 a2 a3 a4 a5 a6 a7 a8 ⊢ <;> linarith
      obtain ⟨q1, q2, q3⟩ := FpCieXyz.srgb_lin_gap_wide n hn a.val hδ
      have en := srgb_enc_fp M a _ a.val (lit255_val M) (by rw [sub_self, abs_zero]; norm_num) q1 q2 q3
      have st := Lemmas.CurvesF1a.srgb_stable_wide n hn (a.val - F64.compute_srgb_gamma_expanded ((n : ℝ) / 255))
        (hδ.trans (by norm_num))
      rw [add_sub_cancel] at st
      have t3 := abs_sub_le (F64.apply_srgb_gamma_correction a * Flt.lit 0x406FE00000000000 255 1).val
        (F64.apply_srgb_gamma_correction a.val * 255) (n : ℝ)
      norm_num at st en t3 ⊢
      linarith
  rw [as_rgb_eq_fp]
  have w1 := hw 0
  have w2 := hw 1
  have w3 := hw 2
  have y1 := hp 0
  have y2 := hp 1
  have y3 := hp 2
  simp only [V3.get, mulVec] at w1 w2 w3 y1 y2 y3
  have k1 := chan1 c.r hr (dotF' M (X1, X2, X3) (revF M .D65).1) _ _ _ g1 y1 w1 h1 h1'
  have k2 := chan1 c.g hg (dotF' M (X1, X2, X3) (revF M .D65).2.1) _ _ _ g2 y2 w2 h2 h2'
  have k3 := chan1 c.b hb (dotF' M (X1, X2, X3) (revF M .D65).2.2) _ _ _ g3 y3 w3 h3 h3'
  simp only [preF, rlinF, encF]
  rw [k1, k2, k3]


/-- a computed XYZ that is the D65 rows applied to a computed linear-light triple `D` within `1.23e-4` of the linear-light
channels of the 8-bit colour `c`, within `4e-5` on channels of level `≥ 1` -/
def DecOK (c : Rgb) (x : Xyz (RF M)) : Prop :=
  ∃ D1 D2 D3 : RF M,
    x = ⟨dotF' M (D1, D2, D3) C.X65, dotF' M (D1, D2, D3) C.Y65, dotF' M (D1, D2, D3) C.Z65⟩ ∧
    (|D1.val - F64.compute_srgb_gamma_expanded ((c.r : ℝ) / 255)| ≤ 1.23e-4 ∧
      (1 ≤ c.r → |D1.val - F64.compute_srgb_gamma_expanded ((c.r : ℝ) / 255)| ≤ 4e-5)) ∧
    (|D2.val - F64.compute_srgb_gamma_expanded ((c.g : ℝ) / 255)| ≤ 1.23e-4 ∧
      (1 ≤ c.g → |D2.val - F64.compute_srgb_gamma_expanded ((c.g : ℝ) / 255)| ≤ 4e-5)) ∧
    (|D3.val - F64.compute_srgb_gamma_expanded ((c.b : ℝ) / 255)| ≤ 1.23e-4 ∧
      (1 ≤ c.b → |D3.val - F64.compute_srgb_gamma_expanded ((c.b : ℝ) / 255)| ≤ 4e-5))

theorem DecOK.requant {c : Rgb} {x : Xyz (RF M)} (h : DecOK M c x) (hr : c.r ≤ 255) (hg : c.g ≤ 255) (hb : c.b ≤ 255) :
    Xyz.as_rgb x .D65 = c := by
  obtain ⟨D1, D2, D3, e, ⟨h1, h1'⟩, ⟨h2, h2'⟩, ⟨h3, h3'⟩⟩ := h
  rw [e]; exact d65_requant_of_dec M c hr hg hb D1 D2 D3 h1 h1' h2 h2' h3 h3'

/-- such an XYZ is within `1.35e-4` of the real-model XYZ of the colour (`1.0891·1.23e-4`, the D65 rows) -/
theorem DecOK.near {c : Rgb} {x : Xyz (RF M)} (h : DecOK M c x) (hr : c.r ≤ 255) (hg : c.g ≤ 255) (hb : c.b ≤ 255) :
    |x.x.val - (Xyz.from_rgb (α := ℝ) c .D65).x| ≤ 1.35e-4 ∧ |x.y.val - (Xyz.from_rgb (α := ℝ) c .D65).y| ≤ 1.35e-4 ∧
    |x.z.val - (Xyz.from_rgb (α := ℝ) c .D65).z| ≤ 1.35e-4 := by
  obtain ⟨D1, D2, D3, e, ⟨h1, _⟩, ⟨h2, _⟩, ⟨h3, _⟩⟩ := h
  have lv : ∀ n : ℕ, n ≤ 255 → 0 ≤ (F64.compute_srgb_gamma_expanded ((n : ℝ) / 255) : ℝ) ∧
      (F64.compute_srgb_gamma_expanded ((n : ℝ) / 255) : ℝ) ≤ 1 := fun n hn =>
    ⟨dec_level_nonneg .D65 n, dec_level_le_one .D65 hn⟩
  have mag : ∀ (D : RF M) (n : ℕ), n ≤ 255 →
      |D.val - F64.compute_srgb_gamma_expanded ((n : ℝ) / 255)| ≤ 1.23e-4 → |D.val| ≤ 3 := by
    intro D n hn h
    obtain ⟨k1, k2⟩ := abs_le.mp h
    obtain ⟨l0, l1⟩ := lv n hn
    rw [abs_le]; constructor <;> norm_num at k1 k2 ⊢ <;> linarith
  have m1 := mag D1 c.r hr h1
  have m2 := mag D2 c.g hg h2
  have m3 := mag D3 c.b hb h3
  obtain ⟨s1, s2, s3⟩ := fwd_rows M .D65
  simp only [fwdF] at s1 s2 s3
  have zz : ∀ t : ℝ, |t - t| ≤ 0 := fun t => by simp
  have p1 := dot3_close' M s1 (v := (D1, D2, D3)) (x := (D1.val, D2.val, D3.val)) (e := 0) (zz _) (zz _) (zz _)
    m1 m2 m3 (by norm_num)
  have p2 := dot3_close' M s2 (v := (D1, D2, D3)) (x := (D1.val, D2.val, D3.val)) (e := 0) (zz _) (zz _) (zz _)
    m1 m2 m3 (by norm_num)
  have p3 := dot3_close' M s3 (v := (D1, D2, D3)) (x := (D1.val, D2.val, D3.val)) (e := 0) (zz _) (zz _) (zz _)
    m1 m2 m3 (by norm_num)
  have fr := fun i => Lemmas.OkLabXyzF1b.fwd_perturb (D1.val, D2.val, D3.val) (lin .D65 c) 1.23e-4 h1 h2 h3 i
  have f1 := fr 0
  have f2 := fr 1
  have f3 := fr 2
  simp only [V3.get, mulVec] at f1 f2 f3
  rw [e, from_rgb_eq]
  simp only [toXyz, mulVec]
  refine ⟨?_, ?_, ?_⟩
  · have := abs_sub_le (dotF' M (D1, D2, D3) C.X65).val (Lemmas.Matrix.dot (fwd .D65).1 (D1.val, D2.val, D3.val))
      (Lemmas.Matrix.dot (fwd .D65).1 (lin .D65 c))
    norm_num at p1 f1 this ⊢; linarith
  · have := abs_sub_le (dotF' M (D1, D2, D3) C.Y65).val (Lemmas.Matrix.dot (fwd .D65).2.1 (D1.val, D2.val, D3.val))
      (Lemmas.Matrix.dot (fwd .D65).2.1 (lin .D65 c))
    norm_num at p2 f2 this ⊢; linarith
  · have := abs_sub_le (dotF' M (D1, D2, D3) C.Z65).val (Lemmas.Matrix.dot (fwd .D65).2.2 (D1.val, D2.val, D3.val))
      (Lemmas.Matrix.dot (fwd .D65).2.2 (lin .D65 c))
    norm_num at p3 f3 this ⊢; linarith

open Props.C07 Lemmas.OkLabXyzF1b in
/-- **`as_rgb (Xyz::from(OkLab o))` in `RF M` from exact-real facts about Ottosson's inverse AT THE COMPUTED `o`**: with
`v = ottossonInv (o.l, o.a, o.b)` (real), if each decoded channel `D(pow22Inv vᵢ)` is within `1.223e-4` of the linear-light level
of the 8-bit colour `c` (within `3.9e-5` on channels of level `≥ 1`), the computed result is `c`. -/
theorem oklab_back_of_lin (c : Rgb) (_hr : c.r ≤ 255) (_hg : c.g ≤ 255) (_hb : c.b ≤ 255) (o : OkLab (RF M))
    (hL : |o.l.val| ≤ 1.01) (ha : |o.a.val| ≤ 4.9) (hb' : |o.b.val| ≤ 1.7)
    (w1 : |(Props.C07.mulVec R1 (o.l.val, o.a.val, o.b.val)).1| ≤ 1.01)
    (w2 : |(Props.C07.mulVec R1 (o.l.val, o.a.val, o.b.val)).2.1| ≤ 1.01)
    (w3 : |(Props.C07.mulVec R1 (o.l.val, o.a.val, o.b.val)).2.2| ≤ 1.01)
    (u1 : (ottossonInv (o.l.val, o.a.val, o.b.val)).1 ≤ 1.0001) (u2 : (ottossonInv (o.l.val, o.a.val, o.b.val)).2.1 ≤ 1.0001)
    (u3 : (ottossonInv (o.l.val, o.a.val, o.b.val)).2.2 ≤ 1.0001)
    (k1 : |(F64.compute_srgb_gamma_expanded (pow22Inv (ottossonInv (o.l.val, o.a.val, o.b.val)).1) : ℝ)
      - F64.compute_srgb_gamma_expanded ((c.r : ℝ) / 255)| ≤ 1.223e-4)
    (k1' : 1 ≤ c.r → |(F64.compute_srgb_gamma_expanded (pow22Inv (ottossonInv (o.l.val, o.a.val, o.b.val)).1) : ℝ)
      - F64.compute_srgb_gamma_expanded ((c.r : ℝ) / 255)| ≤ 3.9e-5)
    (k2 : |(F64.compute_srgb_gamma_expanded (pow22Inv (ottossonInv (o.l.val, o.a.val, o.b.val)).2.1) : ℝ)
      - F64.compute_srgb_gamma_expanded ((c.g : ℝ) / 255)| ≤ 1.223e-4)
    (k2' : 1 ≤ c.g → |(F64.compute_srgb_gamma_expanded (pow22Inv (ottossonInv (o.l.val, o.a.val, o.b.val)).2.1) : ℝ)
      - F64.compute_srgb_gamma_expanded ((c.g : ℝ) / 255)| ≤ 3.9e-5)
    (k3 : |(F64.compute_srgb_gamma_expanded (pow22Inv (ottossonInv (o.l.val, o.a.val, o.b.val)).2.2) : ℝ)
      - F64.compute_srgb_gamma_expanded ((c.b : ℝ) / 255)| ≤ 1.223e-4)
    (k3' : 1 ≤ c.b → |(F64.compute_srgb_gamma_expanded (pow22Inv (ottossonInv (o.l.val, o.a.val, o.b.val)).2.2) : ℝ)
      - F64.compute_srgb_gamma_expanded ((c.b : ℝ) / 255)| ≤ 3.9e-5) :
    DecOK M c (Xyz.from_OkLab o) := by
  obtain ⟨l1, l2, l3⟩ := oklin_fp_wide M o hL ha hb' w1 w2 w3
  obtain ⟨f1, f2, f3⟩ := as_non_linear_fp M (okLin o)
  obtain ⟨e1, e2, e3⟩ := oklin_real ⟨o.l.val, o.a.val, o.b.val⟩
  simp only at e1 e2 e3
  have hpR : pR = 1 / 2.2 := by unfold pR; norm_num
  have d1 := chan_dec_wide M _ f1 l1 (by rw [e1]; exact u1)
  have d2 := chan_dec_wide M _ f2 l2 (by rw [e2]; exact u2)
  have d3 := chan_dec_wide M _ f3 l3 (by rw [e3]; exact u3)
  rw [e1, hpR] at d1; rw [e2, hpR] at d2; rw [e3, hpR] at d3
  have pi : ∀ x : ℝ, pow22Inv x = (max x 0) ^ ((1 : ℝ) / 2.2) := fun _ => rfl
  rw [← pi] at d1 d2 d3
  have comb : ∀ (D P T : ℝ) (B : ℝ), |D - P| ≤ 6.4e-7 → |P - T| ≤ B → |D - T| ≤ B + 6.4e-7 := by
    intro D P T B h h'
    have := abs_sub_le D P T; linarith
  have hx : Xyz.from_OkLab o = Xyz.from_Srgb (Srgb.as_non_linear (okLin o)) := rfl
  rw [hx, xyz_from_srgb_fp]
  exact ⟨_, _, _, rfl,
    ⟨(comb _ _ _ _ d1 k1).trans (by norm_num), fun h => (comb _ _ _ _ d1 (k1' h)).trans (by norm_num)⟩,
    ⟨(comb _ _ _ _ d2 k2).trans (by norm_num), fun h => (comb _ _ _ _ d2 (k2' h)).trans (by norm_num)⟩,
    ⟨(comb _ _ _ _ d3 k3).trans (by norm_num), fun h => (comb _ _ _ _ d3 (k3' h)).trans (by norm_num)⟩⟩

open Props.C07 Lemmas.OkLabXyzF1b Lemmas.OkLabF1b in
/-- **the reverse OkLab conversion and the re-quantisation in `RF M`, from a computed OkLab value close to Ottosson's
transform of a linear triple** `(r, g, b) ∈ [0, 1.000001]³`: if the computed `o` is within `4e-13` of `ottosson (r, g, b)`,
and each `D(rᵢ^(1/2.2))` is within `8.3e-6` of the linear-light level of `c` (with `rᵢ ≥ 5e-6` on channels of level `≥ 1`),
then `Xyz::from(OkLab o)` evaluated in `RF M` is `DecOK` for `c` (hence re-quantises to `c`).  Exact-real ingredients: `Lemmas.OkLabF1b.ottosson_roundtrip`
(`5.8e-7`), `ottossonInv_pert`, `Lemmas.OkLabXyzF1b.dec_rpow_perturb` (`1.14e-4` / `3e-5`). -/
theorem oklab_back_core (c : Rgb) (hr : c.r ≤ 255) (hg : c.g ≤ 255) (hb : c.b ≤ 255) (o : OkLab (RF M)) (r g b : ℝ)
    (rr : 0 ≤ r ∧ r ≤ 1.000001) (rg : 0 ≤ g ∧ g ≤ 1.000001) (rb : 0 ≤ b ∧ b ≤ 1.000001)
    (q1 : |o.l.val - (ottosson (r, g, b)).1| ≤ 4e-13) (q2 : |o.a.val - (ottosson (r, g, b)).2.1| ≤ 4e-13)
    (q3 : |o.b.val - (ottosson (r, g, b)).2.2| ≤ 4e-13)
    (f1 : |(F64.compute_srgb_gamma_expanded (r ^ ((1 : ℝ) / 2.2)) : ℝ) - F64.compute_srgb_gamma_expanded ((c.r : ℝ) / 255)| ≤ 8.3e-6)
    (f1' : 1 ≤ c.r → 5e-6 ≤ r)
    (f2 : |(F64.compute_srgb_gamma_expanded (g ^ ((1 : ℝ) / 2.2)) : ℝ) - F64.compute_srgb_gamma_expanded ((c.g : ℝ) / 255)| ≤ 8.3e-6)
    (f2' : 1 ≤ c.g → 5e-6 ≤ g)
    (f3 : |(F64.compute_srgb_gamma_expanded (b ^ ((1 : ℝ) / 2.2)) : ℝ) - F64.compute_srgb_gamma_expanded ((c.b : ℝ) / 255)| ≤ 8.3e-6)
    (f3' : 1 ≤ c.b → 5e-6 ≤ b) :
    DecOK M c (Xyz.from_OkLab o) := by
  obtain ⟨⟨b1, b2, b3⟩, ⟨c1, c2, c3⟩⟩ := ottosson_box (B := 1.000001) le_rfl rr rg rb
  obtain ⟨⟨p1, p2, p3⟩, ⟨w1, w2, w3⟩⟩ := ottossonInv_pert (o.l.val, o.a.val, o.b.val) (ottosson (r, g, b)) 4e-13
    (by norm_num) q1 q2 q3 c1 c2 c3
  obtain ⟨⟨o1, o2⟩, ⟨o3, o4⟩, ⟨o5, o6⟩⟩ := ottosson_roundtrip (B := 1.000001) rr rg rb
  have mg : ∀ x y B : ℝ, |x - y| ≤ 4e-13 → |y| ≤ B → |x| ≤ B + 4e-13 := by
    intro x y B h h'
    have := abs_sub_abs_le_abs_sub x y; linarith
  have hL := (mg _ _ _ q1 b1).trans (by norm_num : (1.0091 : ℝ) + 4e-13 ≤ 1.01)
  have ha := (mg _ _ _ q2 b2).trans (by norm_num : (4.8581 : ℝ) + 4e-13 ≤ 4.9)
  have hb' := (mg _ _ _ q3 b3).trans (by norm_num : (1.6181 : ℝ) + 4e-13 ≤ 1.7)
  -- one channel
  have chan1 : ∀ (n : ℕ) (v v1 x : ℝ), |v - v1| ≤ 57 * 4e-13 → -(51 / 10 ^ 8) * 1.000001 ≤ v1 - x →
      v1 - x ≤ 58 / 10 ^ 8 * 1.000001 → 0 ≤ x → x ≤ 1.000001 →
      |(F64.compute_srgb_gamma_expanded (x ^ ((1 : ℝ) / 2.2)) : ℝ) - F64.compute_srgb_gamma_expanded ((n : ℝ) / 255)| ≤ 8.3e-6 →
      (1 ≤ n → 5e-6 ≤ x) →
      v ≤ 1.0001 ∧
      |(F64.compute_srgb_gamma_expanded (pow22Inv v) : ℝ) - F64.compute_srgb_gamma_expanded ((n : ℝ) / 255)| ≤ 1.223e-4 ∧
      (1 ≤ n → |(F64.compute_srgb_gamma_expanded (pow22Inv v) : ℝ) - F64.compute_srgb_gamma_expanded ((n : ℝ) / 255)| ≤ 3.9e-5) := by
    intro n v v1 x hv lo hi hx0 hx1 hf hf'
    obtain ⟨a1, a2⟩ := abs_le.mp hv
    have hvx : |v - x| ≤ 582 / 10 ^ 9 := by rw [abs_le]; constructor <;> norm_num at a1 a2 lo hi ⊢ <;> linarith
    have hab : |max v 0 - x| ≤ 582 / 10 ^ 9 := by
      obtain ⟨h1, h2⟩ := abs_le.mp hvx
      rw [abs_le]
      constructor
      · have := le_max_left v 0; linarith
      · exact sub_le_iff_le_add.mpr (max_le (by linarith) (by linarith))
    obtain ⟨d1, d2⟩ := dec_rpow_perturb (le_max_right v 0) hx0 (by norm_num at hx1 ⊢; linarith) hab
    have e0 : pow22Inv v = (max v 0) ^ ((1 : ℝ) / 2.2) := rfl
    rw [e0]
    refine ⟨by obtain ⟨_, h2⟩ := abs_le.mp hvx; norm_num at h2 hx1 ⊢; linarith, ?_, fun h => ?_⟩
    · have := abs_sub_le (F64.compute_srgb_gamma_expanded ((max v 0) ^ ((1 : ℝ) / 2.2)) : ℝ)
        (F64.compute_srgb_gamma_expanded (x ^ ((1 : ℝ) / 2.2))) (F64.compute_srgb_gamma_expanded ((n : ℝ) / 255))
      norm_num at d1 hf this ⊢; linarith
    · have d2' := d2 (by have := hf' h; norm_num at this ⊢; linarith)
      have := abs_sub_le (F64.compute_srgb_gamma_expanded ((max v 0) ^ ((1 : ℝ) / 2.2)) : ℝ)
        (F64.compute_srgb_gamma_expanded (x ^ ((1 : ℝ) / 2.2))) (F64.compute_srgb_gamma_expanded ((n : ℝ) / 255))
      norm_num at d2' hf this ⊢; linarith
  obtain ⟨u1, k1, k1'⟩ := chan1 c.r _ _ r p1 (by linarith) o2 rr.1 rr.2 f1 f1'
  obtain ⟨u2, k2, k2'⟩ := chan1 c.g _ _ g p2 (by linarith) (by linarith) rg.1 rg.2 f2 f2'
  obtain ⟨u3, k3, k3'⟩ := chan1 c.b _ _ b p3 (by linarith) (by linarith) rb.1 rb.2 f3 f3'
  exact oklab_back_of_lin M c hr hg hb o hL ha hb' w1 w2 w3 u1 u2 u3 k1 k1' k2 k2' k3 k3'

open Props.C07 Lemmas.OkLabXyzF1b Lemmas.CurvesD2 in
/-- one encoded channel of the forward path: the computed encoded value `sv` is within `4e-11` of the real one `x`, which is
within `3.6e-6` of the level `n/255` and at most `1 + 3.2e-7` -/
theorem fwd_chan (n : ℕ) (hn : n ≤ 255) (sv x : ℝ) (h1 : |sv - x| ≤ 4e-11) (h2 : |x - (n : ℝ) / 255| ≤ 3.6e-6)
    (h3 : x ≤ 1 + 3.2e-7) :
    Chan sv sv 0 ∧ (1 ≤ n → 0.0039 ≤ sv) ∧ (0 ≤ pow22 sv ∧ pow22 sv ≤ 1.000001) ∧
    |(F64.compute_srgb_gamma_expanded ((pow22 sv) ^ ((1 : ℝ) / 2.2)) : ℝ) - F64.compute_srgb_gamma_expanded ((n : ℝ) / 255)|
      ≤ 8.3e-6 ∧
    (1 ≤ n → 5e-6 ≤ pow22 sv) := by
  obtain ⟨a1, a2⟩ := abs_le.mp h1
  obtain ⟨b1, b2⟩ := abs_le.mp h2
  have hn' : (n : ℝ) ≤ 255 := by exact_mod_cast hn
  have hle : (n : ℝ) / 255 ≤ 1 := by rw [div_le_one (by norm_num)]; exact hn'
  have hl0 : (0 : ℝ) ≤ (n : ℝ) / 255 := by positivity
  have hm0 : 0 ≤ max sv 0 := le_max_right _ _
  have hb : pow22 sv = (max sv 0) ^ (2.2 : ℝ) := rfl
  have hb0 : 0 ≤ pow22 sv := by rw [hb]; exact Real.rpow_nonneg hm0 _
  have hbinv : (pow22 sv) ^ ((1 : ℝ) / 2.2) = max sv 0 := by
    have := pow22_inverse sv
    simp only [pow22Inv] at this
    rwa [max_eq_left hb0] at this
  have hbright : 1 ≤ n → 0.0039176 ≤ sv := by
    intro h
    have h1n : (1 : ℝ) ≤ n := by exact_mod_cast h
    have : (1 : ℝ) / 255 ≤ (n : ℝ) / 255 := div_le_div_of_nonneg_right h1n (by norm_num)
    norm_num at this a1 b1 ⊢; linarith
  refine ⟨⟨by simp, ?_⟩, fun h => (by norm_num : (0.0039 : ℝ) ≤ 0.0039176).trans (hbright h), ⟨hb0, ?_⟩, ?_, ?_⟩
  · rcases Nat.eq_zero_or_pos n with h0 | h0
    · subst h0
      simp only [Nat.cast_zero, zero_div, sub_zero] at b1 b2
      exact Or.inr (by rw [abs_le]; constructor <;> norm_num at a1 a2 b1 b2 ⊢ <;> linarith)
    · have := hbright h0
      exact Or.inl ⟨by norm_num at this ⊢; linarith, by norm_num at a2 h3 ⊢; linarith⟩
  · have hm1 : max sv 0 ≤ 1 + 3.3e-7 := max_le (by norm_num at a2 h3 ⊢; linarith) (by norm_num)
    rw [hb]
    rcases le_total (max sv 0) 1 with h | h
    · have := Real.rpow_le_one hm0 h (by norm_num : (0 : ℝ) ≤ 2.2); linarith
    · have k1 : (max sv 0) ^ (2.2 : ℝ) ≤ (max sv 0) ^ (3 : ℝ) := Real.rpow_le_rpow_of_exponent_le h (by norm_num)
      have k2 : (max sv 0) ^ (3 : ℝ) ≤ (1 + 3.3e-7 : ℝ) ^ (3 : ℝ) := Real.rpow_le_rpow hm0 hm1 (by norm_num)
      have k3 : (1 + 3.3e-7 : ℝ) ^ (3 : ℝ) ≤ 1.000001 := by
        rw [show (3 : ℝ) = ((3 : ℕ) : ℝ) by norm_num, Real.rpow_natCast]; norm_num
      linarith
  · rw [hbinv]
    have hd : |max sv 0 - (n : ℝ) / 255| ≤ 3.6001e-6 := by
      have e : (n : ℝ) / 255 = max ((n : ℝ) / 255) 0 := (max_eq_left hl0).symm
      rw [e]
      refine (abs_max_sub_max_le_abs _ _ _).trans ?_
      rw [abs_le]; constructor <;> norm_num at a1 a2 b1 b2 ⊢ <;> linarith
    obtain ⟨d1, d2⟩ := abs_le.mp hd
    have q := dec_quasi_lipschitz_abs (u := (n : ℝ) / 255) (v := max sv 0) (by linarith)
      (by norm_num at d2 ⊢; linarith)
    have : (2.28 : ℝ) * |max sv 0 - (n : ℝ) / 255| ≤ 2.28 * 3.6001e-6 := mul_le_mul_of_nonneg_left hd (by norm_num)
    norm_num at q this ⊢; linarith
  · intro h
    have hs1 := hbright h
    rw [hb, max_eq_left (by linarith)]
    have k2 : (0.0039176 : ℝ) ^ (2.2 : ℝ) ≤ sv ^ (2.2 : ℝ) := Real.rpow_le_rpow (by norm_num) hs1 (by norm_num)
    have k3 : (5e-6 : ℝ) ≤ (0.0039176 : ℝ) ^ (2.2 : ℝ) := by
      rw [e_22]; exact le_rpow_div 11 5 (by norm_num) (by norm_num) (by norm_num) (by norm_num)
    linarith

open Props.C07 Lemmas.OkLabXyzF1b in
/-- **the forward path `rgb → xyz → OkLab` in `RF M` for a non-black 8-bit colour**: the computed OkLab value is within
`1e-13` of Ottosson's transform of a linear triple `(r, g, b) = pow22` of the COMPUTED encoded sRGB channels, which has the
properties `oklab_back_core` needs -/
theorem oklab_fwd_facts (c : Rgb) (hr : c.r ≤ 255) (hg : c.g ≤ 255) (hb : c.b ≤ 255)
    (hnb : 1 ≤ c.r ∨ 1 ≤ c.g ∨ 1 ≤ c.b) :
    ∃ r g b : ℝ, (0 ≤ r ∧ r ≤ 1.000001) ∧ (0 ≤ g ∧ g ≤ 1.000001) ∧ (0 ≤ b ∧ b ≤ 1.000001) ∧
      |(OkLab.from_Xyz (Xyz.from_rgb (α := RF M) c .D65)).l.val - (ottosson (r, g, b)).1| ≤ 1e-13 ∧
      |(OkLab.from_Xyz (Xyz.from_rgb (α := RF M) c .D65)).a.val - (ottosson (r, g, b)).2.1| ≤ 1e-13 ∧
      |(OkLab.from_Xyz (Xyz.from_rgb (α := RF M) c .D65)).b.val - (ottosson (r, g, b)).2.2| ≤ 1e-13 ∧
      (|(F64.compute_srgb_gamma_expanded (r ^ ((1 : ℝ) / 2.2)) : ℝ) - F64.compute_srgb_gamma_expanded ((c.r : ℝ) / 255)| ≤ 8.3e-6 ∧
        (1 ≤ c.r → 5e-6 ≤ r)) ∧
      (|(F64.compute_srgb_gamma_expanded (g ^ ((1 : ℝ) / 2.2)) : ℝ) - F64.compute_srgb_gamma_expanded ((c.g : ℝ) / 255)| ≤ 8.3e-6 ∧
        (1 ≤ c.g → 5e-6 ≤ g)) ∧
      (|(F64.compute_srgb_gamma_expanded (b ^ ((1 : ℝ) / 2.2)) : ℝ) - F64.compute_srgb_gamma_expanded ((c.b : ℝ) / 255)| ≤ 8.3e-6 ∧
        (1 ≤ c.b → 5e-6 ≤ b)) := by
  obtain ⟨e1, e2, e3⟩ := srgb_fwd_close M c hr hg hb
  obtain ⟨t1, t2, t3⟩ := Props.C08.forward_srgb_tight c hr hg hb
  -- the real encoded values are at most `1 + 3.2e-7`
  have hl := fun j => roundtrip_lin .D65 (lin .D65 c) j (dec_level_nonneg .D65 c.r) (dec_level_le_one .D65 hr)
    (dec_level_nonneg .D65 c.g) (dec_level_le_one .D65 hg) (dec_level_nonneg .D65 c.b) (dec_level_le_one .D65 hb)
  have h1 := hl 0; have h2 := hl 1; have h3 := hl 2
  simp only [V3.get] at h1 h2 h3
  have hs : Srgb.from_Xyz (Xyz.from_rgb (α := ℝ) c .D65) =
      ⟨F64.apply_srgb_gamma_correction (Lemmas.Matrix.mulVec (rev .D65) (Lemmas.Matrix.mulVec (fwd .D65) (lin .D65 c))).1,
       F64.apply_srgb_gamma_correction (Lemmas.Matrix.mulVec (rev .D65) (Lemmas.Matrix.mulVec (fwd .D65) (lin .D65 c))).2.1,
       F64.apply_srgb_gamma_correction (Lemmas.Matrix.mulVec (rev .D65) (Lemmas.Matrix.mulVec (fwd .D65) (lin .D65 c))).2.2⟩ := by
    rw [from_rgb_eq, srgb_from_xyz_real]
  have up : ∀ t l : ℝ, |t - l| ≤ 3e-7 → l ≤ 1 → (F64.apply_srgb_gamma_correction t : ℝ) ≤ 1 + 3.2e-7 := by
    intro t l h hl1
    exact (enc_range (by have := (abs_le.mp h).2; linarith)).2.2
  have u1 : (Srgb.from_Xyz (Xyz.from_rgb (α := ℝ) c .D65)).r ≤ 1 + 3.2e-7 := by
    rw [hs]; exact up _ _ h1 (dec_level_le_one .D65 hr)
  have u2 : (Srgb.from_Xyz (Xyz.from_rgb (α := ℝ) c .D65)).g ≤ 1 + 3.2e-7 := by
    rw [hs]; exact up _ _ h2 (dec_level_le_one .D65 hg)
  have u3 : (Srgb.from_Xyz (Xyz.from_rgb (α := ℝ) c .D65)).b ≤ 1 + 3.2e-7 := by
    rw [hs]; exact up _ _ h3 (dec_level_le_one .D65 hb)
  obtain ⟨c1, d1, r1, f1, g1⟩ := fwd_chan c.r hr _ _ e1 t1 u1
  obtain ⟨c2, d2, r2, f2, g2⟩ := fwd_chan c.g hg _ _ e2 t2 u2
  obtain ⟨c3, d3, r3, f3, g3⟩ := fwd_chan c.b hb _ _ e3 t3 u3
  set s' := Srgb.from_Xyz (Xyz.from_rgb (α := RF M) c .D65) with hs'
  have hbright : 0.0039 ≤ s'.r.val ∨ 0.0039 ≤ s'.g.val ∨ 0.0039 ≤ s'.b.val := by
    rcases hnb with h | h | h
    · exact Or.inl (d1 h)
    · exact Or.inr (Or.inl (d2 h))
    · exact Or.inr (Or.inr (d3 h))
  obtain ⟨k1, k2, k3⟩ := oklab_core M s' ⟨s'.r.val, s'.g.val, s'.b.val⟩ 0 le_rfl (by norm_num) c1 c2 c3 hbright
  rw [oklab_is_ottosson_of_pow22] at k1 k2 k3
  have ho : OkLab.from_Xyz (Xyz.from_rgb (α := RF M) c .D65) = OkLab.from_Srgb s' := rfl
  rw [ho]
  exact ⟨_, _, _, r1, r2, r3, k1.trans (by norm_num), k2.trans (by norm_num), k3.trans (by norm_num),
    ⟨f1, g1⟩, ⟨f2, g2⟩, ⟨f3, g3⟩⟩

open Props.C07 in
theorem ottosson_zero : ottosson (0, 0, 0) = (0, 0, 0) := by
  simp [ottosson, Props.C07.mulVec, Props.C07.row, cbrt3, M1, M2, Lemmas.FpEnc.cbrt_zero']

/-- the computed OkLab of black is at most `1e-70` in every coordinate -/
theorem oklab_fwd_black :
    |(OkLab.from_Xyz (Xyz.from_rgb (α := RF M) ⟨0, 0, 0⟩ .D65)).l.val| ≤ 1e-70 ∧
    |(OkLab.from_Xyz (Xyz.from_rgb (α := RF M) ⟨0, 0, 0⟩ .D65)).a.val| ≤ 1e-70 ∧
    |(OkLab.from_Xyz (Xyz.from_rgb (α := RF M) ⟨0, 0, 0⟩ .D65)).b.val| ≤ 1e-70 := by
  obtain ⟨z1, z2, z3⟩ := srgb_black_fp M
  exact oklab_black M _ z1 z2 z3

open Props.C07 in
/-- the reverse conversion and re-quantisation of a computed OkLab value that is tiny in every coordinate: black -/
theorem oklab_back_black (o : OkLab (RF M)) (h1 : |o.l.val| ≤ 4e-13) (h2 : |o.a.val| ≤ 4e-13) (h3 : |o.b.val| ≤ 4e-13) :
    DecOK M ⟨0, 0, 0⟩ (Xyz.from_OkLab o) := by
  have z : (F64.compute_srgb_gamma_expanded ((0 : ℝ) ^ ((1 : ℝ) / 2.2)) : ℝ)
      - F64.compute_srgb_gamma_expanded ((((0 : ℕ) : ℝ)) / 255) = 0 := by
    rw [Real.zero_rpow (by norm_num)]; simp
  have f : |(F64.compute_srgb_gamma_expanded ((0 : ℝ) ^ ((1 : ℝ) / 2.2)) : ℝ)
      - F64.compute_srgb_gamma_expanded ((((0 : ℕ) : ℝ)) / 255)| ≤ 8.3e-6 := by rw [z, abs_zero]; norm_num
  have f' : 1 ≤ 0 → (5e-6 : ℝ) ≤ 0 := fun h => absurd h (by norm_num)
  refine oklab_back_core M ⟨0, 0, 0⟩ (by norm_num) (by norm_num) (by norm_num) o 0 0 0 (by norm_num) (by norm_num)
    (by norm_num) ?_ ?_ ?_ f f' f f' f f'
  · rw [ottosson_zero]; simpa using h1
  · rw [ottosson_zero]; simpa using h2
  · rw [ottosson_zero]; simpa using h3

/-- the OkLab round trip of the computed XYZ of every 8-bit colour is `DecOK` -/
theorem oklab_decok (c : Rgb) (hr : c.r ≤ 255) (hg : c.g ≤ 255) (hb : c.b ≤ 255) :
    DecOK M c (Xyz.from_OkLab (OkLab.from_Xyz (Xyz.from_rgb (α := RF M) c .D65))) := by
  by_cases hnb : 1 ≤ c.r ∨ 1 ≤ c.g ∨ 1 ≤ c.b
  · obtain ⟨r, g, b, rr, rg, rb, q1, q2, q3, ⟨f1, f1'⟩, ⟨f2, f2'⟩, ⟨f3, f3'⟩⟩ := oklab_fwd_facts M c hr hg hb hnb
    exact oklab_back_core M c hr hg hb _ r g b rr rg rb (q1.trans (by norm_num)) (q2.trans (by norm_num))
      (q3.trans (by norm_num)) f1 f1' f2 f2' f3 f3'
  · have hc : c = ⟨0, 0, 0⟩ := by
      rw [not_or, not_or] at hnb
      obtain ⟨n1, n2, n3⟩ := hnb
      exact Lemmas.CieRtF1b.eq_black_of_zero c ⟨by omega, by omega, by omega⟩
    subst hc
    obtain ⟨k1, k2, k3⟩ := oklab_fwd_black M
    exact oklab_back_black M _ (k1.trans (by norm_num)) (k2.trans (by norm_num)) (k3.trans (by norm_num))

open Props.C07 in
/-- the OkLCh round trip of the computed XYZ of every 8-bit colour is `DecOK`: the polar detour perturbs `a`, `b` by at most
`3e-14·C + 1e-99` (`Lemmas.FpRequant.oklch_cart_rt_fp`), which `oklab_back_core` absorbs (`4e-13`) -/
theorem oklch_decok (c : Rgb) (hr : c.r ≤ 255) (hg : c.g ≤ 255) (hb : c.b ≤ 255) :
    DecOK M c (Xyz.from_OkLch (OkLch.from_Xyz (Xyz.from_rgb (α := RF M) c .D65))) := by
  have hx : Xyz.from_OkLch (OkLch.from_Xyz (Xyz.from_rgb (α := RF M) c .D65)) =
      Xyz.from_OkLab (OkLab.from_OkLch (OkLch.from_OkLab (OkLab.from_Xyz (Xyz.from_rgb (α := RF M) c .D65)))) := rfl
  rw [hx]
  obtain ⟨p1, p2, p3⟩ := Lemmas.FpRequant.oklch_cart_rt_fp M (OkLab.from_Xyz (Xyz.from_rgb (α := RF M) c .D65))
  have hC := Lemmas.FpRequant.chroma_le_add (OkLab.from_Xyz (Xyz.from_rgb (α := RF M) c .D65)).a.val
    (OkLab.from_Xyz (Xyz.from_rgb (α := RF M) c .D65)).b.val
  have tri : ∀ x y t e1 e2 : ℝ, |x - y| ≤ e1 → |y - t| ≤ e2 → |x - t| ≤ e1 + e2 := by
    intro x y t e1 e2 h h'
    have := abs_sub_le x y t; linarith
  by_cases hnb : 1 ≤ c.r ∨ 1 ≤ c.g ∨ 1 ≤ c.b
  · obtain ⟨r, g, b, rr, rg, rb, q1, q2, q3, ⟨f1, f1'⟩, ⟨f2, f2'⟩, ⟨f3, f3'⟩⟩ := oklab_fwd_facts M c hr hg hb hnb
    obtain ⟨⟨_, b2, b3⟩, _⟩ := ottosson_box (B := 1.000001) le_rfl rr rg rb
    have ma := abs_sub_abs_le_abs_sub (OkLab.from_Xyz (Xyz.from_rgb (α := RF M) c .D65)).a.val (ottosson (r, g, b)).2.1
    have mb := abs_sub_abs_le_abs_sub (OkLab.from_Xyz (Xyz.from_rgb (α := RF M) c .D65)).b.val (ottosson (r, g, b)).2.2
    have hp : 3e-14 * Props.C14.chroma (OkLab.from_Xyz (Xyz.from_rgb (α := RF M) c .D65)).a.val
        (OkLab.from_Xyz (Xyz.from_rgb (α := RF M) c .D65)).b.val + 1e-99 ≤ 2e-13 := by
      norm_num at ma mb b2 b3 q2 q3 hC ⊢; linarith
    refine oklab_back_core M c hr hg hb _ r g b rr rg rb ?_ ((tri _ _ _ _ _ (p2.trans hp) q2).trans (by norm_num))
      ((tri _ _ _ _ _ (p3.trans hp) q3).trans (by norm_num)) f1 f1' f2 f2' f3 f3'
    rw [p1]; exact q1.trans (by norm_num)
  · have hc : c = ⟨0, 0, 0⟩ := by
      rw [not_or, not_or] at hnb
      obtain ⟨n1, n2, n3⟩ := hnb
      exact Lemmas.CieRtF1b.eq_black_of_zero c ⟨by omega, by omega, by omega⟩
    subst hc
    obtain ⟨k1, k2, k3⟩ := oklab_fwd_black M
    have hp : 3e-14 * Props.C14.chroma (OkLab.from_Xyz (Xyz.from_rgb (α := RF M) ⟨0, 0, 0⟩ .D65)).a.val
        (OkLab.from_Xyz (Xyz.from_rgb (α := RF M) ⟨0, 0, 0⟩ .D65)).b.val + 1e-99 ≤ 1e-13 := by
      norm_num at k2 k3 hC ⊢; linarith
    have z : ∀ x y : ℝ, |x - y| ≤ 1e-13 → |y| ≤ 1e-70 → |x| ≤ 4e-13 := by
      intro x y h h'
      have := abs_sub_abs_le_abs_sub x y; norm_num at h h' this ⊢; linarith
    refine oklab_back_black M _ ?_ (z _ _ (p2.trans hp) k2) (z _ _ (p3.trans hp) k3)
    rw [p1]; exact k1.trans (by norm_num)

/-- **C02, OkLab, second sentence, rounded model** (core) -/
theorem oklab_requant_core (c : Rgb) (hr : c.r ≤ 255) (hg : c.g ≤ 255) (hb : c.b ≤ 255) :
    Xyz.as_rgb (Xyz.from_OkLab (OkLab.from_Xyz (Xyz.from_rgb (α := RF M) c .D65))) .D65 = c :=
  (oklab_decok M c hr hg hb).requant M hr hg hb

/-- **C02, OkLCh, second sentence, rounded model** (core) -/
theorem oklch_requant_core (c : Rgb) (hr : c.r ≤ 255) (hg : c.g ≤ 255) (hb : c.b ≤ 255) :
    Xyz.as_rgb (Xyz.from_OkLch (OkLch.from_Xyz (Xyz.from_rgb (α := RF M) c .D65))) .D65 = c :=
  (oklch_decok M c hr hg hb).requant M hr hg hb

end okfp

end Lemmas.FpRequant2
