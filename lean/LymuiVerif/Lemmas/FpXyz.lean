import LymuiVerif.Lemmas.FpErr
import LymuiVerif.Lemmas.XyzDispatch
import LymuiVerif.Lemmas.CurvesD2
/-!
# Rounded-arithmetic (`RF M`) error analysis of the RGB ↔ XYZ conversion (`Xyz.from_rgb`, `Xyz.as_rgb`)

Everything is proved for an arbitrary `M : FPModel` (`Inst/Rounded.lean`) and about the GENERATED
functions evaluated in `RF M`; the exact-real facts that are needed (closed forms of the curves,
`roundtrip_lin`, `stable`, …) are cited from `Lemmas/Curves.lean`, `Lemmas/Matrix.lean`,
`Lemmas/XyzDispatch.lean`, never re-proved.

* real analysis: Hölder bound `|a^p - b^p| ≤ |a - b|^p` (`rpow_holder`), Lipschitz bound of `x^p`, `p ≥ 1`
  (`rpow_lipschitz`), perturbation of the EXPONENT (`rpow_exp_close`: the exponent literals `2.4`,
  `563/256` and the quotients `1/2.4`, `1/(563/256)` are rounded too);
* (b) `dot3_close`: a 3-term dot product with literal coefficients, five roundings: `13·e + 2e-14`;
* (a) `srgb_dec_fp`, `argb_dec_fp`, `dec_fp`: the decoders on the 256 byte levels, computed vs exact
  within `1e-14`; the threshold comparison takes the same branch in `RF M` and in ℝ for every byte;
* `srgb_enc_fp`, `argb_enc_fp`, `enc_fp`: encoder + scaling by 255 with a `1e-11` perturbed input:
  within `0.02`; `pow` never sees a non-positive base;
* `from_rgb_eq_fp`, `as_rgb_eq_fp`: the generated dispatch in `RF M` (by `rfl`);
* `xyz_fp_close` (forward: `2e-13`), `rlin_fp_close` (`3e-12`), `pre_fp_close` (`0.02`);
* black and white: `xyz_black_fp`, `pre_zero_fp`, `pre_white_fp`.
-/
namespace Lemmas.FpXyz
open Gen FpErr Lemmas.Matrix Lemmas.XyzDispatch

/-! ## real-analysis tools: powers under perturbation of base and exponent -/

/-- Hölder continuity of `x ↦ x^p`, `0 < p ≤ 1`, on the nonnegative reals (this is what controls the
encoding curves near 0, where their slope is unbounded) -/
theorem rpow_holder {a b p : ℝ} (hp0 : 0 < p) (hp1 : p ≤ 1) (ha : 0 ≤ a) (hb : 0 ≤ b) :
    |a ^ p - b ^ p| ≤ |a - b| ^ p :=
  Lemmas.CurvesD2.rpow_holder hp0 hp1 ha hb

/-- Bernoulli, tangent form: for `p ≥ 1` the graph of `x^p` lies above its tangent at `a > 0` -/
theorem rpow_tangent_ge {a b p : ℝ} (ha : 0 < a) (hb : 0 ≤ b) (hp : 1 ≤ p) :
    a ^ p + p * (b - a) * (a ^ p / a) ≤ b ^ p := by
  have hs : -1 ≤ (b - a) / a := by
    have : (b - a) / a = b / a - 1 := by field_simp
    rw [this]; have : 0 ≤ b / a := div_nonneg hb ha.le
    linarith
  have hB := one_add_mul_self_le_rpow_one_add hs hp
  have hb' : b = a * (1 + (b - a) / a) := by field_simp; ring
  have hap : 0 ≤ a ^ p := Real.rpow_nonneg ha.le p
  have h1 : (0:ℝ) ≤ 1 + (b - a) / a := by linarith
  calc a ^ p + p * (b - a) * (a ^ p / a) = a ^ p * (1 + p * ((b - a) / a)) := by field_simp
    _ ≤ a ^ p * (1 + (b - a) / a) ^ p := mul_le_mul_of_nonneg_left hB hap
    _ = (a * (1 + (b - a) / a)) ^ p := by rw [Real.mul_rpow ha.le h1]
    _ = b ^ p := by rw [← hb']

/-- `x^p`, `1 ≤ p ≤ 3`, is `p·B²`-Lipschitz on `(0, B]`, `B ≥ 1` -/
theorem rpow_lipschitz {a b p B : ℝ} (ha : 0 < a) (hb : 0 < b) (haB : a ≤ B) (hbB : b ≤ B)
    (hB : 1 ≤ B) (hp : 1 ≤ p) (hp3 : p ≤ 3) : |a ^ p - b ^ p| ≤ p * B ^ 2 * |a - b| := by
  have main : ∀ a b : ℝ, 0 < a → a ≤ b → b ≤ B → |a ^ p - b ^ p| ≤ p * B ^ 2 * |a - b| := by
    intro a b ha hab hbB
    have hb : 0 < b := lt_of_lt_of_le ha hab
    have h1 : a ^ p ≤ b ^ p := Real.rpow_le_rpow ha.le hab (by linarith)
    have h2 := rpow_tangent_ge hb ha.le hp
    have h3 : b ^ p / b = b ^ (p - 1) := (Real.rpow_sub_one hb.ne' p).symm
    have h4 : b ^ (p - 1) ≤ B ^ (p - 1) := Real.rpow_le_rpow hb.le hbB (by linarith)
    have h5 : B ^ (p - 1) ≤ B ^ (2 : ℕ) :=
      (Real.rpow_le_rpow_of_exponent_le hB (by push_cast; linarith)).trans_eq (Real.rpow_natCast B 2)
    rw [abs_sub_comm, abs_of_nonneg (sub_nonneg.mpr h1), abs_sub_comm, abs_of_nonneg (sub_nonneg.mpr hab)]
    rw [h3] at h2
    have h7 : b ^ (p - 1) ≤ B ^ 2 := by linarith
    have h8 : p * (b - a) * b ^ (p - 1) ≤ p * (b - a) * B ^ 2 :=
      mul_le_mul_of_nonneg_left h7 (mul_nonneg (by linarith) (by linarith))
    nlinarith
  rcases le_total a b with h | h
  · exact main a b ha h hbB
  · rw [abs_sub_comm, abs_sub_comm a b]; exact main b a hb h haB

/-- perturbation of the EXPONENT: for `0 < x ≤ 2` and exponents in `[p, 3]`, `p > 0`,
`|x^q - x^q'| ≤ |q - q'|·(1/p + 8)` -/
theorem rpow_exp_close {x q q' p : ℝ} (hx0 : 0 < x) (hx2 : x ≤ 2) (hp : 0 < p) (hq : p ≤ q)
    (hq' : p ≤ q') (hq3 : q ≤ 3) (hq3' : q' ≤ 3) (hd : |q - q'| ≤ 1) :
    |x ^ q - x ^ q'| ≤ |q - q'| * (1 / p + 8) := by
  have main : ∀ q q' : ℝ, p ≤ q → q ≤ q' → q' ≤ 3 → q' - q ≤ 1 →
      |x ^ q - x ^ q'| ≤ (q' - q) * (1 / p + 8) := by
    intro q q' hq hqq hq3 hd
    have hq0 : 0 < q := lt_of_lt_of_le hp hq
    have hΔ : 0 ≤ q' - q := by linarith
    have hsplit : x ^ q' = x ^ q * x ^ (q' - q) := by
      rw [← Real.rpow_add hx0]; congr 1; ring
    have hxq : 0 < x ^ q := Real.rpow_pos_of_pos hx0 q
    have hpos : 0 ≤ 1 / p := by positivity
    rcases le_total x 1 with hx1 | hx1
    · -- x ≤ 1: with w = x^q ∈ (0,1], r = (q'-q)/q: w - w^(1+r) ≤ r
      set r : ℝ := (q' - q) / q with hr
      have hr0 : 0 ≤ r := div_nonneg hΔ hq0.le
      set w : ℝ := x ^ q with hw
      have hw1 : w ≤ 1 := Real.rpow_le_one hx0.le hx1 hq0.le
      have e1 : x ^ (q' - q) = w ^ r := by
        rw [hw, ← Real.rpow_mul hx0.le, hr]; congr 1; field_simp
      have hwr1 : w ^ r ≤ 1 := Real.rpow_le_one hxq.le hw1 hr0
      -- w^r ≥ 1 - r(1/w - 1)  from  (1/w)^r ≤ 1 + r (1/w - 1)   (Bernoulli, 0 ≤ r ≤ 1?)  use log instead
      have hlog : Real.log (w ^ r) = r * Real.log w := Real.log_rpow hxq r
      have h1 : 1 - 1 / w ≤ Real.log w := by
        have := Real.one_sub_inv_le_log_of_pos hxq
        simpa [one_div] using this
      have h2 : Real.log (w ^ r) + 1 ≤ w ^ r := by
        have := Real.add_one_le_exp (Real.log (w ^ r))
        rwa [Real.exp_log (Real.rpow_pos_of_pos hxq r)] at this
      have h3 : r * (1 - 1 / w) ≤ r * Real.log w := mul_le_mul_of_nonneg_left h1 hr0
      have h4 : w * (1 - w ^ r) ≤ r := by
        have h5 : 1 - w ^ r ≤ r * (1 / w - 1) := by nlinarith
        have h6 : w * (1 - w ^ r) ≤ w * (r * (1 / w - 1)) := mul_le_mul_of_nonneg_left h5 hxq.le
        have h7 : w * (r * (1 / w - 1)) = r * (1 - w) := by field_simp
        nlinarith
      have h8 : r ≤ (q' - q) * (1 / p) := by
        rw [hr, div_eq_mul_one_div]
        exact mul_le_mul_of_nonneg_left (one_div_le_one_div_of_le hp hq) hΔ
      rw [hsplit, e1]
      have : w - w * w ^ r = w * (1 - w ^ r) := by ring
      rw [this, abs_of_nonneg (mul_nonneg hxq.le (by linarith))]
      nlinarith
    · -- 1 ≤ x ≤ 2
      have hq'0 : 0 ≤ q' := by linarith
      have hb : x ^ (q' - q) ≤ 1 + (q' - q) * (x - 1) := by
        have := rpow_one_add_le_one_add_mul_self (s := x - 1) (by linarith) hΔ hd
        simpa [add_sub_cancel] using this
      have h1 : 1 ≤ x ^ (q' - q) := Real.one_le_rpow hx1 hΔ
      have hx8 : x ^ q ≤ 8 := by
        calc x ^ q ≤ x ^ (3:ℝ) := Real.rpow_le_rpow_of_exponent_le hx1 (by linarith)
          _ = x ^ 3 := by rw [show (3:ℝ) = ((3:ℕ):ℝ) by norm_num, Real.rpow_natCast]
          _ ≤ 2 ^ 3 := by gcongr
          _ = 8 := by norm_num
      rw [hsplit]
      have : x ^ q - x ^ q * x ^ (q' - q) = -(x ^ q * (x ^ (q' - q) - 1)) := by ring
      rw [this, abs_neg, abs_of_nonneg (mul_nonneg hxq.le (by linarith))]
      have h2 : x ^ (q' - q) - 1 ≤ (q' - q) * 1 := by nlinarith
      have h3 : x ^ q * (x ^ (q' - q) - 1) ≤ 8 * ((q' - q) * 1) :=
        mul_le_mul hx8 h2 (by linarith) (by norm_num)
      nlinarith
  rcases le_total q q' with h | h
  · rw [abs_sub_comm q q', abs_of_nonneg (sub_nonneg.mpr h)]
    apply main q q' hq h hq3'
    rw [abs_sub_comm, abs_of_nonneg (sub_nonneg.mpr h)] at hd; exact hd
  · rw [abs_sub_comm (x ^ q), abs_of_nonneg (sub_nonneg.mpr h)]
    apply main q' q hq' h hq3
    rw [abs_of_nonneg (sub_nonneg.mpr h)] at hd; exact hd


/-! ## rounded arithmetic: `powf`, literal coefficients, 3-term dot products -/
section fp
variable (M : FPModel)

/-- `M.pow` of a non-negative base whose exact power is at most `B` -/
theorem pow_close {x y B : ℝ} (hx : 0 ≤ x) (hB : x ^ y ≤ B) (hB1 : 1e-200 ≤ B) :
    |M.pow x y - x ^ y| ≤ 2 * FP.eps * B := by
  have h := M.pow_err x y hx
  have h0 : 0 ≤ x ^ y := Real.rpow_nonneg hx y
  rw [abs_of_nonneg h0] at h
  have h1 := FP.u_eta_le B hB1
  have h2 : FP.u * x ^ y ≤ FP.u * B := mul_le_mul_of_nonneg_left hB FP.u_pos.le
  have h3 : 0 ≤ FP.u * B := mul_nonneg FP.u_pos.le (le_trans h0 hB)
  have h4 : 0 ≤ FP.eta := FP.eta_pos.le
  linarith

/-- a matrix coefficient: the `RF M` value is within `4·eps` of the real one, whose magnitude is at
most 4 -/
def CoefOK (a : RF M) (x : ℝ) : Prop := |a.val - x| ≤ FP.eps * 4 ∧ |x| ≤ 4

theorem coef_lit (b : UInt64) (n d : ℕ) (h : (n : ℝ) / (d : ℝ) ≤ 4) :
    CoefOK M (Flt.lit b n d) (Flt.lit b n d : ℝ) := by
  refine ⟨?_, ?_⟩
  · simp only [FltRF.lit_val, FltReal.lit_eq]
    exact lit_close M n d h (by norm_num)
  · simp only [FltReal.lit_eq]; rwa [abs_of_nonneg (by positivity)]

theorem coef_neg {a : RF M} {x : ℝ} (h : CoefOK M a x) : CoefOK M (-a) (-x) := by
  refine ⟨?_, ?_⟩
  · have : (-a).val - -x = -(a.val - x) := by simp only [FltRF.neg_val]; ring
    rw [this, abs_neg]; exact h.1
  · rw [abs_neg]; exact h.2

/-- three coefficients of a row -/
def RowOK (r : RF M × RF M × RF M) (c : ℝ × ℝ × ℝ) : Prop :=
  CoefOK M r.1 c.1 ∧ CoefOK M r.2.1 c.2.1 ∧ CoefOK M r.2.2 c.2.2

/-- the generated 3-term dot product `m₁·a₁ + m₂·a₂ + m₃·a₃` (five roundings) -/
noncomputable def dotF (m v : RF M × RF M × RF M) : RF M := m.1 * v.1 + m.2.1 * v.2.1 + m.2.2 * v.2.2
/-- the same with the operands of each product swapped (`a₁·m₁ + …`, as in `compute_rgb_from_xyz_matrix`) -/
noncomputable def dotF' (v m : RF M × RF M × RF M) : RF M := v.1 * m.1 + v.2.1 * m.2.1 + v.2.2 * m.2.2

theorem dotF'_val (v m : RF M × RF M × RF M) : (dotF' M v m).val = (dotF M m v).val := by
  simp only [dotF, dotF', FltRF.add_val, FltRF.mul_val, mul_comm]

/-- **error of a 3-term dot product with literal coefficients**: if the computed vector `v` is
within `e` of the real vector `x` (`|xᵢ| ≤ 3`) and the coefficients are roundings of literals of
magnitude ≤ 4, the computed dot product is within `13·e + 2e-14` of the exact one -/
theorem dot3_close {m v : RF M × RF M × RF M} {c x : ℝ × ℝ × ℝ} {e : ℝ} (hm : RowOK M m c)
    (h1 : |v.1.val - x.1| ≤ e) (h2 : |v.2.1.val - x.2.1| ≤ e) (h3 : |v.2.2.val - x.2.2| ≤ e)
    (b1 : |x.1| ≤ 3) (b2 : |x.2.1| ≤ 3) (b3 : |x.2.2| ≤ 3) (he : e ≤ 1e-3) :
    |(dotF M m v).val - dot c x| ≤ 13 * e + 2e-14 := by
  obtain ⟨⟨m1, c1⟩, ⟨m2, c2⟩, ⟨m3, c3⟩⟩ := hm
  have he0 : 0 ≤ e := le_trans (abs_nonneg _) h1
  simp only [dotF, dot, FltRF.add_val, FltRF.mul_val]
  have p1 := mul_close M m1 h1 c1 b1 (by norm_num)
  have p2 := mul_close M m2 h2 c2 b2 (by norm_num)
  have p3 := mul_close M m3 h3 c3 b3 (by norm_num)
  have q1 : |c.1 * x.1| ≤ 12 := by rw [abs_mul]; nlinarith [abs_nonneg c.1, abs_nonneg x.1]
  have q2 : |c.2.1 * x.2.1| ≤ 12 := by rw [abs_mul]; nlinarith [abs_nonneg c.2.1, abs_nonneg x.2.1]
  have q3 : |c.2.2 * x.2.2| ≤ 12 := by rw [abs_mul]; nlinarith [abs_nonneg c.2.2, abs_nonneg x.2.2]
  have r1 : |c.1 * x.1 + c.2.1 * x.2.1| ≤ 24 := (abs_add_le _ _).trans (by linarith)
  have r2 : |c.1 * x.1 + c.2.1 * x.2.1 + c.2.2 * x.2.2| ≤ 36 := (abs_add_le _ _).trans (by linarith)
  have s1 := add_close M p1 p2 r1 (by norm_num)
  have s2 := add_close M s1 p3 r2 (by norm_num)
  refine le_trans s2 ?_
  have hee : FP.eps * e ≤ FP.eps * 1e-3 := mul_le_mul_of_nonneg_left he FP.eps_pos.le
  unfold FP.eps at *
  nlinarith

/-- the same for the swapped operand order -/
theorem dot3_close' {m v : RF M × RF M × RF M} {c x : ℝ × ℝ × ℝ} {e : ℝ} (hm : RowOK M m c)
    (h1 : |v.1.val - x.1| ≤ e) (h2 : |v.2.1.val - x.2.1| ≤ e) (h3 : |v.2.2.val - x.2.2| ≤ e)
    (b1 : |x.1| ≤ 3) (b2 : |x.2.1| ≤ 3) (b3 : |x.2.2| ≤ 3) (he : e ≤ 1e-3) :
    |(dotF' M v m).val - dot c x| ≤ 13 * e + 2e-14 := by
  rw [dotF'_val]; exact dot3_close M hm h1 h2 h3 b1 b2 b3 he

end fp


section curves
variable (M : FPModel)

/-! ## (a) the decoding curves on the byte levels in `RF M` -/

/-- `M.pow` with a perturbed base (`|b - x| ≤ e`, `x ∈ (0,1]`) and a perturbed exponent
(`|y' - y| ≤ 3·eps`, `1 ≤ y ≤ 2.5`): the situation of the decoding curves -/
theorem pow_dec_close {b x y' y e : ℝ} (hb0 : 0 < b) (hx0 : 0 < x) (hx1 : x ≤ 1)
    (hbx : |b - x| ≤ e) (he : e ≤ 1e-9) (hy : 1 ≤ y) (hy3 : y ≤ 2.5) (hyy : |y' - y| ≤ FP.eps * 3) :
    |M.pow b y' - x ^ y| ≤ 2.6 * e + 4e-15 := by
  have he0 : 0 ≤ e := le_trans (abs_nonneg _) hbx
  obtain ⟨hbx1, hbx2⟩ := abs_le.mp hbx
  obtain ⟨hy1, hy2⟩ := abs_le.mp hyy
  have hb1 : b ≤ 1.001 := by linarith
  have hy'0 : 0.9 ≤ y' := by unfold FP.eps at *; linarith
  have hy'3 : y' ≤ 3 := by unfold FP.eps at *; linarith
  have hB : b ^ y' ≤ 1.01 := by
    calc b ^ y' ≤ (1.001:ℝ) ^ y' := Real.rpow_le_rpow hb0.le hb1 (by linarith)
      _ ≤ (1.001:ℝ) ^ ((3:ℕ):ℝ) := Real.rpow_le_rpow_of_exponent_le (by norm_num) (by push_cast; linarith)
      _ = (1.001:ℝ) ^ (3:ℕ) := Real.rpow_natCast _ _
      _ ≤ 1.01 := by norm_num
  have p1 := pow_close M hb0.le hB (by norm_num)
  have p2 := rpow_exp_close (x := b) (q := y') (q' := y) (p := 0.9) hb0 (by linarith) (by norm_num) hy'0
    (by linarith) hy'3 (by linarith) (by unfold FP.eps at *; exact hyy.trans (by norm_num))
  have p3 := rpow_lipschitz (a := b) (b := x) (p := y) (B := 1.001) hb0 hx0 hb1 (by linarith) (by norm_num) hy
    (by linarith)
  have p2' : |b ^ y' - b ^ y| ≤ FP.eps * 3 * (1 / 0.9 + 8) :=
    p2.trans (mul_le_mul_of_nonneg_right hyy (by norm_num))
  have p3' : |b ^ y - x ^ y| ≤ 2.5 * 1.001 ^ 2 * e := by
    refine p3.trans ?_
    have : y * 1.001 ^ 2 ≤ 2.5 * 1.001 ^ 2 := mul_le_mul_of_nonneg_right hy3 (by norm_num)
    exact mul_le_mul this hbx (abs_nonneg _) (by norm_num)
  have tri : |M.pow b y' - x ^ y| ≤ |M.pow b y' - b ^ y'| + |b ^ y' - b ^ y| + |b ^ y - x ^ y| := by
    have e1 : M.pow b y' - x ^ y = (M.pow b y' - b ^ y') + (b ^ y' - b ^ y) + (b ^ y - x ^ y) := by ring
    rw [e1]
    have t1 := abs_add_le ((M.pow b y' - b ^ y') + (b ^ y' - b ^ y)) (b ^ y - x ^ y)
    have t2 := abs_add_le (M.pow b y' - b ^ y') (b ^ y' - b ^ y)
    linarith
  refine tri.trans ?_
  unfold FP.eps at *
  norm_num at p1 p2' p3' ⊢
  linarith

theorem srgb_dec_fp (n : ℕ) (hn : n ≤ 255) (t : RF M) (ht : t.val = M.rnd ((n:ℝ)/255)) :
    |(F64.compute_srgb_gamma_expanded t).val - F64.compute_srgb_gamma_expanded ((n:ℝ)/255)| ≤ 1e-14 := by
  have hn' : (n:ℝ) ≤ 255 := by exact_mod_cast hn
  have hn0 : (0:ℝ) ≤ n := Nat.cast_nonneg n
  have bx : |(n:ℝ)/255| ≤ 1 := by rw [abs_of_nonneg (by positivity)]; linarith
  have et := rnd_abs M bx (by norm_num)
  rw [← ht] at et
  by_cases h10 : n ≤ 10
  · have h10' : (n:ℝ) ≤ 10 := by exact_mod_cast h10
    have hc : t.val ≤ M.rnd (((809:ℕ):ℝ) / ((20000:ℕ):ℝ)) := by
      rw [ht]; apply M.rnd_mono; push_cast; linarith
    rw [Lemmas.Curves.srgb_dec_lin (by linarith)]
    simp only [F64.compute_srgb_gamma_expanded, FltRF.le_eq, FltRF.lit_val, hc, decide_true, if_true, FltRF.div_val]
    have l1 := lit_close M 323 25 (B := 13) (by norm_num) (by norm_num)
    have d1 := div_close M et l1 bx (m := 12) (Bq := 1) (by norm_num) (by norm_num [FP.eps])
      (by rw [abs_div, abs_of_nonneg (by positivity : (0:ℝ) ≤ ((323:ℕ):ℝ)/((25:ℕ):ℝ))]
          rw [div_le_one (by positivity)]; push_cast; linarith [bx]) (by norm_num)
    have e : (n:ℝ) / 255 / 12.92 = (n:ℝ) / 255 / (((323:ℕ):ℝ) / ((25:ℕ):ℝ)) := by norm_num
    rw [e]
    refine le_trans d1 ?_
    norm_num [FP.eps]
  · rw [not_le] at h10
    have h11 : (11:ℝ) ≤ n := by exact_mod_cast h10
    have hlv : (11:ℝ)/255 ≤ (n:ℝ)/255 := by apply div_le_div_of_nonneg_right h11 (by norm_num)
    have l0 := lit_close M 809 20000 (B := 1) (by norm_num) (by norm_num)
    have hc : ¬ t.val ≤ M.rnd (((809:ℕ):ℝ) / ((20000:ℕ):ℝ)) := by
      rw [not_le]
      rw [abs_le] at l0 et
      unfold FP.eps at *
      push_cast at *
      linarith [l0.2, et.1]
    rw [Lemmas.Curves.srgb_dec_pow (by linarith)]
    simp only [F64.compute_srgb_gamma_expanded, FltRF.le_eq, FltRF.lit_val, hc, decide_false, if_false, FltRF.div_val, FltRF.add_val, FltRF.pow_val, Bool.false_eq_true]
    have l1 := lit_close M 11 200 (B := 1) (by norm_num) (by norm_num)
    have l2 := lit_close M 211 200 (B := 2) (by norm_num) (by norm_num)
    have l3 := lit_close M 12 5 (B := 3) (by norm_num) (by norm_num)
    have bs : |(n:ℝ)/255 + ((11:ℕ):ℝ)/((200:ℕ):ℝ)| ≤ 2 := by
      rw [abs_of_nonneg (by positivity)]; push_cast; linarith [abs_le.mp bx]
    have a1 := add_close M et l1 bs (by norm_num)
    have d1 := div_close M a1 l2 bs (m := 1) (Bq := 1) (by rw [abs_of_nonneg (by positivity)]; norm_num)
      (by norm_num [FP.eps])
      (by rw [abs_div, abs_of_nonneg (by positivity : (0:ℝ) ≤ (n:ℝ)/255 + ((11:ℕ):ℝ)/((200:ℕ):ℝ)),
            abs_of_nonneg (by positivity : (0:ℝ) ≤ ((211:ℕ):ℝ)/((200:ℕ):ℝ)), div_le_one (by positivity)]
          push_cast; linarith [abs_le.mp bx]) (by norm_num)
    have ex : ((n:ℝ)/255 + 55e-3) / 1.055 = ((n:ℝ)/255 + ((11:ℕ):ℝ)/((200:ℕ):ℝ)) / (((211:ℕ):ℝ)/((200:ℕ):ℝ)) := by
      norm_num
    have ey : (2.4:ℝ) = ((12:ℕ):ℝ)/((5:ℕ):ℝ) := by norm_num
    rw [ex, ey]
    set X : ℝ := ((n:ℝ)/255 + ((11:ℕ):ℝ)/((200:ℕ):ℝ)) / (((211:ℕ):ℝ)/((200:ℕ):ℝ)) with hX
    have hXlo : 0.09 ≤ X := by
      rw [hX, le_div_iff₀ (by positivity)]; push_cast; linarith
    have hXhi : X ≤ 1 := by
      rw [hX, div_le_one (by positivity)]; push_cast; linarith [abs_le.mp bx]
    set e1 : ℝ := (FP.eps * 1 + FP.eps * 1 + FP.eps * (2 + (FP.eps * 1 + FP.eps * 1))) with he1
    set e2 : ℝ := (e1 * 1 + FP.eps * 2 * 2) / (1 * (1 - FP.eps * 2)) + FP.eps * (1 + (e1 * 1 + FP.eps * 2 * 2) / (1 * (1 - FP.eps * 2))) with he2
    have he2b : e2 ≤ 1.2e-15 := by
      rw [he2, he1]; norm_num [FP.eps]
    have hb0 : 0 < M.rnd (M.rnd (t.val + M.rnd (((11:ℕ):ℝ) / ((200:ℕ):ℝ))) / M.rnd (((211:ℕ):ℝ) / ((200:ℕ):ℝ))) := by
      have := (abs_le.mp d1).1; linarith
    have := pow_dec_close M hb0 (by linarith) hXhi d1 (by linarith) (y := ((12:ℕ):ℝ)/((5:ℕ):ℝ)) (by norm_num) (by norm_num) l3
    refine this.trans ?_
    linarith

theorem argb_dec_fp (n : ℕ) (hn : n ≤ 255) (t : RF M) (ht : t.val = M.rnd ((n:ℝ)/255)) :
    |(F64.compute_argb_gamma t).val - F64.compute_argb_gamma ((n:ℝ)/255)| ≤ 1e-14 := by
  have hn' : (n:ℝ) ≤ 255 := by exact_mod_cast hn
  have hn0 : (0:ℝ) ≤ n := Nat.cast_nonneg n
  have bx : |(n:ℝ)/255| ≤ 1 := by rw [abs_of_nonneg (by positivity)]; linarith
  have et := rnd_abs M bx (by norm_num)
  rw [← ht] at et
  have z : M.rnd (((0:ℕ):ℝ) / ((1:ℕ):ℝ)) = 0 := by
    have := lit_int M 0 (by norm_num); simpa using this
  by_cases h0 : n = 0
  · subst h0
    have ht0 : t.val = 0 := by rw [ht]; simp [rnd_zero]
    have e0 : ((0:ℕ):ℝ)/255 = 0 := by simp
    rw [e0, Lemmas.Curves.argb_dec_zero]
    simp only [F64.compute_argb_gamma, FltRF.le_eq, FltRF.lit_val, z, ht0, le_refl, decide_true, if_true]
    norm_num
  · have h1 : (1:ℝ) ≤ n := by exact_mod_cast Nat.one_le_iff_ne_zero.mpr h0
    have hlv : (1:ℝ)/255 ≤ (n:ℝ)/255 := by apply div_le_div_of_nonneg_right h1 (by norm_num)
    have hpos : 0 < t.val := by
      have := (abs_le.mp et).1
      unfold FP.eps at *; linarith
    have hc : ¬ t.val ≤ 0 := not_le.mpr hpos
    rw [Lemmas.Curves.argb_dec_nonneg (by positivity)]
    simp only [F64.compute_argb_gamma, FltRF.le_eq, FltRF.lit_val, z, hc, decide_false, if_false, FltRF.pow_val, Bool.false_eq_true]
    have l3 := lit_close M 563 256 (B := 3) (by norm_num) (by norm_num)
    have ey : (563:ℝ)/256 = ((563:ℕ):ℝ)/((256:ℕ):ℝ) := by norm_num
    rw [ey]
    have := pow_dec_close M hpos (by linarith) (abs_le.mp bx).2 et (by norm_num [FP.eps])
      (y := ((563:ℕ):ℝ)/((256:ℕ):ℝ)) (by norm_num) (by norm_num) l3
    refine this.trans ?_
    norm_num [FP.eps]



/-! ## the encoding curves in `RF M` -/

/-- `M.pow` with a perturbed base (`|b - x| ≤ 1e-11`, possibly `x = 0`: Hölder) and a perturbed
exponent near `p ∈ [0.4, 0.5]`: the situation of the encoding curves -/
theorem pow_enc_close {b x p' p : ℝ} (hb0 : 0 < b) (hb2 : b ≤ 2) (hx0 : 0 ≤ x)
    (hbx : |b - x| ≤ 1e-11) (hp0 : 0.4 ≤ p) (hp1 : p ≤ 0.5) (hpp : |p' - p| ≤ FP.eps * 3)
    (hh : (1e-11 : ℝ) ^ p ≤ 3e-5) : |M.pow b p' - x ^ p| ≤ 3.3e-5 := by
  obtain ⟨hy1, hy2⟩ := abs_le.mp hpp
  have hp'0 : 0.3 ≤ p' := by unfold FP.eps at *; linarith
  have hp'1 : p' ≤ 1 := by unfold FP.eps at *; linarith
  have hB : b ^ p' ≤ 2 := by
    calc b ^ p' ≤ (2:ℝ) ^ p' := Real.rpow_le_rpow hb0.le hb2 (by linarith)
      _ ≤ (2:ℝ) ^ (1:ℝ) := Real.rpow_le_rpow_of_exponent_le (by norm_num) hp'1
      _ = 2 := Real.rpow_one 2
  have p1 := pow_close M hb0.le hB (by norm_num)
  have p2 := rpow_exp_close (x := b) (q := p') (q' := p) (p := 0.3) hb0 hb2 (by norm_num) hp'0
    (by linarith) (by linarith) (by linarith) (by unfold FP.eps at *; exact hpp.trans (by norm_num))
  have p2' : |b ^ p' - b ^ p| ≤ FP.eps * 3 * (1 / 0.3 + 8) :=
    p2.trans (mul_le_mul_of_nonneg_right hpp (by norm_num))
  have p3 := rpow_holder (a := b) (b := x) (p := p) (by linarith) (by linarith) hb0.le hx0
  have p3' : |b ^ p - x ^ p| ≤ 3e-5 :=
    p3.trans ((Real.rpow_le_rpow (abs_nonneg _) hbx (by linarith)).trans hh)
  have tri : |M.pow b p' - x ^ p| ≤ |M.pow b p' - b ^ p'| + |b ^ p' - b ^ p| + |b ^ p - x ^ p| := by
    have e1 : M.pow b p' - x ^ p = (M.pow b p' - b ^ p') + (b ^ p' - b ^ p) + (b ^ p - x ^ p) := by ring
    rw [e1]
    have t1 := abs_add_le ((M.pow b p' - b ^ p') + (b ^ p' - b ^ p)) (b ^ p - x ^ p)
    have t2 := abs_add_le (M.pow b p' - b ^ p') (b ^ p' - b ^ p)
    linarith
  refine tri.trans ?_
  unfold FP.eps at *
  norm_num at p1 p2' p3' ⊢
  linarith

/-- the rounded reciprocal exponent `1/y` of the encoders: within `3·eps` of the exact one -/
theorem inv_exp_close (n d : ℕ) (h2 : 2 ≤ (n:ℝ)/d) (h3 : (n:ℝ)/d ≤ 3) :
    |M.rnd (M.rnd (((1:ℕ):ℝ) / ((1:ℕ):ℝ)) / M.rnd ((n:ℝ)/d)) - 1 / ((n:ℝ)/d)| ≤ FP.eps * 3 := by
  rw [lit_int M 1 (by norm_num)]
  have l3 := lit_close M n d (B := 3) h3 (by norm_num)
  have a0 : |((1:ℕ):ℝ) - 1| ≤ 0 := by simp
  have hy : (0:ℝ) ≤ (n:ℝ)/d := by linarith
  have d1 := div_close M a0 l3 (x := 1) (Bx := 1) (m := 2) (Bq := 1) (by simp)
    (by rw [abs_of_nonneg hy]; exact h2) (by norm_num [FP.eps])
    (by rw [abs_of_nonneg (by positivity)]; rw [div_le_one (by linarith)]; linarith) (by norm_num)
  refine d1.trans ?_
  norm_num [FP.eps]

theorem holder_5_12 : (1e-11 : ℝ) ^ ((1:ℝ) / (((12:ℕ):ℝ)/((5:ℕ):ℝ))) ≤ 3e-5 := by
  have e : (1:ℝ) / (((12:ℕ):ℝ)/((5:ℕ):ℝ)) = ((5:ℕ):ℝ)/((12:ℕ):ℝ) := by norm_num
  rw [e]
  exact Lemmas.Rpow.rpow_le_of_le_pow (by norm_num) (by norm_num) 5 12 (by norm_num) (by norm_num)

set_option exponentiation.threshold 600 in
theorem holder_256_563 : (1e-11 : ℝ) ^ ((1:ℝ) / (((563:ℕ):ℝ)/((256:ℕ):ℝ))) ≤ 3e-5 := by
  have e : (1:ℝ) / (((563:ℕ):ℝ)/((256:ℕ):ℝ)) = ((256:ℕ):ℝ)/((563:ℕ):ℝ) := by norm_num
  rw [e]
  exact Lemmas.Rpow.rpow_le_of_le_pow (by norm_num) (by norm_num) 256 563 (by norm_num) (by norm_num)


/-- **sRGB encoder followed by the scaling by 255, in `RF M`**: if the computed linear value is within
`1e-11` of the real one, and the real one is away from the threshold `0.0031308` (it is, for the
round trip of a byte: see `srgb_lin_gap`), the computed pre-quantisation value is within `0.02` of the
real one.  Negative linear values go through the linear segment, never through `pow`. -/
theorem srgb_enc_fp (a s : RF M) (v : ℝ) (hs : s.val = 255) (hvv : |a.val - v| ≤ 1e-11)
    (hcase : v ≤ 0.0031 ∨ 0.0032 ≤ v) (hlo : -1 ≤ v) (hhi : v ≤ 1.1) :
    |(F64.apply_srgb_gamma_correction a * s).val - F64.apply_srgb_gamma_correction v * 255| ≤ 0.02 := by
  obtain ⟨hv1, hv2⟩ := abs_le.mp hvv
  have l0 := lit_close M 7827 2500000 (B := 1) (by norm_num) (by norm_num)
  obtain ⟨l01, l02⟩ := abs_le.mp l0
  have hs0 : |s.val - 255| ≤ 0 := by rw [hs]; simp
  rcases hcase with hL | hP
  · have hc : a.val ≤ M.rnd (((7827:ℕ):ℝ) / ((2500000:ℕ):ℝ)) := by
      unfold FP.eps at *; push_cast at *; linarith
    rw [Lemmas.Curves.srgb_enc_lin (by linarith)]
    simp only [F64.apply_srgb_gamma_correction, FltRF.le_eq, FltRF.lit_val, hc, decide_true, if_true, FltRF.mul_val]
    have l1 := lit_close M 323 25 (B := 13) (by norm_num) (by norm_num)
    have bv : |v| ≤ 1 := by rw [abs_le]; constructor <;> linarith
    have m1 := mul_close M hvv l1 bv (By := 13) (by rw [abs_of_nonneg (by positivity)]; norm_num) (by norm_num)
    have bE : |v * (((323:ℕ):ℝ) / ((25:ℕ):ℝ))| ≤ 13 := by
      rw [abs_mul, abs_of_nonneg (by positivity : (0:ℝ) ≤ ((323:ℕ):ℝ) / ((25:ℕ):ℝ))]
      push_cast; nlinarith [abs_nonneg v]
    have m2 := mul_close M m1 hs0 bE (By := 255) (by norm_num) (by norm_num)
    have e : v * 12.92 * 255 = v * (((323:ℕ):ℝ) / ((25:ℕ):ℝ)) * 255 := by norm_num
    rw [e]
    refine m2.trans ?_
    norm_num [FP.eps]
  · have hc : ¬ a.val ≤ M.rnd (((7827:ℕ):ℝ) / ((2500000:ℕ):ℝ)) := by
      rw [not_le]; unfold FP.eps at *; push_cast at *; linarith
    rw [Lemmas.Curves.srgb_enc_pow (by linarith)]
    simp only [F64.apply_srgb_gamma_correction, FltRF.le_eq, FltRF.lit_val, hc, decide_false, if_false,
      FltRF.mul_val, FltRF.sub_val, FltRF.pow_val, FltRF.div_val, Bool.false_eq_true]
    have ip := inv_exp_close M 12 5 (by norm_num) (by norm_num)
    have ep : (1:ℝ) / 2.4 = 1 / (((12:ℕ):ℝ)/((5:ℕ):ℝ)) := by norm_num
    rw [ep]
    have hh := holder_5_12
    generalize hp : (1:ℝ) / (((12:ℕ):ℝ)/((5:ℕ):ℝ)) = p at *
    have hp0 : 0.4 ≤ p := by rw [← hp]; norm_num
    have hp1 : p ≤ 0.5 := by rw [← hp]; norm_num
    have pw := pow_enc_close M (b := a.val) (x := v) (by linarith) (by linarith) (by linarith) hvv hp0 hp1 ip hh
    have l2 := lit_close M 211 200 (B := 1.055) (by norm_num) (by norm_num)
    have l3 := lit_close M 11 200 (B := 1) (by norm_num) (by norm_num)
    have bp0 : 0 ≤ v ^ p := Real.rpow_nonneg (by linarith) p
    have bp : v ^ p ≤ 2 := by
      calc v ^ p ≤ (2:ℝ) ^ p := Real.rpow_le_rpow (by linarith) (by linarith) (by linarith)
        _ ≤ (2:ℝ) ^ (1:ℝ) := Real.rpow_le_rpow_of_exponent_le (by norm_num) (by linarith)
        _ = 2 := Real.rpow_one 2
    have bp' : |v ^ p| ≤ 2 := by rw [abs_of_nonneg bp0]; exact bp
    have m1 := mul_close M l2 pw (Bx := 1.055) (by rw [abs_of_nonneg (by positivity)]; norm_num) bp' (by norm_num)
    have bm : |((211:ℕ):ℝ) / ((200:ℕ):ℝ) * v ^ p - ((11:ℕ):ℝ) / ((200:ℕ):ℝ)| ≤ 3 := by
      rw [abs_le]; push_cast; constructor <;> nlinarith
    have s1 := sub_close M m1 l3 bm (by norm_num)
    have m2 := mul_close M s1 hs0 bm (By := 255) (by norm_num) (by norm_num)
    have e : (1.055 * v ^ p - 55e-3) * 255 =
        (((211:ℕ):ℝ) / ((200:ℕ):ℝ) * v ^ p - ((11:ℕ):ℝ) / ((200:ℕ):ℝ)) * 255 := by norm_num
    rw [e]
    refine m2.trans ?_
    norm_num [FP.eps]

/-- **Adobe encoder followed by the scaling by 255, in `RF M`**.  The generated code returns 0 for a
non-positive linear value (`v ≤ 0.0`), so `pow` only ever sees a strictly positive base; a sign
disagreement between the computed and the real linear value (both within `1e-11` of 0 then) costs at
most `(1e-11)^(256/563)·255 < 0.008` by the Hölder bound. -/
theorem argb_enc_fp (a s : RF M) (v : ℝ) (hs : s.val = 255) (hvv : |a.val - v| ≤ 1e-11)
    (hhi : v ≤ 1.1) :
    |(F64.compute_argb_gamma_expanded a * s).val - F64.compute_argb_gamma_expanded v * 255| ≤ 0.02 := by
  obtain ⟨hv1, hv2⟩ := abs_le.mp hvv
  have hs0 : |s.val - 255| ≤ 0 := by rw [hs]; simp
  have z : M.rnd (((0:ℕ):ℝ) / ((1:ℕ):ℝ)) = 0 := by
    have := lit_int M 0 (by norm_num); simpa using this
  have ip := inv_exp_close M 563 256 (by norm_num) (by norm_num)
  have hh := holder_256_563
  -- the real encoder is `(max v 0)^p`
  have hreal : F64.compute_argb_gamma_expanded v = (max v 0) ^ ((1:ℝ) / (((563:ℕ):ℝ)/((256:ℕ):ℝ))) := by
    rcases le_or_gt v 0 with h | h
    · rw [Lemmas.Curves.argb_enc_nonpos h, max_eq_right h, Real.zero_rpow (by norm_num)]
    · rw [Lemmas.Curves.argb_enc_pos h, max_eq_left h.le]; norm_num
  rw [hreal]
  generalize hp : (1:ℝ) / (((563:ℕ):ℝ)/((256:ℕ):ℝ)) = p at *
  have hp0 : 0.4 ≤ p := by rw [← hp]; norm_num
  have hp1 : p ≤ 0.5 := by rw [← hp]; norm_num
  have hx0 : 0 ≤ max v 0 := le_max_right _ _
  have hx2 : max v 0 ≤ 2 := max_le (by linarith) (by norm_num)
  have bp0 : 0 ≤ (max v 0) ^ p := Real.rpow_nonneg hx0 p
  have bp : (max v 0) ^ p ≤ 2 := by
    calc (max v 0) ^ p ≤ (2:ℝ) ^ p := Real.rpow_le_rpow hx0 hx2 (by linarith)
      _ ≤ (2:ℝ) ^ (1:ℝ) := Real.rpow_le_rpow_of_exponent_le (by norm_num) (by linarith)
      _ = 2 := Real.rpow_one 2
  have bp' : |(max v 0) ^ p| ≤ 2 := by rw [abs_of_nonneg bp0]; exact bp
  by_cases hc : a.val ≤ 0
  · -- computed value non-positive: the code returns 0; the real value is at most (1e-11)^p
    simp only [F64.compute_argb_gamma_expanded, FltRF.le_eq, FltRF.lit_val, z, hc, decide_true, if_true,
      FltRF.mul_val, zero_mul, rnd_zero]
    have hx : max v 0 ≤ 1e-11 := max_le (by linarith) (by norm_num)
    have : (max v 0) ^ p ≤ 3e-5 := (Real.rpow_le_rpow hx0 hx (by linarith)).trans hh
    rw [zero_sub, abs_neg, abs_of_nonneg (by positivity)]
    linarith
  · have hpos : 0 < a.val := not_le.mp hc
    simp only [F64.compute_argb_gamma_expanded, FltRF.le_eq, FltRF.lit_val, z, hc, decide_false, if_false,
      FltRF.mul_val, FltRF.pow_val, FltRF.div_val, Bool.false_eq_true]
    have hbx : |a.val - max v 0| ≤ 1e-11 := by
      rw [abs_le]; constructor
      · rcases le_total v 0 with h | h
        · rw [max_eq_right h]; linarith
        · rw [max_eq_left h]; linarith
      · have : v ≤ max v 0 := le_max_left _ _
        linarith
    have pw := pow_enc_close M (b := a.val) (x := max v 0) hpos (by linarith) hx0 hbx hp0 hp1 ip hh
    have m2 := mul_close M pw hs0 bp' (By := 255) (by norm_num) (by norm_num)
    refine m2.trans ?_
    norm_num [FP.eps]



/-! ## the generated dispatch in `RF M` -/

/-- forward rows of a profile in `RF M` (same wiring as `Lemmas.Matrix.fwd`) -/
noncomputable def fwdF : XyzKind → (RF M × RF M × RF M) × (RF M × RF M × RF M) × (RF M × RF M × RF M)
  | .D65 => (C.X65, C.Y65, C.Z65)
  | .D50 => (C.X50, C.Y50, C.Z50)
  | .Adobe => (C.AX, C.AY, C.AZ)

/-- reverse rows of a profile in `RF M` -/
noncomputable def revF : XyzKind → (RF M × RF M × RF M) × (RF M × RF M × RF M) × (RF M × RF M × RF M)
  | .D65 => (C.RX65, C.RY65, C.RZ65)
  | .D50 => (C.RX50, C.RY50, C.RZ50)
  | .Adobe => (C.ARX, C.ARY, C.ARZ)

/-- decode curve of a profile in `RF M` -/
noncomputable def decF : XyzKind → RF M → RF M
  | .Adobe => F64.compute_argb_gamma
  | _ => F64.compute_srgb_gamma_expanded

/-- encode curve of a profile in `RF M` -/
noncomputable def encF : XyzKind → RF M → RF M
  | .Adobe => F64.compute_argb_gamma_expanded
  | _ => F64.apply_srgb_gamma_correction

/-- the byte `n` divided by the literal 255, as the generated code does it -/
noncomputable def lvlF (n : ℕ) : RF M := (Flt.ofNat n : RF M) / Flt.lit 0x406FE00000000000 255 1

theorem lvlF_val (n : ℕ) : (lvlF M n).val = M.rnd ((n:ℝ)/255) := by
  simp only [lvlF, FltRF.div_val, FltRF.ofNat_val, FltRF.lit_val]
  rw [lit_int M 255 (by norm_num)]; norm_num

/-- linear-light channels of an 8-bit colour in `RF M` -/
noncomputable def linF (k : XyzKind) (c : Rgb) : RF M × RF M × RF M :=
  (decF M k (lvlF M c.r), decF M k (lvlF M c.g), decF M k (lvlF M c.b))

theorem from_rgb_eq_fp (k : XyzKind) (c : Rgb) :
    Xyz.from_rgb (α := RF M) c k =
      ⟨dotF M (fwdF M k).1 (linF M k c), dotF M (fwdF M k).2.1 (linF M k c), dotF M (fwdF M k).2.2 (linF M k c)⟩ := by
  cases k <;> rfl

theorem fwd_rows (k : XyzKind) : RowOK M (fwdF M k).1 (fwd k).1 ∧ RowOK M (fwdF M k).2.1 (fwd k).2.1 ∧
    RowOK M (fwdF M k).2.2 (fwd k).2.2 := by
  cases k <;>
  simp only [fwdF, fwd, RowOK, C.X65, C.Y65, C.Z65, C.X50, C.Y50, C.Z50, C.AX, C.AY, C.AZ] <;>
  refine ⟨⟨?_, ?_, ?_⟩, ⟨?_, ?_, ?_⟩, ⟨?_, ?_, ?_⟩⟩ <;>
  (apply coef_lit; norm_num)

theorem rev_rows (k : XyzKind) : RowOK M (revF M k).1 (rev k).1 ∧ RowOK M (revF M k).2.1 (rev k).2.1 ∧
    RowOK M (revF M k).2.2 (rev k).2.2 := by
  cases k <;>
  simp only [revF, rev, RowOK, C.RX65, C.RY65, C.RZ65, C.RX50, C.RY50, C.RZ50, C.ARX, C.ARY, C.ARZ] <;>
  refine ⟨⟨?_, ?_, ?_⟩, ⟨?_, ?_, ?_⟩, ⟨?_, ?_, ?_⟩⟩ <;>
  first
    | (apply coef_lit; norm_num)
    | (apply coef_neg; apply coef_lit; norm_num)



/-! ## forward conversion: error of `from_rgb` -/

/-- (a) decode curve on a byte level, any profile: computed vs exact within `1e-14` -/
theorem dec_fp (k : XyzKind) (n : ℕ) (hn : n ≤ 255) :
    |(decF M k (lvlF M n)).val - dec k ((n:ℝ)/255)| ≤ 1e-14 := by
  cases k
  · exact srgb_dec_fp M n hn _ (lvlF_val M n)
  · exact srgb_dec_fp M n hn _ (lvlF_val M n)
  · exact argb_dec_fp M n hn _ (lvlF_val M n)

/-- the real forward product of a vector of the unit cube has components in `[-3, 3]` -/
theorem fwd_range (k : XyzKind) (l : V3) (i : Fin 3)
    (h0 : 0 ≤ l.1) (h0' : l.1 ≤ 1) (h1 : 0 ≤ l.2.1) (h1' : l.2.1 ≤ 1)
    (h2 : 0 ≤ l.2.2) (h2' : l.2.2 ≤ 1) : |V3.get (mulVec (fwd k) l) i| ≤ 3 := by
  obtain ⟨l0, l1, l2⟩ := l
  simp only at h0 h0' h1 h1' h2 h2'
  cases k <;> fin_cases i <;> unfold_consts <;>
    rw [abs_le] <;> constructor <;> norm_num <;> linarith

/-- computed XYZ triple of an 8-bit colour -/
noncomputable def xyzF (k : XyzKind) (c : Rgb) : RF M × RF M × RF M :=
  (dotF M (fwdF M k).1 (linF M k c), dotF M (fwdF M k).2.1 (linF M k c), dotF M (fwdF M k).2.2 (linF M k c))

theorem from_rgb_eq_fp' (k : XyzKind) (c : Rgb) :
    Xyz.from_rgb (α := RF M) c k = ⟨(xyzF M k c).1, (xyzF M k c).2.1, (xyzF M k c).2.2⟩ :=
  from_rgb_eq_fp M k c

/-- **forward error**: every component of the computed XYZ is within `2e-13` of the real model's -/
theorem xyz_fp_close (k : XyzKind) (c : Rgb) (hr : c.r ≤ 255) (hg : c.g ≤ 255) (hb : c.b ≤ 255) :
    |(xyzF M k c).1.val - (mulVec (fwd k) (lin k c)).1| ≤ 2e-13 ∧
    |(xyzF M k c).2.1.val - (mulVec (fwd k) (lin k c)).2.1| ≤ 2e-13 ∧
    |(xyzF M k c).2.2.val - (mulVec (fwd k) (lin k c)).2.2| ≤ 2e-13 := by
  have d1 := dec_fp M k c.r hr
  have d2 := dec_fp M k c.g hg
  have d3 := dec_fp M k c.b hb
  have b1 : |(lin k c).1| ≤ 3 := by
    show |dec k ((c.r:ℝ)/255)| ≤ 3
    rw [abs_of_nonneg (dec_level_nonneg k c.r)]; exact (dec_level_le_one k hr).trans (by norm_num)
  have b2 : |(lin k c).2.1| ≤ 3 := by
    show |dec k ((c.g:ℝ)/255)| ≤ 3
    rw [abs_of_nonneg (dec_level_nonneg k c.g)]; exact (dec_level_le_one k hg).trans (by norm_num)
  have b3 : |(lin k c).2.2| ≤ 3 := by
    show |dec k ((c.b:ℝ)/255)| ≤ 3
    rw [abs_of_nonneg (dec_level_nonneg k c.b)]; exact (dec_level_le_one k hb).trans (by norm_num)
  obtain ⟨r1, r2, r3⟩ := fwd_rows M k
  have q1 := dot3_close M r1 (v := linF M k c) (x := lin k c) d1 d2 d3 b1 b2 b3 (by norm_num)
  have q2 := dot3_close M r2 (v := linF M k c) (x := lin k c) d1 d2 d3 b1 b2 b3 (by norm_num)
  have q3 := dot3_close M r3 (v := linF M k c) (x := lin k c) d1 d2 d3 b1 b2 b3 (by norm_num)
  exact ⟨q1.trans (by norm_num), q2.trans (by norm_num), q3.trans (by norm_num)⟩

/-! ## reverse conversion -/

/-- computed linear-light triple of `as_rgb` -/
noncomputable def rlinF (k : XyzKind) (x : RF M × RF M × RF M) : RF M × RF M × RF M :=
  (dotF' M x (revF M k).1, dotF' M x (revF M k).2.1, dotF' M x (revF M k).2.2)

/-- computed pre-quantisation triple of `as_rgb`: encoded channels scaled by the literal 255 -/
noncomputable def preF (k : XyzKind) (x : RF M × RF M × RF M) : RF M × RF M × RF M :=
  (encF M k (rlinF M k x).1 * Flt.lit 0x406FE00000000000 255 1,
   encF M k (rlinF M k x).2.1 * Flt.lit 0x406FE00000000000 255 1,
   encF M k (rlinF M k x).2.2 * Flt.lit 0x406FE00000000000 255 1)

/-- `as_rgb` in `RF M` is `round` then `as u8` of the three computed pre-quantisation values -/
theorem as_rgb_eq_fp (k : XyzKind) (x : Xyz (RF M)) :
    Xyz.as_rgb x k =
      ⟨Real.toU8 (Real.roundHA (preF M k (x.x, x.y, x.z)).1.val),
       Real.toU8 (Real.roundHA (preF M k (x.x, x.y, x.z)).2.1.val),
       Real.toU8 (Real.roundHA (preF M k (x.x, x.y, x.z)).2.2.val)⟩ := by
  cases k <;> rfl

theorem lit255_val : (Flt.lit 0x406FE00000000000 255 1 : RF M).val = 255 := by
  simp only [FltRF.lit_val]; rw [lit_int M 255 (by norm_num)]; norm_num

/-- the real linear value of a round trip is away from the sRGB encoder's threshold: levels ≤ 10
decode to at most 0.003036, levels ≥ 11 to at least 0.0033 -/
theorem srgb_lin_gap (n : ℕ) (hn : n ≤ 255) (v : ℝ)
    (hv : |v - F64.compute_srgb_gamma_expanded ((n:ℝ)/255)| ≤ 3e-7) :
    (v ≤ 0.0031 ∨ 0.0032 ≤ v) ∧ -1 ≤ v ∧ v ≤ 1.1 := by
  obtain ⟨hv1, hv2⟩ := abs_le.mp hv
  have hn' : (n:ℝ) ≤ 255 := by exact_mod_cast hn
  have hn0 : (0:ℝ) ≤ n := Nat.cast_nonneg n
  have h01 := dec_level_le_one .D65 hn
  have h00 := dec_level_nonneg .D65 n
  simp only [dec] at h01 h00
  refine ⟨?_, by linarith, by linarith⟩
  by_cases h10 : n ≤ 10
  · left
    have h10' : (n:ℝ) ≤ 10 := by exact_mod_cast h10
    rw [Lemmas.Curves.srgb_dec_lin (by linarith)] at hv2
    have : (n:ℝ) / 255 / 12.92 ≤ 0.00304 := by
      rw [div_div, div_le_iff₀ (by norm_num)]; linarith
    linarith
  · right
    rw [not_le] at h10
    have h11 : (11:ℝ) ≤ n := by exact_mod_cast h10
    have hlv : (11:ℝ)/255 ≤ (n:ℝ)/255 := by apply div_le_div_of_nonneg_right h11 (by norm_num)
    rw [Lemmas.Curves.srgb_dec_pow (by linarith)] at hv1
    have f : (0.0033:ℝ) < (((11:ℝ)/255 + 0.055) / 1.055) ^ (2.4:ℝ) := by
      rw [show (2.4:ℝ) = ((12:ℕ):ℝ)/((5:ℕ):ℝ) by norm_num]
      exact Lemmas.Rpow.lt_rpow_of_pow_lt (by norm_num) (by norm_num) 12 5 (by norm_num) (by norm_num)
    have g : (((11:ℝ)/255 + 0.055) / 1.055) ^ (2.4:ℝ) ≤ (((n:ℝ)/255 + 0.055) / 1.055) ^ (2.4:ℝ) :=
      Real.rpow_le_rpow (by norm_num) (div_le_div_of_nonneg_right (by linarith) (by norm_num)) (by norm_num)
    linarith


/-- the real XYZ of an 8-bit colour has components in `[-3, 3]` -/
theorem xyz_range (k : XyzKind) (c : Rgb) (hr : c.r ≤ 255) (hg : c.g ≤ 255) (hb : c.b ≤ 255)
    (i : Fin 3) : |V3.get (mulVec (fwd k) (lin k c)) i| ≤ 3 :=
  fwd_range k (lin k c) i (dec_level_nonneg k c.r) (dec_level_le_one k hr)
    (dec_level_nonneg k c.g) (dec_level_le_one k hg) (dec_level_nonneg k c.b) (dec_level_le_one k hb)

/-- **error of the reverse matrix product on the round trip**: the computed linear-light values of
`as_rgb (from_rgb c k) k` are within `3e-12` of the real model's -/
theorem rlin_fp_close (k : XyzKind) (c : Rgb) (hr : c.r ≤ 255) (hg : c.g ≤ 255) (hb : c.b ≤ 255) :
    |(rlinF M k (xyzF M k c)).1.val - (mulVec (rev k) (mulVec (fwd k) (lin k c))).1| ≤ 3e-12 ∧
    |(rlinF M k (xyzF M k c)).2.1.val - (mulVec (rev k) (mulVec (fwd k) (lin k c))).2.1| ≤ 3e-12 ∧
    |(rlinF M k (xyzF M k c)).2.2.val - (mulVec (rev k) (mulVec (fwd k) (lin k c))).2.2| ≤ 3e-12 := by
  obtain ⟨f1, f2, f3⟩ := xyz_fp_close M k c hr hg hb
  have b1 := xyz_range k c hr hg hb 0
  have b2 := xyz_range k c hr hg hb 1
  have b3 := xyz_range k c hr hg hb 2
  simp only [V3.get] at b1 b2 b3
  obtain ⟨r1, r2, r3⟩ := rev_rows M k
  have q1 := dot3_close' M r1 (v := xyzF M k c) (x := mulVec (fwd k) (lin k c)) f1 f2 f3 b1 b2 b3 (by norm_num)
  have q2 := dot3_close' M r2 (v := xyzF M k c) (x := mulVec (fwd k) (lin k c)) f1 f2 f3 b1 b2 b3 (by norm_num)
  have q3 := dot3_close' M r3 (v := xyzF M k c) (x := mulVec (fwd k) (lin k c)) f1 f2 f3 b1 b2 b3 (by norm_num)
  exact ⟨q1.trans (by norm_num), q2.trans (by norm_num), q3.trans (by norm_num)⟩

/-- encoder + scaling of one channel of the round trip, any profile -/
theorem enc_fp (k : XyzKind) (n : ℕ) (hn : n ≤ 255) (a : RF M) (v : ℝ)
    (hvv : |a.val - v| ≤ 1e-11) (hv : |v - dec k ((n:ℝ)/255)| ≤ 3e-7) :
    |(encF M k a * Flt.lit 0x406FE00000000000 255 1).val - enc k v * 255| ≤ 0.02 := by
  cases k
  · obtain ⟨g1, g2, g3⟩ := srgb_lin_gap n hn v hv
    exact srgb_enc_fp M a _ v (lit255_val M) hvv g1 g2 g3
  · obtain ⟨g1, g2, g3⟩ := srgb_lin_gap n hn v hv
    exact srgb_enc_fp M a _ v (lit255_val M) hvv g1 g2 g3
  · have h1 := dec_level_le_one .Adobe hn
    exact argb_enc_fp M a _ v (lit255_val M) hvv (by linarith [(abs_le.mp hv).2])

/-- **pre-quantisation values of the round trip**: computed vs real within `0.02` (the margin of
`Props.C01.roundtrip_robust` is `0.09`) -/
theorem pre_fp_close (k : XyzKind) (c : Rgb) (hr : c.r ≤ 255) (hg : c.g ≤ 255) (hb : c.b ≤ 255) :
    |(preF M k (xyzF M k c)).1.val - (pre k (Xyz.from_rgb c k)).1| ≤ 0.02 ∧
    |(preF M k (xyzF M k c)).2.1.val - (pre k (Xyz.from_rgb c k)).2.1| ≤ 0.02 ∧
    |(preF M k (xyzF M k c)).2.2.val - (pre k (Xyz.from_rgb c k)).2.2| ≤ 0.02 := by
  obtain ⟨q1, q2, q3⟩ := rlin_fp_close M k c hr hg hb
  have hl := fun j => roundtrip_lin k (lin k c) j (dec_level_nonneg k c.r) (dec_level_le_one k hr)
    (dec_level_nonneg k c.g) (dec_level_le_one k hg) (dec_level_nonneg k c.b) (dec_level_le_one k hb)
  have l1 := hl 0
  have l2 := hl 1
  have l3 := hl 2
  simp only [V3.get] at l1 l2 l3
  rw [from_rgb_eq]
  exact ⟨enc_fp M k c.r hr _ _ (q1.trans (by norm_num)) l1,
    enc_fp M k c.g hg _ _ (q2.trans (by norm_num)) l2,
    enc_fp M k c.b hb _ _ (q3.trans (by norm_num)) l3⟩

end curves

section bw
variable (M : FPModel)

/-! ## black and white in `RF M` -/

theorem dotF_zero (m v : RF M × RF M × RF M) (h1 : v.1.val = 0) (h2 : v.2.1.val = 0)
    (h3 : v.2.2.val = 0) : (dotF M m v).val = 0 := by
  simp only [dotF, FltRF.add_val, FltRF.mul_val, h1, h2, h3, mul_zero, add_zero, rnd_zero]

theorem dec_zero_fp (k : XyzKind) : (decF M k (lvlF M 0)).val = 0 := by
  have h0 : (lvlF M 0).val = 0 := by rw [lvlF_val]; simp [rnd_zero]
  cases k
  · have hc : (0:ℝ) ≤ M.rnd (((809:ℕ):ℝ) / ((20000:ℕ):ℝ)) := rnd_nonneg M (by positivity)
    simp only [decF, F64.compute_srgb_gamma_expanded, FltRF.le_eq, FltRF.lit_val, h0, hc, decide_true,
      if_true, FltRF.div_val, zero_div, rnd_zero]
  · have hc : (0:ℝ) ≤ M.rnd (((809:ℕ):ℝ) / ((20000:ℕ):ℝ)) := rnd_nonneg M (by positivity)
    simp only [decF, F64.compute_srgb_gamma_expanded, FltRF.le_eq, FltRF.lit_val, h0, hc, decide_true,
      if_true, FltRF.div_val, zero_div, rnd_zero]
  · have z : M.rnd (((0:ℕ):ℝ) / ((1:ℕ):ℝ)) = 0 := by
      have := lit_int M 0 (by norm_num); simpa using this
    simp only [decF, F64.compute_argb_gamma, FltRF.le_eq, FltRF.lit_val, h0, z, le_refl, decide_true,
      if_true]

/-- RGB black maps to XYZ (0,0,0) EXACTLY in every model -/
theorem xyz_black_fp (k : XyzKind) :
    (xyzF M k ⟨0, 0, 0⟩).1.val = 0 ∧ (xyzF M k ⟨0, 0, 0⟩).2.1.val = 0 ∧ (xyzF M k ⟨0, 0, 0⟩).2.2.val = 0 := by
  have h := dec_zero_fp M k
  exact ⟨dotF_zero M _ _ h h h, dotF_zero M _ _ h h h, dotF_zero M _ _ h h h⟩

theorem enc_zero_fp (k : XyzKind) (a : RF M) (ha : a.val = 0) :
    (encF M k a * Flt.lit 0x406FE00000000000 255 1).val = 0 := by
  cases k
  · have hc : (0:ℝ) ≤ M.rnd (((7827:ℕ):ℝ) / ((2500000:ℕ):ℝ)) := rnd_nonneg M (by positivity)
    simp only [encF, F64.apply_srgb_gamma_correction, FltRF.le_eq, FltRF.lit_val, ha, hc, decide_true,
      if_true, FltRF.mul_val, zero_mul, rnd_zero]
  · have hc : (0:ℝ) ≤ M.rnd (((7827:ℕ):ℝ) / ((2500000:ℕ):ℝ)) := rnd_nonneg M (by positivity)
    simp only [encF, F64.apply_srgb_gamma_correction, FltRF.le_eq, FltRF.lit_val, ha, hc, decide_true,
      if_true, FltRF.mul_val, zero_mul, rnd_zero]
  · have z : M.rnd (((0:ℕ):ℝ) / ((1:ℕ):ℝ)) = 0 := by
      have := lit_int M 0 (by norm_num); simpa using this
    simp only [encF, F64.compute_argb_gamma_expanded, FltRF.le_eq, FltRF.lit_val, ha, z, le_refl,
      decide_true, if_true, FltRF.mul_val, zero_mul, rnd_zero]

/-- XYZ (0,0,0) has pre-quantisation values 0 in every model -/
theorem pre_zero_fp (k : XyzKind) (x : RF M × RF M × RF M) (h1 : x.1.val = 0) (h2 : x.2.1.val = 0)
    (h3 : x.2.2.val = 0) :
    (preF M k x).1.val = 0 ∧ (preF M k x).2.1.val = 0 ∧ (preF M k x).2.2.val = 0 := by
  have d : ∀ m, (dotF' M x m).val = 0 := fun m => by rw [dotF'_val]; exact dotF_zero M m x h1 h2 h3
  exact ⟨enc_zero_fp M k _ (d _), enc_zero_fp M k _ (d _), enc_zero_fp M k _ (d _)⟩

/-- row sums of the forward matrix are the reference white up to `5e-7` (measured: `1.2e-7`) -/
theorem fwd_white_tight (k : XyzKind) (i : Fin 3) :
    |V3.get (mulVec (fwd k) (1, 1, 1)) i - V3.get (white k) i| ≤ 5e-7 := by
  cases k <;> fin_cases i <;> unfold_consts <;> norm_num [abs_le]

/-- a computed XYZ within `1e-9` of the reference white has all three pre-quantisation values within
`0.42` of 255 -/
theorem pre_white_fp (k : XyzKind) (x : RF M × RF M × RF M) (h1 : |x.1.val - (white k).1| ≤ 1e-9)
    (h2 : |x.2.1.val - (white k).2.1| ≤ 1e-9) (h3 : |x.2.2.val - (white k).2.2| ≤ 1e-9) :
    |(preF M k x).1.val - 255| ≤ 0.42 ∧ |(preF M k x).2.1.val - 255| ≤ 0.42 ∧
    |(preF M k x).2.2.val - 255| ≤ 0.42 := by
  have bw : |(white k).1| ≤ 3 ∧ |(white k).2.1| ≤ 3 ∧ |(white k).2.2| ≤ 3 := by
    cases k <;> simp only [white] <;> norm_num [abs_le]
  obtain ⟨b1, b2, b3⟩ := bw
  obtain ⟨r1, r2, r3⟩ := rev_rows M k
  have key : ∀ (row : RF M × RF M × RF M) (c : ℝ × ℝ × ℝ), RowOK M row c → |dot c (white k) - 1| ≤ 1e-7 →
      |(encF M k (dotF' M x row) * Flt.lit 0x406FE00000000000 255 1).val - 255| ≤ 0.42 := by
    intro row c hrow hw
    have q := dot3_close' M hrow (v := x) (x := white k) h1 h2 h3 b1 b2 b3 (by norm_num)
    have e255 : ((255:ℕ):ℝ) / 255 = 1 := by norm_num
    have hv : |(dotF' M x row).val - dec k (((255:ℕ):ℝ) / 255)| ≤ 3e-7 := by
      rw [e255, dec_one]
      have := abs_sub_le (dotF' M x row).val (dot c (white k)) 1
      linarith
    have f := enc_fp M k 255 le_rfl (dotF' M x row) (dotF' M x row).val (by simp; norm_num) hv
    have s := stable k 255 le_rfl ((dotF' M x row).val - 1) (by rw [e255, dec_one] at hv; exact hv)
    rw [e255, dec_one, add_sub_cancel] at s
    have := abs_sub_le (encF M k (dotF' M x row) * Flt.lit 0x406FE00000000000 255 1).val
      (enc k (dotF' M x row).val * 255) 255
    push_cast at s
    linarith
  have w1 := rev_white k 0
  have w2 := rev_white k 1
  have w3 := rev_white k 2
  simp only [V3.get, mulVec] at w1 w2 w3
  exact ⟨key _ _ r1 w1, key _ _ r2 w2, key _ _ r3 w3⟩

end bw

end Lemmas.FpXyz
