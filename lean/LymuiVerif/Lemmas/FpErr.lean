import LymuiVerif.Inst.Rounded
/-!
# Error propagation in the rounded-arithmetic reading (`Inst/Rounded.lean`)

All lemmas are about an arbitrary `M : FPModel`.  `a`, `b` are computed (rounded) values, `x`, `y`
the exact values they approximate, `ea`, `eb` absolute error bounds, `Bx`, `By` magnitude bounds.
The constant `FP.eps = 1.2e-16` absorbs `u = 2^-53 ≈ 1.11e-16` and the underflow term `η = 2^-1075`
for every magnitude bound `B ≥ 1e-200`.
-/
namespace FP
/-- `u·B + η ≤ eps·B` for every `B ≥ 1e-200` -/
noncomputable def eps : ℝ := 1.2e-16
theorem eps_pos : 0 < eps := by unfold eps; norm_num

theorem u_eta_le (B : ℝ) (hB : 1e-200 ≤ B) : u * B + eta ≤ eps * B := by
  have hu := u_lt
  have he := eta_lt
  have h1 : eta ≤ 0.08e-16 * B := by
    have : (1 : ℝ) / 10 ^ 240 ≤ 0.08e-16 * 1e-200 := by norm_num
    have h2 : (0.08e-16 : ℝ) * 1e-200 ≤ 0.08e-16 * B := by
      apply mul_le_mul_of_nonneg_left hB; norm_num
    linarith
  have hB0 : 0 ≤ B := le_trans (by norm_num) hB
  have h3 : u * B ≤ 1.12e-16 * B := by
    apply mul_le_mul_of_nonneg_right _ hB0
    unfold u; norm_num
  unfold eps; linarith
end FP

namespace FpErr
variable (M : FPModel)

/-! ## exactness and sign -/
theorem rnd_zero : M.rnd 0 = 0 := by simpa using M.rnd_int 0 (by norm_num)
theorem rnd_one : M.rnd 1 = 1 := by simpa using M.rnd_int 1 (by norm_num)
theorem rnd_nat (n : ℕ) (h : n ≤ 2 ^ 53) : M.rnd n = n := by
  have := M.rnd_int n (by
    rw [abs_of_nonneg (by positivity)]; exact_mod_cast h)
  simpa using this
theorem rnd_nonneg {x : ℝ} (h : 0 ≤ x) : 0 ≤ M.rnd x := by
  have := M.rnd_mono h; rwa [rnd_zero] at this
theorem rnd_nonpos {x : ℝ} (h : x ≤ 0) : M.rnd x ≤ 0 := by
  have := M.rnd_mono h; rwa [rnd_zero] at this
/-- rounding never crosses a representable integer -/
theorem rnd_le_int {x : ℝ} (n : ℤ) (hn : |(n : ℝ)| ≤ 2 ^ 53) (h : x ≤ n) : M.rnd x ≤ n := by
  have := M.rnd_mono h; rwa [M.rnd_int n hn] at this
theorem int_le_rnd {x : ℝ} (n : ℤ) (hn : |(n : ℝ)| ≤ 2 ^ 53) (h : (n : ℝ) ≤ x) : (n : ℝ) ≤ M.rnd x := by
  have := M.rnd_mono h; rwa [M.rnd_int n hn] at this
theorem rnd_le_one {x : ℝ} (h : x ≤ 1) : M.rnd x ≤ 1 := by
  have := M.rnd_mono h; rwa [rnd_one] at this
theorem rnd_le_nat {x : ℝ} (n : ℕ) (hn : n ≤ 2 ^ 53) (h : x ≤ n) : M.rnd x ≤ n := by
  have := M.rnd_mono h; rwa [rnd_nat M n hn] at this
theorem nat_le_rnd {x : ℝ} (n : ℕ) (hn : n ≤ 2 ^ 53) (h : (n : ℝ) ≤ x) : (n : ℝ) ≤ M.rnd x := by
  have := M.rnd_mono h; rwa [rnd_nat M n hn] at this

/-! ## one rounding -/
/-- a rounding of a value of magnitude at most `B` costs at most `eps·B` -/
theorem rnd_abs {x B : ℝ} (hx : |x| ≤ B) (hB : 1e-200 ≤ B) : |M.rnd x - x| ≤ FP.eps * B := by
  have h := M.rnd_err x
  have h2 : FP.u * |x| ≤ FP.u * B := mul_le_mul_of_nonneg_left hx FP.u_pos.le
  have := FP.u_eta_le B hB
  linarith

/-- rounding a computed value `a` that approximates `x` -/
theorem rnd_close {a x e B : ℝ} (h : |a - x| ≤ e) (hx : |x| ≤ B) (hB : 1e-200 ≤ B) :
    |M.rnd a - x| ≤ e + FP.eps * (B + e) := by
  have he : 0 ≤ e := le_trans (abs_nonneg _) h
  have ha : |a| ≤ B + e := by
    have := abs_sub_abs_le_abs_sub a x
    linarith
  have h1 := rnd_abs M ha (by linarith)
  calc |M.rnd a - x| = |(M.rnd a - a) + (a - x)| := by ring_nf
    _ ≤ |M.rnd a - a| + |a - x| := abs_add_le _ _
    _ ≤ e + FP.eps * (B + e) := by linarith

/-! ## the four operations -/
theorem add_close {a b x y ea eb B : ℝ} (ha : |a - x| ≤ ea) (hb : |b - y| ≤ eb)
    (hB : |x + y| ≤ B) (hB1 : 1e-200 ≤ B) :
    |M.rnd (a + b) - (x + y)| ≤ (ea + eb) + FP.eps * (B + (ea + eb)) := by
  apply rnd_close M _ hB hB1
  calc |a + b - (x + y)| = |(a - x) + (b - y)| := by ring_nf
    _ ≤ |a - x| + |b - y| := abs_add_le _ _
    _ ≤ ea + eb := by linarith

theorem sub_close {a b x y ea eb B : ℝ} (ha : |a - x| ≤ ea) (hb : |b - y| ≤ eb)
    (hB : |x - y| ≤ B) (hB1 : 1e-200 ≤ B) :
    |M.rnd (a - b) - (x - y)| ≤ (ea + eb) + FP.eps * (B + (ea + eb)) := by
  apply rnd_close M _ hB hB1
  calc |a - b - (x - y)| = |(a - x) + (-(b - y))| := by ring_nf
    _ ≤ |a - x| + |-(b - y)| := abs_add_le _ _
    _ ≤ ea + eb := by rw [abs_neg]; linarith

/-- the exact product of two approximations -/
theorem mul_exact_close {a b x y ea eb Bx By : ℝ} (ha : |a - x| ≤ ea) (hb : |b - y| ≤ eb)
    (hx : |x| ≤ Bx) (hy : |y| ≤ By) :
    |a * b - x * y| ≤ ea * By + eb * Bx + ea * eb := by
  have hea : 0 ≤ ea := le_trans (abs_nonneg _) ha
  have heb : 0 ≤ eb := le_trans (abs_nonneg _) hb
  have e : a * b - x * y = (a - x) * y + x * (b - y) + (a - x) * (b - y) := by ring
  rw [e]
  have h1 : |(a - x) * y| ≤ ea * By := by
    rw [abs_mul]; exact mul_le_mul ha hy (abs_nonneg _) hea
  have h2 : |x * (b - y)| ≤ eb * Bx := by
    rw [abs_mul, mul_comm]; exact mul_le_mul hb hx (abs_nonneg _) heb
  have h3 : |(a - x) * (b - y)| ≤ ea * eb := by
    rw [abs_mul]; exact mul_le_mul ha hb (abs_nonneg _) hea
  calc _ ≤ |(a - x) * y + x * (b - y)| + |(a - x) * (b - y)| := abs_add_le _ _
    _ ≤ |(a - x) * y| + |x * (b - y)| + |(a - x) * (b - y)| := by
        have := abs_add_le ((a - x) * y) (x * (b - y)); linarith
    _ ≤ _ := by linarith

theorem mul_close {a b x y ea eb Bx By : ℝ} (ha : |a - x| ≤ ea) (hb : |b - y| ≤ eb)
    (hx : |x| ≤ Bx) (hy : |y| ≤ By) (hB1 : 1e-200 ≤ Bx * By) :
    |M.rnd (a * b) - x * y| ≤
      (ea * By + eb * Bx + ea * eb) + FP.eps * (Bx * By + (ea * By + eb * Bx + ea * eb)) := by
  apply rnd_close M (mul_exact_close ha hb hx hy) _ hB1
  rw [abs_mul]
  exact mul_le_mul hx hy (abs_nonneg _) (le_trans (abs_nonneg _) hx)

/-- the exact quotient of two approximations, the exact divisor bounded away from zero by `m`
and the divisor's error smaller than `m` -/
theorem div_exact_close {a b x y ea eb Bx m : ℝ} (ha : |a - x| ≤ ea) (hb : |b - y| ≤ eb)
    (hx : |x| ≤ Bx) (hy : m ≤ |y|) (hm : eb < m) :
    |a / b - x / y| ≤ (ea * m + eb * Bx) / (m * (m - eb)) + 0 := by
  have hea : 0 ≤ ea := le_trans (abs_nonneg _) ha
  have heb : 0 ≤ eb := le_trans (abs_nonneg _) hb
  have hm0 : 0 < m := lt_of_le_of_lt heb hm
  have hy0 : y ≠ 0 := fun h => by rw [h, abs_zero] at hy; linarith
  have hbabs : m - eb ≤ |b| := by
    have := abs_sub_abs_le_abs_sub y b
    rw [abs_sub_comm] at this; linarith
  have hb0 : b ≠ 0 := fun h => by rw [h, abs_zero] at hbabs; linarith
  have hBx : 0 ≤ Bx := le_trans (abs_nonneg _) hx
  have e : a / b - x / y = ((a - x) * y - x * (b - y)) / (b * y) := by
    field_simp; ring
  rw [e, abs_div, abs_mul, add_zero]
  have hnum : |(a - x) * y - x * (b - y)| ≤ ea * |y| + eb * Bx := by
    have h1 : |(a - x) * y| ≤ ea * |y| := by
      rw [abs_mul]; exact mul_le_mul_of_nonneg_right ha (abs_nonneg _)
    have h2 : |x * (b - y)| ≤ eb * Bx := by
      rw [abs_mul, mul_comm]; exact mul_le_mul hb hx (abs_nonneg _) heb
    have := abs_sub ((a - x) * y) (x * (b - y))
    linarith
  have hden : 0 < |b| * |y| := mul_pos (abs_pos.mpr hb0) (abs_pos.mpr hy0)
  rw [div_le_div_iff₀ hden (mul_pos hm0 (by linarith))]
  -- (ea |y| + eb Bx) m (m - eb) ≤ (ea m + eb Bx) |b| |y|
  have hmb : 0 < m - eb := by linarith
  have k1 : ea * |y| * (m * (m - eb)) ≤ ea * m * (|b| * |y|) := by
    have : m - eb ≤ |b| := hbabs
    have h : ea * |y| * m * (m - eb) ≤ ea * |y| * m * |b| :=
      mul_le_mul_of_nonneg_left this (by positivity)
    nlinarith [h]
  have k2 : eb * Bx * (m * (m - eb)) ≤ eb * Bx * (|b| * |y|) := by
    apply mul_le_mul_of_nonneg_left _ (by positivity)
    calc m * (m - eb) ≤ |y| * |b| := mul_le_mul hy hbabs hmb.le (abs_nonneg _)
      _ = |b| * |y| := mul_comm _ _
  calc |(a - x) * y - x * (b - y)| * (m * (m - eb))
      ≤ (ea * |y| + eb * Bx) * (m * (m - eb)) :=
        mul_le_mul_of_nonneg_right hnum (by positivity)
    _ = ea * |y| * (m * (m - eb)) + eb * Bx * (m * (m - eb)) := by ring
    _ ≤ ea * m * (|b| * |y|) + eb * Bx * (|b| * |y|) := by linarith
    _ = (ea * m + eb * Bx) * (|b| * |y|) := by ring

theorem div_close {a b x y ea eb Bx m Bq : ℝ} (ha : |a - x| ≤ ea) (hb : |b - y| ≤ eb)
    (hx : |x| ≤ Bx) (hy : m ≤ |y|) (hm : eb < m) (hq : |x / y| ≤ Bq) (hB1 : 1e-200 ≤ Bq) :
    |M.rnd (a / b) - x / y| ≤
      (ea * m + eb * Bx) / (m * (m - eb)) + FP.eps * (Bq + (ea * m + eb * Bx) / (m * (m - eb))) := by
  have := div_exact_close ha hb hx hy hm
  rw [add_zero] at this
  exact rnd_close M this hq hB1

/-- a literal `n/d` (the decimal the programmer wrote) after its one rounding -/
theorem lit_close (n d : ℕ) {B : ℝ} (hB : (n : ℝ) / d ≤ B) (hB1 : 1e-200 ≤ B) :
    |M.rnd ((n : ℝ) / d) - (n : ℝ) / d| ≤ FP.eps * B := by
  apply rnd_abs M _ hB1
  rwa [abs_of_nonneg (by positivity)]

/-- a literal that is a whole number below `2^53` is exact -/
theorem lit_int (n : ℕ) (h : n ≤ 2 ^ 53) : M.rnd ((n : ℝ) / (1 : ℕ)) = n := by
  simp only [Nat.cast_one, div_one]; exact rnd_nat M n h

end FpErr
