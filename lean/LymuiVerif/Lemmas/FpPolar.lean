import LymuiVerif.Lemmas.FpErr
import Mathlib.Analysis.SpecialFunctions.Trigonometric.Bounds
import Mathlib.Analysis.Real.Pi.Bounds
/-!
# Rounded-arithmetic lemmas for the polar forms (C14, `RF M`)

All lemmas hold for every `M : FPModel`.

* `powi_two` — `x.powi(2)` in the model is `rnd (1 * rnd (x * x))` (compiler-rt's square-and-multiply:
  one squaring, then the product with the accumulator `1`; the model has no idempotence of `rnd`, so
  this counts as two roundings).
* relative error propagation (`rnd_rel`, `rnd_rel_close`, `sq_close`, `powi2_close`): errors of the
  form `r·X + e` with `X ≥ 0` the exact value, `r` a relative and `e` an (underflow-size) absolute part.
* `sqrt_rel` — `|√s − √X| ≤ r·√X + √e` when `|s − X| ≤ r·X + e`: the square root is relatively
  well-conditioned everywhere; the absolute part costs `√e`.
* `sqrt_sum_close` — `rnd √(rnd (p₁ + p₂))` against `√(A + B)`.
* `deg_close` / `rad_close` — the code's radian→degree and degree→radian conversions.
* `cos_close`, `sin_close` (1-Lipschitz + 1 ulp), `polar_mul_close` (`rnd (C·ĉ)` against `C·c`).
-/
namespace FpPolar
open FpErr
variable (M : FPModel)

/-! ## `powi 2` -/

theorem powi_two (a : ℝ) : RF.powi M a 2 = M.rnd (1 * M.rnd (a * a)) := by
  simp [RF.powi, RF.powiGo]

/-! ## relative error propagation -/

theorem eta_lt' : FP.eta < 1e-240 := by
  have := FP.eta_lt; norm_num at this ⊢; linarith

/-- one rounding: relative part `1.2e-16`, absolute part `η` -/
theorem rnd_rel (x : ℝ) : |M.rnd x - x| ≤ 1.2e-16 * |x| + FP.eta := by
  have h := M.rnd_err x
  have : FP.u * |x| ≤ 1.2e-16 * |x| := mul_le_mul_of_nonneg_right FP.u_lt.le (abs_nonneg _)
  linarith

/-- rounding a value `t` that approximates `X ≥ 0` with error `r·X + e` -/
theorem rnd_rel_close {t X r e : ℝ} (hX : 0 ≤ X) (_hr : 0 ≤ r) (he : 0 ≤ e) (h : |t - X| ≤ r * X + e) :
    |M.rnd t - X| ≤ (r + 1.2e-16 * (1 + r)) * X + (2 * e + FP.eta) := by
  have h1 := rnd_rel M t
  have ht : |t| ≤ X + (r * X + e) := by
    have := abs_sub_abs_le_abs_sub t X
    rw [abs_of_nonneg hX] at this; linarith
  have h2 : (1.2e-16 : ℝ) * |t| ≤ 1.2e-16 * (X + (r * X + e)) :=
    mul_le_mul_of_nonneg_left ht (by norm_num)
  have h3 : (1.2e-16 : ℝ) * e ≤ e := by nlinarith
  calc |M.rnd t - X| = |(M.rnd t - t) + (t - X)| := by ring_nf
    _ ≤ |M.rnd t - t| + |t - X| := abs_add_le _ _
    _ ≤ _ := by nlinarith

/-- `rnd (a·a)` against `a²` -/
theorem sq_close (a : ℝ) : |M.rnd (a * a) - a ^ 2| ≤ 1.2e-16 * a ^ 2 + FP.eta := by
  have := rnd_rel M (a * a)
  rw [abs_of_nonneg (mul_self_nonneg a)] at this
  rw [sq]; exact this

/-- `a.powi(2)` against `a²` -/
theorem powi2_close (a : ℝ) : |RF.powi M a 2 - a ^ 2| ≤ 2.5e-16 * a ^ 2 + 3 * FP.eta := by
  rw [powi_two, one_mul]
  have h := rnd_rel_close M (sq_nonneg a) (by norm_num) FP.eta_pos.le (sq_close M a)
  refine le_trans h ?_
  have := sq_nonneg a
  nlinarith

theorem sq_close' (a : ℝ) : |M.rnd (a * a) - a ^ 2| ≤ 2.5e-16 * a ^ 2 + 3 * FP.eta := by
  have := sq_close M a
  have h2 := sq_nonneg a
  have := FP.eta_pos
  nlinarith

/-! ## the square root -/

/-- the square root is relatively well-conditioned: a relative error `r` stays `r`, an absolute
error `e` costs `√e` -/
theorem sqrt_rel {s X r e : ℝ} (hX : 0 ≤ X) (hr : 0 ≤ r) (he : 0 ≤ e) (h : |s - X| ≤ r * X + e) :
    |√s - √X| ≤ r * √X + √e := by
  have hy : 0 ≤ √X := Real.sqrt_nonneg X
  have hw : 0 ≤ √e := Real.sqrt_nonneg e
  have hy2 : √X ^ 2 = X := Real.sq_sqrt hX
  have hw2 : √e ^ 2 = e := Real.sq_sqrt he
  obtain ⟨hlo, hhi⟩ := abs_le.mp h
  generalize √X = y at *
  generalize √e = w at *
  subst hy2 hw2
  have hz : 0 ≤ r * y + w := by positivity
  rw [abs_le]
  constructor
  · -- y - z ≤ √s
    by_cases hc : y - (r * y + w) ≤ 0
    · have := Real.sqrt_nonneg s; linarith
    · rw [not_le] at hc
      have : y - (r * y + w) ≤ √s := by
        rw [Real.le_sqrt' hc]
        have k1 : (r * y + w) * (r * y + w) ≤ y * (r * y + w) :=
          mul_le_mul_of_nonneg_right (by linarith) hz
        have k2 : w * w ≤ y * w := by
          apply mul_le_mul_of_nonneg_right _ hw
          nlinarith [mul_nonneg hr hy]
        nlinarith [mul_nonneg hr (sq_nonneg y)]
      linarith
  · have : √s ≤ y + (r * y + w) := by
      rw [Real.sqrt_le_left (by positivity)]
      nlinarith [mul_nonneg hr (sq_nonneg y), mul_nonneg hy hw, mul_nonneg (mul_nonneg hr hy) hw,
        sq_nonneg (r * y)]
    linarith

theorem sqrt_eta_le : √(13 * FP.eta) ≤ 1e-119 := by
  rw [Real.sqrt_le_left (by norm_num)]
  have := eta_lt'
  norm_num at this ⊢
  linarith

/-- the chroma computation `sqrt(p₁ + p₂)` where `pᵢ` are computed squares -/
theorem sqrt_sum_close {p1 p2 A B : ℝ} (hA : 0 ≤ A) (hB : 0 ≤ B)
    (h1 : |p1 - A| ≤ 2.5e-16 * A + 3 * FP.eta) (h2 : |p2 - B| ≤ 2.5e-16 * B + 3 * FP.eta) :
    |M.rnd (√(M.rnd (p1 + p2))) - √(A + B)| ≤ 6e-16 * √(A + B) + 1e-100 := by
  have hη := FP.eta_pos
  have hsum : |p1 + p2 - (A + B)| ≤ 2.5e-16 * (A + B) + 6 * FP.eta := by
    calc |p1 + p2 - (A + B)| = |(p1 - A) + (p2 - B)| := by ring_nf
      _ ≤ |p1 - A| + |p2 - B| := abs_add_le _ _
      _ ≤ _ := by linarith
  have hs := rnd_rel_close M (add_nonneg hA hB) (by norm_num) (by positivity) hsum
  have hs' : |M.rnd (p1 + p2) - (A + B)| ≤ 3.8e-16 * (A + B) + 13 * FP.eta := by
    refine le_trans hs ?_
    have := add_nonneg hA hB
    nlinarith
  have hq := sqrt_rel (add_nonneg hA hB) (by norm_num) (by positivity) hs'
  have hy : 0 ≤ √(A + B) := Real.sqrt_nonneg _
  have hq2 : √(M.rnd (p1 + p2)) ≤ √(A + B) + (3.8e-16 * √(A + B) + √(13 * FP.eta)) := by
    have := (abs_le.mp hq).2; linarith
  have hr := rnd_rel M (√(M.rnd (p1 + p2)))
  rw [abs_of_nonneg (Real.sqrt_nonneg _)] at hr
  have he := sqrt_eta_le
  have he0 : 0 ≤ √(13 * FP.eta) := Real.sqrt_nonneg _
  have heta := eta_lt'
  calc |M.rnd (√(M.rnd (p1 + p2))) - √(A + B)|
      = |(M.rnd (√(M.rnd (p1 + p2))) - √(M.rnd (p1 + p2))) + (√(M.rnd (p1 + p2)) - √(A + B))| := by ring_nf
    _ ≤ |M.rnd (√(M.rnd (p1 + p2))) - √(M.rnd (p1 + p2))| + |√(M.rnd (p1 + p2)) - √(A + B)| := abs_add_le _ _
    _ ≤ _ := by nlinarith

/-! ## angles -/

theorem pi_le_B : |Real.pi| ≤ 4 := by
  rw [abs_of_pos Real.pi_pos]; exact Real.pi_le_four

/-- the rounded `π` -/
theorem pi_close : |M.rnd Real.pi - Real.pi| ≤ FP.eps * 4 :=
  rnd_abs M pi_le_B (by norm_num)

/-- a libm value with the 1-ulp bound, the exact value of magnitude at most `B` -/
theorem ulp_close {v x B : ℝ} (h : |v - x| ≤ 2 * FP.u * |x| + FP.eta) (hx : |x| ≤ B) (hB : 1e-200 ≤ B) :
    |v - x| ≤ FP.eps * (2 * B) := by
  have h1 := FP.u_eta_le B hB
  have h2 : FP.u * |x| ≤ FP.u * B := mul_le_mul_of_nonneg_left hx FP.u_pos.le
  have := FP.eta_pos
  nlinarith

/-- the code's radian→degree conversion `180 * θ / π` applied to a computed angle `t` that is within
`FP.eps * 8` of `θ ∈ [-π, π]` -/
theorem deg_close {t θ : ℝ} (ht : |t - θ| ≤ FP.eps * 8) (hθ : |θ| ≤ Real.pi) :
    |M.rnd (M.rnd (180 * t) / M.rnd Real.pi) - θ * 180 / Real.pi| ≤ 2e-13 := by
  have hθ4 : |θ| ≤ 4 := le_trans hθ Real.pi_le_four
  have h180 : |(180 : ℝ) - 180| ≤ 0 := by norm_num
  have m := mul_close M h180 ht (Bx := 180) (By := 4) (by norm_num) hθ4 (by norm_num)
  have hpi := pi_close M
  have hm3 : (3 : ℝ) ≤ |Real.pi| := by rw [abs_of_pos Real.pi_pos]; exact Real.pi_gt_three.le
  have hx : |180 * θ| ≤ 720 := by rw [abs_mul]; norm_num; linarith
  have hq : |180 * θ / Real.pi| ≤ 180 := by
    rw [abs_div, abs_mul, abs_of_pos Real.pi_pos, div_le_iff₀ Real.pi_pos]; norm_num; linarith
  have d := div_close M m hpi hx hm3 (by norm_num [FP.eps]) hq (by norm_num)
  have e : θ * 180 / Real.pi = 180 * θ / Real.pi := by ring
  rw [e]
  refine le_trans d ?_
  norm_num [FP.eps]

/-- the code's degree→radian conversion `h * π / 180` for `h ∈ [0, 360]` (exact input) -/
theorem rad_close {h : ℝ} (h0 : 0 ≤ h) (h1 : h ≤ 360) :
    |M.rnd (M.rnd (h * M.rnd Real.pi) / 180) - h * Real.pi / 180| ≤ 3e-15 := by
  have hh : |h - h| ≤ 0 := by simp
  have habs : |h| ≤ 360 := by rw [abs_of_nonneg h0]; exact h1
  have m := mul_close M hh (pi_close M) (Bx := 360) (By := 4) habs pi_le_B (by norm_num)
  have h180 : |(180 : ℝ) - 180| ≤ 0 := by norm_num
  have hx : |h * Real.pi| ≤ 1440 := by
    rw [abs_mul]; nlinarith [pi_le_B, abs_nonneg h, abs_nonneg Real.pi]
  have hq : |h * Real.pi / 180| ≤ 8 := by
    rw [abs_mul] at hx
    rw [abs_div, abs_mul]; norm_num; rw [div_le_iff₀ (by norm_num)]; linarith
  have d := div_close M m h180 hx (m := 180) (by norm_num) (by norm_num) hq (by norm_num)
  refine le_trans d ?_
  norm_num [FP.eps]

/-- libm `cos` of a computed angle: 1-Lipschitz plus one ulp -/
theorem cos_close {t x d : ℝ} (h : |t - x| ≤ d) : |M.cos t - Real.cos x| ≤ d + 2.5e-16 := by
  have h1 := M.cos_err t
  have h2 := Real.abs_cos_sub_cos_le t x
  have h3 : |Real.cos t| ≤ 1 := Real.abs_cos_le_one t
  have hu := FP.u_lt
  have hu0 := FP.u_pos
  have he := eta_lt'
  have : 2 * FP.u * |Real.cos t| ≤ 2 * FP.u * 1 := mul_le_mul_of_nonneg_left h3 (by positivity)
  calc |M.cos t - Real.cos x| = |(M.cos t - Real.cos t) + (Real.cos t - Real.cos x)| := by ring_nf
    _ ≤ |M.cos t - Real.cos t| + |Real.cos t - Real.cos x| := abs_add_le _ _
    _ ≤ _ := by linarith

theorem sin_close {t x d : ℝ} (h : |t - x| ≤ d) : |M.sin t - Real.sin x| ≤ d + 2.5e-16 := by
  have h1 := M.sin_err t
  have h2 := Real.abs_sin_sub_sin_le t x
  have h3 : |Real.sin t| ≤ 1 := Real.abs_sin_le_one t
  have hu := FP.u_lt
  have hu0 := FP.u_pos
  have he := eta_lt'
  have : 2 * FP.u * |Real.sin t| ≤ 2 * FP.u * 1 := mul_le_mul_of_nonneg_left h3 (by positivity)
  calc |M.sin t - Real.sin x| = |(M.sin t - Real.sin t) + (Real.sin t - Real.sin x)| := by ring_nf
    _ ≤ |M.sin t - Real.sin t| + |Real.sin t - Real.sin x| := abs_add_le _ _
    _ ≤ _ := by linarith

/-- `rnd (C·ĉ)` against `C·c` for `C ≥ 0`, `|c| ≤ 1`, `|ĉ − c| ≤ d ≤ 1e-14`: relative to `C` -/
theorem polar_mul_close {C c' c d : ℝ} (hC : 0 ≤ C) (h : |c' - c| ≤ d) (hc : |c| ≤ 1) (hd : d ≤ 1e-14) :
    |M.rnd (C * c') - C * c| ≤ 1.1e-14 * C + FP.eta := by
  have hd0 : 0 ≤ d := le_trans (abs_nonneg _) h
  have h1 : |C * c' - C * c| ≤ C * d := by
    rw [← mul_sub, abs_mul, abs_of_nonneg hC]; exact mul_le_mul_of_nonneg_left h hC
  have hc' : |c'| ≤ 1 + d := by
    have := abs_sub_abs_le_abs_sub c' c; linarith
  have h2 : |C * c'| ≤ C * (1 + d) := by
    rw [abs_mul, abs_of_nonneg hC]; exact mul_le_mul_of_nonneg_left hc' hC
  have h3 := rnd_rel M (C * c')
  have h4 : (1.2e-16 : ℝ) * |C * c'| ≤ 1.2e-16 * (C * (1 + d)) := mul_le_mul_of_nonneg_left h2 (by norm_num)
  have h5 : C * d ≤ C * 1e-14 := mul_le_mul_of_nonneg_left hd hC
  calc |M.rnd (C * c') - C * c| = |(M.rnd (C * c') - C * c') + (C * c' - C * c)| := by ring_nf
    _ ≤ |M.rnd (C * c') - C * c'| + |C * c' - C * c| := abs_add_le _ _
    _ ≤ _ := by nlinarith

/-! ## packaged forms used by `Props/C14_fp.lean` -/

/-- chroma written with `powi(2)` -/
theorem chroma_powi_close (a b : ℝ) :
    |M.rnd (√(M.rnd (RF.powi M a 2 + RF.powi M b 2))) - √(a ^ 2 + b ^ 2)| ≤ 6e-16 * √(a ^ 2 + b ^ 2) + 1e-100 :=
  sqrt_sum_close M (sq_nonneg a) (sq_nonneg b) (powi2_close M a) (powi2_close M b)

/-- chroma written with `x * x` -/
theorem chroma_mul_close (a b : ℝ) :
    |M.rnd (√(M.rnd (M.rnd (a * a) + M.rnd (b * b)))) - √(a ^ 2 + b ^ 2)| ≤ 6e-16 * √(a ^ 2 + b ^ 2) + 1e-100 :=
  sqrt_sum_close M (sq_nonneg a) (sq_nonneg b) (sq_close' M a) (sq_close' M b)

/-- the sharp bound implies the property's `1e-9` relative (read relative to `1 + chroma`) -/
theorem chroma_bound_weaken {c s : ℝ} (hs : 0 ≤ s) (h : |c - s| ≤ 6e-16 * s + 1e-100) :
    |c - s| ≤ 1e-15 * (1 + s) ∧ |c - s| ≤ 1e-9 * (1 + s) := by
  constructor <;> nlinarith

theorem abs_arg_le_four (z : ℂ) : |Complex.arg z| ≤ 4 :=
  le_trans (Complex.abs_arg_le_pi z) Real.pi_le_four

/-- libm `atan2` -/
theorem atan2_close (y x : ℝ) : |M.atan2 y x - Complex.arg ⟨x, y⟩| ≤ FP.eps * 8 := by
  have := ulp_close (M.atan2_err y x) (abs_arg_le_four _) (by norm_num)
  linarith

theorem atan2_close' (y x : ℝ) : |M.atan2 y x - Complex.arg ⟨x, y⟩| ≤ 1e-15 := by
  refine le_trans (atan2_close M y x) ?_
  norm_num [FP.eps]

/-- `atan2` converted to degrees by the code's helper -/
theorem deg_atan2_close (y x : ℝ) :
    |M.rnd (M.rnd (180 * M.atan2 y x) / M.rnd Real.pi) - Complex.arg ⟨x, y⟩ * 180 / Real.pi| ≤ 2e-13 :=
  deg_close M (atan2_close M y x) (Complex.abs_arg_le_pi _)

/-- the wrap `h + 360` of a computed negative angle -/
theorem add360_close {d H : ℝ} (hd : |d - H| ≤ 2e-13) (hH : |H| ≤ 180) :
    |M.rnd (d + 360) - (H + 360)| ≤ 3e-13 := by
  have h0 : |(360 : ℝ) - 360| ≤ 0 := by norm_num
  have hB : |H + 360| ≤ 540 := by
    have := abs_add_le H 360; norm_num at this ⊢; linarith
  have := add_close M hd h0 hB (by norm_num)
  refine le_trans this ?_
  norm_num [FP.eps]

/-- rounding does not cross `0` or `360`: the wrapped angle stays in `[0, 360]` -/
theorem add360_range {d : ℝ} (h1 : d ≤ 0) (h2 : -360 ≤ d) : 0 ≤ M.rnd (d + 360) ∧ M.rnd (d + 360) ≤ 360 := by
  constructor
  · exact rnd_nonneg M (by linarith)
  · have := rnd_le_nat M 360 (by norm_num) (x := d + 360) (by push_cast; linarith)
    simpa using this

/-! ## the generated angle helpers in `RF M` -/

theorem deg_val (t : RF M) :
    (Gen.F64.get_degree_from_radian t).val = M.rnd (M.rnd (180 * t.val) / M.rnd Real.pi) := by
  simp only [Gen.F64.get_degree_from_radian, FltRF.lit_val, FltRF.mul_val, FltRF.div_val, FltRF.pi_val]
  rw [lit_int M 180 (by norm_num)]
  simp only [Nat.cast_ofNat]

theorem rad_val (t : RF M) :
    (Gen.F64.get_radian_from_degree t).val = M.rnd (M.rnd (t.val * M.rnd Real.pi) / 180) := by
  simp only [Gen.F64.get_radian_from_degree, FltRF.lit_val, FltRF.mul_val, FltRF.div_val, FltRF.pi_val]
  rw [lit_int M 180 (by norm_num)]
  simp only [Nat.cast_ofNat]

/-- the code's degrees of the code's `atan2` against the exact angle in degrees -/
theorem deg_atan2_val_close (y x : RF M) :
    |(Gen.F64.get_degree_from_radian (Flt.atan2 y x)).val - Complex.arg ⟨x.val, y.val⟩ * 180 / Real.pi| ≤ 2e-13 := by
  rw [deg_val, FltRF.atan2_val]; exact deg_atan2_close M y.val x.val

/-- the code's radians of an exact degree value in `[0, 360]` -/
theorem rad_val_close (h : RF M) (h0 : 0 ≤ h.val) (h1 : h.val ≤ 360) :
    |(Gen.F64.get_radian_from_degree h).val - h.val * Real.pi / 180| ≤ 3e-15 := by
  rw [rad_val]; exact rad_close M h0 h1

theorem lit0_val (b : UInt64) : (Flt.lit b 0 1 : RF M).val = 0 := by
  rw [FltRF.lit_val, lit_int M 0 (by norm_num)]; simp

theorem lit360_val (b : UInt64) : (Flt.lit b 360 1 : RF M).val = 360 := by
  rw [FltRF.lit_val, lit_int M 360 (by norm_num)]; simp

/-- a computed angle within `2e-13` of an exact angle that is at least `1e-12` away from `0` has the
same sign: the wrap branch is stable -/
theorem sign_stable {d H : ℝ} (hd : |d - H| ≤ 2e-13) (hst : 1e-12 ≤ |H|) :
    (0 ≤ d ↔ 0 ≤ H) ∧ (0 < d ↔ 0 < H) ∧ (d < 0 ↔ H < 0) := by
  obtain ⟨h1, h2⟩ := abs_le.mp hd
  rcases le_abs.mp hst with h | h
  · refine ⟨⟨fun _ => by linarith, fun _ => by linarith⟩, ⟨fun _ => by linarith, fun _ => by linarith⟩,
      ⟨fun _ => by linarith, fun _ => by linarith⟩⟩
  · refine ⟨⟨fun _ => by linarith, fun _ => by linarith⟩, ⟨fun _ => by linarith, fun _ => by linarith⟩,
      ⟨fun _ => by linarith, fun _ => by linarith⟩⟩

/-- a model whose `atan2` returns the exact angle minus `η` (allowed by the 1-ulp bound of `FPModel`);
used to show that the side condition of the hue theorems cannot be dropped in this model class -/
noncomputable def atan2Low : FPModel := { FPModel.exact with
  atan2 := fun y x => Complex.arg ⟨x, y⟩ - FP.eta
  atan2_err := fun y x => by
    have h1 := FP.eta_pos
    have h2 := FP.u_pos
    have : |Complex.arg ⟨x, y⟩ - FP.eta - Complex.arg ⟨x, y⟩| = FP.eta := by
      rw [sub_sub_cancel_left, abs_neg, abs_of_pos h1]
    rw [this]
    have := mul_nonneg (mul_nonneg (by norm_num) h2.le : (0:ℝ) ≤ 2 * FP.u) (abs_nonneg (Complex.arg ⟨x, y⟩))
    linarith }

end FpPolar
