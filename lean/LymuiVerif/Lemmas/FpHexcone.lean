import LymuiVerif.Lemmas.FpErr
import LymuiVerif.Lemmas.Quant
import LymuiVerif.Props.C09
import LymuiVerif.Props.C13_rgbmodels
/-!
# Hexcone models (hue, HSL, HSV, HWB) in the rounded-arithmetic reading `RF M`

Helper lemmas for `Props/C09_fp.lean` and `Props/C13_fp_rgbmodels.lean`.  Everything is for an arbitrary
`M : FPModel`.  Facts used again and again:

* the channels are whole numbers `≤ 255`, so byte → float conversion, `max`, `min`, the differences
  `max - min`, `g - b`, … are EXACT (`rnd_natsub`): the grey test, the choice of the maximal channel and
  the black / white guards are decided as in ℝ;
* a quotient `p / d` with `|p| ≤ d` costs one rounding of a value of magnitude `≤ 1`;
* rounding never crosses a representable integer (`FpErr.rnd_le_nat`, `rnd_nonneg`), which gives the
  exact range statements.
-/
namespace FpHexcone
open FpErr Gen Props.C09

variable (M : FPModel)

/-! ## exact operations on whole numbers -/

/-- the difference of two bytes is computed exactly -/
theorem rnd_natsub (a b : ℕ) (ha : a ≤ 255) (hb : b ≤ 255) : M.rnd ((a : ℝ) - (b : ℝ)) = (a : ℝ) - (b : ℝ) := by
  have h1 : (a : ℝ) ≤ 255 := by exact_mod_cast ha
  have h2 : (b : ℝ) ≤ 255 := by exact_mod_cast hb
  have h3 : (0 : ℝ) ≤ (a : ℝ) := Nat.cast_nonneg a
  have h4 : (0 : ℝ) ≤ (b : ℝ) := Nat.cast_nonneg b
  have h := M.rnd_int ((a : ℤ) - (b : ℤ)) (by
    push_cast
    rw [abs_le]; constructor <;> linarith [show (0:ℝ) < 2 ^ 53 - 255 by norm_num])
  push_cast at h
  exact h

/-- the sharper quotient bound: the error of a quotient in terms of a bound `Bq` on the exact quotient -/
theorem div_exact_close_q {a b x y ea eb m Bq : ℝ} (ha : |a - x| ≤ ea) (hb : |b - y| ≤ eb)
    (hy : m ≤ |y|) (hm : eb < m) (hq : |x / y| ≤ Bq) :
    |a / b - x / y| ≤ (ea + eb * Bq) / (m - eb) := by
  have hea : 0 ≤ ea := le_trans (abs_nonneg _) ha
  have heb : 0 ≤ eb := le_trans (abs_nonneg _) hb
  have hm0 : 0 < m := lt_of_le_of_lt heb hm
  have hy0 : y ≠ 0 := fun h => by rw [h, abs_zero] at hy; linarith
  have hbabs : m - eb ≤ |b| := by
    have := abs_sub_abs_le_abs_sub y b
    rw [abs_sub_comm] at this; linarith
  have hmb : 0 < m - eb := by linarith
  have hb0 : b ≠ 0 := fun h => by rw [h, abs_zero] at hbabs; linarith
  have e : a / b - x / y = ((a - x) - (x / y) * (b - y)) / b := by
    field_simp; ring
  rw [e, abs_div]
  have hnum : |(a - x) - (x / y) * (b - y)| ≤ ea + eb * Bq := by
    have h2 : |(x / y) * (b - y)| ≤ eb * Bq := by
      rw [abs_mul, mul_comm]; exact mul_le_mul hb hq (abs_nonneg _) heb
    have := abs_sub (a - x) ((x / y) * (b - y))
    linarith
  have hBq : 0 ≤ Bq := le_trans (abs_nonneg _) hq
  calc |(a - x) - (x / y) * (b - y)| / |b| ≤ (ea + eb * Bq) / |b| :=
        div_le_div_of_nonneg_right hnum (abs_nonneg _)
    _ ≤ (ea + eb * Bq) / (m - eb) :=
        div_le_div_of_nonneg_left (by positivity) hmb hbabs

theorem div_close_q {a b x y ea eb m Bq : ℝ} (ha : |a - x| ≤ ea) (hb : |b - y| ≤ eb)
    (hy : m ≤ |y|) (hm : eb < m) (hq : |x / y| ≤ Bq) (hB1 : 1e-200 ≤ Bq) :
    |M.rnd (a / b) - x / y| ≤ (ea + eb * Bq) / (m - eb) + FP.eps * (Bq + (ea + eb * Bq) / (m - eb)) :=
  rnd_close M (div_exact_close_q ha hb hy hm hq) hq hB1

/-- one rounded quotient of magnitude at most one -/
theorem q_close {p d : ℝ} (hd : 0 < d) (hp : |p| ≤ d) : |M.rnd (p / d) - p / d| ≤ FP.eps := by
  have h : |p / d| ≤ 1 := by rw [abs_div, abs_of_pos hd]; exact (div_le_one hd).mpr hp
  simpa using rnd_abs M h (by norm_num)

/-- multiplication by the exact constant 100 -/
theorem scale100 {a x e : ℝ} (h : |a - x| ≤ e) (hx : |x| ≤ 1) :
    |M.rnd (a * 100) - x * 100| ≤ 100 * e + FP.eps * (100 + 100 * e) := by
  have h100 : |(100 : ℝ) - 100| ≤ 0 := by simp
  have := mul_close M h h100 hx (by norm_num : |(100 : ℝ)| ≤ 100) (by norm_num)
  refine le_trans this (le_of_eq ?_); ring

/-! ## the hexcone angle before `round` -/

/-- red sector, `g ≥ b` -/
theorem hue_red_nonneg {p d : ℝ} (hd : 0 < d) (hp0 : 0 ≤ p) (hp : p ≤ d) :
    0 ≤ M.rnd (M.rnd (p / d) * 60) ∧ |M.rnd (M.rnd (p / d) * 60) - 60 * (p / d)| ≤ 1e-13 := by
  have hq0 : 0 ≤ p / d := div_nonneg hp0 hd.le
  have hq1 : p / d ≤ 1 := (div_le_one hd).mpr hp
  refine ⟨rnd_nonneg M (mul_nonneg (rnd_nonneg M hq0) (by norm_num)), ?_⟩
  have q := q_close M hd (by rwa [abs_of_nonneg hp0])
  have h60 : |(60 : ℝ) - 60| ≤ 0 := by simp
  have m := mul_close M q h60 (Bx := 1) (By := 60) (by rw [abs_of_nonneg hq0]; exact hq1) (by norm_num) (by norm_num)
  rw [mul_comm 60 (p / d)]
  refine le_trans m ?_
  norm_num [FP.eps]

/-- red sector, `g < b`: the test `hue < 0` succeeds and `360` is added -/
theorem hue_red_neg {p d : ℝ} (hd : 0 < d) (hd255 : d ≤ 255) (hp1 : p ≤ -1) (hp : -d ≤ p) :
    M.rnd (M.rnd (p / d) * 60) < 0 ∧
      |M.rnd (M.rnd (M.rnd (p / d) * 60) + 360) - (60 * (p / d) + 360)| ≤ 1e-12 := by
  have hq0 : p / d ≤ -(1 / 255) := by
    rw [div_le_iff₀ hd]; nlinarith
  have hq1 : -1 ≤ p / d := by rw [le_div_iff₀ hd]; linarith
  have habs : |p / d| ≤ 1 := by rw [abs_le]; constructor <;> linarith
  have q := q_close M (p := p) hd (by rw [abs_le]; constructor <;> linarith)
  have h60 : |(60 : ℝ) - 60| ≤ 0 := by simp
  have m := mul_close M q h60 (Bx := 1) (By := 60) habs (by norm_num) (by norm_num)
  have m' : |M.rnd (M.rnd (p / d) * 60) - p / d * 60| ≤ 2e-14 := by
    refine le_trans m ?_; norm_num [FP.eps]
  constructor
  · rw [abs_le] at m'; linarith [m'.2]
  · have h360 : |(360 : ℝ) - 360| ≤ 0 := by simp
    have hB : |p / d * 60 + 360| ≤ 360 := by rw [abs_le]; constructor <;> linarith
    have s := add_close M m' h360 hB (by norm_num)
    rw [mul_comm 60 (p / d)]
    refine le_trans s ?_
    norm_num [FP.eps]

/-- green (`k = 2`) and blue (`k = 4`) sectors: the test `hue < 0` fails -/
theorem hue_k {p d k : ℝ} (hd : 0 < d) (hp : |p| ≤ d) (hk2 : 2 ≤ k) (hk4 : k ≤ 4) :
    ¬ M.rnd (M.rnd (k + M.rnd (p / d)) * 60) < 0 ∧
      |M.rnd (M.rnd (k + M.rnd (p / d)) * 60) - 60 * (k + p / d)| ≤ 1e-12 := by
  have habs : |p / d| ≤ 1 := by rw [abs_div, abs_of_pos hd]; exact (div_le_one hd).mpr hp
  have q := q_close M hd hp
  have hqq := abs_le.mp habs
  have hq' := abs_le.mp q
  have e16 : FP.eps = 1.2e-16 := rfl
  constructor
  · rw [not_lt]
    refine rnd_nonneg M (mul_nonneg (rnd_nonneg M ?_) (by norm_num))
    linarith [hq'.1, hqq.1]
  · have hk : |k - k| ≤ 0 := by simp
    have hB : |k + p / d| ≤ 5 := by rw [abs_le]; constructor <;> linarith [hqq.1, hqq.2]
    have s := add_close M hk q hB (by norm_num)
    have s' : |M.rnd (k + M.rnd (p / d)) - (k + p / d)| ≤ 1e-15 := by
      refine le_trans s ?_; norm_num [FP.eps]
    have h60 : |(60 : ℝ) - 60| ≤ 0 := by simp
    have m := mul_close M s' h60 hB (by norm_num : |(60 : ℝ)| ≤ 60) (by norm_num)
    rw [mul_comm 60 (k + p / d)]
    refine le_trans m ?_
    norm_num [FP.eps]


/-! ## `round` near a whole number -/

/-- a real above `-1/2` rounds (half away from zero) to a natural number within one half -/
theorem roundHA_nat' {x : ℝ} (h : -(1 / 2) < x) :
    ∃ k : ℕ, Real.roundHA x = k ∧ (k : ℝ) ≤ x + 1 / 2 ∧ x - 1 / 2 < k := by
  rcases le_or_gt 0 x with h0 | h0
  · exact QuantA2.roundHA_nat h0
  · refine ⟨0, ?_, by push_cast; linarith, by push_cast; linarith⟩
    have : ⌊-x + 1 / 2⌋ = 0 := by
      rw [Int.floor_eq_iff]; constructor <;> push_cast <;> linarith
    unfold Real.roundHA
    rw [if_neg (not_le.mpr h0), this]; simp

/-- away from the half-integers `round` is locally constant -/
theorem roundHA_stable {a e δ : ℝ} (ha : 0 ≤ a)
    (hfar : ∀ n : ℤ, δ < |a - ((n : ℝ) + 1 / 2)|) (he : |e| ≤ δ) :
    Real.roundHA (a + e) = Real.roundHA a := by
  obtain ⟨k, hk, h1, h2⟩ := QuantA2.roundHA_nat ha
  have f1 := hfar (k : ℤ)
  have f2 := hfar ((k : ℤ) - 1)
  push_cast at f1 f2
  rw [abs_of_nonpos (by linarith)] at f1
  rw [abs_of_nonneg (by linarith)] at f2
  have he' := abs_le.mp he
  rw [hk, show a + e = (k : ℝ) + (a - k + e) by ring]
  exact Quant.roundHA_natCast_add (by rw [abs_lt]; constructor <;> linarith [he'.1, he'.2])

/-! ## the generated hue function -/

/-- `max`, `min` and byte → float are exact: the code's `(min, max)` are `cmin`, `cmax` as in ℝ -/
theorem get_min_max_rf (c : Rgb) : Rgb.get_min_max (α := RF M) c = (⟨cmin c⟩, ⟨cmax c⟩) := by
  simp only [Rgb.get_min_max, Rgb.as_f64, cmin, cmax]
  refine Prod.ext (RF.ext' ?_) (RF.ext' ?_)
  · simp only [FltRF.min_val, FltRF.ofNat_val]; rw [min_comm]
  · simp only [FltRF.max_val, FltRF.ofNat_val]; rw [max_comm]

/-- the value handed to `round` is within `1e-12` of the exact hexcone angle; the sign test of the red
sector is decided as in ℝ (`|g - b| / d ≥ 1/255` when non-zero), the sign tests of the green and blue sectors fail -/
theorem hue_val (c : Rgb) (hr : c.r ≤ 255) (hg : c.g ≤ 255) (hb : c.b ≤ 255) :
    ∃ v : ℝ, |v - hexAngle c| ≤ 1e-12 ∧
      (F64.from_Rgb (α := RF M) c).val = Flt.rem (Real.roundHA v) (360 : ℝ) := by
  obtain ⟨b0, b1, b2⟩ := cmin_cmax_bounds c hr hg hb
  obtain ⟨⟨m1, m2, m3⟩, ⟨M1, M2, M3⟩⟩ := channel_bounds c
  obtain ⟨em, eM⟩ := cmin_cmax_nat c
  have xd : M.rnd (cmax c - cmin c) = cmax c - cmin c := by
    rw [em, eM]; exact rnd_natsub M _ _ (by omega) (by omega)
  have xgb := rnd_natsub M c.g c.b hg hb
  have xbr := rnd_natsub M c.b c.r hb hr
  have xrg := rnd_natsub M c.r c.g hr hg
  -- integrality: a non-zero difference of channels is at least one
  have hd1 : cmax c ≠ cmin c → 1 ≤ cmax c - cmin c := by
    intro h
    rw [em, eM] at h ⊢
    have h' : min (min c.r c.g) c.b < max (max c.r c.g) c.b := by
      rcases Nat.lt_or_ge (min (min c.r c.g) c.b) (max (max c.r c.g) c.b) with h1 | h1
      · exact h1
      · exfalso; apply h; congr 1; omega
    have : ((min (min c.r c.g) c.b : ℕ) : ℝ) + 1 ≤ ((max (max c.r c.g) c.b : ℕ) : ℝ) := by exact_mod_cast h'
    linarith
  have hgb1 : (c.g : ℝ) - c.b < 0 → (c.g : ℝ) - c.b ≤ -1 := by
    intro h
    have h' : c.g < c.b := by exact_mod_cast (by linarith : (c.g : ℝ) < c.b)
    have : (c.g : ℝ) + 1 ≤ c.b := by exact_mod_cast h'
    linarith
  unfold F64.from_Rgb
  simp only [get_min_max_rf, Rgb.as_f64, apply_ite RF.val, FltRF.lit_val, FltRF.beq_eq, FltRF.lt_eq, FltRF.ofNat_val,
    FltRF.round_val, FltRF.rem_val, FltRF.sub_val, FltRF.div_val, FltRF.mul_val, FltRF.add_val,
    decide_eq_true_eq, lit_int M 0 (by norm_num), lit_int M 60 (by norm_num), lit_int M 360 (by norm_num),
    lit_int M 2 (by norm_num), lit_int M 4 (by norm_num)]
  simp only [Nat.cast_ofNat, Nat.cast_zero, xd, xgb, xbr, xrg, FltReal.rem_eq]
  unfold hexAngle
  simp only []
  generalize cmax c = Mx at *; generalize cmin c = mn at *
  generalize (c.r : ℝ) = r at *; generalize (c.g : ℝ) = g at *; generalize (c.b : ℝ) = b at *
  by_cases h0 : Mx = mn
  · have h0' : mn = Mx := h0.symm
    rw [if_pos h0', if_pos h0]
    refine ⟨0, by norm_num, ?_⟩
    simp [Quant.roundHA_zero, Real.truncZ]
  · have h0' : ¬ mn = Mx := fun h => h0 h.symm
    have hd := hd1 h0
    have hdpos : 0 < Mx - mn := by linarith
    rw [if_neg h0', if_neg h0]
    by_cases h1 : Mx = r
    · rw [if_pos h1, if_pos h1]
      by_cases hs : g - b < 0
      · obtain ⟨k1, k2⟩ := hue_red_neg M hdpos (by linarith) (hgb1 hs) (by linarith)
        have hneg : 60 * ((g - b) / (Mx - mn)) < 0 := by
          have : (g - b) / (Mx - mn) < 0 := div_neg_of_neg_of_pos hs hdpos
          linarith
        rw [if_pos k1, if_pos hneg]
        exact ⟨_, k2, rfl⟩
      · rw [not_lt] at hs
        obtain ⟨k1, k2⟩ := hue_red_nonneg M hdpos hs (by linarith)
        have hnn : ¬ 60 * ((g - b) / (Mx - mn)) < 0 := by
          have : 0 ≤ (g - b) / (Mx - mn) := div_nonneg hs hdpos.le
          linarith
        rw [if_neg (not_lt.mpr k1), if_neg hnn]
        exact ⟨_, le_trans k2 (by norm_num), rfl⟩
    · rw [if_neg h1, if_neg h1]
      by_cases h2 : Mx = g
      · rw [if_pos h2, if_pos h2]
        obtain ⟨k1, k2⟩ := hue_k M (p := b - r) (k := 2) hdpos (by rw [abs_le]; constructor <;> linarith)
          (by norm_num) (by norm_num)
        rw [if_neg k1]
        exact ⟨_, k2, rfl⟩
      · rw [if_neg h2, if_neg h2]
        obtain ⟨k1, k2⟩ := hue_k M (p := r - g) (k := 4) hdpos (by rw [abs_le]; constructor <;> linarith)
          (by norm_num) (by norm_num)
        rw [if_neg k1]
        exact ⟨_, k2, rfl⟩

/-! ## HSL -/

/-- a byte divided by 255, rounded: in `[0,1]`, within `eps` of the quotient -/
theorem unit_close (n : ℕ) (hn : n ≤ 255) :
    0 ≤ M.rnd ((n : ℝ) / 255) ∧ M.rnd ((n : ℝ) / 255) ≤ 1 ∧ |M.rnd ((n : ℝ) / 255) - (n : ℝ) / 255| ≤ FP.eps := by
  have h1 : (n : ℝ) ≤ 255 := by exact_mod_cast hn
  have h0 : (0 : ℝ) ≤ n := Nat.cast_nonneg n
  have hq1 : (n : ℝ) / 255 ≤ 1 := by rw [div_le_one (by norm_num)]; exact h1
  refine ⟨rnd_nonneg M (by positivity), rnd_le_one M hq1, ?_⟩
  exact q_close M (by norm_num) (by rw [abs_of_nonneg h0]; exact h1)

/-- lightness in `0..1`: `(min' + max') / 2` -/
theorem l_close {a b a' b' : ℝ} (ha0 : 0 ≤ a) (hab : a ≤ b) (hb1 : b ≤ 1)
    (ha : |a' - a| ≤ FP.eps) (hb : |b' - b| ≤ FP.eps) (ha'0 : 0 ≤ a') (ha'1 : a' ≤ 1) (hb'0 : 0 ≤ b') (hb'1 : b' ≤ 1) :
    0 ≤ M.rnd (M.rnd (a' + b') / 2) ∧ M.rnd (M.rnd (a' + b') / 2) ≤ 1 ∧
      |M.rnd (M.rnd (a' + b') / 2) - (a + b) / 2| ≤ 1e-15 := by
  have s0 : 0 ≤ M.rnd (a' + b') := rnd_nonneg M (by linarith)
  have s2 : M.rnd (a' + b') ≤ 2 := by
    have := rnd_le_nat M 2 (by norm_num) (x := a' + b') (by push_cast; linarith)
    simpa using this
  refine ⟨rnd_nonneg M (by linarith), rnd_le_one M (by linarith), ?_⟩
  have hB : |a + b| ≤ 2 := by rw [abs_le]; constructor <;> linarith
  have s := add_close M ha hb hB (by norm_num)
  have s' : |M.rnd (a' + b') - (a + b)| ≤ 5e-16 := by refine le_trans s ?_; norm_num [FP.eps]
  have h2 : |(2 : ℝ) - 2| ≤ 0 := by simp
  have hq : |(a + b) / 2| ≤ 1 := by rw [abs_le]; constructor <;> linarith
  have d := div_close_q M s' h2 (m := 2) (Bq := 1) (by norm_num) (by norm_num) hq (by norm_num)
  refine le_trans d ?_; norm_num [FP.eps]

/-- saturation, upper half (`l > 1/2`): `(max' - min') / ((2 - max') - min')` -/
theorem sat_A {a b a' b' : ℝ} (ha0 : 0 ≤ a) (hab : a ≤ b) (hb1 : b ≤ 1) (hden : 1 / 255 ≤ 2 - b - a)
    (ha : |a' - a| ≤ FP.eps) (hb : |b' - b| ≤ FP.eps) (hab' : a' ≤ b') (hb'1 : b' ≤ 1) :
    0 ≤ M.rnd (M.rnd (b' - a') / M.rnd (M.rnd (2 - b') - a')) ∧
      M.rnd (M.rnd (b' - a') / M.rnd (M.rnd (2 - b') - a')) ≤ 1 ∧
      |M.rnd (M.rnd (b' - a') / M.rnd (M.rnd (2 - b') - a')) - (b - a) / (2 - b - a)| ≤ 4e-13 := by
  have hB : |b - a| ≤ 1 := by rw [abs_le]; constructor <;> linarith
  have n := sub_close M hb ha hB (by norm_num)
  have n' : |M.rnd (b' - a') - (b - a)| ≤ 4e-16 := by refine le_trans n ?_; norm_num [FP.eps]
  have h2 : |(2 : ℝ) - 2| ≤ 0 := by simp
  have hB2 : |2 - b| ≤ 2 := by rw [abs_le]; constructor <;> linarith
  have t := sub_close M h2 hb hB2 (by norm_num)
  have t' : |M.rnd (2 - b') - (2 - b)| ≤ 4e-16 := by refine le_trans t ?_; norm_num [FP.eps]
  have hB3 : |2 - b - a| ≤ 2 := by rw [abs_le]; constructor <;> linarith
  have d := sub_close M t' ha hB3 (by norm_num)
  have d' : |M.rnd (M.rnd (2 - b') - a') - (2 - b - a)| ≤ 8e-16 := by refine le_trans d ?_; norm_num [FP.eps]
  have hq0 : 0 ≤ (b - a) / (2 - b - a) := div_nonneg (by linarith) (by linarith)
  have hq1 : (b - a) / (2 - b - a) ≤ 1 := by rw [div_le_one (by linarith)]; linarith
  have hq : |(b - a) / (2 - b - a)| ≤ 1 := by rw [abs_of_nonneg hq0]; exact hq1
  have hy : 1 / 255 ≤ |2 - b - a| := by rw [abs_of_nonneg (by linarith)]; exact hden
  have q := div_close_q M n' d' hy (by norm_num) hq (by norm_num)
  -- range: numerator ≤ denominator, denominator positive
  have num0 : 0 ≤ M.rnd (b' - a') := rnd_nonneg M (by linarith)
  have one_le : 1 ≤ M.rnd (2 - b') := by
    have := nat_le_rnd M 1 (by norm_num) (x := 2 - b') (by push_cast; linarith)
    simpa using this
  have numden : M.rnd (b' - a') ≤ M.rnd (M.rnd (2 - b') - a') := M.rnd_mono (by linarith)
  have denpos : 0 < M.rnd (M.rnd (2 - b') - a') := by
    have := (abs_le.mp d').1
    have : (0 : ℝ) < 1 / 255 - 8e-16 := by norm_num
    linarith
  refine ⟨rnd_nonneg M (div_nonneg num0 denpos.le), rnd_le_one M ((div_le_one denpos).mpr numden), ?_⟩
  refine le_trans q ?_; norm_num [FP.eps]

/-- saturation, lower half (`l ≤ 1/2`): `(max' - min') / (max' + min')` -/
theorem sat_B {a b a' b' : ℝ} (ha0 : 0 ≤ a) (hab : a ≤ b) (hb1 : b ≤ 1) (hden : 1 / 255 ≤ b + a)
    (ha : |a' - a| ≤ FP.eps) (hb : |b' - b| ≤ FP.eps) (ha'0 : 0 ≤ a') (hab' : a' ≤ b') :
    0 ≤ M.rnd (M.rnd (b' - a') / M.rnd (b' + a')) ∧
      M.rnd (M.rnd (b' - a') / M.rnd (b' + a')) ≤ 1 ∧
      |M.rnd (M.rnd (b' - a') / M.rnd (b' + a')) - (b - a) / (b + a)| ≤ 4e-13 := by
  have hB : |b - a| ≤ 1 := by rw [abs_le]; constructor <;> linarith
  have n := sub_close M hb ha hB (by norm_num)
  have n' : |M.rnd (b' - a') - (b - a)| ≤ 4e-16 := by refine le_trans n ?_; norm_num [FP.eps]
  have hB3 : |b + a| ≤ 2 := by rw [abs_le]; constructor <;> linarith
  have d := add_close M hb ha hB3 (by norm_num)
  have d' : |M.rnd (b' + a') - (b + a)| ≤ 8e-16 := by refine le_trans d ?_; norm_num [FP.eps]
  have hq0 : 0 ≤ (b - a) / (b + a) := div_nonneg (by linarith) (by linarith)
  have hq1 : (b - a) / (b + a) ≤ 1 := by rw [div_le_one (by linarith)]; linarith
  have hq : |(b - a) / (b + a)| ≤ 1 := by rw [abs_of_nonneg hq0]; exact hq1
  have hy : 1 / 255 ≤ |b + a| := by rw [abs_of_nonneg (by linarith)]; exact hden
  have q := div_close_q M n' d' hy (by norm_num) hq (by norm_num)
  have num0 : 0 ≤ M.rnd (b' - a') := rnd_nonneg M (by linarith)
  have numden : M.rnd (b' - a') ≤ M.rnd (b' + a') := M.rnd_mono (by linarith)
  have denpos : 0 < M.rnd (b' + a') := by
    have := (abs_le.mp d').1
    have : (0 : ℝ) < 1 / 255 - 8e-16 := by norm_num
    linarith
  refine ⟨rnd_nonneg M (div_nonneg num0 denpos.le), rnd_le_one M ((div_le_one denpos).mpr numden), ?_⟩
  refine le_trans q ?_; norm_num [FP.eps]

/-- the generated `Hsl::compute_saturation` on `min/255`, `max/255` and a lightness within `1e-15` of `(min+max)/510`:
in `[0,1]` EXACTLY and within `4e-13` of the standard HSL saturation.  The black guard (`max == 0`), the white guard
(`max != 1 || min != 1`) are decided as in ℝ; the test `l > 0.5` can only be decided differently from ℝ when
`min + max = 255`, where the two branches agree. -/
theorem sat_val (n m : ℕ) (hnm : n ≤ m) (hm : m ≤ 255) (a' b' l : RF M)
    (ha' : a'.val = M.rnd ((n : ℝ) / 255)) (hb' : b'.val = M.rnd ((m : ℝ) / 255))
    (hl : |l.val - ((n : ℝ) / 255 + (m : ℝ) / 255) / 2| ≤ 1e-15) :
    0 ≤ (Hsl.compute_saturation a' b' l).val ∧
    (Hsl.compute_saturation a' b' l).val ≤ 1 ∧
    |(Hsl.compute_saturation a' b' l).val -
      (if (m : ℝ) = n then 0 else (((m : ℝ) - n) / 255) / (1 - |2 * (((m : ℝ) + n) / 2 / 255) - 1|))| ≤ 4e-13 := by
  obtain ⟨av⟩ := a'
  obtain ⟨bv⟩ := b'
  simp only at ha' hb'
  subst ha' hb'
  have hn : n ≤ 255 := le_trans hnm hm
  obtain ⟨a0, a1, ae⟩ := unit_close M n hn
  obtain ⟨b0, b1, be⟩ := unit_close M m hm
  have hn0 : (0 : ℝ) ≤ n := Nat.cast_nonneg n
  have hnm' : (n : ℝ) ≤ m := by exact_mod_cast hnm
  have hm' : (m : ℝ) ≤ 255 := by exact_mod_cast hm
  have hab' : M.rnd ((n : ℝ) / 255) ≤ M.rnd ((m : ℝ) / 255) := M.rnd_mono (by linarith)
  unfold Hsl.compute_saturation
  simp only [apply_ite RF.val, FltRF.lit_val, FltRF.beq_eq, FltRF.lt_eq,
    FltRF.sub_val, FltRF.div_val, FltRF.add_val,
    decide_eq_true_eq, lit_int M 0 (by norm_num), lit_int M 1 (by norm_num),
    lit_int M 2 (by norm_num), Bool.not_eq_true', decide_eq_false_iff_not]
  simp only [Nat.cast_ofNat, Nat.cast_zero, Nat.cast_one]
  by_cases hgrey : m = n
  · subst hgrey
    simp only [sub_self, rnd_zero, zero_div, ite_self, abs_zero]
    norm_num
  · have hlt : n < m := lt_of_le_of_ne hnm (Ne.symm hgrey)
    have hgrey' : ¬ (m : ℝ) = n := by exact_mod_cast hgrey
    have hm1 : (1 : ℝ) ≤ m := by exact_mod_cast (by omega : 1 ≤ m)
    have hn254 : (n : ℝ) ≤ 254 := by exact_mod_cast (by omega : n ≤ 254)
    have e16 : FP.eps = 1.2e-16 := rfl
    have bne0 : ¬ M.rnd ((m : ℝ) / 255) = 0 := by
      intro h; rw [h] at be
      have := (abs_le.mp be).1
      have : (1 : ℝ) / 255 ≤ m / 255 := by apply div_le_div_of_nonneg_right hm1; norm_num
      rw [e16] at *; norm_num at *; linarith
    have ane1 : ¬ M.rnd ((n : ℝ) / 255) = 1 := by
      intro h; rw [h] at ae
      have := (abs_le.mp ae).2
      have : (n : ℝ) / 255 ≤ 254 / 255 := by apply div_le_div_of_nonneg_right hn254; norm_num
      rw [e16] at *; norm_num at *; linarith
    simp only [bne0, ane1, if_false, not_false_eq_true, if_true, ite_self, hgrey']
    have hhalf := lit_close M 1 2 (B := 1) (by norm_num) (by norm_num)
    simp only [Nat.cast_one, Nat.cast_ofNat] at hhalf
    have hl' := abs_le.mp hl
    have hh := abs_le.mp hhalf
    by_cases ht : M.rnd (1 / 2) < l.val
    · simp only [if_pos ht]
      have hsum : (255 : ℝ) ≤ m + n := by
        by_contra hc
        have h1 : m + n ≤ 254 := by
          have : (m : ℝ) + n < 255 := not_le.mp hc
          have : m + n < 255 := by exact_mod_cast this
          omega
        have h2 : (m : ℝ) + n ≤ 254 := by exact_mod_cast h1
        rw [e16] at hh
        linarith [hl'.2, hh.1]
      obtain ⟨r0, r1, r2⟩ := sat_A M (a := (n : ℝ) / 255) (b := (m : ℝ) / 255) (by positivity) (by linarith) (by linarith)
        (by linarith) ae be hab' b1
      refine ⟨r0, r1, ?_⟩
      have e : ((m : ℝ) - n) / 255 / (1 - |2 * (((m : ℝ) + n) / 2 / 255) - 1|) =
          ((m : ℝ) / 255 - (n : ℝ) / 255) / (2 - (m : ℝ) / 255 - (n : ℝ) / 255) := by
        rw [abs_of_nonneg (by linarith)]; congr 1 <;> ring
      rw [e]; exact r2
    · simp only [if_neg ht]
      have hsum : (m : ℝ) + n ≤ 255 := by
        by_contra hc
        have h1 : 256 ≤ m + n := by
          have : (255 : ℝ) < (m : ℝ) + n := not_le.mp hc
          have : 255 < m + n := by exact_mod_cast this
          omega
        have h2 : (256 : ℝ) ≤ (m : ℝ) + n := by exact_mod_cast h1
        rw [e16] at hh
        apply ht
        linarith [hl'.1, hh.2]
      obtain ⟨r0, r1, r2⟩ := sat_B M (a := (n : ℝ) / 255) (b := (m : ℝ) / 255) (by positivity) (by linarith) (by linarith)
        (by linarith) ae be a0 hab'
      refine ⟨r0, r1, ?_⟩
      have e : ((m : ℝ) - n) / 255 / (1 - |2 * (((m : ℝ) + n) / 2 / 255) - 1|) =
          ((m : ℝ) / 255 - (n : ℝ) / 255) / ((m : ℝ) / 255 + (n : ℝ) / 255) := by
        rw [abs_of_nonpos (by linarith)]; congr 1 <;> ring
      rw [e]; exact r2

/-- the generated `Hsl::from(Rgb)`: saturation and lightness in `[0,100]` EXACTLY, within `1e-10` / `1e-12` of the
standard formulas -/
theorem hsl_fields (c : Rgb) (hr : c.r ≤ 255) (hg : c.g ≤ 255) (hb : c.b ≤ 255) :
    (0 ≤ (Hsl.from_Rgb (α := RF M) c).s.val ∧ (Hsl.from_Rgb (α := RF M) c).s.val ≤ 100 ∧
      |(Hsl.from_Rgb (α := RF M) c).s.val - stdSHsl c * 100| ≤ 1e-10) ∧
    (0 ≤ (Hsl.from_Rgb (α := RF M) c).l.val ∧ (Hsl.from_Rgb (α := RF M) c).l.val ≤ 100 ∧
      |(Hsl.from_Rgb (α := RF M) c).l.val - stdL c * 100| ≤ 1e-12) := by
  obtain ⟨b0, b1, b2⟩ := cmin_cmax_bounds c hr hg hb
  obtain ⟨em, eM⟩ := cmin_cmax_nat c
  have hS : |stdSHsl c| ≤ 1 := by
    obtain ⟨_, h0, h1, _, _⟩ := Props.C13_rgbmodels.hsl_range c hr hg hb
    rw [(hsl_forward c hr hg hb).2.1] at h0 h1
    rw [abs_le]; constructor <;> linarith
  have hnm : min (min c.r c.g) c.b ≤ max (max c.r c.g) c.b := by omega
  have hm : max (max c.r c.g) c.b ≤ 255 := by omega
  simp only [Hsl.from_Rgb, get_min_max_rf]
  generalize min (min c.r c.g) c.b = n at *
  generalize max (max c.r c.g) c.b = m at *
  have hn : n ≤ 255 := le_trans hnm hm
  have ha' : ((⟨cmin c⟩ : RF M) / Flt.lit 0x406FE00000000000 255 1).val = M.rnd ((n : ℝ) / 255) := by
    rw [FltRF.div_val, FltRF.lit_val, lit_int M 255 (by norm_num), em]; norm_num
  have hb' : ((⟨cmax c⟩ : RF M) / Flt.lit 0x406FE00000000000 255 1).val = M.rnd ((m : ℝ) / 255) := by
    rw [FltRF.div_val, FltRF.lit_val, lit_int M 255 (by norm_num), eM]; norm_num
  generalize ((⟨cmin c⟩ : RF M) / Flt.lit 0x406FE00000000000 255 1) = a' at *
  generalize ((⟨cmax c⟩ : RF M) / Flt.lit 0x406FE00000000000 255 1) = b' at *
  obtain ⟨a0, a1, ae⟩ := unit_close M n hn
  obtain ⟨c0, c1, ce⟩ := unit_close M m hm
  have hn0 : (0 : ℝ) ≤ n := Nat.cast_nonneg n
  have hnm' : (n : ℝ) ≤ m := by exact_mod_cast hnm
  have hm' : (m : ℝ) ≤ 255 := by exact_mod_cast hm
  have hlv : ((a' + b') / Flt.lit 0x4000000000000000 2 1 : RF M).val = M.rnd (M.rnd (M.rnd ((n : ℝ) / 255) + M.rnd ((m : ℝ) / 255)) / 2) := by
    rw [FltRF.div_val, FltRF.add_val, FltRF.lit_val, lit_int M 2 (by norm_num), ha', hb']; norm_num
  obtain ⟨l0, l1, le⟩ := l_close M (a := (n : ℝ) / 255) (b := (m : ℝ) / 255) (by positivity) (by linarith) (by linarith)
    ae ce a0 a1 c0 c1
  rw [← hlv] at l0 l1 le
  obtain ⟨s0, s1, se⟩ := sat_val M n m hnm hm a' b' _ ha' hb' le
  generalize ((a' + b') / Flt.lit 0x4000000000000000 2 1 : RF M) = l at *
  simp only [FltRF.mul_val, FltRF.lit_val, lit_int M 100 (by norm_num)]
  simp only [Nat.cast_ofNat]
  have hL : |((n : ℝ) / 255 + (m : ℝ) / 255) / 2| ≤ 1 := by
    rw [abs_le]; constructor <;> linarith
  have eL : stdL c * 100 = ((n : ℝ) / 255 + (m : ℝ) / 255) / 2 * 100 := by
    unfold stdL; rw [em, eM]; ring
  have eS : stdSHsl c = (if (m : ℝ) = n then 0 else (((m : ℝ) - n) / 255) / (1 - |2 * (((m : ℝ) + n) / 2 / 255) - 1|)) := by
    unfold stdSHsl stdL; rw [em, eM]
  rw [eS] at hS
  rw [eL, eS]
  have x100 : ∀ {x : ℝ}, 0 ≤ x → x ≤ 1 → 0 ≤ M.rnd (x * 100) ∧ M.rnd (x * 100) ≤ 100 := by
    intro x h0 h1
    refine ⟨rnd_nonneg M (by linarith), ?_⟩
    have := rnd_le_nat M 100 (by norm_num) (x := x * 100) (by push_cast; linarith)
    simpa using this
  refine ⟨⟨(x100 s0 s1).1, (x100 s0 s1).2, ?_⟩, ⟨(x100 l0 l1).1, (x100 l0 l1).2, ?_⟩⟩
  · refine le_trans (scale100 M se hS) ?_
    norm_num [FP.eps]
  · refine le_trans (scale100 M le hL) ?_
    norm_num [FP.eps]

/-! ### the divisions of `compute_saturation` are never by zero

(rule 6 of the brief: `sat_val` is not true by the totalised `x / 0 = 0`; for a grey the quotient is `0 / den` with
`den > 0`.  The other divisions of the hexcone code: `max - min ≥ 1` exactly in the hue, `max > 0` is the guard of the HSV
saturation, the literals `255`, `2`, `100`.) -/

/-- no division by zero (1): under the black guard (`max ≠ 0`) the denominator `max' + min'` of the lower-half
saturation is positive in every model — also for greys, where the numerator is `0` -/
theorem den_B_pos (n m : ℕ) (hnm : n ≤ m) (hm : m ≤ 255) (hm1 : 1 ≤ m) :
    0 < M.rnd (M.rnd ((m : ℝ) / 255) + M.rnd ((n : ℝ) / 255)) := by
  obtain ⟨a0, a1, ae⟩ := unit_close M n (le_trans hnm hm)
  obtain ⟨c0, c1, ce⟩ := unit_close M m hm
  have hm1' : (1 : ℝ) ≤ m := by exact_mod_cast hm1
  have h1 : (1 : ℝ) / 255 ≤ m / 255 := by apply div_le_div_of_nonneg_right hm1'; norm_num
  have e16 : FP.eps = 1.2e-16 := rfl
  have hx : |M.rnd ((m : ℝ) / 255) + M.rnd ((n : ℝ) / 255)| ≤ 2 := by
    rw [abs_of_nonneg (by linarith)]; linarith
  have r := abs_le.mp (rnd_abs M hx (by norm_num))
  have := (abs_le.mp ce).1
  rw [e16] at *
  norm_num at *
  linarith [r.1]

/-- no division by zero (2): under the white guard (`min ≠ 255`) the denominator `(2 - max') - min'` of the upper-half
saturation is positive in every model — also for greys -/
theorem den_A_pos (n m : ℕ) (hm : m ≤ 255) (hn : n ≤ 254) :
    0 < M.rnd (M.rnd (2 - M.rnd ((m : ℝ) / 255)) - M.rnd ((n : ℝ) / 255)) := by
  obtain ⟨a0, a1, ae⟩ := unit_close M n (by omega)
  obtain ⟨c0, c1, ce⟩ := unit_close M m hm
  have hn' : (n : ℝ) ≤ 254 := by exact_mod_cast hn
  have h1 : (n : ℝ) / 255 ≤ 254 / 255 := by apply div_le_div_of_nonneg_right hn'; norm_num
  have e16 : FP.eps = 1.2e-16 := rfl
  have one_le : 1 ≤ M.rnd (2 - M.rnd ((m : ℝ) / 255)) := by
    have := nat_le_rnd M 1 (by norm_num) (x := 2 - M.rnd ((m : ℝ) / 255)) (by push_cast; linarith)
    simpa using this
  have le_two : M.rnd (2 - M.rnd ((m : ℝ) / 255)) ≤ 2 := by
    have := rnd_le_nat M 2 (by norm_num) (x := 2 - M.rnd ((m : ℝ) / 255)) (by push_cast; linarith)
    simpa using this
  have hx : |M.rnd (2 - M.rnd ((m : ℝ) / 255)) - M.rnd ((n : ℝ) / 255)| ≤ 2 := by
    rw [abs_le]; constructor <;> linarith
  have r := abs_le.mp (rnd_abs M hx (by norm_num))
  have := (abs_le.mp ae).2
  rw [e16] at *
  norm_num at *
  linarith [r.1]

/-! ## HSV -/

/-- a value in `[0,1]` times 100 stays in `[0,100]` after rounding -/
theorem x100_range {x : ℝ} (h0 : 0 ≤ x) (h1 : x ≤ 1) : 0 ≤ M.rnd (x * 100) ∧ M.rnd (x * 100) ≤ 100 := by
  refine ⟨rnd_nonneg M (by linarith), ?_⟩
  have := rnd_le_nat M 100 (by norm_num) (x := x * 100) (by push_cast; linarith)
  simpa using this

/-- the generated `Hsv::from(Rgb)`: saturation and value in `[0,100]` EXACTLY, within `1e-13` of the standard
formulas.  The guard `max > 0` is decided as in ℝ, `max - min` is exact. -/
theorem hsv_fields (c : Rgb) (hr : c.r ≤ 255) (hg : c.g ≤ 255) (hb : c.b ≤ 255) :
    (Hsv.from_Rgb (α := RF M) c).h = F64.from_Rgb (α := RF M) c ∧
    (0 ≤ (Hsv.from_Rgb (α := RF M) c).s.val ∧ (Hsv.from_Rgb (α := RF M) c).s.val ≤ 100 ∧
      |(Hsv.from_Rgb (α := RF M) c).s.val - stdSHsv c * 100| ≤ 1e-13) ∧
    (0 ≤ (Hsv.from_Rgb (α := RF M) c).v.val ∧ (Hsv.from_Rgb (α := RF M) c).v.val ≤ 100 ∧
      |(Hsv.from_Rgb (α := RF M) c).v.val - stdV c * 100| ≤ 1e-13) := by
  obtain ⟨b0, b1, b2⟩ := cmin_cmax_bounds c hr hg hb
  obtain ⟨em, eM⟩ := cmin_cmax_nat c
  have xd : M.rnd (cmax c - cmin c) = cmax c - cmin c := by
    rw [em, eM]; exact rnd_natsub M _ _ (by omega) (by omega)
  have hv0 : 0 ≤ cmax c / 255 := by have := le_trans b0 b1; positivity
  have hv1 : cmax c / 255 ≤ 1 := by rw [div_le_one (by norm_num)]; exact b2
  have qv := q_close M (p := cmax c) (d := 255) (by norm_num) (by rw [abs_of_nonneg (le_trans b0 b1)]; exact b2)
  have rv := x100_range M (rnd_nonneg M hv0) (rnd_le_one M hv1)
  have ev : |M.rnd (M.rnd (cmax c / 255) * 100) - stdV c * 100| ≤ 1e-13 := by
    unfold stdV
    refine le_trans (scale100 M qv (by rw [abs_of_nonneg hv0]; exact hv1)) ?_
    norm_num [FP.eps]
  unfold Hsv.from_Rgb stdSHsv
  simp only [get_min_max_rf, FltRF.lit_val, FltRF.lt_eq, decide_eq_true_eq, lit_int M 0 (by norm_num)]
  simp only [Nat.cast_zero]
  by_cases h : 0 < cmax c
  · rw [if_pos h, if_neg (ne_of_gt h)]
    simp only [FltRF.lit_val, FltRF.sub_val, FltRF.div_val, FltRF.mul_val, lit_int M 100 (by norm_num),
      lit_int M 255 (by norm_num), xd]
    simp only [Nat.cast_ofNat]
    refine ⟨trivial, ?_, rv.1, rv.2, ev⟩
    have hs0 : 0 ≤ (cmax c - cmin c) / cmax c := div_nonneg (by linarith) h.le
    have hs1 : (cmax c - cmin c) / cmax c ≤ 1 := by rw [div_le_one h]; linarith
    have qs := q_close M (p := cmax c - cmin c) h (by rw [abs_of_nonneg (by linarith)]; linarith)
    have rs := x100_range M (rnd_nonneg M hs0) (rnd_le_one M hs1)
    refine ⟨rs.1, rs.2, ?_⟩
    refine le_trans (scale100 M qs (by rw [abs_of_nonneg hs0]; exact hs1)) ?_
    norm_num [FP.eps]
  · have h0 : cmax c = 0 := le_antisymm (not_lt.mp h) (le_trans b0 b1)
    rw [if_neg h, if_pos h0]
    simp only [FltRF.lit_val, FltRF.div_val, FltRF.mul_val, lit_int M 100 (by norm_num),
      lit_int M 255 (by norm_num), lit_int M 0 (by norm_num)]
    simp only [Nat.cast_ofNat, Nat.cast_zero]
    refine ⟨trivial, ⟨le_refl _, by norm_num, by norm_num⟩, rv.1, rv.2, ev⟩

/-! ## HWB -/

/-- a percentage divided by the exact constant 100 -/
theorem pct_close {s S : ℝ} (hs0 : 0 ≤ s) (hs1 : s ≤ 100) (hS0 : 0 ≤ S) (hS1 : S ≤ 1) (h : |s - S * 100| ≤ 1e-13) :
    0 ≤ M.rnd (s / 100) ∧ M.rnd (s / 100) ≤ 1 ∧ |M.rnd (s / 100) - S| ≤ 2e-15 := by
  refine ⟨rnd_nonneg M (by positivity), rnd_le_one M (by rw [div_le_one (by norm_num)]; exact hs1), ?_⟩
  have h100 : |(100 : ℝ) - 100| ≤ 0 := by simp
  have e : S * 100 / 100 = S := by ring
  have hq : |S * 100 / 100| ≤ 1 := by rw [e, abs_of_nonneg hS0]; exact hS1
  have d := div_close_q M h h100 (m := 100) (Bq := 1) (by norm_num) (by norm_num) hq (by norm_num)
  rw [e] at d
  refine le_trans d ?_; norm_num [FP.eps]

/-- `1 - x` for `x` in `[0,1]` -/
theorem compl_close {x X : ℝ} (hx0 : 0 ≤ x) (hx1 : x ≤ 1) (hX0 : 0 ≤ X) (hX1 : X ≤ 1) (h : |x - X| ≤ 2e-15) :
    0 ≤ M.rnd (1 - x) ∧ M.rnd (1 - x) ≤ 1 ∧ |M.rnd (1 - x) - (1 - X)| ≤ 3e-15 := by
  refine ⟨rnd_nonneg M (by linarith), rnd_le_one M (by linarith), ?_⟩
  have h1 : |(1 : ℝ) - 1| ≤ 0 := by simp
  have hB : |1 - X| ≤ 1 := by rw [abs_le]; constructor <;> linarith
  have d := sub_close M h1 h hB (by norm_num)
  refine le_trans d ?_; norm_num [FP.eps]

/-- whiteness and blackness from an HSV saturation and value (percent) -/
theorem hwb_core {s v S V : ℝ} (hs0 : 0 ≤ s) (hs1 : s ≤ 100) (hS0 : 0 ≤ S) (hS1 : S ≤ 1) (hs : |s - S * 100| ≤ 1e-13)
    (hv0 : 0 ≤ v) (hv1 : v ≤ 100) (hV0 : 0 ≤ V) (hV1 : V ≤ 1) (hv : |v - V * 100| ≤ 1e-13) :
    (0 ≤ M.rnd (M.rnd (M.rnd (1 - M.rnd (s / 100)) * M.rnd (v / 100)) * 100) ∧
      M.rnd (M.rnd (M.rnd (1 - M.rnd (s / 100)) * M.rnd (v / 100)) * 100) ≤ 100 ∧
      |M.rnd (M.rnd (M.rnd (1 - M.rnd (s / 100)) * M.rnd (v / 100)) * 100) - (1 - S) * V * 100| ≤ 1e-12) ∧
    (0 ≤ M.rnd (M.rnd (1 - M.rnd (v / 100)) * 100) ∧ M.rnd (M.rnd (1 - M.rnd (v / 100)) * 100) ≤ 100 ∧
      |M.rnd (M.rnd (1 - M.rnd (v / 100)) * 100) - (1 - V) * 100| ≤ 1e-12) := by
  obtain ⟨s0, s1, se⟩ := pct_close M hs0 hs1 hS0 hS1 hs
  obtain ⟨v0, v1, ve⟩ := pct_close M hv0 hv1 hV0 hV1 hv
  obtain ⟨t0, t1, te⟩ := compl_close M s0 s1 hS0 hS1 se
  obtain ⟨u0, u1, ue⟩ := compl_close M v0 v1 hV0 hV1 ve
  have hBS : |1 - S| ≤ 1 := by rw [abs_le]; constructor <;> linarith
  have hBV : |V| ≤ 1 := by rw [abs_le]; constructor <;> linarith
  have hBV' : |1 - V| ≤ 1 := by rw [abs_le]; constructor <;> linarith
  have p := mul_close M te ve hBS hBV (by norm_num)
  have pe : |M.rnd (M.rnd (1 - M.rnd (s / 100)) * M.rnd (v / 100)) - (1 - S) * V| ≤ 6e-15 := by
    refine le_trans p ?_; norm_num [FP.eps]
  have p0 : 0 ≤ M.rnd (M.rnd (1 - M.rnd (s / 100)) * M.rnd (v / 100)) := rnd_nonneg M (mul_nonneg t0 v0)
  have p1 : M.rnd (M.rnd (1 - M.rnd (s / 100)) * M.rnd (v / 100)) ≤ 1 := rnd_le_one M (by nlinarith)
  have hBP : |(1 - S) * V| ≤ 1 := by
    rw [abs_mul]; calc |1 - S| * |V| ≤ 1 * 1 := mul_le_mul hBS hBV (abs_nonneg _) (by norm_num)
      _ = 1 := by norm_num
  refine ⟨⟨(x100_range M p0 p1).1, (x100_range M p0 p1).2, ?_⟩, ⟨(x100_range M u0 u1).1, (x100_range M u0 u1).2, ?_⟩⟩
  · refine le_trans (scale100 M pe hBP) ?_; norm_num [FP.eps]
  · refine le_trans (scale100 M ue hBV') ?_; norm_num [FP.eps]

/-- the generated `Hwb::from(Rgb)`: whiteness and blackness in `[0,100]` EXACTLY, within `1e-12` of the standard
formulas -/
theorem hwb_fields (c : Rgb) (hr : c.r ≤ 255) (hg : c.g ≤ 255) (hb : c.b ≤ 255) :
    (Hwb.from_Rgb (α := RF M) c).h = F64.from_Rgb (α := RF M) c ∧
    (0 ≤ (Hwb.from_Rgb (α := RF M) c).w.val ∧ (Hwb.from_Rgb (α := RF M) c).w.val ≤ 100 ∧
      |(Hwb.from_Rgb (α := RF M) c).w.val - stdW c * 100| ≤ 1e-12) ∧
    (0 ≤ (Hwb.from_Rgb (α := RF M) c).b.val ∧ (Hwb.from_Rgb (α := RF M) c).b.val ≤ 100 ∧
      |(Hwb.from_Rgb (α := RF M) c).b.val - stdB c * 100| ≤ 1e-12) := by
  obtain ⟨b0, b1, b2⟩ := cmin_cmax_bounds c hr hg hb
  obtain ⟨eh, ⟨s0, s1, se⟩, ⟨v0, v1, ve⟩⟩ := hsv_fields M c hr hg hb
  have hS : 0 ≤ stdSHsv c ∧ stdSHsv c ≤ 1 := by
    unfold stdSHsv
    by_cases h : cmax c = 0
    · simp [h]
    · rw [if_neg h]
      have hp : 0 < cmax c := lt_of_le_of_ne (le_trans b0 b1) (Ne.symm h)
      exact ⟨div_nonneg (by linarith) hp.le, (div_le_one hp).mpr (by linarith)⟩
  have hV0 : 0 ≤ stdV c := by unfold stdV; have := le_trans b0 b1; positivity
  have hV1 : stdV c ≤ 1 := by unfold stdV; rw [div_le_one (by norm_num)]; exact b2
  have eW : stdW c * 100 = (1 - stdSHsv c) * stdV c * 100 := by
    unfold stdSHsv stdV stdW
    by_cases h : cmax c = 0
    · have : cmin c = 0 := le_antisymm (h ▸ b1) b0
      simp [h, this]
    · rw [if_neg h]; field_simp; ring
  have eB : stdB c * 100 = (1 - stdV c) * 100 := by unfold stdB stdV; ring
  rw [eW, eB]
  simp only [Hwb.from_Rgb, eh, FltRF.lit_val, FltRF.sub_val, FltRF.div_val, FltRF.mul_val, lit_int M 100 (by norm_num),
    lit_int M 1 (by norm_num)]
  simp only [Nat.cast_ofNat, Nat.cast_one]
  exact ⟨trivial, hwb_core M s0 s1 hS.1 hS.2 se v0 v1 hV0 hV1 ve⟩

end FpHexcone
