import LymuiVerif.Props.C02_curves
import LymuiVerif.Lemmas.RequantF1a
/-!
# Re-quantisation after XYZ → Adobe RGB → XYZ

`Xyz.from_Argb (Argb.from_Xyz x) = M_A · max(R'·x, 0)` with `R' = (argb::XR, YG, ZB)` (6 digits) and
`M_A = (RR, GG, BB)` (7 digits, Lindbloom).  `M_A·R' − I` has entries up to 2.3e-4, far more than the
`1.7e-5` / `3.1e-7` the generic `requant_stable` lemmas tolerate.  But `R'` is, up to 5e-7, a
row-scaling `diag(1.000107, 0.999977, 0.999769)` of Lindbloom's inverse, so in LINEAR LIGHT the error
is relative: `|l'' − l| ≤ 2.4e-4·l + β` (β = 7e-5 in sRGB coordinates, 1e-6 in Adobe coordinates),
and a relative error is harmless for a power-law encoder (`Lemmas.CurvesF1a.*_stable_rel`).
All matrix facts are `norm_num`/`linarith` facts about the GENERATED literals.
-/
namespace Lemmas.ArgbRequantF1a
open Gen Lemmas.Matrix Lemmas.XyzDispatch Lemmas.RequantF1a

/-- the XYZ of a linear-light triple under profile `k` -/
noncomputable def X0 (k : XyzKind) (l : V3) : Xyz ℝ := toXyz (mulVec (fwd k) l)

/-- Adobe linear components of an XYZ (rows `argb::XR, YG, ZB`) -/
noncomputable def T (v : Xyz ℝ) : V3 :=
  (Props.C08.dot C.argb_XR v.x v.y v.z, Props.C08.dot C.YG v.x v.y v.z, Props.C08.dot C.ZB v.x v.y v.z)

/-- back to XYZ (rows `argb::RR, GG, BB`) -/
noncomputable def back (m : V3) : Xyz ℝ :=
  ⟨Props.C08.dot C.RR m.1 m.2.1 m.2.2, Props.C08.dot C.GG m.1 m.2.1 m.2.2,
   Props.C08.dot C.BB m.1 m.2.1 m.2.2⟩

def clamp (t : V3) : V3 := (max t.1 0, max t.2.1 0, max t.2.2 0)

/-- the Adobe round trip is `back ∘ clamp ∘ T` (from `Props.C02_curves.argb_roundtrip_exact`) -/
theorem argb_rt (v : Xyz ℝ) : Xyz.from_Argb (Argb.from_Xyz v) = back (clamp (T v)) :=
  Props.C02_curves.argb_roundtrip_exact v

theorem clamp_bounds (t ν : ℝ) (hν : 0 ≤ ν) (h : -ν ≤ t) : t ≤ max t 0 ∧ 0 ≤ max t 0 ∧ max t 0 ≤ t + ν :=
  ⟨le_max_left _ _, le_max_right _ _, max_le (by linarith) (by linarith)⟩

/-- unfolding set -/
macro "unfold_argb" : tactic =>
  `(tactic| simp only [X0, T, back, toXyz, ofXyz, Props.C08.dot, fwd, rev, mulVec, dot, V3.get,
    C.X65, C.Y65, C.Z65, C.RX65, C.RY65, C.RZ65, C.AX, C.AY, C.AZ, C.ARX, C.ARY, C.ARZ,
    C.argb_XR, C.YG, C.ZB, C.RR, C.GG, C.BB, FltReal.lit_eq])

/-- the Adobe linear components of the XYZ of a unit-cube triple (either profile) are `≥ -1e-7`:
nothing visible is clamped (sRGB ⊂ Adobe RGB; the would-be-zero entries of `R'·M65` are `≥ -8.7e-8`) -/
theorem T_lower (k : XyzKind) (hk : k = .D65 ∨ k = .Adobe) (l : V3)
    (h0 : 0 ≤ l.1) (h0' : l.1 ≤ 1) (h1 : 0 ≤ l.2.1) (h1' : l.2.1 ≤ 1) (h2 : 0 ≤ l.2.2) (h2' : l.2.2 ≤ 1) :
    -1e-7 ≤ (T (X0 k l)).1 ∧ -1e-7 ≤ (T (X0 k l)).2.1 ∧ -1e-7 ≤ (T (X0 k l)).2.2 := by
  obtain ⟨l0, l1, l2⟩ := l
  simp only at h0 h0' h1 h1' h2 h2'
  rcases hk with rfl | rfl <;> unfold_argb <;> norm_num <;> refine ⟨?_, ?_, ?_⟩ <;> linarith

/-- **linear core, D65**: with `m` any admissible clamping of the Adobe linear components of
`M65·l`, the sRGB-linear components of `M_A·m` are within `2.4e-4·l_i + 7e-5` of `l_i`, and `M_A·m` is
within `3e-4` of `M65·l`. -/
theorem lin_core_d65 (l m : V3)
    (h0 : 0 ≤ l.1) (h0' : l.1 ≤ 1) (h1 : 0 ≤ l.2.1) (h1' : l.2.1 ≤ 1) (h2 : 0 ≤ l.2.2) (h2' : l.2.2 ≤ 1)
    (a0 : (T (X0 .D65 l)).1 ≤ m.1) (b0 : 0 ≤ m.1) (c0 : m.1 ≤ (T (X0 .D65 l)).1 + 1e-7)
    (a1 : (T (X0 .D65 l)).2.1 ≤ m.2.1) (b1 : 0 ≤ m.2.1) (c1 : m.2.1 ≤ (T (X0 .D65 l)).2.1 + 1e-7)
    (a2 : (T (X0 .D65 l)).2.2 ≤ m.2.2) (b2 : 0 ≤ m.2.2) (c2 : m.2.2 ≤ (T (X0 .D65 l)).2.2 + 1e-7) :
    (∀ i, |V3.get (mulVec (rev .D65) (ofXyz (back m))) i - V3.get l i| ≤ 2.4e-4 * V3.get l i + 7e-5) ∧
    Near 3e-4 (back m) (X0 .D65 l) := by
  obtain ⟨l0, l1, l2⟩ := l
  obtain ⟨m0, m1, m2⟩ := m
  simp only at h0 h0' h1 h1' h2 h2' b0 b1 b2
  revert a0 c0 a1 c1 a2 c2
  unfold_argb
  intro a0 c0 a1 c1 a2 c2
  norm_num at a0 c0 a1 c1 a2 c2
  constructor
  · intro i
    fin_cases i <;> rw [abs_le] <;> constructor <;> norm_num <;> linarith
  · unfold Near
    unfold_argb
    refine ⟨?_, ?_, ?_⟩ <;> rw [abs_le] <;> constructor <;> norm_num <;> linarith

/-- **linear core, Adobe profile**: the Adobe-linear components of `M_A·m` are within
`2.4e-4·l_i + 1e-6` of `l_i`, and `M_A·m` is within `3e-4` of `M_A·l`. -/
theorem lin_core_adobe (l m : V3)
    (h0 : 0 ≤ l.1) (h0' : l.1 ≤ 1) (h1 : 0 ≤ l.2.1) (h1' : l.2.1 ≤ 1) (h2 : 0 ≤ l.2.2) (h2' : l.2.2 ≤ 1)
    (a0 : (T (X0 .Adobe l)).1 ≤ m.1) (b0 : 0 ≤ m.1) (c0 : m.1 ≤ (T (X0 .Adobe l)).1 + 1e-7)
    (a1 : (T (X0 .Adobe l)).2.1 ≤ m.2.1) (b1 : 0 ≤ m.2.1) (c1 : m.2.1 ≤ (T (X0 .Adobe l)).2.1 + 1e-7)
    (a2 : (T (X0 .Adobe l)).2.2 ≤ m.2.2) (b2 : 0 ≤ m.2.2) (c2 : m.2.2 ≤ (T (X0 .Adobe l)).2.2 + 1e-7) :
    (∀ i, |V3.get (mulVec (rev .Adobe) (ofXyz (back m))) i - V3.get l i| ≤ 2.4e-4 * V3.get l i + 1e-6) ∧
    Near 3e-4 (back m) (X0 .Adobe l) := by
  obtain ⟨l0, l1, l2⟩ := l
  obtain ⟨m0, m1, m2⟩ := m
  simp only at h0 h0' h1 h1' h2 h2' b0 b1 b2
  revert a0 c0 a1 c1 a2 c2
  unfold_argb
  intro a0 c0 a1 c1 a2 c2
  norm_num at a0 c0 a1 c1 a2 c2
  constructor
  · intro i
    fin_cases i <;> rw [abs_le] <;> constructor <;> norm_num <;> linarith
  · unfold Near
    unfold_argb
    refine ⟨?_, ?_, ?_⟩ <;> rw [abs_le] <;> constructor <;> norm_num <;> linarith

/-- the clamped Adobe components of `X0 k l` are an admissible `m` -/
theorem clamp_admissible (k : XyzKind) (hk : k = .D65 ∨ k = .Adobe) (l : V3)
    (h0 : 0 ≤ l.1) (h0' : l.1 ≤ 1) (h1 : 0 ≤ l.2.1) (h1' : l.2.1 ≤ 1) (h2 : 0 ≤ l.2.2) (h2' : l.2.2 ≤ 1) :
    ((T (X0 k l)).1 ≤ (clamp (T (X0 k l))).1 ∧ 0 ≤ (clamp (T (X0 k l))).1 ∧
      (clamp (T (X0 k l))).1 ≤ (T (X0 k l)).1 + 1e-7) ∧
    ((T (X0 k l)).2.1 ≤ (clamp (T (X0 k l))).2.1 ∧ 0 ≤ (clamp (T (X0 k l))).2.1 ∧
      (clamp (T (X0 k l))).2.1 ≤ (T (X0 k l)).2.1 + 1e-7) ∧
    ((T (X0 k l)).2.2 ≤ (clamp (T (X0 k l))).2.2 ∧ 0 ≤ (clamp (T (X0 k l))).2.2 ∧
      (clamp (T (X0 k l))).2.2 ≤ (T (X0 k l)).2.2 + 1e-7) := by
  obtain ⟨t0, t1, t2⟩ := T_lower k hk l h0 h0' h1 h1' h2 h2'
  exact ⟨clamp_bounds _ _ (by norm_num) t0, clamp_bounds _ _ (by norm_num) t1,
    clamp_bounds _ _ (by norm_num) t2⟩

/-- D65: linear-light closeness and XYZ closeness of the Adobe round trip of `M65·l` -/
theorem argb_rt_d65 (l : V3)
    (h0 : 0 ≤ l.1) (h0' : l.1 ≤ 1) (h1 : 0 ≤ l.2.1) (h1' : l.2.1 ≤ 1) (h2 : 0 ≤ l.2.2) (h2' : l.2.2 ≤ 1) :
    (∀ i, |V3.get (mulVec (rev .D65) (ofXyz (Xyz.from_Argb (Argb.from_Xyz (X0 .D65 l))))) i - V3.get l i|
        ≤ 2.4e-4 * V3.get l i + 7e-5) ∧
    Near 3e-4 (Xyz.from_Argb (Argb.from_Xyz (X0 .D65 l))) (X0 .D65 l) := by
  rw [argb_rt]
  obtain ⟨⟨a0, b0, c0⟩, ⟨a1, b1, c1⟩, ⟨a2, b2, c2⟩⟩ :=
    clamp_admissible .D65 (Or.inl rfl) l h0 h0' h1 h1' h2 h2'
  exact lin_core_d65 l _ h0 h0' h1 h1' h2 h2' a0 b0 c0 a1 b1 c1 a2 b2 c2

/-- Adobe profile: the same for `M_A·l` -/
theorem argb_rt_adobe (l : V3)
    (h0 : 0 ≤ l.1) (h0' : l.1 ≤ 1) (h1 : 0 ≤ l.2.1) (h1' : l.2.1 ≤ 1) (h2 : 0 ≤ l.2.2) (h2' : l.2.2 ≤ 1) :
    (∀ i, |V3.get (mulVec (rev .Adobe) (ofXyz (Xyz.from_Argb (Argb.from_Xyz (X0 .Adobe l))))) i - V3.get l i|
        ≤ 2.4e-4 * V3.get l i + 1e-6) ∧
    Near 3e-4 (Xyz.from_Argb (Argb.from_Xyz (X0 .Adobe l))) (X0 .Adobe l) := by
  rw [argb_rt]
  obtain ⟨⟨a0, b0, c0⟩, ⟨a1, b1, c1⟩, ⟨a2, b2, c2⟩⟩ :=
    clamp_admissible .Adobe (Or.inr rfl) l h0 h0' h1 h1' h2 h2'
  exact lin_core_adobe l _ h0 h0' h1 h1' h2 h2' a0 b0 c0 a1 b1 c1 a2 b2 c2

/-- **pre-quantisation form under a relative stability lemma** -/
theorem pre_close_of_rel (k : XyzKind) (ρ β η : ℝ)
    (hstab : ∀ n : ℕ, n ≤ 255 → ∀ δ : ℝ, |δ| ≤ ρ * dec k ((n : ℝ) / 255) + β →
      |enc k (dec k ((n : ℝ) / 255) + δ) * 255 - n| ≤ η)
    (c : Rgb) (hr : c.r ≤ 255) (hg : c.g ≤ 255) (hb : c.b ≤ 255) (x'' : Xyz ℝ)
    (h : ∀ i, |V3.get (mulVec (rev k) (ofXyz x'')) i - V3.get (lin k c) i| ≤ ρ * V3.get (lin k c) i + β)
    (i : Fin 3) : |V3.get (pre k x'') i - (chan c i : ℝ)| ≤ η := by
  fin_cases i
  · have := hstab c.r hr _ (h 0)
    simpa [pre, V3.get, chan, lin] using this
  · have := hstab c.g hg _ (h 1)
    simpa [pre, V3.get, chan, lin] using this
  · have := hstab c.b hb _ (h 2)
    simpa [pre, V3.get, chan, lin] using this

/-- **Adobe RGB round trip of the D65 XYZ of an 8-bit colour**: re-quantises to the colour, and is
within `3e-4` of the original XYZ. -/
theorem argb_requant_d65 (c : Rgb) (hr : c.r ≤ 255) (hg : c.g ≤ 255) (hb : c.b ≤ 255) :
    (∀ i, |V3.get (pre .D65 (Xyz.from_Argb (Argb.from_Xyz (Xyz.from_rgb c XyzKind.D65)))) i - (chan c i : ℝ)|
      ≤ 0.3) ∧
    Near 3e-4 (Xyz.from_Argb (Argb.from_Xyz (Xyz.from_rgb c XyzKind.D65))) (Xyz.from_rgb c XyzKind.D65) := by
  rw [from_rgb_eq]
  obtain ⟨hl, hx⟩ := argb_rt_d65 (lin .D65 c) (dec_level_nonneg .D65 c.r) (dec_level_le_one .D65 hr)
    (dec_level_nonneg .D65 c.g) (dec_level_le_one .D65 hg) (dec_level_nonneg .D65 c.b) (dec_level_le_one .D65 hb)
  refine ⟨fun i => ?_, hx⟩
  exact pre_close_of_rel .D65 2.4e-4 7e-5 0.3
    (fun n hn δ hδ => CurvesF1a.srgb_stable_rel n hn δ hδ) c hr hg hb _ hl i

/-- **Adobe RGB round trip of the Adobe-profile XYZ of an 8-bit colour** -/
theorem argb_requant_adobe (c : Rgb) (hr : c.r ≤ 255) (hg : c.g ≤ 255) (hb : c.b ≤ 255) :
    (∀ i, |V3.get (pre .Adobe (Xyz.from_Argb (Argb.from_Xyz (Xyz.from_rgb c XyzKind.Adobe)))) i - (chan c i : ℝ)|
      ≤ 0.49) ∧
    Near 3e-4 (Xyz.from_Argb (Argb.from_Xyz (Xyz.from_rgb c XyzKind.Adobe))) (Xyz.from_rgb c XyzKind.Adobe) := by
  rw [from_rgb_eq]
  obtain ⟨hl, hx⟩ := argb_rt_adobe (lin .Adobe c) (dec_level_nonneg .Adobe c.r) (dec_level_le_one .Adobe hr)
    (dec_level_nonneg .Adobe c.g) (dec_level_le_one .Adobe hg) (dec_level_nonneg .Adobe c.b) (dec_level_le_one .Adobe hb)
  refine ⟨fun i => ?_, hx⟩
  exact pre_close_of_rel .Adobe 2.4e-4 1e-6 0.49
    (fun n hn δ hδ => CurvesF1a.argb_stable_rel n hn δ hδ) c hr hg hb _ hl i

end Lemmas.ArgbRequantF1a
