import Mathlib.Analysis.SpecialFunctions.Pow.Real
import Mathlib.Analysis.MeanInequalitiesPow
import Mathlib.Tactic
/-!
# Calculus-free tools for real powers with rational exponents

* `le_rpow_of_pow_le` / `rpow_le_of_le_pow`: a rational enclosure `c ≤ x ^ (p/q)` is decided by the
  integer-power inequality `c ^ q ≤ x ^ p` (which `norm_num` evaluates exactly).
* `rpow_step`: Bernoulli's inequality as a lower bound for the increment of `x ↦ x ^ p`, `p ≥ 1`.
-/
namespace Lemmas.Rpow

theorem le_rpow_of_pow_le {c x : ℝ} (hc : 0 ≤ c) (hx : 0 ≤ x) (p q : ℕ) (hq : q ≠ 0)
    (h : c ^ q ≤ x ^ p) : c ≤ x ^ ((p : ℝ) / (q : ℝ)) := by
  have h1 : (c ^ q) ^ ((q : ℝ)⁻¹) ≤ (x ^ p) ^ ((q : ℝ)⁻¹) :=
    Real.rpow_le_rpow (pow_nonneg hc q) h (by positivity)
  rw [Real.pow_rpow_inv_natCast hc hq] at h1
  rw [← Real.rpow_natCast x p, ← Real.rpow_mul hx] at h1
  simpa [div_eq_mul_inv] using h1

theorem rpow_le_of_le_pow {c x : ℝ} (hc : 0 ≤ c) (hx : 0 ≤ x) (p q : ℕ) (hq : q ≠ 0)
    (h : x ^ p ≤ c ^ q) : x ^ ((p : ℝ) / (q : ℝ)) ≤ c := by
  have h1 : (x ^ p) ^ ((q : ℝ)⁻¹) ≤ (c ^ q) ^ ((q : ℝ)⁻¹) :=
    Real.rpow_le_rpow (pow_nonneg hx p) h (by positivity)
  rw [Real.pow_rpow_inv_natCast hc hq] at h1
  rw [← Real.rpow_natCast x p, ← Real.rpow_mul hx] at h1
  simpa [div_eq_mul_inv] using h1

theorem lt_rpow_of_pow_lt {c x : ℝ} (hc : 0 ≤ c) (hx : 0 ≤ x) (p q : ℕ) (hq : q ≠ 0)
    (h : c ^ q < x ^ p) : c < x ^ ((p : ℝ) / (q : ℝ)) := by
  have h1 : (c ^ q) ^ ((q : ℝ)⁻¹) < (x ^ p) ^ ((q : ℝ)⁻¹) :=
    Real.rpow_lt_rpow (pow_nonneg hc q) h (by positivity)
  rw [Real.pow_rpow_inv_natCast hc hq] at h1
  rw [← Real.rpow_natCast x p, ← Real.rpow_mul hx] at h1
  simpa [div_eq_mul_inv] using h1

/-- Bernoulli: for `0 < a ≤ b` and `p ≥ 1`, `a^p + p (b-a) a^p / a ≤ b^p`. -/
theorem rpow_step {a b p : ℝ} (ha : 0 < a) (hab : a ≤ b) (hp : 1 ≤ p) :
    a ^ p + p * (b - a) * (a ^ p / a) ≤ b ^ p := by
  have hs : -1 ≤ (b - a) / a := by
    have : 0 ≤ (b - a) / a := div_nonneg (by linarith) ha.le
    linarith
  have hB := one_add_mul_self_le_rpow_one_add hs hp
  have hb : b = a * (1 + (b - a) / a) := by field_simp; ring
  have hap : 0 ≤ a ^ p := Real.rpow_nonneg ha.le p
  calc a ^ p + p * (b - a) * (a ^ p / a) = a ^ p * (1 + p * ((b - a) / a)) := by field_simp
    _ ≤ a ^ p * (1 + (b - a) / a) ^ p := mul_le_mul_of_nonneg_left hB hap
    _ = (a * (1 + (b - a) / a)) ^ p := by
        rw [Real.mul_rpow ha.le (by linarith)]
    _ = b ^ p := by rw [← hb]

/-- `x ↦ x ^ (1/p)` inverts `x ↦ x ^ p` on the nonnegative reals -/
theorem rpow_rpow_inv {x p : ℝ} (hx : 0 ≤ x) (hp : p ≠ 0) : (x ^ p) ^ (1 / p) = x := by
  rw [← Real.rpow_mul hx, mul_one_div_cancel hp, Real.rpow_one]

/-- increment bound with an explicit constant: if `a0 ≤ a ≤ b`, `p ≥ 1` and `κ ≤ a0^(p-1)` then
`a^p + p (b-a) κ ≤ b^p` (the slope of `x^p` on `[a, b]` is at least `p·a0^(p-1)`). -/
theorem rpow_step_lb {a0 a b p κ : ℝ} (ha0 : 0 < a0) (h0 : a0 ≤ a) (hab : a ≤ b) (hp : 1 ≤ p)
    (hκ : κ ≤ a0 ^ (p - 1)) : a ^ p + p * (b - a) * κ ≤ b ^ p := by
  have ha : 0 < a := lt_of_lt_of_le ha0 h0
  have h1 : a0 ^ (p - 1) ≤ a ^ (p - 1) := Real.rpow_le_rpow ha0.le h0 (by linarith)
  have h2 : a ^ (p - 1) = a ^ p / a := Real.rpow_sub_one ha.ne' p
  have h3 : 0 ≤ p * (b - a) := mul_nonneg (by linarith) (by linarith)
  have h4 : p * (b - a) * κ ≤ p * (b - a) * (a ^ p / a) :=
    mul_le_mul_of_nonneg_left (by linarith) h3
  have := rpow_step ha hab hp
  linarith

end Lemmas.Rpow
