import LymuiVerif.Inst.Real
import Mathlib.Analysis.Convex.SpecificFunctions.Basic
import Mathlib.Analysis.MeanInequalitiesPow
/-!
# Reusable lemmas on power curves (used by Props.C08, C07, C02_curves)

* rational certificates for `x^(p/q)` against a rational bound: `x^(p/q) ≤ a ⇐ x^p ≤ a^q`;
* concavity (Bernoulli) and Lipschitz bounds of `x^p`, `0 ≤ p ≤ 1`, away from 0;
* the IEC 61966-2-1 encoder is 12.92-Lipschitz up to its 2.9e-8 jump.
-/
open Gen

namespace Lemmas.CurvesD2

/-- `x^(p/q) ≤ a` from the rational certificate `x^p ≤ a^q` -/
theorem rpow_div_le {x a : ℝ} (p q : ℕ) (hq : 0 < q) (hx : 0 ≤ x) (ha : 0 ≤ a)
    (h : x ^ p ≤ a ^ q) : x ^ ((p : ℝ) / (q : ℝ)) ≤ a := by
  have hq' : (0 : ℝ) < q := by exact_mod_cast hq
  have h1 : x ^ ((p : ℝ) / (q : ℝ)) = (x ^ p) ^ ((1 : ℝ) / q) := by
    rw [← Real.rpow_natCast, ← Real.rpow_mul hx]; congr 1; ring
  have h2 : a = (a ^ q) ^ ((1 : ℝ) / q) := by
    rw [← Real.rpow_natCast, ← Real.rpow_mul ha, mul_one_div_cancel hq'.ne', Real.rpow_one]
  rw [h1, h2]
  exact Real.rpow_le_rpow (pow_nonneg hx _) h (by positivity)

theorem le_rpow_div {x a : ℝ} (p q : ℕ) (hq : 0 < q) (hx : 0 ≤ x) (ha : 0 ≤ a)
    (h : a ^ q ≤ x ^ p) : a ≤ x ^ ((p : ℝ) / (q : ℝ)) := by
  have hq' : (0 : ℝ) < q := by exact_mod_cast hq
  have h1 : x ^ ((p : ℝ) / (q : ℝ)) = (x ^ p) ^ ((1 : ℝ) / q) := by
    rw [← Real.rpow_natCast, ← Real.rpow_mul hx]; congr 1; ring
  have h2 : a = (a ^ q) ^ ((1 : ℝ) / q) := by
    rw [← Real.rpow_natCast, ← Real.rpow_mul ha, mul_one_div_cancel hq'.ne', Real.rpow_one]
  rw [h1, h2]
  exact Real.rpow_le_rpow (pow_nonneg ha _) h (by positivity)

theorem rpow_div_lt {x a : ℝ} (p q : ℕ) (hq : 0 < q) (hx : 0 ≤ x) (ha : 0 ≤ a)
    (h : x ^ p < a ^ q) : x ^ ((p : ℝ) / (q : ℝ)) < a := by
  have hq' : (0 : ℝ) < q := by exact_mod_cast hq
  have h1 : x ^ ((p : ℝ) / (q : ℝ)) = (x ^ p) ^ ((1 : ℝ) / q) := by
    rw [← Real.rpow_natCast, ← Real.rpow_mul hx]; congr 1; ring
  have h2 : a = (a ^ q) ^ ((1 : ℝ) / q) := by
    rw [← Real.rpow_natCast, ← Real.rpow_mul ha, mul_one_div_cancel hq'.ne', Real.rpow_one]
  rw [h1, h2]
  exact Real.rpow_lt_rpow (pow_nonneg hx _) h (by positivity)

theorem lt_rpow_div {x a : ℝ} (p q : ℕ) (hq : 0 < q) (hx : 0 ≤ x) (ha : 0 ≤ a)
    (h : a ^ q < x ^ p) : a < x ^ ((p : ℝ) / (q : ℝ)) := by
  have hq' : (0 : ℝ) < q := by exact_mod_cast hq
  have h1 : x ^ ((p : ℝ) / (q : ℝ)) = (x ^ p) ^ ((1 : ℝ) / q) := by
    rw [← Real.rpow_natCast, ← Real.rpow_mul hx]; congr 1; ring
  have h2 : a = (a ^ q) ^ ((1 : ℝ) / q) := by
    rw [← Real.rpow_natCast, ← Real.rpow_mul ha, mul_one_div_cancel hq'.ne', Real.rpow_one]
  rw [h1, h2]
  exact Real.rpow_lt_rpow (pow_nonneg ha _) h (by positivity)

/-- `(x^a)^(1/a) = x` -/
theorem rpow_rpow_inv {x : ℝ} (hx : 0 ≤ x) {a : ℝ} (ha : a ≠ 0) : (x ^ a) ^ (1 / a) = x := by
  rw [← Real.rpow_mul hx, mul_one_div_cancel ha, Real.rpow_one]

theorem rpow_inv_rpow {x : ℝ} (hx : 0 ≤ x) {a : ℝ} (ha : a ≠ 0) : (x ^ (1 / a)) ^ a = x := by
  rw [← Real.rpow_mul hx, one_div_mul_cancel ha, Real.rpow_one]

/-- concavity of `x^p` (0 ≤ p ≤ 1) in tangent form, from Bernoulli's inequality -/
theorem rpow_le_tangent {p a b : ℝ} (hp0 : 0 ≤ p) (hp1 : p ≤ 1) (ha : 0 < a) (hb : 0 ≤ b) :
    b ^ p ≤ a ^ p + p * a ^ (p - 1) * (b - a) := by
  have hs : -1 ≤ b / a - 1 := by
    have : 0 ≤ b / a := div_nonneg hb ha.le
    linarith
  have h := rpow_one_add_le_one_add_mul_self hs hp0 hp1
  have e1 : 1 + (b / a - 1) = b / a := by ring
  rw [e1, Real.div_rpow hb ha.le] at h
  have hap : 0 < a ^ p := Real.rpow_pos_of_pos ha p
  rw [div_le_iff₀ hap] at h
  rw [Real.rpow_sub_one ha.ne']
  calc b ^ p ≤ (1 + p * (b / a - 1)) * a ^ p := h
    _ = a ^ p + p * (a ^ p / a) * (b - a) := by field_simp

/-- `x^p` is `p·x0^(p-1)`-Lipschitz and monotone on `[x0, ∞)` -/
theorem rpow_sub_le {p x0 a b : ℝ} (hp0 : 0 ≤ p) (hp1 : p ≤ 1) (hx0 : 0 < x0) (ha : x0 ≤ a)
    (hab : a ≤ b) : 0 ≤ b ^ p - a ^ p ∧ b ^ p - a ^ p ≤ p * x0 ^ (p - 1) * (b - a) := by
  have ha0 : 0 < a := lt_of_lt_of_le hx0 ha
  constructor
  · have := Real.rpow_le_rpow ha0.le hab hp0
    linarith
  · have h1 := rpow_le_tangent hp0 hp1 ha0 (le_trans ha0.le hab)
    have h2 : a ^ (p - 1) ≤ x0 ^ (p - 1) := Real.rpow_le_rpow_of_nonpos hx0 ha (by linarith)
    have h3 : p * a ^ (p - 1) * (b - a) ≤ p * x0 ^ (p - 1) * (b - a) := by
      apply mul_le_mul_of_nonneg_right _ (by linarith)
      exact mul_le_mul_of_nonneg_left h2 hp0
    linarith


theorem e24 : (1 : ℝ) / 2.4 = ((5 : ℕ) : ℝ) / ((12 : ℕ) : ℝ) := by norm_num
theorem e045 : (0.45 : ℝ) = ((9 : ℕ) : ℝ) / ((20 : ℕ) : ℝ) := by norm_num
theorem e045i : (1 : ℝ) / 0.45 = ((20 : ℕ) : ℝ) / ((9 : ℕ) : ℝ) := by norm_num

/-- slope of the power branch of the sRGB encoder at the threshold: `(5/12)·x0^(-7/12) ≤ 12.05` -/
theorem srgb_slope : (1 / 2.4 : ℝ) * (0.0031308 : ℝ) ^ ((1 : ℝ) / 2.4 - 1) ≤ 12.05 := by
  have e : (1 : ℝ) / 2.4 - 1 = -(((7 : ℕ) : ℝ) / ((12 : ℕ) : ℝ)) := by norm_num
  rw [e, Real.rpow_neg (by norm_num)]
  have lo : (0.034604 : ℝ) ≤ (0.0031308 : ℝ) ^ (((7 : ℕ) : ℝ) / ((12 : ℕ) : ℝ)) :=
    le_rpow_div 7 12 (by norm_num) (by norm_num) (by norm_num) (by norm_num)
  have : ((0.0031308 : ℝ) ^ (((7 : ℕ) : ℝ) / ((12 : ℕ) : ℝ)))⁻¹ ≤ (0.034604 : ℝ)⁻¹ :=
    inv_anti₀ (by norm_num) lo
  calc (1 / 2.4 : ℝ) * ((0.0031308 : ℝ) ^ (((7 : ℕ) : ℝ) / ((12 : ℕ) : ℝ)))⁻¹
      ≤ (1 / 2.4 : ℝ) * (0.034604 : ℝ)⁻¹ := by gcongr
    _ ≤ 12.05 := by norm_num

/-- The IEC 61966-2-1 encoder is 12.92-Lipschitz up to its jump of 2.9e-8 at the threshold. -/
theorem srgb_enc_quasi_lipschitz (f : ℝ → ℝ)
    (hf : ∀ x, f x = if x ≤ 0.0031308 then 12.92 * x else 1.055 * x ^ ((1 : ℝ) / 2.4) - 0.055)
    {a b : ℝ} (hab : a ≤ b) : |f b - f a| ≤ 12.92 * (b - a) + 3e-8 := by
  have hp0 : (0:ℝ) ≤ 1 / 2.4 := by norm_num
  have hp1 : (1:ℝ) / 2.4 ≤ 1 := by norm_num
  have hx0 : (0:ℝ) < 0.0031308 := by norm_num
  have lo : (0.0904738459 : ℝ) ≤ (0.0031308 : ℝ) ^ ((1 : ℝ) / 2.4) := by
    rw [e24]; exact le_rpow_div 5 12 (by norm_num) (by norm_num) (by norm_num) (by norm_num)
  have hi : (0.0031308 : ℝ) ^ ((1 : ℝ) / 2.4) ≤ (0.090473846 : ℝ) := by
    rw [e24]; exact rpow_div_le 5 12 (by norm_num) (by norm_num) (by norm_num) (by norm_num)
  rw [hf a, hf b]
  by_cases ha : a ≤ 0.0031308
  · by_cases hb : b ≤ 0.0031308
    · rw [if_pos ha, if_pos hb, abs_le]; constructor <;> linarith
    · rw [if_pos ha, if_neg hb]
      rw [not_le] at hb
      obtain ⟨h1, h2⟩ := rpow_sub_le hp0 hp1 hx0 le_rfl hb.le
      have h3 := mul_le_mul_of_nonneg_right srgb_slope (by linarith : (0:ℝ) ≤ b - 0.0031308)
      rw [abs_le]; constructor <;> nlinarith
  · rw [not_le] at ha
    have hb : ¬ b ≤ 0.0031308 := by rw [not_le]; linarith
    rw [if_neg (not_le.mpr ha), if_neg hb]
    obtain ⟨h1, h2⟩ := rpow_sub_le hp0 hp1 hx0 ha.le hab
    have h3 := mul_le_mul_of_nonneg_right srgb_slope (by linarith : (0:ℝ) ≤ b - a)
    rw [abs_le]; constructor <;> nlinarith

theorem cbrt_of_nonneg {x : ℝ} (hx : 0 ≤ x) : Real.cbrt x = x ^ ((1:ℝ) / 3) := by
  unfold Real.cbrt; rw [if_pos hx]

theorem cube_cbrt (t : ℝ) : (Real.cbrt t) ^ 3 = t := by
  have key : ∀ x : ℝ, 0 ≤ x → (x ^ ((1:ℝ) / 3)) ^ 3 = x := by
    intro x hx
    rw [← Real.rpow_natCast, ← Real.rpow_mul hx]; norm_num
  unfold Real.cbrt
  split_ifs with h
  · exact key t h
  · rw [not_le] at h
    rw [neg_pow, key (-t) (by linarith)]; norm_num

theorem cbrt_cube (t : ℝ) : Real.cbrt (t ^ 3) = t := by
  have key : ∀ x : ℝ, 0 ≤ x → (x ^ 3) ^ ((1:ℝ) / 3) = x := by
    intro x hx
    rw [← Real.rpow_natCast, ← Real.rpow_mul hx]; norm_num
  unfold Real.cbrt
  rcases le_or_gt 0 t with h | h
  · rw [if_pos (by positivity)]; exact key t h
  · have h3 : t ^ 3 < 0 := by
      have : t ^ 3 = -((-t) ^ 3) := by ring
      rw [this]; have : 0 < (-t) ^ 3 := by apply pow_pos; linarith
      linarith
    rw [if_neg (by linarith)]
    have : -(t ^ 3) = (-t) ^ 3 := by ring
    rw [this, key (-t) (by linarith)]; ring

/-- rational enclosure of a cube root -/
theorem cbrt_bounds {x a b : ℝ} (ha : 0 ≤ a) (hb : 0 ≤ b) (h1 : a ^ 3 ≤ x) (h2 : x ≤ b ^ 3) :
    a ≤ Real.cbrt x ∧ Real.cbrt x ≤ b := by
  have hx : 0 ≤ x := le_trans (by positivity) h1
  rw [cbrt_of_nonneg hx]
  have e : (1:ℝ) / 3 = ((1:ℕ):ℝ) / ((3:ℕ):ℝ) := by norm_num
  rw [e]
  exact ⟨le_rpow_div 1 3 (by norm_num) hx ha (by simpa using h1),
    rpow_div_le 1 3 (by norm_num) hx hb (by simpa using h2)⟩

/-- slope of the power branch of the BT.709 OETF at its threshold -/
theorem bt709_slope : (0.45 : ℝ) * (0.018 : ℝ) ^ ((0.45 : ℝ) - 1) ≤ 4.11 := by
  have e : (0.45 : ℝ) - 1 = -(((11 : ℕ) : ℝ) / ((20 : ℕ) : ℝ)) := by norm_num
  rw [e, Real.rpow_neg (by norm_num)]
  have lo : (0.1097 : ℝ) ≤ (0.018 : ℝ) ^ (((11 : ℕ) : ℝ) / ((20 : ℕ) : ℝ)) :=
    le_rpow_div 11 20 (by norm_num) (by norm_num) (by norm_num) (by norm_num)
  have : ((0.018 : ℝ) ^ (((11 : ℕ) : ℝ) / ((20 : ℕ) : ℝ)))⁻¹ ≤ (0.1097 : ℝ)⁻¹ :=
    inv_anti₀ (by norm_num) lo
  calc (0.45 : ℝ) * ((0.018 : ℝ) ^ (((11 : ℕ) : ℝ) / ((20 : ℕ) : ℝ)))⁻¹
      ≤ (0.45 : ℝ) * (0.1097 : ℝ)⁻¹ := by gcongr
    _ ≤ 4.11 := by norm_num

/-- the BT.709 OETF is 4.52-Lipschitz on each side of its (discontinuous) threshold -/
theorem bt709_oetf_lipschitz (f : ℝ → ℝ)
    (hf : ∀ L, f L = if L < 0.018 then 4.5 * L else 1.099 * L ^ (0.45 : ℝ) - 0.099)
    {a b : ℝ} (h : (a < 0.018 ∧ b < 0.018) ∨ (0.018 ≤ a ∧ 0.018 ≤ b)) :
    |f b - f a| ≤ 4.52 * |b - a| := by
  have main : ∀ a b : ℝ, a ≤ b → ((a < 0.018 ∧ b < 0.018) ∨ (0.018 ≤ a ∧ 0.018 ≤ b)) →
      |f b - f a| ≤ 4.52 * (b - a) := by
    intro a b hab h
    rw [hf a, hf b]
    rcases h with ⟨ha, hb⟩ | ⟨ha, hb⟩
    · rw [if_pos ha, if_pos hb, abs_le]; constructor <;> linarith
    · rw [if_neg (not_lt.mpr ha), if_neg (not_lt.mpr hb)]
      obtain ⟨h1, h2⟩ := rpow_sub_le (p := 0.45) (by norm_num) (by norm_num)
        (by norm_num : (0:ℝ) < 0.018) ha hab
      have h3 := mul_le_mul_of_nonneg_right bt709_slope (by linarith : (0:ℝ) ≤ b - a)
      rw [abs_le]; constructor <;> nlinarith
  rcases le_total a b with hab | hab
  · rw [abs_of_nonneg (sub_nonneg.mpr hab)]; exact main a b hab h
  · rw [abs_sub_comm, abs_sub_comm b a, abs_of_nonneg (sub_nonneg.mpr hab)]
    exact main b a hab (by tauto)

/-- `x^p` stays as close to 1 as `x` does (0 < p ≤ 1) -/
theorem rpow_near_one {x p ε : ℝ} (hp0 : 0 ≤ p) (hp1 : p ≤ 1) (hx0 : 0 < x) (hx : |x - 1| ≤ ε) :
    |x ^ p - 1| ≤ ε := by
  rw [abs_le] at hx ⊢
  rcases le_total 1 x with h | h
  · have h1 : 1 ≤ x ^ p := Real.one_le_rpow h hp0
    have h2 : x ^ p ≤ x := by
      calc x ^ p ≤ x ^ (1:ℝ) := Real.rpow_le_rpow_of_exponent_le h hp1
        _ = x := Real.rpow_one x
    constructor <;> linarith
  · have h1 : x ^ p ≤ 1 := Real.rpow_le_one hx0.le h hp0
    have h2 : x ≤ x ^ p := by
      calc x = x ^ (1:ℝ) := (Real.rpow_one x).symm
        _ ≤ x ^ p := Real.rpow_le_rpow_of_exponent_ge hx0 h hp1
    constructor <;> linarith

/-- relative perturbation: `|t - l| ≤ ε·l` implies `|t^p - l^p| ≤ ε·l^p` -/
theorem rpow_rel_perturb {l t p ε : ℝ} (hp0 : 0 ≤ p) (hp1 : p ≤ 1) (hl : 0 < l) (ht : 0 < t)
    (h : |t - l| ≤ ε * l) : |t ^ p - l ^ p| ≤ ε * l ^ p := by
  have hlp : 0 < l ^ p := Real.rpow_pos_of_pos hl p
  have hq : |t / l - 1| ≤ ε := by
    have : t / l - 1 = (t - l) / l := by field_simp
    rw [this, abs_div, abs_of_pos hl, div_le_iff₀ hl]; exact h
  have h1 := rpow_near_one hp0 hp1 (div_pos ht hl) hq
  rw [Real.div_rpow ht.le hl.le] at h1
  have : t ^ p - l ^ p = (t ^ p / l ^ p - 1) * l ^ p := by field_simp
  rw [this, abs_mul, abs_of_pos hlp]
  exact mul_le_mul_of_nonneg_right h1 hlp.le

/-- Hölder continuity of `x^p`, 0 < p ≤ 1, on the nonnegative reals -/
theorem rpow_holder {a b p : ℝ} (hp0 : 0 < p) (hp1 : p ≤ 1) (ha : 0 ≤ a) (hb : 0 ≤ b) :
    |a ^ p - b ^ p| ≤ |a - b| ^ p := by
  have main : ∀ a b : ℝ, 0 ≤ a → a ≤ b → |b ^ p - a ^ p| ≤ (b - a) ^ p := by
    intro a b ha hab
    have h1 : a ^ p ≤ b ^ p := Real.rpow_le_rpow ha hab hp0.le
    have h2 := Real.rpow_add_le_add_rpow ha (sub_nonneg.mpr hab) hp0.le hp1
    rw [add_sub_cancel] at h2
    rw [abs_of_nonneg (sub_nonneg.mpr h1)]; linarith
  rcases le_total a b with h | h
  · rw [abs_sub_comm, abs_sub_comm a b, abs_of_nonneg (sub_nonneg.mpr h)]; exact main a b ha h
  · rw [abs_of_nonneg (sub_nonneg.mpr h)]; exact main b a hb h

end Lemmas.CurvesD2
