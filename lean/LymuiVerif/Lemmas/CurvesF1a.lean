import LymuiVerif.Lemmas.Curves
/-!
# Stability of encode ∘ decode at the 8-bit levels, generic in the size of the perturbation

`Lemmas.Curves.srgb_stable` / `argb_stable` fix the linear-light perturbation at `3e-7`.  Here the same
Bernoulli argument is carried out with the perturbation bound, the target accuracy `η` (in 8-bit
levels) and the slope anchor `w0` as parameters, and then instantiated:

* `srgb_stable_wide` : `|δ| ≤ 9e-5`  ⇒ the re-encoded level moves by at most `0.3`;
* `srgb_stable_high` : levels `≥ 64`, `|δ| ≤ 4.6e-4` ⇒ at most `0.3`;
* `argb_stable_wide` : `|δ| ≤ 1.06e-6` ⇒ at most `0.49` (worst case level 0: `255·δ^(256/563)`).

All statements are about the GENERATED curve functions.
-/
namespace Lemmas.CurvesF1a
open Gen Lemmas.Rpow Lemmas.Curves

private theorem e24 : (2.4 : ℝ) = ((12 : ℕ) : ℝ) / ((5 : ℕ) : ℝ) := by norm_num
private theorem e14 : (2.4 : ℝ) - 1 = ((7 : ℕ) : ℝ) / ((5 : ℕ) : ℝ) := by norm_num
private theorem eA1 : (563 : ℝ) / 256 - 1 = ((307 : ℕ) : ℝ) / ((256 : ℕ) : ℝ) := by norm_num
private theorem eAi : (1 : ℝ) / ((563 : ℝ) / 256) = ((256 : ℕ) : ℝ) / ((563 : ℕ) : ℝ) := by norm_num

/-! ## sRGB -/

/-- on the linear segment (levels 0..10) the re-encoded level is EXACTLY `n + 3294.6·δ`
(`3294.6 = 12.92·255`), as long as `|δ| ≤ 9.5e-5` keeps the argument below the encoder threshold. -/
theorem srgb_stable_low (n : ℕ) (h10 : n ≤ 10) (δ : ℝ) (hδ : δ ≤ 9.5e-5) :
    F64.apply_srgb_gamma_correction (F64.compute_srgb_gamma_expanded ((n : ℝ) / 255) + δ) * 255 - n
      = δ * 3294.6 := by
  have h10' : (n : ℝ) ≤ 10 := by exact_mod_cast h10
  have hn0 : (0 : ℝ) ≤ n := Nat.cast_nonneg n
  have e1 : (n : ℝ) / 255 / 12.92 = (n : ℝ) * (5 / 16473) := by ring
  rw [srgb_dec_lin (by linarith), srgb_enc_lin (by rw [e1]; linarith)]
  ring

/-- **generic power-segment stability** of the sRGB pair.  `w0` (a real "level" ≥ 10.4) anchors the
slope: with `κ ≤ A(w0)^1.4`, `A(w) = (w/255 + 0.055)/1.055`, every level `n ≥ w0 + η` tolerates a
linear-light error `|δ| ≤ 2.4·(η/255/1.055)·κ` with a re-encoded level within `η` of `n`. -/
theorem srgb_stable_pow (w0 κ η : ℝ) (hw0 : 10.4 ≤ w0) (hη : 0 ≤ η)
    (hbr : (0.0031308 : ℝ) < ((w0 / 255 + 0.055) / 1.055) ^ (2.4 : ℝ))
    (hκ : κ ≤ ((w0 / 255 + 0.055) / 1.055) ^ ((2.4 : ℝ) - 1))
    (n : ℕ) (hn : w0 + η ≤ n) (δ : ℝ) (hδ : |δ| ≤ 2.4 * (η / 255 / 1.055) * κ) :
    |F64.apply_srgb_gamma_correction (F64.compute_srgb_gamma_expanded ((n : ℝ) / 255) + δ) * 255 - n|
      ≤ η := by
  obtain ⟨hδ1, hδ2⟩ := abs_le.mp hδ
  set A : ℝ := ((n : ℝ) / 255 + 0.055) / 1.055 with hA
  set Am : ℝ := (((n : ℝ) - η) / 255 + 0.055) / 1.055 with hAm
  set Ap : ℝ := (((n : ℝ) + η) / 255 + 0.055) / 1.055 with hAp
  set A0 : ℝ := (w0 / 255 + 0.055) / 1.055 with hA0
  have hA0pos : 0 < A0 := by rw [hA0]; apply div_pos _ (by norm_num); linarith
  have h0m : A0 ≤ Am := by rw [hA0, hAm]; apply div_le_div_of_nonneg_right _ (by norm_num); linarith
  have hmA : Am ≤ A := by rw [hA, hAm]; apply div_le_div_of_nonneg_right _ (by norm_num); linarith
  have hAp' : A ≤ Ap := by rw [hA, hAp]; apply div_le_div_of_nonneg_right _ (by norm_num); linarith
  have hdm : A - Am = η / 255 / 1.055 := by rw [hA, hAm]; ring
  have hdp : Ap - A = η / 255 / 1.055 := by rw [hA, hAp]; ring
  have hAmpos : 0 < Am := lt_of_lt_of_le hA0pos h0m
  have s1 := rpow_step_lb (p := 2.4) hA0pos h0m hmA (by norm_num) hκ
  have s2 := rpow_step_lb (p := 2.4) hA0pos (h0m.trans hmA) hAp' (by norm_num) hκ
  rw [hdm] at s1; rw [hdp] at s2
  have hb0 : A0 ^ (2.4 : ℝ) ≤ Am ^ (2.4 : ℝ) := Real.rpow_le_rpow hA0pos.le h0m (by norm_num)
  have hlev : (0.04045 : ℝ) < (n : ℝ) / 255 := by
    rw [lt_div_iff₀ (by norm_num)]; linarith
  rw [srgb_dec_pow hlev]
  rw [← hA]
  set t : ℝ := A ^ (2.4 : ℝ) + δ with ht
  have ht1 : Am ^ (2.4 : ℝ) ≤ t := by rw [ht]; linarith
  have ht2 : t ≤ Ap ^ (2.4 : ℝ) := by rw [ht]; linarith
  have htpos : 0.0031308 < t := by linarith
  rw [srgb_enc_pow htpos]
  have r1 : Am ≤ t ^ ((1 : ℝ) / 2.4) := by
    have := Real.rpow_le_rpow (Real.rpow_nonneg hAmpos.le _) ht1 (by norm_num : (0:ℝ) ≤ 1 / 2.4)
    rwa [rpow_rpow_inv hAmpos.le (by norm_num)] at this
  have r2 : t ^ ((1 : ℝ) / 2.4) ≤ Ap := by
    have := Real.rpow_le_rpow (by linarith) ht2 (by norm_num : (0:ℝ) ≤ 1 / 2.4)
    rwa [rpow_rpow_inv (by linarith) (by norm_num)] at this
  have em : 1.055 * Am = ((n : ℝ) - η) / 255 + 0.055 := by rw [hAm]; field_simp
  have ep : 1.055 * Ap = ((n : ℝ) + η) / 255 + 0.055 := by rw [hAp]; field_simp
  rw [abs_le]; constructor <;> linarith

/-- `A(10.7)^2.4 > 0.0031308` -/
theorem srgb_fact_branch_107 : (0.0031308 : ℝ) < ((10.7 / 255 + 0.055) / 1.055) ^ (2.4 : ℝ) := by
  rw [e24]
  exact lt_rpow_of_pow_lt (by norm_num) (by norm_num) 12 5 (by norm_num) (by norm_num)

/-- `A(10.7)^1.4 ≥ 0.0353` -/
theorem srgb_fact_slope_107 : (0.0353 : ℝ) ≤ ((10.7 / 255 + 0.055) / 1.055) ^ ((2.4 : ℝ) - 1) := by
  rw [e14]
  exact le_rpow_of_pow_le (by norm_num) (by norm_num) 7 5 (by norm_num) (by norm_num)

/-- `A(63.7)^2.4 > 0.0031308` -/
theorem srgb_fact_branch_637 : (0.0031308 : ℝ) < ((63.7 / 255 + 0.055) / 1.055) ^ (2.4 : ℝ) := by
  rw [e24]
  exact lt_rpow_of_pow_lt (by norm_num) (by norm_num) 12 5 (by norm_num) (by norm_num)

/-- `A(63.7)^1.4 ≥ 0.175` -/
theorem srgb_fact_slope_637 : (0.175 : ℝ) ≤ ((63.7 / 255 + 0.055) / 1.055) ^ ((2.4 : ℝ) - 1) := by
  rw [e14]
  exact le_rpow_of_pow_le (by norm_num) (by norm_num) 7 5 (by norm_num) (by norm_num)

/-- **wide stability of the sRGB pair at the 8-bit levels**: a linear-light error of at most `9e-5`
moves the re-encoded level `n` by at most 0.3.  (The limit of this kind of statement is
`0.5/3294.6 ≈ 1.5e-4`; `9e-5` keeps levels 0..10 on the linear segment of the encoder.) -/
theorem srgb_stable_wide (n : ℕ) (_hn : n ≤ 255) (δ : ℝ) (hδ : |δ| ≤ 9e-5) :
    |F64.apply_srgb_gamma_correction (F64.compute_srgb_gamma_expanded ((n : ℝ) / 255) + δ) * 255 - n|
      ≤ 0.3 := by
  by_cases h10 : n ≤ 10
  · obtain ⟨hδ1, hδ2⟩ := abs_le.mp hδ
    rw [srgb_stable_low n h10 δ (by linarith), abs_le]
    constructor <;> linarith
  · rw [not_le] at h10
    have h11 : (11 : ℝ) ≤ n := by exact_mod_cast h10
    exact srgb_stable_pow 10.7 0.0353 0.3 (by norm_num) (by norm_num) srgb_fact_branch_107
      srgb_fact_slope_107 n (by linarith) δ (hδ.trans (by norm_num))

/-- from level 64 on, a linear-light error of `4.6e-4` still moves the level by at most 0.3 -/
theorem srgb_stable_high (n : ℕ) (h64 : 64 ≤ n) (δ : ℝ) (hδ : |δ| ≤ 4.6e-4) :
    |F64.apply_srgb_gamma_correction (F64.compute_srgb_gamma_expanded ((n : ℝ) / 255) + δ) * 255 - n|
      ≤ 0.3 := by
  have h64' : (64 : ℝ) ≤ n := by exact_mod_cast h64
  exact srgb_stable_pow 63.7 0.175 0.3 (by norm_num) (by norm_num) srgb_fact_branch_637
    srgb_fact_slope_637 n (by linarith) δ (hδ.trans (by norm_num))

/-! ## Adobe RGB -/

/-- **generic stability of the Adobe pair** away from level 0: with `κ ≤ (w0/255)^(307/256)`, every
level `n ≥ w0 + η` tolerates `|δ| ≤ (563/256)·(η/255)·κ` with a re-encoded level within `η`. -/
theorem argb_stable_pow (w0 κ η : ℝ) (hw0 : 0 < w0) (hη : 0 ≤ η)
    (hκ : κ ≤ (w0 / 255) ^ ((563 : ℝ) / 256 - 1))
    (n : ℕ) (hn : w0 + η ≤ n) (δ : ℝ) (hδ : |δ| ≤ (563 : ℝ) / 256 * (η / 255) * κ) :
    |F64.compute_argb_gamma_expanded (F64.compute_argb_gamma ((n : ℝ) / 255) + δ) * 255 - n|
      ≤ η := by
  obtain ⟨hδ1, hδ2⟩ := abs_le.mp hδ
  set u : ℝ := (n : ℝ) / 255 with hu
  set um : ℝ := ((n : ℝ) - η) / 255 with hum
  set up : ℝ := ((n : ℝ) + η) / 255 with hup
  have hu0pos : (0 : ℝ) < w0 / 255 := by positivity
  have h0m : w0 / 255 ≤ um := by rw [hum]; apply div_le_div_of_nonneg_right _ (by norm_num); linarith
  have hmu : um ≤ u := by rw [hu, hum]; apply div_le_div_of_nonneg_right _ (by norm_num); linarith
  have hup' : u ≤ up := by rw [hu, hup]; apply div_le_div_of_nonneg_right _ (by norm_num); linarith
  have hdm : u - um = η / 255 := by rw [hu, hum]; ring
  have hdp : up - u = η / 255 := by rw [hu, hup]; ring
  have humpos : 0 < um := lt_of_lt_of_le hu0pos h0m
  have hupos : 0 < u := lt_of_lt_of_le humpos hmu
  have s1 := rpow_step_lb (p := (563 : ℝ) / 256) hu0pos h0m hmu (by norm_num) hκ
  have s2 := rpow_step_lb (p := (563 : ℝ) / 256) hu0pos (h0m.trans hmu) hup' (by norm_num) hκ
  rw [hdm] at s1; rw [hdp] at s2
  have hmpos : 0 < um ^ ((563 : ℝ) / 256) := Real.rpow_pos_of_pos humpos _
  rw [argb_dec_nonneg hupos.le]
  set t : ℝ := u ^ ((563 : ℝ) / 256) + δ with ht
  have ht1 : um ^ ((563 : ℝ) / 256) ≤ t := by rw [ht]; linarith
  have ht2 : t ≤ up ^ ((563 : ℝ) / 256) := by rw [ht]; linarith
  have htpos : 0 < t := by linarith
  rw [argb_enc_pos htpos]
  have r1 : um ≤ t ^ ((1 : ℝ) / ((563 : ℝ) / 256)) := by
    have := Real.rpow_le_rpow hmpos.le ht1 (by norm_num : (0:ℝ) ≤ 1 / ((563 : ℝ) / 256))
    rwa [rpow_rpow_inv humpos.le (by norm_num)] at this
  have r2 : t ^ ((1 : ℝ) / ((563 : ℝ) / 256)) ≤ up := by
    have := Real.rpow_le_rpow htpos.le ht2 (by norm_num : (0:ℝ) ≤ 1 / ((563 : ℝ) / 256))
    rwa [rpow_rpow_inv (by linarith) (by norm_num)] at this
  have em : um * 255 = (n : ℝ) - η := by rw [hum]; field_simp
  have ep : up * 255 = (n : ℝ) + η := by rw [hup]; field_simp
  rw [abs_le]; constructor <;> linarith

set_option exponentiation.threshold 600 in
/-- level 0 of the Adobe encode: `(1.06e-6)^(256/563) ≤ 0.49/255` (the limit for `0.5/255` is
`1.1067e-6`: beyond it a black channel re-quantises to 1). -/
theorem argb_fact_zero_wide : ((1.06e-6 : ℝ)) ^ ((1 : ℝ) / ((563 : ℝ) / 256)) ≤ 0.49 / 255 := by
  rw [eAi]
  exact rpow_le_of_le_pow (by norm_num) (by norm_num) 256 563 (by norm_num) (by norm_num)

/-- level 0 of the Adobe pair: a linear-light error `δ ≤ δ0` with `δ0^(256/563) ≤ η/255` re-encodes
to at most `η` (nonpositive arguments are clamped to 0 by the code's guard). -/
theorem argb_stable_zero (δ0 η : ℝ) (hη : 0 ≤ η)
    (h0 : δ0 ^ ((1 : ℝ) / ((563 : ℝ) / 256)) ≤ η / 255) (δ : ℝ) (hδ : δ ≤ δ0) :
    |F64.compute_argb_gamma_expanded (F64.compute_argb_gamma (((0 : ℕ) : ℝ) / 255) + δ) * 255 - (0 : ℕ)|
      ≤ η := by
  simp only [Nat.cast_zero, zero_div, argb_dec_zero, zero_add, sub_zero]
  by_cases hd : δ ≤ 0
  · rw [argb_enc_nonpos hd]; simpa using hη
  · rw [not_le] at hd
    rw [argb_enc_pos hd]
    have h1 : δ ^ ((1 : ℝ) / ((563 : ℝ) / 256)) ≤ δ0 ^ ((1 : ℝ) / ((563 : ℝ) / 256)) :=
      Real.rpow_le_rpow hd.le hδ (by norm_num)
    have h3 : 0 ≤ δ ^ ((1 : ℝ) / ((563 : ℝ) / 256)) := Real.rpow_nonneg hd.le _
    rw [abs_le]; constructor <;> linarith

/-- **wide stability of the Adobe pair at the 8-bit levels**: a linear-light error of at most
`1.06e-6` moves the re-encoded level by at most 0.49.  The constraint comes from level 0 alone
(infinite slope of `v ↦ v^(256/563)` at 0); all levels `≥ 1` tolerate `2.4e-6` with 0.4. -/
theorem argb_stable_wide (n : ℕ) (_hn : n ≤ 255) (δ : ℝ) (hδ : |δ| ≤ 1.06e-6) :
    |F64.compute_argb_gamma_expanded (F64.compute_argb_gamma ((n : ℝ) / 255) + δ) * 255 - n|
      ≤ 0.49 := by
  by_cases h0 : n = 0
  · subst h0
    exact argb_stable_zero 1.06e-6 0.49 (by norm_num) argb_fact_zero_wide δ (abs_le.mp hδ).2
  · have h1 : (1 : ℝ) ≤ n := by exact_mod_cast Nat.one_le_iff_ne_zero.mpr h0
    have := argb_stable_pow 0.6 7e-4 0.4 (by norm_num) (by norm_num) argb_fact_slope n
      (by linarith) δ (hδ.trans (by norm_num))
    exact this.trans (by norm_num)

/-! ## relative + absolute perturbations (for round trips through a slightly different matrix pair) -/

/-- `dec(63/255) ≤ 0.051` -/
theorem srgb_dec_63 : F64.compute_srgb_gamma_expanded ((63 : ℝ) / 255) ≤ 0.051 := by
  rw [srgb_dec_pow (by norm_num), e24]
  exact rpow_le_of_le_pow (by norm_num) (by norm_num) 12 5 (by norm_num) (by norm_num)

/-- **stability of the sRGB pair under a relative + absolute linear-light error**
`|δ| ≤ 2.4e-4·lin + 7e-5`, `lin = dec(n/255)`: the re-encoded level moves by at most 0.3. -/
theorem srgb_stable_rel (n : ℕ) (hn : n ≤ 255) (δ : ℝ)
    (hδ : |δ| ≤ 2.4e-4 * F64.compute_srgb_gamma_expanded ((n : ℝ) / 255) + 7e-5) :
    |F64.apply_srgb_gamma_correction (F64.compute_srgb_gamma_expanded ((n : ℝ) / 255) + δ) * 255 - n|
      ≤ 0.3 := by
  by_cases h63 : n ≤ 63
  · have h63' : (n : ℝ) / 255 ≤ (63 : ℝ) / 255 :=
      div_le_div_of_nonneg_right (by exact_mod_cast h63) (by norm_num)
    have := srgb_dec_strictMono.monotone h63'
    exact srgb_stable_wide n hn δ (hδ.trans (by linarith [srgb_dec_63]))
  · rw [not_le] at h63
    have h1 : (n : ℝ) / 255 ≤ 1 := by
      rw [div_le_one (by norm_num)]; exact_mod_cast hn
    have := srgb_dec_strictMono.monotone h1
    rw [srgb_dec_one] at this
    exact srgb_stable_high n h63 δ (hδ.trans (by linarith))

set_option exponentiation.threshold 600 in
/-- `(19.6/255)^(307/256) ≥ 0.046` -/
theorem argb_fact_slope_196 : (0.046 : ℝ) ≤ ((19.6 : ℝ) / 255) ^ ((563 : ℝ) / 256 - 1) := by
  rw [eA1]
  exact le_rpow_of_pow_le (by norm_num) (by norm_num) 307 256 (by norm_num) (by norm_num)

set_option exponentiation.threshold 600 in
/-- `(99.6/255)^(307/256) ≥ 0.32` -/
theorem argb_fact_slope_996 : (0.32 : ℝ) ≤ ((99.6 : ℝ) / 255) ^ ((563 : ℝ) / 256 - 1) := by
  rw [eA1]
  exact le_rpow_of_pow_le (by norm_num) (by norm_num) 307 256 (by norm_num) (by norm_num)

private theorem eA : (563 : ℝ) / 256 = ((563 : ℕ) : ℝ) / ((256 : ℕ) : ℝ) := by norm_num

set_option exponentiation.threshold 600 in
/-- `dec_A(19/255) ≤ 3.4e-3` -/
theorem argb_dec_19 : F64.compute_argb_gamma ((19 : ℝ) / 255) ≤ 3.4e-3 := by
  rw [argb_dec_nonneg (by norm_num), eA]
  exact rpow_le_of_le_pow (by norm_num) (by norm_num) 563 256 (by norm_num) (by norm_num)

set_option exponentiation.threshold 600 in
/-- `dec_A(99/255) ≤ 0.125` -/
theorem argb_dec_99 : F64.compute_argb_gamma ((99 : ℝ) / 255) ≤ 0.125 := by
  rw [argb_dec_nonneg (by norm_num), eA]
  exact rpow_le_of_le_pow (by norm_num) (by norm_num) 563 256 (by norm_num) (by norm_num)

theorem argb_dec_level_mono {m n : ℕ} (h : m ≤ n) :
    F64.compute_argb_gamma ((m : ℝ) / 255) ≤ F64.compute_argb_gamma ((n : ℝ) / 255) :=
  argb_dec_strictMonoOn.monotoneOn (Set.mem_Ici.mpr (by positivity)) (Set.mem_Ici.mpr (by positivity))
    (div_le_div_of_nonneg_right (by exact_mod_cast h) (by norm_num))

/-- **stability of the Adobe pair under a relative + absolute linear-light error**
`|δ| ≤ 2.4e-4·lin + 1e-6`, `lin = dec(n/255)`: the re-encoded level moves by at most 0.49. -/
theorem argb_stable_rel (n : ℕ) (hn : n ≤ 255) (δ : ℝ)
    (hδ : |δ| ≤ 2.4e-4 * F64.compute_argb_gamma ((n : ℝ) / 255) + 1e-6) :
    |F64.compute_argb_gamma_expanded (F64.compute_argb_gamma ((n : ℝ) / 255) + δ) * 255 - n|
      ≤ 0.49 := by
  by_cases h0 : n = 0
  · subst h0
    simp only [Nat.cast_zero, zero_div, argb_dec_zero, mul_zero, zero_add] at hδ
    have := argb_stable_wide 0 (by norm_num) δ (hδ.trans (by norm_num))
    simpa using this
  have h1 : (1 : ℝ) ≤ n := by exact_mod_cast Nat.one_le_iff_ne_zero.mpr h0
  by_cases h19 : n ≤ 19
  · have hm := argb_dec_level_mono h19
    have e : ((19 : ℕ) : ℝ) = 19 := by norm_num
    rw [e] at hm
    have := argb_stable_pow 0.6 7e-4 0.4 (by norm_num) (by norm_num) argb_fact_slope n
      (by linarith) δ (hδ.trans (by linarith [argb_dec_19]))
    exact this.trans (by norm_num)
  rw [not_le] at h19
  have h20 : (20 : ℝ) ≤ n := by exact_mod_cast h19
  by_cases h99 : n ≤ 99
  · have hm := argb_dec_level_mono h99
    have e : ((99 : ℕ) : ℝ) = 99 := by norm_num
    rw [e] at hm
    have := argb_stable_pow 19.6 0.046 0.4 (by norm_num) (by norm_num) argb_fact_slope_196 n
      (by linarith) δ (hδ.trans (by linarith [argb_dec_99]))
    exact this.trans (by norm_num)
  rw [not_le] at h99
  have h100 : (100 : ℝ) ≤ n := by exact_mod_cast h99
  have hm := argb_dec_level_mono hn
  have e : ((255 : ℕ) : ℝ) / 255 = 1 := by norm_num
  rw [e, argb_dec_one] at hm
  have := argb_stable_pow 99.6 0.32 0.4 (by norm_num) (by norm_num) argb_fact_slope_996 n
    (by linarith) δ (hδ.trans (by linarith))
  exact this.trans (by norm_num)

/-! ## the sRGB pair close to the limit `0.5/3294.6 ≈ 1.5176e-4` -/

/-- linear segment, general form: as long as the perturbed value stays below the encoder threshold -/
theorem srgb_stable_low' (n : ℕ) (h10 : n ≤ 10) (δ : ℝ)
    (hδ : (n : ℝ) / 255 / 12.92 + δ ≤ 0.0031308) :
    F64.apply_srgb_gamma_correction (F64.compute_srgb_gamma_expanded ((n : ℝ) / 255) + δ) * 255 - n
      = δ * 3294.6 := by
  have h10' : (n : ℝ) ≤ 10 := by exact_mod_cast h10
  have hn0 : (0 : ℝ) ≤ n := Nat.cast_nonneg n
  rw [srgb_dec_lin (by rw [div_le_iff₀ (by norm_num)]; linarith), srgb_enc_lin hδ]
  ring

theorem srgb_fact_branch_10505 : (0.0031308 : ℝ) < ((10.505 / 255 + 0.055) / 1.055) ^ (2.4 : ℝ) := by
  rw [e24]
  exact lt_rpow_of_pow_lt (by norm_num) (by norm_num) 12 5 (by norm_num) (by norm_num)

theorem srgb_fact_slope_10505 : (0.03495 : ℝ) ≤ ((10.505 / 255 + 0.055) / 1.055) ^ ((2.4 : ℝ) - 1) := by
  rw [e14]
  exact le_rpow_of_pow_le (by norm_num) (by norm_num) 7 5 (by norm_num) (by norm_num)

/-- `A(9.6)^2.4 ≤ 0.0031308` -/
theorem srgb_fact_96 : ((9.6 / 255 + 0.055) / 1.055 : ℝ) ^ (2.4 : ℝ) ≤ 0.0031308 := by
  rw [e24]
  exact rpow_le_of_le_pow (by norm_num) (by norm_num) 12 5 (by norm_num) (by norm_num)

/-- `A(10.495)^2.4 ≥ 0.0031804` (= lin(10) + 1.45e-4, rounded up) -/
theorem srgb_fact_10495 : (0.0031804 : ℝ) ≤ ((10.495 / 255 + 0.055) / 1.055) ^ (2.4 : ℝ) := by
  rw [e24]
  exact le_rpow_of_pow_le (by norm_num) (by norm_num) 12 5 (by norm_num) (by norm_num)

/-- **stability of the sRGB pair at the 8-bit levels, near-maximal tolerance**: a linear-light error of
at most `1.45e-4` moves the re-encoded level by at most 0.495.  (At `1.5176e-4` level 0..10 would
move by 0.5.)  Level 10 with a positive error may cross the encoder threshold 0.0031308 into the power
segment; that case is handled by monotonicity of the power segment between `A(9.6)` and `A(10.495)`. -/
theorem srgb_stable_max (n : ℕ) (_hn : n ≤ 255) (δ : ℝ) (hδ : |δ| ≤ 1.45e-4) :
    |F64.apply_srgb_gamma_correction (F64.compute_srgb_gamma_expanded ((n : ℝ) / 255) + δ) * 255 - n|
      ≤ 0.495 := by
  obtain ⟨hδ1, hδ2⟩ := abs_le.mp hδ
  have hn0 : (0 : ℝ) ≤ n := Nat.cast_nonneg n
  by_cases h10 : n ≤ 10
  · have h10' : (n : ℝ) ≤ 10 := by exact_mod_cast h10
    have e1 : (n : ℝ) / 255 / 12.92 = (n : ℝ) * (5 / 16473) := by ring
    by_cases hbr : (n : ℝ) / 255 / 12.92 + δ ≤ 0.0031308
    · rw [srgb_stable_low' n h10 δ hbr, abs_le]
      constructor <;> linarith
    · rw [not_le] at hbr
      -- only level 10 can cross
      have h9 : ¬ n ≤ 9 := by
        intro h9
        have h9' : (n : ℝ) ≤ 9 := by exact_mod_cast h9
        rw [e1] at hbr; linarith
      have hn10 : n = 10 := by omega
      subst hn10
      rw [srgb_dec_lin (by norm_num)]
      set t : ℝ := ((10 : ℕ) : ℝ) / 255 / 12.92 + δ with ht
      have ht2 : t ≤ 0.0031804 := by rw [ht]; norm_num; linarith
      rw [srgb_enc_pow hbr]
      have hAm : (0 : ℝ) ≤ (9.6 / 255 + 0.055) / 1.055 := by norm_num
      have hAp : (0 : ℝ) ≤ (10.495 / 255 + 0.055) / 1.055 := by norm_num
      have r1 : (9.6 / 255 + 0.055) / 1.055 ≤ t ^ ((1 : ℝ) / 2.4) := by
        have := Real.rpow_le_rpow (Real.rpow_nonneg hAm _) (srgb_fact_96.trans hbr.le)
          (by norm_num : (0:ℝ) ≤ 1 / 2.4)
        rwa [rpow_rpow_inv hAm (by norm_num)] at this
      have r2 : t ^ ((1 : ℝ) / 2.4) ≤ (10.495 / 255 + 0.055) / 1.055 := by
        have := Real.rpow_le_rpow (by linarith) (ht2.trans srgb_fact_10495)
          (by norm_num : (0:ℝ) ≤ 1 / 2.4)
        rwa [rpow_rpow_inv hAp (by norm_num)] at this
      rw [abs_le]
      constructor
      · have : (1.055 : ℝ) * ((9.6 / 255 + 0.055) / 1.055) = 9.6 / 255 + 0.055 := by field_simp
        norm_num at this ⊢; nlinarith
      · have : (1.055 : ℝ) * ((10.495 / 255 + 0.055) / 1.055) = 10.495 / 255 + 0.055 := by field_simp
        norm_num at this ⊢; nlinarith
  · rw [not_le] at h10
    have h11 : (11 : ℝ) ≤ n := by exact_mod_cast h10
    exact srgb_stable_pow 10.505 0.03495 0.495 (by norm_num) (by norm_num) srgb_fact_branch_10505
      srgb_fact_slope_10505 n (by linarith) δ (hδ.trans (by norm_num))

end Lemmas.CurvesF1a
