import LymuiVerif.Inst.RoundedPartialO
import LymuiVerif.Lemmas.FpDefinedColour
import LymuiVerif.Lemmas.FpCie
/-!
# No overflow in the rounded model (C04 "no infinity"): lifts, homomorphism lemmas with magnitude side conditions,
# the bound tactic, transfer curves

`RF.liftO : RF M → PRFo M` embeds a rounded number as a finite number of the carrier WITH overflow
(`Inst/RoundedPartialO.lean`).  A bridging lemma `f (liftO x) = liftO (f x)` says: in the `PRFo M` run of `f` on finite
inputs every division has a non-zero computed divisor, every `powf` a non-negative computed base, every `sqrt` a
non-negative computed argument (as in `Lemmas/FpDefined*.lean`), AND every produced number has magnitude `≤ FP.omega`.

The homomorphism lemmas `ho_*` carry `|(a ∘ b).val| ≤ FP.omega` as a side condition.  The tactic `obound` discharges
it: it bounds the magnitude of an `RF M` expression by a closed rational expression, recursively over the syntax of the
expression (`bd_add`, `bd_mul`, `bd_div` with a lower bound on the divisor, `bd_pow`, …; leaves are hypotheses
`|x.val| ≤ c` of the context), and compares the result with `10^250 ≤ FP.omega` by `norm_num`.  Bounds are crude
(`|rnd x| ≤ 1.01·B + 1`), which is all that is needed: the crude bounds on the paths of the crate stay below `1e70`.

Continued in `FpOverflowRgb`, `FpOverflowXyz`, `FpOverflowLuv`, `FpOverflowRev`; property file `Props/C04_fp_overflow.lean`.
-/
set_option linter.unusedSimpArgs false
set_option linter.unusedVariables false
namespace Lemmas.FpOverflow
open Gen Lemmas.FpDefined
variable {M : FPModel}

/-! ## magnitude bounds of `RF M` expressions -/
theorem bd_add {a b : RF M} {A B : ℝ} (ha : |a.val| ≤ A) (hb : |b.val| ≤ B) : |(a + b).val| ≤ 1.01 * (A + B) + 1 :=
  FltPRFo.abs_rnd_le M (le_trans (abs_add_le _ _) (add_le_add ha hb))
theorem bd_sub {a b : RF M} {A B : ℝ} (ha : |a.val| ≤ A) (hb : |b.val| ≤ B) : |(a - b).val| ≤ 1.01 * (A + B) + 1 :=
  FltPRFo.abs_rnd_le M (le_trans (abs_sub _ _) (add_le_add ha hb))
theorem bd_mul {a b : RF M} {A B : ℝ} (ha : |a.val| ≤ A) (hb : |b.val| ≤ B) : |(a * b).val| ≤ 1.01 * (A * B) + 1 := by
  refine FltPRFo.abs_rnd_le M ?_
  rw [abs_mul]; exact mul_le_mul ha hb (abs_nonneg _) (le_trans (abs_nonneg _) ha)
/-- a quotient: upper bound on the numerator, POSITIVE LOWER bound on the magnitude of the divisor — or the divisor is
exactly `0` (a guarded site: the `RF M` value of `a / 0` is `rnd 0 = 0`; the `PRFo` run never gets there, this case
only serves to bound the `RF` expression on the other side of a guard) -/
theorem bd_div {a b : RF M} {A L : ℝ} (ha : |a.val| ≤ A) (hb : b.val = 0 ∨ L ≤ |b.val|) (hL : 0 < L) :
    |(a / b).val| ≤ 1.01 * (A / L) + 1 := by
  have hA := le_trans (abs_nonneg _) ha
  rcases hb with hb | hb
  · rw [FltRF.div_val, hb, div_zero, FpErr.rnd_zero, abs_zero]
    have : 0 ≤ A / L := div_nonneg hA hL.le
    linarith
  · refine FltPRFo.abs_rnd_le M ?_
    rw [abs_div]; exact div_le_div₀ hA ha hL hb
theorem bd_neg {a : RF M} {A : ℝ} (ha : |a.val| ≤ A) : |(-a).val| ≤ A := by
  rw [FltRF.neg_val, abs_neg]; exact ha
theorem bd_lit (b : UInt64) (n d : ℕ) : |(Flt.lit b n d : RF M).val| ≤ 1.01 * ((n : ℝ) / (d : ℝ)) + 1 :=
  FltPRFo.abs_rnd_le M (by rw [abs_of_nonneg (by positivity)])
theorem bd_byte {n : ℕ} (h : n ≤ 255) : |(Flt.ofNat n : RF M).val| ≤ 255 := by
  rw [FltRF.ofNat_val, abs_of_nonneg (by positivity)]; exact_mod_cast h
theorem bd_abs {a : RF M} {A : ℝ} (ha : |a.val| ≤ A) : |(Flt.abs a).val| ≤ A := by
  rw [FltRF.abs_val, abs_abs]; exact ha
theorem bd_max {a b : RF M} {A B : ℝ} (ha : |a.val| ≤ A) (hb : |b.val| ≤ B) : |(Flt.max a b).val| ≤ A + B := by
  rw [FltRF.max_val]
  have h1 := abs_nonneg a.val; have h2 := abs_nonneg b.val
  have := abs_max_le_max_abs_abs (a := a.val) (b := b.val)
  have := max_le_add_of_nonneg h1 h2
  linarith
theorem bd_min {a b : RF M} {A B : ℝ} (ha : |a.val| ≤ A) (hb : |b.val| ≤ B) : |(Flt.min a b).val| ≤ A + B := by
  rw [FltRF.min_val]
  have h1 := abs_nonneg a.val; have h2 := abs_nonneg b.val
  have := abs_min_le_max_abs_abs (a := a.val) (b := b.val)
  have := max_le_add_of_nonneg h1 h2
  linarith
theorem bd_ite {c : Prop} [Decidable c] {a b : RF M} {A B : ℝ} (ha : |a.val| ≤ A) (hb : |b.val| ≤ B) :
    |(if c then a else b).val| ≤ A + B := by
  have h1 := le_trans (abs_nonneg _) ha; have h2 := le_trans (abs_nonneg _) hb
  split_ifs <;> linarith
theorem bd_sqrt {a : RF M} {A : ℝ} (ha : |a.val| ≤ A) : |(Flt.sqrt a).val| ≤ 1.01 * (A + 1) + 1 := by
  refine FltPRFo.abs_rnd_le M ?_
  rw [abs_of_nonneg (Real.sqrt_nonneg _)]
  have h0 := abs_nonneg a.val
  have : Real.sqrt a.val ≤ |a.val| + 1 := by
    rw [Real.sqrt_le_iff]; refine ⟨by linarith, ?_⟩
    have := le_abs_self a.val; nlinarith
  linarith
theorem abs_cbrt_le (x : ℝ) : |Real.cbrt x| ≤ |x| + 1 := by
  have key : ∀ t : ℝ, 0 ≤ t → t ^ ((1 : ℝ) / 3) ≤ t + 1 := by
    intro t ht
    calc t ^ ((1 : ℝ) / 3) ≤ (t + 1) ^ ((1 : ℝ) / 3) := Real.rpow_le_rpow ht (by linarith) (by norm_num)
      _ ≤ (t + 1) ^ (1 : ℝ) := Real.rpow_le_rpow_of_exponent_le (by linarith) (by norm_num)
      _ = t + 1 := Real.rpow_one _
  unfold Real.cbrt
  split_ifs with h
  · rw [abs_of_nonneg (Real.rpow_nonneg h _), abs_of_nonneg h]; exact key x h
  · have hn : 0 ≤ -x := by linarith
    rw [abs_neg, abs_of_nonneg (Real.rpow_nonneg hn _), abs_of_neg (not_le.mp h)]; exact key _ hn
theorem bd_cbrt {a : RF M} {A : ℝ} (ha : |a.val| ≤ A) : |(Flt.cbrt a).val| ≤ 1.01 * (A + 1) + 1 := by
  refine FltPRFo.abs_rnd_le M ?_
  have := abs_cbrt_le a.val; linarith
/-- `powf`, non-negative base, exponent in `[0, n]` -/
theorem bd_pow (n : ℕ) {a b : RF M} {A Y : ℝ} (h0 : 0 ≤ a.val) (hb0 : 0 ≤ b.val) (ha : |a.val| ≤ A) (hb : |b.val| ≤ Y)
    (hn : Y ≤ n) : |(Flt.pow a b).val| ≤ 1.01 * (A + 1) ^ n + 1 := by
  rw [FltRF.pow_val]
  have h1 := FltPRFo.abs_pow_le M (x := a.val) (y := b.val) h0
  have hA : a.val ≤ A + 1 := by have := le_abs_self a.val; linarith
  have hA1 : (1 : ℝ) ≤ A + 1 := by have := abs_nonneg a.val; linarith
  have hbn : b.val ≤ (n : ℝ) := le_trans (le_trans (le_abs_self _) hb) hn
  have : a.val ^ b.val ≤ (A + 1) ^ n :=
    calc a.val ^ b.val ≤ (A + 1) ^ b.val := Real.rpow_le_rpow h0 hA hb0
      _ ≤ (A + 1) ^ (n : ℝ) := Real.rpow_le_rpow_of_exponent_le hA1 hbn
      _ = (A + 1) ^ n := Real.rpow_natCast _ _
  linarith
theorem bd_powi2 {a : RF M} {A : ℝ} (ha : |a.val| ≤ A) : |(Flt.powi a 2).val| ≤ 1.01 * (1.01 * (A * A) + 1) + 1 := by
  rw [FltRF.powi_val, FpPolar.powi_two]
  refine FltPRFo.abs_rnd_le M ?_
  rw [one_mul]
  refine FltPRFo.abs_rnd_le M ?_
  rw [abs_mul]; exact mul_le_mul ha ha (abs_nonneg _) (le_trans (abs_nonneg _) ha)
theorem bd_powi3 {a : RF M} {A : ℝ} (ha : |a.val| ≤ A) :
    |(Flt.powi a 3).val| ≤ 1.01 * ((1.01 * A + 1) * (1.01 * (A * A) + 1)) + 1 := by
  rw [FltRF.powi_val, FpCie.powi_three M]
  refine FltPRFo.abs_rnd_le M ?_
  have hA := le_trans (abs_nonneg _) ha
  have h1 : |M.rnd (1 * a.val)| ≤ 1.01 * A + 1 := FltPRFo.abs_rnd_le M (by rw [one_mul]; exact ha)
  have h2 : |M.rnd (a.val * a.val)| ≤ 1.01 * (A * A) + 1 := by
    refine FltPRFo.abs_rnd_le M ?_
    rw [abs_mul]; exact mul_le_mul ha ha (abs_nonneg _) hA
  rw [abs_mul]; exact mul_le_mul h1 h2 (abs_nonneg _) (le_trans (abs_nonneg _) h1)
theorem bd_atan2 (a b : RF M) : |(Flt.atan2 a b).val| ≤ 6 := FltPRFo.abs_atan2_le' M _ _
theorem bd_sin (a : RF M) : |(Flt.sin a).val| ≤ 1.01 + 1 := FltPRFo.abs_sin_le M _
theorem bd_cos (a : RF M) : |(Flt.cos a).val| ≤ 1.01 + 1 := FltPRFo.abs_cos_le M _
theorem bd_pi : |(Flt.pi : RF M).val| ≤ 6 := FltPRFo.abs_pi_le M
theorem abs_floor_le (x : ℝ) : |((⌊x⌋ : ℤ) : ℝ)| ≤ |x| + 1 := by
  have h1 := Int.floor_le x; have h2 := Int.lt_floor_add_one x
  rw [abs_le]; constructor
  · have := neg_abs_le x; linarith
  · have := le_abs_self x; linarith
theorem bd_floor {a : RF M} {A : ℝ} (ha : |a.val| ≤ A) : |(Flt.floor a).val| ≤ A + 1 := by
  rw [FltRF.floor_val]; have := abs_floor_le a.val; linarith
theorem abs_roundHA_le (x : ℝ) : |Real.roundHA x| ≤ |x| + 2 := by
  unfold Real.roundHA
  split_ifs with h
  · have := abs_floor_le (x + 1 / 2)
    have : |x + 1 / 2| ≤ |x| + 1 / 2 := by
      refine le_trans (abs_add_le _ _) ?_; rw [abs_of_pos (by norm_num : (0:ℝ) < 1 / 2)]
    linarith
  · rw [abs_neg]
    have := abs_floor_le (-x + 1 / 2)
    have : |-x + 1 / 2| ≤ |x| + 1 / 2 := by
      refine le_trans (abs_add_le _ _) ?_; rw [abs_neg, abs_of_pos (by norm_num : (0:ℝ) < 1 / 2)]
    linarith
theorem bd_round {a : RF M} {A : ℝ} (ha : |a.val| ≤ A) : |(Flt.round a).val| ≤ A + 2 := by
  rw [FltRF.round_val]; have := abs_roundHA_le a.val; linarith
theorem abs_truncZ_le (x : ℝ) : |((Real.truncZ x : ℤ) : ℝ)| ≤ |x| + 1 := by
  unfold Real.truncZ
  split_ifs with h
  · exact abs_floor_le x
  · have h1 := Int.le_ceil x; have h2 := Int.ceil_lt_add_one x
    rw [abs_le]; constructor
    · have := neg_abs_le x; linarith
    · have := le_abs_self x; linarith
/-- `%` (fmod): crude `|a - b·trunc(a/b)| ≤ 2|a| + |b|` -/
theorem bd_rem {a b : RF M} {A B : ℝ} (ha : |a.val| ≤ A) (hb : |b.val| ≤ B) : |(Flt.rem a b).val| ≤ 2 * A + B := by
  rw [FltRF.rem_val]
  have t := abs_truncZ_le (a.val / b.val)
  have q : |b.val| * |a.val / b.val| ≤ |a.val| := by
    rw [abs_div]
    rcases eq_or_ne b.val 0 with h | h
    · rw [h]; simp
    · rw [mul_div_cancel₀ _ (abs_ne_zero.mpr h)]
  have : |b.val * ((Real.truncZ (a.val / b.val) : ℤ) : ℝ)| ≤ |a.val| + |b.val| := by
    rw [abs_mul]
    have := mul_le_mul_of_nonneg_left t (abs_nonneg b.val)
    nlinarith
  have := abs_sub a.val (b.val * ((Real.truncZ (a.val / b.val) : ℤ) : ℝ))
  linarith

/-- an exponent written `1.0 / c`: sharper than `bd_div` (which loses a factor 2 on the divisor) -/
theorem bd_inv_lit (b b' : UInt64) (n d : ℕ) (h1 : 1e-200 ≤ (n : ℝ) / d) (h2 : (n : ℝ) / d ≤ 1000) :
    |(Flt.lit b' 1 1 / Flt.lit b n d : RF M).val| ≤ 1.01 * ((d : ℝ) / n) := by
  have hp := one_div_lit_pos (M := M) b b' n d h1 h2
  rw [abs_of_pos hp]
  simp only [FltRF.div_val]
  rw [lit_int_val b' 1 (by norm_num)]
  have hq : (0 : ℝ) < (n : ℝ) / d := lt_of_lt_of_le (by norm_num) h1
  have hn : (0 : ℝ) < n := by
    by_contra hc
    have : (n : ℝ) = 0 := le_antisymm (not_lt.mp hc) (Nat.cast_nonneg n)
    rw [this, zero_div] at hq; exact lt_irrefl _ hq
  have hd : (0 : ℝ) < d := by
    by_contra hc
    have : (d : ℝ) = 0 := le_antisymm (not_lt.mp hc) (Nat.cast_nonneg d)
    rw [this, div_zero] at hq; exact lt_irrefl _ hq
  have g := rnd_ge (M := M) h1
  have e : FP.eps = 1.2e-16 := rfl
  have g' : (n : ℝ) / d * 0.999 ≤ (Flt.lit b n d : RF M).val := by
    simp only [FltRF.lit_val]; rw [e] at g; nlinarith
  have hl : 0 < (Flt.lit b n d : RF M).val := lit_pos b n d h1
  have q1 : ((1 : ℕ) : ℝ) / (Flt.lit b n d : RF M).val ≤ 1.002 * ((d : ℝ) / n) := by
    push_cast
    rw [div_le_iff₀ hl]
    have : (d : ℝ) / n * ((n : ℝ) / d) = 1 := by field_simp
    nlinarith [mul_le_mul_of_nonneg_left g' (le_of_lt (div_pos hd hn))]
  have q0 : 1 / 2000 ≤ ((1 : ℕ) : ℝ) / (Flt.lit b n d : RF M).val := by
    have q : (Flt.lit b n d : RF M).val ≤ ((1000 : ℕ) : ℝ) :=
      FpErr.rnd_le_nat M 1000 (by norm_num) (by push_cast; exact h2)
    push_cast at q ⊢
    rw [div_le_div_iff₀ (by norm_num) hl]; linarith
  have r := rnd_le (M := M) (x := ((1 : ℕ) : ℝ) / (Flt.lit b n d : RF M).val) (le_trans (by norm_num) q0)
  rw [e] at r
  have : 0 < (d : ℝ) / n := div_pos hd hn
  nlinarith

/-! ## lower bounds on the magnitude of divisors -/
theorem lb_lit (b : UInt64) (n d : ℕ) (h : 1e-200 ≤ (n : ℝ) / d) : (n : ℝ) / d / 2 ≤ |(Flt.lit b n d : RF M).val| := by
  have := rnd_half (M := M) h
  exact le_trans this (le_abs_self _)
theorem lb_pos {a : RF M} {L : ℝ} (h : L ≤ a.val) : L ≤ |a.val| := le_trans h (le_abs_self _)

theorem lb_pi : (1 : ℝ) ≤ |(Flt.pi : RF M).val| := by
  have := rnd_half (M := M) (x := Real.pi) (le_trans (by norm_num) Real.pi_gt_three.le)
  have h3 := Real.pi_gt_three
  refine le_trans ?_ (le_abs_self _)
  simp only [FltRF.pi_val]; linarith

/-- `d.val = 0 ∨ L ≤ |d.val|` for a divisor `d`: a hypothesis, or a literal, or `pi` -/
macro "lbd" : tactic => `(tactic| first
  | assumption
  | exact Or.inr (by assumption)
  | exact Or.inr (lb_pos (by assumption))
  | exact Or.inr lb_pi
  | (refine Or.inr (lb_lit _ _ _ ?_); focus (norm_num; done)))

/-- a sign condition `0 ≤ e.val`, `0 < e.val`, `e.val ≠ 0` (focused: `fp_nonneg` uses `repeat'`, which would touch the other goals) -/
macro "sgn" : tactic => `(tactic| focus ((first | assumption | exact le_of_lt (by assumption) | fp_side); done))

/-- `|e.val| ≤ ?B` for an `RF M` expression `e`, by recursion on its syntax; `?B` is instantiated with a closed
rational expression -/
syntax "bd" : tactic
macro_rules
  | `(tactic| bd) => `(tactic| first
    | assumption
    | exact bd_lit _ _ _
    | exact bd_byte (by assumption)
    | exact bd_atan2 _ _
    | exact bd_sin _
    | exact bd_cos _
    | exact bd_pi
    | (apply bd_add; bd; bd)
    | (apply bd_sub; bd; bd)
    | (apply bd_mul; bd; bd)
    | exact bd_inv_lit _ _ _ _ (by norm_num) (by norm_num)
    | (apply bd_div; bd; lbd; focus (norm_num; done))
    | (apply bd_neg; bd)
    | (apply bd_abs; bd)
    | (apply bd_max; bd; bd)
    | (apply bd_min; bd; bd)
    | (apply bd_sqrt; bd)
    | (apply bd_cbrt; bd)
    | (apply bd_powi2; bd)
    | (apply bd_powi3; bd)
    | (apply bd_floor; bd)
    | (apply bd_round; bd)
    | (apply bd_rem; bd; bd)
    | (apply bd_pow 2; sgn; sgn; bd; bd; focus (norm_num; done))
    | (apply bd_pow 8; sgn; sgn; bd; bd; focus (norm_num; done))
    | (apply bd_pow 80; sgn; sgn; bd; bd; focus (norm_num; done))
    | (apply bd_ite; bd; bd))

/-- `|e.val| ≤ FP.omega` -/
theorem le_omega_of {x B : ℝ} (h1 : x ≤ B) (h2 : B ≤ 10 ^ 250) : x ≤ FP.omega := le_trans (le_trans h1 h2) FP.big_le_omega
macro "obound" : tactic => `(tactic| (apply le_omega_of; bd; focus (norm_num; done)))

/-- `|e.val| ≤ c` for a numeral `c` -/
macro "nbound" : tactic => `(tactic| (apply le_trans; bd; focus (norm_num; done)))

/-! ## homomorphism lemmas -/
theorem ho_add (a b : RF M) (h : |(a + b).val| ≤ FP.omega) : RF.liftO a + RF.liftO b = RF.liftO (a + b) :=
  FltPRFo.add_fin _ _ h
theorem ho_sub (a b : RF M) (h : |(a - b).val| ≤ FP.omega) : RF.liftO a - RF.liftO b = RF.liftO (a - b) :=
  FltPRFo.sub_fin _ _ h
theorem ho_mul (a b : RF M) (h : |(a * b).val| ≤ FP.omega) : RF.liftO a * RF.liftO b = RF.liftO (a * b) :=
  FltPRFo.mul_fin _ _ h
theorem ho_neg (a : RF M) : -RF.liftO a = RF.liftO (-a) := rfl
theorem ho_div (a b : RF M) (h : b.val ≠ 0) (ho : |(a / b).val| ≤ FP.omega) :
    RF.liftO a / RF.liftO b = RF.liftO (a / b) := FltPRFo.div_fin _ _ h ho
/-- a literal: `|rnd (n/d)| ≤ 1.01·(n/d) + 1` must not exceed `omega`; for the literals of the crate `norm_num` decides -/
theorem ho_lit (b : UInt64) (n d : ℕ) (h : |(Flt.lit b n d : RF M).val| ≤ FP.omega) :
    (Flt.lit b n d : PRFo M) = RF.liftO (Flt.lit b n d) := FltPRFo.lit_eq b n d h
theorem ho_ofNat (n : ℕ) : (Flt.ofNat n : PRFo M) = RF.liftO (Flt.ofNat n) := rfl
theorem ho_le (a b : RF M) : Flt.le (RF.liftO a) (RF.liftO b) = Flt.le a b := rfl
theorem ho_lt (a b : RF M) : Flt.lt (RF.liftO a) (RF.liftO b) = Flt.lt a b := rfl
theorem ho_beq (a b : RF M) : Flt.beq (RF.liftO a) (RF.liftO b) = Flt.beq a b := rfl
theorem ho_max (a b : RF M) : Flt.max (RF.liftO a) (RF.liftO b) = RF.liftO (Flt.max a b) := rfl
theorem ho_min (a b : RF M) : Flt.min (RF.liftO a) (RF.liftO b) = RF.liftO (Flt.min a b) := rfl
theorem ho_abs (a : RF M) : Flt.abs (RF.liftO a) = RF.liftO (Flt.abs a) := rfl
theorem ho_round (a : RF M) : Flt.round (RF.liftO a) = RF.liftO (Flt.round a) := rfl
theorem ho_floor (a : RF M) : Flt.floor (RF.liftO a) = RF.liftO (Flt.floor a) := rfl
theorem ho_toU8 (a : RF M) : Flt.toU8 (RF.liftO a) = Flt.toU8 a := rfl
theorem ho_cbrt (a : RF M) (h : |(Flt.cbrt a).val| ≤ FP.omega) : Flt.cbrt (RF.liftO a) = RF.liftO (Flt.cbrt a) :=
  FltPRFo.cbrt_fin _ h
theorem six_le : (6 : ℝ) ≤ FP.omega := le_trans (by norm_num : (6 : ℝ) ≤ 10 ^ 250) FP.big_le_omega
/-- `atan2`, `sin`, `cos`, `pi` never overflow -/
theorem ho_atan2 (a b : RF M) : Flt.atan2 (RF.liftO a) (RF.liftO b) = RF.liftO (Flt.atan2 a b) :=
  FltPRFo.atan2_fin _ _ (le_trans (bd_atan2 a b) six_le)
theorem ho_sin (a : RF M) : Flt.sin (RF.liftO a) = RF.liftO (Flt.sin a) :=
  FltPRFo.sin_fin _ (le_trans (bd_sin a) (le_trans (by norm_num) six_le))
theorem ho_cos (a : RF M) : Flt.cos (RF.liftO a) = RF.liftO (Flt.cos a) :=
  FltPRFo.cos_fin _ (le_trans (bd_cos a) (le_trans (by norm_num) six_le))
theorem ho_pi : (Flt.pi : PRFo M) = RF.liftO Flt.pi := FltPRFo.pi_eq (le_trans bd_pi six_le)
theorem ho_pow_pos (a b : RF M) (h : 0 < a.val) (ho : |(Flt.pow a b).val| ≤ FP.omega) :
    Flt.pow (RF.liftO a) (RF.liftO b) = RF.liftO (Flt.pow a b) := FltPRFo.pow_pos _ _ h ho
theorem ho_pow_nonneg (a b : RF M) (h : 0 ≤ a.val) (hb : 0 < b.val) (ho : |(Flt.pow a b).val| ≤ FP.omega) :
    Flt.pow (RF.liftO a) (RF.liftO b) = RF.liftO (Flt.pow a b) := FltPRFo.pow_nonneg _ _ h hb ho
theorem ho_sqrt (a : RF M) (h : 0 ≤ a.val) (ho : |(Flt.sqrt a).val| ≤ FP.omega) :
    Flt.sqrt (RF.liftO a) = RF.liftO (Flt.sqrt a) := FltPRFo.sqrt_nonneg _ h ho
theorem ho_powi (a : RF M) (n : ℤ) (h : 0 ≤ n) (ho : |(Flt.powi a n).val| ≤ FP.omega) :
    Flt.powi (RF.liftO a) n = RF.liftO (Flt.powi a n) := FltPRFo.powi_nonneg _ _ h ho
theorem ho_rem (a b : RF M) (h : b.val ≠ 0) (ho : |(Flt.rem a b).val| ≤ FP.omega) :
    Flt.rem (RF.liftO a) (RF.liftO b) = RF.liftO (Flt.rem a b) := FltPRFo.rem_fin _ _ h ho
theorem ho_ite (c : Prop) [Decidable c] (a b : RF M) :
    (if c then RF.liftO a else RF.liftO b) = RF.liftO (if c then a else b) := by
  split_ifs <;> rfl
theorem iteo_bridge {c : Bool} {a b : PRFo M} {a' b' : RF M} (ha : c = true → a = RF.liftO a')
    (hb : c = false → b = RF.liftO b') : (if c = true then a else b) = RF.liftO (if c = true then a' else b') := by
  cases c
  · simpa using hb rfl
  · simpa using ha rfl
theorem iteo_not_bridge {c : Bool} {a b : PRFo M} {a' b' : RF M} (ha : c = false → a = RF.liftO a')
    (hb : c = true → b = RF.liftO b') : (if (!c) = true then a else b) = RF.liftO (if (!c) = true then a' else b') := by
  cases c
  · simpa using ha rfl
  · simpa using hb rfl
theorem liftO_isFin (a : RF M) : (RF.liftO a).isFin = true := rfl

/-- side conditions of the `ho_*` lemmas: the sign/zero facts as in `FpDefined` (`fp_side`), the magnitude by `obound` -/
macro "o_side" : tactic => `(tactic| first | obound | sgn | nbound)

/-! ## lifts of the colour structures -/
def liftCymk (p : Cymk (RF M)) : Cymk (PRFo M) := ⟨RF.liftO p.c, RF.liftO p.y, RF.liftO p.m, RF.liftO p.k⟩
def liftHsl (p : Hsl (RF M)) : Hsl (PRFo M) := ⟨RF.liftO p.h, RF.liftO p.s, RF.liftO p.l⟩
def liftHsv (p : Hsv (RF M)) : Hsv (PRFo M) := ⟨RF.liftO p.h, RF.liftO p.s, RF.liftO p.v⟩
def liftHwb (p : Hwb (RF M)) : Hwb (PRFo M) := ⟨RF.liftO p.h, RF.liftO p.w, RF.liftO p.b⟩
def liftYuv (p : Yuv (RF M)) : Yuv (PRFo M) := ⟨RF.liftO p.y, RF.liftO p.u, RF.liftO p.v⟩
def liftSrgb (p : Srgb (RF M)) : Srgb (PRFo M) := ⟨RF.liftO p.r, RF.liftO p.g, RF.liftO p.b⟩
def liftArgb (p : Argb (RF M)) : Argb (PRFo M) := ⟨RF.liftO p.r, RF.liftO p.g, RF.liftO p.b⟩
def liftXyz (p : Xyz (RF M)) : Xyz (PRFo M) := ⟨RF.liftO p.x, RF.liftO p.y, RF.liftO p.z⟩
def liftLab (p : Lab (RF M)) : Lab (PRFo M) := ⟨RF.liftO p.l, RF.liftO p.a, RF.liftO p.b⟩
def liftLchlab (p : Lchlab (RF M)) : Lchlab (PRFo M) := ⟨RF.liftO p.l, RF.liftO p.c, RF.liftO p.h⟩
def liftLuv (p : Luv (RF M)) : Luv (PRFo M) := ⟨RF.liftO p.l, RF.liftO p.u, RF.liftO p.v⟩
def liftLchuv (p : Lchuv (RF M)) : Lchuv (PRFo M) := ⟨RF.liftO p.l, RF.liftO p.c, RF.liftO p.h⟩
def liftHcl (p : Hcl (RF M)) : Hcl (PRFo M) := ⟨RF.liftO p.h, RF.liftO p.c, RF.liftO p.l⟩
def liftHlab (p : Hlab (RF M)) : Hlab (PRFo M) := ⟨RF.liftO p.l, RF.liftO p.a, RF.liftO p.b⟩
def liftXyy (p : Xyy (RF M)) : Xyy (PRFo M) := ⟨RF.liftO p.x, RF.liftO p.y, RF.liftO p._y⟩
def liftOkLab (p : OkLab (RF M)) : OkLab (PRFo M) := ⟨RF.liftO p.l, RF.liftO p.a, RF.liftO p.b⟩
def liftOkLch (p : OkLch (RF M)) : OkLch (PRFo M) := ⟨RF.liftO p.l, RF.liftO p.c, RF.liftO p.h⟩
def liftRec709 (p : Rec709 (RF M)) : Rec709 (PRFo M) := ⟨RF.liftO p.r, RF.liftO p.g, RF.liftO p.b⟩
def liftRec2020 (p : Rec2020 (RF M)) : Rec2020 (PRFo M) := ⟨RF.liftO p.r, RF.liftO p.g, RF.liftO p.b⟩
def liftRec2100 (p : Rec2100 (RF M)) : Rec2100 (PRFo M) := ⟨RF.liftO p.r, RF.liftO p.g, RF.liftO p.b⟩
def liftPair (p : RF M × RF M) : PRFo M × PRFo M := (RF.liftO p.1, RF.liftO p.2)

/-! ## transfer curves: no overflow for every input of magnitude `≤ 10^6` (the paths of the crate feed them with
values of magnitude `≤ 10`); `_bd`: crude magnitude of the result, needed where the result is used further -/

theorem srgb_expand (x : RF M) (hx : |x.val| ≤ 10 ^ 6) :
    F64.compute_srgb_gamma_expanded (RF.liftO x) = RF.liftO (F64.compute_srgb_gamma_expanded x) := by
  unfold F64.compute_srgb_gamma_expanded
  simp (disch := o_side) only [ho_lit, ho_le]
  refine iteo_bridge (fun h => ?_) (fun h => ?_)
  · simp (disch := o_side) only [ho_div]
  · simp only [FltRF.le_eq, decide_eq_false_iff_not, not_le] at h
    have hx0 : 0 < x.val := lt_of_le_of_lt (lit_nonneg _ _ _) h
    simp (disch := o_side) only [ho_add, ho_div, ho_pow_nonneg]

theorem srgb_expand_bd (x : RF M) (hx : |x.val| ≤ 4) : |(F64.compute_srgb_gamma_expanded x).val| ≤ 10 ^ 10 := by
  unfold F64.compute_srgb_gamma_expanded
  split_ifs with h
  · nbound
  · simp only [FltRF.le_eq, decide_eq_true_eq, not_le] at h
    have hx0 : 0 < x.val := lt_of_le_of_lt (lit_nonneg _ _ _) h
    nbound

theorem srgb_correct (x : RF M) (hx : |x.val| ≤ 10 ^ 6) :
    F64.apply_srgb_gamma_correction (RF.liftO x) = RF.liftO (F64.apply_srgb_gamma_correction x) := by
  unfold F64.apply_srgb_gamma_correction
  simp (disch := o_side) only [ho_lit, ho_le]
  refine iteo_bridge (fun h => ?_) (fun h => ?_)
  · simp (disch := o_side) only [ho_mul]
  · simp only [FltRF.le_eq, decide_eq_false_iff_not, not_le] at h
    have hx0 : 0 < x.val := lt_of_le_of_lt (lit_nonneg _ _ _) h
    simp (disch := o_side) only [ho_add, ho_sub, ho_mul, ho_div, ho_pow_pos]

theorem srgb_correct_bd (x : RF M) (hx : |x.val| ≤ 100) : |(F64.apply_srgb_gamma_correction x).val| ≤ 10 ^ 5 := by
  unfold F64.apply_srgb_gamma_correction
  split_ifs with h
  · nbound
  · simp only [FltRF.le_eq, decide_eq_true_eq, not_le] at h
    have hx0 : 0 < x.val := lt_of_le_of_lt (lit_nonneg _ _ _) h
    nbound

theorem argb_gamma (x : RF M) (hx : |x.val| ≤ 10 ^ 6) :
    F64.compute_argb_gamma (RF.liftO x) = RF.liftO (F64.compute_argb_gamma x) := by
  unfold F64.compute_argb_gamma
  simp (disch := o_side) only [ho_lit, ho_le]
  refine iteo_bridge (fun h => ?_) (fun h => ?_)
  · rfl
  · simp only [FltRF.le_eq, decide_eq_false_iff_not, not_le] at h
    have hx0 : 0 < x.val := lt_of_le_of_lt (lit_nonneg _ _ _) h
    simp (disch := o_side) only [ho_pow_pos]

theorem argb_gamma_bd (x : RF M) (hx : |x.val| ≤ 4) : |(F64.compute_argb_gamma x).val| ≤ 10 ^ 10 := by
  unfold F64.compute_argb_gamma
  split_ifs with h
  · nbound
  · simp only [FltRF.le_eq, decide_eq_true_eq, not_le] at h
    have hx0 : 0 < x.val := lt_of_le_of_lt (lit_nonneg _ _ _) h
    nbound

theorem argb_expand (x : RF M) (hx : |x.val| ≤ 10 ^ 6) :
    F64.compute_argb_gamma_expanded (RF.liftO x) = RF.liftO (F64.compute_argb_gamma_expanded x) := by
  unfold F64.compute_argb_gamma_expanded
  simp (disch := o_side) only [ho_lit, ho_le]
  refine iteo_bridge (fun h => ?_) (fun h => ?_)
  · rfl
  · simp only [FltRF.le_eq, decide_eq_false_iff_not, not_le] at h
    have hx0 : 0 < x.val := lt_of_le_of_lt (lit_nonneg _ _ _) h
    simp (disch := o_side) only [ho_div, ho_pow_pos]

theorem rec709_correct (x : RF M) (hx : |x.val| ≤ 10 ^ 6) :
    F64.compute_rec709_gamma_correction (RF.liftO x) = RF.liftO (F64.compute_rec709_gamma_correction x) := by
  unfold F64.compute_rec709_gamma_correction
  simp (disch := o_side) only [ho_lit, ho_lt]
  refine iteo_bridge (fun h => ?_) (fun h => ?_)
  · simp (disch := o_side) only [ho_mul]
  · simp only [FltRF.lt_eq, decide_eq_false_iff_not, not_lt] at h
    have hx0 : 0 ≤ x.val := le_trans (lit_nonneg _ _ _) h
    simp (disch := o_side) only [ho_sub, ho_mul, ho_pow_nonneg]

theorem rec2020_correct (x : RF M) (hx : |x.val| ≤ 10 ^ 6) :
    F64.compute_rec2020_gamma_correction (RF.liftO x) = RF.liftO (F64.compute_rec2020_gamma_correction x) := by
  unfold F64.compute_rec2020_gamma_correction
  simp (disch := o_side) only [ho_lit, ho_lt]
  refine iteo_bridge (fun h => ?_) (fun h => ?_)
  · simp (disch := o_side) only [ho_mul]
  · simp only [FltRF.lt_eq, decide_eq_false_iff_not, not_lt] at h
    have hx0 : 0 ≤ x.val := le_trans (lit_nonneg _ _ _) h
    simp (disch := o_side) only [ho_sub, ho_mul, ho_pow_nonneg]

end Lemmas.FpOverflow
