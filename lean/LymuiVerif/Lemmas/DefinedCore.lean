import LymuiVerif.Inst.Partial
/-!
# Definedness (C04): lifting the real reading into `PR = Option ℝ`, and the transfer curves

`liftX p` embeds a real-valued colour into the partial carrier (all fields `some _`).  A *bridging*
lemma `f (liftX p) = liftY (f p)` says: on the `PR` instance every intermediate operation of `f` is
defined (no division by zero, no power of a negative base, no square root of a negative number) and
the result is the exact-real result.  In particular all fields are finite.
-/
set_option linter.unusedSimpArgs false
set_option linter.unusedVariables false
namespace Lemmas.Defined
open Gen

def liftCymk (p : Cymk ℝ) : Cymk PR := ⟨some p.c, some p.y, some p.m, some p.k⟩
def liftHsl (p : Hsl ℝ) : Hsl PR := ⟨some p.h, some p.s, some p.l⟩
def liftHsv (p : Hsv ℝ) : Hsv PR := ⟨some p.h, some p.s, some p.v⟩
def liftHwb (p : Hwb ℝ) : Hwb PR := ⟨some p.h, some p.w, some p.b⟩
def liftYuv (p : Yuv ℝ) : Yuv PR := ⟨some p.y, some p.u, some p.v⟩
def liftSrgb (p : Srgb ℝ) : Srgb PR := ⟨some p.r, some p.g, some p.b⟩
def liftArgb (p : Argb ℝ) : Argb PR := ⟨some p.r, some p.g, some p.b⟩
def liftXyz (p : Xyz ℝ) : Xyz PR := ⟨some p.x, some p.y, some p.z⟩
def liftLab (p : Lab ℝ) : Lab PR := ⟨some p.l, some p.a, some p.b⟩
def liftLchlab (p : Lchlab ℝ) : Lchlab PR := ⟨some p.l, some p.c, some p.h⟩
def liftLuv (p : Luv ℝ) : Luv PR := ⟨some p.l, some p.u, some p.v⟩
def liftLchuv (p : Lchuv ℝ) : Lchuv PR := ⟨some p.l, some p.c, some p.h⟩
def liftHcl (p : Hcl ℝ) : Hcl PR := ⟨some p.h, some p.c, some p.l⟩
def liftHlab (p : Hlab ℝ) : Hlab PR := ⟨some p.l, some p.a, some p.b⟩
def liftXyy (p : Xyy ℝ) : Xyy PR := ⟨some p.x, some p.y, some p._y⟩
def liftOkLab (p : OkLab ℝ) : OkLab PR := ⟨some p.l, some p.a, some p.b⟩
def liftOkLch (p : OkLch ℝ) : OkLch PR := ⟨some p.l, some p.c, some p.h⟩
def liftRec709 (p : Rec709 ℝ) : Rec709 PR := ⟨some p.r, some p.g, some p.b⟩
def liftRec2020 (p : Rec2020 ℝ) : Rec2020 PR := ⟨some p.r, some p.g, some p.b⟩
def liftRec2100 (p : Rec2100 ℝ) : Rec2100 PR := ⟨some p.r, some p.g, some p.b⟩

/-! ## Transfer curves: defined for every finite input -/

set_option hygiene false in
/-- two-branch curve whose second branch is only reached with `0 < x` -/
macro "curve_bridge" : tactic => `(tactic| (
  simp only [FltPR.le_some, FltPR.lt_some, FltPR.lit_eq, FltReal.le_eq, FltReal.lt_eq, FltReal.lit_eq,
    decide_eq_true_eq]
  split_ifs with h
  · simp (disch := positivity) [FltPR.div_some]
  · have hx : 0 < x := by push_cast at h; linarith
    simp (disch := positivity) [FltPR.div_some, FltPR.pow_pos]))

theorem srgb_expand (x : ℝ) :
    F64.compute_srgb_gamma_expanded (some x : PR) = some (F64.compute_srgb_gamma_expanded x) := by
  unfold F64.compute_srgb_gamma_expanded; curve_bridge

theorem srgb_correct (x : ℝ) :
    F64.apply_srgb_gamma_correction (some x : PR) = some (F64.apply_srgb_gamma_correction x) := by
  unfold F64.apply_srgb_gamma_correction; curve_bridge

theorem argb_gamma (x : ℝ) :
    F64.compute_argb_gamma (some x : PR) = some (F64.compute_argb_gamma x) := by
  unfold F64.compute_argb_gamma; curve_bridge

theorem argb_expand (x : ℝ) :
    F64.compute_argb_gamma_expanded (some x : PR) = some (F64.compute_argb_gamma_expanded x) := by
  unfold F64.compute_argb_gamma_expanded; curve_bridge

theorem rec709_correct (x : ℝ) :
    F64.compute_rec709_gamma_correction (some x : PR) = some (F64.compute_rec709_gamma_correction x) := by
  unfold F64.compute_rec709_gamma_correction; curve_bridge

theorem rec709_expand (x : ℝ) :
    F64.compute_rec709_gamma_expanded (some x : PR) = some (F64.compute_rec709_gamma_expanded x) := by
  unfold F64.compute_rec709_gamma_expanded; curve_bridge

theorem rec2020_correct (x : ℝ) :
    F64.compute_rec2020_gamma_correction (some x : PR) = some (F64.compute_rec2020_gamma_correction x) := by
  unfold F64.compute_rec2020_gamma_correction; curve_bridge

theorem rec2020_expand (x : ℝ) :
    F64.compute_rec2020_gamma_expanded (some x : PR) = some (F64.compute_rec2020_gamma_expanded x) := by
  unfold F64.compute_rec2020_gamma_expanded; curve_bridge

/-! ## PQ curves: defined exactly for nonnegative inputs (a negative base of `powf` is NaN) -/

theorem pow_neg_base (x y : ℝ) (h : x < 0) : Flt.pow (some x : PR) (some y) = none := by
  show PR.pow _ _ = _
  simp only [PR.pow]
  rw [if_neg (not_lt.mpr h.le), if_neg h.ne]

theorem pq_eotf_nonneg (x : ℝ) (hx : 0 ≤ x) : F64.pq_eotf (some x : PR) = some (F64.pq_eotf x) := by
  unfold F64.pq_eotf
  have e1 : Flt.pow (some x : PR) ((Flt.lit 0x3FF0000000000000 1 1) / (Flt.lit 0x4053B60000000000 2523 32)) =
      some (Flt.pow x ((Flt.lit 0x3FF0000000000000 1 1) / (Flt.lit 0x4053B60000000000 2523 32))) := by
    simp (disch := positivity) [FltPR.div_some, FltPR.pow_nonneg, hx]
  simp only [e1]
  generalize hE : (Flt.pow x ((Flt.lit 0x3FF0000000000000 1 1) / (Flt.lit 0x4053B60000000000 2523 32)) : ℝ) = e
  have he : 0 ≤ e := by rw [← hE]; exact Real.rpow_nonneg hx _
  simp only [FltPR.lit_eq, FltPR.sub_some, FltPR.max_some, FltPR.mul_some, FltPR.beq_some, FltReal.lit_eq,
    FltReal.beq_eq, FltReal.max_eq, decide_eq_true_eq]
  split_ifs with h
  · rfl
  · have hd : 0 < ((2413:ℕ) / (128:ℕ) - (299:ℕ) / (16:ℕ) : ℝ) * e := by
      rcases he.lt_or_eq with h' | h'
      · exact mul_pos (by norm_num) h'
      · exfalso; apply h; rw [← h']; simp
    rw [FltPR.div_some _ _ hd.ne', FltPR.div_some _ _ (by norm_num), FltPR.pow_nonneg]
    · rfl
    · exact div_nonneg (le_max_of_le_right (by norm_num)) hd.le
    · norm_num

theorem pq_eotf_neg (x : ℝ) (hx : x < 0) : F64.pq_eotf (some x : PR) = none := by
  unfold F64.pq_eotf
  have e1 : Flt.pow (some x : PR) ((Flt.lit 0x3FF0000000000000 1 1) / (Flt.lit 0x4053B60000000000 2523 32)) = none := by
    rw [FltPR.lit_eq, FltPR.lit_eq, FltPR.div_some _ _ (by norm_num)]
    exact pow_neg_base _ _ hx
  simp only [e1]
  rfl

theorem pq_inv_nonneg (x : ℝ) (hx : 0 ≤ x) : F64.pq_inverse_eotf (some x : PR) = some (F64.pq_inverse_eotf x) := by
  unfold F64.pq_inverse_eotf
  have e1 : Flt.pow ((some x : PR) / (Flt.lit 0x40C3880000000000 10000 1)) (Flt.lit 0x3FC4640000000000 1305 8192) =
      some (Flt.pow (x / (Flt.lit 0x40C3880000000000 10000 1)) (Flt.lit 0x3FC4640000000000 1305 8192)) := by
    rw [FltPR.lit_eq, FltPR.lit_eq, FltPR.div_some _ _ (by norm_num), FltPR.pow_nonneg]
    · rfl
    · exact div_nonneg hx (by norm_num)
    · norm_num
  simp only [e1]
  generalize hE : (Flt.pow (x / (Flt.lit 0x40C3880000000000 10000 1)) (Flt.lit 0x3FC4640000000000 1305 8192) : ℝ) = e
  have he : 0 ≤ e := by rw [← hE]; exact Real.rpow_nonneg (div_nonneg hx (by norm_num)) _
  simp only [FltPR.lit_eq, FltPR.add_some, FltPR.mul_some, FltPR.beq_some, FltReal.lit_eq,
    FltReal.beq_eq, decide_eq_true_eq]
  have hd : 0 < ((1:ℕ) / (1:ℕ) + (299:ℕ) / (16:ℕ) * e : ℝ) := by
    have : 0 ≤ ((299:ℕ) / (16:ℕ) * e : ℝ) := mul_nonneg (by norm_num) he
    have : (0:ℝ) < ((1:ℕ) / (1:ℕ) : ℝ) := by norm_num
    linarith
  rw [if_neg (by rw [show ((0:ℕ):ℝ) / ((1:ℕ):ℝ) = 0 by norm_num]; exact hd.ne'), if_neg (by rw [show ((0:ℕ):ℝ) / ((1:ℕ):ℝ) = 0 by norm_num]; exact hd.ne')]
  rw [FltPR.div_some _ _ hd.ne', FltPR.pow_pos]
  · rfl
  · exact div_pos (add_pos_of_pos_of_nonneg (by norm_num) (mul_nonneg (by norm_num) he)) hd

theorem pq_inv_neg (x : ℝ) (hx : x < 0) : F64.pq_inverse_eotf (some x : PR) = none := by
  unfold F64.pq_inverse_eotf
  have e1 : Flt.pow ((some x : PR) / (Flt.lit 0x40C3880000000000 10000 1)) (Flt.lit 0x3FC4640000000000 1305 8192) = none := by
    rw [FltPR.lit_eq, FltPR.lit_eq, FltPR.div_some _ _ (by norm_num)]
    exact pow_neg_base _ _ (div_neg_of_neg_of_pos hx (by norm_num))
  simp only [e1]
  rfl

end Lemmas.Defined
