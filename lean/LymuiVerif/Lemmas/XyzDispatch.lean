import LymuiVerif.Lemmas.Matrix
import LymuiVerif.Lemmas.Curves
/-!
# `Xyz.from_rgb` / `Xyz.as_rgb` unfolded: which rows and which curve each profile really uses

Definitional unfolding of the GENERATED dispatch.  A mis-wired profile (wrong rows, wrong curve),
a different scale factor or a different quantiser on one channel makes these proofs fail.
-/
namespace Lemmas.XyzDispatch
open Gen Lemmas.Matrix

/-- the generated decode curve of a profile -/
noncomputable def dec : XyzKind → ℝ → ℝ
  | .Adobe => F64.compute_argb_gamma
  | _ => F64.compute_srgb_gamma_expanded

/-- the generated encode curve of a profile -/
noncomputable def enc : XyzKind → ℝ → ℝ
  | .Adobe => F64.compute_argb_gamma_expanded
  | _ => F64.apply_srgb_gamma_correction

/-- linear-light channels of an 8-bit colour -/
noncomputable def lin (k : XyzKind) (c : Rgb) : V3 :=
  (dec k ((c.r : ℝ) / 255), dec k ((c.g : ℝ) / 255), dec k ((c.b : ℝ) / 255))

/-- the one quantiser of `as_rgb`: `(v * 255.0).round() as u8` -/
noncomputable def quant (v : ℝ) : ℕ := Real.toU8 (Real.roundHA (v * 255))

def toXyz (v : V3) : Xyz ℝ := ⟨v.1, v.2.1, v.2.2⟩
def ofXyz (x : Xyz ℝ) : V3 := (x.x, x.y, x.z)

theorem from_rgb_eq (k : XyzKind) (c : Rgb) :
    Xyz.from_rgb c k = toXyz (mulVec (fwd k) (lin k c)) := by
  cases k <;>
  simp [Xyz.from_rgb, Xyz.compute_xyz_from_matrix, Srgb.from_Rgb, Argb.from_Rgb, Srgb.as_f64,
    Argb.as_f64, Rgb.as_f64, toXyz, mulVec, dot, fwd, lin, dec]

theorem as_rgb_eq (k : XyzKind) (x : Xyz ℝ) :
    Xyz.as_rgb x k =
      ⟨quant (enc k (mulVec (rev k) (ofXyz x)).1), quant (enc k (mulVec (rev k) (ofXyz x)).2.1),
       quant (enc k (mulVec (rev k) (ofXyz x)).2.2)⟩ := by
  cases k <;>
  simp [Xyz.as_rgb, Xyz.compute_rgb_from_xyz_matrix, ofXyz, mulVec, dot, rev, enc, quant,
    mul_comm]

/-! ## the decode curves on the 8-bit levels -/

theorem dec_zero (k : XyzKind) : dec k 0 = 0 := by
  cases k <;> simp [dec, Curves.srgb_dec_zero, Curves.argb_dec_zero]

theorem dec_one (k : XyzKind) : dec k 1 = 1 := by
  cases k <;> simp [dec, Curves.srgb_dec_one, Curves.argb_dec_one]

/-- every decode curve is strictly increasing on the nonnegative reals -/
theorem dec_strictMonoOn (k : XyzKind) : StrictMonoOn (dec k) (Set.Ici 0) := by
  cases k
  · exact Curves.srgb_dec_strictMono.strictMonoOn _
  · exact Curves.srgb_dec_strictMono.strictMonoOn _
  · exact Curves.argb_dec_strictMonoOn

theorem level_nonneg (n : ℕ) : (0 : ℝ) ≤ (n : ℝ) / 255 := by positivity

theorem level_le_one {n : ℕ} (h : n ≤ 255) : (n : ℝ) / 255 ≤ 1 := by
  have : (n : ℝ) ≤ 255 := by exact_mod_cast h
  rw [div_le_one (by norm_num)]; exact this

theorem dec_level_lt (k : XyzKind) {m n : ℕ} (h : m < n) :
    dec k ((m : ℝ) / 255) < dec k ((n : ℝ) / 255) :=
  dec_strictMonoOn k (level_nonneg m) (level_nonneg n)
    (div_lt_div_of_pos_right (by exact_mod_cast h) (by norm_num))

theorem dec_level_nonneg (k : XyzKind) (n : ℕ) : 0 ≤ dec k ((n : ℝ) / 255) := by
  have := (dec_strictMonoOn k).monotoneOn (Set.mem_Ici.mpr le_rfl) (level_nonneg n) (level_nonneg n)
  rwa [dec_zero] at this

theorem dec_level_le_one (k : XyzKind) {n : ℕ} (h : n ≤ 255) : dec k ((n : ℝ) / 255) ≤ 1 := by
  have := (dec_strictMonoOn k).monotoneOn (level_nonneg n) (Set.mem_Ici.mpr zero_le_one)
    (level_le_one h)
  rwa [dec_one] at this

/-! ## round trip -/

/-- encode ∘ decode is stable at every 8-bit level, for every profile's curve pair -/
theorem stable (k : XyzKind) (n : ℕ) (hn : n ≤ 255) (δ : ℝ) (hδ : |δ| ≤ 3e-7) :
    |enc k (dec k ((n : ℝ) / 255) + δ) * 255 - n| ≤ 0.4 := by
  cases k
  · exact Curves.srgb_stable n hn δ hδ
  · exact Curves.srgb_stable n hn δ hδ
  · exact Curves.argb_stable n hn δ hδ

/-- pre-quantisation values of `as_rgb`: encoded channels scaled by 255 -/
noncomputable def pre (k : XyzKind) (x : Xyz ℝ) : V3 :=
  (enc k (mulVec (rev k) (ofXyz x)).1 * 255, enc k (mulVec (rev k) (ofXyz x)).2.1 * 255,
   enc k (mulVec (rev k) (ofXyz x)).2.2 * 255)

/-- channel `i` of an 8-bit colour -/
def chan (c : Rgb) : Fin 3 → ℕ
  | 0 => c.r
  | 1 => c.g
  | 2 => c.b

/-- after `from_rgb`, the pre-quantisation value of every channel of `as_rgb` (same profile) is
within 0.4 of the original 8-bit level. -/
theorem pre_close (k : XyzKind) (c : Rgb) (hr : c.r ≤ 255) (hg : c.g ≤ 255) (hb : c.b ≤ 255)
    (i : Fin 3) : |V3.get (pre k (Xyz.from_rgb c k)) i - (chan c i : ℝ)| ≤ 0.4 := by
  rw [from_rgb_eq]
  have hl := fun j => roundtrip_lin k (lin k c) j (dec_level_nonneg k c.r) (dec_level_le_one k hr)
    (dec_level_nonneg k c.g) (dec_level_le_one k hg) (dec_level_nonneg k c.b) (dec_level_le_one k hb)
  fin_cases i
  · have h := stable k c.r hr _ (hl 0)
    simpa [pre, V3.get, chan, ofXyz, toXyz, lin] using h
  · have h := stable k c.g hg _ (hl 1)
    simpa [pre, V3.get, chan, ofXyz, toXyz, lin] using h
  · have h := stable k c.b hb _ (hl 2)
    simpa [pre, V3.get, chan, ofXyz, toXyz, lin] using h

/-- the reference white of a profile converts back to RGB white -/
theorem as_rgb_white (k : XyzKind) :
    Xyz.as_rgb (toXyz (white k)) k = ⟨255, 255, 255⟩ := by
  rw [as_rgb_eq]
  have key : ∀ i, quant (enc k (V3.get (mulVec (rev k) (white k)) i)) = 255 := by
    intro i
    have hw := rev_white k i
    have h := stable k 255 le_rfl (V3.get (mulVec (rev k) (white k)) i - 1)
      (hw.trans (by norm_num))
    have e : ((255 : ℕ) : ℝ) / 255 = 1 := by norm_num
    rw [e, dec_one, add_sub_cancel] at h
    apply Curves.quant_eq 255 le_rfl
    exact lt_of_le_of_lt h (by norm_num)
  have k0 := key 0
  have k1 := key 1
  have k2 := key 2
  simp only [V3.get] at k0 k1 k2
  have e : ofXyz (toXyz (white k)) = white k := rfl
  rw [e, k0, k1, k2]

end Lemmas.XyzDispatch
