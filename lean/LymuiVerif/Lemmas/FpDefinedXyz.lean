import LymuiVerif.Lemmas.FpDefinedRgb
import LymuiVerif.Lemmas.FpPolar
/-!
# Definedness in the rounded model (C04 in floating point): the spaces derived from XYZ

`x_from_xyz`: `X.from_Xyz (liftXyz p) = liftX (X.from_Xyz p)` for `p : Xyz (RF M)`.

* No condition on `p`: sRGB, Adobe RGB, Rec.709, Rec.2020 (the encoding curves test their own argument; a NEGATIVE
  computed linear residue takes the linear arm, resp. the `≤ 0` arm of the Adobe curve), CIELAB (`cbrt` is total),
  LCh(ab) (`sqrt` of a rounded sum of rounded squares, which is `≥ 0` by monotonicity of rounding), OkLab / OkLch
  (the `max(·, 0)` clamp before `powf(2.2)`: whatever the sign of the computed linear-sRGB residue, the base is `≥ 0`).
* `XyzOK p` (exactly black, or non-negative with computed luminance `≥ 1.9e-6`): Luv, LCh(uv), HCL, Hunter Lab, xyY.
  Their guards (`x == 0 && y == 0 && z == 0`, `y == 0`, `is_null`) catch exactly black; for the other colours the
  COMPUTED denominators `x + 15y + 3z`, `x + y + z`, `sqrt(y/Yn)` are positive.
-/
set_option linter.unusedSimpArgs false
set_option linter.unusedVariables false
namespace Lemmas.FpDefined
open Gen
variable {M : FPModel}

theorem liftXyz_x (p : Xyz (RF M)) : (liftXyz p).x = RF.lift p.x := rfl
theorem liftXyz_y (p : Xyz (RF M)) : (liftXyz p).y = RF.lift p.y := rfl
theorem liftXyz_z (p : Xyz (RF M)) : (liftXyz p).z = RF.lift p.z := rfl

/-! ## no condition on the XYZ -/

theorem srgb_from_xyz (p : Xyz (RF M)) : Srgb.from_Xyz (liftXyz p) = liftSrgb (Srgb.from_Xyz p) := by
  simp only [Srgb.from_Xyz, liftXyz_x, liftXyz_y, liftXyz_z, liftSrgb, C.RX65, C.RY65, C.RZ65, h_lit, h_neg, h_mul,
    h_add, srgb_correct]

theorem argb_from_xyz (p : Xyz (RF M)) : Argb.from_Xyz (liftXyz p) = liftArgb (Argb.from_Xyz p) := by
  simp only [Argb.from_Xyz, liftXyz_x, liftXyz_y, liftXyz_z, liftArgb, C.argb_XR, C.YG, C.ZB, h_lit, h_neg, h_mul,
    h_add, argb_expand]

theorem rec709_from_xyz (p : Xyz (RF M)) : Rec709.from_Xyz (liftXyz p) = liftRec709 (Rec709.from_Xyz p) := by
  simp only [Rec709.from_Xyz, liftXyz_x, liftXyz_y, liftXyz_z, liftRec709, C.RX65, C.RY65, C.RZ65, h_lit, h_neg, h_mul,
    h_add, rec709_correct]

theorem rec2020_from_xyz (p : Xyz (RF M)) : Rec2020.from_Xyz (liftXyz p) = liftRec2020 (Rec2020.from_Xyz p) := by
  simp only [Rec2020.from_Xyz, liftXyz_x, liftXyz_y, liftXyz_z, liftRec2020, C.rec2020_XR, C.XG, C.XB, h_lit, h_neg,
    h_mul, h_add, rec2020_correct]

theorem compute_f_bridge (x : RF M) : Lab.compute_f (RF.lift x) = RF.lift (Lab.compute_f x) := by
  unfold Lab.compute_f
  simp (disch := lit_side) only [h_lit, h_lt, h_cbrt, h_mul, h_div, h_add, h_ite]

theorem lab_from_xyz (p : Xyz (RF M)) : Lab.from_Xyz (liftXyz p) = liftLab (Lab.from_Xyz p) := by
  simp (disch := lit_side) only [Lab.from_Xyz, liftXyz_x, liftXyz_y, liftXyz_z, liftLab, C.D65, h_lit, h_div,
    compute_f_bridge, h_mul, h_sub]

theorem pi_ne : (Flt.pi : RF M).val ≠ 0 := by
  simp only [FltRF.pi_val]
  exact (rnd_pos (le_trans (by norm_num) Real.pi_gt_three.le)).ne'

theorem degree_bridge (x : RF M) :
    F64.get_degree_from_radian (RF.lift x) = RF.lift (F64.get_degree_from_radian x) := by
  unfold F64.get_degree_from_radian
  simp (disch := exact pi_ne) only [h_lit, h_pi, h_mul, h_div]

theorem radian_bridge (x : RF M) :
    F64.get_radian_from_degree (RF.lift x) = RF.lift (F64.get_radian_from_degree x) := by
  unfold F64.get_radian_from_degree
  simp (disch := lit_side) only [h_lit, h_pi, h_mul, h_div]

/-- `powi 2` of any computed number is `≥ 0`: `rnd (1 * rnd (a * a))` -/
theorem powi2_nonneg (a : RF M) : 0 ≤ (Flt.powi a 2 : RF M).val := by
  rw [FltRF.powi_val, FpPolar.powi_two]
  exact FpErr.rnd_nonneg M (mul_nonneg zero_le_one (FpErr.rnd_nonneg M (mul_self_nonneg _)))

/-- chroma `sqrt(a.powi(2) + b.powi(2))`: the computed radicand is a rounded sum of rounded squares -/
theorem chroma_powi_bridge (a b : RF M) :
    Flt.sqrt (Flt.powi (RF.lift a) 2 + Flt.powi (RF.lift b) 2) = RF.lift (Flt.sqrt (Flt.powi a 2 + Flt.powi b 2)) := by
  have h : 0 ≤ (Flt.powi a 2 + Flt.powi b 2 : RF M).val := by
    rw [FltRF.add_val]; exact FpErr.rnd_nonneg M (add_nonneg (powi2_nonneg a) (powi2_nonneg b))
  simp (disch := first | assumption | norm_num) only [h_powi, h_add, h_sqrt]

/-- chroma `sqrt(u*u + v*v)` -/
theorem chroma_mul_bridge (a b : RF M) :
    Flt.sqrt (RF.lift a * RF.lift a + RF.lift b * RF.lift b) = RF.lift (Flt.sqrt (a * a + b * b)) := by
  have h : 0 ≤ (a * a + b * b : RF M).val := by
    simp only [FltRF.add_val, FltRF.mul_val]
    exact FpErr.rnd_nonneg M (add_nonneg (FpErr.rnd_nonneg M (mul_self_nonneg _)) (FpErr.rnd_nonneg M (mul_self_nonneg _)))
  simp (disch := assumption) only [h_mul, h_add, h_sqrt]

theorem liftLab_l (p : Lab (RF M)) : (liftLab p).l = RF.lift p.l := rfl
theorem liftLab_a (p : Lab (RF M)) : (liftLab p).a = RF.lift p.a := rfl
theorem liftLab_b (p : Lab (RF M)) : (liftLab p).b = RF.lift p.b := rfl

theorem lchlab_from_xyz (p : Xyz (RF M)) : Lchlab.from_Xyz (liftXyz p) = liftLchlab (Lchlab.from_Xyz p) := by
  unfold Lchlab.from_Xyz
  rw [lab_from_xyz]
  generalize Lab.from_Xyz p = q
  simp only [liftLab_l, liftLab_a, liftLab_b, h_atan2, degree_bridge, chroma_powi_bridge, h_lit, h_le, h_add]
  refine ite_map liftLchlab (fun _ => rfl) (fun _ => rfl)

theorem liftSrgb_r (p : Srgb (RF M)) : (liftSrgb p).r = RF.lift p.r := rfl
theorem liftSrgb_g (p : Srgb (RF M)) : (liftSrgb p).g = RF.lift p.g := rfl
theorem liftSrgb_b (p : Srgb (RF M)) : (liftSrgb p).b = RF.lift p.b := rfl

/-- **the clamp**: `powf(max(v, 0), 2.2)` is defined for every computed `v`, of either sign -/
theorem as_linear_bridge (p : Srgb (RF M)) : Srgb.as_linear (liftSrgb p) = liftSrgb (Srgb.as_linear p) := by
  simp (disch := fp_side) only [Srgb.as_linear, liftSrgb_r, liftSrgb_g, liftSrgb_b, liftSrgb, h_lit, h_max,
    h_pow_nonneg]

theorem as_non_linear_bridge (p : Srgb (RF M)) :
    Srgb.as_non_linear (liftSrgb p) = liftSrgb (Srgb.as_non_linear p) := by
  simp (disch := fp_side) only [Srgb.as_non_linear, liftSrgb_r, liftSrgb_g, liftSrgb_b, liftSrgb, h_lit, h_max, h_div,
    h_pow_nonneg]

theorem oklab_from_srgb (p : Srgb (RF M)) : OkLab.from_Srgb (liftSrgb p) = liftOkLab (OkLab.from_Srgb p) := by
  unfold OkLab.from_Srgb
  rw [as_linear_bridge]
  generalize Srgb.as_linear p = q
  simp only [liftSrgb_r, liftSrgb_g, liftSrgb_b, liftOkLab, C.OKSR, C.OKSG, C.OKSB, C.OKL, C.OKA, C.OKB, h_lit, h_mul,
    h_add, h_sub, h_cbrt]

theorem oklab_from_xyz (p : Xyz (RF M)) : OkLab.from_Xyz (liftXyz p) = liftOkLab (OkLab.from_Xyz p) := by
  unfold OkLab.from_Xyz; rw [srgb_from_xyz, oklab_from_srgb]

theorem liftOkLab_l (p : OkLab (RF M)) : (liftOkLab p).l = RF.lift p.l := rfl
theorem liftOkLab_a (p : OkLab (RF M)) : (liftOkLab p).a = RF.lift p.a := rfl
theorem liftOkLab_b (p : OkLab (RF M)) : (liftOkLab p).b = RF.lift p.b := rfl

theorem oklch_from_oklab (p : OkLab (RF M)) : OkLch.from_OkLab (liftOkLab p) = liftOkLch (OkLch.from_OkLab p) := by
  simp only [OkLch.from_OkLab, liftOkLab_l, liftOkLab_a, liftOkLab_b, chroma_powi_bridge, h_atan2, liftOkLch]

theorem oklch_from_xyz (p : Xyz (RF M)) : OkLch.from_Xyz (liftXyz p) = liftOkLch (OkLch.from_Xyz p) := by
  unfold OkLch.from_Xyz; rw [oklab_from_xyz, oklch_from_oklab]

/-! ## spaces that divide by a computed combination of X, Y, Z -/

/-- what is known of the COMPUTED XYZ of an 8-bit colour: exactly black, or non-negative with a luminance that is far
above the underflow range (`FpCieXyz.xyz_cone_fp` gives `1.9e-5` under D65; `5e-10` holds under every profile) -/
def XyzOK (p : Xyz (RF M)) : Prop :=
  (p.x.val = 0 ∧ p.y.val = 0 ∧ p.z.val = 0) ∨ (0 ≤ p.x.val ∧ 1 / 10 ^ 10 ≤ p.y.val ∧ 0 ≤ p.z.val)

def liftPair (p : RF M × RF M) : PRF M × PRF M := (RF.lift p.1, RF.lift p.2)

/-- the computed `x + a·y + b·z` is positive when `y` is a normal positive number, `a ≥ 1`, `x, z, b ≥ 0` -/
theorem den_pos (x y z a b : RF M) (hx : 0 ≤ x.val) (hy : 1 / 10 ^ 100 ≤ y.val) (hz : 0 ≤ z.val)
    (ha : 1 ≤ a.val) (hb : 0 ≤ b.val) : 0 < ((x + a * y) + b * z : RF M).val := by
  simp only [FltRF.add_val, FltRF.mul_val]
  have hy0 : 0 ≤ y.val := le_trans (by norm_num) hy
  have h1 : y.val ≤ a.val * y.val := by nlinarith
  have h2 : y.val / 2 ≤ M.rnd (a.val * y.val) := by
    have := rnd_half (M := M) (x := a.val * y.val) (le_trans (by norm_num) (le_trans hy h1)); linarith
  have h3 : y.val / 2 ≤ x.val + M.rnd (a.val * y.val) := by linarith
  have h4 : y.val / 4 ≤ M.rnd (x.val + M.rnd (a.val * y.val)) := by
    have := rnd_half (M := M) (x := x.val + M.rnd (a.val * y.val)) (by norm_num at hy ⊢; linarith); linarith
  have h5 : 0 ≤ M.rnd (b.val * z.val) := FpErr.rnd_nonneg M (mul_nonneg hb hz)
  exact rnd_pos (by norm_num at hy ⊢; linarith)

theorem compounds_bridge (x y z : RF M)
    (h : (x.val = 0 ∧ y.val = 0 ∧ z.val = 0) ∨ (0 ≤ x.val ∧ 1 / 10 ^ 100 ≤ y.val ∧ 0 ≤ z.val)) :
    Luv.compute_compounds (RF.lift x) (RF.lift y) (RF.lift z) = liftPair (Luv.compute_compounds x y z) := by
  unfold Luv.compute_compounds
  simp only [h_lit, h_beq, h_mul, h_add]
  have D : ((x + Flt.lit 0x402E000000000000 15 1 * y) + Flt.lit 0x4008000000000000 3 1 * z : RF M).val ≠ 0 →
      (RF.lift (Flt.lit 0x4010000000000000 4 1 * x) /
          RF.lift ((x + Flt.lit 0x402E000000000000 15 1 * y) + Flt.lit 0x4008000000000000 3 1 * z),
        RF.lift (Flt.lit 0x4022000000000000 9 1 * y) /
          RF.lift ((x + Flt.lit 0x402E000000000000 15 1 * y) + Flt.lit 0x4008000000000000 3 1 * z)) =
      liftPair (Flt.lit 0x4010000000000000 4 1 * x / ((x + Flt.lit 0x402E000000000000 15 1 * y) + Flt.lit 0x4008000000000000 3 1 * z),
        Flt.lit 0x4022000000000000 9 1 * y / ((x + Flt.lit 0x402E000000000000 15 1 * y) + Flt.lit 0x4008000000000000 3 1 * z)) := by
    intro hd; simp (disch := assumption) only [h_div, liftPair]
  have hden : (¬ (x.val = 0 ∧ y.val = 0 ∧ z.val = 0)) →
      ((x + Flt.lit 0x402E000000000000 15 1 * y) + Flt.lit 0x4008000000000000 3 1 * z : RF M).val ≠ 0 := by
    intro hn
    rcases h with h | ⟨h1, h2, h3⟩
    · exact absurd h hn
    · refine (den_pos x y z _ _ h1 h2 h3 ?_ (lit_nonneg _ _ _)).ne'
      rw [lit_int_val _ 15 (by norm_num)]; norm_num
  refine ite_map liftPair (fun c1 => ite_map liftPair (fun c2 => ite_map liftPair (fun _ => rfl) (fun c3 => D (hden ?_)))
    (fun c2 => D (hden ?_))) (fun c1 => D (hden ?_))
  · simp only [FltRF.beq_eq, decide_eq_false_iff_not, lit_zero] at c3; tauto
  · simp only [FltRF.beq_eq, decide_eq_false_iff_not, lit_zero] at c2; tauto
  · simp only [FltRF.beq_eq, decide_eq_false_iff_not, lit_zero] at c1; tauto

/-- the white-point compounds (constants of the code) -/
theorem compounds_white_bridge :
    Luv.compute_compounds (C.D65 : PRF M × PRF M × PRF M).1 (C.D65 : PRF M × PRF M × PRF M).2.1
        (C.D65 : PRF M × PRF M × PRF M).2.2 =
      liftPair (Luv.compute_compounds (C.D65 : RF M × RF M × RF M).1 (C.D65 : RF M × RF M × RF M).2.1
        (C.D65 : RF M × RF M × RF M).2.2) := by
  simp only [C.D65, h_lit]
  apply compounds_bridge
  right
  refine ⟨lit_nonneg _ _ _, ?_, lit_nonneg _ _ _⟩
  rw [lit_int_val _ 1 (by norm_num)]; norm_num

theorem liftPair_1 (p : RF M × RF M) : (liftPair p).1 = RF.lift p.1 := rfl
theorem liftPair_2 (p : RF M × RF M) : (liftPair p).2 = RF.lift p.2 := rfl

theorem luv_from_xyz (p : Xyz (RF M)) (h : XyzOK p) : Luv.from_Xyz (liftXyz p) = liftLuv (Luv.from_Xyz p) := by
  have h' : (p.x.val = 0 ∧ p.y.val = 0 ∧ p.z.val = 0) ∨ (0 ≤ p.x.val ∧ 1 / 10 ^ 100 ≤ p.y.val ∧ 0 ≤ p.z.val) := by
    rcases h with h | ⟨h1, h2, h3⟩
    · exact Or.inl h
    · exact Or.inr ⟨h1, le_trans (by norm_num) h2, h3⟩
  unfold Luv.from_Xyz
  rw [compounds_white_bridge]
  simp only [liftXyz_x, liftXyz_y, liftXyz_z, compounds_bridge _ _ _ h']
  generalize Luv.compute_compounds p.x p.y p.z = v10
  generalize Luv.compute_compounds (C.D65 : RF M × RF M × RF M).1 (C.D65 : RF M × RF M × RF M).2.1
        (C.D65 : RF M × RF M × RF M).2.2 = v16
  simp (disch := lit_side) only [C.D65, C.EPSILON, C.KAPPA, liftPair_1, liftPair_2, h_lit, h_div, h_lt, h_sub]
  refine ite_map liftLuv (fun c => ?_) (fun c => ?_)
  · simp only [FltRF.lt_eq, decide_eq_true_eq] at c
    have hb : 0 < (p.y / Flt.lit 0x3FF0000000000000 1 1 : RF M).val := lt_of_le_of_lt (lit_nonneg _ _ _) c
    simp (disch := fp_side) only [h_div, h_pow_pos, h_mul, h_sub, liftLuv]
  · simp only [h_mul, liftLuv]

theorem liftLuv_l (p : Luv (RF M)) : (liftLuv p).l = RF.lift p.l := rfl
theorem liftLuv_u (p : Luv (RF M)) : (liftLuv p).u = RF.lift p.u := rfl
theorem liftLuv_v (p : Luv (RF M)) : (liftLuv p).v = RF.lift p.v := rfl

theorem lchuv_from_luv_part (q : Luv (RF M)) :
    (let h_3 : PRF M := F64.get_degree_from_radian (Flt.atan2 (liftLuv q).v (liftLuv q).u)
     if Flt.lt (Flt.lit 0x0000000000000000 0 1) h_3 = true then
       ({ l := (liftLuv q).l, c := Flt.sqrt (Flt.powi (liftLuv q).u 2 + Flt.powi (liftLuv q).v 2), h := h_3 } : Lchuv (PRF M))
     else { l := (liftLuv q).l, c := Flt.sqrt (Flt.powi (liftLuv q).u 2 + Flt.powi (liftLuv q).v 2),
            h := h_3 + Flt.lit 0x4076800000000000 360 1 }) =
    liftLchuv (let h_3 : RF M := F64.get_degree_from_radian (Flt.atan2 q.v q.u)
     if Flt.lt (Flt.lit 0x0000000000000000 0 1) h_3 = true then
       ({ l := q.l, c := Flt.sqrt (Flt.powi q.u 2 + Flt.powi q.v 2), h := h_3 } : Lchuv (RF M))
     else { l := q.l, c := Flt.sqrt (Flt.powi q.u 2 + Flt.powi q.v 2), h := h_3 + Flt.lit 0x4076800000000000 360 1 }) := by
  simp only [liftLuv_l, liftLuv_u, liftLuv_v, h_atan2, degree_bridge, chroma_powi_bridge, h_lit, h_lt, h_add]
  refine ite_map liftLchuv (fun _ => rfl) (fun _ => rfl)

theorem lchuv_from_xyz (p : Xyz (RF M)) (h : XyzOK p) : Lchuv.from_Xyz (liftXyz p) = liftLchuv (Lchuv.from_Xyz p) := by
  unfold Lchuv.from_Xyz
  rw [luv_from_xyz p h]
  exact lchuv_from_luv_part _

theorem hue_from_luv (q : Luv (RF M)) : F64.from_Luv (liftLuv q) = RF.lift (F64.from_Luv q) := by
  unfold F64.from_Luv
  simp only [liftLuv_u, liftLuv_v, h_atan2, degree_bridge, h_lit, h_lt, h_sub, h_add]
  refine ite_bridge (fun _ => rfl) (fun _ => ite_bridge (fun _ => rfl) (fun _ => rfl))

theorem hcl_from_luv (q : Luv (RF M)) : Hcl.from_Luv (liftLuv q) = liftHcl (Hcl.from_Luv q) := by
  unfold Hcl.from_Luv
  rw [hue_from_luv]
  simp only [liftLuv_l, liftLuv_u, liftLuv_v, chroma_mul_bridge, liftHcl]

theorem hcl_from_xyz (p : Xyz (RF M)) (h : XyzOK p) : Hcl.from_Xyz (liftXyz p) = liftHcl (Hcl.from_Xyz p) := by
  unfold Hcl.from_Xyz; rw [luv_from_xyz p h, hcl_from_luv]

/-- Hunter Lab: `y == 0` is the guard; otherwise the computed `sqrt(y / Yn)` is positive -/
theorem hlab_from_xyz (p : Xyz (RF M)) (h : p.y.val = 0 ∨ 1 / 10 ^ 10 ≤ p.y.val) :
    Hlab.from_Xyz (liftXyz p) = liftHlab (Hlab.from_Xyz p) := by
  unfold Hlab.from_Xyz
  simp only [liftXyz_x, liftXyz_y, liftXyz_z, h_lit, h_beq]
  refine ite_map liftHlab (fun _ => rfl) (fun c => ?_)
  simp only [FltRF.beq_eq, decide_eq_false_iff_not, lit_zero] at c
  have hy : 1 / 10 ^ 10 ≤ p.y.val := h.resolve_left c
  have hq : 1 / 10 ^ 13 ≤ (p.y / (C.YN : RF M)).val := by
    simp only [C.YN, FltRF.div_val]
    rw [lit_int_val _ 100 (by norm_num)]
    have : 1 / 10 ^ 12 ≤ p.y.val / ((100 : ℕ) : ℝ) := by
      push_cast; rw [le_div_iff₀ (by norm_num)]; norm_num at hy ⊢; linarith
    have := rnd_half (M := M) (x := p.y.val / ((100 : ℕ) : ℝ)) (le_trans (by norm_num) this)
    norm_num at *; linarith
  have hq0 : 0 ≤ (p.y / (C.YN : RF M)).val := le_trans (by norm_num) hq
  have hs : (Flt.sqrt (p.y / (C.YN : RF M)) : RF M).val ≠ 0 := by
    rw [FltRF.sqrt_val]
    have h1 : (1 / 10 ^ 7 : ℝ) ≤ Real.sqrt (p.y / (C.YN : RF M)).val := by
      rw [show (1 / 10 ^ 7 : ℝ) = Real.sqrt ((1 / 10 ^ 7) ^ 2) by rw [Real.sqrt_sq (by norm_num)]]
      exact Real.sqrt_le_sqrt (le_trans (by norm_num) hq)
    exact (rnd_pos (le_trans (by norm_num) h1)).ne'
  have hyn : (C.YN : RF M).val ≠ 0 := by simp only [C.YN]; lit_side
  have hxn : (C.XN : RF M).val ≠ 0 := by simp only [C.XN]; lit_side
  have hzn : (C.ZN : RF M).val ≠ 0 := by simp only [C.ZN]; lit_side
  have eyn : (C.YN : PRF M) = RF.lift (C.YN : RF M) := rfl
  have exn : (C.XN : PRF M) = RF.lift (C.XN : RF M) := rfl
  have ezn : (C.ZN : PRF M) = RF.lift (C.ZN : RF M) := rfl
  have ek : (Hlab.get_ka_kb : PRF M × PRF M) = liftPair (Hlab.get_ka_kb : RF M × RF M) := by
    simp (disch := lit_side) only [Hlab.get_ka_kb, eyn, exn, ezn, h_lit, h_div, h_add, h_mul, liftPair]
  rw [ek]
  simp (disch := assumption) only [eyn, exn, ezn, liftPair_1, liftPair_2, h_div, h_sqrt, h_mul, h_sub, liftHlab]

theorem is_null_bridge (p : Xyz (RF M)) : Xyz.is_null (liftXyz p) = Xyz.is_null p := by
  simp only [Xyz.is_null, liftXyz_x, liftXyz_y, liftXyz_z, h_lit, h_beq]
  rfl

/-- xyY: `is_null` is the guard; otherwise the computed `x + y + z` is positive -/
theorem xyy_from_xyz (p : Xyz (RF M)) (h : XyzOK p) : Xyy.from_Xyz (liftXyz p) = liftXyy (Xyy.from_Xyz p) := by
  unfold Xyy.from_Xyz Xyy.get_fields_from_xyz Xyy.compute_xyy
  simp only [is_null_bridge]
  by_cases hn : Xyz.is_null p = true
  · simp only [hn, if_true, Option.getD_none, C.CHROMA_X, C.CHROMA_Y, h_lit, liftXyy, liftXyz_y]
  · have hden : ((p.x + p.y) + p.z : RF M).val ≠ 0 := by
      rcases h with ⟨h1, h2, h3⟩ | ⟨h1, h2, h3⟩
      · exfalso; apply hn
        simp only [Xyz.is_null, FltRF.beq_eq, lit_zero, h1, h2, h3, decide_true, if_true]
      · simp only [FltRF.add_val]
        have a1 : p.y.val / 2 ≤ M.rnd (p.x.val + p.y.val) := by
          have := rnd_half (M := M) (x := p.x.val + p.y.val) (by norm_num at h2 ⊢; linarith); linarith
        exact (rnd_pos (by norm_num at h2 ⊢; linarith)).ne'
    simp (disch := assumption) only [hn, Bool.false_eq_true, if_false, Option.getD_some, liftXyz_x, liftXyz_y,
      liftXyz_z, h_add, h_div, liftXyy]

/-- Rec.2100 (PQ): finite when the three COMPUTED BT.2020 linear components are non-negative -/
theorem rec2100_from_xyz (p : Xyz (RF M))
    (hr : 0 ≤ (((p.x * (C.rec2020_XR : RF M × RF M × RF M).1) + (p.y * (C.rec2020_XR : RF M × RF M × RF M).2.1)) +
      (p.z * (C.rec2020_XR : RF M × RF M × RF M).2.2)).val)
    (hg : 0 ≤ (((p.x * (C.XG : RF M × RF M × RF M).1) + (p.y * (C.XG : RF M × RF M × RF M).2.1)) +
      (p.z * (C.XG : RF M × RF M × RF M).2.2)).val)
    (hb : 0 ≤ (((p.x * (C.XB : RF M × RF M × RF M).1) + (p.y * (C.XB : RF M × RF M × RF M).2.1)) +
      (p.z * (C.XB : RF M × RF M × RF M).2.2)).val) :
    Rec2100.from_Xyz (liftXyz p) = liftRec2100 (Rec2100.from_Xyz p) := by
  have er : ((liftXyz p).x * (C.rec2020_XR : PRF M × PRF M × PRF M).1 + (liftXyz p).y * (C.rec2020_XR : PRF M × PRF M × PRF M).2.1 +
      (liftXyz p).z * (C.rec2020_XR : PRF M × PRF M × PRF M).2.2) =
      RF.lift (((p.x * (C.rec2020_XR : RF M × RF M × RF M).1) + (p.y * (C.rec2020_XR : RF M × RF M × RF M).2.1)) +
      (p.z * (C.rec2020_XR : RF M × RF M × RF M).2.2)) := by
    simp only [liftXyz_x, liftXyz_y, liftXyz_z, C.rec2020_XR, h_lit, h_neg, h_mul, h_add]
  have eg : ((liftXyz p).x * (C.XG : PRF M × PRF M × PRF M).1 + (liftXyz p).y * (C.XG : PRF M × PRF M × PRF M).2.1 +
      (liftXyz p).z * (C.XG : PRF M × PRF M × PRF M).2.2) =
      RF.lift (((p.x * (C.XG : RF M × RF M × RF M).1) + (p.y * (C.XG : RF M × RF M × RF M).2.1)) +
      (p.z * (C.XG : RF M × RF M × RF M).2.2)) := by
    simp only [liftXyz_x, liftXyz_y, liftXyz_z, C.XG, h_lit, h_neg, h_mul, h_add]
  have eb : ((liftXyz p).x * (C.XB : PRF M × PRF M × PRF M).1 + (liftXyz p).y * (C.XB : PRF M × PRF M × PRF M).2.1 +
      (liftXyz p).z * (C.XB : PRF M × PRF M × PRF M).2.2) =
      RF.lift (((p.x * (C.XB : RF M × RF M × RF M).1) + (p.y * (C.XB : RF M × RF M × RF M).2.1)) +
      (p.z * (C.XB : RF M × RF M × RF M).2.2)) := by
    simp only [liftXyz_x, liftXyz_y, liftXyz_z, C.XB, h_lit, h_neg, h_mul, h_add]
  unfold Rec2100.from_Xyz
  simp only [er, eg, eb, pq_eotf_nonneg _ hr, pq_eotf_nonneg _ hg, pq_eotf_nonneg _ hb, liftRec2100]

end Lemmas.FpDefined
