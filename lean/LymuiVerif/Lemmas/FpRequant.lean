import LymuiVerif.Lemmas.FpEnc2
import LymuiVerif.Lemmas.Rec2020F1a
import LymuiVerif.Lemmas.RoundtripF1a
import LymuiVerif.Props.C02_curves
import LymuiVerif.Props.C14_fp
import LymuiVerif.Lemmas.FpCie
import LymuiVerif.Lemmas.FpLuv
/-!
# Rounded-arithmetic (`RF M`) helpers for `Props/C02_fp_rest.lean`

* BT.2020 curve pair of the code in `RF M` WITHOUT a breakpoint condition: the four branch lemmas
  `rec2020_enc_lin`, `rec2020_enc_pow`, `rec2020_dec_lin`, `rec2020_dec_pow` (whatever the computed comparisons
  `a < rnd 0.0181`, `t < rnd 0.081` decide, the computed value follows the formula of the branch taken),
  and `rec2020_dec_enc_any_fp`: `decode (encode a)` is within `1.0001e-6` of the real linear component `w ≈ a` —
  exact-real part: the sliver bound `Lemmas.Rec2020F1a.rec2020_dec_enc_sliver_tight` (`1e-6`).  The combination
  "power encoder, linear decoder" is impossible (`α·0.0181^0.45 − (α−1) > 0.0814 > 0.081`); "linear encoder, power
  decoder" happens exactly for `a ∈ [0.018, 0.0181]` up to an ulp, where the real model does the same.
* `rec2020_roundtrip_any_fp`: the Rec.2020 round trip of the computed XYZ of every 8-bit colour, `1.4e-6`.
* polar detours: `polar_rt` (real: an approximate polar form of `(a, b)` converts back within `3e-14·C + 1e-99`; the hue may be
  off by whole turns), `lchlab_cart_rt_fp`, `lchuv_cart_rt_fp`, `hcl_cart_rt_fp`, `oklch_cart_rt_fp` (`polar_rt_rad`).
* `lab_roundtrip_pert_fp`, `luv_roundtrip_pert_fp` (with `assemble_wide_fp`, `upR_pert`, `uv_mag`): the CIELAB / CIELUV round
  trips of `Lemmas/FpCie.lean`, `Lemmas/FpLuv.lean` with the chromatic coordinates perturbed by a polar detour.
* black through the polar forms of CIELUV: `lchuv_black_fp`, `hcl_black_fp` (exact zeros).
-/
namespace Lemmas.FpRequant
open Gen FpErr Lemmas.Matrix Lemmas.XyzDispatch Lemmas.FpXyz Lemmas.CurvesD2 Lemmas.FpEnc Lemmas.FpEnc2 Props.C08

section rec2020
variable (M : FPModel)

/-- the BT.2020 encoder in `RF M`, computed linear branch -/
theorem rec2020_enc_lin (a : RF M) (hc : a.val < M.rnd (((181:ℕ):ℝ) / ((10000:ℕ):ℝ))) (ba : |a.val| ≤ 1.3) :
    |(F64.compute_rec2020_gamma_correction a).val - a.val * 4.5| ≤ 2e-15 := by
  simp only [F64.compute_rec2020_gamma_correction, FltRF.lt_eq, FltRF.lit_val, hc, decide_true, if_true, FltRF.mul_val]
  have l1 := lit_close M 9 2 (B := 4.5) (by norm_num) (by norm_num)
  have m1 := mul_close M (a := a.val) (x := a.val) (ea := 0) (by simp) l1 ba (By := 4.5)
    (by rw [abs_of_nonneg (by positivity)]; norm_num) (by norm_num)
  rw [show a.val * 4.5 = a.val * (((9:ℕ):ℝ) / ((2:ℕ):ℝ)) by norm_num]
  refine m1.trans ?_; norm_num [FP.eps]

/-- the BT.2020 encoder in `RF M`, computed power branch -/
theorem rec2020_enc_pow (a : RF M) (hc : ¬ a.val < M.rnd (((181:ℕ):ℝ) / ((10000:ℕ):ℝ))) (ha2 : a.val ≤ 2) :
    0.018 ≤ a.val ∧
    |(F64.compute_rec2020_gamma_correction a).val - (1.0993 * a.val ^ (0.45:ℝ) - (1.0993 - 1))| ≤ 2e-14 := by
  have l0 := lit_close M 181 10000 (B := 1) (by norm_num) (by norm_num)
  obtain ⟨l01, l02⟩ := abs_le.mp l0
  simp only [F64.compute_rec2020_gamma_correction, FltRF.lt_eq, FltRF.lit_val, hc, decide_false, if_false,
    FltRF.mul_val, FltRF.sub_val, FltRF.pow_val, Bool.false_eq_true]
  rw [not_lt] at hc
  have ha18 : (0.018:ℝ) ≤ a.val := by unfold FP.eps at *; push_cast at *; linarith
  refine ⟨ha18, ?_⟩
  have ip := lit_close M 9 20 (B := 3) (by norm_num) (by norm_num)
  have hs := bt2020_slope18
  rw [lit_int M 1 (by norm_num)]
  have l2 := lit_close M 10993 10000 (B := 1.0993) (by norm_num) (by norm_num)
  have hp0 : (0.4:ℝ) ≤ ((9:ℕ):ℝ) / ((20:ℕ):ℝ) := by norm_num
  have hp1 : ((9:ℕ):ℝ) / ((20:ℕ):ℝ) ≤ (0.5:ℝ) := by norm_num
  have pw := pow_enc_lip M (b := a.val) (x := a.val) (x0 := 0.018) (K := 4.11) (e := 0) (by norm_num)
    ha18 ha2 ha18 (by simp) hp0 hp1 ip hs
  have e45 : (0.45:ℝ) = ((9:ℕ):ℝ) / ((20:ℕ):ℝ) := by norm_num
  rw [e45]
  generalize ((9:ℕ):ℝ) / ((20:ℕ):ℝ) = p at *
  have bp0 : 0 ≤ a.val ^ p := Real.rpow_nonneg (by linarith) p
  have bp : a.val ^ p ≤ 2 := by
    calc a.val ^ p ≤ (2:ℝ) ^ p := Real.rpow_le_rpow (by linarith) ha2 (by linarith)
      _ ≤ (2:ℝ) ^ (1:ℝ) := Real.rpow_le_rpow_of_exponent_le (by norm_num) (by linarith)
      _ = 2 := Real.rpow_one 2
  have bp' : |a.val ^ p| ≤ 2 := by rw [abs_of_nonneg bp0]; exact bp
  have m1 := mul_close M l2 pw (Bx := 1.0993) (by rw [abs_of_nonneg (by positivity)]; norm_num) bp' (by norm_num)
  have one0 : |((1:ℕ):ℝ) - ((1:ℕ):ℝ)| ≤ 0 := by simp
  have bs : |((10993:ℕ):ℝ) / ((10000:ℕ):ℝ) - ((1:ℕ):ℝ)| ≤ 1 := by norm_num [abs_le]
  have s0 := sub_close M l2 one0 bs (by norm_num)
  have bm : |((10993:ℕ):ℝ) / ((10000:ℕ):ℝ) * a.val ^ p - (((10993:ℕ):ℝ) / ((10000:ℕ):ℝ) - ((1:ℕ):ℝ))| ≤ 3 := by
    rw [abs_le]; push_cast; constructor <;> nlinarith
  have s1 := sub_close M m1 s0 bm (by norm_num)
  refine (s1.trans_eq' ?_).trans (by norm_num [FP.eps])
  congr 1; norm_num

/-- the code's BT.2020 decoder in `RF M`, computed linear branch -/
theorem rec2020_dec_lin (t : RF M) (hc : t.val < M.rnd (((81:ℕ):ℝ) / ((1000:ℕ):ℝ))) (bt : |t.val| ≤ 1.001) :
    |(F64.compute_rec2020_gamma_expanded t).val - t.val / 4.5| ≤ 4e-16 := by
  simp only [F64.compute_rec2020_gamma_expanded, FltRF.lt_eq, FltRF.lit_val, hc, decide_true, if_true, FltRF.div_val]
  have l1 := lit_close M 9 2 (B := 4.5) (by norm_num) (by norm_num)
  have bq : |t.val / (((9:ℕ):ℝ) / ((2:ℕ):ℝ))| ≤ 1 := by
    rw [abs_div, abs_of_nonneg (by positivity : (0:ℝ) ≤ ((9:ℕ):ℝ)/((2:ℕ):ℝ)), div_le_one (by positivity)]
    push_cast; linarith
  have d1 := div_close M (a := t.val) (x := t.val) (ea := 0) (by simp) l1 bt (m := 4) (Bq := 1) (by norm_num)
    (by norm_num [FP.eps]) bq (by norm_num)
  rw [show t.val / 4.5 = t.val / (((9:ℕ):ℝ) / ((2:ℕ):ℝ)) by norm_num]
  refine le_trans d1 ?_
  have : (0 * 4 + FP.eps * 4.5 * 1.001) / (4 * (4 - FP.eps * 4.5)) ≤ 2e-16 := by
    rw [div_le_iff₀ (by norm_num [FP.eps])]; unfold FP.eps; norm_num
  unfold FP.eps at *
  nlinarith

/-- the code's BT.2020 decoder in `RF M`, computed power branch, perturbed argument -/
theorem rec2020_dec_pow (t : RF M) (v e : ℝ) (htv : |t.val - v| ≤ e) (he : e ≤ 1e-10)
    (hc : ¬ t.val < M.rnd (((81:ℕ):ℝ) / ((1000:ℕ):ℝ))) (hlo : 0.08 ≤ v) (hhi : v ≤ 1.001) :
    |(F64.compute_rec2020_gamma_expanded t).val - ((v + (1.0993 - 1)) / 1.0993) ^ ((1 : ℝ) / 0.45)| ≤ 2.7 * e + 2e-14 := by
  have he0 : 0 ≤ e := le_trans (abs_nonneg _) htv
  obtain ⟨ht1, ht2⟩ := abs_le.mp htv
  have bv : |v| ≤ 1.001 := by rw [abs_le]; constructor <;> linarith
  simp only [F64.compute_rec2020_gamma_expanded, FltRF.lt_eq, FltRF.lit_val, hc, decide_false, if_false, FltRF.div_val,
    FltRF.add_val, FltRF.sub_val, FltRF.pow_val, Bool.false_eq_true]
  have l2 := lit_close M 10993 10000 (B := 2) (by norm_num) (by norm_num)
  have l3 := inv_exp_close2 M 9 20 (by norm_num) (by norm_num)
  rw [lit_int M 1 (by norm_num)] at l3 ⊢
  have one0 : |((1:ℕ):ℝ) - ((1:ℕ):ℝ)| ≤ 0 := by simp
  have bs0 : |((10993:ℕ):ℝ) / ((10000:ℕ):ℝ) - ((1:ℕ):ℝ)| ≤ 1 := by norm_num [abs_le]
  have l1 := sub_close M l2 one0 bs0 (by norm_num)
  have bs : |v + (((10993:ℕ):ℝ)/((10000:ℕ):ℝ) - ((1:ℕ):ℝ))| ≤ 2 := by
    rw [abs_of_nonneg (by push_cast; linarith)]; push_cast; linarith
  have a1 := add_close M htv l1 bs (by norm_num)
  have bq : |(v + (((10993:ℕ):ℝ)/((10000:ℕ):ℝ) - ((1:ℕ):ℝ))) / (((10993:ℕ):ℝ)/((10000:ℕ):ℝ))| ≤ 1.001 := by
    rw [abs_div, abs_of_nonneg (by push_cast; linarith : (0:ℝ) ≤ v + (((10993:ℕ):ℝ)/((10000:ℕ):ℝ) - ((1:ℕ):ℝ))),
      abs_of_nonneg (by positivity : (0:ℝ) ≤ ((10993:ℕ):ℝ)/((10000:ℕ):ℝ)), div_le_iff₀ (by positivity)]
    push_cast; linarith
  have d1 := div_close M a1 l2 bs (m := 1) (Bq := 1.001) (by rw [abs_of_nonneg (by positivity)]; norm_num)
    (by norm_num [FP.eps]) bq (by norm_num)
  have ex : (v + (1.0993 - 1)) / 1.0993 =
      (v + (((10993:ℕ):ℝ)/((10000:ℕ):ℝ) - ((1:ℕ):ℝ))) / (((10993:ℕ):ℝ)/((10000:ℕ):ℝ)) := by norm_num
  have ey : (1:ℝ) / 0.45 = 1 / (((9:ℕ):ℝ)/((20:ℕ):ℝ)) := by norm_num
  rw [ex, ey]
  set X : ℝ := (v + (((10993:ℕ):ℝ)/((10000:ℕ):ℝ) - ((1:ℕ):ℝ))) / (((10993:ℕ):ℝ)/((10000:ℕ):ℝ)) with hX
  have hXlo : 0.16 ≤ X := by
    rw [hX, le_div_iff₀ (by positivity)]; push_cast; linarith
  have hXhi : X ≤ 1.001 := by
    rw [hX, div_le_iff₀ (by positivity)]; push_cast; linarith
  set e0 : ℝ := (FP.eps * 2 + 0 + FP.eps * (1 + (FP.eps * 2 + 0))) with he0'
  set e1 : ℝ := (e + e0 + FP.eps * (2 + (e + e0))) with he1
  set e2 : ℝ := (e1 * 1 + FP.eps * 2 * 2) / (1 * (1 - FP.eps * 2)) + FP.eps * (1.001 + (e1 * 1 + FP.eps * 2 * 2) / (1 * (1 - FP.eps * 2))) with he2
  have he2b : e2 ≤ 1.0001 * e + 1.7e-15 := by
    have h1 : (e1 * 1 + FP.eps * 2 * 2) / (1 * (1 - FP.eps * 2)) ≤ 1.00001 * e + 1.5e-15 := by
      rw [div_le_iff₀ (by norm_num [FP.eps])]; rw [he1, he0']; unfold FP.eps; nlinarith
    rw [he2]; unfold FP.eps at *; nlinarith
  have hb0 : 0 < M.rnd (M.rnd (t.val + M.rnd (M.rnd (((10993:ℕ):ℝ) / ((10000:ℕ):ℝ)) - ((1:ℕ):ℝ))) /
      M.rnd (((10993:ℕ):ℝ) / ((10000:ℕ):ℝ))) := by
    have := (abs_le.mp d1).1; linarith
  have := pow_dec_close2 M hb0 (by linarith) hXhi d1 (by linarith) (y := 1 / (((9:ℕ):ℝ)/((20:ℕ):ℝ))) (by norm_num) (by norm_num) l3
  refine this.trans ?_
  nlinarith

theorem pow045_lo {a : ℝ} (ha : 0.018099 ≤ a) : (0.1644 : ℝ) ≤ a ^ (0.45 : ℝ) := by
  rw [e045]
  exact le_rpow_div 9 20 (by norm_num) (by linarith) (by norm_num)
    (le_trans (by norm_num) (pow_le_pow_left₀ (by norm_num) ha 9))

/-- real: the power decoder inverts the power encoder -/
theorem dpow_epow {a : ℝ} (ha : 0 ≤ a) :
    (((1.0993 * a ^ (0.45:ℝ) - (1.0993 - 1)) + (1.0993 - 1)) / 1.0993) ^ ((1 : ℝ) / 0.45) = a := by
  have : ((1.0993 * a ^ (0.45:ℝ) - (1.0993 - 1)) + (1.0993 - 1)) / 1.0993 = a ^ (0.45:ℝ) := by
    field_simp; ring
  rw [this, ← Real.rpow_mul ha]
  norm_num

theorem rec2020_dec_enc_any_fp (a : RF M) (w : ℝ) (haw : |a.val - w| ≤ 1e-11) (hlo : 0 ≤ w) (hhi : w ≤ 1.0001) :
    |(F64.compute_rec2020_gamma_expanded (F64.compute_rec2020_gamma_correction a)).val - w| ≤ 1.0001e-6 := by
  obtain ⟨hv1, hv2⟩ := abs_le.mp haw
  have l0 := lit_close M 181 10000 (B := 1) (by norm_num) (by norm_num)
  obtain ⟨l01, l02⟩ := abs_le.mp l0
  have k0 := lit_close M 81 1000 (B := 1) (by norm_num) (by norm_num)
  obtain ⟨k01, k02⟩ := abs_le.mp k0
  have ba : |a.val| ≤ 1.3 := by rw [abs_le]; constructor <;> linarith
  set t := F64.compute_rec2020_gamma_correction a with ht
  by_cases hc : a.val < M.rnd (((181:ℕ):ℝ) / ((10000:ℕ):ℝ))
  · have e1 := rec2020_enc_lin M a hc ba
    rw [← ht] at e1
    obtain ⟨e11, e12⟩ := abs_le.mp e1
    have hau : a.val ≤ 0.0181 + 2e-16 := by unfold FP.eps at *; push_cast at *; linarith
    by_cases hd : t.val < M.rnd (((81:ℕ):ℝ) / ((1000:ℕ):ℝ))
    · have d1 := rec2020_dec_lin M t hd (by rw [abs_le]; constructor <;> linarith)
      obtain ⟨d11, d12⟩ := abs_le.mp d1
      have hq : t.val / 4.5 = t.val * (2 / 9) := by ring
      rw [hq] at d11 d12
      rw [abs_le]; constructor <;> linarith
    · have htl : 0.081 - 2e-16 ≤ t.val := by rw [not_lt] at hd; unfold FP.eps at *; push_cast at *; linarith
      have hal : 0.018 - 1e-15 ≤ a.val := by linarith
      -- the nearest point of the sliver
      set L : ℝ := min (max a.val 0.018) (0.0181 - 1e-15) with hL
      have hL1 : 0.018 ≤ L := le_min (le_max_right _ _) (by norm_num)
      have hL2 : L < 0.0181 := lt_of_le_of_lt (min_le_right _ _) (by norm_num)
      have hLa : |a.val - L| ≤ 1.2e-15 := by
        rw [hL, abs_le]
        rcases le_total a.val 0.018 with h | h
        · rw [max_eq_right h, min_eq_left (by norm_num)]; constructor <;> linarith
        · rw [max_eq_left h]
          rcases le_total a.val (0.0181 - 1e-15) with h' | h'
          · rw [min_eq_left h']; constructor <;> linarith
          · rw [min_eq_right h']; constructor <;> linarith
      obtain ⟨la1, la2⟩ := abs_le.mp hLa
      have d2 := rec2020_dec_pow M t (4.5 * L) 8e-15 (by rw [abs_le]; constructor <;> linarith) (by norm_num) hd
        (by linarith) (by linarith)
      obtain ⟨s1, -⟩ := Lemmas.Rec2020F1a.rec2020_dec_enc_sliver_tight L hL1 hL2
      rw [(rec2020_dec_enc_sliver L hL1 hL2).1] at s1
      unfold α2020 at s1
      obtain ⟨s11, s12⟩ := abs_le.mp s1
      obtain ⟨d21, d22⟩ := abs_le.mp d2
      rw [abs_le]; constructor <;> linarith
  · obtain ⟨ha18, e2⟩ := rec2020_enc_pow M a hc (by linarith)
    rw [← ht] at e2
    obtain ⟨e21, e22⟩ := abs_le.mp e2
    have hal : 0.018099 ≤ a.val := by rw [not_lt] at hc; unfold FP.eps at *; push_cast at *; linarith
    have p1 := pow045_lo hal
    have p2 : a.val ^ (0.45:ℝ) ≤ 1.0002 := by
      calc a.val ^ (0.45:ℝ) ≤ (1.0002:ℝ) ^ (0.45:ℝ) := Real.rpow_le_rpow (by linarith) (by linarith) (by norm_num)
        _ ≤ (1.0002:ℝ) ^ (1:ℝ) := Real.rpow_le_rpow_of_exponent_le (by norm_num) (by norm_num)
        _ = 1.0002 := Real.rpow_one _
    have hd : ¬ t.val < M.rnd (((81:ℕ):ℝ) / ((1000:ℕ):ℝ)) := by
      rw [not_lt]; unfold FP.eps at *; push_cast at *; linarith
    have d2 := rec2020_dec_pow M t _ 2e-14 e2 (by norm_num) hd (by linarith) (by linarith)
    rw [dpow_epow (by linarith)] at d2
    obtain ⟨d21, d22⟩ := abs_le.mp d2
    rw [abs_le]; constructor <;> linarith

/-- **Rec.2020 round trip of the XYZ of EVERY 8-bit colour, in `RF M`** (no breakpoint condition): each component within
`1.4e-6` of the real-model XYZ -/
theorem rec2020_roundtrip_any_fp (c : Rgb) (hr : c.r ≤ 255) (hg : c.g ≤ 255) (hb : c.b ≤ 255) :
    |(Xyz.from_Rec2020 (Rec2020.from_Xyz (Xyz.from_rgb (α := RF M) c .D65))).x.val - (Xyz.from_rgb (α := ℝ) c .D65).x| ≤ 1.4e-6 ∧
    |(Xyz.from_Rec2020 (Rec2020.from_Xyz (Xyz.from_rgb (α := RF M) c .D65))).y.val - (Xyz.from_rgb (α := ℝ) c .D65).y| ≤ 1.4e-6 ∧
    |(Xyz.from_Rec2020 (Rec2020.from_Xyz (Xyz.from_rgb (α := RF M) c .D65))).z.val - (Xyz.from_rgb (α := ℝ) c .D65).z| ≤ 1.4e-6 := by
  obtain ⟨f1, f2, f3⟩ := xyz_fp_close M .D65 c hr hg hb
  have b1 := xyz_range .D65 c hr hg hb 0
  have b2 := xyz_range .D65 c hr hg hb 1
  have b3 := xyz_range .D65 c hr hg hb 2
  simp only [V3.get] at b1 b2 b3
  obtain ⟨r1, r2, r3⟩ := rec2020_rows M
  have q1 := dot3_close' M r1 (v := xyzF M .D65 c) (x := mulVec (fwd .D65) (lin .D65 c)) f1 f2 f3 b1 b2 b3 (by norm_num)
  have q2 := dot3_close' M r2 (v := xyzF M .D65 c) (x := mulVec (fwd .D65) (lin .D65 c)) f1 f2 f3 b1 b2 b3 (by norm_num)
  have q3 := dot3_close' M r3 (v := xyzF M .D65 c) (x := mulVec (fwd .D65) (lin .D65 c)) f1 f2 f3 b1 b2 b3 (by norm_num)
  obtain ⟨⟨a1, a1'⟩, ⟨a2, a2'⟩, ⟨a3, a3'⟩⟩ := Lemmas.DerivedF2.rec2020_lin_range _ _ _
    ⟨dec_level_nonneg .D65 c.r, dec_level_le_one .D65 hr⟩ ⟨dec_level_nonneg .D65 c.g, dec_level_le_one .D65 hg⟩
    ⟨dec_level_nonneg .D65 c.b, dec_level_le_one .D65 hb⟩
  have ew : ∀ m : V3, Lemmas.Matrix.dot m (mulVec (fwd .D65) (lin .D65 c)) =
      Props.C08.dot m (Props.C08.dot C.X65 (dec .D65 ((c.r:ℝ)/255)) (dec .D65 ((c.g:ℝ)/255)) (dec .D65 ((c.b:ℝ)/255)))
        (Props.C08.dot C.Y65 (dec .D65 ((c.r:ℝ)/255)) (dec .D65 ((c.g:ℝ)/255)) (dec .D65 ((c.b:ℝ)/255)))
        (Props.C08.dot C.Z65 (dec .D65 ((c.r:ℝ)/255)) (dec .D65 ((c.g:ℝ)/255)) (dec .D65 ((c.b:ℝ)/255))) := by
    intro m
    rw [dot_eq_c08]
    simp only [mulVec, fwd, dot_eq_c08, lin]
  rw [← ew] at a1 a1' a2 a2' a3 a3'
  have hn := Lemmas.RoundtripF1a.norm1_from_rgb_d65 c hr hg hb
  rw [from_rgb_eq] at hn ⊢
  obtain ⟨m1, m2, m3⟩ := Props.C02_curves.rec2020_matrix_product (mulVec (fwd .D65) (lin .D65 c)).1
    (mulVec (fwd .D65) (lin .D65 c)).2.1 (mulVec (fwd .D65) (lin .D65 c)).2.2
  simp only [← dot_eq_c08] at m1 m2 m3
  simp only [Props.C02_curves.norm1, toXyz] at hn ⊢
  generalize hw1 : Lemmas.Matrix.dot C.rec2020_XR (mulVec (fwd .D65) (lin .D65 c)) = w1 at *
  generalize hw2 : Lemmas.Matrix.dot C.XG (mulVec (fwd .D65) (lin .D65 c)) = w2 at *
  generalize hw3 : Lemmas.Matrix.dot C.XB (mulVec (fwd .D65) (lin .D65 c)) = w3 at *
  have d1 := rec2020_dec_enc_any_fp M _ w1 (q1.trans (by norm_num)) a1 (by norm_num at a1' ⊢; linarith)
  have d2 := rec2020_dec_enc_any_fp M _ w2 (q2.trans (by norm_num)) a2 (by norm_num at a2' ⊢; linarith)
  have d3 := rec2020_dec_enc_any_fp M _ w3 (q3.trans (by norm_num)) a3 (by norm_num at a3' ⊢; linarith)
  rw [from_rgb_eq_fp', rec2020_from_xyz_fp, xyz_from_rec2020_fp]
  dsimp only at ⊢
  generalize F64.compute_rec2020_gamma_expanded (F64.compute_rec2020_gamma_correction (dotF' M (xyzF M .D65 c) C.rec2020_XR)) = D1 at *
  generalize F64.compute_rec2020_gamma_expanded (F64.compute_rec2020_gamma_correction (dotF' M (xyzF M .D65 c) C.XG)) = D2 at *
  generalize F64.compute_rec2020_gamma_expanded (F64.compute_rec2020_gamma_correction (dotF' M (xyzF M .D65 c) C.XB)) = D3 at *
  obtain ⟨d11, d12⟩ := abs_le.mp d1
  obtain ⟨d21, d22⟩ := abs_le.mp d2
  obtain ⟨d31, d32⟩ := abs_le.mp d3
  have z : ∀ t : ℝ, |t - t| ≤ 0 := fun t => by simp
  have bb : ∀ (D : RF M) (w : ℝ), |D.val - w| ≤ 1.0001e-6 → 0 ≤ w → w ≤ 1 + 1 / 10 ^ 4 → |D.val| ≤ 3 := by
    intro D w h h0 h1
    obtain ⟨h2, h3⟩ := abs_le.mp h
    rw [abs_le]; constructor <;> linarith
  obtain ⟨s1, s2, s3⟩ := rec2020_fwd_rows M
  obtain ⟨p1, p2, p3⟩ := rev3_close M s1 s2 s3 (e := 0) (v := (D1, D2, D3)) (x := (D1.val, D2.val, D3.val))
    (z _) (z _) (z _) (bb _ _ d1 a1 a1') (bb _ _ d2 a2 a2') (bb _ _ d3 a3 a3') (by norm_num)
  generalize (dotF' M (D1, D2, D3) C.XX).val = P1 at *
  generalize (dotF' M (D1, D2, D3) C.XY).val = P2 at *
  generalize (dotF' M (D1, D2, D3) C.XZ).val = P3 at *
  obtain ⟨p11, p12⟩ := abs_le.mp p1
  obtain ⟨p21, p22⟩ := abs_le.mp p2
  obtain ⟨p31, p32⟩ := abs_le.mp p3
  obtain ⟨m11, m12⟩ := abs_le.mp m1
  obtain ⟨m21, m22⟩ := abs_le.mp m2
  obtain ⟨m31, m32⟩ := abs_le.mp m3
  simp only [Props.C08.dot, C.XX, C.XY, C.XZ, FltReal.lit_eq] at p11 p12 p21 p22 p31 p32 m11 m12 m21 m22 m31 m32
  norm_num at p11 p12 p21 p22 p31 p32 m11 m12 m21 m22 m31 m32
  refine ⟨?_, ?_, ?_⟩ <;> (rw [abs_le]; constructor <;> linarith)

end rec2020
end Lemmas.FpRequant

/-! ## polar detours: Cartesian → polar → Cartesian in `RF M` -/
namespace Lemmas.FpRequant
open Gen FpErr FpPolar Props.C14

/-- real: polar → Cartesian of an approximate polar form of `(a, b)` -/
theorem polar_rt {a b c h a' b' : ℝ} (k : ℤ)
    (hc : |c - chroma a b| ≤ 6e-16 * chroma a b + 1e-100)
    (hh : |h - (hueDeg a b + 360 * k)| ≤ 1e-12)
    (ha : |a' - c * Real.cos (h * Real.pi / 180)| ≤ 1.1e-14 * c + 1e-240)
    (hb : |b' - c * Real.sin (h * Real.pi / 180)| ≤ 1.1e-14 * c + 1e-240) :
    |a' - a| ≤ 3e-14 * chroma a b + 1e-99 ∧ |b' - b| ≤ 3e-14 * chroma a b + 1e-99 := by
  have hC : 0 ≤ chroma a b := Real.sqrt_nonneg _
  obtain ⟨e1, e2⟩ := Lemmas.Polar.cos_sin_polar a b k
  have hang : |h * Real.pi / 180 - (hueDeg a b + 360 * k) * Real.pi / 180| ≤ 1.8e-14 := by
    have : h * Real.pi / 180 - (hueDeg a b + 360 * k) * Real.pi / 180 = (h - (hueDeg a b + 360 * k)) * (Real.pi / 180) := by ring
    rw [this, abs_mul, abs_of_pos (by positivity : 0 < Real.pi / 180)]
    have hp : Real.pi / 180 ≤ 0.0175 := by
      rw [div_le_iff₀ (by norm_num)]; have := Real.pi_lt_d2; linarith
    calc |h - (hueDeg a b + 360 * k)| * (Real.pi / 180) ≤ 1e-12 * 0.0175 :=
          mul_le_mul hh hp (by positivity) (by norm_num)
      _ ≤ 1.8e-14 := by norm_num
  have c1 := (Real.abs_cos_sub_cos_le (h * Real.pi / 180) ((hueDeg a b + 360 * k) * Real.pi / 180)).trans hang
  have s1 := (Real.abs_sin_sub_sin_le (h * Real.pi / 180) ((hueDeg a b + 360 * k) * Real.pi / 180)).trans hang
  unfold hueDeg chroma at *
  set C := √(a ^ 2 + b ^ 2) with hCdef
  set θ := (Complex.arg ⟨a, b⟩ * 180 / Real.pi + 360 * (k:ℝ)) * Real.pi / 180 with hθ
  set φ := h * Real.pi / 180 with hφ
  have cc := Real.abs_cos_le_one φ
  have sc := Real.abs_sin_le_one φ
  obtain ⟨hc1, hc2⟩ := abs_le.mp hc
  have hcpos : -1e-100 ≤ c := by nlinarith
  constructor
  · have t : a' - a = (a' - c * Real.cos φ) + (c - C) * Real.cos φ + C * (Real.cos φ - Real.cos θ) := by
      rw [← e1]; ring
    rw [t]
    have m1 : |(c - C) * Real.cos φ| ≤ 6e-16 * C + 1e-100 := by
      rw [abs_mul]; exact (mul_le_of_le_one_right (abs_nonneg _) cc).trans hc
    have m2 : |C * (Real.cos φ - Real.cos θ)| ≤ C * 1.8e-14 := by
      rw [abs_mul, abs_of_nonneg hC]; exact mul_le_mul_of_nonneg_left c1 hC
    refine (abs_add_le _ _).trans ?_
    have := abs_add_le (a' - c * Real.cos φ) ((c - C) * Real.cos φ)
    nlinarith
  · have t : b' - b = (b' - c * Real.sin φ) + (c - C) * Real.sin φ + C * (Real.sin φ - Real.sin θ) := by
      rw [← e2]; ring
    rw [t]
    have m1 : |(c - C) * Real.sin φ| ≤ 6e-16 * C + 1e-100 := by
      rw [abs_mul]; exact (mul_le_of_le_one_right (abs_nonneg _) sc).trans hc
    have m2 : |C * (Real.sin φ - Real.sin θ)| ≤ C * 1.8e-14 := by
      rw [abs_mul, abs_of_nonneg hC]; exact mul_le_mul_of_nonneg_left s1 hC
    refine (abs_add_le _ _).trans ?_
    have := abs_add_le (b' - c * Real.sin φ) ((c - C) * Real.sin φ)
    nlinarith

theorem chroma_le_add (a b : ℝ) : chroma a b ≤ |a| + |b| := by
  unfold chroma
  rw [show a ^ 2 + b ^ 2 = |a| ^ 2 + |b| ^ 2 by rw [sq_abs, sq_abs]]
  apply Real.sqrt_le_iff.mpr
  constructor
  · positivity
  · nlinarith [abs_nonneg a, abs_nonneg b]

/-- any hue that is `H` or `H + 360` plus `360 k` is `H + 360 k'` -/
theorem wrap_mod {H D : ℝ} {P : Prop} [Decidable P] (h : ∃ k : ℤ, (k = 0 ∨ k = 1 ∨ k = -1) ∧
    |D - ((if P then H else H + 360) + 360 * k)| ≤ 1e-12) : ∃ k : ℤ, |D - (H + 360 * k)| ≤ 1e-12 := by
  obtain ⟨k, -, hk⟩ := h
  by_cases hp : P
  · rw [if_pos hp] at hk; exact ⟨k, hk⟩
  · rw [if_neg hp] at hk
    refine ⟨k + 1, ?_⟩
    have : H + 360 * ((k + 1 : ℤ) : ℝ) = H + 360 + 360 * k := by push_cast; ring
    rw [this]; exact hk

theorem wrap_mod' {H D : ℝ} {P : Prop} [Decidable P] (h : ∃ k : ℤ, (k = 0 ∨ k = 1 ∨ k = -1) ∧
    |D - ((if P then H + 360 else H) + 360 * k)| ≤ 1e-12) : ∃ k : ℤ, |D - (H + 360 * k)| ≤ 1e-12 := by
  obtain ⟨k, -, hk⟩ := h
  by_cases hp : P
  · rw [if_pos hp] at hk
    refine ⟨k + 1, ?_⟩
    have : H + 360 * ((k + 1 : ℤ) : ℝ) = H + 360 + 360 * k := by push_cast; ring
    rw [this]; exact hk
  · rw [if_neg hp] at hk; exact ⟨k, hk⟩

variable (M : FPModel)

theorem sqrt_rnd_nonneg (s : ℝ) : 0 ≤ M.rnd (√s) := rnd_nonneg M (Real.sqrt_nonneg _)

/-- LCh(ab) → Lab after Lab → LCh(ab), in `RF M`: `a`, `b` come back within `3e-14·C + 1e-99` -/
theorem lchlab_cart_rt_fp (x : Xyz (RF M)) :
    (Lab.from_Lchlab (Lchlab.from_Xyz x)).l = (Lab.from_Xyz x).l ∧
    |(Lab.from_Lchlab (Lchlab.from_Xyz x)).a.val - (Lab.from_Xyz x).a.val| ≤
      3e-14 * chroma (Lab.from_Xyz x).a.val (Lab.from_Xyz x).b.val + 1e-99 ∧
    |(Lab.from_Lchlab (Lchlab.from_Xyz x)).b.val - (Lab.from_Xyz x).b.val| ≤
      3e-14 * chroma (Lab.from_Xyz x).a.val (Lab.from_Xyz x).b.val + 1e-99 := by
  obtain ⟨c1, c2⟩ := lchlab_chroma_sharp_fp M x
  obtain ⟨r1, r2⟩ := lchlab_hue_range_fp M x
  obtain ⟨k, hk⟩ := wrap_mod (lchlab_hue_mod_fp M x)
  have hc0 : 0 ≤ (Lchlab.from_Xyz x).c.val := by
    simp only [Lchlab.from_Xyz]; split_ifs <;> simp only [FltRF.sqrt_val] <;> exact sqrt_rnd_nonneg M _
  obtain ⟨v1, v2, v3⟩ := lchlab_reverse_sharp_fp M (Lchlab.from_Xyz x) hc0 r1 r2
  exact ⟨v1.trans c1, polar_rt k c2 hk v2 v3⟩

theorem lchuv_cart_rt_fp (x : Xyz (RF M)) :
    (Luv.from_Lchuv (Lchuv.from_Xyz x)).l = (Luv.from_Xyz x).l ∧
    |(Luv.from_Lchuv (Lchuv.from_Xyz x)).u.val - (Luv.from_Xyz x).u.val| ≤
      3e-14 * chroma (Luv.from_Xyz x).u.val (Luv.from_Xyz x).v.val + 1e-99 ∧
    |(Luv.from_Lchuv (Lchuv.from_Xyz x)).v.val - (Luv.from_Xyz x).v.val| ≤
      3e-14 * chroma (Luv.from_Xyz x).u.val (Luv.from_Xyz x).v.val + 1e-99 := by
  obtain ⟨c1, c2⟩ := lchuv_chroma_sharp_fp M x
  obtain ⟨r1, r2⟩ := lchuv_hue_range_fp M x
  obtain ⟨k, hk⟩ := wrap_mod (lchuv_hue_mod_fp M x)
  have hc0 : 0 ≤ (Lchuv.from_Xyz x).c.val := by
    simp only [Lchuv.from_Xyz]; split_ifs <;> simp only [FltRF.sqrt_val] <;> exact sqrt_rnd_nonneg M _
  obtain ⟨v1, v2, v3⟩ := lchuv_reverse_sharp_fp M (Lchuv.from_Xyz x) hc0 r1 r2
  exact ⟨v1.trans c1, polar_rt k c2 hk v2 v3⟩

theorem hcl_cart_rt_fp (p : Luv (RF M)) :
    (Luv.from_Hcl (Hcl.from_Luv p)).l = p.l ∧
    |(Luv.from_Hcl (Hcl.from_Luv p)).u.val - p.u.val| ≤ 3e-14 * chroma p.u.val p.v.val + 1e-99 ∧
    |(Luv.from_Hcl (Hcl.from_Luv p)).v.val - p.v.val| ≤ 3e-14 * chroma p.u.val p.v.val + 1e-99 := by
  obtain ⟨c1, c2⟩ := hcl_chroma_sharp_fp M p
  obtain ⟨r1, r2⟩ := hcl_hue_range_fp M p
  obtain ⟨k, hk⟩ := wrap_mod' (hcl_hue_mod_fp M p)
  have hc0 : 0 ≤ (Hcl.from_Luv p).c.val := by
    simp only [Hcl.from_Luv, FltRF.sqrt_val]; exact sqrt_rnd_nonneg M _
  obtain ⟨v1, v2, v3⟩ := hcl_reverse_sharp_fp M (Hcl.from_Luv p) hc0 r1 r2
  exact ⟨v1.trans c1, polar_rt k c2 hk v2 v3⟩

end Lemmas.FpRequant

/-! ## CIELAB round trip with perturbed `a`, `b` -/
namespace Lemmas.FpRequant
open Gen FpErr FpLin FpCie
variable (M : FPModel)

/-- `rnd (l + rnd (a/n))` under a perturbation of `a` -/
theorem add_div_pert {l a a' n d : ℝ} (hn : 1 ≤ n) (hl : |l| ≤ 2) (ha : |a / n| ≤ 2) (ha' : |a' / n| ≤ 2)
    (h : |a' - a| ≤ d) : |M.rnd (l + M.rnd (a' / n)) - M.rnd (l + M.rnd (a / n))| ≤ d + 2e-15 := by
  have hd0 : 0 ≤ d := le_trans (abs_nonneg _) h
  have q1 := rnd_abs M ha (by norm_num)
  have q2 := rnd_abs M ha' (by norm_num)
  have hq : |a' / n - a / n| ≤ d := by
    rw [← sub_div, abs_div, abs_of_pos (by linarith : 0 < n)]
    exact (div_le_self (abs_nonneg _) hn).trans h
  have b1 : |l + M.rnd (a / n)| ≤ 5 := by
    have := abs_add_le l (M.rnd (a / n))
    have := abs_sub_abs_le_abs_sub (M.rnd (a / n)) (a / n)
    norm_num [FP.eps] at q1 ⊢; linarith
  have b2 : |l + M.rnd (a' / n)| ≤ 5 := by
    have := abs_add_le l (M.rnd (a' / n))
    have := abs_sub_abs_le_abs_sub (M.rnd (a' / n)) (a' / n)
    norm_num [FP.eps] at q2 ⊢; linarith
  have r1 := rnd_abs M b1 (by norm_num)
  have r2 := rnd_abs M b2 (by norm_num)
  obtain ⟨x1, x2⟩ := abs_le.mp q1
  obtain ⟨y1, y2⟩ := abs_le.mp q2
  obtain ⟨z1, z2⟩ := abs_le.mp r1
  obtain ⟨w1, w2⟩ := abs_le.mp r2
  obtain ⟨v1, v2⟩ := abs_le.mp hq
  norm_num [FP.eps] at *
  rw [abs_le]; constructor <;> linarith

theorem sub_div_pert {l a a' n d : ℝ} (hn : 1 ≤ n) (hl : |l| ≤ 2) (ha : |a / n| ≤ 2) (ha' : |a' / n| ≤ 2)
    (h : |a' - a| ≤ d) : |M.rnd (l - M.rnd (a' / n)) - M.rnd (l - M.rnd (a / n))| ≤ d + 2e-15 := by
  have hd0 : 0 ≤ d := le_trans (abs_nonneg _) h
  have q1 := rnd_abs M ha (by norm_num)
  have q2 := rnd_abs M ha' (by norm_num)
  have hq : |a' / n - a / n| ≤ d := by
    rw [← sub_div, abs_div, abs_of_pos (by linarith : 0 < n)]
    exact (div_le_self (abs_nonneg _) hn).trans h
  have b1 : |l - M.rnd (a / n)| ≤ 5 := by
    have := abs_sub l (M.rnd (a / n))
    have := abs_sub_abs_le_abs_sub (M.rnd (a / n)) (a / n)
    norm_num [FP.eps] at q1 ⊢; linarith
  have b2 : |l - M.rnd (a' / n)| ≤ 5 := by
    have := abs_sub l (M.rnd (a' / n))
    have := abs_sub_abs_le_abs_sub (M.rnd (a' / n)) (a' / n)
    norm_num [FP.eps] at q2 ⊢; linarith
  have r1 := rnd_abs M b1 (by norm_num)
  have r2 := rnd_abs M b2 (by norm_num)
  obtain ⟨x1, x2⟩ := abs_le.mp q1
  obtain ⟨y1, y2⟩ := abs_le.mp q2
  obtain ⟨z1, z2⟩ := abs_le.mp r1
  obtain ⟨w1, w2⟩ := abs_le.mp r2
  obtain ⟨v1, v2⟩ := abs_le.mp hq
  norm_num [FP.eps] at *
  rw [abs_le]; constructor <;> linarith

/-- **CIELAB round trip in `RF M` with perturbed `a`, `b`** (perturbation `≤ 3e-14·chroma + 1e-99`, what a polar detour
costs): each component within `1.1e-7` -/
theorem lab_roundtrip_pert_fp (x : Xyz (RF M)) (hx0 : 0 ≤ x.x.val) (hx1 : x.x.val ≤ 11 / 10)
    (hy0 : 0 ≤ x.y.val) (hy1 : x.y.val ≤ 11 / 10) (hz0 : 0 ≤ x.z.val) (hz1 : x.z.val ≤ 11 / 10)
    (a' b' : RF M)
    (ha0 : |a'.val - (Lab.from_Xyz x).a.val| ≤ 3e-14 * Props.C14.chroma (Lab.from_Xyz x).a.val (Lab.from_Xyz x).b.val + 1e-99)
    (hb0 : |b'.val - (Lab.from_Xyz x).b.val| ≤ 3e-14 * Props.C14.chroma (Lab.from_Xyz x).a.val (Lab.from_Xyz x).b.val + 1e-99) :
    |(Xyz.from_Lab ⟨(Lab.from_Xyz x).l, a', b'⟩).x.val - x.x.val| ≤ 11 / 10 ^ 8 ∧
    |(Xyz.from_Lab ⟨(Lab.from_Xyz x).l, a', b'⟩).y.val - x.y.val| ≤ 11 / 10 ^ 8 ∧
    |(Xyz.from_Lab ⟨(Lab.from_Xyz x).l, a', b'⟩).z.val - x.z.val| ≤ 11 / 10 ^ 8 := by
  obtain ⟨rx0, rx1, rx2, -, rxw, -, -⟩ := ratio_fp M 95047 100000 (by norm_num) (by norm_num) hx0 hx1
  obtain ⟨ry0, ry1, ry2, -, ryw, -, -⟩ := ratio_fp M 1 1 (by norm_num) (by norm_num) hy0 hy1
  obtain ⟨rz0, rz1, rz2, -, rzw, -, -⟩ := ratio_fp M 108883 100000 (by norm_num) (by norm_num) hz0 hz1
  set tx : RF M := x.x / (C.D65 : RF M × RF M × RF M).1 with htx
  set ty : RF M := x.y / (C.D65 : RF M × RF M × RF M).2.1 with hty
  set tz : RF M := x.z / (C.D65 : RF M × RF M × RF M).2.2 with htz
  have etx : tx.val = M.rnd (x.x.val / M.rnd (((95047 : ℕ) : ℝ) / ((100000 : ℕ) : ℝ))) := rfl
  have ety : ty.val = M.rnd (x.y.val / M.rnd (((1 : ℕ) : ℝ) / ((1 : ℕ) : ℝ))) := rfl
  have etz : tz.val = M.rnd (x.z.val / M.rnd (((108883 : ℕ) : ℝ) / ((100000 : ℕ) : ℝ))) := rfl
  rw [← etx] at rx0 rx1 rx2
  rw [← ety] at ry0 ry1 ry2
  rw [← etz] at rz0 rz1 rz2
  have fx := fwd_f_fp M tx rx0 rx1
  have fy := fwd_f_fp M ty ry0 ry1
  have fz := fwd_f_fp M tz rz0 rz1
  obtain ⟨cx0, cx1⟩ := fwdOK_range fx rx0 rx1 (by norm_num)
  obtain ⟨cy0, cy1⟩ := fwdOK_range fy ry0 ry1 (by norm_num)
  obtain ⟨cz0, cz1⟩ := fwdOK_range fz rz0 rz1 (by norm_num)
  set cx : RF M := Lab.compute_f tx with hcx
  set cy : RF M := Lab.compute_f ty with hcy
  set cz : RF M := Lab.compute_f tz with hcz
  have elb : Lab.from_Xyz x = ⟨Flt.lit 0x405D000000000000 116 1 * cy - Flt.lit 0x4030000000000000 16 1,
      Flt.lit 0x407F400000000000 500 1 * (cx - cy), Flt.lit 0x4069000000000000 200 1 * (cy - cz)⟩ := rfl
  obtain ⟨ch1, ch2, ch3, ch4, ch5⟩ := lab_chain M cx cy cz cx0 cx1 cy0 cy1 cz0 cz1
  obtain ⟨w1, w2⟩ := abs_le.mp rxw
  obtain ⟨w3, w4⟩ := abs_le.mp rzw
  rw [elb] at ha0 hb0 ⊢
  simp only [] at ha0 hb0 ⊢
  set L : RF M := Flt.lit 0x405D000000000000 116 1 * cy - Flt.lit 0x4030000000000000 16 1 with hL
  set l2 : RF M := (L + Flt.lit 0x4030000000000000 16 1) / Flt.lit 0x405D000000000000 116 1 with hl2
  set A : RF M := Flt.lit 0x407F400000000000 500 1 * (cx - cy) with hA
  set B : RF M := Flt.lit 0x4069000000000000 200 1 * (cy - cz) with hB
  have hl2b : |l2.val| ≤ 2 := by
    obtain ⟨d1, d2⟩ := abs_le.mp ch3
    rw [abs_le]; constructor <;> linarith
  -- magnitudes of a/500, b/200 from ch1, ch2
  have e500 : (Flt.lit 0x407F400000000000 500 1 : RF M).val = 500 := by
    rw [FltRF.lit_val, lit_int M 500 (by norm_num)]; norm_num
  have e200 : (Flt.lit 0x4069000000000000 200 1 : RF M).val = 200 := by
    rw [FltRF.lit_val, lit_int M 200 (by norm_num)]; norm_num
  have nx : Near cx.val cx.val 0 (11 / 10) := Near.exact (by rw [abs_of_nonneg (by linarith)]; exact cx1) (by norm_num)
  have ny : Near cy.val cy.val 0 (11 / 10) := Near.exact (by rw [abs_of_nonneg (by linarith)]; exact cy1) (by norm_num)
  have nz : Near cz.val cz.val 0 (11 / 10) := Near.exact (by rw [abs_of_nonneg (by linarith)]; exact cz1) (by norm_num)
  have n500 : Near (500 : ℝ) 500 0 500 := Near.exact (by norm_num) (by norm_num)
  have n200 : Near (200 : ℝ) 200 0 200 := Near.exact (by norm_num) (by norm_num)
  have hAv : |A.val - 500 * (cx.val - cy.val)| ≤ 1 / 10 ^ 10 := by
    simp only [hA, FltRF.mul_val, FltRF.sub_val, e500]
    exact (n500.mul M (nx.sub M ny)).finish rfl (by norm_num [FP.eps])
  have hBv : |B.val - 200 * (cy.val - cz.val)| ≤ 1 / 10 ^ 10 := by
    simp only [hB, FltRF.mul_val, FltRF.sub_val, e200]
    exact (n200.mul M (ny.sub M nz)).finish rfl (by norm_num [FP.eps])
  have hch := chroma_le_add A.val B.val
  have hAabs : |A.val| ≤ 500 := by
    obtain ⟨d1, d2⟩ := abs_le.mp hAv
    rw [abs_le]; constructor <;> linarith
  have hBabs : |B.val| ≤ 500 := by
    obtain ⟨d1, d2⟩ := abs_le.mp hBv
    rw [abs_le]; constructor <;> linarith
  have hd : (3e-14 : ℝ) * Props.C14.chroma A.val B.val + 1e-99 ≤ 1 / 10 ^ 10 := by
    norm_num at hch hAabs hBabs ⊢; linarith
  have ha := ha0.trans hd
  have hb := hb0.trans hd
  have hA2 : |A.val / 500| ≤ 2 := by
    obtain ⟨d1, d2⟩ := abs_le.mp hAv
    rw [abs_le]; constructor
    · rw [le_div_iff₀ (by norm_num)]; linarith
    · rw [div_le_iff₀ (by norm_num)]; linarith
  have hB2 : |B.val / 200| ≤ 2 := by
    obtain ⟨d1, d2⟩ := abs_le.mp hBv
    rw [abs_le]; constructor
    · rw [le_div_iff₀ (by norm_num)]; linarith
    · rw [div_le_iff₀ (by norm_num)]; linarith
  have hA2' : |a'.val / 500| ≤ 2 := by
    obtain ⟨d1, d2⟩ := abs_le.mp hAv
    obtain ⟨d3, d4⟩ := abs_le.mp ha
    rw [abs_le]; constructor
    · rw [le_div_iff₀ (by norm_num)]; linarith
    · rw [div_le_iff₀ (by norm_num)]; linarith
  have hB2' : |b'.val / 200| ≤ 2 := by
    obtain ⟨d1, d2⟩ := abs_le.mp hBv
    obtain ⟨d3, d4⟩ := abs_le.mp hb
    rw [abs_le]; constructor
    · rw [le_div_iff₀ (by norm_num)]; linarith
    · rw [div_le_iff₀ (by norm_num)]; linarith
  refine ⟨?_, ?_, ?_⟩
  · rw [from_lab_x]
    simp only []
    set CX : RF M := l2 + a' / Flt.lit 0x407F400000000000 500 1 with hCX
    have pert : |CX.val - (l2 + A / Flt.lit 0x407F400000000000 500 1).val| ≤ 1 / 10 ^ 10 + 2 / 10 ^ 15 := by
      simp only [hCX, FltRF.add_val, FltRF.div_val, e500]
      exact (add_div_pert M (by norm_num) hl2b hA2 hA2' ha).trans (by norm_num)
    have ch1' : |CX.val - cx.val| ≤ 2 / 10 ^ 10 := by
      have := abs_sub_le CX.val (l2 + A / Flt.lit 0x407F400000000000 500 1).val cx.val
      linarith
    obtain ⟨d1, d2⟩ := abs_le.mp ch1'
    have r := rev_f_fp M CX (by linarith) (by linarith)
    have k := rev_fwd_close rx0 rx1 fx ch1' (by linarith) r (by norm_num)
    have u := unratio_fp M (W := M.rnd (((95047 : ℕ) : ℝ) / ((100000 : ℕ) : ℝ))) (by push_cast at w1 ⊢; linarith)
      (by push_cast at w2 ⊢; linarith) rx0 rx1 k (by norm_num) rx2
    exact u.trans (by norm_num)
  · have := (lab_roundtrip_fp M x hx0 hx1 hy0 hy1 hz0 hz1).2.1
    rw [from_lab_y] at this ⊢
    rw [elb] at this
    exact this.trans (by norm_num)
  · rw [from_lab_z]
    simp only []
    set CZ : RF M := l2 - b' / Flt.lit 0x4069000000000000 200 1 with hCZ
    have pert : |CZ.val - (l2 - B / Flt.lit 0x4069000000000000 200 1).val| ≤ 1 / 10 ^ 10 + 2 / 10 ^ 15 := by
      simp only [hCZ, FltRF.sub_val, FltRF.div_val, e200]
      exact (sub_div_pert M (by norm_num) hl2b hB2 hB2' hb).trans (by norm_num)
    have ch2' : |CZ.val - cz.val| ≤ 2 / 10 ^ 10 := by
      have := abs_sub_le CZ.val (l2 - B / Flt.lit 0x4069000000000000 200 1).val cz.val
      linarith
    obtain ⟨d1, d2⟩ := abs_le.mp ch2'
    have r := rev_f_fp M CZ (by linarith) (by linarith)
    have k := rev_fwd_close rz0 rz1 fz ch2' (by linarith) r (by norm_num)
    have u := unratio_fp M (W := M.rnd (((108883 : ℕ) : ℝ) / ((100000 : ℕ) : ℝ))) (by push_cast at w3 ⊢; linarith)
      (by push_cast at w4 ⊢; linarith) rz0 rz1 k (by norm_num) rz2
    exact u.trans (by norm_num)
end Lemmas.FpRequant

/-! ## CIELUV round trip with perturbed `u`, `v` -/
namespace Lemmas.FpRequant
open Gen FpErr FpLin FpCie FpLuv Props.C14
variable (M : FPModel)

/-- the reverse's `U/K + un` under a perturbation of `U` -/
theorem upR_pert {U U' K un d : ℝ} (hK : 2 / 10 ≤ K) (hU : |U / K| ≤ 55 / 10) (hd : |U' - U| ≤ d)
    (hd1 : d ≤ 1 / 10 ^ 3) (hn : |un| ≤ 1) : |upR M U' K un - upR M U K un| ≤ 5 * d + 5 / 10 ^ 15 := by
  have hK0 : 0 < K := by linarith
  have hd0 : 0 ≤ d := le_trans (abs_nonneg _) hd
  have hq : |U' / K - U / K| ≤ 5 * d := by
    rw [← sub_div, abs_div, abs_of_pos hK0, div_le_iff₀ hK0]
    nlinarith
  have hU' : |U' / K| ≤ 6 := by
    have := abs_sub_abs_le_abs_sub (U' / K) (U / K); linarith
  have q1 := rnd_abs M (x := U / K) (B := 6) (by linarith) (by norm_num)
  have q2 := rnd_abs M hU' (by norm_num)
  have b1 : |M.rnd (U / K) + un| ≤ 8 := by
    have := abs_add_le (M.rnd (U / K)) un
    have := abs_sub_abs_le_abs_sub (M.rnd (U / K)) (U / K)
    norm_num [FP.eps] at q1 ⊢; linarith
  have b2 : |M.rnd (U' / K) + un| ≤ 8 := by
    have := abs_add_le (M.rnd (U' / K)) un
    have := abs_sub_abs_le_abs_sub (M.rnd (U' / K)) (U' / K)
    norm_num [FP.eps] at q2 ⊢; linarith
  have r1 := rnd_abs M b1 (by norm_num)
  have r2 := rnd_abs M b2 (by norm_num)
  obtain ⟨x1, x2⟩ := abs_le.mp q1
  obtain ⟨y1, y2⟩ := abs_le.mp q2
  obtain ⟨z1, z2⟩ := abs_le.mp r1
  obtain ⟨w1, w2⟩ := abs_le.mp r2
  obtain ⟨v1, v2⟩ := abs_le.mp hq
  unfold upR
  norm_num [FP.eps] at *
  rw [abs_le]; constructor <;> linarith

/-- `FpLuv.assemble_fp` with recovered chromaticities only within `3e-9`: `X` within `2e-6`, `Z` within `3e-6` -/
theorem assemble_wide_fp {X Y Z y up vp : ℝ} (hX : 0 ≤ X) (hX1 : X ≤ 11 / 10) (hY : 19 / 10 ^ 6 ≤ Y) (hY1 : Y ≤ 11 / 10)
    (hZ : 0 ≤ Z) (hZ1 : Z ≤ 11 / 10) (hxc : X ≤ 26 / 10 * Y) (hzc : Z ≤ 133 / 10 * Y)
    (hy : |y - Y| ≤ 1 / 10 ^ 7) (hup : |up - 4 * X / (X + 15 * Y + 3 * Z)| ≤ 3 / 10 ^ 9)
    (hvp : |vp - 9 * Y / (X + 15 * Y + 3 * Z)| ≤ 3 / 10 ^ 9) :
    |xR M y up vp - X| ≤ 2 / 10 ^ 6 ∧ |zR M y up vp - Z| ≤ 3 / 10 ^ 6 := by
  have hYp : 0 < Y := lt_of_lt_of_le (by norm_num) hY
  have hD : 0 < X + 15 * Y + 3 * Z := by positivity
  have tX : Y * (9 * (4 * X / (X + 15 * Y + 3 * Z))) / (4 * (9 * Y / (X + 15 * Y + 3 * Z))) = X := by
    field_simp
  have tZ : Y * (12 - 3 * (4 * X / (X + 15 * Y + 3 * Z)) - 20 * (9 * Y / (X + 15 * Y + 3 * Z))) /
      (4 * (9 * Y / (X + 15 * Y + 3 * Z))) = Z := by
    field_simp; ring
  have t12 : 12 - 3 * (4 * X / (X + 15 * Y + 3 * Z)) - 20 * (9 * Y / (X + 15 * Y + 3 * Z))
      = 36 * Z / (X + 15 * Y + 3 * Z) := by
    field_simp; ring
  have u0 : 0 ≤ 4 * X / (X + 15 * Y + 3 * Z) := by positivity
  have u1 : 4 * X / (X + 15 * Y + 3 * Z) ≤ 6 / 10 := by rw [div_le_iff₀ hD]; linarith
  have v0 : 155 / 1000 ≤ 9 * Y / (X + 15 * Y + 3 * Z) := by rw [le_div_iff₀ hD]; linarith
  have v1 : 9 * Y / (X + 15 * Y + 3 * Z) ≤ 6 / 10 := by rw [div_le_iff₀ hD]; linarith
  have z0 : 0 ≤ 36 * Z / (X + 15 * Y + 3 * Z) := by positivity
  have z1 : 36 * Z / (X + 15 * Y + 3 * Z) ≤ 12 := by rw [div_le_iff₀ hD]; linarith
  have nup : Near up (4 * X / (X + 15 * Y + 3 * Z)) (3 / 10 ^ 9) 1 :=
    ⟨hup, by rw [abs_of_nonneg u0]; linarith, le_rfl⟩
  have nvp : Near vp (9 * Y / (X + 15 * Y + 3 * Z)) (3 / 10 ^ 9) 1 :=
    ⟨hvp, by rw [abs_of_nonneg (by linarith)]; linarith, le_rfl⟩
  have ny : Near y Y (1 / 10 ^ 7) (11 / 10) := ⟨hy, by rw [abs_of_pos hYp]; exact hY1, by norm_num⟩
  have n9 : Near (9 : ℝ) 9 0 9 := Near.exact (by norm_num) (by norm_num)
  have n4 : Near (4 : ℝ) 4 0 4 := Near.exact (by norm_num) (by norm_num)
  have n3 : Near (3 : ℝ) 3 0 3 := Near.exact (by norm_num) (by norm_num)
  have n12 : Near (12 : ℝ) 12 0 12 := Near.exact (by norm_num) (by norm_num)
  have n20 : Near (20 : ℝ) 20 0 20 := Near.exact (by norm_num) (by norm_num)
  have hm : (62 / 100 : ℝ) ≤ |4 * (9 * Y / (X + 15 * Y + 3 * Z))| := by
    rw [abs_of_nonneg (by linarith)]; linarith
  have n9up := (n9.mul M nup).remag (B' := 54 / 10) (by rw [abs_of_nonneg (by linarith)]; linarith) (by norm_num)
  have n12s := ((n12.sub M (n3.mul M nup)).sub M (n20.mul M nvp)).remag (B' := 12)
    (by rw [t12, abs_of_nonneg z0]; exact z1) (by norm_num)
  unfold xR zR
  constructor
  · have n := (ny.mul M n9up).div M (n4.mul M nvp) (m := 62 / 100) (Bq := 11 / 10) hm (by norm_num [FP.eps])
      (by rw [tX, abs_of_nonneg hX]; exact hX1) (by norm_num)
    exact n.finish tX (by norm_num [FP.eps])
  · have n := (ny.mul M n12s).div M (n4.mul M nvp) (m := 62 / 100) (Bq := 11 / 10) hm (by norm_num [FP.eps])
      (by rw [tZ, abs_of_nonneg hZ]; exact hZ1) (by norm_num)
    exact n.finish tZ (by norm_num [FP.eps])

/-- magnitude of the forward `u = rnd (K·rnd (u' − u'n))` relative to `K` -/
theorem uv_mag {K u1 un : ℝ} (hK : 2 / 10 ≤ K) (hK1 : K ≤ 1366) (h1 : |u1| ≤ 41 / 10) (h2 : |un| ≤ 1) :
    |M.rnd (K * M.rnd (u1 - un)) / K| ≤ 55 / 10 ∧ |M.rnd (K * M.rnd (u1 - un))| ≤ 7513 := by
  have hK0 : 0 < K := by linarith
  have hb : |u1 - un| ≤ 51 / 10 := by have := abs_sub u1 un; linarith
  have r1 := rnd_abs M hb (by norm_num)
  have hd : |M.rnd (u1 - un)| ≤ 52 / 10 := by
    have := abs_sub_abs_le_abs_sub (M.rnd (u1 - un)) (u1 - un)
    norm_num [FP.eps] at r1 ⊢; linarith
  have hkd : |K * M.rnd (u1 - un)| ≤ K * (52 / 10) := by
    rw [abs_mul, abs_of_pos hK0]; exact mul_le_mul_of_nonneg_left hd hK0.le
  have hB : (1e-200 : ℝ) ≤ K * (52 / 10) := by
    have : (1 : ℝ) ≤ K * (52 / 10) := by linarith
    exact le_trans (by norm_num) this
  have r2 := rnd_abs M hkd hB
  have h3 : |M.rnd (K * M.rnd (u1 - un))| ≤ K * (53 / 10) := by
    have := abs_sub_abs_le_abs_sub (M.rnd (K * M.rnd (u1 - un))) (K * M.rnd (u1 - un))
    norm_num [FP.eps] at r2 ⊢; linarith
  refine ⟨?_, by linarith⟩
  rw [abs_div, abs_of_pos hK0, div_le_iff₀ hK0]; linarith

/-- **CIELUV round trip in `RF M` with perturbed `u`, `v`** (perturbation `≤ 3e-14·chroma + 1e-99`, what a polar
detour costs): `X` within `2e-6`, `Y` within `1e-7`, `Z` within `3e-6` -/
theorem luv_roundtrip_pert_fp (x : Xyz (RF M)) (hx0 : 0 ≤ x.x.val) (hx1 : x.x.val ≤ 11 / 10)
    (hy0 : 19 / 10 ^ 6 ≤ x.y.val) (hy1 : x.y.val ≤ 11 / 10) (hz0 : 0 ≤ x.z.val) (hz1 : x.z.val ≤ 11 / 10)
    (hxc : x.x.val ≤ 26 / 10 * x.y.val) (hzc : x.z.val ≤ 133 / 10 * x.y.val) (u' v' : RF M)
    (hu' : |u'.val - (Luv.from_Xyz x).u.val| ≤ 3e-14 * chroma (Luv.from_Xyz x).u.val (Luv.from_Xyz x).v.val + 1e-99)
    (hv' : |v'.val - (Luv.from_Xyz x).v.val| ≤ 3e-14 * chroma (Luv.from_Xyz x).u.val (Luv.from_Xyz x).v.val + 1e-99) :
    |(Xyz.from_Luv ⟨(Luv.from_Xyz x).l, u', v'⟩).x.val - x.x.val| ≤ 2 / 10 ^ 6 ∧
    |(Xyz.from_Luv ⟨(Luv.from_Xyz x).l, u', v'⟩).y.val - x.y.val| ≤ 1 / 10 ^ 7 ∧
    |(Xyz.from_Luv ⟨(Luv.from_Xyz x).l, u', v'⟩).z.val - x.z.val| ≤ 3 / 10 ^ 6 := by
  have hYp : 0 < x.y.val := lt_of_lt_of_le (by norm_num) hy0
  have hne : ¬ (x.x.val = 0 ∧ x.y.val = 0 ∧ x.z.val = 0) := fun h => hYp.ne' h.2.1
  obtain ⟨f1, f2, f3⟩ := from_xyz_fp M x hne
  have ry := rnd_abs M (x := x.y.val) (B := 11 / 10) (by rw [abs_of_pos hYp]; exact hy1) (by norm_num)
  obtain ⟨ry1, ry2⟩ := abs_le.mp ry
  have yc0 : 189 / 10 ^ 7 ≤ M.rnd x.y.val := by norm_num [FP.eps] at ry1 hy0 ⊢; linarith
  have yc1 : M.rnd x.y.val ≤ 112 / 100 := by norm_num [FP.eps] at ry2 ⊢; linarith
  have hL := lum_fwd_fp M (y := M.rnd x.y.val) (by linarith) yc1
  obtain ⟨L0, L1⟩ := lfwd_range hL yc0 yc1 (by norm_num)
  have hLne : (Luv.from_Xyz x).l.val ≠ 0 := by rw [f1]; linarith
  obtain ⟨g1, g2, g3⟩ := from_luv_fp M ⟨(Luv.from_Xyz x).l, u', v'⟩ hLne
  simp only [] at g1 g2 g3
  rw [g1, g2, g3, f1]
  rw [f2, f3] at hu' hv'
  set L := lumF M (M.rnd x.y.val) with hLdef
  have hr := rev_y_fp M L0 L1
  have hc0 : 1 / 10 ≤ (L + 16) / 116 := by rw [le_div_iff₀ (by norm_num)]; linarith
  have k := lrev_fwd_close (by linarith) (by linarith) hL hc0 hr (by norm_num)
  have hyY : |revY M L - x.y.val| ≤ 1 / 10 ^ 7 := by
    have := abs_sub_le (revY M L) (M.rnd x.y.val) x.y.val
    norm_num [FP.eps] at k ry this ⊢; linarith
  have rK := rnd_abs M (x := 13 * L) (B := 1365) (by rw [abs_of_nonneg (by linarith)]; linarith) (by norm_num)
  have hK : 2 / 10 ≤ M.rnd (13 * L) := by
    have := (abs_le.mp rK).1; norm_num [FP.eps] at this ⊢; linarith
  have hK1 : M.rnd (13 * L) ≤ 1366 := by
    have := (abs_le.mp rK).2; norm_num [FP.eps] at this ⊢; linarith
  have hy5 : (1 : ℝ) / 10 ^ 5 ≤ x.y.val := le_trans (by norm_num) hy0
  have hD : 0 < x.x.val + 15 * x.y.val + 3 * x.z.val := by positivity
  have hu := up_fp M hx0 hy5 hz0
  have hv := vp_fp M hx0 hy5 hz0
  have u0 : 0 ≤ 4 * x.x.val / (x.x.val + 15 * x.y.val + 3 * x.z.val) := by positivity
  have u1 : 4 * x.x.val / (x.x.val + 15 * x.y.val + 3 * x.z.val) ≤ 4 := by rw [div_le_iff₀ hD]; nlinarith
  have v0 : 0 ≤ 9 * x.y.val / (x.x.val + 15 * x.y.val + 3 * x.z.val) := by positivity
  have v1 : 9 * x.y.val / (x.x.val + 15 * x.y.val + 3 * x.z.val) ≤ 4 := by rw [div_le_iff₀ hD]; nlinarith
  have hub : |upF M x.x.val x.y.val x.z.val| ≤ 41 / 10 := by
    obtain ⟨a1, a2⟩ := abs_le.mp hu; rw [abs_le]; constructor <;> linarith
  have hvb : |vpF M x.x.val x.y.val x.z.val| ≤ 41 / 10 := by
    obtain ⟨a1, a2⟩ := abs_le.mp hv; rw [abs_le]; constructor <;> linarith
  obtain ⟨wu, wv⟩ := white_uv_bound M
  have cu := up_close M hK hub wu
  have cv := up_close M hK hvb wv
  set K := M.rnd (13 * L) with hKdef
  obtain ⟨mu1, mu2⟩ := uv_mag M hK hK1 hub wu
  obtain ⟨mv1, mv2⟩ := uv_mag M hK hK1 hvb wv
  have hch := chroma_le_add (M.rnd (K * M.rnd (upF M x.x.val x.y.val x.z.val - upF M (wX M) 1 (wZ M))))
    (M.rnd (K * M.rnd (vpF M x.x.val x.y.val x.z.val - vpF M (wX M) 1 (wZ M))))
  have hd : (3e-14 : ℝ) * chroma (M.rnd (K * M.rnd (upF M x.x.val x.y.val x.z.val - upF M (wX M) 1 (wZ M))))
      (M.rnd (K * M.rnd (vpF M x.x.val x.y.val x.z.val - vpF M (wX M) 1 (wZ M)))) + 1e-99 ≤ 5 / 10 ^ 10 := by
    norm_num at hch mu2 mv2 ⊢; linarith
  have pu := upR_pert M hK mu1 (hu'.trans hd) (by norm_num) wu
  have pv := upR_pert M hK mv1 (hv'.trans hd) (by norm_num) wv
  have hup : |upR M u'.val K (upF M (wX M) 1 (wZ M)) - 4 * x.x.val / (x.x.val + 15 * x.y.val + 3 * x.z.val)| ≤ 3 / 10 ^ 9 := by
    have t1 := abs_sub_le (upR M u'.val K (upF M (wX M) 1 (wZ M)))
      (upR M (M.rnd (K * M.rnd (upF M x.x.val x.y.val x.z.val - upF M (wX M) 1 (wZ M)))) K (upF M (wX M) 1 (wZ M)))
      (4 * x.x.val / (x.x.val + 15 * x.y.val + 3 * x.z.val))
    have t2 := abs_sub_le (upR M (M.rnd (K * M.rnd (upF M x.x.val x.y.val x.z.val - upF M (wX M) 1 (wZ M)))) K (upF M (wX M) 1 (wZ M)))
      (upF M x.x.val x.y.val x.z.val) (4 * x.x.val / (x.x.val + 15 * x.y.val + 3 * x.z.val))
    linarith
  have hvp : |upR M v'.val K (vpF M (wX M) 1 (wZ M)) - 9 * x.y.val / (x.x.val + 15 * x.y.val + 3 * x.z.val)| ≤ 3 / 10 ^ 9 := by
    have t1 := abs_sub_le (upR M v'.val K (vpF M (wX M) 1 (wZ M)))
      (upR M (M.rnd (K * M.rnd (vpF M x.x.val x.y.val x.z.val - vpF M (wX M) 1 (wZ M)))) K (vpF M (wX M) 1 (wZ M)))
      (9 * x.y.val / (x.x.val + 15 * x.y.val + 3 * x.z.val))
    have t2 := abs_sub_le (upR M (M.rnd (K * M.rnd (vpF M x.x.val x.y.val x.z.val - vpF M (wX M) 1 (wZ M)))) K (vpF M (wX M) 1 (wZ M)))
      (vpF M x.x.val x.y.val x.z.val) (9 * x.y.val / (x.x.val + 15 * x.y.val + 3 * x.z.val))
    linarith
  obtain ⟨ax, az⟩ := assemble_wide_fp M hx0 hx1 hy0 hy1 hz0 hz1 hxc hzc hyY hup hvp
  exact ⟨ax, hyY, az⟩

end Lemmas.FpRequant

/-! ## black through the polar forms of CIELUV -/
namespace Lemmas.FpRequant
open Gen FpErr FpPolar FpLuv
variable (M : FPModel)

/-- `Xyz::from(Luv)` on `L = 0`, `u = 0`: the guard returns the default `(0, 0, 0)` -/
theorem from_luv_zero (q : Luv (RF M)) (hl : q.l.val = 0) (hu : q.u.val = 0) :
    (Xyz.from_Luv q).x.val = 0 ∧ (Xyz.from_Luv q).y.val = 0 ∧ (Xyz.from_Luv q).z.val = 0 := by
  unfold Xyz.from_Luv
  simp only [FltRF.beq_eq, FltRF.lit_val, FpCie.lit_zero, decide_eq_true_eq, hl, hu, if_true, Xyz.default, and_self]

theorem chroma_zero_powi : M.rnd (√(M.rnd (RF.powi M 0 2 + RF.powi M 0 2))) = 0 := by
  simp only [powi_two, mul_zero, rnd_zero, add_zero, Real.sqrt_zero]

theorem chroma_zero_mul : M.rnd (√(M.rnd (M.rnd (0 * 0) + M.rnd (0 * 0)))) = 0 := by
  simp only [mul_zero, rnd_zero, add_zero, Real.sqrt_zero]

theorem lchuv_black_fp (x : Xyz (RF M)) (h1 : x.x.val = 0) (h2 : x.y.val = 0) (h3 : x.z.val = 0) :
    (Xyz.from_Lchuv (Lchuv.from_Xyz x)).x.val = 0 ∧ (Xyz.from_Lchuv (Lchuv.from_Xyz x)).y.val = 0 ∧
    (Xyz.from_Lchuv (Lchuv.from_Xyz x)).z.val = 0 := by
  obtain ⟨b1, b2, b3⟩ := luv_black_fp M x h1 h2 h3
  have hc : (Lchuv.from_Xyz x).c.val = 0 := by
    simp only [Lchuv.from_Xyz]
    split_ifs <;> simp only [FltRF.sqrt_val, FltRF.add_val, FltRF.powi_val, b2, b3] <;> exact chroma_zero_powi M
  have hl : (Lchuv.from_Xyz x).l.val = 0 := by rw [(Props.C14.lchuv_chroma_sharp_fp M x).1]; exact b1
  apply from_luv_zero
  · exact hl
  · simp only [Luv.from_Lchuv, FltRF.mul_val, hc, zero_mul, rnd_zero]

theorem hcl_black_fp (x : Xyz (RF M)) (h1 : x.x.val = 0) (h2 : x.y.val = 0) (h3 : x.z.val = 0) :
    (Xyz.from_Hcl (Hcl.from_Xyz x)).x.val = 0 ∧ (Xyz.from_Hcl (Hcl.from_Xyz x)).y.val = 0 ∧
    (Xyz.from_Hcl (Hcl.from_Xyz x)).z.val = 0 := by
  obtain ⟨b1, b2, b3⟩ := luv_black_fp M x h1 h2 h3
  have hc : (Hcl.from_Xyz x).c.val = 0 := by
    simp only [Hcl.from_Xyz, Hcl.from_Luv, FltRF.sqrt_val, FltRF.add_val, FltRF.mul_val, b2, b3]
    exact chroma_zero_mul M
  have hl : (Hcl.from_Xyz x).l.val = 0 := b1
  apply from_luv_zero
  · exact hl
  · simp only [Luv.from_Hcl, FltRF.mul_val, hc, zero_mul, rnd_zero]
end Lemmas.FpRequant

/-! ## OkLCh detour -/
namespace Lemmas.FpRequant
open Gen FpErr FpPolar Props.C14
variable (M : FPModel)

/-- real: polar → Cartesian of an approximate polar form of `(a, b)`, hue in radians, unwrapped -/
theorem polar_rt_rad {a b c h a' b' : ℝ}
    (hc : |c - chroma a b| ≤ 6e-16 * chroma a b + 1e-100)
    (hh : |h - hueRad a b| ≤ 1e-15)
    (ha : |a' - c * Real.cos h| ≤ 1.1e-14 * c + 1e-240)
    (hb : |b' - c * Real.sin h| ≤ 1.1e-14 * c + 1e-240) :
    |a' - a| ≤ 3e-14 * chroma a b + 1e-99 ∧ |b' - b| ≤ 3e-14 * chroma a b + 1e-99 := by
  have hC : 0 ≤ chroma a b := Real.sqrt_nonneg _
  have e1 := Lemmas.Polar.sqrt_mul_cos_arg a b
  have e2 := Lemmas.Polar.sqrt_mul_sin_arg a b
  have c1 := (Real.abs_cos_sub_cos_le h (hueRad a b)).trans hh
  have s1 := (Real.abs_sin_sub_sin_le h (hueRad a b)).trans hh
  unfold hueRad chroma at *
  set C := √(a ^ 2 + b ^ 2) with hCdef
  set θ := Complex.arg ⟨a, b⟩ with hθ
  have cc := Real.abs_cos_le_one h
  have sc := Real.abs_sin_le_one h
  obtain ⟨hc1, hc2⟩ := abs_le.mp hc
  constructor
  · have t : a' - a = (a' - c * Real.cos h) + (c - C) * Real.cos h + C * (Real.cos h - Real.cos θ) := by
      rw [← e1]; ring
    rw [t]
    have m1 : |(c - C) * Real.cos h| ≤ 6e-16 * C + 1e-100 := by
      rw [abs_mul]; exact (mul_le_of_le_one_right (abs_nonneg _) cc).trans hc
    have m2 : |C * (Real.cos h - Real.cos θ)| ≤ C * 1e-15 := by
      rw [abs_mul, abs_of_nonneg hC]; exact mul_le_mul_of_nonneg_left c1 hC
    refine (abs_add_le _ _).trans ?_
    have := abs_add_le (a' - c * Real.cos h) ((c - C) * Real.cos h)
    nlinarith
  · have t : b' - b = (b' - c * Real.sin h) + (c - C) * Real.sin h + C * (Real.sin h - Real.sin θ) := by
      rw [← e2]; ring
    rw [t]
    have m1 : |(c - C) * Real.sin h| ≤ 6e-16 * C + 1e-100 := by
      rw [abs_mul]; exact (mul_le_of_le_one_right (abs_nonneg _) sc).trans hc
    have m2 : |C * (Real.sin h - Real.sin θ)| ≤ C * 1e-15 := by
      rw [abs_mul, abs_of_nonneg hC]; exact mul_le_mul_of_nonneg_left s1 hC
    refine (abs_add_le _ _).trans ?_
    have := abs_add_le (b' - c * Real.sin h) ((c - C) * Real.sin h)
    nlinarith

/-- OkLCh → OkLab after OkLab → OkLCh, in `RF M`, EVERY input: `a`, `b` come back within `3e-14·C + 1e-99`, `L` exactly -/
theorem oklch_cart_rt_fp (o : OkLab (RF M)) :
    (OkLab.from_OkLch (OkLch.from_OkLab o)).l = o.l ∧
    |(OkLab.from_OkLch (OkLch.from_OkLab o)).a.val - o.a.val| ≤ 3e-14 * chroma o.a.val o.b.val + 1e-99 ∧
    |(OkLab.from_OkLch (OkLch.from_OkLab o)).b.val - o.b.val| ≤ 3e-14 * chroma o.a.val o.b.val + 1e-99 := by
  obtain ⟨c1, c2⟩ := oklch_chroma_sharp_fp M o
  obtain ⟨h1, -, -⟩ := oklch_hue_fp M o
  have hc0 : 0 ≤ (OkLch.from_OkLab o).c.val := by
    simp only [OkLch.from_OkLab, FltRF.sqrt_val]; exact sqrt_rnd_nonneg M _
  obtain ⟨v1, v2, v3⟩ := oklch_reverse_sharp_fp M (OkLch.from_OkLab o) hc0
  exact ⟨v1.trans c1, polar_rt_rad c2 h1 v2 v3⟩
end Lemmas.FpRequant
