import LymuiVerif.Lemmas.FpMono
import LymuiVerif.Lemmas.OkLabF2
/-!
# OkLab lightness in the rounded-arithmetic reading (`RF M`), for C12

`okl_step_{r,g,b}_fp`: for every `M : FPModel`, one 8-bit step in one channel strictly raises the OkLab
lightness computed in `RF M` from `Xyz.from_rgb c D65`.

The computed lightness is `K̂ = k₁·∛l̂ + k₂·∛m̂ − k₃·∛ŝ` (every operation rounded) of the computed M1
outputs `(l̂, m̂, ŝ)`.  A uniform "error + gap" argument does not work (the `cbrt` amplifies the absolute
error of dark colours by up to `1e4`, while the smallest exact increase is `≈ 1e-7`); instead the robust
real inequality `Lemmas.OkLabF2.okcore` is applied to the COMPUTED triples, whose hypotheses have
relative slack.

1. `okK_gap`: quantitative form of `okcore` for the generated OKL row (`okcore` with `k₂ − 0.7`).
2. `srgb_enc_fine_fp` (encoder, `2e-9`, Lipschitz away from the threshold), `p22F_close` (`max(·,0)^2.2`
   with `M.pow`, `1e-8`), `p22F_ge` (`M.pow` of a non-negative base is `≥ −η`).
3. `oklab_l_eq_fp` (closed form of the generated code in `RF M`, by `rfl`), `okKF_close` (OKL row, `1e-14`),
   `lms_close` (M1 rows, `2e-14`).
4. `okLF_lt`: strict increase between two computed linear-light triples under linear hypotheses on
   their exact M1 images; `okLF_lt_step{1,2,3}`: the same from "one component gains `≥ 4.9e-6`, the other two
   move by `≤ 2.3e-7`".  `linOk_close`: computed vs exact linear-light triple of an 8-bit colour, `1e-8`.
5. exact-real facts extracted from `Lemmas.OkLabF2.okl_raise_*`: `linOk_range`, `linOk_pos`, `linOk_step_*`.
6. the step away from black (`okLF_black_lt`): `M.pow 0 y` is only within `η` of 0, so the lower triple is
   bounded in magnitude (`dotF_tiny`) instead of being compared with the exact one.
-/
namespace Lemmas.FpMonoOk
open Gen FpErr Lemmas.Matrix Lemmas.XyzDispatch Lemmas.FpXyz Lemmas.Cie Lemmas.FpMono Lemmas.OkLabF2 Lemmas.CurvesD2

/-! ## 1. quantitative form of `okcore` for the generated OKL row -/

/-- the OKL row applied to three cube roots -/
noncomputable def okK (l m s : ℝ) : ℝ :=
  (C.OKL : ℝ × ℝ × ℝ).1 * Real.cbrt l + (C.OKL : ℝ × ℝ × ℝ).2.1 * Real.cbrt m
    - (C.OKL : ℝ × ℝ × ℝ).2.2 * Real.cbrt s

/-- **quantitative core**: under the hypotheses of `okcore`, `okK` rises by at least `0.7·(∛m' − ∛m)`,
hence by at least `0.21·(m' − m)` when `m' ≤ 1.1` -/
theorem okK_gap {l m s l' m' s' : ℝ} (hl : 0 ≤ l) (hm : 0 ≤ m) (hs : 0 ≤ s) (hs' : 0 ≤ s')
    (hll : l ≤ l') (hmm : m ≤ m') (hms : m ≤ 5 / 2 * s) (hms' : m' ≤ 5 / 2 * s')
    (hd : s' - s ≤ 10 * (m' - m)) (hm1 : m' ≤ 11 / 10) :
    okK l m s + 21 / 100 * (m' - m) ≤ okK l' m' s' := by
  have h := (okcore (k1 := (C.OKL : ℝ × ℝ × ℝ).1) (k2 := (C.OKL : ℝ × ℝ × ℝ).2.1 - 7 / 10)
    (k3 := (C.OKL : ℝ × ℝ × ℝ).2.2) (by simp only [C.OKL, FltReal.lit_eq]; norm_num)
    (by simp only [C.OKL, FltReal.lit_eq]; norm_num) (by simp only [C.OKL, FltReal.lit_eq]; norm_num)
    hl hm hs hs' hll hmm hms hms' hd).1
  have g := cbrt_gap hm hmm hm1
  rw [← Cie.cbrt_of_nonneg hm, ← Cie.cbrt_of_nonneg (hm.trans hmm)] at g
  unfold okK
  linarith

/-! ## 2. fine error bounds of the sRGB encoder and of the `max(·,0)^2.2` linearisation in `RF M` -/

/-- concave power, tangent at the left end: `b^p − a^p ≤ p·a^(p−1)·(b − a)` for `0 < a ≤ b`, `0 ≤ p ≤ 1` -/
theorem rpow_concave_step {a b p : ℝ} (ha : 0 < a) (hab : a ≤ b) (hp0 : 0 ≤ p) (hp1 : p ≤ 1) :
    b ^ p - a ^ p ≤ p * (a ^ p / a) * (b - a) := by
  have hs : (-1 : ℝ) ≤ (b - a) / a := by
    have : 0 ≤ (b - a) / a := div_nonneg (by linarith) ha.le
    linarith
  have hB := rpow_one_add_le_one_add_mul_self hs hp0 hp1
  have hb' : b = a * (1 + (b - a) / a) := by field_simp; ring
  have hap : 0 ≤ a ^ p := Real.rpow_nonneg ha.le p
  have h1 : (0 : ℝ) ≤ 1 + (b - a) / a := by linarith
  have e : b ^ p = a ^ p * (1 + (b - a) / a) ^ p := by
    conv_lhs => rw [hb']
    rw [Real.mul_rpow ha.le h1]
  rw [e]
  have : a ^ p * (1 + (b - a) / a) ^ p ≤ a ^ p * (1 + p * ((b - a) / a)) :=
    mul_le_mul_of_nonneg_left hB hap
  have e2 : a ^ p * (1 + p * ((b - a) / a)) = a ^ p + p * (a ^ p / a) * (b - a) := by field_simp
  linarith

/-- `x^p`, `0.4 ≤ p ≤ 0.5`, is `334`-Lipschitz on `[0.003, 2]` -/
theorem rpow_lip_away {a b p : ℝ} (ha : 3 / 1000 ≤ a) (hb : 3 / 1000 ≤ b) (ha2 : a ≤ 2) (hb2 : b ≤ 2)
    (hp0 : 0.4 ≤ p) (hp1 : p ≤ 0.5) : |a ^ p - b ^ p| ≤ 334 * |a - b| := by
  have main : ∀ a b : ℝ, 3 / 1000 ≤ a → a ≤ b → b ≤ 2 → |a ^ p - b ^ p| ≤ 334 * |a - b| := by
    intro a b ha hab hb2
    have ha0 : 0 < a := by linarith
    have h1 := rpow_concave_step ha0 hab (by linarith) (by linarith : p ≤ 1)
    have h2 : a ^ p ≤ b ^ p := Real.rpow_le_rpow ha0.le hab (by linarith)
    have h3 : a ^ p ≤ 2 := by
      calc a ^ p ≤ (2 : ℝ) ^ p := Real.rpow_le_rpow ha0.le (by linarith) (by linarith)
        _ ≤ (2 : ℝ) ^ (1 : ℝ) := Real.rpow_le_rpow_of_exponent_le (by norm_num) (by linarith)
        _ = 2 := Real.rpow_one 2
    have h4 : a ^ p / a ≤ 2 / (3 / 1000) := div_le_div₀ (by norm_num) h3 (by norm_num) ha
    have h5 : p * (a ^ p / a) ≤ 0.5 * (2 / (3 / 1000)) :=
      mul_le_mul hp1 h4 (div_nonneg (Real.rpow_nonneg ha0.le p) ha0.le) (by norm_num)
    rw [abs_sub_comm, abs_of_nonneg (sub_nonneg.mpr h2), abs_sub_comm, abs_of_nonneg (sub_nonneg.mpr hab)]
    have h6 : p * (a ^ p / a) * (b - a) ≤ 0.5 * (2 / (3 / 1000)) * (b - a) :=
      mul_le_mul_of_nonneg_right h5 (by linarith)
    norm_num at h6 ⊢
    linarith
  rcases le_total a b with h | h
  · exact main a b ha h hb2
  · rw [abs_sub_comm, abs_sub_comm a b]; exact main b a hb h ha2

section fp
variable (M : FPModel)

/-- `M.pow` with a base `≥ 0.0032` perturbed by at most `3e-12` and a perturbed exponent near `p ∈ [0.4, 0.5]` -/
theorem pow_enc_fine {b x p' p : ℝ} (hx : 32 / 10 ^ 4 ≤ x) (hx2 : x ≤ 11 / 10)
    (hbx : |b - x| ≤ 3e-12) (hp0 : 0.4 ≤ p) (hp1 : p ≤ 0.5) (hpp : |p' - p| ≤ FP.eps * 3) :
    |M.pow b p' - x ^ p| ≤ 11 / 10 ^ 10 := by
  obtain ⟨hy1, hy2⟩ := abs_le.mp hpp
  obtain ⟨hb1, hb2'⟩ := abs_le.mp hbx
  have hb0 : 0 < b := by norm_num at hb1 hx ⊢; linarith
  have hb2 : b ≤ 2 := by norm_num at hb2' ⊢; linarith
  have hp'0 : 0.3 ≤ p' := by unfold FP.eps at *; linarith
  have hp'1 : p' ≤ 1 := by unfold FP.eps at *; linarith
  have hB : b ^ p' ≤ 2 := by
    calc b ^ p' ≤ (2:ℝ) ^ p' := Real.rpow_le_rpow hb0.le hb2 (by linarith)
      _ ≤ (2:ℝ) ^ (1:ℝ) := Real.rpow_le_rpow_of_exponent_le (by norm_num) hp'1
      _ = 2 := Real.rpow_one 2
  have p1 := pow_close M hb0.le hB (by norm_num)
  have p2 := rpow_exp_close (x := b) (q := p') (q' := p) (p := 0.3) hb0 hb2 (by norm_num) hp'0
    (by linarith) (by linarith) (by linarith) (by unfold FP.eps at *; exact hpp.trans (by norm_num))
  have p2' : |b ^ p' - b ^ p| ≤ FP.eps * 3 * (1 / 0.3 + 8) :=
    p2.trans (mul_le_mul_of_nonneg_right hpp (by norm_num))
  have p3 := rpow_lip_away (a := b) (b := x) (p := p) (by norm_num at hb1 hx ⊢; linarith)
    (by norm_num at hx ⊢; linarith) hb2 (by linarith) hp0 hp1
  have p3' : |b ^ p - x ^ p| ≤ 334 * 3e-12 := p3.trans (mul_le_mul_of_nonneg_left hbx (by norm_num))
  have tri : |M.pow b p' - x ^ p| ≤ |M.pow b p' - b ^ p'| + |b ^ p' - b ^ p| + |b ^ p - x ^ p| := by
    have e1 : M.pow b p' - x ^ p = (M.pow b p' - b ^ p') + (b ^ p' - b ^ p) + (b ^ p - x ^ p) := by ring
    rw [e1]
    have t1 := abs_add_le ((M.pow b p' - b ^ p') + (b ^ p' - b ^ p)) (b ^ p - x ^ p)
    have t2 := abs_add_le (M.pow b p' - b ^ p') (b ^ p' - b ^ p)
    linarith
  refine tri.trans ?_
  unfold FP.eps at *
  norm_num at p1 p2' p3' ⊢
  linarith

/-- **sRGB encoder in `RF M`, fine bound**: a computed linear value within `3e-12` of a real one that is
away from the threshold `0.0031308` is encoded within `2e-9` of the real encoding (Lipschitz: the
linear segment has slope 12.92, the power segment slope `≤ 334` above `0.003`) -/
theorem srgb_enc_fine_fp (a : RF M) (v : ℝ) (hvv : |a.val - v| ≤ 3e-12)
    (hcase : v ≤ 0.0031 ∨ 0.0032 ≤ v) (hlo : -1 ≤ v) (hhi : v ≤ 1.1) :
    |(F64.apply_srgb_gamma_correction a).val - F64.apply_srgb_gamma_correction v| ≤ 2e-9 := by
  obtain ⟨hv1, hv2⟩ := abs_le.mp hvv
  have l0 := lit_close M 7827 2500000 (B := 1) (by norm_num) (by norm_num)
  obtain ⟨l01, l02⟩ := abs_le.mp l0
  rcases hcase with hL | hP
  · have hc : a.val ≤ M.rnd (((7827:ℕ):ℝ) / ((2500000:ℕ):ℝ)) := by
      unfold FP.eps at *; push_cast at *; linarith
    rw [Lemmas.Curves.srgb_enc_lin (by linarith)]
    simp only [F64.apply_srgb_gamma_correction, FltRF.le_eq, FltRF.lit_val, hc, decide_true, if_true, FltRF.mul_val]
    have l1 := lit_close M 323 25 (B := 13) (by norm_num) (by norm_num)
    have bv : |v| ≤ 1 := by rw [abs_le]; constructor <;> linarith
    have m1 := mul_close M hvv l1 bv (By := 13) (by rw [abs_of_nonneg (by positivity)]; norm_num) (by norm_num)
    have e : v * 12.92 = v * (((323:ℕ):ℝ) / ((25:ℕ):ℝ)) := by norm_num
    rw [e]
    refine m1.trans ?_
    norm_num [FP.eps]
  · have hc : ¬ a.val ≤ M.rnd (((7827:ℕ):ℝ) / ((2500000:ℕ):ℝ)) := by
      rw [not_le]; unfold FP.eps at *; push_cast at *; linarith
    rw [Lemmas.Curves.srgb_enc_pow (by linarith)]
    simp only [F64.apply_srgb_gamma_correction, FltRF.le_eq, FltRF.lit_val, hc, decide_false, if_false,
      FltRF.mul_val, FltRF.sub_val, FltRF.pow_val, FltRF.div_val, Bool.false_eq_true]
    have ip := inv_exp_close M 12 5 (by norm_num) (by norm_num)
    have ep : (1:ℝ) / 2.4 = 1 / (((12:ℕ):ℝ)/((5:ℕ):ℝ)) := by norm_num
    rw [ep]
    generalize hp : (1:ℝ) / (((12:ℕ):ℝ)/((5:ℕ):ℝ)) = p at *
    have hp0 : 0.4 ≤ p := by rw [← hp]; norm_num
    have hp1 : p ≤ 0.5 := by rw [← hp]; norm_num
    have pw := pow_enc_fine M (b := a.val) (x := v) (by norm_num at hP ⊢; linarith) (by norm_num at hhi ⊢; linarith)
      hvv hp0 hp1 ip
    have l2 := lit_close M 211 200 (B := 1.055) (by norm_num) (by norm_num)
    have l3 := lit_close M 11 200 (B := 1) (by norm_num) (by norm_num)
    have bp0 : 0 ≤ v ^ p := Real.rpow_nonneg (by linarith) p
    have bp : v ^ p ≤ 2 := by
      calc v ^ p ≤ (2:ℝ) ^ p := Real.rpow_le_rpow (by linarith) (by linarith) (by linarith)
        _ ≤ (2:ℝ) ^ (1:ℝ) := Real.rpow_le_rpow_of_exponent_le (by norm_num) (by linarith)
        _ = 2 := Real.rpow_one 2
    have bp' : |v ^ p| ≤ 2 := by rw [abs_of_nonneg bp0]; exact bp
    have m1 := mul_close M l2 pw (Bx := 1.055) (by rw [abs_of_nonneg (by positivity)]; norm_num) bp' (by norm_num)
    have bm : |((211:ℕ):ℝ) / ((200:ℕ):ℝ) * v ^ p - ((11:ℕ):ℝ) / ((200:ℕ):ℝ)| ≤ 3 := by
      rw [abs_le]; push_cast; constructor <;> nlinarith
    have s1 := sub_close M m1 l3 bm (by norm_num)
    have e : (1.055 * v ^ p - 55e-3) =
        (((211:ℕ):ℝ) / ((200:ℕ):ℝ) * v ^ p - ((11:ℕ):ℝ) / ((200:ℕ):ℝ)) := by norm_num
    rw [e]
    refine s1.trans ?_
    norm_num [FP.eps]
end fp

section fp2b
variable (M : FPModel)

/-- the linearisation `max(·,0)^2.2` of `Srgb.as_linear` computed in `RF M` -/
noncomputable def p22F (s : ℝ) : ℝ := M.pow (max s 0) (M.rnd (((11 : ℕ) : ℝ) / ((5 : ℕ) : ℝ)))

/-- `M.pow` of a non-negative base is at least `-η` -/
theorem p22F_ge (s : ℝ) : -(1 / 10 ^ 100) ≤ p22F M s := by
  unfold p22F
  have h := M.pow_err (max s 0) (M.rnd (((11 : ℕ) : ℝ) / ((5 : ℕ) : ℝ))) (le_max_right _ _)
  have h0 : 0 ≤ (max s 0) ^ (M.rnd (((11 : ℕ) : ℝ) / ((5 : ℕ) : ℝ))) := Real.rpow_nonneg (le_max_right _ _) _
  rw [abs_of_nonneg h0] at h
  have h1 := (abs_le.mp h).1
  have hu : 2 * FP.u ≤ 1 := by have := FP.u_lt; linarith
  have he : FP.eta ≤ 1 / 10 ^ 100 := by
    have := FP.eta_lt
    have : (1 : ℝ) / 10 ^ 240 ≤ 1 / 10 ^ 100 := by
      apply one_div_le_one_div_of_le (by positivity)
      exact pow_le_pow_right₀ (by norm_num) (by norm_num)
    linarith
  nlinarith

/-- `p22F` at the same argument is within `1e-14` of `p22` -/
theorem p22F_self {s : ℝ} (hs : s ≤ 1.01) : |p22F M s - p22 s| ≤ 1 / 10 ^ 14 := by
  unfold p22F p22
  have hq := lit_close M 11 5 (B := 3) (by norm_num) (by norm_num)
  have e : ((11 : ℕ) : ℝ) / ((5 : ℕ) : ℝ) = (11 : ℝ) / 5 := by norm_num
  rw [e] at hq ⊢
  generalize M.rnd ((11 : ℝ) / 5) = q at *
  obtain ⟨q1, q2⟩ := abs_le.mp hq
  have q1' : 2 ≤ q := by norm_num [FP.eps] at q1 ⊢; linarith
  have q3 : q ≤ 3 := by norm_num [FP.eps] at q2 ⊢; linarith
  have hb0 : 0 ≤ max s 0 := le_max_right _ _
  have hb1 : max s 0 ≤ 1.01 := max_le hs (by norm_num)
  generalize max s 0 = b at *
  rcases hb0.eq_or_lt with rfl | hpos
  · have h := M.pow_err 0 q le_rfl
    rw [Real.zero_rpow (by linarith)] at h
    rw [Real.zero_rpow (by norm_num)]
    simp only [abs_zero, mul_zero, zero_add] at h
    have he : FP.eta ≤ 1 / 10 ^ 14 := by
      have := FP.eta_lt
      have : (1 : ℝ) / 10 ^ 240 ≤ 1 / 10 ^ 14 := by
        apply one_div_le_one_div_of_le (by positivity)
        exact pow_le_pow_right₀ (by norm_num) (by norm_num)
      linarith
    exact h.trans he
  · have hB : b ^ q ≤ 2 := by
      calc b ^ q ≤ (1.01 : ℝ) ^ q := Real.rpow_le_rpow hpos.le hb1 (by linarith)
        _ ≤ (1.01 : ℝ) ^ ((3 : ℕ) : ℝ) := Real.rpow_le_rpow_of_exponent_le (by norm_num) (by push_cast; linarith)
        _ = (1.01 : ℝ) ^ (3 : ℕ) := Real.rpow_natCast _ _
        _ ≤ 2 := by norm_num
    have p1 := pow_close M hpos.le hB (by norm_num)
    have p2 := rpow_exp_close (x := b) (q := q) (q' := (11 : ℝ) / 5) (p := 1) hpos (by linarith)
      (by norm_num) (by linarith) (by norm_num) q3 (by norm_num) (hq.trans (by norm_num [FP.eps]))
    have p2' : |b ^ q - b ^ ((11 : ℝ) / 5)| ≤ FP.eps * 3 * (1 / 1 + 8) :=
      p2.trans (mul_le_mul_of_nonneg_right hq (by norm_num))
    have := abs_sub_le (M.pow b q) (b ^ q) (b ^ ((11 : ℝ) / 5))
    norm_num [FP.eps] at p1 p2' this ⊢
    linarith

/-- **the linearisation in `RF M`**: computed vs exact within `1e-8` when the encoded values are within `2e-9` -/
theorem p22F_close {a s : ℝ} (h : |a - s| ≤ 2e-9) (hs : s ≤ 1.005) : |p22F M a - p22 s| ≤ 1 / 10 ^ 8 := by
  have ha : a ≤ 1.01 := by have := (abs_le.mp h).2; norm_num at this hs ⊢; linarith
  have h1 := p22F_self M ha
  have h2 := p22_lipschitz (x := s) (y := a) (by norm_num at hs ⊢; linarith) ha
  have := abs_sub_le (p22F M a) (p22 a) (p22 s)
  norm_num at h h1 h2 this ⊢
  linarith
end fp2b

section fp3a
variable (M : FPModel)

/-- the OKL row applied, in `RF M`, to the rounded cube roots of three computed values -/
noncomputable def okKF (l m s : ℝ) : ℝ :=
  M.rnd (M.rnd (M.rnd ((C.OKL : RF M × RF M × RF M).1.val * M.rnd (Real.cbrt l)) +
      M.rnd ((C.OKL : RF M × RF M × RF M).2.1.val * M.rnd (Real.cbrt m))) -
    M.rnd ((C.OKL : RF M × RF M × RF M).2.2.val * M.rnd (Real.cbrt s)))

/-- computed linear-light triple handed to the M1 rows: reverse matrix, sRGB encoder, `max(·,0)^2.2` -/
noncomputable def linOkF (x : RF M × RF M × RF M) : RF M × RF M × RF M :=
  (⟨p22F M (F64.apply_srgb_gamma_correction (rlinF M .D65 x).1).val⟩,
   ⟨p22F M (F64.apply_srgb_gamma_correction (rlinF M .D65 x).2.1).val⟩,
   ⟨p22F M (F64.apply_srgb_gamma_correction (rlinF M .D65 x).2.2).val⟩)

theorem oklab_l_eq_fp (x : Xyz (RF M)) : (OkLab.from_Xyz x).l.val =
    okKF M (dotF M C.OKSR (linOkF M (x.x, x.y, x.z))).val (dotF M C.OKSG (linOkF M (x.x, x.y, x.z))).val
      (dotF M C.OKSB (linOkF M (x.x, x.y, x.z))).val := by
  have z : M.rnd (((0:ℕ):ℝ) / ((1:ℕ):ℝ)) = 0 := by
    have := lit_int M 0 (by norm_num); simpa using this
  have hp : ∀ t : RF M, Flt.pow (Flt.max t (Flt.lit 0x0000000000000000 0 1)) (Flt.lit 0x400199999999999A 11 5)
      = (⟨p22F M t.val⟩ : RF M) := by
    intro t; apply RF.ext'
    simp only [FltRF.pow_val, FltRF.max_val, FltRF.lit_val, z, p22F]
  simp only [OkLab.from_Xyz, OkLab.from_Srgb, Srgb.as_linear, Srgb.from_Xyz, hp]
  rfl
end fp3a

open FpLin

/-- `|x| ≤ t³` gives `|∛x| ≤ t` -/
theorem abs_cbrt_le {x t : ℝ} (ht : 0 ≤ t) (h : |x| ≤ t ^ 3) : |Real.cbrt x| ≤ t := by
  obtain ⟨h1, h2⟩ := abs_le.mp h
  unfold Real.cbrt
  split_ifs with hx
  · rw [abs_of_nonneg (rpow_third_nonneg hx)]
    exact rpow_third_le ht hx h2
  · rw [not_le] at hx
    have hx' : 0 ≤ -x := by linarith
    rw [abs_neg, abs_of_nonneg (rpow_third_nonneg hx')]
    exact rpow_third_le ht hx' (by linarith)

section fp3b
variable (M : FPModel)

/-- `okKF` is within `1e-14` of `okK` (same arguments, of magnitude at most `1.1`) -/
theorem okKF_close {l m s : ℝ} (hl : |l| ≤ 11 / 10) (hm : |m| ≤ 11 / 10) (hs : |s| ≤ 11 / 10) :
    |okKF M l m s - okK l m s| ≤ 1 / 10 ^ 14 := by
  have cb : ∀ x : ℝ, |x| ≤ 11 / 10 → Near (M.rnd (Real.cbrt x)) (Real.cbrt x) (FP.eps * 2) 2 := by
    intro x hx
    have : |Real.cbrt x| ≤ 2 :=
      (abs_cbrt_le (t := 26 / 25) (by norm_num) (hx.trans (by norm_num))).trans (by norm_num)
    exact ((Near.exact this (by norm_num)).rnd M).mono (by norm_num [FP.eps]) le_rfl
  simp only [okKF, okK, C.OKL, FltRF.lit_val, FltReal.lit_eq]
  have k1 := Near.lit M 2104542553 10000000000 (B := 1) (by norm_num) le_rfl
  have k2 := Near.lit M 158723557 200000000 (B := 1) (by norm_num) le_rfl
  have k3 := Near.lit M 10180117 2500000000 (B := 1) (by norm_num) le_rfl
  have h := ((k1.mul M (cb l hl)).add M (k2.mul M (cb m hm))).sub M (k3.mul M (cb s hs))
  exact h.finish rfl (by norm_num [FP.eps])

/-- the three M1 rows in `RF M` applied to an exactly known triple: within `2e-14` of the real rows -/
theorem lms_close (P : RF M × RF M × RF M) (b1 : |P.1.val| ≤ 3) (b2 : |P.2.1.val| ≤ 3) (b3 : |P.2.2.val| ≤ 3) :
    |(dotF M C.OKSR P).val - dot (C.OKSR : ℝ × ℝ × ℝ) (P.1.val, P.2.1.val, P.2.2.val)| ≤ 2e-14 ∧
    |(dotF M C.OKSG P).val - dot (C.OKSG : ℝ × ℝ × ℝ) (P.1.val, P.2.1.val, P.2.2.val)| ≤ 2e-14 ∧
    |(dotF M C.OKSB P).val - dot (C.OKSB : ℝ × ℝ × ℝ) (P.1.val, P.2.1.val, P.2.2.val)| ≤ 2e-14 := by
  have r1 : RowOK M (C.OKSR : RF M × RF M × RF M) (C.OKSR : ℝ × ℝ × ℝ) := by
    simp only [RowOK, C.OKSR]; refine ⟨?_, ?_, ?_⟩ <;> (apply coef_lit; norm_num)
  have r2 : RowOK M (C.OKSG : RF M × RF M × RF M) (C.OKSG : ℝ × ℝ × ℝ) := by
    simp only [RowOK, C.OKSG]; refine ⟨?_, ?_, ?_⟩ <;> (apply coef_lit; norm_num)
  have r3 : RowOK M (C.OKSB : RF M × RF M × RF M) (C.OKSB : ℝ × ℝ × ℝ) := by
    simp only [RowOK, C.OKSB]; refine ⟨?_, ?_, ?_⟩ <;> (apply coef_lit; norm_num)
  have z : ∀ a : ℝ, |a - a| ≤ 0 := fun a => by simp
  have q1 := dot3_close M r1 (v := P) (x := (P.1.val, P.2.1.val, P.2.2.val)) (e := 0) (z _) (z _) (z _) b1 b2 b3 (by norm_num)
  have q2 := dot3_close M r2 (v := P) (x := (P.1.val, P.2.1.val, P.2.2.val)) (e := 0) (z _) (z _) (z _) b1 b2 b3 (by norm_num)
  have q3 := dot3_close M r3 (v := P) (x := (P.1.val, P.2.1.val, P.2.2.val)) (e := 0) (z _) (z _) (z _) b1 b2 b3 (by norm_num)
  exact ⟨q1.trans (by norm_num), q2.trans (by norm_num), q3.trans (by norm_num)⟩
end fp3b

section fp4a
variable (M : FPModel)

/-- real values of a computed triple -/
def vals (P : RF M × RF M × RF M) : ℝ × ℝ × ℝ := (P.1.val, P.2.1.val, P.2.2.val)

/-- the computed OkLab lightness as a function of the computed linear-light triple -/
noncomputable def okLF (P : RF M × RF M × RF M) : ℝ :=
  okKF M (dotF M C.OKSR P).val (dotF M C.OKSG P).val (dotF M C.OKSB P).val

/-- **strict increase of the computed OkLab lightness between two computed linear-light triples** whose
exact M1 images satisfy the hypotheses of `okcore` with a little slack -/
theorem okLF_lt (P P' : RF M × RF M × RF M)
    (b1 : |P.1.val| ≤ 3) (b2 : |P.2.1.val| ≤ 3) (b3 : |P.2.2.val| ≤ 3)
    (b1' : |P'.1.val| ≤ 3) (b2' : |P'.2.1.val| ≤ 3) (b3' : |P'.2.2.val| ≤ 3)
    (hl : 1e-12 ≤ dot (C.OKSR : ℝ × ℝ × ℝ) (vals M P)) (hm : 1e-12 ≤ dot (C.OKSG : ℝ × ℝ × ℝ) (vals M P))
    (hs : 1e-12 ≤ dot (C.OKSB : ℝ × ℝ × ℝ) (vals M P))
    (hms : dot (C.OKSG : ℝ × ℝ × ℝ) (vals M P) + 1e-12 ≤ 5 / 2 * dot (C.OKSB : ℝ × ℝ × ℝ) (vals M P))
    (hs0 : dot (C.OKSB : ℝ × ℝ × ℝ) (vals M P) ≤ 1.09)
    (_hs' : 1e-12 ≤ dot (C.OKSB : ℝ × ℝ × ℝ) (vals M P'))
    (hms' : dot (C.OKSG : ℝ × ℝ × ℝ) (vals M P') + 1e-12 ≤ 5 / 2 * dot (C.OKSB : ℝ × ℝ × ℝ) (vals M P'))
    (hl1 : dot (C.OKSR : ℝ × ℝ × ℝ) (vals M P') ≤ 1.09) (hm1 : dot (C.OKSG : ℝ × ℝ × ℝ) (vals M P') ≤ 1.09)
    (hs1 : dot (C.OKSB : ℝ × ℝ × ℝ) (vals M P') ≤ 1.09)
    (dl : dot (C.OKSR : ℝ × ℝ × ℝ) (vals M P) + 1e-12 ≤ dot (C.OKSR : ℝ × ℝ × ℝ) (vals M P'))
    (dm : dot (C.OKSG : ℝ × ℝ × ℝ) (vals M P) + 1e-9 ≤ dot (C.OKSG : ℝ × ℝ × ℝ) (vals M P'))
    (ds : dot (C.OKSB : ℝ × ℝ × ℝ) (vals M P') - dot (C.OKSB : ℝ × ℝ × ℝ) (vals M P) + 1e-12
      ≤ 10 * (dot (C.OKSG : ℝ × ℝ × ℝ) (vals M P') - dot (C.OKSG : ℝ × ℝ × ℝ) (vals M P))) :
    okLF M P < okLF M P' := by
  obtain ⟨q1, q2, q3⟩ := lms_close M P b1 b2 b3
  obtain ⟨q1', q2', q3'⟩ := lms_close M P' b1' b2' b3'
  unfold okLF
  simp only [vals] at *
  generalize (dotF M C.OKSR P).val = l at *
  generalize (dotF M C.OKSG P).val = m at *
  generalize (dotF M C.OKSB P).val = s at *
  generalize (dotF M C.OKSR P').val = l' at *
  generalize (dotF M C.OKSG P').val = m' at *
  generalize (dotF M C.OKSB P').val = s' at *
  generalize dot (C.OKSR : ℝ × ℝ × ℝ) (P.1.val, P.2.1.val, P.2.2.val) = L at *
  generalize dot (C.OKSG : ℝ × ℝ × ℝ) (P.1.val, P.2.1.val, P.2.2.val) = Mm at *
  generalize dot (C.OKSB : ℝ × ℝ × ℝ) (P.1.val, P.2.1.val, P.2.2.val) = S at *
  generalize dot (C.OKSR : ℝ × ℝ × ℝ) (P'.1.val, P'.2.1.val, P'.2.2.val) = L' at *
  generalize dot (C.OKSG : ℝ × ℝ × ℝ) (P'.1.val, P'.2.1.val, P'.2.2.val) = Mm' at *
  generalize dot (C.OKSB : ℝ × ℝ × ℝ) (P'.1.val, P'.2.1.val, P'.2.2.val) = S' at *
  rw [abs_le] at q1 q2 q3 q1' q2' q3'
  norm_num at q1 q2 q3 q1' q2' q3' hl hm hs hms hs0 _hs' hms' hl1 hm1 hs1 dl dm ds
  have g := okK_gap (l := l) (m := m) (s := s) (l' := l') (m' := m') (s' := s') (by linarith) (by linarith)
    (by linarith) (by linarith) (by linarith) (by linarith) (by linarith) (by linarith) (by linarith)
    (by linarith)
  have a : ∀ x : ℝ, 0 ≤ x → x ≤ 11 / 10 → |x| ≤ 11 / 10 := fun x h0 h1 => by rwa [abs_of_nonneg h0]
  have c1 := abs_le.mp (okKF_close M (a l (by linarith) (by linarith)) (a m (by linarith) (by linarith))
    (a s (by linarith) (by linarith)))
  have c2 := abs_le.mp (okKF_close M (a l' (by linarith) (by linarith)) (a m' (by linarith) (by linarith))
    (a s' (by linarith) (by linarith)))
  norm_num at c1 c2
  linarith [c1.2, c2.1]
end fp4a

section fp4c
variable (M : FPModel)

/-- exact-real encoded sRGB of an 8-bit colour (via XYZ D65) -/
noncomputable abbrev sReal (c : Rgb) : Srgb ℝ := Srgb.from_Xyz (Xyz.from_rgb c XyzKind.D65 : Xyz ℝ)

theorem sReal_eq (c : Rgb) : sReal c =
    ⟨F64.apply_srgb_gamma_correction (mulVec (rev .D65) (mulVec (fwd .D65) (lin .D65 c))).1,
     F64.apply_srgb_gamma_correction (mulVec (rev .D65) (mulVec (fwd .D65) (lin .D65 c))).2.1,
     F64.apply_srgb_gamma_correction (mulVec (rev .D65) (mulVec (fwd .D65) (lin .D65 c))).2.2⟩ := by
  unfold sReal
  rw [from_rgb_eq]
  simp [Srgb.from_Xyz, toXyz, mulVec, dot, rev, mul_comm]

/-- exact linear-light triple handed to the M1 rows -/
noncomputable def linOk (c : Rgb) : ℝ × ℝ × ℝ := (p22 (sReal c).r, p22 (sReal c).g, p22 (sReal c).b)

/-- **the computed linear-light triple of an 8-bit colour is within `1e-8` of the exact one** -/
theorem linOk_close (c : Rgb) (hr : c.r ≤ 255) (hg : c.g ≤ 255) (hb : c.b ≤ 255) :
    |(linOkF M (xyzF M .D65 c)).1.val - (linOk c).1| ≤ 1 / 10 ^ 8 ∧
    |(linOkF M (xyzF M .D65 c)).2.1.val - (linOk c).2.1| ≤ 1 / 10 ^ 8 ∧
    |(linOkF M (xyzF M .D65 c)).2.2.val - (linOk c).2.2| ≤ 1 / 10 ^ 8 := by
  obtain ⟨q1, q2, q3⟩ := rlin_fp_close M .D65 c hr hg hb
  have hl := fun j => roundtrip_lin .D65 (lin .D65 c) j (dec_level_nonneg .D65 c.r) (dec_level_le_one .D65 hr)
    (dec_level_nonneg .D65 c.g) (dec_level_le_one .D65 hg) (dec_level_nonneg .D65 c.b) (dec_level_le_one .D65 hb)
  have l1 := hl 0
  have l2 := hl 1
  have l3 := hl 2
  simp only [V3.get] at l1 l2 l3
  obtain ⟨t1, t2, t3⟩ := Props.C08.forward_srgb_tight c hr hg hb
  have key : ∀ (n : ℕ) (hn : n ≤ 255) (a : RF M) (v : ℝ), |a.val - v| ≤ 3e-12 →
      |v - dec .D65 ((n:ℝ)/255)| ≤ 3e-7 → |F64.apply_srgb_gamma_correction v - (n:ℝ)/255| ≤ 3.6e-6 →
      |p22F M (F64.apply_srgb_gamma_correction a).val - p22 (F64.apply_srgb_gamma_correction v)| ≤ 1 / 10 ^ 8 := by
    intro n hn a v h1 h2 h3
    obtain ⟨g1, g2, g3⟩ := srgb_lin_gap n hn v h2
    have e := srgb_enc_fine_fp M a v h1 g1 g2 g3
    have hn' : (n:ℝ)/255 ≤ 1 := XyzDispatch.level_le_one hn
    exact p22F_close M e (by have := (abs_le.mp h3).2; norm_num at this ⊢; linarith)
  have e := sReal_eq c
  have er : (sReal c).r = _ := congrArg Srgb.r e
  have eg : (sReal c).g = _ := congrArg Srgb.g e
  have eb : (sReal c).b = _ := congrArg Srgb.b e
  dsimp only at er eg eb
  unfold sReal at er eg eb
  rw [er] at t1; rw [eg] at t2; rw [eb] at t3
  simp only [linOk, linOkF, sReal]
  rw [er, eg, eb]
  exact ⟨key c.r hr _ _ q1 l1 t1, key c.g hg _ _ q2 l2 t2, key c.b hb _ _ q3 l3 t3⟩
end fp4c

open Props.C08

/-! ## 5. exact-real facts about the linear-light triple (extracted from `Lemmas.OkLabF2.okl_raise_*`) -/

/-- each exact linear-light component of an 8-bit colour lies in `[0, 1.02]` -/
theorem linOk_range (c : Rgb) (hr : c.r ≤ 255) (hg : c.g ≤ 255) (hb : c.b ≤ 255) :
    (0 ≤ (linOk c).1 ∧ (linOk c).1 ≤ 1.02) ∧ (0 ≤ (linOk c).2.1 ∧ (linOk c).2.1 ≤ 1.02) ∧
    (0 ≤ (linOk c).2.2 ∧ (linOk c).2.2 ≤ 1.02) := by
  obtain ⟨t1, t2, t3⟩ := forward_srgb_tight c hr hg hb
  have key : ∀ (n : ℕ) (s : ℝ), n ≤ 255 → |s - (n:ℝ)/255| ≤ 3.6e-6 → 0 ≤ p22 s ∧ p22 s ≤ 1.02 := by
    intro n s hn h
    refine ⟨p22_nonneg s, ?_⟩
    have h1 : (n:ℝ)/255 ≤ 1 := XyzDispatch.level_le_one hn
    have hs : s ≤ 1.005 := by have := (abs_le.mp h).2; norm_num at this ⊢; linarith
    have m := p22_mono hs
    have l := p22_lipschitz (x := 1) (y := 1.005) (by norm_num) (by norm_num)
    have e1 : p22 1 = 1 := by unfold p22; norm_num
    rw [e1] at l
    have := (abs_le.mp l).2
    norm_num at this m ⊢
    linarith
  exact ⟨key c.r _ hr t1, key c.g _ hg t2, key c.b _ hb t3⟩

/-- a non-zero channel has exact linear-light value at least `5e-6` -/
theorem linOk_pos (c : Rgb) (hr : c.r ≤ 255) (hg : c.g ≤ 255) (hb : c.b ≤ 255) :
    (c.r ≠ 0 → 5 / 10 ^ 6 ≤ (linOk c).1) ∧ (c.g ≠ 0 → 5 / 10 ^ 6 ≤ (linOk c).2.1) ∧
    (c.b ≠ 0 → 5 / 10 ^ 6 ≤ (linOk c).2.2) := by
  obtain ⟨t1, t2, t3⟩ := forward_srgb_tight c hr hg hb
  have key : ∀ (n : ℕ) (s : ℝ), n ≠ 0 → |s - (n:ℝ)/255| ≤ 3.6e-6 → 5 / 10 ^ 6 ≤ p22 s := by
    intro n s hn h
    have h1 : (1:ℝ) ≤ n := by exact_mod_cast Nat.one_le_iff_ne_zero.mpr hn
    have h2 : (1:ℝ)/255 ≤ (n:ℝ)/255 := div_le_div_of_nonneg_right h1 (by norm_num)
    have g := p22_gain (x := 0) (y := s) (κ := 0) le_rfl (by norm_num)
      (by have := (abs_le.mp h).1; norm_num at this ⊢; linarith)
    have e0 : p22 0 = 0 := by unfold p22; simp
    rw [e0] at g; linarith
  exact ⟨fun h => key c.r _ h t1, fun h => key c.g _ h t2, fun h => key c.b _ h t3⟩

/-- one step in R: the exact R component gains at least `5e-6`, the other two move by at most `2e-7` -/
theorem linOk_step_r (c : Rgb) (h : c.r < 255) (hg : c.g ≤ 255) (hb : c.b ≤ 255) :
    (linOk c).1 + 5 / 10 ^ 6 ≤ (linOk { c with r := c.r + 1 }).1 ∧
    |(linOk { c with r := c.r + 1 }).2.1 - (linOk c).2.1| ≤ 2 / 10 ^ 7 ∧
    |(linOk { c with r := c.r + 1 }).2.2 - (linOk c).2.2| ≤ 2 / 10 ^ 7 := by
  obtain ⟨t1, t2, t3⟩ := forward_srgb_tight c h.le hg hb
  obtain ⟨u1, u2, u3⟩ := forward_srgb_tight { c with r := c.r + 1 } h hg hb
  have lg := XyzDispatch.level_le_one hg
  have lb := XyzDispatch.level_le_one hb
  rw [abs_le] at t1 t2 t3 u1 u2 u3
  dsimp only at u1 u2 u3
  have ecast : ((c.r + 1 : ℕ) : ℝ) / 255 = (c.r : ℝ) / 255 + 1 / 255 := by push_cast; ring
  rw [ecast] at u1
  have hx : (Srgb.from_Xyz (Xyz.from_rgb c XyzKind.D65 : Xyz ℝ)).r ≤ (c.r : ℝ) / 255 + 36 / 10 ^ 7 := by
    have := t1.2; norm_num at this ⊢; linarith
  have hy : (c.r : ℝ) / 255 + 1 / 255 - 36 / 10 ^ 7
      ≤ (Srgb.from_Xyz (Xyz.from_rgb { c with r := c.r + 1 } XyzKind.D65 : Xyz ℝ)).r := by
    have := u1.1; norm_num at this ⊢; linarith
  have gain := p22_gain (by positivity) hx hy
  have step0 := dec_level_step_pos c.r
  have step1 := dec_level_step_ub c.r h
  obtain ⟨sg, sb⟩ := (rho_step (decSrgb (c.r / 255)) (decSrgb (c.g / 255)) (decSrgb (c.b / 255))
    (decSrgb (((c.r + 1 : ℕ) : ℝ) / 255)) 0 0).1 step0
  simp only [linOk, sReal]
  have e0 := srgb_of_rgb c
  have e1 := srgb_of_rgb { c with r := c.r + 1 }
  dsimp only at e1
  rw [e0] at t2 t3 gain ⊢
  rw [e1] at u2 u3 gain ⊢
  dsimp only at t2 t3 u2 u3 gain ⊢
  refine ⟨gain, ?_, ?_⟩
  · have := off_channel (gain := 5 / 10 ^ 6) sg step1 (by norm_num at t2 ⊢; linarith [t2.2])
      (by norm_num at u2 ⊢; linarith [u2.2]) le_rfl
    exact this.trans (by norm_num)
  · have := off_channel (gain := 5 / 10 ^ 6) sb step1 (by norm_num at t3 ⊢; linarith [t3.2])
      (by norm_num at u3 ⊢; linarith [u3.2]) le_rfl
    exact this.trans (by norm_num)
/-- one step in G -/
theorem linOk_step_g (c : Rgb) (hr : c.r ≤ 255) (h : c.g < 255) (hb : c.b ≤ 255) :
    (linOk c).2.1 + 5 / 10 ^ 6 ≤ (linOk { c with g := c.g + 1 }).2.1 ∧
    |(linOk { c with g := c.g + 1 }).1 - (linOk c).1| ≤ 2 / 10 ^ 7 ∧
    |(linOk { c with g := c.g + 1 }).2.2 - (linOk c).2.2| ≤ 2 / 10 ^ 7 := by
  obtain ⟨t1, t2, t3⟩ := forward_srgb_tight c hr h.le hb
  obtain ⟨u1, u2, u3⟩ := forward_srgb_tight { c with g := c.g + 1 } hr h hb
  have lr := XyzDispatch.level_le_one hr
  have lb := XyzDispatch.level_le_one hb
  rw [abs_le] at t1 t2 t3 u1 u2 u3
  dsimp only at u1 u2 u3
  have ecast : ((c.g + 1 : ℕ) : ℝ) / 255 = (c.g : ℝ) / 255 + 1 / 255 := by push_cast; ring
  rw [ecast] at u2
  have hx : (Srgb.from_Xyz (Xyz.from_rgb c XyzKind.D65 : Xyz ℝ)).g ≤ (c.g : ℝ) / 255 + 36 / 10 ^ 7 := by
    have := t2.2; norm_num at this ⊢; linarith
  have hy : (c.g : ℝ) / 255 + 1 / 255 - 36 / 10 ^ 7
      ≤ (Srgb.from_Xyz (Xyz.from_rgb { c with g := c.g + 1 } XyzKind.D65 : Xyz ℝ)).g := by
    have := u2.1; norm_num at this ⊢; linarith
  have gain := p22_gain (by positivity) hx hy
  have step0 := dec_level_step_pos c.g
  have step1 := dec_level_step_ub c.g h
  obtain ⟨sr, sb⟩ := (rho_step (decSrgb (c.r / 255)) (decSrgb (c.g / 255)) (decSrgb (c.b / 255))
    0 (decSrgb (((c.g + 1 : ℕ) : ℝ) / 255)) 0).2.1 step0
  simp only [linOk, sReal]
  have e0 := srgb_of_rgb c
  have e1 := srgb_of_rgb { c with g := c.g + 1 }
  dsimp only at e1
  rw [e0] at t1 t3 gain ⊢
  rw [e1] at u1 u3 gain ⊢
  dsimp only at t1 t3 u1 u3 gain ⊢
  refine ⟨gain, ?_, ?_⟩
  · have := off_channel (gain := 5 / 10 ^ 6) sr step1 (by norm_num at t1 ⊢; linarith [t1.2])
      (by norm_num at u1 ⊢; linarith [u1.2]) le_rfl
    exact this.trans (by norm_num)
  · have := off_channel (gain := 5 / 10 ^ 6) sb step1 (by norm_num at t3 ⊢; linarith [t3.2])
      (by norm_num at u3 ⊢; linarith [u3.2]) le_rfl
    exact this.trans (by norm_num)

/-- one step in B -/
theorem linOk_step_b (c : Rgb) (hr : c.r ≤ 255) (hg : c.g ≤ 255) (h : c.b < 255) :
    (linOk c).2.2 + 5 / 10 ^ 6 ≤ (linOk { c with b := c.b + 1 }).2.2 ∧
    |(linOk { c with b := c.b + 1 }).1 - (linOk c).1| ≤ 2 / 10 ^ 7 ∧
    |(linOk { c with b := c.b + 1 }).2.1 - (linOk c).2.1| ≤ 2 / 10 ^ 7 := by
  obtain ⟨t1, t2, t3⟩ := forward_srgb_tight c hr hg h.le
  obtain ⟨u1, u2, u3⟩ := forward_srgb_tight { c with b := c.b + 1 } hr hg h
  have lr := XyzDispatch.level_le_one hr
  have lg := XyzDispatch.level_le_one hg
  rw [abs_le] at t1 t2 t3 u1 u2 u3
  dsimp only at u1 u2 u3
  have ecast : ((c.b + 1 : ℕ) : ℝ) / 255 = (c.b : ℝ) / 255 + 1 / 255 := by push_cast; ring
  rw [ecast] at u3
  have hx : (Srgb.from_Xyz (Xyz.from_rgb c XyzKind.D65 : Xyz ℝ)).b ≤ (c.b : ℝ) / 255 + 36 / 10 ^ 7 := by
    have := t3.2; norm_num at this ⊢; linarith
  have hy : (c.b : ℝ) / 255 + 1 / 255 - 36 / 10 ^ 7
      ≤ (Srgb.from_Xyz (Xyz.from_rgb { c with b := c.b + 1 } XyzKind.D65 : Xyz ℝ)).b := by
    have := u3.1; norm_num at this ⊢; linarith
  have gain := p22_gain (by positivity) hx hy
  have step0 := dec_level_step_pos c.b
  have step1 := dec_level_step_ub c.b h
  obtain ⟨sr, sg⟩ := (rho_step (decSrgb (c.r / 255)) (decSrgb (c.g / 255)) (decSrgb (c.b / 255))
    0 0 (decSrgb (((c.b + 1 : ℕ) : ℝ) / 255))).2.2 step0
  simp only [linOk, sReal]
  have e0 := srgb_of_rgb c
  have e1 := srgb_of_rgb { c with b := c.b + 1 }
  dsimp only at e1
  rw [e0] at t1 t2 gain ⊢
  rw [e1] at u1 u2 gain ⊢
  dsimp only at t1 t2 u1 u2 gain ⊢
  refine ⟨gain, ?_, ?_⟩
  · have := off_channel (gain := 5 / 10 ^ 6) sr step1 (by norm_num at t1 ⊢; linarith [t1.2])
      (by norm_num at u1 ⊢; linarith [u1.2]) le_rfl
    exact this.trans (by norm_num)
  · have := off_channel (gain := 5 / 10 ^ 6) sg step1 (by norm_num at t2 ⊢; linarith [t2.2])
      (by norm_num at u2 ⊢; linarith [u2.2]) le_rfl
    exact this.trans (by norm_num)


section fp5
variable (M : FPModel)

/-- a computed linear-light triple in the admissible range `[-1e-20, 1.03]` -/
def InRange (P : RF M × RF M × RF M) : Prop :=
  (-(1 / 10 ^ 20) ≤ P.1.val ∧ P.1.val ≤ 1.03) ∧ (-(1 / 10 ^ 20) ≤ P.2.1.val ∧ P.2.1.val ≤ 1.03) ∧
  (-(1 / 10 ^ 20) ≤ P.2.2.val ∧ P.2.2.val ≤ 1.03)

theorem InRange.abs {P : RF M × RF M × RF M} (h : InRange M P) :
    |P.1.val| ≤ 3 ∧ |P.2.1.val| ≤ 3 ∧ |P.2.2.val| ≤ 3 := by
  obtain ⟨⟨a1, a2⟩, ⟨a3, a4⟩, ⟨a5, a6⟩⟩ := h
  refine ⟨?_, ?_, ?_⟩ <;> (rw [abs_le]; constructor <;> norm_num at * <;> linarith)

/-- the first component gains at least `4.9e-6`, the other two move by at most `2.3e-7` -/
theorem okLF_lt_step1 (P P' : RF M × RF M × RF M) (hP : InRange M P) (hP' : InRange M P')
    (hsum : 49 / 10 ^ 7 ≤ P.1.val + P.2.1.val + P.2.2.val) (d : P.1.val + 49 / 10 ^ 7 ≤ P'.1.val)
    (e1 : |P'.2.1.val - P.2.1.val| ≤ 23 / 10 ^ 8) (e2 : |P'.2.2.val - P.2.2.val| ≤ 23 / 10 ^ 8) :
    okLF M P < okLF M P' := by
  obtain ⟨b1, b2, b3⟩ := hP.abs
  obtain ⟨b1', b2', b3'⟩ := hP'.abs
  obtain ⟨⟨a1, a2⟩, ⟨a3, a4⟩, ⟨a5, a6⟩⟩ := hP
  obtain ⟨⟨c1, c2⟩, ⟨c3, c4⟩, ⟨c5, c6⟩⟩ := hP'
  obtain ⟨e11, e12⟩ := abs_le.mp e1
  obtain ⟨e21, e22⟩ := abs_le.mp e2
  norm_num at a1 a2 a3 a4 a5 a6 c1 c2 c3 c4 c5 c6 hsum d e11 e12 e21 e22
  refine okLF_lt M P P' b1 b2 b3 b1' b2' b3' ?_ ?_ ?_ ?_ ?_ ?_ ?_ ?_ ?_ ?_ ?_ ?_ ?_ <;>
   (simp only [vals, Matrix.dot, C.OKSR, C.OKSG, C.OKSB, FltReal.lit_eq]
    norm_num
    linarith)

theorem okLF_lt_step2 (P P' : RF M × RF M × RF M) (hP : InRange M P) (hP' : InRange M P')
    (hsum : 49 / 10 ^ 7 ≤ P.1.val + P.2.1.val + P.2.2.val) (d : P.2.1.val + 49 / 10 ^ 7 ≤ P'.2.1.val)
    (e1 : |P'.1.val - P.1.val| ≤ 23 / 10 ^ 8) (e2 : |P'.2.2.val - P.2.2.val| ≤ 23 / 10 ^ 8) :
    okLF M P < okLF M P' := by
  obtain ⟨b1, b2, b3⟩ := hP.abs
  obtain ⟨b1', b2', b3'⟩ := hP'.abs
  obtain ⟨⟨a1, a2⟩, ⟨a3, a4⟩, ⟨a5, a6⟩⟩ := hP
  obtain ⟨⟨c1, c2⟩, ⟨c3, c4⟩, ⟨c5, c6⟩⟩ := hP'
  obtain ⟨e11, e12⟩ := abs_le.mp e1
  obtain ⟨e21, e22⟩ := abs_le.mp e2
  norm_num at a1 a2 a3 a4 a5 a6 c1 c2 c3 c4 c5 c6 hsum d e11 e12 e21 e22
  refine okLF_lt M P P' b1 b2 b3 b1' b2' b3' ?_ ?_ ?_ ?_ ?_ ?_ ?_ ?_ ?_ ?_ ?_ ?_ ?_ <;>
   (simp only [vals, Matrix.dot, C.OKSR, C.OKSG, C.OKSB, FltReal.lit_eq]
    norm_num
    linarith)

theorem okLF_lt_step3 (P P' : RF M × RF M × RF M) (hP : InRange M P) (hP' : InRange M P')
    (hsum : 49 / 10 ^ 7 ≤ P.1.val + P.2.1.val + P.2.2.val) (d : P.2.2.val + 49 / 10 ^ 7 ≤ P'.2.2.val)
    (e1 : |P'.1.val - P.1.val| ≤ 23 / 10 ^ 8) (e2 : |P'.2.1.val - P.2.1.val| ≤ 23 / 10 ^ 8) :
    okLF M P < okLF M P' := by
  obtain ⟨b1, b2, b3⟩ := hP.abs
  obtain ⟨b1', b2', b3'⟩ := hP'.abs
  obtain ⟨⟨a1, a2⟩, ⟨a3, a4⟩, ⟨a5, a6⟩⟩ := hP
  obtain ⟨⟨c1, c2⟩, ⟨c3, c4⟩, ⟨c5, c6⟩⟩ := hP'
  obtain ⟨e11, e12⟩ := abs_le.mp e1
  obtain ⟨e21, e22⟩ := abs_le.mp e2
  norm_num at a1 a2 a3 a4 a5 a6 c1 c2 c3 c4 c5 c6 hsum d e11 e12 e21 e22
  refine okLF_lt M P P' b1 b2 b3 b1' b2' b3' ?_ ?_ ?_ ?_ ?_ ?_ ?_ ?_ ?_ ?_ ?_ ?_ ?_ <;>
   (simp only [vals, Matrix.dot, C.OKSR, C.OKSG, C.OKSB, FltReal.lit_eq]
    norm_num
    linarith)
end fp5

section fp6
variable (M : FPModel)

/-- computed linear-light triple of an 8-bit colour -/
noncomputable abbrev PF (c : Rgb) : RF M × RF M × RF M := linOkF M (FpXyz.xyzF M .D65 c)

theorem oklab_l_rgb_fp (c : Rgb) :
    (OkLab.from_Xyz (Xyz.from_rgb (α := RF M) c XyzKind.D65)).l.val = okLF M (PF M c) := by
  rw [oklab_l_eq_fp, from_rgb_eq_fp']
  rfl

theorem PF_inRange (c : Rgb) (hr : c.r ≤ 255) (hg : c.g ≤ 255) (hb : c.b ≤ 255) : InRange M (PF M c) := by
  obtain ⟨q1, q2, q3⟩ := linOk_close M c hr hg hb
  obtain ⟨⟨-, r1⟩, ⟨-, r2⟩, ⟨-, r3⟩⟩ := linOk_range c hr hg hb
  have lo : ∀ s : ℝ, -(1 / 10 ^ 20 : ℝ) ≤ p22F M s := fun s =>
    le_trans (by norm_num) (p22F_ge M s)
  rw [abs_le] at q1 q2 q3
  refine ⟨⟨lo _, ?_⟩, ⟨lo _, ?_⟩, ⟨lo _, ?_⟩⟩
  · have := q1.2; norm_num at this r1 ⊢; linarith
  · have := q2.2; norm_num at this r2 ⊢; linarith
  · have := q3.2; norm_num at this r3 ⊢; linarith

theorem PF_sum (c : Rgb) (hr : c.r ≤ 255) (hg : c.g ≤ 255) (hb : c.b ≤ 255)
    (hnb : c.r ≠ 0 ∨ c.g ≠ 0 ∨ c.b ≠ 0) :
    49 / 10 ^ 7 ≤ (PF M c).1.val + (PF M c).2.1.val + (PF M c).2.2.val := by
  obtain ⟨q1, q2, q3⟩ := linOk_close M c hr hg hb
  obtain ⟨⟨n1, -⟩, ⟨n2, -⟩, ⟨n3, -⟩⟩ := linOk_range c hr hg hb
  obtain ⟨p1, p2, p3⟩ := linOk_pos c hr hg hb
  rw [abs_le] at q1 q2 q3
  rcases hnb with h | h | h
  · have := p1 h; norm_num at this q1 q2 q3 ⊢; linarith [q1.1, q2.1, q3.1]
  · have := p2 h; norm_num at this q1 q2 q3 ⊢; linarith [q1.1, q2.1, q3.1]
  · have := p3 h; norm_num at this q1 q2 q3 ⊢; linarith [q1.1, q2.1, q3.1]

/-- a perturbed difference -/
private theorem diff_close {a a' x x' : ℝ} (h : |a - x| ≤ 1 / 10 ^ 8) (h' : |a' - x'| ≤ 1 / 10 ^ 8)
    (hx : |x' - x| ≤ 2 / 10 ^ 7) : |a' - a| ≤ 23 / 10 ^ 8 := by
  rw [abs_le] at *
  constructor <;> norm_num at * <;> linarith [h.1, h.2, h'.1, h'.2, hx.1, hx.2]

theorem okl_raise_r_fp (c : Rgb) (h : c.r < 255) (hg : c.g ≤ 255) (hb : c.b ≤ 255)
    (hnb : c.r ≠ 0 ∨ c.g ≠ 0 ∨ c.b ≠ 0) : okLF M (PF M c) < okLF M (PF M { c with r := c.r + 1 }) := by
  obtain ⟨q1, q2, q3⟩ := linOk_close M c h.le hg hb
  obtain ⟨q1', q2', q3'⟩ := linOk_close M { c with r := c.r + 1 } h hg hb
  obtain ⟨s1, s2, s3⟩ := linOk_step_r c h hg hb
  refine okLF_lt_step1 M _ _ (PF_inRange M c h.le hg hb) (PF_inRange M _ h hg hb) (PF_sum M c h.le hg hb hnb)
    ?_ (diff_close q2 q2' s2) (diff_close q3 q3' s3)
  have := (abs_le.mp q1).2; have := (abs_le.mp q1').1
  norm_num at * ; linarith

theorem okl_raise_g_fp (c : Rgb) (hr : c.r ≤ 255) (h : c.g < 255) (hb : c.b ≤ 255)
    (hnb : c.r ≠ 0 ∨ c.g ≠ 0 ∨ c.b ≠ 0) : okLF M (PF M c) < okLF M (PF M { c with g := c.g + 1 }) := by
  obtain ⟨q1, q2, q3⟩ := linOk_close M c hr h.le hb
  obtain ⟨q1', q2', q3'⟩ := linOk_close M { c with g := c.g + 1 } hr h hb
  obtain ⟨s1, s2, s3⟩ := linOk_step_g c hr h hb
  refine okLF_lt_step2 M _ _ (PF_inRange M c hr h.le hb) (PF_inRange M _ hr h hb) (PF_sum M c hr h.le hb hnb)
    ?_ (diff_close q1 q1' s2) (diff_close q3 q3' s3)
  have := (abs_le.mp q2).2; have := (abs_le.mp q2').1
  norm_num at * ; linarith

theorem okl_raise_b_fp (c : Rgb) (hr : c.r ≤ 255) (hg : c.g ≤ 255) (h : c.b < 255)
    (hnb : c.r ≠ 0 ∨ c.g ≠ 0 ∨ c.b ≠ 0) : okLF M (PF M c) < okLF M (PF M { c with b := c.b + 1 }) := by
  obtain ⟨q1, q2, q3⟩ := linOk_close M c hr hg h.le
  obtain ⟨q1', q2', q3'⟩ := linOk_close M { c with b := c.b + 1 } hr hg h
  obtain ⟨s1, s2, s3⟩ := linOk_step_b c hr hg h
  refine okLF_lt_step3 M _ _ (PF_inRange M c hr hg h.le) (PF_inRange M _ hr hg h) (PF_sum M c hr hg h.le hnb)
    ?_ (diff_close q1 q1' s2) (diff_close q2 q2' s3)
  have := (abs_le.mp q3).2; have := (abs_le.mp q3').1
  norm_num at * ; linarith
end fp6

section fp7
variable (M : FPModel)

/-! ## 6. the step away from black -/

/-- `M.pow 0 y` is within `η` of `0` -/
theorem p22F_zero : |p22F M 0| ≤ 1 / 10 ^ 100 := by
  unfold p22F
  have hq := lit_close M 11 5 (B := 3) (by norm_num) (by norm_num)
  have q1 : 2 ≤ M.rnd (((11 : ℕ) : ℝ) / ((5 : ℕ) : ℝ)) := by
    have := (abs_le.mp hq).1; norm_num [FP.eps] at this ⊢; linarith
  have h := M.pow_err 0 (M.rnd (((11 : ℕ) : ℝ) / ((5 : ℕ) : ℝ))) le_rfl
  rw [Real.zero_rpow (by linarith)] at h
  simp only [abs_zero, mul_zero, zero_add, sub_zero, max_self] at h ⊢
  have he : FP.eta ≤ 1 / 10 ^ 100 := by
    have := FP.eta_lt
    have : (1 : ℝ) / 10 ^ 240 ≤ 1 / 10 ^ 100 := by
      apply one_div_le_one_div_of_le (by positivity)
      exact pow_le_pow_right₀ (by norm_num) (by norm_num)
    linarith
  exact h.trans he

/-- a rounded product of a coefficient (`CoefOK`) with a value of magnitude `≤ 1e-100` -/
private theorem tiny_mul {a : RF M} {x p : ℝ} (ha : CoefOK M a x) (hp : |p| ≤ 1 / 10 ^ 100) :
    |M.rnd (a.val * p)| ≤ 5 / 10 ^ 100 := by
  have ha4 : |a.val| ≤ 4.1 := by
    have := abs_sub_abs_le_abs_sub a.val x
    have := ha.1; have := ha.2
    norm_num [FP.eps] at *; linarith
  have h1 : |a.val * p| ≤ 4.1 * (1 / 10 ^ 100) := by
    rw [abs_mul]; exact mul_le_mul ha4 hp (abs_nonneg _) (by norm_num)
  have h2 := rnd_abs M (B := 4.1 * (1 / 10 ^ 100)) h1 (by norm_num)
  have := abs_sub_abs_le_abs_sub (M.rnd (a.val * p)) (a.val * p)
  norm_num [FP.eps] at *
  linarith

private theorem tiny_add {a b : ℝ} {A B : ℝ} (ha : |a| ≤ A) (hb : |b| ≤ B) (hAB : 1e-200 ≤ A + B) :
    |M.rnd (a + b)| ≤ (A + B) * (1 + FP.eps) := by
  have h1 : |a + b| ≤ A + B := (abs_add_le _ _).trans (add_le_add ha hb)
  have h2 := rnd_abs M h1 hAB
  have := abs_sub_abs_le_abs_sub (M.rnd (a + b)) (a + b)
  nlinarith

/-- a row of M1 applied to a triple of magnitude `≤ 1e-100` has magnitude `≤ 8e-99` -/
theorem dotF_tiny {m P : RF M × RF M × RF M} {c : ℝ × ℝ × ℝ} (hm : RowOK M m c)
    (h1 : |P.1.val| ≤ 1 / 10 ^ 100) (h2 : |P.2.1.val| ≤ 1 / 10 ^ 100) (h3 : |P.2.2.val| ≤ 1 / 10 ^ 100) :
    |(dotF M m P).val| ≤ (2 / 10 ^ 33) ^ 3 := by
  obtain ⟨m1, m2, m3⟩ := hm
  simp only [dotF, FltRF.add_val, FltRF.mul_val]
  have t1 := tiny_mul M m1 h1
  have t2 := tiny_mul M m2 h2
  have t3 := tiny_mul M m3 h3
  have s1 := tiny_add M t1 t2 (by norm_num)
  have s2 := tiny_add M s1 t3 (by norm_num [FP.eps])
  refine s2.trans ?_
  norm_num [FP.eps]

theorem okLF_black_lt (P P' : RF M × RF M × RF M)
    (h1 : |P.1.val| ≤ 1 / 10 ^ 100) (h2 : |P.2.1.val| ≤ 1 / 10 ^ 100) (h3 : |P.2.2.val| ≤ 1 / 10 ^ 100)
    (hP' : InRange M P') (hsum : 49 / 10 ^ 7 ≤ P'.1.val + P'.2.1.val + P'.2.2.val) :
    okLF M P < okLF M P' := by
  have r1 : RowOK M (C.OKSR : RF M × RF M × RF M) (C.OKSR : ℝ × ℝ × ℝ) := by
    simp only [RowOK, C.OKSR]; refine ⟨?_, ?_, ?_⟩ <;> (apply coef_lit; norm_num)
  have r2 : RowOK M (C.OKSG : RF M × RF M × RF M) (C.OKSG : ℝ × ℝ × ℝ) := by
    simp only [RowOK, C.OKSG]; refine ⟨?_, ?_, ?_⟩ <;> (apply coef_lit; norm_num)
  have r3 : RowOK M (C.OKSB : RF M × RF M × RF M) (C.OKSB : ℝ × ℝ × ℝ) := by
    simp only [RowOK, C.OKSB]; refine ⟨?_, ?_, ?_⟩ <;> (apply coef_lit; norm_num)
  have d1 := dotF_tiny M r1 h1 h2 h3
  have d2 := dotF_tiny M r2 h1 h2 h3
  have d3 := dotF_tiny M r3 h1 h2 h3
  obtain ⟨b1', b2', b3'⟩ := hP'.abs
  obtain ⟨q1', q2', q3'⟩ := lms_close M P' b1' b2' b3'
  obtain ⟨⟨c1, c2⟩, ⟨c3, c4⟩, ⟨c5, c6⟩⟩ := hP'
  unfold okLF
  generalize (dotF M C.OKSR P).val = l at *
  generalize (dotF M C.OKSG P).val = m at *
  generalize (dotF M C.OKSB P).val = s at *
  generalize (dotF M C.OKSR P').val = l' at *
  generalize (dotF M C.OKSG P').val = m' at *
  generalize (dotF M C.OKSB P').val = s' at *
  simp only [Matrix.dot, C.OKSR, C.OKSG, C.OKSB, FltReal.lit_eq] at q1' q2' q3'
  rw [abs_le] at q1' q2' q3'
  norm_num at q1' q2' q3' c1 c2 c3 c4 c5 c6 hsum
  -- the lower side: all three cube roots are at most `2e-33` in magnitude
  have cl := abs_le.mp (abs_cbrt_le (t := 2 / 10 ^ 33) (by norm_num) d1)
  have cm := abs_le.mp (abs_cbrt_le (t := 2 / 10 ^ 33) (by norm_num) d2)
  have cs := abs_le.mp (abs_cbrt_le (t := 2 / 10 ^ 33) (by norm_num) d3)
  have small : ∀ x : ℝ, |x| ≤ (2 / 10 ^ 33) ^ 3 → |x| ≤ 11 / 10 := fun x h => h.trans (by norm_num)
  have k1 := abs_le.mp (okKF_close M (small l d1) (small m d2) (small s d3))
  have hK : okK l m s ≤ 1 / 10 ^ 30 := by
    unfold okK
    simp only [C.OKL, FltReal.lit_eq]
    norm_num at cl cm cs ⊢
    linarith [cl.1, cl.2, cm.1, cm.2, cs.1, cs.2]
  -- the upper side
  have g := okK_gap (l := 0) (m := 0) (s := 0) (l' := l') (m' := m') (s' := s') le_rfl le_rfl le_rfl
    (by linarith) (by linarith) (by linarith) (by norm_num) (by linarith) (by linarith) (by linarith)
  have e0 : okK 0 0 0 = 0 := by
    have : Real.cbrt 0 = 0 := by simp [Real.cbrt]
    simp [okK, this]
  have a : ∀ x : ℝ, 0 ≤ x → x ≤ 11 / 10 → |x| ≤ 11 / 10 := fun x h0 h1 => by rwa [abs_of_nonneg h0]
  have k2 := abs_le.mp (okKF_close M (a l' (by linarith) (by linarith)) (a m' (by linarith) (by linarith))
    (a s' (by linarith) (by linarith)))
  norm_num at k1 k2 hK
  linarith [k1.2, k2.1]
end fp7

section fp8
variable (M : FPModel)

theorem srgb_enc_zero_fp (a : RF M) (ha : a.val = 0) : (F64.apply_srgb_gamma_correction a).val = 0 := by
  have hc : (0:ℝ) ≤ M.rnd (((7827:ℕ):ℝ) / ((2500000:ℕ):ℝ)) := rnd_nonneg M (by positivity)
  simp only [F64.apply_srgb_gamma_correction, FltRF.le_eq, FltRF.lit_val, ha, hc, decide_true,
    if_true, FltRF.mul_val, zero_mul, rnd_zero]

/-- the computed linear-light triple of black has components of magnitude at most `1e-100` -/
theorem PF_black : |(PF M ⟨0, 0, 0⟩).1.val| ≤ 1 / 10 ^ 100 ∧ |(PF M ⟨0, 0, 0⟩).2.1.val| ≤ 1 / 10 ^ 100 ∧
    |(PF M ⟨0, 0, 0⟩).2.2.val| ≤ 1 / 10 ^ 100 := by
  obtain ⟨x1, x2, x3⟩ := xyz_black_fp M .D65
  have d : ∀ m, (dotF' M (FpXyz.xyzF M .D65 ⟨0, 0, 0⟩) m).val = 0 := fun m => by
    rw [dotF'_val]; exact dotF_zero M m _ x1 x2 x3
  have e : ∀ m, p22F M (F64.apply_srgb_gamma_correction (dotF' M (FpXyz.xyzF M .D65 ⟨0, 0, 0⟩) m)).val
      = p22F M 0 := fun m => by rw [srgb_enc_zero_fp M _ (d m)]
  simp only [PF, linOkF, rlinF, e]
  exact ⟨p22F_zero M, p22F_zero M, p22F_zero M⟩

/-- **one step up in one channel strictly raises the computed OkLab lightness**, red channel -/
theorem okl_step_r_fp (c : Rgb) (h : c.r < 255) (hg : c.g ≤ 255) (hb : c.b ≤ 255) :
    okLF M (PF M c) < okLF M (PF M { c with r := c.r + 1 }) := by
  by_cases hnb : c.r ≠ 0 ∨ c.g ≠ 0 ∨ c.b ≠ 0
  · exact okl_raise_r_fp M c h hg hb hnb
  · push Not at hnb
    obtain ⟨e1, e2, e3⟩ := hnb
    have e : c = ⟨0, 0, 0⟩ := by cases c; simp_all
    subst e
    obtain ⟨p1, p2, p3⟩ := PF_black M
    exact okLF_black_lt M _ _ p1 p2 p3 (PF_inRange M _ (by norm_num) (by norm_num) (by norm_num))
      (PF_sum M _ (by norm_num) (by norm_num) (by norm_num) (Or.inl (by norm_num)))

theorem okl_step_g_fp (c : Rgb) (hr : c.r ≤ 255) (h : c.g < 255) (hb : c.b ≤ 255) :
    okLF M (PF M c) < okLF M (PF M { c with g := c.g + 1 }) := by
  by_cases hnb : c.r ≠ 0 ∨ c.g ≠ 0 ∨ c.b ≠ 0
  · exact okl_raise_g_fp M c hr h hb hnb
  · push Not at hnb
    obtain ⟨e1, e2, e3⟩ := hnb
    have e : c = ⟨0, 0, 0⟩ := by cases c; simp_all
    subst e
    obtain ⟨p1, p2, p3⟩ := PF_black M
    exact okLF_black_lt M _ _ p1 p2 p3 (PF_inRange M _ (by norm_num) (by norm_num) (by norm_num))
      (PF_sum M _ (by norm_num) (by norm_num) (by norm_num) (Or.inr (Or.inl (by norm_num))))

theorem okl_step_b_fp (c : Rgb) (hr : c.r ≤ 255) (hg : c.g ≤ 255) (h : c.b < 255) :
    okLF M (PF M c) < okLF M (PF M { c with b := c.b + 1 }) := by
  by_cases hnb : c.r ≠ 0 ∨ c.g ≠ 0 ∨ c.b ≠ 0
  · exact okl_raise_b_fp M c hr hg h hnb
  · push Not at hnb
    obtain ⟨e1, e2, e3⟩ := hnb
    have e : c = ⟨0, 0, 0⟩ := by cases c; simp_all
    subst e
    obtain ⟨p1, p2, p3⟩ := PF_black M
    exact okLF_black_lt M _ _ p1 p2 p3 (PF_inRange M _ (by norm_num) (by norm_num) (by norm_num))
      (PF_sum M _ (by norm_num) (by norm_num) (by norm_num) (Or.inr (Or.inr (by norm_num))))
end fp8
end Lemmas.FpMonoOk
