import LymuiVerif.Lemmas.DefinedRgb
/-!
# Definedness (C04): conversions from XYZ

`x_from_xyz` lemmas: `X.from_Xyz (liftXyz p) = liftX (X.from_Xyz p)`.  Unconditional where the code
needs no guard (curves test their own argument, `cbrt` is total, a sum of squares is nonnegative);
with `0 ≤ p.x, p.y, p.z` (or just `0 ≤ p.y`) where the code's guard only excludes the all-zero point.
-/
set_option linter.unusedSimpArgs false
set_option linter.unusedVariables false
namespace Lemmas.Defined
open Gen


theorem srgb_from_xyz (p : Xyz ℝ) : Srgb.from_Xyz (liftXyz p) = liftSrgb (Srgb.from_Xyz p) := by
  simp [Srgb.from_Xyz, liftXyz, liftSrgb, C.RX65, C.RY65, C.RZ65, srgb_correct]

theorem argb_from_xyz (p : Xyz ℝ) : Argb.from_Xyz (liftXyz p) = liftArgb (Argb.from_Xyz p) := by
  simp [Argb.from_Xyz, liftXyz, liftArgb, C.argb_XR, C.YG, C.ZB, argb_expand]

theorem rec709_from_xyz (p : Xyz ℝ) : Rec709.from_Xyz (liftXyz p) = liftRec709 (Rec709.from_Xyz p) := by
  simp [Rec709.from_Xyz, liftXyz, liftRec709, C.RX65, C.RY65, C.RZ65, rec709_correct]

theorem rec2020_from_xyz (p : Xyz ℝ) : Rec2020.from_Xyz (liftXyz p) = liftRec2020 (Rec2020.from_Xyz p) := by
  simp [Rec2020.from_Xyz, liftXyz, liftRec2020, C.rec2020_XR, C.XG, C.XB, rec2020_correct]

theorem compute_f_bridge (x : ℝ) : Lab.compute_f (some x : PR) = some (Lab.compute_f x) := by
  unfold Lab.compute_f
  simp only [FltPR.lit_eq, FltPR.lt_some, FltReal.lit_eq, FltReal.lt_eq, decide_eq_true_eq]
  split_ifs
  · simp
  · simp (disch := positivity) [FltPR.div_some]

theorem lab_from_xyz (p : Xyz ℝ) : Lab.from_Xyz (liftXyz p) = liftLab (Lab.from_Xyz p) := by
  simp (disch := positivity) [Lab.from_Xyz, liftXyz, liftLab, C.D65, FltPR.div_some, compute_f_bridge]

theorem degree_bridge (x : ℝ) : F64.get_degree_from_radian (some x : PR) = some (F64.get_degree_from_radian x) := by
  simp (disch := positivity) [F64.get_degree_from_radian, FltPR.div_some, Real.pi_ne_zero]

theorem radian_bridge (x : ℝ) : F64.get_radian_from_degree (some x : PR) = some (F64.get_radian_from_degree x) := by
  simp (disch := positivity) [F64.get_radian_from_degree, FltPR.div_some]

theorem chroma_bridge (a b : ℝ) : Flt.sqrt ((Flt.powi (some a : PR) 2) + (Flt.powi (some b) 2)) = some (Flt.sqrt ((Flt.powi a 2) + (Flt.powi b 2))) := by
  rw [FltPR.powi_nonneg _ _ (by norm_num), FltPR.powi_nonneg _ _ (by norm_num), FltPR.add_some, FltPR.sqrt_nonneg]
  · rfl
  · positivity

theorem lchlab_from_xyz (p : Xyz ℝ) : Lchlab.from_Xyz (liftXyz p) = liftLchlab (Lchlab.from_Xyz p) := by
  unfold Lchlab.from_Xyz
  rw [lab_from_xyz]
  simp only [liftLab, FltPR.atan2_some, degree_bridge, chroma_bridge, FltPR.lit_eq, FltPR.le_some, FltPR.add_some, FltReal.lit_eq, FltReal.le_eq,
    FltReal.atan2_eq, decide_eq_true_eq]
  split_ifs <;> rfl

theorem compounds_bridge (x y z : ℝ) (hx : 0 ≤ x) (hy : 0 ≤ y) (hz : 0 ≤ z) :
    Luv.compute_compounds (some x : PR) (some y) (some z) =
      (some (Luv.compute_compounds x y z).1, some (Luv.compute_compounds x y z).2) := by
  unfold Luv.compute_compounds
  simp only [FltPR.lit_eq, FltPR.beq_some, FltPR.mul_some, FltPR.add_some, FltReal.lit_eq, FltReal.beq_eq, decide_eq_true_eq]
  have e0 : ((0:ℕ):ℝ) / ((1:ℕ):ℝ) = 0 := by norm_num
  rw [e0]
  have D : (x ≠ 0 ∨ y ≠ 0 ∨ z ≠ 0) → x + ((15:ℕ):ℝ) / ((1:ℕ):ℝ) * y + ((3:ℕ):ℝ) / ((1:ℕ):ℝ) * z ≠ 0 := by
    intro h
    have : 0 < x + 15 * y + 3 * z := by
      rcases h with h | h | h
      · have := lt_of_le_of_ne hx (Ne.symm h); nlinarith
      · have := lt_of_le_of_ne hy (Ne.symm h); nlinarith
      · have := lt_of_le_of_ne hz (Ne.symm h); nlinarith
    norm_num; exact this.ne'
  split_ifs with h1 h2 h3
  · rfl
  · rw [FltPR.div_some _ _ (D (Or.inr (Or.inr h3))), FltPR.div_some _ _ (D (Or.inr (Or.inr h3)))]
  · rw [FltPR.div_some _ _ (D (Or.inr (Or.inl h2))), FltPR.div_some _ _ (D (Or.inr (Or.inl h2)))]
  · rw [FltPR.div_some _ _ (D (Or.inl h1)), FltPR.div_some _ _ (D (Or.inl h1))]

theorem compounds_white :
    Luv.compute_compounds (C.D65 : PR × PR × PR).1 (C.D65 : PR × PR × PR).2.1 (C.D65 : PR × PR × PR).2.2 =
      (some (Luv.compute_compounds (C.D65 : ℝ × ℝ × ℝ).1 (C.D65 : ℝ × ℝ × ℝ).2.1 (C.D65 : ℝ × ℝ × ℝ).2.2).1,
       some (Luv.compute_compounds (C.D65 : ℝ × ℝ × ℝ).1 (C.D65 : ℝ × ℝ × ℝ).2.1 (C.D65 : ℝ × ℝ × ℝ).2.2).2) := by
  simp only [C.D65, FltPR.lit_eq, FltReal.lit_eq]
  exact compounds_bridge _ _ _ (by norm_num) (by norm_num) (by norm_num)

theorem luv_from_xyz (p : Xyz ℝ) (hx : 0 ≤ p.x) (hy : 0 ≤ p.y) (hz : 0 ≤ p.z) :
    Luv.from_Xyz (liftXyz p) = liftLuv (Luv.from_Xyz p) := by
  unfold Luv.from_Xyz
  rw [compounds_white]
  simp only [liftXyz]
  rw [compounds_bridge _ _ _ hx hy hz]
  generalize (Luv.compute_compounds p.x p.y p.z) = uv
  generalize (Luv.compute_compounds (C.D65 : ℝ × ℝ × ℝ).1 (C.D65 : ℝ × ℝ × ℝ).2.1 (C.D65 : ℝ × ℝ × ℝ).2.2) = uv0
  have e1 : (some p.y : PR) / (C.D65 : PR × PR × PR).2.1 = some (p.y / (C.D65 : ℝ × ℝ × ℝ).2.1) := by
    simp only [C.D65, FltPR.lit_eq, FltReal.lit_eq]; exact FltPR.div_some _ _ (by norm_num)
  simp only [e1]
  generalize (p.y / (C.D65 : ℝ × ℝ × ℝ).2.1) = y2
  simp only [C.EPSILON, C.KAPPA, FltPR.lit_eq, FltPR.lt_some, FltReal.lit_eq, FltReal.lt_eq, decide_eq_true_eq]
  split_ifs with h
  · have hy2 : 0 < y2 := lt_trans (by norm_num) h
    have h3 : ((3:ℕ):ℝ) / ((1:ℕ):ℝ) ≠ 0 := by norm_num
    simp only [FltPR.div_some _ _ h3, FltPR.pow_pos _ _ hy2, FltPR.mul_some, FltPR.sub_some, liftLuv]
    rfl
  · simp only [FltPR.mul_some, FltPR.sub_some, liftLuv]

theorem lchuv_from_xyz (p : Xyz ℝ) (hx : 0 ≤ p.x) (hy : 0 ≤ p.y) (hz : 0 ≤ p.z) :
    Lchuv.from_Xyz (liftXyz p) = liftLchuv (Lchuv.from_Xyz p) := by
  unfold Lchuv.from_Xyz
  rw [luv_from_xyz p hx hy hz]
  simp only [liftLuv, FltPR.atan2_some, degree_bridge, chroma_bridge, FltPR.lit_eq, FltPR.lt_some, FltPR.add_some, FltReal.lit_eq, FltReal.lt_eq,
    FltReal.atan2_eq, decide_eq_true_eq]
  split_ifs <;> rfl

theorem hue_from_luv (q : Luv ℝ) : F64.from_Luv (liftLuv q) = some (F64.from_Luv q) := by
  unfold F64.from_Luv
  simp only [liftLuv, FltPR.atan2_some, degree_bridge, FltPR.lit_eq, FltPR.lt_some, FltPR.add_some, FltPR.sub_some, FltReal.lit_eq, FltReal.lt_eq,
    FltReal.atan2_eq, decide_eq_true_eq]
  split_ifs <;> rfl

theorem hcl_from_luv (q : Luv ℝ) : Hcl.from_Luv (liftLuv q) = liftHcl (Hcl.from_Luv q) := by
  unfold Hcl.from_Luv
  rw [hue_from_luv]
  simp only [liftLuv, liftHcl, FltPR.mul_some, FltPR.add_some]
  rw [FltPR.sqrt_nonneg _ (by nlinarith [mul_self_nonneg q.u, mul_self_nonneg q.v])]
  rfl

theorem hcl_from_xyz (p : Xyz ℝ) (hx : 0 ≤ p.x) (hy : 0 ≤ p.y) (hz : 0 ≤ p.z) :
    Hcl.from_Xyz (liftXyz p) = liftHcl (Hcl.from_Xyz p) := by
  unfold Hcl.from_Xyz
  rw [luv_from_xyz p hx hy hz, hcl_from_luv]

theorem kakb_bridge : (Hlab.get_ka_kb : PR × PR) = (some (Hlab.get_ka_kb (α := ℝ)).1, some (Hlab.get_ka_kb (α := ℝ)).2) := by
  simp (disch := positivity) [Hlab.get_ka_kb, C.YN, C.XN, C.ZN, FltPR.div_some]

theorem hlab_from_xyz (p : Xyz ℝ) (hy : 0 ≤ p.y) : Hlab.from_Xyz (liftXyz p) = liftHlab (Hlab.from_Xyz p) := by
  unfold Hlab.from_Xyz
  rw [kakb_bridge]
  generalize (Hlab.get_ka_kb (α := ℝ)) = kk
  simp only [liftXyz, FltPR.lit_eq, FltPR.beq_some, FltReal.lit_eq, FltReal.beq_eq, decide_eq_true_eq]
  split_ifs with h
  · simp [liftHlab]
  · have hy' : 0 < p.y := lt_of_le_of_ne hy (by intro h0; apply h; rw [← h0]; norm_num)
    have hq : 0 < p.y / (C.YN : ℝ) := by simp only [C.YN, FltReal.lit_eq]; positivity
    have hs : Real.sqrt (p.y / (C.YN : ℝ)) ≠ 0 := (Real.sqrt_pos.mpr hq).ne'
    have eY : (some p.y : PR) / (C.YN : PR) = some (p.y / (C.YN : ℝ)) := by
      simp only [C.YN, FltPR.lit_eq, FltReal.lit_eq]; exact FltPR.div_some _ _ (by norm_num)
    have eX : (some p.x : PR) / (C.XN : PR) = some (p.x / (C.XN : ℝ)) := by
      simp only [C.XN, FltPR.lit_eq, FltReal.lit_eq]; exact FltPR.div_some _ _ (by norm_num)
    have eZ : (some p.z : PR) / (C.ZN : PR) = some (p.z / (C.ZN : ℝ)) := by
      simp only [C.ZN, FltPR.lit_eq, FltReal.lit_eq]; exact FltPR.div_some _ _ (by norm_num)
    simp only [eY, eX, eZ, FltPR.sqrt_nonneg _ hq.le, FltPR.sub_some, FltPR.div_some _ _ hs, FltPR.mul_some, liftHlab]
    rfl

theorem isnull_bridge (p : Xyz ℝ) : Xyz.is_null (liftXyz p) = Xyz.is_null p := by
  simp [Xyz.is_null, liftXyz]

theorem xyy_from_xyz (p : Xyz ℝ) (hx : 0 ≤ p.x) (hy : 0 ≤ p.y) (hz : 0 ≤ p.z) :
    Xyy.from_Xyz (liftXyz p) = liftXyy (Xyy.from_Xyz p) := by
  unfold Xyy.from_Xyz Xyy.get_fields_from_xyz Xyy.compute_xyy
  simp only [isnull_bridge]
  by_cases h : Xyz.is_null p = true
  · simp [h, liftXyy, liftXyz, C.CHROMA_X, C.CHROMA_Y]
  · have hs : p.x + p.y + p.z ≠ 0 := by
      intro h0
      apply h
      have : p.x = 0 ∧ p.y = 0 ∧ p.z = 0 := ⟨by linarith, by linarith, by linarith⟩
      simp [Xyz.is_null, this.1, this.2.1, this.2.2]
    simp only [h, liftXyz, FltPR.add_some, FltPR.div_some _ _ hs, liftXyy, Option.getD_some]
    rfl

theorem as_linear_bridge (s : Srgb ℝ) : Srgb.as_linear (liftSrgb s) = liftSrgb (Srgb.as_linear s) := by
  have e : ∀ x : ℝ, Flt.pow (Flt.max (some x : PR) (Flt.lit 0x0000000000000000 0 1)) (Flt.lit 0x400199999999999A 11 5) =
      some (Flt.pow (Flt.max x (Flt.lit 0x0000000000000000 0 1)) (Flt.lit 0x400199999999999A 11 5)) := by
    intro x
    rw [FltPR.lit_eq, FltPR.lit_eq, FltPR.max_some, FltPR.pow_nonneg _ _ (le_max_of_le_right (by norm_num)) (by norm_num)]
    rfl
  simp only [Srgb.as_linear, liftSrgb, e]

theorem as_non_linear_bridge (s : Srgb ℝ) : Srgb.as_non_linear (liftSrgb s) = liftSrgb (Srgb.as_non_linear s) := by
  have e : ∀ x : ℝ, Flt.pow (Flt.max (some x : PR) (Flt.lit 0x0000000000000000 0 1)) ((Flt.lit 0x3FF0000000000000 1 1) / (Flt.lit 0x400199999999999A 11 5)) =
      some (Flt.pow (Flt.max x (Flt.lit 0x0000000000000000 0 1)) ((Flt.lit 0x3FF0000000000000 1 1) / (Flt.lit 0x400199999999999A 11 5))) := by
    intro x
    rw [FltPR.lit_eq, FltPR.lit_eq, FltPR.lit_eq, FltPR.max_some, FltPR.div_some _ _ (by norm_num),
      FltPR.pow_nonneg _ _ (le_max_of_le_right (by norm_num)) (by norm_num)]
    rfl
  simp only [Srgb.as_non_linear, liftSrgb, e]

theorem oklab_from_srgb (s : Srgb ℝ) : OkLab.from_Srgb (liftSrgb s) = liftOkLab (OkLab.from_Srgb s) := by
  unfold OkLab.from_Srgb
  rw [as_linear_bridge]
  generalize Srgb.as_linear s = t
  simp [liftSrgb, liftOkLab, C.OKSR, C.OKSG, C.OKSB, C.OKL, C.OKA, C.OKB]

theorem oklab_from_xyz (p : Xyz ℝ) : OkLab.from_Xyz (liftXyz p) = liftOkLab (OkLab.from_Xyz p) := by
  unfold OkLab.from_Xyz
  rw [srgb_from_xyz, oklab_from_srgb]

theorem oklch_from_oklab (q : OkLab ℝ) : OkLch.from_OkLab (liftOkLab q) = liftOkLch (OkLch.from_OkLab q) := by
  simp only [OkLch.from_OkLab, liftOkLab, liftOkLch, chroma_bridge, FltPR.atan2_some]
  rfl

theorem oklch_from_xyz (p : Xyz ℝ) : OkLch.from_Xyz (liftXyz p) = liftOkLch (OkLch.from_Xyz p) := by
  unfold OkLch.from_Xyz
  rw [oklab_from_xyz, oklch_from_oklab]

/-- `Rec2100.from_Xyz` is defined when the three BT.2020 linear components are nonnegative
(hypotheses stated with the generated matrix rows) -/
theorem rec2100_from_xyz (p : Xyz ℝ)
    (hr : 0 ≤ p.x * (C.rec2020_XR : ℝ × ℝ × ℝ).1 + p.y * (C.rec2020_XR : ℝ × ℝ × ℝ).2.1 + p.z * (C.rec2020_XR : ℝ × ℝ × ℝ).2.2)
    (hg : 0 ≤ p.x * (C.XG : ℝ × ℝ × ℝ).1 + p.y * (C.XG : ℝ × ℝ × ℝ).2.1 + p.z * (C.XG : ℝ × ℝ × ℝ).2.2)
    (hb : 0 ≤ p.x * (C.XB : ℝ × ℝ × ℝ).1 + p.y * (C.XB : ℝ × ℝ × ℝ).2.1 + p.z * (C.XB : ℝ × ℝ × ℝ).2.2) :
    Rec2100.from_Xyz (liftXyz p) = liftRec2100 (Rec2100.from_Xyz p) := by
  have er : (some p.x : PR) * (C.rec2020_XR : PR × PR × PR).1 + some p.y * (C.rec2020_XR : PR × PR × PR).2.1 + some p.z * (C.rec2020_XR : PR × PR × PR).2.2
      = some (p.x * (C.rec2020_XR : ℝ × ℝ × ℝ).1 + p.y * (C.rec2020_XR : ℝ × ℝ × ℝ).2.1 + p.z * (C.rec2020_XR : ℝ × ℝ × ℝ).2.2) := by
    simp only [C.rec2020_XR, FltPR.lit_eq, FltPR.neg_some, FltPR.mul_some, FltPR.add_some, FltReal.lit_eq]
  have eg : (some p.x : PR) * (C.XG : PR × PR × PR).1 + some p.y * (C.XG : PR × PR × PR).2.1 + some p.z * (C.XG : PR × PR × PR).2.2
      = some (p.x * (C.XG : ℝ × ℝ × ℝ).1 + p.y * (C.XG : ℝ × ℝ × ℝ).2.1 + p.z * (C.XG : ℝ × ℝ × ℝ).2.2) := by
    simp only [C.XG, FltPR.lit_eq, FltPR.neg_some, FltPR.mul_some, FltPR.add_some, FltReal.lit_eq]
  have eb : (some p.x : PR) * (C.XB : PR × PR × PR).1 + some p.y * (C.XB : PR × PR × PR).2.1 + some p.z * (C.XB : PR × PR × PR).2.2
      = some (p.x * (C.XB : ℝ × ℝ × ℝ).1 + p.y * (C.XB : ℝ × ℝ × ℝ).2.1 + p.z * (C.XB : ℝ × ℝ × ℝ).2.2) := by
    simp only [C.XB, FltPR.lit_eq, FltPR.neg_some, FltPR.mul_some, FltPR.add_some, FltReal.lit_eq]
  simp only [Rec2100.from_Xyz, liftXyz, liftRec2100, er, eg, eb, pq_eotf_nonneg _ hr, pq_eotf_nonneg _ hg, pq_eotf_nonneg _ hb]

/-- the BT.2020 linear components of the D65 XYZ of a colour are nonnegative: the product of the generated
matrices `(rec2020_XR; XG; XB) · (X65; Y65; Z65)` has nonnegative entries (sRGB lies inside the BT.2020 gamut) -/
theorem rec2100_lin_nonneg (c : Rgb) :
    0 ≤ (Xyz.from_rgb c XyzKind.D65 : Xyz ℝ).x * (C.rec2020_XR : ℝ × ℝ × ℝ).1 + (Xyz.from_rgb c XyzKind.D65 : Xyz ℝ).y * (C.rec2020_XR : ℝ × ℝ × ℝ).2.1 + (Xyz.from_rgb c XyzKind.D65 : Xyz ℝ).z * (C.rec2020_XR : ℝ × ℝ × ℝ).2.2 ∧
    0 ≤ (Xyz.from_rgb c XyzKind.D65 : Xyz ℝ).x * (C.XG : ℝ × ℝ × ℝ).1 + (Xyz.from_rgb c XyzKind.D65 : Xyz ℝ).y * (C.XG : ℝ × ℝ × ℝ).2.1 + (Xyz.from_rgb c XyzKind.D65 : Xyz ℝ).z * (C.XG : ℝ × ℝ × ℝ).2.2 ∧
    0 ≤ (Xyz.from_rgb c XyzKind.D65 : Xyz ℝ).x * (C.XB : ℝ × ℝ × ℝ).1 + (Xyz.from_rgb c XyzKind.D65 : Xyz ℝ).y * (C.XB : ℝ × ℝ × ℝ).2.1 + (Xyz.from_rgb c XyzKind.D65 : Xyz ℝ).z * (C.XB : ℝ × ℝ × ℝ).2.2 := by
  have n255 : ∀ n : ℕ, (0:ℝ) ≤ (n : ℝ) / ((255:ℕ) / (1:ℕ)) := fun n => div_nonneg (Nat.cast_nonneg _) (by norm_num)
  have sr := srgb_expand_nonneg _ (n255 c.r)
  have sg := srgb_expand_nonneg _ (n255 c.g)
  have sb := srgb_expand_nonneg _ (n255 c.b)
  simp only [Xyz.from_rgb, Xyz.compute_xyz_from_matrix, Srgb.as_f64, Srgb.from_Rgb, Rgb.as_f64, FltReal.ofNat_eq, FltReal.lit_eq] at *
  generalize F64.compute_srgb_gamma_expanded ((c.r:ℝ) / ((255:ℕ) / (1:ℕ))) = r at *
  generalize F64.compute_srgb_gamma_expanded ((c.g:ℝ) / ((255:ℕ) / (1:ℕ))) = g at *
  generalize F64.compute_srgb_gamma_expanded ((c.b:ℝ) / ((255:ℕ) / (1:ℕ))) = b at *
  simp only [C.X65, C.Y65, C.Z65, C.rec2020_XR, C.XG, C.XB, FltReal.lit_eq, Nat.cast_ofNat]
  refine ⟨?_, ?_, ?_⟩ <;> linarith

end Lemmas.Defined
