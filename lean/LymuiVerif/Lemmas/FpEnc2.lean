import LymuiVerif.Lemmas.FpEnc
import LymuiVerif.Lemmas.FpGrey
import LymuiVerif.Lemmas.GreyF2
/-!
# Rounded-arithmetic (`RF M`) helpers, second part: equal channels of greys, tight encoders and decoders

Helper lemmas for `Props/C11_fp_derived.lean` and `Props/C08_fp_reverse.lean`; everything for an arbitrary
`M : FPModel`.

* `sandwich_encoder` (the sandwich behind `Lemmas.GreyF2.eq3_encoder`), `eq3_pert` (`Eq3` survives a
  perturbation `δ` of the three numbers when `2.01·δ + ρ·lo ≤ 2e-3·lo`);
* `rec2020_enc_tight`, `argb_enc_tight`: the BT.2020 / Adobe encoders in `RF M` with a perturbed argument
  away from the breakpoint / away from 0 (slope certificate `adobe_slope_small`);
* greys: `grey_lin_fp`, `greyA_lin_fp` (linear components in `RF M`, `2.7e-12`), exact zeros for black
  (`rec709_black_fp`, `rec2020_black_fp`, `argb_black_fp`), the exact-real sandwiches with lower bounds and branch gaps
  (`rec709_grey_real`, `rec2020_grey_real`, `argb_grey_real`);
* decoders with a perturbed argument: `rec709_dec_tight`, `rec2020_dec_tight`, `argb_dec_tight`, `srgb_dec_tight2`
  (`pow_dec_close2`, `inv_exp_close2`);
* reverse conversions: structure (`xyz_from_*_fp`), rows, `rev3_close`, ranges, the round trips of the forward images
  `rec709_roundtrip_fp` (`4.5e-7`), `rec2020_roundtrip_fp` (`1.41e-6`, away from the two breakpoints),
  `argb_dec_enc_fp` (`4.2e-7`), `argb_roundtrip_fp` (`3.06e-4`).
-/
namespace Lemmas.FpEnc2
open Gen FpErr Lemmas.Matrix Lemmas.XyzDispatch Lemmas.FpXyz Lemmas.CurvesD2 Lemmas.FpEnc Lemmas.GreyF2

/-! ## `Eq3` under perturbation -/

/-- the sandwich that `Lemmas.GreyF2.eq3_encoder` builds: `f` is `k·y` up to `θ₁` and `A·y^p − B` from
`θ₂` on; on `[u, w]` (one branch, `w − u ≤ ε·u`) `f` is monotone, nonnegative, and
`f w − f u ≤ ε·(1 + B/c0)·f u` -/
theorem sandwich_encoder (f : ℝ → ℝ) {k A B p c0 ε θ1 θ2 : ℝ} (hk : 0 ≤ k) (hA : 0 < A) (hB : 0 ≤ B)
    (hp0 : 0 ≤ p) (hp1 : p ≤ 1) (hε : 0 ≤ ε) (hc0 : 0 < c0) (hθ2 : 0 < θ2)
    (hlo : ∀ y, y ≤ θ1 → f y = k * y) (hhi : ∀ y, θ2 ≤ y → f y = A * y ^ p - B)
    (hlow : ∀ y, θ2 ≤ y → c0 ≤ A * y ^ p - B)
    {u w : ℝ} (hu : 0 ≤ u) (huw : u ≤ w) (hrel : w - u ≤ ε * u) (hside : w ≤ θ1 ∨ θ2 ≤ u) :
    0 ≤ f u ∧ f w - f u ≤ ε * (1 + B / c0) * f u ∧ ∀ y, u ≤ y → y ≤ w → f u ≤ f y ∧ f y ≤ f w := by
  have hBc : 0 ≤ B / c0 := div_nonneg hB hc0.le
  rcases hside with hs | hs
  · obtain ⟨_, d, n⟩ := lin_branch hk hu huw le_rfl hrel
    rw [hlo u (huw.trans hs), hlo w hs]
    refine ⟨n, d.trans ?_, fun y h1 h2 => ?_⟩
    · have : ε * (k * u) ≤ ε * (1 + B / c0) * (k * u) :=
        mul_le_mul_of_nonneg_right (by nlinarith) n
      exact this
    · rw [hlo y (h2.trans hs)]
      exact (lin_branch hk hu h1 h2 hrel).1
  · have hu' : 0 < u := lt_of_lt_of_le hθ2 hs
    obtain ⟨_, d, n⟩ := pow_branch hA hB hp0 hp1 hu' huw le_rfl hε hrel hc0 (hlow u hs)
    rw [hhi u hs, hhi w (hs.trans huw)]
    refine ⟨n, d, fun y h1 h2 => ?_⟩
    rw [hhi y (hs.trans h1)]
    exact (pow_branch hA hB hp0 hp1 hu' h1 h2 hε hrel hc0 (hlow u hs)).1

/-- three numbers in `[lo, hi]` with `hi − lo ≤ ρ·lo`, each perturbed by at most `δ`, are still equal in
the sense of `Eq3` when `2.01·δ + ρ·lo ≤ 2e-3·lo` -/
theorem eq3_pert {a b c a' b' c' lo hi ρ δ : ℝ} (ha : lo ≤ a ∧ a ≤ hi) (hb : lo ≤ b ∧ b ≤ hi)
    (hc : lo ≤ c ∧ c ≤ hi) (h : hi - lo ≤ ρ * lo) (da : |a' - a| ≤ δ) (db : |b' - b| ≤ δ)
    (dc : |c' - c| ≤ δ) (hδ : 2.01 * δ + ρ * lo ≤ 2e-3 * lo) (hlo : δ ≤ lo) : Eq3 a' b' c' := by
  obtain ⟨a1, a2⟩ := abs_le.mp da
  obtain ⟨b1, b2⟩ := abs_le.mp db
  obtain ⟨c1, c2⟩ := abs_le.mp dc
  refine eq3_of_sandwich (lo := lo - δ) (hi := hi + δ) (by linarith) ⟨by linarith [ha.1], by linarith [ha.2]⟩
    ⟨by linarith [hb.1], by linarith [hb.2]⟩ ⟨by linarith [hc.1], by linarith [hc.2]⟩ ?_
  have hδ0 : 0 ≤ δ := le_trans (abs_nonneg _) da
  linarith

/-! ## encoders in `RF M` with a perturbed argument -/
section enc
variable (M : FPModel)
open Props.C08

/-- **BT.2020 OETF in `RF M`, tight form** (argument away from the breakpoint `β = 0.0181`): `4.6·e + 1e-14` -/
theorem rec2020_enc_tight (a : RF M) (v e : ℝ) (hvv : |a.val - v| ≤ e) (he : e ≤ 1e-11)
    (hcase : v ≤ 0.01809 ∨ 0.01811 ≤ v) (hlo : -1 ≤ v) (hhi : v ≤ 1.1) :
    |(F64.compute_rec2020_gamma_correction a).val - F64.compute_rec2020_gamma_correction v| ≤ 4.6 * e + 1e-14 := by
  have he0 : 0 ≤ e := le_trans (abs_nonneg _) hvv
  obtain ⟨hv1, hv2⟩ := abs_le.mp hvv
  have l0 := lit_close M 181 10000 (B := 1) (by norm_num) (by norm_num)
  obtain ⟨l01, l02⟩ := abs_le.mp l0
  rw [rec2020_encode_is_bt2020]
  unfold oetf2020 β2020 α2020
  rcases hcase with hL | hP
  · have hc : a.val < M.rnd (((181:ℕ):ℝ) / ((10000:ℕ):ℝ)) := by
      unfold FP.eps at *; push_cast at *; linarith
    rw [if_pos (by linarith)]
    simp only [F64.compute_rec2020_gamma_correction, FltRF.lt_eq, FltRF.lit_val, hc, decide_true, if_true, FltRF.mul_val]
    have l1 := lit_close M 9 2 (B := 4.5) (by norm_num) (by norm_num)
    have bv : |v| ≤ 1.1 := by rw [abs_le]; constructor <;> linarith
    have m1 := mul_close M hvv l1 bv (By := 4.5) (by rw [abs_of_nonneg (by positivity)]; norm_num) (by norm_num)
    have e' : 4.5 * v = v * (((9:ℕ):ℝ) / ((2:ℕ):ℝ)) := by norm_num; ring
    rw [e']
    refine m1.trans ?_
    unfold FP.eps
    nlinarith
  · have hc : ¬ a.val < M.rnd (((181:ℕ):ℝ) / ((10000:ℕ):ℝ)) := by
      rw [not_lt]; unfold FP.eps at *; push_cast at *; linarith
    rw [if_neg (by linarith)]
    simp only [F64.compute_rec2020_gamma_correction, FltRF.lt_eq, FltRF.lit_val, hc, decide_false, if_false,
      FltRF.mul_val, FltRF.sub_val, FltRF.pow_val, Bool.false_eq_true]
    rw [lit_int M 1 (by norm_num)]
    have ip := lit_close M 9 20 (B := 3) (by norm_num) (by norm_num)
    have ep : (0.45:ℝ) = ((9:ℕ):ℝ) / ((20:ℕ):ℝ) := by norm_num
    rw [ep]
    have hs := bt2020_slope18
    generalize hp : ((9:ℕ):ℝ) / ((20:ℕ):ℝ) = p at *
    have hp0 : 0.4 ≤ p := by rw [← hp]; norm_num
    have hp1 : p ≤ 0.5 := by rw [← hp]; norm_num
    have pw := pow_enc_lip M (b := a.val) (x := v) (x0 := 0.018) (K := 4.11) (e := e) (by norm_num)
      (by linarith) (by linarith) (by linarith) hvv hp0 hp1 ip hs
    have l2 := lit_close M 10993 10000 (B := 1.0993) (by norm_num) (by norm_num)
    have bp0 : 0 ≤ v ^ p := Real.rpow_nonneg (by linarith) p
    have bp : v ^ p ≤ 2 := by
      calc v ^ p ≤ (2:ℝ) ^ p := Real.rpow_le_rpow (by linarith) (by linarith) (by linarith)
        _ ≤ (2:ℝ) ^ (1:ℝ) := Real.rpow_le_rpow_of_exponent_le (by norm_num) (by linarith)
        _ = 2 := Real.rpow_one 2
    have bp' : |v ^ p| ≤ 2 := by rw [abs_of_nonneg bp0]; exact bp
    have m1 := mul_close M l2 pw (Bx := 1.0993) (by rw [abs_of_nonneg (by positivity)]; norm_num) bp' (by norm_num)
    have one0 : |((1:ℕ):ℝ) - ((1:ℕ):ℝ)| ≤ 0 := by simp
    have bs : |((10993:ℕ):ℝ) / ((10000:ℕ):ℝ) - ((1:ℕ):ℝ)| ≤ 1 := by norm_num [abs_le]
    have s0 := sub_close M l2 one0 bs (by norm_num)
    have bm : |((10993:ℕ):ℝ) / ((10000:ℕ):ℝ) * v ^ p - (((10993:ℕ):ℝ) / ((10000:ℕ):ℝ) - ((1:ℕ):ℝ))| ≤ 3 := by
      rw [abs_le]; push_cast; constructor <;> nlinarith
    have s1 := sub_close M m1 s0 bm (by norm_num)
    have e' : 1.0993 * v ^ p - (1.0993 - 1) =
        ((10993:ℕ):ℝ) / ((10000:ℕ):ℝ) * v ^ p - (((10993:ℕ):ℝ) / ((10000:ℕ):ℝ) - ((1:ℕ):ℝ)) := by norm_num
    rw [e']
    refine s1.trans ?_
    unfold FP.eps
    nlinarith

/-- the slope of `x^(256/563)` at `5.9e-8`, through the cruder exponent `-5/9` -/
theorem adobe_slope_small : (1:ℝ) / (((563:ℕ):ℝ)/((256:ℕ):ℝ)) * (5.9e-8:ℝ) ^ ((1:ℝ) / (((563:ℕ):ℝ)/((256:ℕ):ℝ)) - 1) ≤ 4730 := by
  have h1 : (5.9e-8:ℝ) ^ ((1:ℝ) / (((563:ℕ):ℝ)/((256:ℕ):ℝ)) - 1) ≤ (5.9e-8:ℝ) ^ (-(((5:ℕ):ℝ) / ((9:ℕ):ℝ))) :=
    Real.rpow_le_rpow_of_exponent_ge (by norm_num) (by norm_num) (by norm_num)
  have h2 : (1 / 10400 : ℝ) ≤ (5.9e-8:ℝ) ^ (((5:ℕ):ℝ) / ((9:ℕ):ℝ)) :=
    le_rpow_div 5 9 (by norm_num) (by norm_num) (by norm_num) (by norm_num)
  have h3 : (5.9e-8:ℝ) ^ (-(((5:ℕ):ℝ) / ((9:ℕ):ℝ))) ≤ 10400 := by
    rw [Real.rpow_neg (by norm_num), inv_le_comm₀ (Real.rpow_pos_of_pos (by norm_num) _) (by norm_num)]
    norm_num at h2 ⊢; exact h2
  have : (1:ℝ) / (((563:ℕ):ℝ)/((256:ℕ):ℝ)) ≤ 0.4548 := by norm_num
  have h0 : (0:ℝ) ≤ (5.9e-8:ℝ) ^ ((1:ℝ) / (((563:ℕ):ℝ)/((256:ℕ):ℝ)) - 1) := Real.rpow_nonneg (by norm_num) _
  nlinarith

/-- **Adobe encoder in `RF M`, tight form, away from 0** (`v ≥ 5.95e-8`; the byte level 1 decodes to at least
`6e-8`): `4730·e + 5e-15` -/
theorem argb_enc_tight (a : RF M) (v e : ℝ) (hvv : |a.val - v| ≤ e) (he : e ≤ 1e-11)
    (hlo : 5.95e-8 ≤ v) (hhi : v ≤ 1.1) :
    |(F64.compute_argb_gamma_expanded a).val - encAdobe v| ≤ 4730 * e + 5e-15 := by
  obtain ⟨hv1, hv2⟩ := abs_le.mp hvv
  have z : M.rnd (((0:ℕ):ℝ) / ((1:ℕ):ℝ)) = 0 := by
    have := lit_int M 0 (by norm_num); simpa using this
  have hc : ¬ a.val ≤ 0 := by rw [not_le]; linarith
  have ip := inv_exp_close M 563 256 (by norm_num) (by norm_num)
  unfold encAdobe
  have hgam : (1:ℝ) / adobeGamma = 1 / (((563:ℕ):ℝ)/((256:ℕ):ℝ)) := by
    unfold adobeGamma; norm_num
  rw [hgam]
  simp only [F64.compute_argb_gamma_expanded, FltRF.le_eq, FltRF.lit_val, z, hc, decide_false, if_false,
    FltRF.pow_val, FltRF.div_val, Bool.false_eq_true]
  have hs := adobe_slope_small
  generalize hp : (1:ℝ) / (((563:ℕ):ℝ)/((256:ℕ):ℝ)) = p at *
  have hp0 : 0.4 ≤ p := by rw [← hp]; norm_num
  have hp1 : p ≤ 0.5 := by rw [← hp]; norm_num
  exact pow_enc_lip M (b := a.val) (x := v) (x0 := 5.9e-8) (K := 4730) (e := e) (by norm_num)
    (by linarith) (by linarith) (by linarith) hvv hp0 hp1 ip hs

end enc

/-! ## greys: linear components in `RF M`, exact zeros for black, sandwiches in the exact-real model -/
section grey
variable (M : FPModel)
open Props.C08

/-- the real XYZ triple of the grey `(v,v,v)`, D65 profile -/
theorem grey_vec (v : ℕ) (hv : v ≤ 255) :
    mulVec (fwd .D65) (lin .D65 ⟨v, v, v⟩) =
      (95047 / 100000 * decSrgb ((v:ℝ)/255), 10000001 / 10000000 * decSrgb ((v:ℝ)/255),
        108883 / 100000 * decSrgb ((v:ℝ)/255)) := by
  have h := (grey_level v hv).1
  rw [from_rgb_eq] at h
  have hx := congrArg Xyz.x h
  have hy := congrArg Xyz.y h
  have hz := congrArg Xyz.z h
  simp only [toXyz, Props.C11_cie.greyXyz] at hx hy hz
  exact Prod.ext hx (Prod.ext hy hz)

/-- a row applied to the computed XYZ of a grey (D65) against the same row applied to the real XYZ: `2.7e-12` -/
theorem grey_lin_fp {r : RF M × RF M × RF M} {c : ℝ × ℝ × ℝ} (hrow : RowOK M r c) (v : ℕ) (hv : v ≤ 255) :
    |(dotF' M (xyzF M .D65 ⟨v, v, v⟩) r).val -
      Props.C08.dot c (95047 / 100000 * decSrgb ((v:ℝ)/255)) (10000001 / 10000000 * decSrgb ((v:ℝ)/255))
        (108883 / 100000 * decSrgb ((v:ℝ)/255))| ≤ 2.7e-12 := by
  obtain ⟨f1, f2, f3⟩ := xyz_fp_close M .D65 ⟨v, v, v⟩ hv hv hv
  have b1 := xyz_range .D65 ⟨v, v, v⟩ hv hv hv 0
  have b2 := xyz_range .D65 ⟨v, v, v⟩ hv hv hv 1
  have b3 := xyz_range .D65 ⟨v, v, v⟩ hv hv hv 2
  simp only [V3.get] at b1 b2 b3
  have q := dot3_close' M hrow (v := xyzF M .D65 ⟨v, v, v⟩) (x := mulVec (fwd .D65) (lin .D65 ⟨v, v, v⟩))
    f1 f2 f3 b1 b2 b3 (by norm_num)
  rw [dot_eq_c08, grey_vec v hv] at q
  exact q.trans (by norm_num)

/-- the same for the Adobe profile: the real XYZ is `M_A·(t,t,t)`, `t = decAdobe(v/255)` -/
theorem greyA_lin_fp {r : RF M × RF M × RF M} {c : ℝ × ℝ × ℝ} (hrow : RowOK M r c) (v : ℕ) (hv : v ≤ 255) :
    |(dotF' M (xyzF M .Adobe ⟨v, v, v⟩) r).val -
      Props.C08.dot c (Props.C08.dot C.AX (decAdobe ((v:ℝ)/255)) (decAdobe ((v:ℝ)/255)) (decAdobe ((v:ℝ)/255)))
        (Props.C08.dot C.AY (decAdobe ((v:ℝ)/255)) (decAdobe ((v:ℝ)/255)) (decAdobe ((v:ℝ)/255)))
        (Props.C08.dot C.AZ (decAdobe ((v:ℝ)/255)) (decAdobe ((v:ℝ)/255)) (decAdobe ((v:ℝ)/255)))| ≤ 2.7e-12 := by
  obtain ⟨f1, f2, f3⟩ := xyz_fp_close M .Adobe ⟨v, v, v⟩ hv hv hv
  have b1 := xyz_range .Adobe ⟨v, v, v⟩ hv hv hv 0
  have b2 := xyz_range .Adobe ⟨v, v, v⟩ hv hv hv 1
  have b3 := xyz_range .Adobe ⟨v, v, v⟩ hv hv hv 2
  simp only [V3.get] at b1 b2 b3
  have q := dot3_close' M hrow (v := xyzF M .Adobe ⟨v, v, v⟩) (x := mulVec (fwd .Adobe) (lin .Adobe ⟨v, v, v⟩))
    f1 f2 f3 b1 b2 b3 (by norm_num)
  rw [dot_eq_c08, lin_adobe] at q
  simp only [mulVec, fwd, dot_eq_c08] at q
  exact q.trans (by norm_num)

/-- level `≥ 1` decodes (sRGB) to at least `3e-4` -/
theorem grey_t_ge (v : ℕ) (h1 : 1 ≤ v) : 3e-4 ≤ decSrgb ((v:ℝ)/255) := by
  have h : dec .D65 (((1:ℕ):ℝ) / 255) ≤ dec .D65 ((v:ℝ) / 255) := by
    rcases Nat.lt_or_ge 1 v with h | h
    · exact (dec_level_lt .D65 h).le
    · have : v = 1 := by omega
      rw [this]
  rw [← srgb_decode_is_iec]
  refine le_trans ?_ h
  simp only [dec]; rw [Lemmas.Curves.srgb_dec_lin (by norm_num)]; norm_num

/-! ### black: exact zeros -/

theorem dotF'_zero (m v : RF M × RF M × RF M) (h1 : v.1.val = 0) (h2 : v.2.1.val = 0) (h3 : v.2.2.val = 0) :
    (dotF' M v m).val = 0 := by
  rw [dotF'_val]; exact dotF_zero M m v h1 h2 h3

theorem rec709_enc_zero (a : RF M) (ha : a.val = 0) : (F64.compute_rec709_gamma_correction a).val = 0 := by
  have l0 := lit_close M 9 500 (B := 1) (by norm_num) (by norm_num)
  have hc : a.val < M.rnd (((9:ℕ):ℝ) / ((500:ℕ):ℝ)) := by
    have := (abs_le.mp l0).1
    rw [ha]; unfold FP.eps at this; push_cast at this ⊢; linarith
  simp only [F64.compute_rec709_gamma_correction, FltRF.lt_eq, FltRF.lit_val, hc, decide_true, if_true, FltRF.mul_val]
  rw [ha, zero_mul, rnd_zero]

theorem rec2020_enc_zero (a : RF M) (ha : a.val = 0) : (F64.compute_rec2020_gamma_correction a).val = 0 := by
  have l0 := lit_close M 181 10000 (B := 1) (by norm_num) (by norm_num)
  have hc : a.val < M.rnd (((181:ℕ):ℝ) / ((10000:ℕ):ℝ)) := by
    have := (abs_le.mp l0).1
    rw [ha]; unfold FP.eps at this; push_cast at this ⊢; linarith
  simp only [F64.compute_rec2020_gamma_correction, FltRF.lt_eq, FltRF.lit_val, hc, decide_true, if_true, FltRF.mul_val]
  rw [ha, zero_mul, rnd_zero]

theorem argb_enc_zero (a : RF M) (ha : a.val = 0) : (F64.compute_argb_gamma_expanded a).val = 0 := by
  have z : M.rnd (((0:ℕ):ℝ) / ((1:ℕ):ℝ)) = 0 := by
    have := lit_int M 0 (by norm_num); simpa using this
  have hc : a.val ≤ 0 := ha.le
  simp only [F64.compute_argb_gamma_expanded, FltRF.le_eq, FltRF.lit_val, z, hc, decide_true, if_true]

/-- Rec.709, Rec.2020 (D65 XYZ) and Adobe RGB (Adobe XYZ) of black are `(0,0,0)` exactly, in every model -/
theorem rec709_black_fp :
    (Rec709.from_Xyz (Xyz.from_rgb (α := RF M) ⟨0, 0, 0⟩ .D65)).r.val = 0 ∧
    (Rec709.from_Xyz (Xyz.from_rgb (α := RF M) ⟨0, 0, 0⟩ .D65)).g.val = 0 ∧
    (Rec709.from_Xyz (Xyz.from_rgb (α := RF M) ⟨0, 0, 0⟩ .D65)).b.val = 0 := by
  obtain ⟨x1, x2, x3⟩ := xyz_black_fp M .D65
  rw [from_rgb_eq_fp', rec709_from_xyz_fp]
  dsimp only [rlinF]
  exact ⟨rec709_enc_zero M _ (dotF'_zero M _ _ x1 x2 x3), rec709_enc_zero M _ (dotF'_zero M _ _ x1 x2 x3),
    rec709_enc_zero M _ (dotF'_zero M _ _ x1 x2 x3)⟩

theorem rec2020_black_fp :
    (Rec2020.from_Xyz (Xyz.from_rgb (α := RF M) ⟨0, 0, 0⟩ .D65)).r.val = 0 ∧
    (Rec2020.from_Xyz (Xyz.from_rgb (α := RF M) ⟨0, 0, 0⟩ .D65)).g.val = 0 ∧
    (Rec2020.from_Xyz (Xyz.from_rgb (α := RF M) ⟨0, 0, 0⟩ .D65)).b.val = 0 := by
  obtain ⟨x1, x2, x3⟩ := xyz_black_fp M .D65
  rw [from_rgb_eq_fp', rec2020_from_xyz_fp]
  dsimp only
  exact ⟨rec2020_enc_zero M _ (dotF'_zero M _ _ x1 x2 x3), rec2020_enc_zero M _ (dotF'_zero M _ _ x1 x2 x3),
    rec2020_enc_zero M _ (dotF'_zero M _ _ x1 x2 x3)⟩

theorem argb_black_fp :
    (Argb.from_Xyz (Xyz.from_rgb (α := RF M) ⟨0, 0, 0⟩ .Adobe)).r.val = 0 ∧
    (Argb.from_Xyz (Xyz.from_rgb (α := RF M) ⟨0, 0, 0⟩ .Adobe)).g.val = 0 ∧
    (Argb.from_Xyz (Xyz.from_rgb (α := RF M) ⟨0, 0, 0⟩ .Adobe)).b.val = 0 := by
  obtain ⟨x1, x2, x3⟩ := xyz_black_fp M .Adobe
  rw [from_rgb_eq_fp', argb_from_xyz_fp]
  dsimp only
  exact ⟨argb_enc_zero M _ (dotF'_zero M _ _ x1 x2 x3), argb_enc_zero M _ (dotF'_zero M _ _ x1 x2 x3),
    argb_enc_zero M _ (dotF'_zero M _ _ x1 x2 x3)⟩

end grey

/-! ## greys: the sandwiches of the exact-real model, with lower bounds and branch gaps -/
section greyreal
open Props.C08

/-- real XYZ of the grey `v` (D65): `t` times the row sums of the forward table -/
noncomputable abbrev gx (v : ℕ) : ℝ := 95047 / 100000 * decSrgb ((v:ℝ)/255)
noncomputable abbrev gy (v : ℕ) : ℝ := 10000001 / 10000000 * decSrgb ((v:ℝ)/255)
noncomputable abbrev gz (v : ℕ) : ℝ := 108883 / 100000 * decSrgb ((v:ℝ)/255)

/-- **Rec.709, exact-real model, grey `v ≥ 1`**: linear components `xr ≤ xb ≤ xg` on one side of the
breakpoint, encoded values sandwiched with spread `6.8e-7` relative, smallest one `≥ 1.3e-3` -/
theorem rec709_grey_real (v : ℕ) (hv : v ≤ 255) (h1 : 1 ≤ v) :
    (dot C.RY65 (gx v) (gy v) (gz v) ≤ 0.0179 ∨ 0.0181 ≤ dot C.RX65 (gx v) (gy v) (gz v)) ∧
    0 ≤ dot C.RX65 (gx v) (gy v) (gz v) ∧
    dot C.RX65 (gx v) (gy v) (gz v) ≤ dot C.RZ65 (gx v) (gy v) (gz v) ∧
    dot C.RZ65 (gx v) (gy v) (gz v) ≤ dot C.RY65 (gx v) (gy v) (gz v) ∧
    dot C.RY65 (gx v) (gy v) (gz v) ≤ 1.1 ∧
    1.3e-3 ≤ oetf709 (dot C.RX65 (gx v) (gy v) (gz v)) ∧
    oetf709 (dot C.RY65 (gx v) (gy v) (gz v)) - oetf709 (dot C.RX65 (gx v) (gy v) (gz v))
      ≤ 6.8e-7 * oetf709 (dot C.RX65 (gx v) (gy v) (gz v)) ∧
    ∀ y, dot C.RX65 (gx v) (gy v) (gz v) ≤ y → y ≤ dot C.RY65 (gx v) (gy v) (gz v) →
      oetf709 (dot C.RX65 (gx v) (gy v) (gz v)) ≤ oetf709 y ∧ oetf709 y ≤ oetf709 (dot C.RY65 (gx v) (gy v) (gz v)) := by
  obtain ⟨_, t0, t1⟩ := grey_level v hv
  obtain ⟨lo, hi⟩ := decSrgb_8bit_avoids_bt709_threshold v
  have ht := grey_t_ge v h1
  simp only [gx, gy, gz]
  generalize decSrgb ((v : ℝ) / 255) = t at *
  obtain ⟨o1, o2, rel, lb, ub⟩ := grey_args_srgb t t0
  have hside : dot C.RY65 (95047 / 100000 * t) (10000001 / 10000000 * t) (108883 / 100000 * t) ≤ 0.0179 ∨
      0.0181 ≤ dot C.RX65 (95047 / 100000 * t) (10000001 / 10000000 * t) (108883 / 100000 * t) := by
    rcases Nat.lt_or_ge v 37 with h | h
    · left; have := lo (Nat.lt_succ_iff.mp h); linarith
    · right; have := hi h; linarith
  have e1 : ∀ y, y ≤ 0.0179 → oetf709 y = 4.5 * y := by
    intro y hy; unfold oetf709; rw [if_pos (by linarith)]
  have e2 : ∀ y, 0.018 ≤ y → oetf709 y = 1.099 * y ^ (0.45 : ℝ) - 0.099 := by
    intro y hy; unfold oetf709; rw [if_neg (by linarith)]
  have e3 : ∀ y : ℝ, 0.018 ≤ y → (0.08:ℝ) ≤ 1.099 * y ^ (0.45 : ℝ) - 0.099 := by
    intro y hy
    have h0 : (0:ℝ) ≤ y := by linarith
    have : (0.164 : ℝ) ≤ y ^ (0.45 : ℝ) := by
      rw [e045]
      exact le_rpow_div 9 20 (by norm_num) h0 (by norm_num)
        (le_trans (by norm_num) (pow_le_pow_left₀ (by norm_num) hy 9))
    linarith
  obtain ⟨n, d, mono⟩ := sandwich_encoder oetf709 (k := 4.5) (A := 1.099) (B := 0.099) (p := 0.45) (c0 := 0.08)
    (ε := 3e-7) (θ1 := 0.0179) (θ2 := 0.018) (by norm_num) (by norm_num) (by norm_num)
    (by norm_num) (by norm_num) (by norm_num) (by norm_num) (by norm_num) e1 e2 e3
    (by linarith : (0:ℝ) ≤ dot C.RX65 (95047 / 100000 * t) (10000001 / 10000000 * t) (108883 / 100000 * t))
    (o1.trans o2) rel (by rcases hside with h | h; exact Or.inl h; exact Or.inr (by linarith))
  refine ⟨hside, by linarith, o1, o2, by linarith, ?_, d.trans ?_, mono⟩
  · rcases hside with h | h
    · rw [e1 _ (by linarith)]; linarith
    · rw [e2 _ (by linarith)]; have := e3 _ (by linarith : (0.018:ℝ) ≤ dot C.RX65 (95047 / 100000 * t) (10000001 / 10000000 * t) (108883 / 100000 * t)); linarith
  · exact mul_le_mul_of_nonneg_right (by norm_num) n

/-- **Rec.2020, exact-real model, grey `v ≥ 1`**: linear components `xb ≤ xg ≤ xr` on one side of `β`,
encoded values sandwiched with spread `6.8e-4` relative, smallest one `≥ 1.3e-3` -/
theorem rec2020_grey_real (v : ℕ) (hv : v ≤ 255) (h1 : 1 ≤ v) :
    (dot C.rec2020_XR (gx v) (gy v) (gz v) ≤ 0.018 ∨ 0.01811 ≤ dot C.XB (gx v) (gy v) (gz v)) ∧
    0 ≤ dot C.XB (gx v) (gy v) (gz v) ∧
    dot C.XB (gx v) (gy v) (gz v) ≤ dot C.XG (gx v) (gy v) (gz v) ∧
    dot C.XG (gx v) (gy v) (gz v) ≤ dot C.rec2020_XR (gx v) (gy v) (gz v) ∧
    dot C.rec2020_XR (gx v) (gy v) (gz v) ≤ 1.1 ∧
    1.3e-3 ≤ oetf2020 (dot C.XB (gx v) (gy v) (gz v)) ∧
    oetf2020 (dot C.rec2020_XR (gx v) (gy v) (gz v)) - oetf2020 (dot C.XB (gx v) (gy v) (gz v))
      ≤ 6.8e-4 * oetf2020 (dot C.XB (gx v) (gy v) (gz v)) ∧
    ∀ y, dot C.XB (gx v) (gy v) (gz v) ≤ y → y ≤ dot C.rec2020_XR (gx v) (gy v) (gz v) →
      oetf2020 (dot C.XB (gx v) (gy v) (gz v)) ≤ oetf2020 y ∧ oetf2020 y ≤ oetf2020 (dot C.rec2020_XR (gx v) (gy v) (gz v)) := by
  obtain ⟨_, t0, t1⟩ := grey_level v hv
  obtain ⟨lo, hi⟩ := decSrgb_8bit_avoids_bt709_threshold v
  have ht := grey_t_ge v h1
  simp only [gx, gy, gz]
  generalize decSrgb ((v : ℝ) / 255) = t at *
  obtain ⟨o1, o2, rel, lb, ub⟩ := grey_args_2020 t t0
  have hside : dot C.rec2020_XR (95047 / 100000 * t) (10000001 / 10000000 * t) (108883 / 100000 * t) ≤ 0.018 ∨
      0.01811 ≤ dot C.XB (95047 / 100000 * t) (10000001 / 10000000 * t) (108883 / 100000 * t) := by
    rcases Nat.lt_or_ge v 37 with h | h
    · left; have := lo (Nat.lt_succ_iff.mp h); linarith
    · right; have := hi h; linarith
  have e1 : ∀ y, y ≤ 0.018 → oetf2020 y = 4.5 * y := by
    intro y hy; unfold oetf2020 α2020 β2020; rw [if_pos (by linarith)]
  have e2 : ∀ y, 0.0181 ≤ y → oetf2020 y = 1.0993 * y ^ (0.45 : ℝ) - 0.0993 := by
    intro y hy; unfold oetf2020 α2020 β2020; rw [if_neg (by linarith)]; ring
  have e3 : ∀ y : ℝ, 0.0181 ≤ y → (0.08:ℝ) ≤ 1.0993 * y ^ (0.45 : ℝ) - 0.0993 := by
    intro y hy
    have h0 : (0:ℝ) ≤ y := by linarith
    have : (0.164 : ℝ) ≤ y ^ (0.45 : ℝ) := by
      rw [e045]
      exact le_rpow_div 9 20 (by norm_num) h0 (by norm_num)
        (le_trans (by norm_num) (pow_le_pow_left₀ (by norm_num) hy 9))
    linarith
  obtain ⟨n, d, mono⟩ := sandwich_encoder oetf2020 (k := 4.5) (A := 1.0993) (B := 0.0993) (p := 0.45) (c0 := 0.08)
    (ε := 3e-4) (θ1 := 0.018) (θ2 := 0.0181) (by norm_num) (by norm_num) (by norm_num)
    (by norm_num) (by norm_num) (by norm_num) (by norm_num) (by norm_num) e1 e2 e3
    (by linarith : (0:ℝ) ≤ dot C.XB (95047 / 100000 * t) (10000001 / 10000000 * t) (108883 / 100000 * t))
    (o1.trans o2) rel (by rcases hside with h | h; exact Or.inl h; exact Or.inr (by linarith))
  refine ⟨hside, by linarith, o1, o2, by linarith, ?_, d.trans ?_, mono⟩
  · rcases hside with h | h
    · rw [e1 _ (by linarith)]; linarith
    · rw [e2 _ (by linarith)]; have := e3 _ (by linarith : (0.0181:ℝ) ≤ dot C.XB (95047 / 100000 * t) (10000001 / 10000000 * t) (108883 / 100000 * t)); linarith
  · exact mul_le_mul_of_nonneg_right (by norm_num) n

/-- Adobe linear level of the grey `v` and its Adobe-profile XYZ -/
noncomputable abbrev ga (v : ℕ) : ℝ := decAdobe ((v:ℝ)/255)
noncomputable abbrev gax (v : ℕ) : ℝ := dot C.AX (ga v) (ga v) (ga v)
noncomputable abbrev gay (v : ℕ) : ℝ := dot C.AY (ga v) (ga v) (ga v)
noncomputable abbrev gaz (v : ℕ) : ℝ := dot C.AZ (ga v) (ga v) (ga v)

/-- **Adobe RGB, exact-real model, grey `v ≥ 1`** (Adobe-profile XYZ): linear components `xb ≤ xg ≤ xr`, all
`≥ 5.95e-8`, encoded values sandwiched with spread `4e-4` relative, smallest one `≥ 1.9e-3` -/
theorem argb_grey_real (v : ℕ) (hv : v ≤ 255) (h1 : 1 ≤ v) :
    5.95e-8 ≤ dot C.ZB (gax v) (gay v) (gaz v) ∧
    dot C.ZB (gax v) (gay v) (gaz v) ≤ dot C.YG (gax v) (gay v) (gaz v) ∧
    dot C.YG (gax v) (gay v) (gaz v) ≤ dot C.argb_XR (gax v) (gay v) (gaz v) ∧
    dot C.argb_XR (gax v) (gay v) (gaz v) ≤ 1.1 ∧
    1.9e-3 ≤ encAdobe (dot C.ZB (gax v) (gay v) (gaz v)) ∧
    encAdobe (dot C.argb_XR (gax v) (gay v) (gaz v)) - encAdobe (dot C.ZB (gax v) (gay v) (gaz v))
      ≤ 4e-4 * encAdobe (dot C.ZB (gax v) (gay v) (gaz v)) ∧
    ∀ y, dot C.ZB (gax v) (gay v) (gaz v) ≤ y → y ≤ dot C.argb_XR (gax v) (gay v) (gaz v) →
      encAdobe (dot C.ZB (gax v) (gay v) (gaz v)) ≤ encAdobe y ∧ encAdobe y ≤ encAdobe (dot C.argb_XR (gax v) (gay v) (gaz v)) := by
  obtain ⟨t0, t1⟩ := Lemmas.DerivedF2.decA_unit v hv
  have ht : 6e-8 ≤ decAdobe ((v:ℝ)/255) := by
    have := _root_.FpGrey.dec_level_ge .Adobe v h1
    simp only [dec] at this
    rwa [adobe_decode_is_spec _ (by positivity)] at this
  obtain ⟨_, _, fb⟩ := forward_argb ⟨v, v, v⟩ hv hv hv
  rw [argb_from_xyz_def, xyz_from_rgb_adobe_def] at fb
  dsimp only at fb
  obtain ⟨_, _, mb⟩ := argb_matrix_forward _ _ _ ⟨t0, t1⟩ ⟨t0, t1⟩ ⟨t0, t1⟩
  simp only [gax, gay, gaz, ga]
  generalize decAdobe ((v : ℝ) / 255) = t at *
  obtain ⟨o1, o2, rel, lb⟩ := grey_args_adobe t t0
  set u := dot C.ZB (dot C.AX t t t) (dot C.AY t t t) (dot C.AZ t t t) with hu
  set w := dot C.argb_XR (dot C.AX t t t) (dot C.AY t t t) (dot C.AZ t t t) with hw
  have hu0 : 5.95e-8 ≤ u := by linarith
  have hupos : 0 < u := by linarith
  have hu1 : u ≤ 1.001 := by have := (abs_le.mp mb).2; linarith
  have hp0 : (0:ℝ) ≤ 1 / adobeGamma := by unfold adobeGamma; norm_num
  have hp1 : (1:ℝ) / adobeGamma ≤ 1 := by unfold adobeGamma; norm_num
  have hlo : 1.9e-3 ≤ encAdobe u := by
    rw [max_eq_left hupos.le] at fb
    have h1n : (1:ℝ) ≤ v := by exact_mod_cast h1
    have : (1:ℝ)/255 ≤ (v:ℝ)/255 := div_le_div_of_nonneg_right h1n (by norm_num)
    have := (abs_le.mp fb).1
    norm_num at *; linarith
  have hrel : encAdobe w - encAdobe u ≤ 4e-4 * encAdobe u := by
    have habs : |w - u| ≤ 4e-4 * u := by rw [abs_of_nonneg (by linarith)]; exact rel
    have := rpow_rel_perturb hp0 hp1 hupos (by linarith : 0 < w) habs
    unfold encAdobe
    exact le_trans (le_abs_self _) this
  refine ⟨hu0, o1, o2, by linarith, hlo, hrel, fun y h1 h2 => ?_⟩
  unfold encAdobe
  exact ⟨Real.rpow_le_rpow hupos.le h1 hp0, Real.rpow_le_rpow (by linarith) h2 hp0⟩

end greyreal

/-! ## decoders in `RF M` with a perturbed argument -/
section dec
variable (M : FPModel)
open Props.C08

/-- `FpEnc.pow_dec_close'` with a coarser exponent (`6·eps`, the rounded reciprocal `1/0.45`) and a larger
admissible base error -/
theorem pow_dec_close2 {b x y' y e : ℝ} (hb0 : 0 < b) (hx0 : 0 < x) (hx1 : x ≤ 1.001)
    (hbx : |b - x| ≤ e) (he : e ≤ 1e-6) (hy : 1 ≤ y) (hy3 : y ≤ 2.5) (hyy : |y' - y| ≤ FP.eps * 6) :
    |M.pow b y' - x ^ y| ≤ 2.6 * e + 8e-15 := by
  have he0 : 0 ≤ e := le_trans (abs_nonneg _) hbx
  obtain ⟨hbx1, hbx2⟩ := abs_le.mp hbx
  obtain ⟨hy1, hy2⟩ := abs_le.mp hyy
  have hb1 : b ≤ 1.002 := by linarith
  have hy'0 : 0.9 ≤ y' := by unfold FP.eps at *; linarith
  have hy'3 : y' ≤ 3 := by unfold FP.eps at *; linarith
  have hB : b ^ y' ≤ 1.01 := by
    calc b ^ y' ≤ (1.002:ℝ) ^ y' := Real.rpow_le_rpow hb0.le hb1 (by linarith)
      _ ≤ (1.002:ℝ) ^ ((3:ℕ):ℝ) := Real.rpow_le_rpow_of_exponent_le (by norm_num) (by push_cast; linarith)
      _ = (1.002:ℝ) ^ (3:ℕ) := Real.rpow_natCast _ _
      _ ≤ 1.01 := by norm_num
  have p1 := pow_close M hb0.le hB (by norm_num)
  have p2 := rpow_exp_close (x := b) (q := y') (q' := y) (p := 0.9) hb0 (by linarith) (by norm_num) hy'0
    (by linarith) hy'3 (by linarith) (by unfold FP.eps at *; exact hyy.trans (by norm_num))
  have p3 := rpow_lipschitz (a := b) (b := x) (p := y) (B := 1.002) hb0 hx0 hb1 (by linarith) (by norm_num) hy
    (by linarith)
  have p2' : |b ^ y' - b ^ y| ≤ FP.eps * 6 * (1 / 0.9 + 8) :=
    p2.trans (mul_le_mul_of_nonneg_right hyy (by norm_num))
  have p3' : |b ^ y - x ^ y| ≤ 2.5 * 1.002 ^ 2 * e := by
    refine p3.trans ?_
    have : y * 1.002 ^ 2 ≤ 2.5 * 1.002 ^ 2 := mul_le_mul_of_nonneg_right hy3 (by norm_num)
    exact mul_le_mul this hbx (abs_nonneg _) (by norm_num)
  refine (tri3 (M.pow b y') (b ^ y') (b ^ y) (x ^ y)).trans ?_
  unfold FP.eps at *
  norm_num at p1 p2' p3' ⊢
  linarith

/-- the rounded reciprocal exponent `1/(n/d)` for `n/d ∈ [0.4, 0.5]` (the decoders of BT.709 / BT.2020) -/
theorem inv_exp_close2 (n d : ℕ) (h2 : 0.4 ≤ (n:ℝ)/d) (h3 : (n:ℝ)/d ≤ 0.5) :
    |M.rnd (M.rnd (((1:ℕ):ℝ) / ((1:ℕ):ℝ)) / M.rnd ((n:ℝ)/d)) - 1 / ((n:ℝ)/d)| ≤ FP.eps * 6 := by
  rw [lit_int M 1 (by norm_num)]
  have l3 := lit_close M n d (B := 0.5) h3 (by norm_num)
  have a0 : |((1:ℕ):ℝ) - 1| ≤ 0 := by simp
  have hy : (0:ℝ) ≤ (n:ℝ)/d := by linarith
  have d1 := div_close M a0 l3 (x := 1) (Bx := 1) (m := 0.4) (Bq := 2.5) (by simp)
    (by rw [abs_of_nonneg hy]; exact h2) (by norm_num [FP.eps])
    (by rw [abs_of_nonneg (by positivity)]; rw [div_le_iff₀ (by linarith)]; linarith) (by norm_num)
  refine d1.trans ?_
  norm_num [FP.eps]

/-- **BT.709 decoder in `RF M`, perturbed argument away from the breakpoint `0.081`**: `2.7·e + 2e-14` -/
theorem rec709_dec_tight (t : RF M) (v e : ℝ) (htv : |t.val - v| ≤ e) (he : e ≤ 1e-10)
    (hcase : v ≤ 0.080999 ∨ 0.081001 ≤ v) (hlo : -0.01 ≤ v) (hhi : v ≤ 1.001) :
    |(F64.compute_rec709_gamma_expanded t).val - invOetf709 v| ≤ 2.7 * e + 2e-14 := by
  have he0 : 0 ≤ e := le_trans (abs_nonneg _) htv
  obtain ⟨ht1, ht2⟩ := abs_le.mp htv
  have l0 := lit_close M 81 1000 (B := 1) (by norm_num) (by norm_num)
  obtain ⟨l01, l02⟩ := abs_le.mp l0
  have bv : |v| ≤ 1.001 := by rw [abs_le]; constructor <;> linarith
  unfold invOetf709
  rcases hcase with hL | hP
  · have hc : t.val < M.rnd (((81:ℕ):ℝ) / ((1000:ℕ):ℝ)) := by
      unfold FP.eps at *; push_cast at *; linarith
    rw [if_pos (by linarith)]
    simp only [F64.compute_rec709_gamma_expanded, FltRF.lt_eq, FltRF.lit_val, hc, decide_true, if_true, FltRF.div_val]
    have l1 := lit_close M 9 2 (B := 4.5) (by norm_num) (by norm_num)
    have bq : |v / (((9:ℕ):ℝ) / ((2:ℕ):ℝ))| ≤ 1 := by
      rw [abs_div, abs_of_nonneg (by positivity : (0:ℝ) ≤ ((9:ℕ):ℝ)/((2:ℕ):ℝ)), div_le_one (by positivity)]
      push_cast; linarith
    have d1 := div_close M htv l1 bv (m := 4) (Bq := 1) (by norm_num) (by norm_num [FP.eps]) bq (by norm_num)
    have e' : v / 4.5 = v / (((9:ℕ):ℝ) / ((2:ℕ):ℝ)) := by norm_num
    rw [e']
    refine le_trans d1 ?_
    have : (e * 4 + FP.eps * 4.5 * 1.001) / (4 * (4 - FP.eps * 4.5)) ≤ 0.26 * e + 2e-16 := by
      rw [div_le_iff₀ (by norm_num [FP.eps])]; unfold FP.eps; nlinarith
    unfold FP.eps at *
    nlinarith
  · have hc : ¬ t.val < M.rnd (((81:ℕ):ℝ) / ((1000:ℕ):ℝ)) := by
      rw [not_lt]; unfold FP.eps at *; push_cast at *; linarith
    rw [if_neg (by linarith)]
    simp only [F64.compute_rec709_gamma_expanded, FltRF.lt_eq, FltRF.lit_val, hc, decide_false, if_false, FltRF.div_val,
      FltRF.add_val, FltRF.pow_val, Bool.false_eq_true]
    have l1 := lit_close M 99 1000 (B := 1) (by norm_num) (by norm_num)
    have l2 := lit_close M 1099 1000 (B := 2) (by norm_num) (by norm_num)
    have l3 := inv_exp_close2 M 9 20 (by norm_num) (by norm_num)
    have bs : |v + ((99:ℕ):ℝ)/((1000:ℕ):ℝ)| ≤ 2 := by
      rw [abs_of_nonneg (by push_cast; linarith)]; push_cast; linarith
    have a1 := add_close M htv l1 bs (by norm_num)
    have bq : |(v + ((99:ℕ):ℝ)/((1000:ℕ):ℝ)) / (((1099:ℕ):ℝ)/((1000:ℕ):ℝ))| ≤ 1.001 := by
      rw [abs_div, abs_of_nonneg (by push_cast; linarith : (0:ℝ) ≤ v + ((99:ℕ):ℝ)/((1000:ℕ):ℝ)),
        abs_of_nonneg (by positivity : (0:ℝ) ≤ ((1099:ℕ):ℝ)/((1000:ℕ):ℝ)), div_le_iff₀ (by positivity)]
      push_cast; linarith
    have d1 := div_close M a1 l2 bs (m := 1) (Bq := 1.001) (by rw [abs_of_nonneg (by positivity)]; norm_num)
      (by norm_num [FP.eps]) bq (by norm_num)
    have ex : (v + 0.099) / 1.099 = (v + ((99:ℕ):ℝ)/((1000:ℕ):ℝ)) / (((1099:ℕ):ℝ)/((1000:ℕ):ℝ)) := by norm_num
    have ey : (1:ℝ) / 0.45 = 1 / (((9:ℕ):ℝ)/((20:ℕ):ℝ)) := by norm_num
    rw [ex, ey]
    set X : ℝ := (v + ((99:ℕ):ℝ)/((1000:ℕ):ℝ)) / (((1099:ℕ):ℝ)/((1000:ℕ):ℝ)) with hX
    have hXlo : 0.16 ≤ X := by
      rw [hX, le_div_iff₀ (by positivity)]; push_cast; linarith
    have hXhi : X ≤ 1.001 := by
      rw [hX, div_le_iff₀ (by positivity)]; push_cast; linarith
    set e1 : ℝ := (e + FP.eps * 1 + FP.eps * (2 + (e + FP.eps * 1))) with he1
    set e2 : ℝ := (e1 * 1 + FP.eps * 2 * 2) / (1 * (1 - FP.eps * 2)) + FP.eps * (1.001 + (e1 * 1 + FP.eps * 2 * 2) / (1 * (1 - FP.eps * 2))) with he2
    have he2b : e2 ≤ 1.0001 * e + 1.3e-15 := by
      have h1 : (e1 * 1 + FP.eps * 2 * 2) / (1 * (1 - FP.eps * 2)) ≤ 1.00001 * e + 1.1e-15 := by
        rw [div_le_iff₀ (by norm_num [FP.eps])]; rw [he1]; unfold FP.eps; nlinarith
      rw [he2]; unfold FP.eps at *; nlinarith
    have hb0 : 0 < M.rnd (M.rnd (t.val + M.rnd (((99:ℕ):ℝ) / ((1000:ℕ):ℝ))) / M.rnd (((1099:ℕ):ℝ) / ((1000:ℕ):ℝ))) := by
      have := (abs_le.mp d1).1; linarith
    have := pow_dec_close2 M hb0 (by linarith) hXhi d1 (by linarith) (y := 1 / (((9:ℕ):ℝ)/((20:ℕ):ℝ))) (by norm_num) (by norm_num) l3
    refine this.trans ?_
    nlinarith

/-- **BT.2020 decoder of the code (switch at `0.081`) in `RF M`, perturbed argument away from `0.081`**:
`2.7·e + 2e-14` -/
theorem rec2020_dec_tight (t : RF M) (v e : ℝ) (htv : |t.val - v| ≤ e) (he : e ≤ 1e-10)
    (hcase : v ≤ 0.080999 ∨ 0.081001 ≤ v) (hlo : -0.01 ≤ v) (hhi : v ≤ 1.001) :
    |(F64.compute_rec2020_gamma_expanded t).val - invOetf2020With 0.081 v| ≤ 2.7 * e + 2e-14 := by
  have he0 : 0 ≤ e := le_trans (abs_nonneg _) htv
  obtain ⟨ht1, ht2⟩ := abs_le.mp htv
  have l0 := lit_close M 81 1000 (B := 1) (by norm_num) (by norm_num)
  obtain ⟨l01, l02⟩ := abs_le.mp l0
  have bv : |v| ≤ 1.001 := by rw [abs_le]; constructor <;> linarith
  unfold invOetf2020With α2020
  rcases hcase with hL | hP
  · have hc : t.val < M.rnd (((81:ℕ):ℝ) / ((1000:ℕ):ℝ)) := by
      unfold FP.eps at *; push_cast at *; linarith
    rw [if_pos (by linarith)]
    simp only [F64.compute_rec2020_gamma_expanded, FltRF.lt_eq, FltRF.lit_val, hc, decide_true, if_true, FltRF.div_val]
    have l1 := lit_close M 9 2 (B := 4.5) (by norm_num) (by norm_num)
    have bq : |v / (((9:ℕ):ℝ) / ((2:ℕ):ℝ))| ≤ 1 := by
      rw [abs_div, abs_of_nonneg (by positivity : (0:ℝ) ≤ ((9:ℕ):ℝ)/((2:ℕ):ℝ)), div_le_one (by positivity)]
      push_cast; linarith
    have d1 := div_close M htv l1 bv (m := 4) (Bq := 1) (by norm_num) (by norm_num [FP.eps]) bq (by norm_num)
    have e' : v / 4.5 = v / (((9:ℕ):ℝ) / ((2:ℕ):ℝ)) := by norm_num
    rw [e']
    refine le_trans d1 ?_
    have : (e * 4 + FP.eps * 4.5 * 1.001) / (4 * (4 - FP.eps * 4.5)) ≤ 0.26 * e + 2e-16 := by
      rw [div_le_iff₀ (by norm_num [FP.eps])]; unfold FP.eps; nlinarith
    unfold FP.eps at *
    nlinarith
  · have hc : ¬ t.val < M.rnd (((81:ℕ):ℝ) / ((1000:ℕ):ℝ)) := by
      rw [not_lt]; unfold FP.eps at *; push_cast at *; linarith
    rw [if_neg (by linarith)]
    simp only [F64.compute_rec2020_gamma_expanded, FltRF.lt_eq, FltRF.lit_val, hc, decide_false, if_false, FltRF.div_val,
      FltRF.add_val, FltRF.sub_val, FltRF.pow_val, Bool.false_eq_true]
    have l2 := lit_close M 10993 10000 (B := 2) (by norm_num) (by norm_num)
    have l3 := inv_exp_close2 M 9 20 (by norm_num) (by norm_num)
    rw [lit_int M 1 (by norm_num)] at l3 ⊢
    have one0 : |((1:ℕ):ℝ) - ((1:ℕ):ℝ)| ≤ 0 := by simp
    have bs0 : |((10993:ℕ):ℝ) / ((10000:ℕ):ℝ) - ((1:ℕ):ℝ)| ≤ 1 := by norm_num [abs_le]
    have l1 := sub_close M l2 one0 bs0 (by norm_num)
    have bs : |v + (((10993:ℕ):ℝ)/((10000:ℕ):ℝ) - ((1:ℕ):ℝ))| ≤ 2 := by
      rw [abs_of_nonneg (by push_cast; linarith)]; push_cast; linarith
    have a1 := add_close M htv l1 bs (by norm_num)
    have bq : |(v + (((10993:ℕ):ℝ)/((10000:ℕ):ℝ) - ((1:ℕ):ℝ))) / (((10993:ℕ):ℝ)/((10000:ℕ):ℝ))| ≤ 1.001 := by
      rw [abs_div, abs_of_nonneg (by push_cast; linarith : (0:ℝ) ≤ v + (((10993:ℕ):ℝ)/((10000:ℕ):ℝ) - ((1:ℕ):ℝ))),
        abs_of_nonneg (by positivity : (0:ℝ) ≤ ((10993:ℕ):ℝ)/((10000:ℕ):ℝ)), div_le_iff₀ (by positivity)]
      push_cast; linarith
    have d1 := div_close M a1 l2 bs (m := 1) (Bq := 1.001) (by rw [abs_of_nonneg (by positivity)]; norm_num)
      (by norm_num [FP.eps]) bq (by norm_num)
    have ex : (v + (1.0993 - 1)) / 1.0993 =
        (v + (((10993:ℕ):ℝ)/((10000:ℕ):ℝ) - ((1:ℕ):ℝ))) / (((10993:ℕ):ℝ)/((10000:ℕ):ℝ)) := by norm_num
    have ey : (1:ℝ) / 0.45 = 1 / (((9:ℕ):ℝ)/((20:ℕ):ℝ)) := by norm_num
    rw [ex, ey]
    set X : ℝ := (v + (((10993:ℕ):ℝ)/((10000:ℕ):ℝ) - ((1:ℕ):ℝ))) / (((10993:ℕ):ℝ)/((10000:ℕ):ℝ)) with hX
    have hXlo : 0.16 ≤ X := by
      rw [hX, le_div_iff₀ (by positivity)]; push_cast; linarith
    have hXhi : X ≤ 1.001 := by
      rw [hX, div_le_iff₀ (by positivity)]; push_cast; linarith
    set e0 : ℝ := (FP.eps * 2 + 0 + FP.eps * (1 + (FP.eps * 2 + 0))) with he0'
    set e1 : ℝ := (e + e0 + FP.eps * (2 + (e + e0))) with he1
    set e2 : ℝ := (e1 * 1 + FP.eps * 2 * 2) / (1 * (1 - FP.eps * 2)) + FP.eps * (1.001 + (e1 * 1 + FP.eps * 2 * 2) / (1 * (1 - FP.eps * 2))) with he2
    have he2b : e2 ≤ 1.0001 * e + 1.7e-15 := by
      have h1 : (e1 * 1 + FP.eps * 2 * 2) / (1 * (1 - FP.eps * 2)) ≤ 1.00001 * e + 1.5e-15 := by
        rw [div_le_iff₀ (by norm_num [FP.eps])]; rw [he1, he0']; unfold FP.eps; nlinarith
      rw [he2]; unfold FP.eps at *; nlinarith
    have hb0 : 0 < M.rnd (M.rnd (t.val + M.rnd (M.rnd (((10993:ℕ):ℝ) / ((10000:ℕ):ℝ)) - ((1:ℕ):ℝ))) /
        M.rnd (((10993:ℕ):ℝ) / ((10000:ℕ):ℝ))) := by
      have := (abs_le.mp d1).1; linarith
    have := pow_dec_close2 M hb0 (by linarith) hXhi d1 (by linarith) (y := 1 / (((9:ℕ):ℝ)/((20:ℕ):ℝ))) (by norm_num) (by norm_num) l3
    refine this.trans ?_
    nlinarith

/-- **Adobe decoder in `RF M`, perturbed argument** (no breakpoint problem: `v^(563/256)` is Lipschitz and tiny
near 0, where the code clamps): `2.6·e + 8e-15` -/
theorem argb_dec_tight (t : RF M) (v e : ℝ) (htv : |t.val - v| ≤ e) (he : e ≤ 1e-6)
    (hhi : v ≤ 1.001) :
    |(F64.compute_argb_gamma t).val - decAdobe (max v 0)| ≤ 2.6 * e + 8e-15 := by
  have he0 : 0 ≤ e := le_trans (abs_nonneg _) htv
  obtain ⟨ht1, ht2⟩ := abs_le.mp htv
  have z : M.rnd (((0:ℕ):ℝ) / ((1:ℕ):ℝ)) = 0 := by
    have := lit_int M 0 (by norm_num); simpa using this
  have l3 := lit_close M 563 256 (B := 3) (by norm_num) (by norm_num)
  have small : ∀ x : ℝ, 0 ≤ x → x ≤ e → decAdobe x ≤ e := by
    intro x hx0 hxe
    unfold decAdobe adobeGamma
    calc x ^ ((563:ℝ) / 256) ≤ x ^ (1:ℝ) :=
          Real.rpow_le_rpow_of_exponent_ge' hx0 (by linarith) (by norm_num) (by norm_num)
      _ = x := Real.rpow_one x
      _ ≤ e := hxe
  have dnn : ∀ x : ℝ, 0 ≤ x → 0 ≤ decAdobe x := fun x hx => by
    unfold decAdobe; exact Real.rpow_nonneg hx _
  by_cases hc : t.val ≤ 0
  · simp only [F64.compute_argb_gamma, FltRF.le_eq, FltRF.lit_val, z, hc, decide_true, if_true]
    have h1 := small (max v 0) (le_max_right _ _) (max_le (by linarith) he0)
    have h2 := dnn (max v 0) (le_max_right _ _)
    rw [zero_sub, abs_neg, abs_of_nonneg h2]; linarith
  · have hpos : 0 < t.val := not_le.mp hc
    simp only [F64.compute_argb_gamma, FltRF.le_eq, FltRF.lit_val, z, hc, decide_false, if_false,
      FltRF.pow_val, Bool.false_eq_true]
    rcases le_or_gt v 0 with hv | hv
    · rw [max_eq_right hv]
      have hd0 : decAdobe 0 = 0 := by unfold decAdobe adobeGamma; rw [Real.zero_rpow (by norm_num)]
      rw [hd0, sub_zero]
      have hte : t.val ≤ e := by linarith
      have hy' : 1 ≤ M.rnd (((563:ℕ):ℝ) / ((256:ℕ):ℝ)) := by
        have := (abs_le.mp l3).1; unfold FP.eps at this; push_cast at this ⊢; linarith
      have hz : t.val ^ M.rnd (((563:ℕ):ℝ) / ((256:ℕ):ℝ)) ≤ e + 1e-100 := by
        calc t.val ^ M.rnd (((563:ℕ):ℝ) / ((256:ℕ):ℝ)) ≤ t.val ^ (1:ℝ) :=
              Real.rpow_le_rpow_of_exponent_ge hpos (by linarith) hy'
          _ = t.val := Real.rpow_one _
          _ ≤ e + 1e-100 := by linarith
      have p1 := pow_close M hpos.le hz (by linarith)
      have h0 : 0 ≤ t.val ^ M.rnd (((563:ℕ):ℝ) / ((256:ℕ):ℝ)) := Real.rpow_nonneg hpos.le _
      have := abs_sub_abs_le_abs_sub (M.pow t.val (M.rnd (((563:ℕ):ℝ) / ((256:ℕ):ℝ)))) (t.val ^ M.rnd (((563:ℕ):ℝ) / ((256:ℕ):ℝ)))
      rw [abs_of_nonneg h0] at this
      unfold FP.eps at p1
      nlinarith
    · rw [max_eq_left hv.le]
      unfold decAdobe adobeGamma
      have ey : (563:ℝ) / 256 = ((563:ℕ):ℝ) / ((256:ℕ):ℝ) := by norm_num
      rw [ey]
      have l3' : |M.rnd (((563:ℕ):ℝ) / ((256:ℕ):ℝ)) - ((563:ℕ):ℝ) / ((256:ℕ):ℝ)| ≤ FP.eps * 6 :=
        l3.trans (by unfold FP.eps; norm_num)
      exact pow_dec_close2 M hpos hv hhi htv he (by norm_num) (by norm_num) l3'

end dec

/-! ## reverse conversions: structure, ranges, round trips of the forward images -/
section rev
variable (M : FPModel)
open Props.C08

theorem xyz_from_rec709_fp (s : Rec709 (RF M)) :
    Xyz.from_Rec709 s =
      ⟨dotF' M (F64.compute_rec709_gamma_expanded s.r, F64.compute_rec709_gamma_expanded s.g, F64.compute_rec709_gamma_expanded s.b) C.X65,
       dotF' M (F64.compute_rec709_gamma_expanded s.r, F64.compute_rec709_gamma_expanded s.g, F64.compute_rec709_gamma_expanded s.b) C.Y65,
       dotF' M (F64.compute_rec709_gamma_expanded s.r, F64.compute_rec709_gamma_expanded s.g, F64.compute_rec709_gamma_expanded s.b) C.Z65⟩ := rfl

theorem xyz_from_rec2020_fp (s : Rec2020 (RF M)) :
    Xyz.from_Rec2020 s =
      ⟨dotF' M (F64.compute_rec2020_gamma_expanded s.r, F64.compute_rec2020_gamma_expanded s.g, F64.compute_rec2020_gamma_expanded s.b) C.XX,
       dotF' M (F64.compute_rec2020_gamma_expanded s.r, F64.compute_rec2020_gamma_expanded s.g, F64.compute_rec2020_gamma_expanded s.b) C.XY,
       dotF' M (F64.compute_rec2020_gamma_expanded s.r, F64.compute_rec2020_gamma_expanded s.g, F64.compute_rec2020_gamma_expanded s.b) C.XZ⟩ := rfl

theorem xyz_from_argb_fp (s : Argb (RF M)) :
    Xyz.from_Argb s =
      ⟨dotF' M (F64.compute_argb_gamma s.r, F64.compute_argb_gamma s.g, F64.compute_argb_gamma s.b) C.RR,
       dotF' M (F64.compute_argb_gamma s.r, F64.compute_argb_gamma s.g, F64.compute_argb_gamma s.b) C.GG,
       dotF' M (F64.compute_argb_gamma s.r, F64.compute_argb_gamma s.g, F64.compute_argb_gamma s.b) C.BB⟩ := rfl

theorem rec2020_fwd_rows : RowOK M (C.XX) (C.XX) ∧ RowOK M (C.XY) (C.XY) ∧ RowOK M (C.XZ) (C.XZ) := by
  simp only [RowOK, C.XX, C.XY, C.XZ]
  refine ⟨⟨?_, ?_, ?_⟩, ⟨?_, ?_, ?_⟩, ⟨?_, ?_, ?_⟩⟩ <;>
  (apply coef_lit; norm_num)

theorem argb_fwd_rows : RowOK M (C.RR) (C.RR) ∧ RowOK M (C.GG) (C.GG) ∧ RowOK M (C.BB) (C.BB) := by
  simp only [RowOK, C.RR, C.GG, C.BB]
  refine ⟨⟨?_, ?_, ?_⟩, ⟨?_, ?_, ?_⟩, ⟨?_, ?_, ?_⟩⟩ <;>
  (apply coef_lit; norm_num)

/-- a power `X^y`, `X ∈ [0, 1.001]`, `1 ≤ y ≤ 3`, is at most 3 in magnitude -/
theorem rpow_abs_le_three {X y : ℝ} (h0 : 0 ≤ X) (h1 : X ≤ 1.001) (hy : 1 ≤ y) (hy3 : y ≤ 3) : |X ^ y| ≤ 3 := by
  rw [abs_of_nonneg (Real.rpow_nonneg h0 _)]
  calc X ^ y ≤ (1.001:ℝ) ^ y := Real.rpow_le_rpow h0 h1 (by linarith)
    _ ≤ (1.001:ℝ) ^ ((3:ℕ):ℝ) := Real.rpow_le_rpow_of_exponent_le (by norm_num) (by push_cast; linarith)
    _ = (1.001:ℝ) ^ (3:ℕ) := Real.rpow_natCast _ _
    _ ≤ 3 := by norm_num

theorem invOetf709_range (V : ℝ) (hlo : -0.01 ≤ V) (hhi : V ≤ 1.001) : |invOetf709 V| ≤ 3 := by
  unfold invOetf709
  split_ifs with h
  · rw [abs_le]; constructor
    · rw [le_div_iff₀ (by norm_num)]; linarith
    · rw [div_le_iff₀ (by norm_num)]; linarith
  · exact rpow_abs_le_three (by apply div_nonneg <;> linarith) (by rw [div_le_iff₀ (by norm_num)]; linarith)
      (by norm_num) (by norm_num)

theorem invOetf2020_range (V : ℝ) (hlo : -0.01 ≤ V) (hhi : V ≤ 1.001) : |invOetf2020With 0.081 V| ≤ 3 := by
  unfold invOetf2020With α2020
  split_ifs with h
  · rw [abs_le]; constructor
    · rw [le_div_iff₀ (by norm_num)]; linarith
    · rw [div_le_iff₀ (by norm_num)]; linarith
  · exact rpow_abs_le_three (by apply div_nonneg <;> linarith) (by rw [div_le_iff₀ (by norm_num)]; linarith)
      (by norm_num) (by norm_num)

theorem decAdobe_range (V : ℝ) (hhi : V ≤ 1.001) : |decAdobe (max V 0)| ≤ 3 := by
  unfold decAdobe adobeGamma
  exact rpow_abs_le_three (le_max_right _ _) (max_le hhi (by norm_num)) (by norm_num) (by norm_num)

theorem xyz_from_rec709_real (s : Rec709 ℝ) :
    Xyz.from_Rec709 s = toXyz (mulVec (fwd .D65) (invOetf709 s.r, invOetf709 s.g, invOetf709 s.b)) := by
  simp [Xyz.from_Rec709, toXyz, mulVec, Lemmas.Matrix.dot, fwd, mul_comm, rec709_decode_is_bt709]

/-- the BT.709 OETF of a linear value away from `0.018` is away from the decoder's breakpoint `0.081` -/
theorem rec709_enc_gap {w : ℝ} (hw : w ≤ 0.0179 ∨ 0.0181 ≤ w) (hlo : -1e-6 ≤ w) (hhi : w ≤ 1.000001) :
    (oetf709 w ≤ 0.080999 ∨ 0.081001 ≤ oetf709 w) ∧ -0.001 ≤ oetf709 w ∧ oetf709 w ≤ 1.001 := by
  unfold oetf709
  rcases hw with h | h
  · rw [if_pos (by linarith)]
    exact ⟨Or.inl (by linarith), by linarith, by linarith⟩
  · rw [if_neg (by linarith)]
    have h0 : (0:ℝ) ≤ w := by linarith
    have l : (0.164 : ℝ) ≤ w ^ (0.45 : ℝ) := by
      rw [e045]
      exact le_rpow_div 9 20 (by norm_num) h0 (by norm_num)
        (le_trans (by norm_num) (pow_le_pow_left₀ (by norm_num) (by linarith : (0.018:ℝ) ≤ w) 9))
    have u : w ^ (0.45 : ℝ) ≤ 1.000001 := by
      calc w ^ (0.45:ℝ) ≤ (1.000001:ℝ) ^ (0.45:ℝ) := Real.rpow_le_rpow h0 hhi (by norm_num)
        _ ≤ (1.000001:ℝ) ^ (1:ℝ) := Real.rpow_le_rpow_of_exponent_le (by norm_num) (by norm_num)
        _ = 1.000001 := Real.rpow_one _
    exact ⟨Or.inr (by linarith), by linarith, by linarith⟩

/-- **Rec.709 round trip of the XYZ of an 8-bit colour, in `RF M`**: `Xyz.from_Rec709 (Rec709.from_Xyz x)` is
within `4.5e-7` of `x` in every component (`x` the computed XYZ of the colour); exact-real part `4.4e-7`
(`Props.C02_requant.rec709_roundtrip_8bit_tight`), rounding part `1.5e-9` -/
theorem rec709_roundtrip_fp (c : Rgb) (hr : c.r ≤ 255) (hg : c.g ≤ 255) (hb : c.b ≤ 255) :
    |(Xyz.from_Rec709 (Rec709.from_Xyz (Xyz.from_rgb (α := RF M) c .D65))).x.val - (Xyz.from_rgb (α := RF M) c .D65).x.val| ≤ 4.5e-7 ∧
    |(Xyz.from_Rec709 (Rec709.from_Xyz (Xyz.from_rgb (α := RF M) c .D65))).y.val - (Xyz.from_rgb (α := RF M) c .D65).y.val| ≤ 4.5e-7 ∧
    |(Xyz.from_Rec709 (Rec709.from_Xyz (Xyz.from_rgb (α := RF M) c .D65))).z.val - (Xyz.from_rgb (α := RF M) c .D65).z.val| ≤ 4.5e-7 := by
  obtain ⟨f1, f2, f3⟩ := rec709_fwd_close M c hr hg hb
  have hl := fun j => roundtrip_lin .D65 (lin .D65 c) j (dec_level_nonneg .D65 c.r) (dec_level_le_one .D65 hr)
    (dec_level_nonneg .D65 c.g) (dec_level_le_one .D65 hg) (dec_level_nonneg .D65 c.b) (dec_level_le_one .D65 hb)
  have l1 := hl 0
  have l2 := hl 1
  have l3 := hl 2
  simp only [V3.get] at l1 l2 l3
  have key : ∀ (n : ℕ), n ≤ 255 → ∀ w : ℝ, |w - F64.compute_srgb_gamma_expanded ((n:ℝ)/255)| ≤ 3e-7 →
      (oetf709 w ≤ 0.080999 ∨ 0.081001 ≤ oetf709 w) ∧ -0.001 ≤ oetf709 w ∧ oetf709 w ≤ 1.001 := by
    intro n hn w hw
    obtain ⟨g, _, _⟩ := rec709_lin_gap n hn w hw
    have h01 := dec_level_le_one .D65 hn
    have h00 := dec_level_nonneg .D65 n
    simp only [dec] at h01 h00
    obtain ⟨a, b⟩ := abs_le.mp hw
    exact rec709_enc_gap g (by linarith) (by linarith)
  set S' := Rec709.from_Xyz (Xyz.from_rgb (α := RF M) c .D65) with hS'
  set S := Rec709.from_Xyz (Xyz.from_rgb (α := ℝ) c .D65) with hS
  have hSe : S = ⟨oetf709 (mulVec (rev .D65) (mulVec (fwd .D65) (lin .D65 c))).1,
      oetf709 (mulVec (rev .D65) (mulVec (fwd .D65) (lin .D65 c))).2.1,
      oetf709 (mulVec (rev .D65) (mulVec (fwd .D65) (lin .D65 c))).2.2⟩ := by
    rw [hS, from_rgb_eq, rec709_from_xyz_real]
    simp only [rec709_encode_is_bt709]
  have er : S.r = oetf709 (mulVec (rev .D65) (mulVec (fwd .D65) (lin .D65 c))).1 := by rw [hSe]
  have eg : S.g = oetf709 (mulVec (rev .D65) (mulVec (fwd .D65) (lin .D65 c))).2.1 := by rw [hSe]
  have eb : S.b = oetf709 (mulVec (rev .D65) (mulVec (fwd .D65) (lin .D65 c))).2.2 := by rw [hSe]
  obtain ⟨g1, g2, g3⟩ := key _ hr _ l1
  obtain ⟨g1', g2', g3'⟩ := key _ hg _ l2
  obtain ⟨g1'', g2'', g3''⟩ := key _ hb _ l3
  rw [← er] at g1 g2 g3
  rw [← eg] at g1' g2' g3'
  rw [← eb] at g1'' g2'' g3''
  have d1 := rec709_dec_tight M _ _ _ f1 (by norm_num) g1 (by linarith) g3
  have d2 := rec709_dec_tight M _ _ _ f2 (by norm_num) g1' (by linarith) g3'
  have d3 := rec709_dec_tight M _ _ _ f3 (by norm_num) g1'' (by linarith) g3''
  have b1 := invOetf709_range _ (by linarith) g3
  have b2 := invOetf709_range _ (by linarith) g3'
  have b3 := invOetf709_range _ (by linarith) g3''
  obtain ⟨r1, r2, r3⟩ := fwd_rows M .D65
  have q1 := dot3_close' M r1 (v := (F64.compute_rec709_gamma_expanded S'.r, F64.compute_rec709_gamma_expanded S'.g, F64.compute_rec709_gamma_expanded S'.b))
    (x := (invOetf709 S.r, invOetf709 S.g, invOetf709 S.b))
    (e := 1.1e-10) (d1.trans (by norm_num)) (d2.trans (by norm_num)) (d3.trans (by norm_num)) b1 b2 b3 (by norm_num)
  have q2 := dot3_close' M r2 (v := (F64.compute_rec709_gamma_expanded S'.r, F64.compute_rec709_gamma_expanded S'.g, F64.compute_rec709_gamma_expanded S'.b))
    (x := (invOetf709 S.r, invOetf709 S.g, invOetf709 S.b))
    (e := 1.1e-10) (d1.trans (by norm_num)) (d2.trans (by norm_num)) (d3.trans (by norm_num)) b1 b2 b3 (by norm_num)
  have q3 := dot3_close' M r3 (v := (F64.compute_rec709_gamma_expanded S'.r, F64.compute_rec709_gamma_expanded S'.g, F64.compute_rec709_gamma_expanded S'.b))
    (x := (invOetf709 S.r, invOetf709 S.g, invOetf709 S.b))
    (e := 1.1e-10) (d1.trans (by norm_num)) (d2.trans (by norm_num)) (d3.trans (by norm_num)) b1 b2 b3 (by norm_num)
  obtain ⟨w1, w2, w3⟩ := Props.C02_requant.rec709_roundtrip_8bit_tight c ⟨hr, hg, hb⟩
  rw [← hS, xyz_from_rec709_real, from_rgb_eq] at w1 w2 w3
  simp only [toXyz, mulVec] at w1 w2 w3
  obtain ⟨x1, x2, x3⟩ := xyz_fp_close M .D65 c hr hg hb
  simp only [mulVec] at x1 x2 x3
  rw [xyz_from_rec709_fp, from_rgb_eq_fp']
  dsimp only
  simp only [fwdF] at q1 q2 q3
  simp only [fwd] at q1 q2 q3 w1 w2 w3 x1 x2 x3
  refine ⟨?_, ?_, ?_⟩
  · have a := abs_sub_le (dotF' M (F64.compute_rec709_gamma_expanded S'.r, F64.compute_rec709_gamma_expanded S'.g, F64.compute_rec709_gamma_expanded S'.b) C.X65).val
      (dot C.X65 (invOetf709 S.r, invOetf709 S.g, invOetf709 S.b))
      (dot C.X65 (lin .D65 c))
    have b := abs_sub_le (dotF' M (F64.compute_rec709_gamma_expanded S'.r, F64.compute_rec709_gamma_expanded S'.g, F64.compute_rec709_gamma_expanded S'.b) C.X65).val
      (dot C.X65 (lin .D65 c)) (xyzF M .D65 c).1.val
    rw [abs_sub_comm] at x1
    linarith
  · have a := abs_sub_le (dotF' M (F64.compute_rec709_gamma_expanded S'.r, F64.compute_rec709_gamma_expanded S'.g, F64.compute_rec709_gamma_expanded S'.b) C.Y65).val
      (dot C.Y65 (invOetf709 S.r, invOetf709 S.g, invOetf709 S.b))
      (dot C.Y65 (lin .D65 c))
    have b := abs_sub_le (dotF' M (F64.compute_rec709_gamma_expanded S'.r, F64.compute_rec709_gamma_expanded S'.g, F64.compute_rec709_gamma_expanded S'.b) C.Y65).val
      (dot C.Y65 (lin .D65 c)) (xyzF M .D65 c).2.1.val
    rw [abs_sub_comm] at x2
    linarith
  · have a := abs_sub_le (dotF' M (F64.compute_rec709_gamma_expanded S'.r, F64.compute_rec709_gamma_expanded S'.g, F64.compute_rec709_gamma_expanded S'.b) C.Z65).val
      (dot C.Z65 (invOetf709 S.r, invOetf709 S.g, invOetf709 S.b))
      (dot C.Z65 (lin .D65 c))
    have b := abs_sub_le (dotF' M (F64.compute_rec709_gamma_expanded S'.r, F64.compute_rec709_gamma_expanded S'.g, F64.compute_rec709_gamma_expanded S'.b) C.Z65).val
      (dot C.Z65 (lin .D65 c)) (xyzF M .D65 c).2.2.val
    rw [abs_sub_comm] at x3
    linarith

end rev

section rev2
variable (M : FPModel)
open Props.C08

/-- three rows applied to a computed triple `v` within `e` of a real triple `x`: each within `13·e + 2e-14` of the
exact product (`Props.C08.dot` form) -/
theorem rev3_close {m1 m2 m3 v : RF M × RF M × RF M} {c1 c2 c3 x : ℝ × ℝ × ℝ} {e : ℝ}
    (r1 : RowOK M m1 c1) (r2 : RowOK M m2 c2) (r3 : RowOK M m3 c3)
    (h1 : |v.1.val - x.1| ≤ e) (h2 : |v.2.1.val - x.2.1| ≤ e) (h3 : |v.2.2.val - x.2.2| ≤ e)
    (b1 : |x.1| ≤ 3) (b2 : |x.2.1| ≤ 3) (b3 : |x.2.2| ≤ 3) (he : e ≤ 1e-3) :
    |(dotF' M v m1).val - Props.C08.dot c1 x.1 x.2.1 x.2.2| ≤ 13 * e + 2e-14 ∧
    |(dotF' M v m2).val - Props.C08.dot c2 x.1 x.2.1 x.2.2| ≤ 13 * e + 2e-14 ∧
    |(dotF' M v m3).val - Props.C08.dot c3 x.1 x.2.1 x.2.2| ≤ 13 * e + 2e-14 := by
  have q1 := dot3_close' M r1 h1 h2 h3 b1 b2 b3 he
  have q2 := dot3_close' M r2 h1 h2 h3 b1 b2 b3 he
  have q3 := dot3_close' M r3 h1 h2 h3 b1 b2 b3 he
  rw [dot_eq_c08] at q1 q2 q3
  exact ⟨q1, q2, q3⟩

/-- a BT.2020 linear component that stays `1e-5` away from both breakpoints of the code's curve pair: the encoder's
`β = 0.0181` and `0.018 = 0.081/4.5`, the pre-image of the decoder's switch -/
def Rec2020NoBreak (w : ℝ) : Prop := (w ≤ 0.01799 ∨ 0.01801 ≤ w) ∧ (w ≤ 0.01809 ∨ 0.01811 ≤ w)

theorem rec2020_enc_gap {w : ℝ} (h : Rec2020NoBreak w) (hlo : 0 ≤ w) (hhi : w ≤ 1.0001) :
    (oetf2020 w ≤ 0.080999 ∨ 0.081001 ≤ oetf2020 w) ∧ -0.01 ≤ oetf2020 w ∧ oetf2020 w ≤ 1.001 := by
  obtain ⟨r0, r1⟩ := Lemmas.DerivedF2.oetf2020_range hlo (by norm_num; linarith)
  refine ⟨?_, by linarith, by norm_num at r1 ⊢; linarith⟩
  obtain ⟨h1, h2⟩ := h
  unfold oetf2020 α2020 β2020
  rcases h2 with h2 | h2
  · rw [if_pos (by linarith)]
    rcases h1 with h1 | h1
    · left; linarith
    · right; linarith
  · rw [if_neg (by linarith)]
    have l : (0.1644 : ℝ) ≤ w ^ (0.45 : ℝ) := by
      rw [e045]
      exact le_rpow_div 9 20 (by norm_num) hlo (by norm_num)
        (le_trans (by norm_num) (pow_le_pow_left₀ (by norm_num) (by linarith : (0.0181:ℝ) ≤ w) 9))
    right; linarith

theorem xyz_from_rec2020_real (s : Rec2020 ℝ) :
    Xyz.from_Rec2020 s = ⟨Lemmas.Matrix.dot C.XX (invOetf2020With 0.081 s.r, invOetf2020With 0.081 s.g, invOetf2020With 0.081 s.b),
      Lemmas.Matrix.dot C.XY (invOetf2020With 0.081 s.r, invOetf2020With 0.081 s.g, invOetf2020With 0.081 s.b),
      Lemmas.Matrix.dot C.XZ (invOetf2020With 0.081 s.r, invOetf2020With 0.081 s.g, invOetf2020With 0.081 s.b)⟩ := by
  simp [Xyz.from_Rec2020, Lemmas.Matrix.dot, mul_comm, rec2020_decode_formula]

theorem rec2020_from_xyz_real (w : V3) :
    Rec2020.from_Xyz (toXyz w) = ⟨oetf2020 (Lemmas.Matrix.dot C.rec2020_XR w), oetf2020 (Lemmas.Matrix.dot C.XG w),
      oetf2020 (Lemmas.Matrix.dot C.XB w)⟩ := by
  simp [Rec2020.from_Xyz, toXyz, Lemmas.Matrix.dot, mul_comm, rec2020_encode_is_bt2020]

/-- **Rec.2020 round trip of the XYZ of an 8-bit colour, in `RF M`**, for colours none of whose BT.2020 linear
components is within `1e-5` of a breakpoint of the curve pair: within `1.41e-6` of `x` in every component (exact-real
part `1.4e-6`, `Props.C02_requant.rec2020_roundtrip_8bit_tight`; rounding part `5e-10`) -/
theorem rec2020_roundtrip_fp (c : Rgb) (hr : c.r ≤ 255) (hg : c.g ≤ 255) (hb : c.b ≤ 255)
    (n1 : Rec2020NoBreak (Lemmas.Matrix.dot C.rec2020_XR (mulVec (fwd .D65) (lin .D65 c))))
    (n2 : Rec2020NoBreak (Lemmas.Matrix.dot C.XG (mulVec (fwd .D65) (lin .D65 c))))
    (n3 : Rec2020NoBreak (Lemmas.Matrix.dot C.XB (mulVec (fwd .D65) (lin .D65 c)))) :
    |(Xyz.from_Rec2020 (Rec2020.from_Xyz (Xyz.from_rgb (α := RF M) c .D65))).x.val - (Xyz.from_rgb (α := RF M) c .D65).x.val| ≤ 1.41e-6 ∧
    |(Xyz.from_Rec2020 (Rec2020.from_Xyz (Xyz.from_rgb (α := RF M) c .D65))).y.val - (Xyz.from_rgb (α := RF M) c .D65).y.val| ≤ 1.41e-6 ∧
    |(Xyz.from_Rec2020 (Rec2020.from_Xyz (Xyz.from_rgb (α := RF M) c .D65))).z.val - (Xyz.from_rgb (α := RF M) c .D65).z.val| ≤ 1.41e-6 := by
  obtain ⟨f1, f2, f3⟩ := xyz_fp_close M .D65 c hr hg hb
  have b1 := xyz_range .D65 c hr hg hb 0
  have b2 := xyz_range .D65 c hr hg hb 1
  have b3 := xyz_range .D65 c hr hg hb 2
  simp only [V3.get] at b1 b2 b3
  obtain ⟨r1, r2, r3⟩ := rec2020_rows M
  have q1 := dot3_close' M r1 (v := xyzF M .D65 c) (x := mulVec (fwd .D65) (lin .D65 c)) f1 f2 f3 b1 b2 b3 (by norm_num)
  have q2 := dot3_close' M r2 (v := xyzF M .D65 c) (x := mulVec (fwd .D65) (lin .D65 c)) f1 f2 f3 b1 b2 b3 (by norm_num)
  have q3 := dot3_close' M r3 (v := xyzF M .D65 c) (x := mulVec (fwd .D65) (lin .D65 c)) f1 f2 f3 b1 b2 b3 (by norm_num)
  obtain ⟨⟨a1, a1'⟩, ⟨a2, a2'⟩, ⟨a3, a3'⟩⟩ := Lemmas.DerivedF2.rec2020_lin_range _ _ _
    ⟨dec_level_nonneg .D65 c.r, dec_level_le_one .D65 hr⟩ ⟨dec_level_nonneg .D65 c.g, dec_level_le_one .D65 hg⟩
    ⟨dec_level_nonneg .D65 c.b, dec_level_le_one .D65 hb⟩
  have ew : ∀ m : V3, Lemmas.Matrix.dot m (mulVec (fwd .D65) (lin .D65 c)) =
      Props.C08.dot m (Props.C08.dot C.X65 (dec .D65 ((c.r:ℝ)/255)) (dec .D65 ((c.g:ℝ)/255)) (dec .D65 ((c.b:ℝ)/255)))
        (Props.C08.dot C.Y65 (dec .D65 ((c.r:ℝ)/255)) (dec .D65 ((c.g:ℝ)/255)) (dec .D65 ((c.b:ℝ)/255)))
        (Props.C08.dot C.Z65 (dec .D65 ((c.r:ℝ)/255)) (dec .D65 ((c.g:ℝ)/255)) (dec .D65 ((c.b:ℝ)/255))) := by
    intro m
    rw [dot_eq_c08]
    simp only [mulVec, fwd, dot_eq_c08, lin]
  rw [← ew] at a1 a1' a2 a2' a3 a3'
  generalize hw1 : Lemmas.Matrix.dot C.rec2020_XR (mulVec (fwd .D65) (lin .D65 c)) = w1 at *
  generalize hw2 : Lemmas.Matrix.dot C.XG (mulVec (fwd .D65) (lin .D65 c)) = w2 at *
  generalize hw3 : Lemmas.Matrix.dot C.XB (mulVec (fwd .D65) (lin .D65 c)) = w3 at *
  have hgap : ∀ w : ℝ, Rec2020NoBreak w → (w ≤ 0.01809 ∨ 0.01811 ≤ w) := fun w h => h.2
  have e1 := rec2020_enc_tight M _ _ _ q1 (by norm_num) (hgap _ n1) (by linarith) (by norm_num at a1' ⊢; linarith)
  have e2 := rec2020_enc_tight M _ _ _ q2 (by norm_num) (hgap _ n2) (by linarith) (by norm_num at a2' ⊢; linarith)
  have e3 := rec2020_enc_tight M _ _ _ q3 (by norm_num) (hgap _ n3) (by linarith) (by norm_num at a3' ⊢; linarith)
  rw [rec2020_encode_is_bt2020] at e1 e2 e3
  obtain ⟨g1, g2, g3⟩ := rec2020_enc_gap n1 a1 (by norm_num at a1' ⊢; linarith)
  obtain ⟨g1', g2', g3'⟩ := rec2020_enc_gap n2 a2 (by norm_num at a2' ⊢; linarith)
  obtain ⟨g1'', g2'', g3''⟩ := rec2020_enc_gap n3 a3 (by norm_num at a3' ⊢; linarith)
  have d1 := rec2020_dec_tight M _ _ _ e1 (by norm_num) g1 g2 g3
  have d2 := rec2020_dec_tight M _ _ _ e2 (by norm_num) g1' g2' g3'
  have d3 := rec2020_dec_tight M _ _ _ e3 (by norm_num) g1'' g2'' g3''
  have c1 := invOetf2020_range _ g2 g3
  have c2 := invOetf2020_range _ g2' g3'
  have c3 := invOetf2020_range _ g2'' g3''
  obtain ⟨s1, s2, s3⟩ := rec2020_fwd_rows M
  obtain ⟨p1, p2, p3⟩ := rev3_close M s1 s2 s3 (e := 3.6e-11)
    (v := (F64.compute_rec2020_gamma_expanded (F64.compute_rec2020_gamma_correction (dotF' M (xyzF M .D65 c) C.rec2020_XR)),
      F64.compute_rec2020_gamma_expanded (F64.compute_rec2020_gamma_correction (dotF' M (xyzF M .D65 c) C.XG)),
      F64.compute_rec2020_gamma_expanded (F64.compute_rec2020_gamma_correction (dotF' M (xyzF M .D65 c) C.XB))))
    (x := (invOetf2020With 0.081 (oetf2020 w1), invOetf2020With 0.081 (oetf2020 w2), invOetf2020With 0.081 (oetf2020 w3)))
    (d1.trans (by norm_num)) (d2.trans (by norm_num)) (d3.trans (by norm_num)) c1 c2 c3 (by norm_num)
  obtain ⟨t1, t2, t3⟩ := Props.C02_requant.rec2020_roundtrip_8bit_tight c ⟨hr, hg, hb⟩
  rw [from_rgb_eq, rec2020_from_xyz_real, xyz_from_rec2020_real, hw1, hw2, hw3] at t1 t2 t3
  simp only [toXyz, dot_eq_c08] at t1 t2 t3
  rw [from_rgb_eq_fp', rec2020_from_xyz_fp, xyz_from_rec2020_fp]
  dsimp only at p1 p2 p3 ⊢
  refine ⟨?_, ?_, ?_⟩
  · have a := abs_sub_le (dotF' M (F64.compute_rec2020_gamma_expanded (F64.compute_rec2020_gamma_correction (dotF' M (xyzF M .D65 c) C.rec2020_XR)),
        F64.compute_rec2020_gamma_expanded (F64.compute_rec2020_gamma_correction (dotF' M (xyzF M .D65 c) C.XG)),
        F64.compute_rec2020_gamma_expanded (F64.compute_rec2020_gamma_correction (dotF' M (xyzF M .D65 c) C.XB))) C.XX).val
      (Props.C08.dot C.XX (invOetf2020With 0.081 (oetf2020 w1)) (invOetf2020With 0.081 (oetf2020 w2)) (invOetf2020With 0.081 (oetf2020 w3)))
      (mulVec (fwd .D65) (lin .D65 c)).1
    have b := abs_sub_le (dotF' M (F64.compute_rec2020_gamma_expanded (F64.compute_rec2020_gamma_correction (dotF' M (xyzF M .D65 c) C.rec2020_XR)),
        F64.compute_rec2020_gamma_expanded (F64.compute_rec2020_gamma_correction (dotF' M (xyzF M .D65 c) C.XG)),
        F64.compute_rec2020_gamma_expanded (F64.compute_rec2020_gamma_correction (dotF' M (xyzF M .D65 c) C.XB))) C.XX).val
      (mulVec (fwd .D65) (lin .D65 c)).1 (xyzF M .D65 c).1.val
    rw [abs_sub_comm] at f1
    linarith
  · have a := abs_sub_le (dotF' M (F64.compute_rec2020_gamma_expanded (F64.compute_rec2020_gamma_correction (dotF' M (xyzF M .D65 c) C.rec2020_XR)),
        F64.compute_rec2020_gamma_expanded (F64.compute_rec2020_gamma_correction (dotF' M (xyzF M .D65 c) C.XG)),
        F64.compute_rec2020_gamma_expanded (F64.compute_rec2020_gamma_correction (dotF' M (xyzF M .D65 c) C.XB))) C.XY).val
      (Props.C08.dot C.XY (invOetf2020With 0.081 (oetf2020 w1)) (invOetf2020With 0.081 (oetf2020 w2)) (invOetf2020With 0.081 (oetf2020 w3)))
      (mulVec (fwd .D65) (lin .D65 c)).2.1
    have b := abs_sub_le (dotF' M (F64.compute_rec2020_gamma_expanded (F64.compute_rec2020_gamma_correction (dotF' M (xyzF M .D65 c) C.rec2020_XR)),
        F64.compute_rec2020_gamma_expanded (F64.compute_rec2020_gamma_correction (dotF' M (xyzF M .D65 c) C.XG)),
        F64.compute_rec2020_gamma_expanded (F64.compute_rec2020_gamma_correction (dotF' M (xyzF M .D65 c) C.XB))) C.XY).val
      (mulVec (fwd .D65) (lin .D65 c)).2.1 (xyzF M .D65 c).2.1.val
    rw [abs_sub_comm] at f2
    linarith
  · have a := abs_sub_le (dotF' M (F64.compute_rec2020_gamma_expanded (F64.compute_rec2020_gamma_correction (dotF' M (xyzF M .D65 c) C.rec2020_XR)),
        F64.compute_rec2020_gamma_expanded (F64.compute_rec2020_gamma_correction (dotF' M (xyzF M .D65 c) C.XG)),
        F64.compute_rec2020_gamma_expanded (F64.compute_rec2020_gamma_correction (dotF' M (xyzF M .D65 c) C.XB))) C.XZ).val
      (Props.C08.dot C.XZ (invOetf2020With 0.081 (oetf2020 w1)) (invOetf2020With 0.081 (oetf2020 w2)) (invOetf2020With 0.081 (oetf2020 w3)))
      (mulVec (fwd .D65) (lin .D65 c)).2.2
    have b := abs_sub_le (dotF' M (F64.compute_rec2020_gamma_expanded (F64.compute_rec2020_gamma_correction (dotF' M (xyzF M .D65 c) C.rec2020_XR)),
        F64.compute_rec2020_gamma_expanded (F64.compute_rec2020_gamma_correction (dotF' M (xyzF M .D65 c) C.XG)),
        F64.compute_rec2020_gamma_expanded (F64.compute_rec2020_gamma_correction (dotF' M (xyzF M .D65 c) C.XB))) C.XZ).val
      (mulVec (fwd .D65) (lin .D65 c)).2.2 (xyzF M .D65 c).2.2.val
    rw [abs_sub_comm] at f3
    linarith

end rev2

/-! ## Adobe RGB: decode ∘ encode in `RF M`, round trip of the forward images -/
section argbrt
variable (M : FPModel)
open Props.C08

theorem small_9_20 : (6e-8:ℝ) ^ (((9:ℕ):ℝ) / ((20:ℕ):ℝ)) ≤ 5.7e-4 :=
  rpow_div_le 9 20 (by norm_num) (by norm_num) (by norm_num) (by norm_num)

/-- the Adobe encoder on a tiny computed argument: the result is tiny (at most `5.8e-4`) -/
theorem argb_enc_small (a : RF M) (ha : a.val ≤ 6e-8) : (F64.compute_argb_gamma_expanded a).val ≤ 5.8e-4 := by
  have z : M.rnd (((0:ℕ):ℝ) / ((1:ℕ):ℝ)) = 0 := by
    have := lit_int M 0 (by norm_num); simpa using this
  by_cases hc : a.val ≤ 0
  · simp only [F64.compute_argb_gamma_expanded, FltRF.le_eq, FltRF.lit_val, z, hc, decide_true, if_true]
    norm_num
  · have hpos : 0 < a.val := not_le.mp hc
    simp only [F64.compute_argb_gamma_expanded, FltRF.le_eq, FltRF.lit_val, z, hc, decide_false, if_false,
      FltRF.pow_val, FltRF.div_val, Bool.false_eq_true]
    have ip := inv_exp_close M 563 256 (by norm_num) (by norm_num)
    have hp' : ((9:ℕ):ℝ) / ((20:ℕ):ℝ) ≤ M.rnd (M.rnd (((1:ℕ):ℝ) / ((1:ℕ):ℝ)) / M.rnd (((563:ℕ):ℝ) / ((256:ℕ):ℝ))) := by
      have := (abs_le.mp ip).1; unfold FP.eps at this; push_cast at this ⊢
      have e : (1:ℝ) / (563 / 256) = 256 / 563 := by norm_num
      rw [e] at this
      linarith
    generalize M.rnd (M.rnd (((1:ℕ):ℝ) / ((1:ℕ):ℝ)) / M.rnd (((563:ℕ):ℝ) / ((256:ℕ):ℝ))) = p' at *
    have hz : a.val ^ p' ≤ 5.7e-4 := by
      calc a.val ^ p' ≤ a.val ^ (((9:ℕ):ℝ) / ((20:ℕ):ℝ)) :=
            Real.rpow_le_rpow_of_exponent_ge hpos (by linarith) hp'
        _ ≤ (6e-8:ℝ) ^ (((9:ℕ):ℝ) / ((20:ℕ):ℝ)) := Real.rpow_le_rpow hpos.le ha (by norm_num)
        _ ≤ 5.7e-4 := small_9_20
    have p1 := pow_close M hpos.le hz (by norm_num)
    have := (abs_le.mp p1).2
    unfold FP.eps at this
    linarith

/-- the Adobe decoder on a tiny computed argument: the result is at most `3.5e-7` in magnitude -/
theorem argb_dec_small (X : RF M) (hX : X.val ≤ 5.8e-4) : |(F64.compute_argb_gamma X).val| ≤ 3.5e-7 := by
  have z : M.rnd (((0:ℕ):ℝ) / ((1:ℕ):ℝ)) = 0 := by
    have := lit_int M 0 (by norm_num); simpa using this
  by_cases hc : X.val ≤ 0
  · simp only [F64.compute_argb_gamma, FltRF.le_eq, FltRF.lit_val, z, hc, decide_true, if_true]
    norm_num
  · have hpos : 0 < X.val := not_le.mp hc
    simp only [F64.compute_argb_gamma, FltRF.le_eq, FltRF.lit_val, z, hc, decide_false, if_false,
      FltRF.pow_val, Bool.false_eq_true]
    have l3 := lit_close M 563 256 (B := 3) (by norm_num) (by norm_num)
    have hg' : (2:ℝ) ≤ M.rnd (((563:ℕ):ℝ) / ((256:ℕ):ℝ)) := by
      have := (abs_le.mp l3).1; unfold FP.eps at this; push_cast at this ⊢; linarith
    generalize M.rnd (((563:ℕ):ℝ) / ((256:ℕ):ℝ)) = g' at *
    have hz : X.val ^ g' ≤ 3.4e-7 := by
      calc X.val ^ g' ≤ X.val ^ ((2:ℕ):ℝ) :=
            Real.rpow_le_rpow_of_exponent_ge hpos (by linarith) (by push_cast; exact hg')
        _ = X.val ^ (2:ℕ) := Real.rpow_natCast _ _
        _ ≤ (5.8e-4:ℝ) ^ (2:ℕ) := pow_le_pow_left₀ hpos.le hX 2
        _ ≤ 3.4e-7 := by norm_num
    have h0 : 0 ≤ X.val ^ g' := Real.rpow_nonneg hpos.le _
    have p1 := pow_close M hpos.le hz (by norm_num)
    have := abs_sub_abs_le_abs_sub (M.pow X.val g') (X.val ^ g')
    rw [abs_of_nonneg h0] at this
    unfold FP.eps at p1
    linarith

/-- **decode ∘ encode of the Adobe curve pair in `RF M`** on a computed linear value `a` within `3e-12` of a real
`t ≤ 1.001`: the result is within `4.2e-7` of `max t 0` (the exact-real composition,
`Props.C02_curves.adobe_dec_enc_code`).  For `t ≥ 5.95e-8` the error is `≤ 3.7e-8` (Lipschitz estimates of both
curves); below, both the computed and the real value are smaller than `3.5e-7`.  (A relative-error analysis of the
composition would give `≈ 1e-13·t`; not needed against the `3e-4` mismatch of the two Adobe tables.) -/
theorem argb_dec_enc_fp (a : RF M) (t : ℝ) (hat : |a.val - t| ≤ 3e-12) (hhi : t ≤ 1.001) :
    |(F64.compute_argb_gamma (F64.compute_argb_gamma_expanded a)).val - max t 0| ≤ 4.2e-7 := by
  obtain ⟨h1, h2⟩ := abs_le.mp hat
  rcases le_or_gt 5.95e-8 t with ht | ht
  · have ht0 : 0 ≤ t := by linarith
    have e1 := argb_enc_tight M a t 3e-12 hat (by norm_num) ht (by linarith)
    have hp0 : (0:ℝ) ≤ 1 / adobeGamma := by unfold adobeGamma; norm_num
    have hp1 : (1:ℝ) / adobeGamma ≤ 1 := by unfold adobeGamma; norm_num
    have hE0 : 0 ≤ encAdobe t := by unfold encAdobe; exact Real.rpow_nonneg ht0 _
    have hE1 : encAdobe t ≤ 1.001 := by
      unfold encAdobe
      calc t ^ (1 / adobeGamma) ≤ (1.001:ℝ) ^ (1 / adobeGamma) := Real.rpow_le_rpow ht0 hhi hp0
        _ ≤ (1.001:ℝ) ^ (1:ℝ) := Real.rpow_le_rpow_of_exponent_le (by norm_num) hp1
        _ = 1.001 := Real.rpow_one _
    have d1 := argb_dec_tight M (F64.compute_argb_gamma_expanded a) (encAdobe t) (4730 * 3e-12 + 5e-15) e1
      (by norm_num) hE1
    rw [max_eq_left hE0, adobe_dec_enc t ht0] at d1
    rw [max_eq_left ht0]
    exact d1.trans (by norm_num)
  · have ha : a.val ≤ 6e-8 := by linarith
    have s1 := argb_enc_small M a ha
    have s2 := argb_dec_small M _ s1
    have m0 : 0 ≤ max t 0 := le_max_right _ _
    have m1 : max t 0 ≤ 5.95e-8 := max_le ht.le (by norm_num)
    have := abs_sub (F64.compute_argb_gamma (F64.compute_argb_gamma_expanded a)).val (max t 0)
    rw [abs_of_nonneg m0] at this
    linarith

/-- **Adobe RGB round trip of the Adobe-profile XYZ of an 8-bit colour, in `RF M`**: within `3.06e-4` of `x` in every
component; exact-real part `3e-4` (`Lemmas.ArgbRequantF1a.argb_requant_adobe`: the tables `argb::XR..` and
`argb::RR..` are not inverse to each other), rounding part `5.5e-6` -/
theorem argb_roundtrip_fp (c : Rgb) (hr : c.r ≤ 255) (hg : c.g ≤ 255) (hb : c.b ≤ 255) :
    |(Xyz.from_Argb (Argb.from_Xyz (Xyz.from_rgb (α := RF M) c .Adobe))).x.val - (Xyz.from_rgb (α := RF M) c .Adobe).x.val| ≤ 3.06e-4 ∧
    |(Xyz.from_Argb (Argb.from_Xyz (Xyz.from_rgb (α := RF M) c .Adobe))).y.val - (Xyz.from_rgb (α := RF M) c .Adobe).y.val| ≤ 3.06e-4 ∧
    |(Xyz.from_Argb (Argb.from_Xyz (Xyz.from_rgb (α := RF M) c .Adobe))).z.val - (Xyz.from_rgb (α := RF M) c .Adobe).z.val| ≤ 3.06e-4 := by
  obtain ⟨f1, f2, f3⟩ := xyz_fp_close M .Adobe c hr hg hb
  have b1 := xyz_range .Adobe c hr hg hb 0
  have b2 := xyz_range .Adobe c hr hg hb 1
  have b3 := xyz_range .Adobe c hr hg hb 2
  simp only [V3.get] at b1 b2 b3
  obtain ⟨r1, r2, r3⟩ := argb_rows M
  obtain ⟨q1, q2, q3⟩ := rev3_close M r1 r2 r3 (v := xyzF M .Adobe c) (x := mulVec (fwd .Adobe) (lin .Adobe c))
    f1 f2 f3 b1 b2 b3 (by norm_num)
  have u : ∀ k : ℕ, k ≤ 255 → 0 ≤ decAdobe ((k:ℝ) / 255) ∧ decAdobe ((k:ℝ) / 255) ≤ 1 := by
    intro k hk
    exact decAdobe_unit _ (level_nonneg k) (level_le_one hk)
  obtain ⟨m1, m2, m3⟩ := argb_matrix_forward _ _ _ (u _ hr) (u _ hg) (u _ hb)
  have ew : ∀ m : V3, Props.C08.dot m (mulVec (fwd .Adobe) (lin .Adobe c)).1 (mulVec (fwd .Adobe) (lin .Adobe c)).2.1
        (mulVec (fwd .Adobe) (lin .Adobe c)).2.2 =
      Props.C08.dot m (Props.C08.dot C.AX (decAdobe ((c.r:ℝ)/255)) (decAdobe ((c.g:ℝ)/255)) (decAdobe ((c.b:ℝ)/255)))
        (Props.C08.dot C.AY (decAdobe ((c.r:ℝ)/255)) (decAdobe ((c.g:ℝ)/255)) (decAdobe ((c.b:ℝ)/255)))
        (Props.C08.dot C.AZ (decAdobe ((c.r:ℝ)/255)) (decAdobe ((c.g:ℝ)/255)) (decAdobe ((c.b:ℝ)/255))) := by
    intro m
    rw [lin_adobe]
    simp only [mulVec, fwd, dot_eq_c08]
  rw [← ew] at m1 m2 m3
  obtain ⟨_, near⟩ := Lemmas.ArgbRequantF1a.argb_requant_adobe c hr hg hb
  rw [Lemmas.ArgbRequantF1a.argb_rt, from_rgb_eq] at near
  obtain ⟨n1, n2, n3⟩ := near
  simp only [Lemmas.ArgbRequantF1a.back, Lemmas.ArgbRequantF1a.clamp, Lemmas.ArgbRequantF1a.T, toXyz] at n1 n2 n3
  generalize ht1 : Props.C08.dot C.argb_XR (mulVec (fwd .Adobe) (lin .Adobe c)).1 (mulVec (fwd .Adobe) (lin .Adobe c)).2.1
    (mulVec (fwd .Adobe) (lin .Adobe c)).2.2 = t1 at *
  generalize ht2 : Props.C08.dot C.YG (mulVec (fwd .Adobe) (lin .Adobe c)).1 (mulVec (fwd .Adobe) (lin .Adobe c)).2.1
    (mulVec (fwd .Adobe) (lin .Adobe c)).2.2 = t2 at *
  generalize ht3 : Props.C08.dot C.ZB (mulVec (fwd .Adobe) (lin .Adobe c)).1 (mulVec (fwd .Adobe) (lin .Adobe c)).2.1
    (mulVec (fwd .Adobe) (lin .Adobe c)).2.2 = t3 at *
  have hi1 : t1 ≤ 1.001 := by have := (abs_le.mp m1).2; linarith [(u _ hr).2]
  have hi2 : t2 ≤ 1.001 := by have := (abs_le.mp m2).2; linarith [(u _ hg).2]
  have hi3 : t3 ≤ 1.001 := by have := (abs_le.mp m3).2; linarith [(u _ hb).2]
  have d1 := argb_dec_enc_fp M _ t1 (q1.trans (by norm_num)) hi1
  have d2 := argb_dec_enc_fp M _ t2 (q2.trans (by norm_num)) hi2
  have d3 := argb_dec_enc_fp M _ t3 (q3.trans (by norm_num)) hi3
  have mb : ∀ t : ℝ, t ≤ 1.001 → |max t 0| ≤ 3 := by
    intro t ht
    rw [abs_of_nonneg (le_max_right _ _)]; exact max_le (by linarith) (by norm_num)
  obtain ⟨s1, s2, s3⟩ := argb_fwd_rows M
  obtain ⟨p1, p2, p3⟩ := rev3_close M s1 s2 s3 (e := 4.2e-7)
    (v := (F64.compute_argb_gamma (F64.compute_argb_gamma_expanded (dotF' M (xyzF M .Adobe c) C.argb_XR)),
      F64.compute_argb_gamma (F64.compute_argb_gamma_expanded (dotF' M (xyzF M .Adobe c) C.YG)),
      F64.compute_argb_gamma (F64.compute_argb_gamma_expanded (dotF' M (xyzF M .Adobe c) C.ZB))))
    (x := (max t1 0, max t2 0, max t3 0)) d1 d2 d3 (mb _ hi1) (mb _ hi2) (mb _ hi3) (by norm_num)
  rw [from_rgb_eq_fp', argb_from_xyz_fp, xyz_from_argb_fp]
  dsimp only at p1 p2 p3 ⊢
  refine ⟨?_, ?_, ?_⟩
  · have a := abs_sub_le (dotF' M (F64.compute_argb_gamma (F64.compute_argb_gamma_expanded (dotF' M (xyzF M .Adobe c) C.argb_XR)),
        F64.compute_argb_gamma (F64.compute_argb_gamma_expanded (dotF' M (xyzF M .Adobe c) C.YG)),
        F64.compute_argb_gamma (F64.compute_argb_gamma_expanded (dotF' M (xyzF M .Adobe c) C.ZB))) C.RR).val
      (Props.C08.dot C.RR (max t1 0) (max t2 0) (max t3 0)) (mulVec (fwd .Adobe) (lin .Adobe c)).1
    have b := abs_sub_le (dotF' M (F64.compute_argb_gamma (F64.compute_argb_gamma_expanded (dotF' M (xyzF M .Adobe c) C.argb_XR)),
        F64.compute_argb_gamma (F64.compute_argb_gamma_expanded (dotF' M (xyzF M .Adobe c) C.YG)),
        F64.compute_argb_gamma (F64.compute_argb_gamma_expanded (dotF' M (xyzF M .Adobe c) C.ZB))) C.RR).val
      (mulVec (fwd .Adobe) (lin .Adobe c)).1 (xyzF M .Adobe c).1.val
    rw [abs_sub_comm] at f1
    linarith
  · have a := abs_sub_le (dotF' M (F64.compute_argb_gamma (F64.compute_argb_gamma_expanded (dotF' M (xyzF M .Adobe c) C.argb_XR)),
        F64.compute_argb_gamma (F64.compute_argb_gamma_expanded (dotF' M (xyzF M .Adobe c) C.YG)),
        F64.compute_argb_gamma (F64.compute_argb_gamma_expanded (dotF' M (xyzF M .Adobe c) C.ZB))) C.GG).val
      (Props.C08.dot C.GG (max t1 0) (max t2 0) (max t3 0)) (mulVec (fwd .Adobe) (lin .Adobe c)).2.1
    have b := abs_sub_le (dotF' M (F64.compute_argb_gamma (F64.compute_argb_gamma_expanded (dotF' M (xyzF M .Adobe c) C.argb_XR)),
        F64.compute_argb_gamma (F64.compute_argb_gamma_expanded (dotF' M (xyzF M .Adobe c) C.YG)),
        F64.compute_argb_gamma (F64.compute_argb_gamma_expanded (dotF' M (xyzF M .Adobe c) C.ZB))) C.GG).val
      (mulVec (fwd .Adobe) (lin .Adobe c)).2.1 (xyzF M .Adobe c).2.1.val
    rw [abs_sub_comm] at f2
    linarith
  · have a := abs_sub_le (dotF' M (F64.compute_argb_gamma (F64.compute_argb_gamma_expanded (dotF' M (xyzF M .Adobe c) C.argb_XR)),
        F64.compute_argb_gamma (F64.compute_argb_gamma_expanded (dotF' M (xyzF M .Adobe c) C.YG)),
        F64.compute_argb_gamma (F64.compute_argb_gamma_expanded (dotF' M (xyzF M .Adobe c) C.ZB))) C.BB).val
      (Props.C08.dot C.BB (max t1 0) (max t2 0) (max t3 0)) (mulVec (fwd .Adobe) (lin .Adobe c)).2.2
    have b := abs_sub_le (dotF' M (F64.compute_argb_gamma (F64.compute_argb_gamma_expanded (dotF' M (xyzF M .Adobe c) C.argb_XR)),
        F64.compute_argb_gamma (F64.compute_argb_gamma_expanded (dotF' M (xyzF M .Adobe c) C.YG)),
        F64.compute_argb_gamma (F64.compute_argb_gamma_expanded (dotF' M (xyzF M .Adobe c) C.ZB))) C.BB).val
      (mulVec (fwd .Adobe) (lin .Adobe c)).2.2 (xyzF M .Adobe c).2.2.val
    rw [abs_sub_comm] at f3
    linarith

end argbrt

section srgbdec
variable (M : FPModel)

/-- **sRGB decoder in `RF M`, perturbed argument `1e-6` away from the threshold `0.04045`** (`FpEnc.srgb_dec_tight` with a narrow gap): `2.7·e + 1e-14` -/
theorem srgb_dec_tight2 (t : RF M) (v e : ℝ) (htv : |t.val - v| ≤ e) (he : e ≤ 1e-10)
    (hcase : v ≤ 0.040449 ∨ 0.040451 ≤ v) (hlo : -0.001 ≤ v) (hhi : v ≤ 1.001) :
    |(F64.compute_srgb_gamma_expanded t).val - F64.compute_srgb_gamma_expanded v| ≤ 2.7 * e + 1e-14 := by
  have he0 : 0 ≤ e := le_trans (abs_nonneg _) htv
  obtain ⟨ht1, ht2⟩ := abs_le.mp htv
  have l0 := lit_close M 809 20000 (B := 1) (by norm_num) (by norm_num)
  obtain ⟨l01, l02⟩ := abs_le.mp l0
  have bv : |v| ≤ 1.001 := by rw [abs_le]; constructor <;> linarith
  rcases hcase with hL | hP
  · have hc : t.val ≤ M.rnd (((809:ℕ):ℝ) / ((20000:ℕ):ℝ)) := by
      unfold FP.eps at *; push_cast at *; linarith
    rw [Lemmas.Curves.srgb_dec_lin (by linarith)]
    simp only [F64.compute_srgb_gamma_expanded, FltRF.le_eq, FltRF.lit_val, hc, decide_true, if_true, FltRF.div_val]
    have l1 := lit_close M 323 25 (B := 13) (by norm_num) (by norm_num)
    have bq : |v / (((323:ℕ):ℝ) / ((25:ℕ):ℝ))| ≤ 1 := by
      rw [abs_div, abs_of_nonneg (by positivity : (0:ℝ) ≤ ((323:ℕ):ℝ)/((25:ℕ):ℝ)), div_le_one (by positivity)]
      push_cast; linarith
    have d1 := div_close M htv l1 bv (m := 12) (Bq := 1) (by norm_num) (by norm_num [FP.eps]) bq (by norm_num)
    have e' : v / 12.92 = v / (((323:ℕ):ℝ) / ((25:ℕ):ℝ)) := by norm_num
    rw [e']
    refine le_trans d1 ?_
    have : (e * 12 + FP.eps * 13 * 1.001) / (12 * (12 - FP.eps * 13)) ≤ 0.09 * e + 2e-16 := by
      rw [div_le_iff₀ (by norm_num [FP.eps])]; unfold FP.eps; nlinarith
    unfold FP.eps at *
    nlinarith
  · have hc : ¬ t.val ≤ M.rnd (((809:ℕ):ℝ) / ((20000:ℕ):ℝ)) := by
      rw [not_le]; unfold FP.eps at *; push_cast at *; linarith
    rw [Lemmas.Curves.srgb_dec_pow (by linarith)]
    simp only [F64.compute_srgb_gamma_expanded, FltRF.le_eq, FltRF.lit_val, hc, decide_false, if_false, FltRF.div_val, FltRF.add_val, FltRF.pow_val, Bool.false_eq_true]
    have l1 := lit_close M 11 200 (B := 1) (by norm_num) (by norm_num)
    have l2 := lit_close M 211 200 (B := 2) (by norm_num) (by norm_num)
    have l3 := lit_close M 12 5 (B := 3) (by norm_num) (by norm_num)
    have bs : |v + ((11:ℕ):ℝ)/((200:ℕ):ℝ)| ≤ 2 := by
      rw [abs_of_nonneg (by push_cast; linarith)]; push_cast; linarith
    have a1 := add_close M htv l1 bs (by norm_num)
    have bq : |(v + ((11:ℕ):ℝ)/((200:ℕ):ℝ)) / (((211:ℕ):ℝ)/((200:ℕ):ℝ))| ≤ 1.001 := by
      rw [abs_div, abs_of_nonneg (by push_cast; linarith : (0:ℝ) ≤ v + ((11:ℕ):ℝ)/((200:ℕ):ℝ)),
        abs_of_nonneg (by positivity : (0:ℝ) ≤ ((211:ℕ):ℝ)/((200:ℕ):ℝ)), div_le_iff₀ (by positivity)]
      push_cast; linarith
    have d1 := div_close M a1 l2 bs (m := 1) (Bq := 1.001) (by rw [abs_of_nonneg (by positivity)]; norm_num)
      (by norm_num [FP.eps]) bq (by norm_num)
    have ex : (v + 55e-3) / 1.055 = (v + ((11:ℕ):ℝ)/((200:ℕ):ℝ)) / (((211:ℕ):ℝ)/((200:ℕ):ℝ)) := by norm_num
    have ey : (2.4:ℝ) = ((12:ℕ):ℝ)/((5:ℕ):ℝ) := by norm_num
    rw [ex, ey]
    set X : ℝ := (v + ((11:ℕ):ℝ)/((200:ℕ):ℝ)) / (((211:ℕ):ℝ)/((200:ℕ):ℝ)) with hX
    have hXlo : 0.09 ≤ X := by
      rw [hX, le_div_iff₀ (by positivity)]; push_cast; linarith
    have hXhi : X ≤ 1.001 := by
      rw [hX, div_le_iff₀ (by positivity)]; push_cast; linarith
    set e1 : ℝ := (e + FP.eps * 1 + FP.eps * (2 + (e + FP.eps * 1))) with he1
    set e2 : ℝ := (e1 * 1 + FP.eps * 2 * 2) / (1 * (1 - FP.eps * 2)) + FP.eps * (1.001 + (e1 * 1 + FP.eps * 2 * 2) / (1 * (1 - FP.eps * 2))) with he2
    have he2b : e2 ≤ 1.0001 * e + 1.3e-15 := by
      have h1 : (e1 * 1 + FP.eps * 2 * 2) / (1 * (1 - FP.eps * 2)) ≤ 1.00001 * e + 1.1e-15 := by
        rw [div_le_iff₀ (by norm_num [FP.eps])]; rw [he1]; unfold FP.eps; nlinarith
      rw [he2]; unfold FP.eps at *; nlinarith
    have hb0 : 0 < M.rnd (M.rnd (t.val + M.rnd (((11:ℕ):ℝ) / ((200:ℕ):ℝ))) / M.rnd (((211:ℕ):ℝ) / ((200:ℕ):ℝ))) := by
      have := (abs_le.mp d1).1; linarith
    have := Lemmas.FpEnc.pow_dec_close' M hb0 (by linarith) hXhi d1 (by linarith) (y := ((12:ℕ):ℝ)/((5:ℕ):ℝ)) (by norm_num) (by norm_num) l3
    refine this.trans ?_
    nlinarith


theorem decSrgb_range (v : ℝ) (hlo : -0.001 ≤ v) (hhi : v ≤ 1.001) : |Props.C08.decSrgb v| ≤ 3 := by
  rw [← Props.C08.srgb_decode_is_iec]; exact srgb_dec_range v hlo hhi

end srgbdec

end Lemmas.FpEnc2
