import LymuiVerif.Lemmas.FpDefined
import LymuiVerif.Lemmas.FpHexcone
import LymuiVerif.Lemmas.FpGrey
/-!
# Definedness in the rounded model (C04 in floating point): conversions taking an 8-bit `Rgb`

`x_bridge`: the `PRF M` run of the conversion of an 8-bit colour is the lift of the `RF M` run: every division has a
non-zero COMPUTED divisor (the code's guards `min == max`, `0 < max`, `k != 1`, `max != 1 …` decide as in ℝ because
bytes, `max`, `min` and their differences are exact; the remaining denominators are positive by `FpGrey.mk_pos`,
`FpHexcone.den_A_pos`, `FpHexcone.den_B_pos`).
-/
set_option linter.unusedSimpArgs false
set_option linter.unusedVariables false
namespace Lemmas.FpDefined
open Gen Props.C09
variable {M : FPModel}

theorem minmax_bridge (c : Rgb) : (Rgb.get_min_max c : PRF M × PRF M) =
    (RF.lift (Rgb.get_min_max (α := RF M) c).1, RF.lift (Rgb.get_min_max (α := RF M) c).2) := by
  simp only [Rgb.get_min_max, Rgb.as_f64, h_ofNat, h_min, h_max]

/-- the smallest and the largest channel as natural numbers -/
theorem minmax_nat (c : Rgb) (hr : c.r ≤ 255) (hg : c.g ≤ 255) (hb : c.b ≤ 255) :
    ∃ n m : ℕ, n ≤ m ∧ m ≤ 255 ∧ Rgb.get_min_max (α := RF M) c = (⟨(n : ℝ)⟩, ⟨(m : ℝ)⟩) ∧
      (c.r ≤ m ∧ c.g ≤ m ∧ c.b ≤ m) := by
  obtain ⟨em, eM⟩ := cmin_cmax_nat c
  refine ⟨min (min c.r c.g) c.b, max (max c.r c.g) c.b, by omega, by omega, ?_, by omega⟩
  rw [FpHexcone.get_min_max_rf, em, eM]

theorem unit_val (m : ℕ) : ((⟨(m : ℝ)⟩ : RF M) / Flt.lit 0x406FE00000000000 255 1).val = M.rnd ((m : ℝ) / 255) := by
  rw [FltRF.div_val, FltRF.lit_val, FpErr.lit_int M 255 (by norm_num)]; norm_num

theorem yuv_bridge (c : Rgb) : (Yuv.from_Rgb c : Yuv (PRF M)) = liftYuv (Yuv.from_Rgb c) := by
  simp (disch := lit_side) only [Yuv.from_Rgb, Rgb.as_f64, liftYuv, h_lit, h_ofNat, h_add, h_sub, h_mul, h_div]

theorem cymk_bridge (c : Rgb) (hr : c.r ≤ 255) (hg : c.g ≤ 255) (hb : c.b ≤ 255) :
    (Cymk.from_Rgb c : Cymk (PRF M)) = liftCymk (Cymk.from_Rgb c) := by
  obtain ⟨n, m, hnm, hm, e, -⟩ := minmax_nat (M := M) c hr hg hb
  unfold Cymk.from_Rgb
  rw [minmax_bridge, e]
  simp (disch := lit_side) only [Rgb.as_f64, Cymk.default, h_lit, h_ofNat, h_div, h_sub, h_beq]
  refine ite_not_map liftCymk (fun h => ?_) (fun h => rfl)
  have hk : (Flt.lit 0x3FF0000000000000 1 1 - (⟨(m : ℝ)⟩ : RF M) / Flt.lit 0x406FE00000000000 255 1 : RF M).val =
      M.rnd (1 - M.rnd ((m : ℝ) / 255)) := by
    rw [FltRF.sub_val, unit_val, lit_int_val _ 1 (by norm_num)]; norm_num
  have hmk : (Flt.lit 0x3FF0000000000000 1 1 -
      (Flt.lit 0x3FF0000000000000 1 1 - (⟨(m : ℝ)⟩ : RF M) / Flt.lit 0x406FE00000000000 255 1) : RF M).val ≠ 0 := by
    rw [FltRF.sub_val, hk, lit_int_val _ 1 (by norm_num)]
    rcases Nat.eq_zero_or_pos m with h0 | h1
    · exfalso
      simp only [FltRF.beq_eq, decide_eq_false_iff_not, hk, lit_int_val _ 1 (by norm_num : 1 ≤ 2 ^ 53)] at h
      apply h; subst h0; simp [FpErr.rnd_zero, FpErr.rnd_one]
    · have := FpGrey.mk_pos M m hm h1
      push_cast; exact this.ne'
  simp (disch := assumption) only [h_div, liftCymk]

theorem hue_bridge (c : Rgb) (hr : c.r ≤ 255) (hg : c.g ≤ 255) (hb : c.b ≤ 255) :
    (F64.from_Rgb c : PRF M) = RF.lift (F64.from_Rgb c) := by
  obtain ⟨n, m, hnm, hm, e, -⟩ := minmax_nat (M := M) c hr hg hb
  unfold F64.from_Rgb
  rw [minmax_bridge, e]
  simp only [h_beq]
  refine ite_bridge (fun h => rfl) (fun h => ?_)
  simp only [FltRF.beq_eq, decide_eq_false_iff_not] at h
  have hd : ((⟨(m : ℝ)⟩ : RF M) - ⟨(n : ℝ)⟩).val ≠ 0 := by
    rw [FltRF.sub_val, FpHexcone.rnd_natsub M m n hm (le_trans hnm hm)]
    exact sub_ne_zero.mpr (Ne.symm h)
  have h360 : (Flt.lit 0x4076800000000000 360 1 : RF M).val ≠ 0 := by lit_side
  simp (disch := assumption) only [Rgb.as_f64, h_ofNat, h_lit, h_beq, h_lt, h_sub, h_div, h_mul, h_add, h_round, h_rem,
    h_ite]
  rfl

/-- `Hsl::compute_saturation` on `min/255`, `max/255`: under the code's guards the COMPUTED denominators are positive
(`FpHexcone.den_A_pos`, `den_B_pos`), in every model -/
theorem sat_bridge (n m : ℕ) (hnm : n ≤ m) (hm : m ≤ 255) (a' b' l : RF M)
    (ha' : a'.val = M.rnd ((n : ℝ) / 255)) (hb' : b'.val = M.rnd ((m : ℝ) / 255)) :
    Hsl.compute_saturation (RF.lift a') (RF.lift b') (RF.lift l) = RF.lift (Hsl.compute_saturation a' b' l) := by
  have one : (Flt.lit 0x3FF0000000000000 1 1 : RF M).val = 1 := by rw [lit_int_val _ 1 (by norm_num)]; norm_num
  have two : (Flt.lit 0x4000000000000000 2 1 : RF M).val = 2 := by rw [lit_int_val _ 2 (by norm_num)]; norm_num
  have r0 : M.rnd ((0 : ℝ) / 255) = 0 := by rw [zero_div, FpErr.rnd_zero]
  have r1 : M.rnd ((255 : ℝ) / 255) = 1 := by rw [div_self (by norm_num), FpErr.rnd_one]
  -- denominator A is non-zero as soon as one of the two white tests fails
  have A : (b'.val ≠ 1 ∨ a'.val ≠ 1) → ((Flt.lit 0x4000000000000000 2 1 - b') - a' : RF M).val ≠ 0 := by
    intro h
    have hn : n ≤ 254 := by
      by_contra hc
      have e1 : n = 255 := by omega
      have e2 : m = 255 := by omega
      subst e1 e2
      rcases h with h | h
      · apply h; rw [hb']; exact_mod_cast r1
      · apply h; rw [ha']; exact_mod_cast r1
    have := FpHexcone.den_A_pos M n m hm hn
    rw [FltRF.sub_val, FltRF.sub_val, two, ha', hb']; exact this.ne'
  have B : (b'.val ≠ 0 ∨ a'.val ≠ 0) → (b' + a' : RF M).val ≠ 0 := by
    intro h
    have hm1 : 1 ≤ m := by
      by_contra hc
      have e2 : m = 0 := by omega
      have e1 : n = 0 := by omega
      subst e1 e2
      rcases h with h | h
      · apply h; rw [hb']; exact_mod_cast r0
      · apply h; rw [ha']; exact_mod_cast r0
    have := FpHexcone.den_B_pos M n m hnm hm hm1
    rw [FltRF.add_val, ha', hb']; exact this.ne'
  unfold Hsl.compute_saturation
  simp only [h_lit, h_lt, h_beq, h_sub, h_add]
  have dA : (b'.val ≠ 1 ∨ a'.val ≠ 1) →
      RF.lift (b' - a') / RF.lift ((Flt.lit 0x4000000000000000 2 1 - b') - a') =
        RF.lift ((b' - a') / ((Flt.lit 0x4000000000000000 2 1 - b') - a')) := fun h => h_div _ _ (A h)
  have dB : (b'.val ≠ 0 ∨ a'.val ≠ 0) → RF.lift (b' - a') / RF.lift (b' + a') = RF.lift ((b' - a') / (b' + a')) :=
    fun h => h_div _ _ (B h)
  have z : (Flt.lit 0x0000000000000000 0 1 : RF M).val = 0 := lit_zero _
  have tail : (if Flt.beq b' (Flt.lit 0x0000000000000000 0 1) = true then
        if Flt.beq a' (Flt.lit 0x0000000000000000 0 1) = true then RF.lift (Flt.lit 0x0000000000000000 0 1)
        else RF.lift (b' - a') / RF.lift (b' + a')
      else RF.lift (b' - a') / RF.lift (b' + a')) =
      RF.lift (if Flt.beq b' (Flt.lit 0x0000000000000000 0 1) = true then
        if Flt.beq a' (Flt.lit 0x0000000000000000 0 1) = true then Flt.lit 0x0000000000000000 0 1
        else (b' - a') / (b' + a')
      else (b' - a') / (b' + a')) := by
    refine ite_bridge (fun h1 => ite_bridge (fun _ => rfl) (fun h2 => ?_)) (fun h1 => ?_)
    · simp only [FltRF.beq_eq, decide_eq_false_iff_not, z] at h2; exact dB (Or.inr h2)
    · simp only [FltRF.beq_eq, decide_eq_false_iff_not, z] at h1; exact dB (Or.inl h1)
  refine ite_bridge (fun _ => ?_) (fun _ => tail)
  refine ite_not_map RF.lift (fun h1 => ?_) (fun _ => ?_)
  · simp only [FltRF.beq_eq, decide_eq_false_iff_not, one] at h1; exact dA (Or.inl h1)
  · refine ite_not_map RF.lift (fun h2 => ?_) (fun _ => tail)
    simp only [FltRF.beq_eq, decide_eq_false_iff_not, one] at h2; exact dA (Or.inr h2)

theorem hsl_bridge (c : Rgb) (hr : c.r ≤ 255) (hg : c.g ≤ 255) (hb : c.b ≤ 255) :
    (Hsl.from_Rgb c : Hsl (PRF M)) = liftHsl (Hsl.from_Rgb c) := by
  obtain ⟨n, m, hnm, hm, e, -⟩ := minmax_nat (M := M) c hr hg hb
  unfold Hsl.from_Rgb
  rw [minmax_bridge, hue_bridge c hr hg hb, e]
  simp (disch := lit_side) only [h_lit, h_div, h_add]
  rw [sat_bridge n m hnm hm _ _ _ (unit_val n) (unit_val m)]
  simp only [h_mul, liftHsl]

theorem hsv_bridge (c : Rgb) (hr : c.r ≤ 255) (hg : c.g ≤ 255) (hb : c.b ≤ 255) :
    (Hsv.from_Rgb c : Hsv (PRF M)) = liftHsv (Hsv.from_Rgb c) := by
  unfold Hsv.from_Rgb
  rw [minmax_bridge, hue_bridge c hr hg hb]
  generalize (Rgb.get_min_max (α := RF M) c) = mm
  obtain ⟨mn, mx⟩ := mm
  simp only [h_lit, h_lt, h_sub]
  refine ite_map liftHsv (fun h => ?_) (fun h => ?_)
  · simp only [FltRF.lt_eq, decide_eq_true_eq, lit_zero] at h
    have : mx.val ≠ 0 := h.ne'
    simp (disch := lit_side) only [h_div, h_mul, liftHsv]
  · simp (disch := lit_side) only [h_div, h_mul, liftHsv]

theorem hwb_bridge (c : Rgb) (hr : c.r ≤ 255) (hg : c.g ≤ 255) (hb : c.b ≤ 255) :
    (Hwb.from_Rgb c : Hwb (PRF M)) = liftHwb (Hwb.from_Rgb c) := by
  unfold Hwb.from_Rgb
  rw [hsv_bridge c hr hg hb]
  simp (disch := lit_side) only [liftHsv, liftHwb, h_lit, h_div, h_sub, h_mul]

theorem srgb_bridge (c : Rgb) : (Srgb.from_Rgb c : Srgb (PRF M)) = liftSrgb (Srgb.from_Rgb c) := by
  simp (disch := lit_side) only [Srgb.from_Rgb, Rgb.as_f64, liftSrgb, h_lit, h_ofNat, h_div, srgb_expand]

theorem argb_bridge (c : Rgb) : (Argb.from_Rgb c : Argb (PRF M)) = liftArgb (Argb.from_Rgb c) := by
  simp (disch := lit_side) only [Argb.from_Rgb, Rgb.as_f64, liftArgb, h_lit, h_ofNat, h_div, argb_gamma]

/-- XYZ of a colour under all three profiles: no side condition at all (the decoding curves test their own argument,
the matrix product has no partial operation) -/
theorem xyz_bridge (c : Rgb) (k : XyzKind) : (Xyz.from_rgb c k : Xyz (PRF M)) = liftXyz (Xyz.from_rgb c k) := by
  cases k <;>
  simp only [Xyz.from_rgb, srgb_bridge, argb_bridge, Xyz.compute_xyz_from_matrix, liftXyz, liftSrgb, liftArgb,
    Srgb.as_f64, Argb.as_f64, C.X50, C.Y50, C.Z50, C.X65, C.Y65, C.Z65, C.AX, C.AY, C.AZ, h_lit, h_mul, h_add]

/-! ## byte-valued conversions: the `PRF M` run returns the bytes of the `RF M` run (no NaN reaches `as u8`) -/

theorem gray_bridge (c : Rgb) (k : GrayscaleKind) : GrayScale.from_rgb (PRF M) c k = GrayScale.from_rgb (RF M) c k := by
  cases k <;>
  simp (disch := lit_side) only [GrayScale.from_rgb, minmax_bridge, Rgb.as_f64, h_ofNat, h_lit, h_add, h_mul, h_div, h_toU8]

theorem ycbcr_bridge (c : Rgb) : Ycbcr.from_Rgb (PRF M) c = Ycbcr.from_Rgb (RF M) c := by
  simp (disch := lit_side) only [Ycbcr.from_Rgb, Ycbcr.calculate_indices, h_neg, Rgb.as_f64, h_ofNat, h_lit, h_add, h_sub, h_mul, h_div, h_toU8, h_round]

theorem ansi_bridge (c : Rgb) (k : AnsiKind) : Ansi.from_rgb (PRF M) c k = Ansi.from_rgb (RF M) c k := by
  cases k <;>
  (simp (disch := lit_side) only [Ansi.from_rgb, minmax_bridge, Rgb.as_f64, h_ofNat, h_lit, h_add, h_sub, h_mul, h_div,
    h_toU8, h_round, h_beq]
   try rfl)
end Lemmas.FpDefined
