import LymuiVerif.Lemmas.FpDefinedXyz
/-!
# Definedness in the rounded model (C04 in floating point): the conversions back to XYZ

Unconditional (every finite input, every model): sRGB, Adobe RGB, Rec.709, Rec.2020 (decoding curves test their own
argument), CIELAB (`powi 3`, division by the literal κ), LCh(ab), OkLab (`max(·, 0)` before `powf(1/2.2)`), OkLch, xyY
(the guard `y == 0` is on the divisor itself), and the polar → rectangular steps.
-/
set_option linter.unusedSimpArgs false
set_option linter.unusedVariables false
namespace Lemmas.FpDefined
open Gen
variable {M : FPModel}

theorem liftArgb_r (p : Argb (RF M)) : (liftArgb p).r = RF.lift p.r := rfl
theorem liftArgb_g (p : Argb (RF M)) : (liftArgb p).g = RF.lift p.g := rfl
theorem liftArgb_b (p : Argb (RF M)) : (liftArgb p).b = RF.lift p.b := rfl
theorem liftRec709_r (p : Rec709 (RF M)) : (liftRec709 p).r = RF.lift p.r := rfl
theorem liftRec709_g (p : Rec709 (RF M)) : (liftRec709 p).g = RF.lift p.g := rfl
theorem liftRec709_b (p : Rec709 (RF M)) : (liftRec709 p).b = RF.lift p.b := rfl
theorem liftRec2020_r (p : Rec2020 (RF M)) : (liftRec2020 p).r = RF.lift p.r := rfl
theorem liftRec2020_g (p : Rec2020 (RF M)) : (liftRec2020 p).g = RF.lift p.g := rfl
theorem liftRec2020_b (p : Rec2020 (RF M)) : (liftRec2020 p).b = RF.lift p.b := rfl
theorem liftRec2100_r (p : Rec2100 (RF M)) : (liftRec2100 p).r = RF.lift p.r := rfl
theorem liftRec2100_g (p : Rec2100 (RF M)) : (liftRec2100 p).g = RF.lift p.g := rfl
theorem liftRec2100_b (p : Rec2100 (RF M)) : (liftRec2100 p).b = RF.lift p.b := rfl
theorem liftLchlab_l (p : Lchlab (RF M)) : (liftLchlab p).l = RF.lift p.l := rfl
theorem liftLchlab_c (p : Lchlab (RF M)) : (liftLchlab p).c = RF.lift p.c := rfl
theorem liftLchlab_h (p : Lchlab (RF M)) : (liftLchlab p).h = RF.lift p.h := rfl
theorem liftLchuv_l (p : Lchuv (RF M)) : (liftLchuv p).l = RF.lift p.l := rfl
theorem liftLchuv_c (p : Lchuv (RF M)) : (liftLchuv p).c = RF.lift p.c := rfl
theorem liftLchuv_h (p : Lchuv (RF M)) : (liftLchuv p).h = RF.lift p.h := rfl
theorem liftHcl_h (p : Hcl (RF M)) : (liftHcl p).h = RF.lift p.h := rfl
theorem liftHcl_c (p : Hcl (RF M)) : (liftHcl p).c = RF.lift p.c := rfl
theorem liftHcl_l (p : Hcl (RF M)) : (liftHcl p).l = RF.lift p.l := rfl
theorem liftHlab_l (p : Hlab (RF M)) : (liftHlab p).l = RF.lift p.l := rfl
theorem liftHlab_a (p : Hlab (RF M)) : (liftHlab p).a = RF.lift p.a := rfl
theorem liftHlab_b (p : Hlab (RF M)) : (liftHlab p).b = RF.lift p.b := rfl
theorem liftXyy_x (p : Xyy (RF M)) : (liftXyy p).x = RF.lift p.x := rfl
theorem liftXyy_y (p : Xyy (RF M)) : (liftXyy p).y = RF.lift p.y := rfl
theorem liftXyy_Y (p : Xyy (RF M)) : (liftXyy p)._y = RF.lift p._y := rfl
theorem liftOkLch_l (p : OkLch (RF M)) : (liftOkLch p).l = RF.lift p.l := rfl
theorem liftOkLch_c (p : OkLch (RF M)) : (liftOkLch p).c = RF.lift p.c := rfl
theorem liftOkLch_h (p : OkLch (RF M)) : (liftOkLch p).h = RF.lift p.h := rfl

theorem xyz_from_srgb (p : Srgb (RF M)) : Xyz.from_Srgb (liftSrgb p) = liftXyz (Xyz.from_Srgb p) := by
  simp only [Xyz.from_Srgb, liftSrgb_r, liftSrgb_g, liftSrgb_b, srgb_expand, liftXyz, C.X65, C.Y65, C.Z65, h_lit, h_mul,
    h_add]

theorem xyz_from_argb (p : Argb (RF M)) : Xyz.from_Argb (liftArgb p) = liftXyz (Xyz.from_Argb p) := by
  simp only [Xyz.from_Argb, liftArgb_r, liftArgb_g, liftArgb_b, argb_gamma, liftXyz, C.RR, C.GG, C.BB, h_lit, h_mul,
    h_add]

theorem xyz_from_rec709 (p : Rec709 (RF M)) : Xyz.from_Rec709 (liftRec709 p) = liftXyz (Xyz.from_Rec709 p) := by
  simp only [Xyz.from_Rec709, liftRec709_r, liftRec709_g, liftRec709_b, rec709_expand, liftXyz, C.X65, C.Y65, C.Z65,
    h_lit, h_mul, h_add]

theorem xyz_from_rec2020 (p : Rec2020 (RF M)) : Xyz.from_Rec2020 (liftRec2020 p) = liftXyz (Xyz.from_Rec2020 p) := by
  simp only [Xyz.from_Rec2020, liftRec2020_r, liftRec2020_g, liftRec2020_b, rec2020_expand, liftXyz, C.XX, C.XY, C.XZ,
    h_lit, h_mul, h_add]

theorem reverse_f_bridge (x : RF M) : Lab.reverse_compute_f (RF.lift x) = RF.lift (Lab.reverse_compute_f x) := by
  unfold Lab.reverse_compute_f
  simp (disch := first | lit_side | norm_num) only [C.EPSILON, C.KAPPA, h_lit, h_powi, h_lt, h_mul, h_sub, h_div, h_ite]
  rfl

theorem xyz_from_lab (p : Lab (RF M)) : Xyz.from_Lab (liftLab p) = liftXyz (Xyz.from_Lab p) := by
  unfold Xyz.from_Lab
  simp (disch := first | lit_side | norm_num) only [liftLab_l, liftLab_a, liftLab_b, C.D65, C.EPSILON, C.KAPPA, h_lit,
    h_add, h_sub, h_div, h_mul, reverse_f_bridge, h_powi, h_lt]
  refine ite_map liftXyz (fun _ => rfl) (fun _ => rfl)

theorem lab_from_lchlab (p : Lchlab (RF M)) : Lab.from_Lchlab (liftLchlab p) = liftLab (Lab.from_Lchlab p) := by
  simp only [Lab.from_Lchlab, liftLchlab_l, liftLchlab_c, liftLchlab_h, radian_bridge, h_cos, h_sin, h_mul, liftLab]

theorem xyz_from_lchlab (p : Lchlab (RF M)) : Xyz.from_Lchlab (liftLchlab p) = liftXyz (Xyz.from_Lchlab p) := by
  unfold Xyz.from_Lchlab; rw [lab_from_lchlab, xyz_from_lab]

theorem luv_from_lchuv (p : Lchuv (RF M)) : Luv.from_Lchuv (liftLchuv p) = liftLuv (Luv.from_Lchuv p) := by
  simp only [Luv.from_Lchuv, liftLchuv_l, liftLchuv_c, liftLchuv_h, radian_bridge, h_cos, h_sin, h_mul, liftLuv]

theorem luv_from_hcl (p : Hcl (RF M)) : Luv.from_Hcl (liftHcl p) = liftLuv (Luv.from_Hcl p) := by
  simp only [Luv.from_Hcl, liftHcl_l, liftHcl_c, liftHcl_h, radian_bridge, h_cos, h_sin, h_mul, liftLuv]

theorem oklab_from_oklch (p : OkLch (RF M)) : OkLab.from_OkLch (liftOkLch p) = liftOkLab (OkLab.from_OkLch p) := by
  simp only [OkLab.from_OkLch, liftOkLch_l, liftOkLch_c, liftOkLch_h, h_cos, h_sin, h_mul, liftOkLab]

theorem srgb_from_oklab (p : OkLab (RF M)) : Srgb.from_OkLab (liftOkLab p) = liftSrgb (Srgb.from_OkLab p) := by
  unfold Srgb.from_OkLab
  have e : ∀ q : Srgb (RF M), (⟨RF.lift q.r, RF.lift q.g, RF.lift q.b⟩ : Srgb (PRF M)) = liftSrgb q := fun _ => rfl
  simp (disch := norm_num) only [liftOkLab_l, liftOkLab_a, liftOkLab_b, C.ROL, C.ROM, C.ROS, C.ROR, C.ROG, C.ROB, h_lit,
    h_neg, h_mul, h_add, h_sub, h_powi]
  exact as_non_linear_bridge ⟨_, _, _⟩

theorem xyz_from_oklab (p : OkLab (RF M)) : Xyz.from_OkLab (liftOkLab p) = liftXyz (Xyz.from_OkLab p) := by
  unfold Xyz.from_OkLab; rw [srgb_from_oklab, xyz_from_srgb]

theorem xyz_from_oklch (p : OkLch (RF M)) : Xyz.from_OkLch (liftOkLch p) = liftXyz (Xyz.from_OkLch p) := by
  unfold Xyz.from_OkLch; rw [oklab_from_oklch, xyz_from_oklab]

/-- xyY → XYZ: the guard `y == 0` is on the divisor itself -/
theorem xyz_from_xyy (p : Xyy (RF M)) : Xyz.from_Xyy (liftXyy p) = liftXyz (Xyz.from_Xyy p) := by
  unfold Xyz.from_Xyy
  simp only [liftXyy_x, liftXyy_y, liftXyy_Y, h_lit, h_beq]
  refine ite_map liftXyz (fun _ => rfl) (fun c => ?_)
  simp only [FltRF.beq_eq, decide_eq_false_iff_not, lit_zero] at c
  simp (disch := assumption) only [h_mul, h_sub, h_div, liftXyz]

/-! ## PQ inverse, Rec.2100 → XYZ -/

/-- `powf` of a non-negative base is at worst `-η` in the model (the model bounds the error only) -/
theorem pow_ge_neg_eta (x y : ℝ) (hx : 0 ≤ x) : -FP.eta ≤ M.pow x y := by
  have h := (abs_le.mp (M.pow_err x y hx)).1
  have h0 : 0 ≤ x ^ y := Real.rpow_nonneg hx y
  rw [abs_of_nonneg h0] at h
  have hu : 2 * FP.u ≤ 1 := by have := FP.u_lt; linarith
  nlinarith

theorem rnd_ge_small {t : ℝ} (h : -(1 / 10 ^ 100) ≤ t) : -(1 / 10 ^ 99) ≤ M.rnd t := by
  rcases le_or_gt 0 t with h0 | h0
  · exact le_trans (by norm_num) (FpErr.rnd_nonneg M h0)
  · have e := (abs_le.mp (M.rnd_err t)).1
    rw [abs_of_neg h0] at e
    have hu := FP.u_lt
    have he := FP.eta_lt
    have hup := FP.u_pos
    have : (1 : ℝ) / 10 ^ 240 ≤ 1 / 10 ^ 100 := by norm_num
    nlinarith

theorem mul_ge_small {k e : ℝ} (hk0 : 0 ≤ k) (hk : k ≤ 100) (he : -FP.eta ≤ e) : -(1 / 10 ^ 100) ≤ k * e := by
  have h := FP.eta_lt
  have hp := FP.eta_pos
  rcases le_or_gt 0 e with h0 | h0
  · exact le_trans (by norm_num) (mul_nonneg hk0 h0)
  · have : (1 : ℝ) / 10 ^ 240 * 100 ≤ 1 / 10 ^ 100 := by norm_num
    nlinarith

theorem pq_inv_nonneg (x : RF M) (hx : 0 ≤ x.val) :
    F64.pq_inverse_eotf (RF.lift x) = RF.lift (F64.pq_inverse_eotf x) := by
  unfold F64.pq_inverse_eotf
  have hb : 0 ≤ (x / (Flt.lit 0x40C3880000000000 10000 1) : RF M).val := by fp_nonneg
  have e1 : Flt.pow (RF.lift x / (Flt.lit 0x40C3880000000000 10000 1)) (Flt.lit 0x3FC4640000000000 1305 8192) =
      RF.lift (Flt.pow (x / (Flt.lit 0x40C3880000000000 10000 1)) (Flt.lit 0x3FC4640000000000 1305 8192)) := by
    simp (disch := fp_side) only [h_lit, h_div, h_pow_nonneg]
  simp only [e1]
  have he : -FP.eta ≤ (Flt.pow (x / (Flt.lit 0x40C3880000000000 10000 1)) (Flt.lit 0x3FC4640000000000 1305 8192) : RF M).val := by
    rw [FltRF.pow_val]; exact pow_ge_neg_eta _ _ hb
  generalize (Flt.pow (x / (Flt.lit 0x40C3880000000000 10000 1)) (Flt.lit 0x3FC4640000000000 1305 8192) : RF M) = e at he
  simp only [h_lit, h_add, h_mul, h_beq]
  refine ite_bridge (fun _ => rfl) (fun _ => ?_)
  -- a sum `a + k·e` with `a ≥ 1/4`, `0 ≤ k ≤ 100`, `e ≥ -η` is computed positive
  have key : ∀ (a k : RF M), 1 / 4 ≤ a.val → 0 ≤ k.val → k.val ≤ 100 → 0 < (a + k * e : RF M).val := by
    intro a k ha hk0 hk
    simp only [FltRF.add_val, FltRF.mul_val]
    have := rnd_ge_small (M := M) (mul_ge_small hk0 hk he)
    exact rnd_pos (by norm_num at this ⊢; linarith)
  have lit_le : ∀ (b : UInt64) (n d : ℕ) (N : ℕ), N ≤ 2 ^ 53 → (n : ℝ) / d ≤ N → (Flt.lit b n d : RF M).val ≤ N :=
    fun b n d N hN h => FpErr.rnd_le_nat M N hN h
  have hnum := key (Flt.lit 0x3FEAC00000000000 107 128) (Flt.lit 0x4032DA0000000000 2413 128)
    (by have := rnd_half (M := M) (x := ((107 : ℕ) : ℝ) / ((128 : ℕ) : ℝ)) (by norm_num)
        simp only [FltRF.lit_val]; norm_num at this ⊢; linarith)
    (lit_nonneg _ _ _) (by have := lit_le 0x4032DA0000000000 2413 128 100 (by norm_num) (by norm_num); exact_mod_cast this)
  have hden := key (Flt.lit 0x3FF0000000000000 1 1) (Flt.lit 0x4032B00000000000 299 16)
    (by rw [lit_int_val _ 1 (by norm_num)]; norm_num)
    (lit_nonneg _ _ _) (by have := lit_le 0x4032B00000000000 299 16 100 (by norm_num) (by norm_num); exact_mod_cast this)
  have hd : (Flt.lit 0x3FF0000000000000 1 1 + Flt.lit 0x4032B00000000000 299 16 * e : RF M).val ≠ 0 := hden.ne'
  have hq : 0 ≤ ((Flt.lit 0x3FEAC00000000000 107 128 + Flt.lit 0x4032DA0000000000 2413 128 * e) /
      (Flt.lit 0x3FF0000000000000 1 1 + Flt.lit 0x4032B00000000000 299 16 * e) : RF M).val := by
    rw [FltRF.div_val]; exact FpErr.rnd_nonneg M (div_nonneg hnum.le hden.le)
  simp (disch := fp_side) only [h_div, h_pow_nonneg]

theorem xyz_from_rec2100 (p : Rec2100 (RF M)) (hr : 0 ≤ p.r.val) (hg : 0 ≤ p.g.val) (hb : 0 ≤ p.b.val) :
    Xyz.from_Rec2100 (liftRec2100 p) = liftXyz (Xyz.from_Rec2100 p) := by
  simp only [Xyz.from_Rec2100, liftRec2100_r, liftRec2100_g, liftRec2100_b, pq_inv_nonneg _ hr, pq_inv_nonneg _ hg,
    pq_inv_nonneg _ hb, liftXyz, C.XX, C.XY, C.XZ, h_lit, h_mul, h_add]

/-- a negative argument is a negative base of `powf`: NaN (IEEE as well, the exponents are not integers) -/
theorem pq_eotf_neg (x : ℝ) (hx : x < 0) : F64.pq_eotf (PRF.fin x : PRF M) = PRF.nan := by
  unfold F64.pq_eotf
  have e1 : Flt.pow (PRF.fin x : PRF M) ((Flt.lit 0x3FF0000000000000 1 1) / (Flt.lit 0x4053B60000000000 2523 32)) =
      PRF.nan := by
    have hne : (Flt.lit 0x4053B60000000000 2523 32 : RF M).val ≠ 0 := by lit_side
    rw [h_lit, h_lit, h_div _ _ hne, FltPRF.lift_eq]
    exact FltPRF.pow_neg _ _ hx
  simp only [e1]
  rfl

/-! ## Hunter Lab → XYZ -/

/-- defined when the computed `l / Yn` and the computed `powf(l / Yn, 2.0)` are `≥ 0` (the latter is the `sqrt`
argument up to positive factors) -/
theorem xyz_from_hlab_of (p : Hlab (RF M)) (hb0 : 0 ≤ (p.l / (C.YN : RF M)).val)
    (hpw : 0 ≤ (Flt.pow (p.l / (C.YN : RF M)) (Flt.lit 0x4000000000000000 2 1) : RF M).val) :
    Xyz.from_Hlab (liftHlab p) = liftXyz (Xyz.from_Hlab p) := by
  unfold Xyz.from_Hlab
  have hyn : (C.YN : RF M).val ≠ 0 := by simp only [C.YN]; lit_side
  have hyn0 : 0 ≤ (C.YN : RF M).val := by simp only [C.YN]; lit_side
  have eyn : (C.YN : PRF M) = RF.lift (C.YN : RF M) := rfl
  have exn : (C.XN : PRF M) = RF.lift (C.XN : RF M) := rfl
  have ezn : (C.ZN : PRF M) = RF.lift (C.ZN : RF M) := rfl
  have ek : (Hlab.get_ka_kb : PRF M × PRF M) = liftPair (Hlab.get_ka_kb : RF M × RF M) := by
    simp (disch := lit_side) only [Hlab.get_ka_kb, eyn, exn, ezn, h_lit, h_div, h_add, h_mul, liftPair]
  -- ka, kb are positive
  have kpos : ∀ (a b c d : RF M), 1 / 10 ^ 3 ≤ a.val → 0 < b.val → b.val ≤ 1000 → 1 ≤ c.val → 0 ≤ d.val →
      ((a / b) * (c + d) : RF M).val ≠ 0 := by
    intro a b c d ha hb hb' hc hd
    simp only [FltRF.mul_val, FltRF.div_val, FltRF.add_val]
    have h1 : 1 / 10 ^ 6 ≤ a.val / b.val := by
      rw [le_div_iff₀ hb]; norm_num at ha ⊢; nlinarith
    have h2 := rnd_half (M := M) (x := a.val / b.val) (le_trans (by norm_num) h1)
    have h3 : (1 : ℝ) ≤ M.rnd (c.val + d.val) := by
      have := FpErr.nat_le_rnd M 1 (by norm_num) (x := c.val + d.val) (by push_cast; linarith)
      exact_mod_cast this
    apply (rnd_pos _).ne'
    have : 1 / 10 ^ 7 ≤ M.rnd (a.val / b.val) * M.rnd (c.val + d.val) := by
      norm_num at h1 h2 ⊢; nlinarith
    exact le_trans (by norm_num) this
  have lit_le : ∀ (b : UInt64) (n d : ℕ) (N : ℕ), N ≤ 2 ^ 53 → (n : ℝ) / d ≤ N → (Flt.lit b n d : RF M).val ≤ N :=
    fun b n d N hN h => FpErr.rnd_le_nat M N hN h
  have lit_ge1 : ∀ (b : UInt64) (n d : ℕ), (1 : ℝ) ≤ (n : ℝ) / d → 1 ≤ (Flt.lit b n d : RF M).val := by
    intro b n d h
    have := FpErr.nat_le_rnd M 1 (by norm_num) (x := (n : ℝ) / d) (by push_cast; exact h)
    exact_mod_cast this
  have hka : (Hlab.get_ka_kb : RF M × RF M).1.val ≠ 0 := by
    simp only [Hlab.get_ka_kb, C.YN, C.XN]
    refine kpos _ _ _ _ ?_ (lit_pos _ _ _ (by norm_num)) ?_ (lit_ge1 _ _ _ (by norm_num)) (lit_nonneg _ _ _)
    · rw [lit_int_val _ 175 (by norm_num)]; norm_num
    · have := lit_le 0x4068C147AE147AE1 4951 25 1000 (by norm_num) (by norm_num); exact_mod_cast this
  have hkb : (Hlab.get_ka_kb : RF M × RF M).2.val ≠ 0 := by
    simp only [Hlab.get_ka_kb, C.YN, C.ZN]
    refine kpos _ _ _ _ ?_ (lit_pos _ _ _ (by norm_num)) ?_ (lit_ge1 _ _ _ (by norm_num)) (lit_nonneg _ _ _)
    · rw [lit_int_val _ 70 (by norm_num)]; norm_num
    · have := lit_le 0x406B43851EB851EC 21811 100 1000 (by norm_num) (by norm_num); exact_mod_cast this
  rw [ek]
  have h2 : 0 < (Flt.lit 0x4000000000000000 2 1 : RF M).val := by lit_side
  have hy5 : 0 ≤ (Flt.pow (p.l / (C.YN : RF M)) (Flt.lit 0x4000000000000000 2 1) * Flt.lit 0x4059000000000000 100 1 : RF M).val := by
    rw [FltRF.mul_val]
    exact FpErr.rnd_nonneg M (mul_nonneg hpw (lit_nonneg _ _ _))
  have hs : 0 ≤ ((Flt.pow (p.l / (C.YN : RF M)) (Flt.lit 0x4000000000000000 2 1) * Flt.lit 0x4059000000000000 100 1) /
      (C.YN : RF M) : RF M).val := by
    rw [FltRF.div_val]; exact FpErr.rnd_nonneg M (div_nonneg hy5 hyn0)
  simp (disch := first | assumption | lit_side) only [liftHlab_l, liftHlab_a, liftHlab_b, eyn, exn, ezn, liftPair_1,
    liftPair_2, h_lit, h_div, h_pow_nonneg, h_mul, h_sqrt, h_add, h_sub, liftXyz]

/-- defined when the computed `l / Yn` is a normal positive number (then `powf(·, 2.0)` is computed positive, so that
the `sqrt` argument `y / Yn` is `≥ 0`); see `Props.C04_fp` for `l = 0` -/
theorem xyz_from_hlab (p : Hlab (RF M)) (hl : 1 / 10 ^ 50 ≤ (p.l / (C.YN : RF M)).val) :
    Xyz.from_Hlab (liftHlab p) = liftXyz (Xyz.from_Hlab p) := by
  have hb0 : 0 ≤ (p.l / (C.YN : RF M)).val := le_trans (by norm_num) hl
  refine xyz_from_hlab_of p hb0 ?_
  rw [FltRF.pow_val, lit_int_val _ 2 (by norm_num)]
  have h := (abs_le.mp (M.pow_err (p.l / (C.YN : RF M)).val ((2 : ℕ) : ℝ) hb0)).1
  have e2 : (p.l / (C.YN : RF M)).val ^ (((2 : ℕ) : ℝ)) = (p.l / (C.YN : RF M)).val ^ 2 := by
    rw [Real.rpow_natCast]
  rw [e2, abs_of_nonneg (sq_nonneg _)] at h
  have hsq : (1 / 10 ^ 100 : ℝ) ≤ (p.l / (C.YN : RF M)).val ^ 2 := by
    have := pow_le_pow_left₀ (by norm_num) hl 2
    norm_num at this ⊢; exact this
  have hu := FP.u_lt
  have he := FP.eta_lt
  have : (1 : ℝ) / 10 ^ 240 ≤ 1 / 10 ^ 100 / 2 := by norm_num
  nlinarith

end Lemmas.FpDefined
