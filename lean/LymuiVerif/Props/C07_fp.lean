import LymuiVerif.Lemmas.FpEnc
/-!
# C07 (OkLab) in the rounded-arithmetic reading (`RF M`, every `M : FPModel`)

Property text: "For every 8-bit colour, the OkLab coordinates obtained from its XYZ equal Ottosson's
published transform (matrix M1, cube root, matrix M2) of the colour's linear-light sRGB components …"

The exact-real reading is `Props.C07.oklab_is_ottosson_of_pow22`: `OkLab.from_Srgb s = M2·∛(M1·max(s,0)^2.2)`
(KNOWN FINDING: a pure 2.2 power, not the IEC curve).  Here: the SAME generated functions evaluated in
`RF M` (every `+ - * /`, literal, `cbrt` rounded, `powf` with the 1-ulp libm bound) agree with the
exact-real values

* `forward_xyz_fp`: via `OkLab.from_Xyz (Xyz.from_rgb c D65)`, EVERY 8-bit colour, each component within
  `4.5e-8` (black: `1e-70`; the model says only `|powf(0, 2.2)| ≤ 2^-1075`, not `= 0`);
* `forward_direct_fp`: via `OkLab.from_Srgb` on the byte levels `n/255` (one rounded division each): `1e-12`;
* `forward_core_fp`: the general statement — an encoded triple known within `e ≤ 1e-10`, each channel
  either bright (`≥ 0.0039`) or a residue of black (`≤ 4e-6`), at least one bright: `1100·e + 1e-13`.

Why `4.5e-8` and not `1e-9` on the XYZ path.  The error of the encoded sRGB value that enters
`max(·,0)^2.2` is `e = 4e-11` (`Lemmas.FpEnc.srgb_fwd_close`: `13·3e-12`, the `3e-12` being the ABSOLUTE
bound of `FpXyz.rlin_fp_close` for the two matrix products, valid for magnitudes up to 3).  For the
darkest non-zero level `1/255` this is a RELATIVE error `e/0.0039 ≈ 1e-8`, multiplied by `2.2` by the power;
the proof (`Lemmas.FpEnc.oklab_core`) propagates ONE relative error bound for all three channels through
the positive matrix `M1` (relative errors of nonnegative terms do not grow) and the cube root (factor `1/3`),
so the darkest channel's relative error is charged to the whole LMS value: `0.34·(570·e) ≈ 7.8e-9` per
cube root, times the absolute row sum `≤ 5.5` of `M2`.  Reaching `1e-9` needs either a per-channel weighting
(`δ∛LMS ≤ Σ_j (m_ij p_j)^{1/3} κ_j / 3`, estimated `≈ 1.2e-9 … 2.5e-9` with the present `3e-12`) or
magnitude-aware (relative) versions of `xyz_fp_close` / `rlin_fp_close`; neither is done here.
/- GOAL (not proved): the same statements with `1e-9` in place of `4.5e-8` for the XYZ path. -/
-/
noncomputable section
namespace Props.C07_fp
open Gen Lemmas.FpEnc Lemmas.FpXyz

/-- **OkLab via XYZ(D65), rounded model vs exact-real model, every 8-bit colour**: each component within
`4.5e-8` -/
theorem forward_xyz_fp (M : FPModel) (c : Rgb) (hr : c.r ≤ 255) (hg : c.g ≤ 255) (hb : c.b ≤ 255) :
    |(OkLab.from_Xyz (Xyz.from_rgb (α := RF M) c XyzKind.D65)).l.val - (OkLab.from_Xyz (Xyz.from_rgb (α := ℝ) c XyzKind.D65)).l| ≤ 4.5e-8 ∧
    |(OkLab.from_Xyz (Xyz.from_rgb (α := RF M) c XyzKind.D65)).a.val - (OkLab.from_Xyz (Xyz.from_rgb (α := ℝ) c XyzKind.D65)).a| ≤ 4.5e-8 ∧
    |(OkLab.from_Xyz (Xyz.from_rgb (α := RF M) c XyzKind.D65)).b.val - (OkLab.from_Xyz (Xyz.from_rgb (α := ℝ) c XyzKind.D65)).b| ≤ 4.5e-8 :=
  oklab_xyz_close_all M c hr hg hb

/-- black: the rounded OkLab of RGB (0,0,0) is within `1e-70` of the exact value (0,0,0) -/
theorem forward_xyz_black_fp (M : FPModel) :
    |(OkLab.from_Xyz (Xyz.from_rgb (α := RF M) ⟨0, 0, 0⟩ XyzKind.D65)).l.val| ≤ 1e-70 ∧
    |(OkLab.from_Xyz (Xyz.from_rgb (α := RF M) ⟨0, 0, 0⟩ XyzKind.D65)).a.val| ≤ 1e-70 ∧
    |(OkLab.from_Xyz (Xyz.from_rgb (α := RF M) ⟨0, 0, 0⟩ XyzKind.D65)).b.val| ≤ 1e-70 := by
  obtain ⟨z1, z2, z3⟩ := srgb_black_fp M
  exact oklab_black M _ z1 z2 z3

/-- **the direct path** `OkLab.from_Srgb` on the byte levels `n/255` (each one rounded division, as the
crate computes them): each component within `1e-12` of the exact-real value -/
theorem forward_direct_fp (M : FPModel) (c : Rgb) (hr : c.r ≤ 255) (hg : c.g ≤ 255) (hb : c.b ≤ 255) :
    |(OkLab.from_Srgb (⟨lvlF M c.r, lvlF M c.g, lvlF M c.b⟩ : Srgb (RF M))).l.val
      - (OkLab.from_Srgb (⟨(c.r:ℝ)/255, (c.g:ℝ)/255, (c.b:ℝ)/255⟩ : Srgb ℝ)).l| ≤ 1e-12 ∧
    |(OkLab.from_Srgb (⟨lvlF M c.r, lvlF M c.g, lvlF M c.b⟩ : Srgb (RF M))).a.val
      - (OkLab.from_Srgb (⟨(c.r:ℝ)/255, (c.g:ℝ)/255, (c.b:ℝ)/255⟩ : Srgb ℝ)).a| ≤ 1e-12 ∧
    |(OkLab.from_Srgb (⟨lvlF M c.r, lvlF M c.g, lvlF M c.b⟩ : Srgb (RF M))).b.val
      - (OkLab.from_Srgb (⟨(c.r:ℝ)/255, (c.g:ℝ)/255, (c.b:ℝ)/255⟩ : Srgb ℝ)).b| ≤ 1e-12 :=
  oklab_direct_close M c hr hg hb

/-- the byte level of the direct path is the generated expression `n as f64 / 255.0` -/
theorem lvl_is_generated (M : FPModel) (n : ℕ) :
    lvlF M n = (Flt.ofNat n : RF M) / Flt.lit 0x406FE00000000000 255 1 := rfl

/-- **general form**: `OkLab.from_Srgb` in `RF M` on any computed encoded triple `s'` within `e ≤ 1e-10` of
a real triple `s` whose channels are each bright (`0.0039 ≤ x ≤ 1.001`) or residues of black
(`|x| ≤ 4e-6`), at least one bright: every component within `1100·e + 1e-13` of `OkLab.from_Srgb s`.
(The clamp `max(·,0)` before `powf(2.2)` is exact in `RF M`; a residue of different sign in ℝ and in
`RF M` changes the clamped value by at most `e`, and `x^2.2` is `7.7e-7`-Lipschitz on `[0, 4.1e-6]`.) -/
theorem forward_core_fp (M : FPModel) (s' : Srgb (RF M)) (s : Srgb ℝ) (e : ℝ) (he0 : 0 ≤ e) (he : e ≤ 1e-10)
    (hr : Chan s'.r.val s.r e) (hg : Chan s'.g.val s.g e) (hb : Chan s'.b.val s.b e)
    (hbright : 0.0039 ≤ s.r ∨ 0.0039 ≤ s.g ∨ 0.0039 ≤ s.b) :
    |(OkLab.from_Srgb s').l.val - (OkLab.from_Srgb s).l| ≤ 1100 * e + 1e-13 ∧
    |(OkLab.from_Srgb s').a.val - (OkLab.from_Srgb s).a| ≤ 1100 * e + 1e-13 ∧
    |(OkLab.from_Srgb s').b.val - (OkLab.from_Srgb s).b| ≤ 1100 * e + 1e-13 :=
  oklab_core M s' s e he0 he hr hg hb hbright

/-- rounded model against Ottosson's published transform of the `2.2`-power linearisation (the exact-real
characterisation `Props.C07.oklab_is_ottosson_of_pow22` composed with `forward_direct_fp`) -/
theorem forward_direct_ottosson_fp (M : FPModel) (c : Rgb) (hr : c.r ≤ 255) (hg : c.g ≤ 255) (hb : c.b ≤ 255) :
    |(OkLab.from_Srgb (⟨lvlF M c.r, lvlF M c.g, lvlF M c.b⟩ : Srgb (RF M))).l.val
      - (Props.C07.ottosson (Props.C07.pow22 ((c.r:ℝ)/255), Props.C07.pow22 ((c.g:ℝ)/255), Props.C07.pow22 ((c.b:ℝ)/255))).1| ≤ 1e-12 := by
  have := (forward_direct_fp M c hr hg hb).1
  rwa [Props.C07.oklab_is_ottosson_of_pow22] at this

/-! ## examples -/
example : Chan (0.5 : ℝ) 0.5 0 := ⟨by norm_num, Or.inl ⟨by norm_num, by norm_num⟩⟩
example : Chan (1e-7 : ℝ) (-1e-7) 2e-7 := ⟨by norm_num [abs_le], Or.inr (by norm_num [abs_le])⟩
example : |(OkLab.from_Xyz (Xyz.from_rgb (α := RF FPModel.exact) ⟨1, 0, 255⟩ XyzKind.D65)).a.val
    - (OkLab.from_Xyz (Xyz.from_rgb (α := ℝ) ⟨1, 0, 255⟩ XyzKind.D65)).a| ≤ 4.5e-8 :=
  (forward_xyz_fp FPModel.exact ⟨1, 0, 255⟩ (by norm_num) (by norm_num) (by norm_num)).2.1
example (M : FPModel) : ∃ c : Rgb, c.r ≤ 255 ∧ c.g ≤ 255 ∧ c.b ≤ 255 ∧
    |(OkLab.from_Srgb (⟨lvlF M c.r, lvlF M c.g, lvlF M c.b⟩ : Srgb (RF M))).l.val
      - (OkLab.from_Srgb (⟨(c.r:ℝ)/255, (c.g:ℝ)/255, (c.b:ℝ)/255⟩ : Srgb ℝ)).l| ≤ 1e-12 :=
  ⟨⟨12, 200, 0⟩, by norm_num, by norm_num, by norm_num,
    (forward_direct_fp M ⟨12, 200, 0⟩ (by norm_num) (by norm_num) (by norm_num)).1⟩

end Props.C07_fp
