import LymuiVerif.Lemmas.CurvesD2
/-!
# C07 — OkLab / OkLch

Property text: "For every 8-bit colour, the OkLab coordinates obtained from its XYZ equal Ottosson's
published transform (matrix M1, cube root, matrix M2) of the colour's linear-light sRGB components
within 1e-5, OkLch is exactly the polar form of OkLab (hue in radians), and for every in-gamut
OkLab/OkLch value the reverse conversion is the inverse transform."

KNOWN FINDING (a): `OkLab.from_Srgb` linearises with a pure 2.2 power (`max(x,0)^2.2`), not with the
IEC 61966-2-1 curve.  What is proved is the exact characterisation `oklab_is_ottosson_of_pow22`; the
intended statement is refuted at a concrete grey (`oklab_is_not_ottosson_of_srgb_curve`).
-/
noncomputable section
namespace Props.C07
open Gen Lemmas.CurvesD2

/-! ## Specification: Ottosson's published matrices (https://bottosson.github.io/posts/oklab/), signed -/
abbrev Vec3 := ℝ × ℝ × ℝ
abbrev Mat3 := Vec3 × Vec3 × Vec3
def row (r : Vec3) (v : Vec3) : ℝ := r.1 * v.1 + r.2.1 * v.2.1 + r.2.2 * v.2.2
def mulVec (M : Mat3) (v : Vec3) : Vec3 := (row M.1 v, row M.2.1 v, row M.2.2 v)
/-- linear sRGB → LMS -/
def M1 : Mat3 :=
  ((0.4122214708, 0.5363325363, 0.0514459929),
   (0.2119034982, 0.6806995451, 0.1073969566),
   (0.0883024619, 0.2817188376, 0.6299787005))
/-- LMS^(1/3) → Lab -/
def M2 : Mat3 :=
  ((0.2104542553, 0.7936177850, -0.0040720468),
   (1.9779984951, -2.4285922050, 0.4505937099),
   (0.0259040371, 0.7827717662, -0.8086757660))
/-- Lab → LMS^(1/3) -/
def R1 : Mat3 :=
  ((1, 0.3963377774, 0.2158037573),
   (1, -0.1055613458, -0.0638541728),
   (1, -0.0894841775, -1.2914855480))
/-- LMS → linear sRGB -/
def R2 : Mat3 :=
  ((4.0767416621, -3.3077115913, 0.2309699292),
   (-1.2684380046, 2.6097574011, -0.3413193965),
   (-0.0041960863, -0.7034186147, 1.7076147010))
def cbrt3 (v : Vec3) : Vec3 := (Real.cbrt v.1, Real.cbrt v.2.1, Real.cbrt v.2.2)
def cube3 (v : Vec3) : Vec3 := (v.1 ^ 3, v.2.1 ^ 3, v.2.2 ^ 3)
/-- Ottosson's forward transform of LINEAR components -/
def ottosson (lin : Vec3) : Vec3 := mulVec M2 (cbrt3 (mulVec M1 lin))
/-- Ottosson's inverse transform, giving LINEAR components -/
def ottossonInv (lab : Vec3) : Vec3 := mulVec R2 (cube3 (mulVec R1 lab))
/-- the linearisation the code uses -/
def pow22 (x : ℝ) : ℝ := (max x 0) ^ (2.2 : ℝ)
/-- its inverse -/
def pow22Inv (x : ℝ) : ℝ := (max x 0) ^ ((1 : ℝ) / 2.2)
/-- IEC 61966-2-1 decoding (the linearisation Ottosson's reference uses) -/
def decSrgb (v : ℝ) : ℝ :=
  if v ≤ 0.04045 then v / 12.92 else ((v + 0.055) / 1.055) ^ (2.4 : ℝ)

/-! ## forward -/

/-- **finding (a), exact characterisation**: the code is Ottosson's M2 · cbrt(M1 · lin) with the
published SIGNED matrices, where `lin = max(s,0)^2.2` channelwise. -/
theorem oklab_is_ottosson_of_pow22 (s : Srgb ℝ) :
    OkLab.from_Srgb s =
      ⟨(ottosson (pow22 s.r, pow22 s.g, pow22 s.b)).1, (ottosson (pow22 s.r, pow22 s.g, pow22 s.b)).2.1,
       (ottosson (pow22 s.r, pow22 s.g, pow22 s.b)).2.2⟩ := by
  simp only [OkLab.from_Srgb, Srgb.as_linear, ottosson, mulVec, row, cbrt3, M1, M2, pow22,
    C.OKSR, C.OKSG, C.OKSB, C.OKL, C.OKA, C.OKB, FltReal.lit_eq, FltReal.max_eq, FltReal.pow_eq,
    FltReal.cbrt_eq, OkLab.mk.injEq]
  norm_num
  refine ⟨?_, ?_, ?_⟩ <;> ring

theorem oklab_from_xyz_def (v : Xyz ℝ) : OkLab.from_Xyz v = OkLab.from_Srgb (Srgb.from_Xyz v) := rfl

/-! ## OkLch -/
/-- OkLch is exactly the polar form of OkLab, hue in radians (`atan2 b a = arg (a + b i) ∈ (-π, π]`) -/
theorem oklch_polar (lab : OkLab ℝ) :
    OkLch.from_OkLab lab = ⟨lab.l, Real.sqrt (lab.a ^ 2 + lab.b ^ 2), Complex.arg ⟨lab.a, lab.b⟩⟩ := by
  simp only [OkLch.from_OkLab, FltReal.sqrt_eq, FltReal.powi_eq, FltReal.atan2_eq, OkLch.mk.injEq]
  norm_num

theorem oklch_from_xyz_def (v : Xyz ℝ) : OkLch.from_Xyz v = OkLch.from_OkLab (OkLab.from_Xyz v) := rfl

theorem oklab_from_oklch_def (p : OkLch ℝ) :
    OkLab.from_OkLch p = ⟨p.l, p.c * Real.cos p.h, p.c * Real.sin p.h⟩ := by
  simp only [OkLab.from_OkLch, FltReal.cos_eq, FltReal.sin_eq]

theorem xyz_from_oklch_def (p : OkLch ℝ) : Xyz.from_OkLch p = Xyz.from_OkLab (OkLab.from_OkLch p) := rfl

/-- polar → cartesian undoes cartesian → polar, exactly, for every OkLab value -/
theorem oklab_oklch_roundtrip (lab : OkLab ℝ) : OkLab.from_OkLch (OkLch.from_OkLab lab) = lab := by
  rw [oklch_polar, oklab_from_oklch_def]
  have hn : Real.sqrt (lab.a ^ 2 + lab.b ^ 2) = ‖(⟨lab.a, lab.b⟩ : ℂ)‖ := by
    rw [Complex.norm_eq_sqrt_sq_add_sq]
  cases lab with
  | mk l a b =>
    simp only [OkLab.mk.injEq, true_and] at hn ⊢
    rw [hn]
    exact ⟨Complex.norm_mul_cos_arg _, Complex.norm_mul_sin_arg _⟩

/-- cartesian → polar undoes polar → cartesian when the chroma is positive and the hue is in (-π, π] -/
theorem oklch_oklab_roundtrip (p : OkLch ℝ) (hc : 0 < p.c) (h1 : -Real.pi < p.h) (h2 : p.h ≤ Real.pi) :
    OkLch.from_OkLab (OkLab.from_OkLch p) = p := by
  rw [oklab_from_oklch_def, oklch_polar]
  cases p with
  | mk l c h =>
    simp only [OkLch.mk.injEq, true_and] at hc h1 h2 ⊢
    constructor
    · have : (c * Real.cos h) ^ 2 + (c * Real.sin h) ^ 2 = c ^ 2 * (Real.cos h ^ 2 + Real.sin h ^ 2) := by ring
      rw [this, Real.cos_sq_add_sin_sq, mul_one, Real.sqrt_sq hc.le]
    · have : (⟨c * Real.cos h, c * Real.sin h⟩ : ℂ) = (c : ℂ) * (Complex.cos h + Complex.sin h * Complex.I) := by
        apply Complex.ext <;> simp [← Complex.ofReal_cos, ← Complex.ofReal_sin]
      rw [this, Complex.arg_mul_cos_add_sin_mul_I hc ⟨h1, h2⟩]

example : ∃ p : OkLch ℝ, 0 < p.c ∧ -Real.pi < p.h ∧ p.h ≤ Real.pi :=
  ⟨⟨0.5, 0.1, 1⟩, by norm_num, by have := Real.two_le_pi; dsimp only; linarith,
    by have := Real.two_le_pi; dsimp only; linarith⟩

/-! ## reverse -/
/-- the reverse conversion is `pow22Inv ∘ R2 ∘ cube ∘ R1` with the published SIGNED matrices -/
theorem oklab_reverse_def (lab : OkLab ℝ) :
    Srgb.from_OkLab lab =
      ⟨pow22Inv (ottossonInv (lab.l, lab.a, lab.b)).1, pow22Inv (ottossonInv (lab.l, lab.a, lab.b)).2.1,
       pow22Inv (ottossonInv (lab.l, lab.a, lab.b)).2.2⟩ := by
  simp only [Srgb.from_OkLab, Srgb.as_non_linear, ottossonInv, mulVec, row, cube3, R1, R2, pow22Inv,
    C.ROL, C.ROM, C.ROS, C.ROR, C.ROG, C.ROB, FltReal.lit_eq, FltReal.max_eq, FltReal.pow_eq,
    FltReal.powi_eq, Srgb.mk.injEq]
  norm_num
  refine ⟨?_, ?_, ?_⟩ <;> ring_nf

theorem xyz_from_oklab_def (lab : OkLab ℝ) : Xyz.from_OkLab lab = Xyz.from_Srgb (Srgb.from_OkLab lab) := rfl

/-- the generated constants are the published ones; the code stores ABSOLUTE values for the
second-stage rows and applies the signs at the use site -/
theorem oklab_constants_published :
    ((C.OKSR, C.OKSG, C.OKSB) : Mat3) = M1 ∧
    (C.OKL : Vec3) = (M2.1.1, M2.1.2.1, -M2.1.2.2) ∧
    (C.OKA : Vec3) = (M2.2.1.1, -M2.2.1.2.1, M2.2.1.2.2) ∧
    (C.OKB : Vec3) = (M2.2.2.1, M2.2.2.2.1, -M2.2.2.2.2) ∧
    (C.ROL : ℝ × ℝ) = (R1.1.2.1, R1.1.2.2) ∧
    (C.ROM : ℝ × ℝ) = (-R1.2.1.2.1, -R1.2.1.2.2) ∧
    (C.ROS : ℝ × ℝ) = (-R1.2.2.2.1, -R1.2.2.2.2) ∧
    (C.ROR : Vec3) = (R2.1.1, -R2.1.2.1, R2.1.2.2) ∧
    (C.ROG : Vec3) = (R2.2.1.1, R2.2.1.2.1, -R2.2.1.2.2) ∧
    (C.ROB : Vec3) = (R2.2.2.1, -R2.2.2.2.1, R2.2.2.2.2) := by
  simp only [C.OKSR, C.OKSG, C.OKSB, C.OKL, C.OKA, C.OKB, C.ROL, C.ROM, C.ROS, C.ROR, C.ROG, C.ROB,
    M1, M2, R1, R2, FltReal.lit_eq, Prod.mk.injEq]
  norm_num

/-! ## the tables are mutually inverse up to rounding of the published digits -/
def e1 : Vec3 := (1, 0, 0)
def e2 : Vec3 := (0, 1, 0)
def e3 : Vec3 := (0, 0, 1)
/-- max-norm distance -/
def dist3 (u v : Vec3) : ℝ := max |u.1 - v.1| (max |u.2.1 - v.2.1| |u.2.2 - v.2.2|)

/-- columns of `R1·M2 - I`: every entry is at most 6.3e-8 in absolute value (measured max 6.25e-8) -/
theorem inverse_tables_R1_M2 :
    dist3 (mulVec R1 (mulVec M2 e1)) e1 ≤ 6.3e-8 ∧ dist3 (mulVec R1 (mulVec M2 e2)) e2 ≤ 6.3e-8 ∧
    dist3 (mulVec R1 (mulVec M2 e3)) e3 ≤ 6.3e-8 := by
  simp only [dist3, mulVec, row, R1, M2, e1, e2, e3, max_le_iff, abs_le]
  norm_num

/-- columns of `R2·M1 - I`: every entry is at most 2.4e-10 in absolute value -/
theorem inverse_tables_R2_M1 :
    dist3 (mulVec R2 (mulVec M1 e1)) e1 ≤ 2.4e-10 ∧ dist3 (mulVec R2 (mulVec M1 e2)) e2 ≤ 2.4e-10 ∧
    dist3 (mulVec R2 (mulVec M1 e3)) e3 ≤ 2.4e-10 := by
  simp only [dist3, mulVec, row, R2, M1, e1, e2, e3, max_le_iff, abs_le]
  norm_num

/-- the bounds are tight: they fail at 6.2e-8 resp. 2.3e-10 -/
theorem inverse_tables_tight :
    6.2e-8 < dist3 (mulVec R1 (mulVec M2 e2)) e2 ∧ 2.3e-10 < dist3 (mulVec R2 (mulVec M1 e3)) e3 := by
  simp only [dist3, mulVec, row, R1, R2, M1, M2, e2, e3, lt_max_iff, lt_abs]
  norm_num

/-- cube and cube root are mutually inverse on all of ℝ (`cbrt` is the odd extension) -/
theorem cube_cbrt (t : ℝ) : (Real.cbrt t) ^ 3 = t := Lemmas.CurvesD2.cube_cbrt t
theorem cbrt_cube (t : ℝ) : Real.cbrt (t ^ 3) = t := Lemmas.CurvesD2.cbrt_cube t
theorem cube3_cbrt3 (v : Vec3) : cube3 (cbrt3 v) = v := by
  simp only [cube3, cbrt3, Lemmas.CurvesD2.cube_cbrt]
theorem cbrt3_cube3 (v : Vec3) : cbrt3 (cube3 v) = v := by
  simp only [cube3, cbrt3, Lemmas.CurvesD2.cbrt_cube]

/-- the two power linearisations are mutually inverse on the clamped value -/
theorem pow22_inverse (x : ℝ) : pow22Inv (pow22 x) = max x 0 := by
  unfold pow22Inv pow22
  have h : 0 ≤ max x 0 := le_max_right _ _
  rw [max_eq_left (Real.rpow_nonneg h _)]
  exact rpow_rpow_inv h (by norm_num)

theorem pow22_inverse' (x : ℝ) : pow22 (pow22Inv x) = max x 0 := by
  unfold pow22Inv pow22
  have h : 0 ≤ max x 0 := le_max_right _ _
  rw [max_eq_left (Real.rpow_nonneg h _)]
  exact rpow_inv_rpow h (by norm_num)

/-- **finding (a), refutation of the intended statement**: at the mid grey sRGB (1/2, 1/2, 1/2) the
code's lightness differs from Ottosson's transform of the IEC-linearised components by more than
3e-3 (the property allows 1e-5). -/
theorem oklab_is_not_ottosson_of_srgb_curve :
    3e-3 < (OkLab.from_Srgb (⟨1 / 2, 1 / 2, 1 / 2⟩ : Srgb ℝ)).l
      - (ottosson (decSrgb (1 / 2), decSrgb (1 / 2), decSrgb (1 / 2))).1 := by
  have e22 : (2.2 : ℝ) = ((11:ℕ):ℝ) / ((5:ℕ):ℝ) := by norm_num
  have e24 : (2.4 : ℝ) = ((12:ℕ):ℝ) / ((5:ℕ):ℝ) := by norm_num
  have hp : 0.2176 ≤ pow22 (1 / 2) ∧ pow22 (1 / 2) ≤ 0.2177 := by
    unfold pow22
    rw [max_eq_left (by norm_num), e22]
    exact ⟨le_rpow_div 11 5 (by norm_num) (by norm_num) (by norm_num) (by norm_num),
      rpow_div_le 11 5 (by norm_num) (by norm_num) (by norm_num) (by norm_num)⟩
  have hq : 0.2140 ≤ decSrgb (1 / 2) ∧ decSrgb (1 / 2) ≤ 0.2141 := by
    unfold decSrgb
    rw [if_neg (by norm_num), e24]
    exact ⟨le_rpow_div 12 5 (by norm_num) (by norm_num) (by norm_num) (by norm_num),
      rpow_div_le 12 5 (by norm_num) (by norm_num) (by norm_num) (by norm_num)⟩
  rw [oklab_is_ottosson_of_pow22]
  simp only [ottosson, mulVec, row, cbrt3, M1, M2]
  generalize pow22 (1 / 2) = p at hp
  generalize decSrgb (1 / 2) = q at hq
  obtain ⟨hp1, hp2⟩ := hp
  obtain ⟨hq1, hq2⟩ := hq
  have a1 := cbrt_bounds (x := 0.4122214708 * p + 0.5363325363 * p + 0.0514459929 * p)
    (a := 0.6014) (b := 0.6016) (by norm_num) (by norm_num) (by nlinarith) (by nlinarith)
  have a2 := cbrt_bounds (x := 0.2119034982 * p + 0.6806995451 * p + 0.1073969566 * p)
    (a := 0.6014) (b := 0.6016) (by norm_num) (by norm_num) (by nlinarith) (by nlinarith)
  have a3 := cbrt_bounds (x := 0.0883024619 * p + 0.2817188376 * p + 0.6299787005 * p)
    (a := 0.6014) (b := 0.6016) (by norm_num) (by norm_num) (by nlinarith) (by nlinarith)
  have b1 := cbrt_bounds (x := 0.4122214708 * q + 0.5363325363 * q + 0.0514459929 * q)
    (a := 0.5981) (b := 0.5983) (by norm_num) (by norm_num) (by nlinarith) (by nlinarith)
  have b2 := cbrt_bounds (x := 0.2119034982 * q + 0.6806995451 * q + 0.1073969566 * q)
    (a := 0.5981) (b := 0.5983) (by norm_num) (by norm_num) (by nlinarith) (by nlinarith)
  have b3 := cbrt_bounds (x := 0.0883024619 * q + 0.2817188376 * q + 0.6299787005 * q)
    (a := 0.5981) (b := 0.5983) (by norm_num) (by norm_num) (by nlinarith) (by nlinarith)
  linarith [a1.1, a1.2, a2.1, a2.2, a3.1, a3.2, b1.1, b1.2, b2.1, b2.2, b3.1, b3.2]


/- GOAL (not proved): a bounded nonlinear round trip
     ∀ s ∈ [0,1]³, ‖Srgb.from_OkLab (OkLab.from_Srgb s) - s‖∞ ≤ ε
   ("for every in-gamut OkLab value the reverse conversion is the inverse transform" read numerically).
   What IS proved: the reverse conversion is definitionally `pow22Inv ∘ R2 ∘ cube ∘ R1`
   (`oklab_reverse_def`), each stage inverts the corresponding forward stage exactly (`cube3_cbrt3`,
   `pow22_inverse`) or up to the rounding of the published digits (`inverse_tables_R1_M2` 6.3e-8,
   `inverse_tables_R2_M1` 2.4e-10).  Missing: propagation of the 6.3e-8 table error through the cube
   (a polynomial bound on the unit cube, ≈ 1.8e-6 in linear light) and through `x^(1/2.2)`, which is
   only Hölder-continuous at 0 (≈ 2.4e-3 worst case near black).
   The first clause of C07 (Ottosson's transform of the IEC-linearised components within 1e-5) is
   FALSE of the code: `oklab_is_not_ottosson_of_srgb_curve` (witness sRGB (1/2,1/2,1/2), ΔL > 3e-3). -/

end Props.C07
