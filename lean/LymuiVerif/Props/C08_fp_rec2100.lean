import LymuiVerif.Lemmas.FpPq
import LymuiVerif.Lemmas.FpOkSharp
/-!
# C08, Rec.2100 (SMPTE ST 2084 "PQ") in the rounded-arithmetic reading (`RF M`, every `M : FPModel`)

Property text: "… Rec.2100 values follow the SMPTE ST 2084 (PQ) curve on the BT.2020 primaries.  For every in-range encoded
triple the reverse conversions apply the inverse curve and matrix (within 5e-6 in XYZ)."

The exact-real reading is in `Props/C08.lean`: `pq_inverse_is_st2084` (the code's inverse curve IS ST 2084),
`pq_forward_characterisation` / `pq_forward_is_not_st2084` (RECORDED FINDING: the code's forward curve `F64.pq_eotf` divides by
`(c2 − c3)·E^(1/m2)` instead of `c2 − c3·E^(1/m2)`), `rec2100_from_xyz_def`, `xyz_from_rec2100_def`.  Here the SAME generated
functions are evaluated in `RF M` (every `+ − × ÷` and every literal rounded — in particular the exponent literals `m1`, `m2`
and the computed reciprocals `1/m1`, `1/m2` —, `powf` with the 1-ulp libm bound) and compared with the exact-real model.
The forward theorems mirror what the code does; they do not "repair" the curve.

* `pq_inverse_fp`: `F64.pq_inverse_eotf` on `[0, 10000]`: RELATIVE error `≤ 5e-11` (hence absolute `≤ 5e-11`: the value is in
  `[1e-8, 1]`) against the ST 2084 inverse EOTF.
* `pq_forward_fp`: `F64.pq_eotf` on `[2.9e-6, 1.1]`: RELATIVE error `≤ 3e-12` against the exact-real evaluation of the code's
  curve; `pq_forward_pert_fp`: the argument known up to a relative error `r ≤ 1e-5`: `7·r + 3e-12` (the `7` is the
  amplification `(1/m1)(1/m2)·T/(T − c1)` at the foot of the range, `T = E^(1/m2)`, with slack).
* `rec2100_forward_fp`: every non-black 8-bit colour, each channel of `Rec2100.from_Xyz (Xyz.from_rgb c D65)`: RELATIVE error
  `≤ 7e-11` (absolute `≤ 7.6e-7` on values up to `10800`: `rec2100_forward_abs_fp`); `rec2100_forward_black_fp`: black gives channels in `[0, 1e-230]` (exact-real: `0`).
* `xyz_from_rec2100_fp`: every signal triple in `[0, 10000]³`: each XYZ component within `1e-9` (property: `5e-6`) of
  (BT.2020 matrix)·(ST 2084 inverse EOTF of the channels).

Remarks.
* Not modelled (as everywhere in the `RF M` layer): overflow.  All magnitudes here are `≤ 10800`.
* `5e-11` for the inverse curve is dominated by the rounding of the exponent LITERAL `m1 = 1305/8192` (exact in binary64, not in
  a general `FPModel`) charged with `|log Y| ≤ 231` on `Y ≥ 1e-100`; a three-range argument using `Y^m1·|log Y| ≤ 1/(e·m1)`
  would give `≈ 2e-12`.  /- GOAL (not proved): `pq_inverse_fp` with `2e-12`. -/
* The forward theorems are stated on `[2.9e-6, 1.1]` with the worst-case amplification factor `7` of that range; the
  argument-dependent factor `(1/m1)(1/m2)·T/(T − c1)` is not stated separately.  Below `E = c1^m2 ≈ 7.3e-7` one has `E^(1/m2) ≤ c1`, the
  `max(·, 0)` clamps and a RELATIVE statement is impossible; no 8-bit colour gets there (`rec2100_lin_rel`: components `≥ 3e-6`).
-/
noncomputable section
namespace Props.C08_fp_rec2100
open Gen Props.C08 Lemmas.FpPq Lemmas.FpXyz Lemmas.XyzDispatch Lemmas.Matrix

/-- **ST 2084 inverse EOTF, rounded model**: for a luminance in `[0, 10000]` the computed value is within `5e-11` RELATIVE of
the ST 2084 value `pqInvEotf`, which lies in `[1e-8, 1]` -/
theorem pq_inverse_fp (M : FPModel) (l : RF M) (h0 : 0 ≤ l.val) (h1 : l.val ≤ 10000) :
    |(F64.pq_inverse_eotf l).val - pqInvEotf l.val| ≤ 5e-11 * pqInvEotf l.val ∧
    1e-8 ≤ pqInvEotf l.val ∧ pqInvEotf l.val ≤ 1 := by
  have := pq_inverse_close M l h0 h1
  rwa [pq_inverse_is_st2084 _ h0] at this

/-- absolute form -/
theorem pq_inverse_abs_fp (M : FPModel) (l : RF M) (h0 : 0 ≤ l.val) (h1 : l.val ≤ 10000) :
    |(F64.pq_inverse_eotf l).val - pqInvEotf l.val| ≤ 5e-11 := by
  obtain ⟨a, b, c⟩ := pq_inverse_fp M l h0 h1
  nlinarith

/-- **the code's forward PQ curve, rounded model**, argument in `[2.9e-6, 1.1]`: within `3e-12` RELATIVE of the exact-real
evaluation of the same curve (`pq_forward_characterisation`), whose value lies in `[1e-3, 10800]` -/
theorem pq_forward_fp (M : FPModel) (e : RF M) (h0 : 2.9e-6 ≤ e.val) (h1 : e.val ≤ 1.1) :
    |(F64.pq_eotf e).val - F64.pq_eotf (e.val : ℝ)| ≤ 3e-12 * F64.pq_eotf (e.val : ℝ) ∧
    1e-3 ≤ F64.pq_eotf (e.val : ℝ) ∧ F64.pq_eotf (e.val : ℝ) ≤ 10800 := by
  have := pq_forward_close M e e.val 0 h0 h1 (by simp) le_rfl (by norm_num)
  simpa using this

/-- the same with a perturbed argument: the computed argument `e` is within relative `r ≤ 1e-5` of the exact `E` -/
theorem pq_forward_pert_fp (M : FPModel) (e : RF M) (E r : ℝ) (h0 : 2.9e-6 ≤ E) (h1 : E ≤ 1.1)
    (her : |e.val - E| ≤ r * E) (hr0 : 0 ≤ r) (hr : r ≤ 1e-5) :
    |(F64.pq_eotf e).val - F64.pq_eotf E| ≤ (7 * r + 3e-12) * F64.pq_eotf E :=
  (pq_forward_close M e E r h0 h1 her hr0 hr).1

/-- **Rec.2100 forward, rounded model, every non-black 8-bit colour**: each channel within `7e-11` RELATIVE of the exact-real
model's value (which lies in `[1e-3, 10800]`).  The bound is `7·r + 3e-12` with `r = 9.1e-12` the RELATIVE error of the
computed BT.2020 linear component (`FpPq.rec2100_lin_rel`: magnitude-aware analysis — relative decoder error `3.4e-14`,
positive sRGB→XYZ rows, BT.2020 rows with cancellation bounded by `0.01·(l_r+l_g+l_b) ≤` component), `7` the amplification of
the curve at its foot (`pq_forward_pert_fp`). -/
theorem rec2100_forward_fp (M : FPModel) (c : Rgb) (hr : c.r ≤ 255) (hg : c.g ≤ 255) (hb : c.b ≤ 255)
    (hnb : ¬ (c.r = 0 ∧ c.g = 0 ∧ c.b = 0)) :
    |(Rec2100.from_Xyz (Xyz.from_rgb (α := RF M) c .D65)).r.val - (Rec2100.from_Xyz (Xyz.from_rgb (α := ℝ) c .D65)).r|
      ≤ 7e-11 * (Rec2100.from_Xyz (Xyz.from_rgb (α := ℝ) c .D65)).r ∧
    |(Rec2100.from_Xyz (Xyz.from_rgb (α := RF M) c .D65)).g.val - (Rec2100.from_Xyz (Xyz.from_rgb (α := ℝ) c .D65)).g|
      ≤ 7e-11 * (Rec2100.from_Xyz (Xyz.from_rgb (α := ℝ) c .D65)).g ∧
    |(Rec2100.from_Xyz (Xyz.from_rgb (α := RF M) c .D65)).b.val - (Rec2100.from_Xyz (Xyz.from_rgb (α := ℝ) c .D65)).b|
      ≤ 7e-11 * (Rec2100.from_Xyz (Xyz.from_rgb (α := ℝ) c .D65)).b := by
  obtain ⟨⟨a1, l1, u1⟩, ⟨a2, l2, u2⟩, ⟨a3, l3, u3⟩⟩ := rec2100_lin_rel M c hr hg hb hnb
  rw [from_rgb_eq, rec2100_from_xyz_def, from_rgb_eq_fp', rec2100_from_xyz_fp]
  simp only [toXyz, ← Lemmas.FpEnc.dot_eq_c08]
  have key : ∀ (a : RF M) (L : ℝ), |a.val - L| ≤ 9.1e-12 * L → 3e-6 ≤ L → L ≤ 1.001 →
      |(F64.pq_eotf a).val - F64.pq_eotf L| ≤ 7e-11 * F64.pq_eotf L := by
    intro a L h1 h2 h3
    obtain ⟨k1, k2, k3⟩ := pq_forward_close M a L 9.1e-12 (by linarith) (by linarith) h1 (by norm_num) (by norm_num)
    refine k1.trans ?_
    nlinarith
  exact ⟨key _ _ a1 l1 u1, key _ _ a2 l2 u2, key _ _ a3 l3 u3⟩

/-- absolute form: each channel within `7.6e-7` cd/m² of the exact-real model's value (values up to `10800`) -/
theorem rec2100_forward_abs_fp (M : FPModel) (c : Rgb) (hr : c.r ≤ 255) (hg : c.g ≤ 255) (hb : c.b ≤ 255)
    (hnb : ¬ (c.r = 0 ∧ c.g = 0 ∧ c.b = 0)) :
    |(Rec2100.from_Xyz (Xyz.from_rgb (α := RF M) c .D65)).r.val - (Rec2100.from_Xyz (Xyz.from_rgb (α := ℝ) c .D65)).r| ≤ 7.6e-7 ∧
    |(Rec2100.from_Xyz (Xyz.from_rgb (α := RF M) c .D65)).g.val - (Rec2100.from_Xyz (Xyz.from_rgb (α := ℝ) c .D65)).g| ≤ 7.6e-7 ∧
    |(Rec2100.from_Xyz (Xyz.from_rgb (α := RF M) c .D65)).b.val - (Rec2100.from_Xyz (Xyz.from_rgb (α := ℝ) c .D65)).b| ≤ 7.6e-7 := by
  obtain ⟨h1, h2, h3⟩ := rec2100_forward_fp M c hr hg hb hnb
  obtain ⟨⟨-, l1, u1⟩, ⟨-, l2, u2⟩, ⟨-, l3, u3⟩⟩ := rec2100_lin_close M c hr hg hb hnb
  rw [from_rgb_eq, rec2100_from_xyz_def] at h1 h2 h3 ⊢
  simp only [toXyz, ← Lemmas.FpEnc.dot_eq_c08] at h1 h2 h3 ⊢
  have up : ∀ L : ℝ, 3e-6 ≤ L → L ≤ 1.001 → F64.pq_eotf L ≤ 10800 := fun L h h' =>
    (pq_forward_close M (⟨L⟩ : RF M) L 0 (by linarith) (by linarith) (by simp) le_rfl (by norm_num)).2.2
  have := up _ l1 u1
  have := up _ l2 u2
  have := up _ l3 u3
  refine ⟨h1.trans ?_, h2.trans ?_, h3.trans ?_⟩ <;> linarith

/-- **black**: the exact-real model gives `(0, 0, 0)`; in `RF M` every channel lies in `[0, 1e-230]` (exactly `0` whenever
the model's `powf(0, y)` is `0`; `FPModel` only bounds it by `2^-1075`) -/
theorem rec2100_forward_black_fp (M : FPModel) :
    (0 ≤ (Rec2100.from_Xyz (Xyz.from_rgb (α := RF M) ⟨0, 0, 0⟩ .D65)).r.val ∧
      (Rec2100.from_Xyz (Xyz.from_rgb (α := RF M) ⟨0, 0, 0⟩ .D65)).r.val ≤ 1e-230) ∧
    (0 ≤ (Rec2100.from_Xyz (Xyz.from_rgb (α := RF M) ⟨0, 0, 0⟩ .D65)).g.val ∧
      (Rec2100.from_Xyz (Xyz.from_rgb (α := RF M) ⟨0, 0, 0⟩ .D65)).g.val ≤ 1e-230) ∧
    (0 ≤ (Rec2100.from_Xyz (Xyz.from_rgb (α := RF M) ⟨0, 0, 0⟩ .D65)).b.val ∧
      (Rec2100.from_Xyz (Xyz.from_rgb (α := RF M) ⟨0, 0, 0⟩ .D65)).b.val ≤ 1e-230) ∧
    Rec2100.from_Xyz (Xyz.from_rgb (α := ℝ) ⟨0, 0, 0⟩ .D65) = ⟨0, 0, 0⟩ := by
  obtain ⟨z1, z2, z3⟩ := xyz_black_fp M .D65
  rw [from_rgb_eq_fp', rec2100_from_xyz_fp]
  have d : ∀ m, (dotF' M (xyzF M .D65 ⟨0, 0, 0⟩) m).val = 0 := fun m => by
    rw [dotF'_val]; exact dotF_zero M m _ z1 z2 z3
  refine ⟨pq_forward_zero M _ (d _), pq_forward_zero M _ (d _), pq_forward_zero M _ (d _), ?_⟩
  rw [rec2100_from_xyz_def, from_rgb_eq]
  have hl : lin .D65 ⟨0, 0, 0⟩ = (0, 0, 0) := by
    simp only [lin, Nat.cast_zero, zero_div, dec_zero]
  simp only [toXyz, hl, mulVec, Lemmas.Matrix.dot, Props.C08.dot, mul_zero, zero_mul, add_zero, pq_forward_real_zero]

/-- **Rec.2100 reverse, rounded model**: for every signal triple in `[0, 10000]³`, `Xyz.from_Rec2100` is within `1e-9`
(property: `5e-6`) of the BT.2020 matrix applied to the ST 2084 inverse EOTF of the channels (the exact-real reading
`Props.C08.xyz_from_rec2100_def`) -/
theorem xyz_from_rec2100_fp (M : FPModel) (s : Rec2100 (RF M))
    (hr : 0 ≤ s.r.val ∧ s.r.val ≤ 10000) (hg : 0 ≤ s.g.val ∧ s.g.val ≤ 10000) (hb : 0 ≤ s.b.val ∧ s.b.val ≤ 10000) :
    |(Xyz.from_Rec2100 s).x.val - dot C.XX (pqInvEotf s.r.val) (pqInvEotf s.g.val) (pqInvEotf s.b.val)| ≤ 1e-9 ∧
    |(Xyz.from_Rec2100 s).y.val - dot C.XY (pqInvEotf s.r.val) (pqInvEotf s.g.val) (pqInvEotf s.b.val)| ≤ 1e-9 ∧
    |(Xyz.from_Rec2100 s).z.val - dot C.XZ (pqInvEotf s.r.val) (pqInvEotf s.g.val) (pqInvEotf s.b.val)| ≤ 1e-9 := by
  have a1 := pq_inverse_abs_fp M s.r hr.1 hr.2
  have a2 := pq_inverse_abs_fp M s.g hg.1 hg.2
  have a3 := pq_inverse_abs_fp M s.b hb.1 hb.2
  obtain ⟨-, p1, p1'⟩ := pq_inverse_fp M s.r hr.1 hr.2
  obtain ⟨-, p2, p2'⟩ := pq_inverse_fp M s.g hg.1 hg.2
  obtain ⟨-, p3, p3'⟩ := pq_inverse_fp M s.b hb.1 hb.2
  have b : ∀ x : ℝ, 1e-8 ≤ x → x ≤ 1 → |x| ≤ 3 := fun x h h' => by rw [abs_le]; constructor <;> linarith
  obtain ⟨r1, r2, r3⟩ := Lemmas.FpEnc2.rec2020_fwd_rows M
  rw [Lemmas.FpPq.xyz_from_rec2100_fp]
  dsimp only
  simp only [← Lemmas.FpEnc.dot_eq_c08 _ (pqInvEotf s.r.val, pqInvEotf s.g.val, pqInvEotf s.b.val)]
  have q1 := dot3_close' M r1 (v := (F64.pq_inverse_eotf s.r, F64.pq_inverse_eotf s.g, F64.pq_inverse_eotf s.b))
    (x := (pqInvEotf s.r.val, pqInvEotf s.g.val, pqInvEotf s.b.val)) a1 a2 a3 (b _ p1 p1') (b _ p2 p2') (b _ p3 p3') (by norm_num)
  have q2 := dot3_close' M r2 (v := (F64.pq_inverse_eotf s.r, F64.pq_inverse_eotf s.g, F64.pq_inverse_eotf s.b))
    (x := (pqInvEotf s.r.val, pqInvEotf s.g.val, pqInvEotf s.b.val)) a1 a2 a3 (b _ p1 p1') (b _ p2 p2') (b _ p3 p3') (by norm_num)
  have q3 := dot3_close' M r3 (v := (F64.pq_inverse_eotf s.r, F64.pq_inverse_eotf s.g, F64.pq_inverse_eotf s.b))
    (x := (pqInvEotf s.r.val, pqInvEotf s.g.val, pqInvEotf s.b.val)) a1 a2 a3 (b _ p1 p1') (b _ p2 p2') (b _ p3 p3') (by norm_num)
  exact ⟨q1.trans (by norm_num), q2.trans (by norm_num), q3.trans (by norm_num)⟩

/-- the same against the exact-real generated conversion -/
theorem xyz_from_rec2100_vs_real_fp (M : FPModel) (s : Rec2100 (RF M))
    (hr : 0 ≤ s.r.val ∧ s.r.val ≤ 10000) (hg : 0 ≤ s.g.val ∧ s.g.val ≤ 10000) (hb : 0 ≤ s.b.val ∧ s.b.val ≤ 10000) :
    |(Xyz.from_Rec2100 s).x.val - (Xyz.from_Rec2100 (⟨s.r.val, s.g.val, s.b.val⟩ : Rec2100 ℝ)).x| ≤ 1e-9 ∧
    |(Xyz.from_Rec2100 s).y.val - (Xyz.from_Rec2100 (⟨s.r.val, s.g.val, s.b.val⟩ : Rec2100 ℝ)).y| ≤ 1e-9 ∧
    |(Xyz.from_Rec2100 s).z.val - (Xyz.from_Rec2100 (⟨s.r.val, s.g.val, s.b.val⟩ : Rec2100 ℝ)).z| ≤ 1e-9 := by
  rw [xyz_from_rec2100_def _ hr.1 hg.1 hb.1]
  exact xyz_from_rec2100_fp M s hr hg hb

/-! ## examples -/
example : ∃ l : RF FPModel.exact, 0 ≤ l.val ∧ l.val ≤ 10000 ∧
    |(F64.pq_inverse_eotf l).val - pqInvEotf l.val| ≤ 5e-11 :=
  ⟨⟨100⟩, by norm_num, by norm_num, pq_inverse_abs_fp _ ⟨100⟩ (by norm_num) (by norm_num)⟩
example (M : FPModel) : |(F64.pq_eotf (⟨0.5⟩ : RF M)).val - F64.pq_eotf (0.5 : ℝ)| ≤ 3e-12 * F64.pq_eotf (0.5 : ℝ) :=
  (pq_forward_fp M ⟨0.5⟩ (by norm_num) (by norm_num)).1
example : |(F64.pq_eotf (⟨0.5⟩ : RF FPModel.exact)).val - F64.pq_eotf (0.5 : ℝ)| ≤ (7 * 0 + 3e-12) * F64.pq_eotf (0.5 : ℝ) :=
  pq_forward_pert_fp FPModel.exact ⟨0.5⟩ 0.5 0 (by norm_num) (by norm_num) (by simp) le_rfl (by norm_num)
example (M : FPModel) :
    |(Rec2100.from_Xyz (Xyz.from_rgb (α := RF M) ⟨0, 1, 0⟩ .D65)).r.val - (Rec2100.from_Xyz (Xyz.from_rgb (α := ℝ) ⟨0, 1, 0⟩ .D65)).r|
      ≤ 7e-11 * (Rec2100.from_Xyz (Xyz.from_rgb (α := ℝ) ⟨0, 1, 0⟩ .D65)).r :=
  (rec2100_forward_fp M ⟨0, 1, 0⟩ (by norm_num) (by norm_num) (by norm_num) (by norm_num)).1
example (M : FPModel) : |(Xyz.from_Rec2100 (⟨⟨100⟩, ⟨0⟩, ⟨10000⟩⟩ : Rec2100 (RF M))).y.val
    - dot C.XY (pqInvEotf 100) (pqInvEotf 0) (pqInvEotf 10000)| ≤ 1e-9 :=
  (xyz_from_rec2100_fp M ⟨⟨100⟩, ⟨0⟩, ⟨10000⟩⟩ (by norm_num) (by norm_num) (by norm_num)).2.1

end Props.C08_fp_rec2100
