import LymuiVerif.Lemmas.FpLuv
import LymuiVerif.Props.C02_fp_cie
/-!
# C02 through CIELUV in the rounded-arithmetic reading: RGB → XYZ → Luv → XYZ → RGB computed in ANY `FPModel`

For every model `M` of floating-point arithmetic (`Inst/Rounded.lean`) and every 8-bit colour `c`:

* `luv_requant_fp`: `as_rgb (from_Luv (Luv.from_Xyz (from_rgb c D65))) D65 = c` with EVERY operation evaluated in
  `RF M` — exactly (black included).
* `luv_roundtrip_fp`: the computed round trip is within `2.1e-6` of the real model's XYZ (`X` within `1e-6`, `Y` within
  `1e-7`, `Z` within `2e-6` of the computed XYZ, which is within `2e-13` of the real model's); `luv_roundtrip_5e4_fp`
  is the property's first sentence.
* How the lightness test `y > 0.008856` (forward) and `L > κ·ε` (reverse) is handled: NO assumption that the
  computed and the real model take the same branch, and no case distinction on the colour.  The comparisons are
  exact in `RF M`; the computed lightness follows one of the two forward formulas and can follow the "wrong" one only
  within `1e-9` of the threshold (`FpLuv.LFwdOK`, `FpLuv.lum_fwd_fp`; the cube root is `powf(y, rnd(1/3))` with the
  1-ulp bound `M.pow_err` and the perturbed exponent, `FpLuv.pow_third_fp`); likewise the reverse (`FpCie.RevOK` at
  `(L+16)/116`, `FpLuv.rev_y_fp`).  Both forward formulas are within `3.4e-7` of the exact CIE function after
  `(L+16)/116`, both reverse formulas within `4e-8` of its exact inverse, which is `3·0.21²`-Lipschitz near the
  threshold: `|y' − y| ≤ 9.1e-8` whatever branches were taken (`FpLuv.lrev_fwd_close`).
* Chromaticity: `u' = 4X/(X+15Y+3Z)`, `v'` in relative error (`FpLuv.ratio_uv`, `1e-14`); the reverse divides
  `u = rnd(K·rnd(u' − u'n))` by the SAME computed `K = rnd(13·L) ≥ 0.2` and adds the same computed `u'n`, so it
  recovers the computed `u'` up to `3e-15` (`FpLuv.cancel_fp`, `FpLuv.up_close`).  The assembly
  `X' = y'·9u'/(4v')`, `Z' = y'·(12 − 3u' − 20v')/(4v')` uses the cone `X ≤ 2.6·Y`, `Z ≤ 13.3·Y`, `Y ≥ 1.9e-5` of the
  non-black 8-bit colours (`FpCieXyz.xyz_cone_fp`), on which `4v' ≥ 0.62` (`FpLuv.assemble_fp`).
* Black: the guard of `compute_compounds` gives `L = u = v = 0` exactly, the guard `u == 0 ∧ l == 0` of the reverse
  returns `(0,0,0)` (`FpLuv.luv_roundtrip_black_fp`).
* The last step is `Props.C02_fp_cie.requant_stable_fp` (a computed XYZ within `1e-5` of the real-model XYZ of `c`
  re-quantises in `RF M` to exactly `c`).
-/
namespace Props.C02_fp_luv
open Gen FpCie FpCieXyz Props.C02_fp_cie

/-- the CIELUV round trip computed in `RF M` returns the real-model XYZ of an 8-bit colour within `2.1e-6`
(any branches; C02 asks `5e-4`) -/
theorem luv_roundtrip_fp (M : FPModel) (c : Rgb) (hr : c.r ≤ 255) (hg : c.g ≤ 255) (hb : c.b ≤ 255) :
    NearFp (21 / 10 ^ 7) (Xyz.from_Luv (Luv.from_Xyz (Xyz.from_rgb (α := RF M) c .D65)))
      (Xyz.from_rgb (α := ℝ) c .D65) := by
  obtain ⟨⟨a0, a1, a2⟩, ⟨b0, b1, b2⟩, ⟨c0, c1, c2⟩⟩ := xyz_d65_fp M c hr hg hb
  by_cases hblack : c.r = 0 ∧ c.g = 0 ∧ c.b = 0
  · have hc : c = ⟨0, 0, 0⟩ := Lemmas.CieRtF1b.eq_black_of_zero c hblack
    obtain ⟨z1, z2, z3⟩ := Lemmas.FpXyz.xyz_black_fp M .D65
    have ex : Xyz.from_rgb (α := RF M) c .D65 = ⟨(Lemmas.FpXyz.xyzF M .D65 c).1, (Lemmas.FpXyz.xyzF M .D65 c).2.1,
        (Lemmas.FpXyz.xyzF M .D65 c).2.2⟩ := Lemmas.FpXyz.from_rgb_eq_fp' M .D65 c
    rw [hc] at ex
    have y1 : (Xyz.from_rgb (α := RF M) c .D65).x.val = 0 := by rw [hc, ex]; exact z1
    have y2 : (Xyz.from_rgb (α := RF M) c .D65).y.val = 0 := by rw [hc, ex]; exact z2
    have y3 : (Xyz.from_rgb (α := RF M) c .D65).z.val = 0 := by rw [hc, ex]; exact z3
    obtain ⟨k1, k2, k3⟩ := FpLuv.luv_roundtrip_black_fp M _ y1 y2 y3
    refine nearFp_trans (e1 := 0) ⟨?_, ?_, ?_⟩ ⟨a2, b2, c2⟩ (by norm_num)
    · rw [k1, y1]; simp
    · rw [k2, y2]; simp
    · rw [k3, y3]; simp
  · obtain ⟨q1, q2, q3⟩ := xyz_cone_fp M c hr hg hb hblack
    obtain ⟨k1, k2, k3⟩ := FpLuv.luv_roundtrip_fp M _ a0 a1 q1 b1 c0 c1 q2 q3
    exact nearFp_trans (e1 := 2 / 10 ^ 6) ⟨k1.trans (by norm_num), k2.trans (by norm_num), k3⟩ ⟨a2, b2, c2⟩
      (by norm_num)

/-- **C02, CIELUV, second sentence, rounded model**: for every model of floating-point arithmetic and every
8-bit colour, `rgb → xyz → Luv → xyz → rgb` returns the colour — exactly. -/
theorem luv_requant_fp (M : FPModel) (c : Rgb) (hr : c.r ≤ 255) (hg : c.g ≤ 255) (hb : c.b ≤ 255) :
    Xyz.as_rgb (Xyz.from_Luv (Luv.from_Xyz (Xyz.from_rgb (α := RF M) c .D65))) .D65 = c :=
  requant_stable_fp M c hr hg hb _ ((luv_roundtrip_fp M c hr hg hb).mono (by norm_num))

/-- C02, first sentence (within `5e-4`), rounded model, through CIELUV -/
theorem luv_roundtrip_5e4_fp (M : FPModel) (c : Rgb) (hr : c.r ≤ 255) (hg : c.g ≤ 255) (hb : c.b ≤ 255) :
    NearFp 5e-4 (Xyz.from_Luv (Luv.from_Xyz (Xyz.from_rgb (α := RF M) c .D65))) (Xyz.from_rgb (α := ℝ) c .D65) :=
  (luv_roundtrip_fp M c hr hg hb).mono (by norm_num)

/-! ## examples -/

example : Xyz.as_rgb (Xyz.from_Luv (Luv.from_Xyz (Xyz.from_rgb (α := RF FPModel.exact) ⟨50, 10, 95⟩ .D65))) .D65
    = ⟨50, 10, 95⟩ := luv_requant_fp FPModel.exact _ (by norm_num) (by norm_num) (by norm_num)
example (M : FPModel) : Xyz.as_rgb (Xyz.from_Luv (Luv.from_Xyz (Xyz.from_rgb (α := RF M) ⟨0, 0, 0⟩ .D65))) .D65
    = ⟨0, 0, 0⟩ := luv_requant_fp M _ (by norm_num) (by norm_num) (by norm_num)
-- the darkest non-black colour (linear lightness branch, `Y ≈ 2.2e-5`) and the colours next to the threshold
example (M : FPModel) : Xyz.as_rgb (Xyz.from_Luv (Luv.from_Xyz (Xyz.from_rgb (α := RF M) ⟨0, 0, 1⟩ .D65))) .D65
    = ⟨0, 0, 1⟩ := luv_requant_fp M _ (by norm_num) (by norm_num) (by norm_num)
example (M : FPModel) : Xyz.as_rgb (Xyz.from_Luv (Luv.from_Xyz (Xyz.from_rgb (α := RF M) ⟨255, 255, 255⟩ .D65))) .D65
    = ⟨255, 255, 255⟩ := luv_requant_fp M _ (by norm_num) (by norm_num) (by norm_num)
-- the hypotheses of `FpLuv.luv_roundtrip_fp` are satisfiable: exactly representable values on the cone
example (M : FPModel) :
    |(Xyz.from_Luv (Luv.from_Xyz (⟨⟨1 / 2⟩, ⟨1 / 4⟩, ⟨1 / 4⟩⟩ : Xyz (RF M)))).z.val - 1 / 4| ≤ 2 / 10 ^ 6 :=
  (FpLuv.luv_roundtrip_fp M ⟨⟨1 / 2⟩, ⟨1 / 4⟩, ⟨1 / 4⟩⟩ (by norm_num) (by norm_num) (by norm_num) (by norm_num)
    (by norm_num) (by norm_num) (by norm_num) (by norm_num)).2.2

end Props.C02_fp_luv
