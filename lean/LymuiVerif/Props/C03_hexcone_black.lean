import LymuiVerif.Lemmas.PartialA2
/-!
# C03 / C11 (hexcone part) — the two division-by-zero points, on the definedness instance `PR`

`Props.C03_hexcone.hwb_roundtrip` excludes black because `Rgb::from(Hwb)` divides by `1 - b/100 = 0`
there, and the exact-real instance would hide that (`x / 0 = 0`).  On `PR = Option ℝ` a division by
zero is `none` (NaN), comparisons with `none` are false and `none as u8 = 0`, as in Rust.
-/
namespace Props.C03_hexcone
open Gen PartialA2

/-- black survives the HWB round trip, through the NaN path: the saturation is `0/0 = NaN`, the
`s == 0.0` shortcut is not taken, and every channel is `NaN as u8 = 0` or `0 as u8 = 0`. -/
theorem hwb_roundtrip_black : Rgb.from_Hwb (Hwb.from_Rgb (α := PR) ⟨0, 0, 0⟩) = ⟨0, 0, 0⟩ := by
  simp [Rgb.from_Hwb, Hwb.from_Rgb, Hsv.from_Rgb, F64.from_Rgb, Rgb.get_min_max, Rgb.as_f64,
    Rgb.from_Hsv, div_some_ite, none_mul, mul_none, sub_none, none_div, beq_none, Rgb.new,
    Rgb.default, Real.toU8]

/-- the saturation handed to `Rgb::from(Hsv)` for black really is undefined (NaN) -/
theorem hwb_black_saturation_undefined :
    let hwb := Hwb.from_Rgb (α := PR) ⟨0, 0, 0⟩
    (Flt.lit 0 1 1 - (hwb.w / Flt.lit 0 100 1) / (Flt.lit 0 1 1 - hwb.b / Flt.lit 0 100 1) : PR) = none := by
  simp [Hwb.from_Rgb, Hsv.from_Rgb, F64.from_Rgb, Rgb.get_min_max, Rgb.as_f64, div_some_ite, sub_none]

/-- CMYK of black is defined: the `k != 1` guard keeps `0/0` away (C = M = Y = 0, K = 1). -/
theorem cymk_black_defined :
    (Cymk.from_Rgb (α := PR) ⟨0, 0, 0⟩).c = some 0 ∧ (Cymk.from_Rgb (α := PR) ⟨0, 0, 0⟩).m = some 0 ∧
    (Cymk.from_Rgb (α := PR) ⟨0, 0, 0⟩).y = some 0 ∧ (Cymk.from_Rgb (α := PR) ⟨0, 0, 0⟩).k = some 1 := by
  simp [Cymk.from_Rgb, Cymk.default, Rgb.get_min_max, Rgb.as_f64, div_some_ite]

end Props.C03_hexcone
