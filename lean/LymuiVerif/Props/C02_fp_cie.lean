import LymuiVerif.Lemmas.FpCieXyz
import LymuiVerif.Props.C02_cie
import LymuiVerif.Props.C02_requant
/-!
# C02 (CIE family) in the rounded-arithmetic reading: XYZ → S → XYZ → RGB computed in ANY `FPModel`

For every model `M` of floating-point arithmetic (`Inst/Rounded.lean`) and every 8-bit colour `c`:

* **CIELAB** (`lab_requant_fp`) and **xyY** (`xyy_requant_fp`):
  `as_rgb (from_S (S.from_Xyz (from_rgb c D65))) D65 = c` with EVERY operation evaluated in `RF M` — exactly.
  Intermediate statements: the computed round trip is within `1e-7` (CIELAB; `lab_roundtrip_fp`) resp. `2e-12`
  (xyY; `xyy_roundtrip_fp`) of the computed XYZ, which is within `2e-13` of the real model's XYZ.
* How the branch `t > 0.008856` of `Lab::compute_f` (and `c³ > ε`, `L > κ·ε` of the reverse) is handled: NO
  assumption that the computed and the real model take the same branch, and no case distinction on the
  colour.  The comparisons are exact in `RF M`, so the computed value follows one of the two branch formulas,
  and it can follow the "wrong" one only within `1e-9` of the threshold (`FpCie.FwdOK`, `FpCie.RevOK`).  Both
  forward formulas are within `3.4e-7` of the exact CIE function `fSpec`, both reverse formulas within `4e-8`
  of its exact inverse `hSpec`, which is `3·0.21²`-Lipschitz near the threshold (`FpCie.rev_fwd_close`): the
  round trip of a normalised component is within `9.1e-8` whatever branches were taken.
* The last step uses `FpCieXyz.as_rgb_fp_of_near`: a COMPUTED XYZ within `1e-5` of the real-model XYZ of `c`
  re-quantises in `RF M` to exactly `c`.  Margins cited: `Lemmas.RequantF1a.requant_pre_close` (real pre-
  quantisation values within 0.3 of the level for a distance ≤ 1.7e-5; this is what `Props.C02_requant.requant_stable`
  and `Props.C02_cie.cie_requant` rest on), `Lemmas.FpXyz.srgb_enc_fp` (computed vs real encoder ≤ 0.02), and the
  `6e-5` clearance of the linear values from the sRGB encoder's threshold (`FpCieXyz.srgb_lin_gap_wide`).
* Hunter Lab is excluded (the crate's reverse negates Z: `Props.C06.hlab_reverse_characterisation`).

The same statement through CIELUV: `Props/C02_fp_luv.lean`.
-/
namespace Props.C02_fp_cie
open Gen FpCie FpCieXyz

/-- sup-norm distance between a computed XYZ triple and a real one -/
def NearFp {M : FPModel} (e : ℝ) (a : Xyz (RF M)) (xr : Xyz ℝ) : Prop :=
  Lemmas.RequantF1a.Near e (⟨a.x.val, a.y.val, a.z.val⟩ : Xyz ℝ) xr

theorem nearFp_trans {M : FPModel} {a b : Xyz (RF M)} {xr : Xyz ℝ} {e1 e2 e : ℝ}
    (h1 : |a.x.val - b.x.val| ≤ e1 ∧ |a.y.val - b.y.val| ≤ e1 ∧ |a.z.val - b.z.val| ≤ e1)
    (h2 : |b.x.val - xr.x| ≤ e2 ∧ |b.y.val - xr.y| ≤ e2 ∧ |b.z.val - xr.z| ≤ e2) (he : e1 + e2 ≤ e) :
    NearFp e a xr := by
  refine ⟨?_, ?_, ?_⟩
  · have := abs_sub_le a.x.val b.x.val xr.x; linarith [h1.1, h2.1]
  · have := abs_sub_le a.y.val b.y.val xr.y; linarith [h1.2.1, h2.2.1]
  · have := abs_sub_le a.z.val b.z.val xr.z; linarith [h1.2.2, h2.2.2]

/-! ## CIELAB -/

/-- the CIELAB round trip computed in `RF M` returns the computed XYZ of an 8-bit colour within `1e-7`
(any branches), hence the real-model XYZ within `1.01e-7` (C02 asks `5e-4`) -/
theorem lab_roundtrip_fp (M : FPModel) (c : Rgb) (hr : c.r ≤ 255) (hg : c.g ≤ 255) (hb : c.b ≤ 255) :
    NearFp (101 / 10 ^ 9) (Xyz.from_Lab (Lab.from_Xyz (Xyz.from_rgb (α := RF M) c .D65)))
      (Xyz.from_rgb (α := ℝ) c .D65) := by
  obtain ⟨⟨a0, a1, a2⟩, ⟨b0, b1, b2⟩, ⟨c0, c1, c2⟩⟩ := xyz_d65_fp M c hr hg hb
  exact nearFp_trans (FpCie.lab_roundtrip_fp M _ a0 a1 b0 b1 c0 c1) ⟨a2, b2, c2⟩ (by norm_num)

/-- **C02, CIELAB, second sentence, rounded model**: for every model of floating-point arithmetic and every
8-bit colour, `rgb → xyz → Lab → xyz → rgb` returns the colour — exactly. -/
theorem lab_requant_fp (M : FPModel) (c : Rgb) (hr : c.r ≤ 255) (hg : c.g ≤ 255) (hb : c.b ≤ 255) :
    Xyz.as_rgb (Xyz.from_Lab (Lab.from_Xyz (Xyz.from_rgb (α := RF M) c .D65))) .D65 = c :=
  as_rgb_fp_of_near M c hr hg hb _ ((lab_roundtrip_fp M c hr hg hb).mono (by norm_num))

/-! ## xyY -/

/-- the xyY round trip computed in `RF M`: within `2e-12` of the computed XYZ (exact for black and for `Y`) -/
theorem xyy_roundtrip_fp (M : FPModel) (c : Rgb) (hr : c.r ≤ 255) (hg : c.g ≤ 255) (hb : c.b ≤ 255) :
    NearFp (3 / 10 ^ 12) (Xyz.from_Xyy (Xyy.from_Xyz (Xyz.from_rgb (α := RF M) c .D65)))
      (Xyz.from_rgb (α := ℝ) c .D65) := by
  obtain ⟨⟨a0, a1, a2⟩, ⟨b0, b1, b2⟩, ⟨c0, c1, c2⟩⟩ := xyz_d65_fp M c hr hg hb
  by_cases hblack : c.r = 0 ∧ c.g = 0 ∧ c.b = 0
  · have hc : c = ⟨0, 0, 0⟩ := Lemmas.CieRtF1b.eq_black_of_zero c hblack
    obtain ⟨z1, z2, z3⟩ := Lemmas.FpXyz.xyz_black_fp M .D65
    have ex : Xyz.from_rgb (α := RF M) c .D65 = ⟨(Lemmas.FpXyz.xyzF M .D65 c).1, (Lemmas.FpXyz.xyzF M .D65 c).2.1,
        (Lemmas.FpXyz.xyzF M .D65 c).2.2⟩ := Lemmas.FpXyz.from_rgb_eq_fp' M .D65 c
    rw [hc] at ex
    have y1 : (Xyz.from_rgb (α := RF M) c .D65).x.val = 0 := by rw [hc, ex]; exact z1
    have y2 : (Xyz.from_rgb (α := RF M) c .D65).y.val = 0 := by rw [hc, ex]; exact z2
    have y3 : (Xyz.from_rgb (α := RF M) c .D65).z.val = 0 := by rw [hc, ex]; exact z3
    obtain ⟨k1, k2, k3⟩ := xyy_roundtrip_black_fp M _ y1 y2 y3
    refine nearFp_trans (e1 := 0) ⟨?_, ?_, ?_⟩ ⟨a2, b2, c2⟩ (by norm_num)
    · rw [k1, y1]; simp
    · rw [k2, y2]; simp
    · rw [k3, y3]; simp
  · obtain ⟨q1, q2, q3⟩ := xyz_cone_fp M c hr hg hb hblack
    obtain ⟨k1, k2, k3⟩ := FpCieXyz.xyy_roundtrip_fp M _ a0 (le_trans (by norm_num) q1) b1 c0 q2 q3
    refine nearFp_trans (e1 := 2 / 10 ^ 12) ⟨k1, ?_, k3⟩ ⟨a2, b2, c2⟩ (by norm_num)
    rw [k2]; simp only [sub_self, abs_zero]; norm_num

/-- **C02, xyY, second sentence, rounded model**: `rgb → xyz → xyY → xyz → rgb` returns the colour exactly,
in every model (black included) -/
theorem xyy_requant_fp (M : FPModel) (c : Rgb) (hr : c.r ≤ 255) (hg : c.g ≤ 255) (hb : c.b ≤ 255) :
    Xyz.as_rgb (Xyz.from_Xyy (Xyy.from_Xyz (Xyz.from_rgb (α := RF M) c .D65))) .D65 = c :=
  as_rgb_fp_of_near M c hr hg hb _ ((xyy_roundtrip_fp M c hr hg hb).mono (by norm_num))

/-- C02, first sentence (within `5e-4`), rounded model, for CIELAB and xyY -/
theorem roundtrip_5e4_fp (M : FPModel) (c : Rgb) (hr : c.r ≤ 255) (hg : c.g ≤ 255) (hb : c.b ≤ 255) :
    NearFp 5e-4 (Xyz.from_Lab (Lab.from_Xyz (Xyz.from_rgb (α := RF M) c .D65))) (Xyz.from_rgb (α := ℝ) c .D65) ∧
    NearFp 5e-4 (Xyz.from_Xyy (Xyy.from_Xyz (Xyz.from_rgb (α := RF M) c .D65))) (Xyz.from_rgb (α := ℝ) c .D65) :=
  ⟨(lab_roundtrip_fp M c hr hg hb).mono (by norm_num), (xyy_roundtrip_fp M c hr hg hb).mono (by norm_num)⟩

/-- re-quantisation stability in every model, as a statement about an arbitrary computed XYZ -/
theorem requant_stable_fp (M : FPModel) (c : Rgb) (hr : c.r ≤ 255) (hg : c.g ≤ 255) (hb : c.b ≤ 255)
    (x : Xyz (RF M)) (hx : NearFp 1e-5 x (Xyz.from_rgb (α := ℝ) c .D65)) : Xyz.as_rgb x .D65 = c :=
  as_rgb_fp_of_near M c hr hg hb x hx

/- CIELUV: proved in `Props/C02_fp_luv.lean` (`Props.C02_fp_luv.luv_requant_fp`, `luv_roundtrip_fp`; helper lemmas in
`Lemmas/FpLuv.lean`). -/

/-! ## examples -/

example : Xyz.as_rgb (Xyz.from_Lab (Lab.from_Xyz (Xyz.from_rgb (α := RF FPModel.exact) ⟨50, 10, 95⟩ .D65))) .D65
    = ⟨50, 10, 95⟩ := lab_requant_fp FPModel.exact _ (by norm_num) (by norm_num) (by norm_num)
example (M : FPModel) : Xyz.as_rgb (Xyz.from_Lab (Lab.from_Xyz (Xyz.from_rgb (α := RF M) ⟨0, 0, 0⟩ .D65))) .D65
    = ⟨0, 0, 0⟩ := lab_requant_fp M _ (by norm_num) (by norm_num) (by norm_num)
example (M : FPModel) : Xyz.as_rgb (Xyz.from_Xyy (Xyy.from_Xyz (Xyz.from_rgb (α := RF M) ⟨0, 0, 0⟩ .D65))) .D65
    = ⟨0, 0, 0⟩ := xyy_requant_fp M _ (by norm_num) (by norm_num) (by norm_num)
example (M : FPModel) : Xyz.as_rgb (Xyz.from_Xyy (Xyy.from_Xyz (Xyz.from_rgb (α := RF M) ⟨0, 0, 1⟩ .D65))) .D65
    = ⟨0, 0, 1⟩ := xyy_requant_fp M _ (by norm_num) (by norm_num) (by norm_num)
-- the hypothesis of `requant_stable_fp` is satisfiable by a non-trivial computed XYZ
example (M : FPModel) : NearFp 1e-5 (Xyz.from_Lab (Lab.from_Xyz (Xyz.from_rgb (α := RF M) ⟨255, 255, 255⟩ .D65)))
    (Xyz.from_rgb (α := ℝ) ⟨255, 255, 255⟩ .D65) :=
  (lab_roundtrip_fp M _ (by norm_num) (by norm_num) (by norm_num)).mono (by norm_num)

end Props.C02_fp_cie
