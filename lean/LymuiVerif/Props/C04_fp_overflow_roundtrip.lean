import LymuiVerif.Lemmas.FpOverflowRev2
import LymuiVerif.Props.C04_fp_overflow
/-!
# C04 in floating point, "no infinity" — the round trips XYZ → S → XYZ of the remaining ten spaces are finite AND do not
# overflow, for EVERY `M : FPModel`

Carrier `PRFo M` (`Inst/RoundedPartialO.lean`): NaN cases of `PRF M` plus overflow (a produced number of magnitude
above `FP.omega = 2^1023` is not finite).  `Props.C04_fp_overflow.roundtrip_finite_fpo_partial` covers sRGB, Adobe RGB,
Rec.709, Rec.2020; this file covers CIELAB, LCh(ab), CIELUV, LCh(uv), HCL, Hunter Lab, xyY, OkLab, OkLch, Rec.2100 — the
same statements as `Props.C04_fp.roundtrip_finite_fp` / `roundtrip_finite_all_fp`, on `PRFo M`.  Hunter Lab and Rec.2100
include black thanks to `FPModel.pow_nonneg`.

Each theorem composes bridging lemmas `f (liftO x) = liftO (f x)` of `Lemmas/FpOverflow*.lean` (forward) and
`Lemmas/FpOverflowRev2.lean` (back).  Quantitative facts used on the way back, in every model:

* CIELUV (also after the LCh(uv) / HCL detours): the computed divisors satisfy `13·l ≥ 3e-3` and `4·v' ≥ 0.1` for every
  non-black colour (`vp_lower`); black is caught by the guard `u == 0 && l == 0`.
* xyY: the divisor is the chromaticity `y = Y/(X+Y+Z)`, computed `≥ 1/34` on the sRGB cone (`X ≤ 2.6·Y`, `Z ≤ 13.3·Y`)
  and the constant `0.329` for black.  (The guard `y == 0` alone would not exclude an overflow of `x·Y/y`.)
* Hunter Lab: the divisors are the constants `ka`, `kb`, computed `≥ 1e-8`.
* Rec.2100: the PQ inverse raises `(c1 + c2·e)/(1 + c3·e)` to `m2 = 78.84`; that quotient is computed in `[0, 2]` for
  EVERY `e ≥ 0`, hence the power is `≤ 1.01·3^79 + 1 < 1e39`; `e = powf(x/10000, m1)` with `x` in the true forward range
  `[0, 10801]` of the code's PQ curve (`Props.C08_fp_rec2100.pq_forward_fp`).
* OkLab / OkLch: crude magnitudes suffice once the forward sRGB triple is bounded by `2` (its true range is `[0, 1]`,
  `FpOkSharp.srgb_fwd_tight`): OkLab `≤ 1e6`, cubes `≤ 1e45`, `powf(max(·, 0), 1/2.2) ≤ 1e48`, decoding `powf(·, 2.4) ≤
  1e200`, all below `10^250 ≤ 2^1023`.  Without the true range of the sRGB triple the crude composition exceeds `omega`.

No magnitude on these paths was found to be unbounded.
-/
set_option linter.unusedSimpArgs false
set_option linter.unusedVariables false
namespace Props.C04_fp_overflow_roundtrip
open Gen Lemmas.FpOverflow Props.C04_fp Props.C04_fp_overflow
open Lemmas.FpDefined (XyzOK xyz_ok xyz_black_or_cone rec2100_lin_nonneg_fp)

/-! ## One theorem per space -/

theorem lab_roundtrip_fpo (M : FPModel) (c : Rgb) (h : U8 c) :
    FiniteFo (Xyz.as_vec (Xyz.from_Lab (Lab.from_Xyz (Xyz.from_rgb c XyzKind.D65 : Xyz (PRFo M))))) := by
  obtain ⟨bx, by', bz⟩ := xyz_bd (M := M) c XyzKind.D65 h.1 h.2.1 h.2.2
  obtain ⟨l1, l2, l3⟩ := lab_xyz_bd _ bx by' bz
  rw [xyz_bridge c _ h.1 h.2.1 h.2.2, lab_from_xyz _ bx by' bz,
    xyz_from_lab _ (le_trans l1 (by norm_num)) (le_trans l2 (by norm_num)) (le_trans l3 (by norm_num))]
  finite_lifto

theorem lchlab_roundtrip_fpo (M : FPModel) (c : Rgb) (h : U8 c) :
    FiniteFo (Xyz.as_vec (Xyz.from_Lchlab (Lchlab.from_Xyz (Xyz.from_rgb c XyzKind.D65 : Xyz (PRFo M))))) := by
  obtain ⟨bx, by', bz⟩ := xyz_bd (M := M) c XyzKind.D65 h.1 h.2.1 h.2.2
  obtain ⟨l1, l2, l3⟩ := lchlab_xyz_bd _ bx by' bz
  rw [xyz_bridge c _ h.1 h.2.1 h.2.2, lchlab_from_xyz _ bx by' bz, xyz_from_lchlab _ l1 l2 l3]
  finite_lifto

theorem luv_roundtrip_fpo (M : FPModel) (c : Rgb) (h : U8 c) :
    FiniteFo (Xyz.as_vec (Xyz.from_Luv (Luv.from_Xyz (Xyz.from_rgb c XyzKind.D65 : Xyz (PRFo M))))) := by
  obtain ⟨bx, by', bz⟩ := xyz_bd (M := M) c XyzKind.D65 h.1 h.2.1 h.2.2
  have ok := xyz_ok (M := M) c h.1 h.2.1 h.2.2
  have bc := xyz_black_or_cone (M := M) c h.1 h.2.1 h.2.2
  rw [xyz_bridge c _ h.1 h.2.1 h.2.2, luv_from_xyz _ bx by' bz ok, xyz_from_luv_image _ bx by' bz bc]
  finite_lifto

theorem lchuv_roundtrip_fpo (M : FPModel) (c : Rgb) (h : U8 c) :
    FiniteFo (Xyz.as_vec (Xyz.from_Lchuv (Lchuv.from_Xyz (Xyz.from_rgb c XyzKind.D65 : Xyz (PRFo M))))) := by
  obtain ⟨bx, by', bz⟩ := xyz_bd (M := M) c XyzKind.D65 h.1 h.2.1 h.2.2
  have ok := xyz_ok (M := M) c h.1 h.2.1 h.2.2
  have bc := xyz_black_or_cone (M := M) c h.1 h.2.1 h.2.2
  rw [xyz_bridge c _ h.1 h.2.1 h.2.2, lchuv_from_xyz _ bx by' bz ok, xyz_from_lchuv_image _ bx by' bz bc]
  finite_lifto

theorem hcl_roundtrip_fpo (M : FPModel) (c : Rgb) (h : U8 c) :
    FiniteFo (Xyz.as_vec (Xyz.from_Hcl (Hcl.from_Xyz (Xyz.from_rgb c XyzKind.D65 : Xyz (PRFo M))))) := by
  obtain ⟨bx, by', bz⟩ := xyz_bd (M := M) c XyzKind.D65 h.1 h.2.1 h.2.2
  have ok := xyz_ok (M := M) c h.1 h.2.1 h.2.2
  have bc := xyz_black_or_cone (M := M) c h.1 h.2.1 h.2.2
  rw [xyz_bridge c _ h.1 h.2.1 h.2.2, hcl_from_xyz _ bx by' bz ok, xyz_from_hcl_image _ bx by' bz bc]
  finite_lifto

/-- Hunter Lab, black included (`FPModel.pow_nonneg`: `powf(l/Yn, 2.0)` is never negative, so `sqrt` is defined) -/
theorem hlab_roundtrip_fpo (M : FPModel) (c : Rgb) (h : U8 c) :
    FiniteFo (Xyz.as_vec (Xyz.from_Hlab (Hlab.from_Xyz (Xyz.from_rgb c XyzKind.D65 : Xyz (PRFo M))))) := by
  obtain ⟨bx, by', bz⟩ := xyz_bd (M := M) c XyzKind.D65 h.1 h.2.1 h.2.2
  have ok := xyz_ok (M := M) c h.1 h.2.1 h.2.2
  have hy : (Xyz.from_rgb (α := RF M) c XyzKind.D65).y.val = 0 ∨
      1 / 10 ^ 10 ≤ (Xyz.from_rgb (α := RF M) c XyzKind.D65).y.val := by
    rcases ok with h | h
    · exact Or.inl h.2.1
    · exact Or.inr h.2.1
  have hy0 : 0 ≤ (Xyz.from_rgb (α := RF M) c XyzKind.D65).y.val := Lemmas.FpMono.yF_nonneg M c h.1 h.2.1 h.2.2
  have hl := Lemmas.FpDefined.hlab_l_nonneg (Xyz.from_rgb (α := RF M) c XyzKind.D65) hy0
  obtain ⟨b1, b2, b3⟩ := hlab_xyz_bd _ bx by' bz hy
  rw [xyz_bridge c _ h.1 h.2.1 h.2.2, hlab_from_xyz _ bx by' bz hy,
    xyz_from_hlab _ b1 b2 b3 hl (by rw [FltRF.pow_val]; exact M.pow_nonneg _ _ hl)]
  finite_lifto

theorem xyy_roundtrip_fpo (M : FPModel) (c : Rgb) (h : U8 c) :
    FiniteFo (Xyz.as_vec (Xyz.from_Xyy (Xyy.from_Xyz (Xyz.from_rgb c XyzKind.D65 : Xyz (PRFo M))))) := by
  obtain ⟨bx, by', bz⟩ := xyz_bd (M := M) c XyzKind.D65 h.1 h.2.1 h.2.2
  have ok := xyz_ok (M := M) c h.1 h.2.1 h.2.2
  have bc := xyz_black_or_cone (M := M) c h.1 h.2.1 h.2.2
  rw [xyz_bridge c _ h.1 h.2.1 h.2.2, xyy_from_xyz _ bx by' bz ok, xyz_from_xyy_image _ bx by' bz bc]
  finite_lifto

theorem oklab_roundtrip_fpo (M : FPModel) (c : Rgb) (h : U8 c) :
    FiniteFo (Xyz.as_vec (Xyz.from_OkLab (OkLab.from_Xyz (Xyz.from_rgb c XyzKind.D65 : Xyz (PRFo M))))) := by
  obtain ⟨bx, by', bz⟩ := xyz_bd (M := M) c XyzKind.D65 h.1 h.2.1 h.2.2
  obtain ⟨s1, s2, s3⟩ := srgb_image_bd (M := M) c h.1 h.2.1 h.2.2
  rw [xyz_bridge c _ h.1 h.2.1 h.2.2, oklab_from_xyz _ bx by' bz, xyz_from_oklab_image _ bx by' bz s1 s2 s3]
  finite_lifto

theorem oklch_roundtrip_fpo (M : FPModel) (c : Rgb) (h : U8 c) :
    FiniteFo (Xyz.as_vec (Xyz.from_OkLch (OkLch.from_Xyz (Xyz.from_rgb c XyzKind.D65 : Xyz (PRFo M))))) := by
  obtain ⟨bx, by', bz⟩ := xyz_bd (M := M) c XyzKind.D65 h.1 h.2.1 h.2.2
  obtain ⟨s1, s2, s3⟩ := srgb_image_bd (M := M) c h.1 h.2.1 h.2.2
  rw [xyz_bridge c _ h.1 h.2.1 h.2.2, oklch_from_xyz _ bx by' bz, xyz_from_oklch_image _ bx by' bz s1 s2 s3]
  finite_lifto

/-- Rec.2100 (PQ), black included (`FPModel.pow_nonneg`: the forward PQ value is never negative, so it is a legal base of
the inverse's `powf`) -/
theorem rec2100_roundtrip_fpo (M : FPModel) (c : Rgb) (h : U8 c) :
    FiniteFo (Xyz.as_vec (Xyz.from_Rec2100 (Rec2100.from_Xyz (Xyz.from_rgb c XyzKind.D65 : Xyz (PRFo M))))) := by
  obtain ⟨bx, by', bz⟩ := xyz_bd (M := M) c XyzKind.D65 h.1 h.2.1 h.2.2
  obtain ⟨r0, g0, b0⟩ := rec2100_lin_nonneg_fp (M := M) c h.1 h.2.1 h.2.2
  obtain ⟨⟨hr, hr'⟩, ⟨hg, hg'⟩, ⟨hb, hb'⟩⟩ := rec2100_image_range (M := M) c h.1 h.2.1 h.2.2
  rw [xyz_bridge c _ h.1 h.2.1 h.2.2, rec2100_from_xyz _ bx by' bz r0 g0 b0,
    xyz_from_rec2100 _ hr hg hb (by rw [abs_of_nonneg hr]; exact le_trans hr' (by norm_num))
      (by rw [abs_of_nonneg hg]; exact le_trans hg' (by norm_num))
      (by rw [abs_of_nonneg hb]; exact le_trans hb' (by norm_num))]
  finite_lifto

/-! ## The ten together, and all fourteen -/

/-- **C04 in floating point, round trips, no infinity**: for every 8-bit colour, converting the D65 XYZ to each of the
ten spaces below and back to XYZ is finite and no operation on the way overflows, in every model of floating-point
arithmetic.  Same shapes as `Props.C04_fp.roundtrip_finite_fp` / `roundtrip_finite_all_fp`. -/
theorem roundtrip_finite_fpo (M : FPModel) (c : Rgb) (h : U8 c) :
    FiniteFo (Xyz.as_vec (Xyz.from_Lab (Lab.from_Xyz (Xyz.from_rgb c XyzKind.D65 : Xyz (PRFo M))))) ∧
    FiniteFo (Xyz.as_vec (Xyz.from_Lchlab (Lchlab.from_Xyz (Xyz.from_rgb c XyzKind.D65 : Xyz (PRFo M))))) ∧
    FiniteFo (Xyz.as_vec (Xyz.from_Luv (Luv.from_Xyz (Xyz.from_rgb c XyzKind.D65 : Xyz (PRFo M))))) ∧
    FiniteFo (Xyz.as_vec (Xyz.from_Lchuv (Lchuv.from_Xyz (Xyz.from_rgb c XyzKind.D65 : Xyz (PRFo M))))) ∧
    FiniteFo (Xyz.as_vec (Xyz.from_Hcl (Hcl.from_Xyz (Xyz.from_rgb c XyzKind.D65 : Xyz (PRFo M))))) ∧
    FiniteFo (Xyz.as_vec (Xyz.from_Hlab (Hlab.from_Xyz (Xyz.from_rgb c XyzKind.D65 : Xyz (PRFo M))))) ∧
    FiniteFo (Xyz.as_vec (Xyz.from_Xyy (Xyy.from_Xyz (Xyz.from_rgb c XyzKind.D65 : Xyz (PRFo M))))) ∧
    FiniteFo (Xyz.as_vec (Xyz.from_OkLab (OkLab.from_Xyz (Xyz.from_rgb c XyzKind.D65 : Xyz (PRFo M))))) ∧
    FiniteFo (Xyz.as_vec (Xyz.from_OkLch (OkLch.from_Xyz (Xyz.from_rgb c XyzKind.D65 : Xyz (PRFo M))))) ∧
    FiniteFo (Xyz.as_vec (Xyz.from_Rec2100 (Rec2100.from_Xyz (Xyz.from_rgb c XyzKind.D65 : Xyz (PRFo M))))) :=
  ⟨lab_roundtrip_fpo M c h, lchlab_roundtrip_fpo M c h, luv_roundtrip_fpo M c h, lchuv_roundtrip_fpo M c h,
    hcl_roundtrip_fpo M c h, hlab_roundtrip_fpo M c h, xyy_roundtrip_fpo M c h, oklab_roundtrip_fpo M c h,
    oklch_roundtrip_fpo M c h, rec2100_roundtrip_fpo M c h⟩

/-- all fourteen spaces of `Props.C04.roundtrip_finite` (the four RGB encodings from
`Props.C04_fp_overflow.roundtrip_finite_fpo_partial`) -/
theorem roundtrip_finite_all_fpo (M : FPModel) (c : Rgb) (h : U8 c) :
    FiniteFo (Xyz.as_vec (Xyz.from_Srgb (Srgb.from_Xyz (Xyz.from_rgb c XyzKind.D65 : Xyz (PRFo M))))) ∧
    FiniteFo (Xyz.as_vec (Xyz.from_Argb (Argb.from_Xyz (Xyz.from_rgb c XyzKind.D65 : Xyz (PRFo M))))) ∧
    FiniteFo (Xyz.as_vec (Xyz.from_Rec709 (Rec709.from_Xyz (Xyz.from_rgb c XyzKind.D65 : Xyz (PRFo M))))) ∧
    FiniteFo (Xyz.as_vec (Xyz.from_Rec2020 (Rec2020.from_Xyz (Xyz.from_rgb c XyzKind.D65 : Xyz (PRFo M))))) ∧
    FiniteFo (Xyz.as_vec (Xyz.from_Rec2100 (Rec2100.from_Xyz (Xyz.from_rgb c XyzKind.D65 : Xyz (PRFo M))))) ∧
    FiniteFo (Xyz.as_vec (Xyz.from_Lab (Lab.from_Xyz (Xyz.from_rgb c XyzKind.D65 : Xyz (PRFo M))))) ∧
    FiniteFo (Xyz.as_vec (Xyz.from_Lchlab (Lchlab.from_Xyz (Xyz.from_rgb c XyzKind.D65 : Xyz (PRFo M))))) ∧
    FiniteFo (Xyz.as_vec (Xyz.from_Luv (Luv.from_Xyz (Xyz.from_rgb c XyzKind.D65 : Xyz (PRFo M))))) ∧
    FiniteFo (Xyz.as_vec (Xyz.from_Lchuv (Lchuv.from_Xyz (Xyz.from_rgb c XyzKind.D65 : Xyz (PRFo M))))) ∧
    FiniteFo (Xyz.as_vec (Xyz.from_Hcl (Hcl.from_Xyz (Xyz.from_rgb c XyzKind.D65 : Xyz (PRFo M))))) ∧
    FiniteFo (Xyz.as_vec (Xyz.from_Hlab (Hlab.from_Xyz (Xyz.from_rgb c XyzKind.D65 : Xyz (PRFo M))))) ∧
    FiniteFo (Xyz.as_vec (Xyz.from_Xyy (Xyy.from_Xyz (Xyz.from_rgb c XyzKind.D65 : Xyz (PRFo M))))) ∧
    FiniteFo (Xyz.as_vec (Xyz.from_OkLab (OkLab.from_Xyz (Xyz.from_rgb c XyzKind.D65 : Xyz (PRFo M))))) ∧
    FiniteFo (Xyz.as_vec (Xyz.from_OkLch (OkLch.from_Xyz (Xyz.from_rgb c XyzKind.D65 : Xyz (PRFo M))))) := by
  obtain ⟨a1, a2, a3, a4⟩ := roundtrip_finite_fpo_partial M c h
  exact ⟨a1, a2, a3, a4, rec2100_roundtrip_fpo M c h, lab_roundtrip_fpo M c h, lchlab_roundtrip_fpo M c h,
    luv_roundtrip_fpo M c h, lchuv_roundtrip_fpo M c h, hcl_roundtrip_fpo M c h, hlab_roundtrip_fpo M c h,
    xyy_roundtrip_fpo M c h, oklab_roundtrip_fpo M c h, oklch_roundtrip_fpo M c h⟩

/-! ## Examples: black, white, pure blue, the darkest blue; the exact-real arithmetic is one of the models -/
example : U8 ⟨0, 0, 255⟩ := ⟨by decide, by decide, by decide⟩
example (M : FPModel) := roundtrip_finite_fpo M ⟨0, 0, 0⟩ ⟨by decide, by decide, by decide⟩
example (M : FPModel) := roundtrip_finite_fpo M ⟨255, 255, 255⟩ ⟨by decide, by decide, by decide⟩
example (M : FPModel) := roundtrip_finite_fpo M ⟨0, 0, 255⟩ ⟨by decide, by decide, by decide⟩
example (M : FPModel) := roundtrip_finite_all_fpo M ⟨0, 0, 1⟩ ⟨by decide, by decide, by decide⟩
example := roundtrip_finite_fpo FPModel.exact ⟨0, 0, 255⟩ ⟨by decide, by decide, by decide⟩
example (M : FPModel) := hlab_roundtrip_fpo M ⟨0, 0, 0⟩ ⟨by decide, by decide, by decide⟩
example (M : FPModel) := rec2100_roundtrip_fpo M ⟨0, 0, 0⟩ ⟨by decide, by decide, by decide⟩
/-- what `FiniteFo` excludes: an overflowing product is not finite (in the exact model `rnd = id`) -/
example : ¬ FiniteFo [(PRFo.fin FP.omega : PRFo FPModel.exact) * PRFo.fin 4] := by
  have h : FP.omega < |FPModel.exact.rnd (FP.omega * 4)| := by
    show FP.omega < |FP.omega * 4|
    have := FP.omega_pos
    rw [abs_of_pos (by positivity)]; linarith
  simp [FiniteFo, FltPRFo.mul_overflow _ _ h]

/-! ## Coverage map

* `lab_roundtrip_fpo`, `lchlab_roundtrip_fpo`, `luv_roundtrip_fpo`, `lchuv_roundtrip_fpo`, `hcl_roundtrip_fpo`,
  `hlab_roundtrip_fpo`, `xyy_roundtrip_fpo`, `oklab_roundtrip_fpo`, `oklch_roundtrip_fpo`, `rec2100_roundtrip_fpo`: one
  per space, every 8-bit colour (black included), every `M : FPModel`.
* `roundtrip_finite_fpo`: the ten together; `roundtrip_finite_all_fpo`: with the four RGB encodings, all fourteen spaces.

Nothing of the GOAL of `Props/C04_fp_overflow.lean` §d remains open.  As there, "finite" is relative to the conservative
threshold `FP.omega = 2^1023`.
-/

end Props.C04_fp_overflow_roundtrip
