import LymuiVerif.Lemmas.FpLuv
import LymuiVerif.Props.C06_fp
/-!
# C06, CIELUV forward, in the rounded-arithmetic reading (`RF M`, every `M : FPModel`)

`Luv::from(Xyz)` evaluated in `RF M` (one rounding after every `+ - * /` and every literal; `powf` with the 1-ulp
bound `M.pow_err`, its exponent `1.0/3.0` rounded too) is compared with the SAME generated conversion evaluated on
exact reals at the same input values — the model that `Props/C06.lean` compares with the CIE formulas
(`luv_forward_tight`, `luv_forward`).

* `luv_forward_fp` — `X, Z ≥ 0`, `Y ∈ [1e-5, 1.1]` (the XYZ of every non-black 8-bit colour has `Y ≥ 1.9e-5`; no upper
  bound on `X`, `Z` and no cone condition is needed: `u' = 4X/(X+15Y+3Z)`, `v' = 9Y/(…)` are handled in relative
  error, `FpLuv.ratio_uv`): `L` within `4e-13`, `u`, `v` within `5e-11`.
  SIDE CONDITION (`Props.C06_fp.Clear`, the same as for CIELAB): `Y/Yn` is farther than `1e-12` from the threshold
  `0.008856` of the lightness test.  Within rounding error of the threshold the computed and the real evaluation may
  take different branches, and `116·y^(1/3) − 16` and `κ·y` differ by `3.3e-5` there.  (Without the side condition:
  `FpLuv.lum_fwd_fp` shows that the computed `L` is within `2e-13` of ONE of the two branch formulas, the one
  consistent with the luminance up to `1e-9`; this is what the round trip `Props.C02_fp_luv` uses.)
* `luv_black_fp` — black takes the guard of `compute_compounds` (exact comparisons): `L = u = v = 0` exactly, as the
  real model (`Props.C06.luv_black`).
* `luv_forward_of_rgb_fp` — the same for the computed XYZ of every non-black 8-bit colour.
* `luv_forward_cie_fp` — against the CIE formulas themselves (`Props.C06.cieluv`) within the property's `1e-3`, in gamut
  (`X ≤ 5Y + Z`, true on the sRGB cone), by the triangle inequality with `Props.C06.luv_forward_tight`.
-/
namespace Props.C06_fp_luv
open Gen FpErr FpLin FpCie FpLuv Lemmas.Cie Props.C06

/-- **CIELUV forward in `RF M`** against the real model at the same values -/
theorem luv_forward_fp (M : FPModel) (x : Xyz (RF M)) (hx0 : 0 ≤ x.x.val) (hy0 : 1 / 10 ^ 5 ≤ x.y.val)
    (hy1 : x.y.val ≤ 11 / 10) (hz0 : 0 ≤ x.z.val)
    (sy : Props.C06_fp.Clear (x.y.val / (C.D65 : ℝ × ℝ × ℝ).2.1)) :
    |(Luv.from_Xyz x).l.val - (Luv.from_Xyz (α := ℝ) ⟨x.x.val, x.y.val, x.z.val⟩).l| ≤ 4 / 10 ^ 13 ∧
    |(Luv.from_Xyz x).u.val - (Luv.from_Xyz (α := ℝ) ⟨x.x.val, x.y.val, x.z.val⟩).u| ≤ 5 / 10 ^ 11 ∧
    |(Luv.from_Xyz x).v.val - (Luv.from_Xyz (α := ℝ) ⟨x.x.val, x.y.val, x.z.val⟩).v| ≤ 5 / 10 ^ 11 := by
  have hYp : 0 < x.y.val := lt_of_lt_of_le (by norm_num) hy0
  have hne : ¬ (x.x.val = 0 ∧ x.y.val = 0 ∧ x.z.val = 0) := fun h => hYp.ne' h.2.1
  have hs : 1 / 10 ^ 12 ≤ |x.y.val - 1107 / 125000| := by
    have e : x.y.val / (C.D65 : ℝ × ℝ × ℝ).2.1 = x.y.val := by simp [C.D65]
    unfold Props.C06_fp.Clear at sy
    rw [e] at sy
    simpa [C.EPSILON] using sy
  obtain ⟨f1, f2, f3⟩ := from_xyz_fp M x hne
  rw [luv_from_xyz_shape (⟨x.x.val, x.y.val, x.z.val⟩ : Xyz ℝ) hne, f1, f2, f3]
  simp only []
  have hl := lum_close M hYp.le hy1 hs
  obtain ⟨r0, r1⟩ := lCodeLuv_range hYp.le hy1
  have nL : Near (lumF M (M.rnd x.y.val)) (lCodeLuv x.y.val) (4 / 10 ^ 13) 105 :=
    ⟨hl, by rw [abs_of_nonneg r0]; exact r1, by norm_num⟩
  have n13 : Near (13 : ℝ) 13 0 13 := Near.exact (by norm_num) (by norm_num)
  have hD : 0 < x.x.val + 15 * x.y.val + 3 * x.z.val := by positivity
  have nu : Near (upF M x.x.val x.y.val x.z.val) (uPrime x.x.val x.y.val x.z.val) (1 / 10 ^ 14) 4 :=
    ⟨up_fp M hx0 hy0 hz0, by
      unfold uPrime; rw [abs_of_nonneg (by positivity), div_le_iff₀ hD]; nlinarith, by norm_num⟩
  have nv : Near (vpF M x.x.val x.y.val x.z.val) (vPrime x.x.val x.y.val x.z.val) (1 / 10 ^ 14) 4 :=
    ⟨vp_fp M hx0 hy0 hz0, by
      unfold vPrime; rw [abs_of_nonneg (by positivity), div_le_iff₀ hD]; nlinarith, by norm_num⟩
  obtain ⟨w1, w2⟩ := white_uv M
  have hu0 : uPrime Xn Yn Zn = 380188 / 1921696 := by unfold uPrime Xn Yn Zn; norm_num
  have hv0 : vPrime Xn Yn Zn = 900000 / 1921696 := by unfold vPrime Xn Yn Zn; norm_num
  have nun : Near (upF M (wX M) 1 (wZ M)) (uPrime Xn Yn Zn) (1 / 10 ^ 15) 1 :=
    ⟨w1, by rw [hu0, abs_of_pos (by norm_num)]; norm_num, le_rfl⟩
  have nvn : Near (vpF M (wX M) 1 (wZ M)) (vPrime Xn Yn Zn) (1 / 10 ^ 15) 1 :=
    ⟨w2, by rw [hv0, abs_of_pos (by norm_num)]; norm_num, le_rfl⟩
  exact ⟨hl, ((n13.mul M nL).mul M (nu.sub M nun)).finish rfl (by norm_num [FP.eps]),
    ((n13.mul M nL).mul M (nv.sub M nvn)).finish rfl (by norm_num [FP.eps])⟩

/-- **black**: the guard of `compute_compounds` is an exact comparison; `L = u = v = 0` in every model, which is the
real model's value (`Props.C06.luv_black`) and the CIE convention -/
theorem luv_black_fp (M : FPModel) (x : Xyz (RF M)) (h1 : x.x.val = 0) (h2 : x.y.val = 0) (h3 : x.z.val = 0) :
    (Luv.from_Xyz x).l.val = (Luv.from_Xyz (α := ℝ) ⟨0, 0, 0⟩).l ∧
    (Luv.from_Xyz x).u.val = (Luv.from_Xyz (α := ℝ) ⟨0, 0, 0⟩).u ∧
    (Luv.from_Xyz x).v.val = (Luv.from_Xyz (α := ℝ) ⟨0, 0, 0⟩).v := by
  rw [luv_black.1]
  exact FpLuv.luv_black_fp M x h1 h2 h3

/-- CIELUV forward for the computed XYZ of every non-black 8-bit colour (D65), under the same side condition -/
theorem luv_forward_of_rgb_fp (M : FPModel) (c : Rgb) (hr : c.r ≤ 255) (hg : c.g ≤ 255) (hb : c.b ≤ 255)
    (hnb : ¬ (c.r = 0 ∧ c.g = 0 ∧ c.b = 0))
    (sy : Props.C06_fp.Clear ((Xyz.from_rgb (α := RF M) c .D65).y.val / (C.D65 : ℝ × ℝ × ℝ).2.1)) :
    let x := Xyz.from_rgb (α := RF M) c .D65
    |(Luv.from_Xyz x).l.val - (Luv.from_Xyz (α := ℝ) ⟨x.x.val, x.y.val, x.z.val⟩).l| ≤ 4 / 10 ^ 13 ∧
    |(Luv.from_Xyz x).u.val - (Luv.from_Xyz (α := ℝ) ⟨x.x.val, x.y.val, x.z.val⟩).u| ≤ 5 / 10 ^ 11 ∧
    |(Luv.from_Xyz x).v.val - (Luv.from_Xyz (α := ℝ) ⟨x.x.val, x.y.val, x.z.val⟩).v| ≤ 5 / 10 ^ 11 := by
  intro x
  obtain ⟨⟨a0, -, -⟩, ⟨-, b1, -⟩, ⟨c0, -, -⟩⟩ := FpCieXyz.xyz_d65_fp M c hr hg hb
  obtain ⟨q1, -, -⟩ := FpCieXyz.xyz_cone_fp M c hr hg hb hnb
  exact luv_forward_fp M x a0 (le_trans (by norm_num) q1) b1 c0 sy

/-- **CIELUV forward in `RF M` against the CIE formulas** (`Props.C06.cieluv`, exact constants `216/24389`,
`24389/27`), in gamut (`X ≤ 5Y + Z`, i.e. `u' ≤ 1`; true on the sRGB cone): within the property's `1e-3`
(in fact `3.4e-5` for `L`, `4.3e-4` for `u`, `v`). -/
theorem luv_forward_cie_fp (M : FPModel) (x : Xyz (RF M)) (hx0 : 0 ≤ x.x.val) (hy0 : 1 / 10 ^ 5 ≤ x.y.val)
    (hy1 : x.y.val ≤ 11 / 10) (hz0 : 0 ≤ x.z.val) (hg : x.x.val ≤ 5 * x.y.val + x.z.val)
    (sy : Props.C06_fp.Clear (x.y.val / (C.D65 : ℝ × ℝ × ℝ).2.1)) :
    |(Luv.from_Xyz x).l.val - (cieluv x.x.val x.y.val x.z.val).l| ≤ 1e-3 ∧
    |(Luv.from_Xyz x).u.val - (cieluv x.x.val x.y.val x.z.val).u| ≤ 1e-3 ∧
    |(Luv.from_Xyz x).v.val - (cieluv x.x.val x.y.val x.z.val).v| ≤ 1e-3 := by
  have hYp : 0 < x.y.val := lt_of_lt_of_le (by norm_num) hy0
  have hD : 0 < x.x.val + 15 * x.y.val + 3 * x.z.val := by positivity
  obtain ⟨a1, a2, a3⟩ := luv_forward_fp M x hx0 hy0 hy1 hz0 sy
  obtain ⟨t1, t2, t3⟩ := luv_forward_tight (⟨x.x.val, x.y.val, x.z.val⟩ : Xyz ℝ) hYp.le hD
  simp only [] at t1 t2 t3
  have hu0 : uPrime Xn Yn Zn = 380188 / 1921696 := by unfold uPrime Xn Yn Zn; norm_num
  have hv0 : vPrime Xn Yn Zn = 900000 / 1921696 := by unfold vPrime Xn Yn Zn; norm_num
  have hu1 : 0 ≤ uPrime x.x.val x.y.val x.z.val := by unfold uPrime; positivity
  have hu2 : uPrime x.x.val x.y.val x.z.val ≤ 1 := by unfold uPrime; rw [div_le_one hD]; linarith
  have hv1 : 0 ≤ vPrime x.x.val x.y.val x.z.val := by unfold vPrime; positivity
  have hv2 : vPrime x.x.val x.y.val x.z.val ≤ 3 / 5 := by unfold vPrime; rw [div_le_iff₀ hD]; linarith
  have du : |uPrime x.x.val x.y.val x.z.val - uPrime Xn Yn Zn| ≤ 1 := by rw [hu0, abs_le]; constructor <;> linarith
  have dv : |vPrime x.x.val x.y.val x.z.val - vPrime Xn Yn Zn| ≤ 1 := by rw [hv0, abs_le]; constructor <;> linarith
  refine ⟨?_, ?_, ?_⟩
  · have := abs_sub_le (Luv.from_Xyz x).l.val (Luv.from_Xyz (α := ℝ) ⟨x.x.val, x.y.val, x.z.val⟩).l
      (cieluv x.x.val x.y.val x.z.val).l
    norm_num at a1 t1 this ⊢; linarith
  · have := abs_sub_le (Luv.from_Xyz x).u.val (Luv.from_Xyz (α := ℝ) ⟨x.x.val, x.y.val, x.z.val⟩).u
      (cieluv x.x.val x.y.val x.z.val).u
    norm_num at a2 t2 this ⊢; nlinarith
  · have := abs_sub_le (Luv.from_Xyz x).v.val (Luv.from_Xyz (α := ℝ) ⟨x.x.val, x.y.val, x.z.val⟩).v
      (cieluv x.x.val x.y.val x.z.val).v
    norm_num at a3 t3 this ⊢; nlinarith

/-! ## examples: the hypotheses are satisfiable -/

-- exactly representable halves, clear of the threshold, every model
example (M : FPModel) : |(Luv.from_Xyz (⟨⟨1 / 2⟩, ⟨1 / 4⟩, ⟨1 / 4⟩⟩ : Xyz (RF M))).u.val -
    (Luv.from_Xyz (α := ℝ) ⟨1 / 2, 1 / 4, 1 / 4⟩).u| ≤ 5 / 10 ^ 11 :=
  (luv_forward_fp M ⟨⟨1 / 2⟩, ⟨1 / 4⟩, ⟨1 / 4⟩⟩ (by norm_num) (by norm_num) (by norm_num) (by norm_num)
    (by unfold Props.C06_fp.Clear; simp only [C.D65, C.EPSILON, FltReal.lit_eq]; norm_num [le_abs])).2.1
-- a dark value on the linear branch (Y = 1/256 < 0.008856), the exact model
example : |(Luv.from_Xyz (⟨⟨1 / 256⟩, ⟨1 / 256⟩, ⟨1 / 256⟩⟩ : Xyz (RF FPModel.exact))).l.val -
    (Luv.from_Xyz (α := ℝ) ⟨1 / 256, 1 / 256, 1 / 256⟩).l| ≤ 4 / 10 ^ 13 :=
  (luv_forward_fp FPModel.exact ⟨⟨1 / 256⟩, ⟨1 / 256⟩, ⟨1 / 256⟩⟩ (by norm_num) (by norm_num) (by norm_num) (by norm_num)
    (by unfold Props.C06_fp.Clear; simp only [C.D65, C.EPSILON, FltReal.lit_eq]; norm_num [le_abs])).1
-- against the CIE formulas
example (M : FPModel) : |(Luv.from_Xyz (⟨⟨1 / 2⟩, ⟨1 / 4⟩, ⟨1 / 4⟩⟩ : Xyz (RF M))).v.val -
    (cieluv (1 / 2) (1 / 4) (1 / 4)).v| ≤ 1e-3 :=
  (luv_forward_cie_fp M ⟨⟨1 / 2⟩, ⟨1 / 4⟩, ⟨1 / 4⟩⟩ (by norm_num) (by norm_num) (by norm_num) (by norm_num) (by norm_num)
    (by unfold Props.C06_fp.Clear; simp only [C.D65, C.EPSILON, FltReal.lit_eq]; norm_num [le_abs])).2.2
-- black
example (M : FPModel) : (Luv.from_Xyz (⟨⟨0⟩, ⟨0⟩, ⟨0⟩⟩ : Xyz (RF M))).l.val = 0 :=
  (FpLuv.luv_black_fp M ⟨⟨0⟩, ⟨0⟩, ⟨0⟩⟩ rfl rfl rfl).1

end Props.C06_fp_luv
