import LymuiVerif.Lemmas.XyzDispatch
/-!
# C01 — RGB → XYZ → RGB with the same profile is the identity on 8-bit colours

"For every 8-bit RGB colour and each supported profile (sRGB/D65, sRGB/D50, Adobe RGB 1998),
converting the colour to XYZ and converting that XYZ back with the same profile returns exactly the
original colour."

Proved on the generated `Xyz.from_rgb` / `Xyz.as_rgb` at ℝ, for all `3 · 2^24` inputs, without
enumeration:

* the generated reverse rows times the generated forward rows are the identity up to 3e-7 per
  component on the unit cube (`Lemmas.Matrix.roundtrip_lin`, from the literals of `matrices.rs`);
* for each profile, encode(decode(n/255) + δ)·255 stays within 0.4 of `n` for every level
  `n ≤ 255` and every `|δ| ≤ 3e-7` (`Lemmas.XyzDispatch.stable`: Bernoulli's inequality plus
  integer-power comparisons; handles the sRGB threshold between levels 10 and 11, the negative
  residue at level 0 and the infinite slope of the Adobe encode at 0);
* the quantiser `round` then `as u8` returns `n` for any value within 1/2 of `n`.

Because the result is a discrete value computed through inexact arithmetic, the theorem is also
given in the robust form: each pre-quantisation value may be perturbed by any `|e| ≤ 0.09`
(the `f64` evaluation error is many orders of magnitude below that).
-/
namespace Props.C01
open Gen Lemmas.Matrix Lemmas.XyzDispatch

/-- the quantiser of `as_rgb` applied to an already scaled value: `round` then `as u8` -/
noncomputable def Q (y : ℝ) : ℕ := Real.toU8 (Real.roundHA y)

/-- `as_rgb` is the quantiser `Q` applied to the three pre-quantisation values
`pre k x = (enc_k(R_k·x)_i · 255)_i` (definitional unfolding of the generated code) -/
theorem as_rgb_pre (k : XyzKind) (x : Xyz ℝ) :
    Xyz.as_rgb x k = ⟨Q (pre k x).1, Q (pre k x).2.1, Q (pre k x).2.2⟩ := by
  rw [as_rgb_eq]; rfl

/-- the pre-quantisation values of the round trip are within 0.4 of the original levels -/
theorem pre_quant_close (k : XyzKind) (c : Rgb) (hr : c.r ≤ 255) (hg : c.g ≤ 255) (hb : c.b ≤ 255) :
    |(pre k (Xyz.from_rgb c k)).1 - c.r| ≤ 0.4 ∧ |(pre k (Xyz.from_rgb c k)).2.1 - c.g| ≤ 0.4 ∧
    |(pre k (Xyz.from_rgb c k)).2.2 - c.b| ≤ 0.4 :=
  ⟨pre_close k c hr hg hb 0, pre_close k c hr hg hb 1, pre_close k c hr hg hb 2⟩

/-- **C01, robust form**: even if each pre-quantisation value is perturbed by `|e| ≤ 0.09`,
quantisation returns the original channel. -/
theorem roundtrip_robust (k : XyzKind) (c : Rgb) (hr : c.r ≤ 255) (hg : c.g ≤ 255) (hb : c.b ≤ 255)
    (e₁ e₂ e₃ : ℝ) (h₁ : |e₁| ≤ 0.09) (h₂ : |e₂| ≤ 0.09) (h₃ : |e₃| ≤ 0.09) :
    (⟨Q ((pre k (Xyz.from_rgb c k)).1 + e₁), Q ((pre k (Xyz.from_rgb c k)).2.1 + e₂),
      Q ((pre k (Xyz.from_rgb c k)).2.2 + e₃)⟩ : Rgb) = c := by
  obtain ⟨p1, p2, p3⟩ := pre_quant_close k c hr hg hb
  have q1 : Q ((pre k (Xyz.from_rgb c k)).1 + e₁) = c.r := by
    apply Lemmas.Curves.quant_eq _ hr
    rw [abs_le] at p1 h₁; rw [abs_lt]; constructor <;> linarith [p1.1, p1.2, h₁.1, h₁.2]
  have q2 : Q ((pre k (Xyz.from_rgb c k)).2.1 + e₂) = c.g := by
    apply Lemmas.Curves.quant_eq _ hg
    rw [abs_le] at p2 h₂; rw [abs_lt]; constructor <;> linarith [p2.1, p2.2, h₂.1, h₂.2]
  have q3 : Q ((pre k (Xyz.from_rgb c k)).2.2 + e₃) = c.b := by
    apply Lemmas.Curves.quant_eq _ hb
    rw [abs_le] at p3 h₃; rw [abs_lt]; constructor <;> linarith [p3.1, p3.2, h₃.1, h₃.2]
  rw [q1, q2, q3]

/-- **C01**: for every profile and every 8-bit colour, `as_rgb (from_rgb c k) k = c`. -/
theorem roundtrip (k : XyzKind) (c : Rgb) (hr : c.r ≤ 255) (hg : c.g ≤ 255) (hb : c.b ≤ 255) :
    Xyz.as_rgb (Xyz.from_rgb (α := ℝ) c k) k = c := by
  rw [as_rgb_pre]
  have := roundtrip_robust k c hr hg hb 0 0 0 (by norm_num) (by norm_num) (by norm_num)
  simpa using this

-- the hypotheses are satisfiable; the colour of the crate's own tests, in all three profiles
example : Xyz.as_rgb (Xyz.from_rgb (α := ℝ) ⟨50, 10, 95⟩ .D65) .D65 = ⟨50, 10, 95⟩ :=
  roundtrip .D65 ⟨50, 10, 95⟩ (by norm_num) (by norm_num) (by norm_num)
example : Xyz.as_rgb (Xyz.from_rgb (α := ℝ) ⟨0, 11, 255⟩ .D50) .D50 = ⟨0, 11, 255⟩ :=
  roundtrip .D50 ⟨0, 11, 255⟩ (by norm_num) (by norm_num) (by norm_num)
example : Xyz.as_rgb (Xyz.from_rgb (α := ℝ) ⟨0, 1, 255⟩ .Adobe) .Adobe = ⟨0, 1, 255⟩ :=
  roundtrip .Adobe ⟨0, 1, 255⟩ (by norm_num) (by norm_num) (by norm_num)

end Props.C01
