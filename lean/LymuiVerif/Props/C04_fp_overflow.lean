import LymuiVerif.Lemmas.FpOverflowRev
import LymuiVerif.Props.C04_fp
/-!
# C04 in floating point, "no infinity" — every conversion reachable from an 8-bit colour is finite AND does not
# overflow, for EVERY `M : FPModel`

Instance: `α := PRFo M` (`LymuiVerif/Inst/RoundedPartialO.lean`): as `PRF M` of `Props/C04_fp.lean` (division by a
computed zero, `powf` of a negative computed base, `sqrt` of a negative computed number give `nan`), and in addition
every operation that produces a number gives `nan` when the magnitude of its rounded result exceeds
`FP.omega = 2^1023` (a conservative stand-in for the largest finite binary64).  `PRFo.fin x` is a finite f64.

Each theorem comes from a bridging lemma `f (liftO x) = liftO (f x)` of `Lemmas/FpOverflow*.lean`: the `PRFo M` run on
finite inputs never leaves the finite numbers and equals the `RF M` run.  The magnitude side conditions are discharged
by the tactic `obound` (crude bounds `|rnd x| ≤ 1.01·B + 1` composed along the syntax of the expression, compared with
`10^250 ≤ 2^1023`); the divisors that are computed differences are bounded away from zero quantitatively.
-/
set_option linter.unusedSimpArgs false
set_option linter.unusedVariables false
namespace Props.C04_fp_overflow
open Gen Lemmas.FpOverflow Props.C04_fp
open Lemmas.FpDefined (XyzOK xyz_ok xyz_ok_any rec2100_lin_nonneg_fp)

/-! ## Specification -/

/-- every component is a finite number (no NaN, no ±∞) -/
def FiniteFo {M : FPModel} (v : List (PRFo M)) : Prop := ∀ x ∈ v, x.isFin = true

/-- closes `FiniteFo (X.as_vec (liftX _))` -/
macro "finite_lifto" : tactic => `(tactic|
  simp [FiniteFo, Cymk.as_vec, Hsl.as_vec, Hsv.as_vec, Hwb.as_vec, Yuv.as_vec, Srgb.as_vec, Argb.as_vec, Xyz.as_vec,
    Lab.as_vec, Lchlab.as_vec, Luv.as_vec, Lchuv.as_vec, Hcl.as_vec, Hlab.as_vec, Xyy.as_vec, OkLab.as_vec,
    OkLch.as_vec, Rec709.as_vec, Rec2020.as_vec, Rec2100.as_vec,
    liftCymk, liftHsl, liftHsv, liftHwb, liftYuv, liftSrgb, liftArgb, liftXyz, liftLab, liftLchlab, liftLuv,
    liftLchuv, liftHcl, liftHlab, liftXyy, liftOkLab, liftOkLch, liftRec709, liftRec2020, liftRec2100])

example : U8 ⟨92, 191, 84⟩ := ⟨by decide, by decide, by decide⟩
example (M : FPModel) : FiniteFo [(PRFo.fin 1 : PRFo M), PRFo.fin (-2.5)] := by simp [FiniteFo]
example (M : FPModel) : ¬ FiniteFo [(PRFo.fin 1 : PRFo M), (PRFo.fin 1 : PRFo M) / PRFo.fin 0] := by simp [FiniteFo]
/-- the failure mode that `PRF M` cannot see: a product whose rounding exceeds `omega` is not finite.  (In the exact
model `rnd = id`; `2^1023 · 4 > 2^1023`.) -/
example : ¬ FiniteFo [(PRFo.fin FP.omega : PRFo FPModel.exact) * PRFo.fin 4] := by
  have h : FP.omega < |FPModel.exact.rnd (FP.omega * 4)| := by
    show FP.omega < |FP.omega * 4|
    have := FP.omega_pos
    rw [abs_of_pos (by positivity)]; linarith
  simp [FiniteFo, FltPRFo.mul_overflow _ _ h]

/-! ## a. Conversions taking the colour directly -/

theorem cymk_finite_fpo (M : FPModel) (c : Rgb) (h : U8 c) :
    FiniteFo (Cymk.as_vec (Cymk.from_Rgb c : Cymk (PRFo M))) := by
  rw [cymk_bridge c h.1 h.2.1 h.2.2]; finite_lifto
theorem hue_finite_fpo (M : FPModel) (c : Rgb) (h : U8 c) : (F64.from_Rgb c : PRFo M).isFin = true := by
  rw [hue_bridge c h.1 h.2.1 h.2.2]; rfl
theorem hsl_finite_fpo (M : FPModel) (c : Rgb) (h : U8 c) : FiniteFo (Hsl.as_vec (Hsl.from_Rgb c : Hsl (PRFo M))) := by
  rw [hsl_bridge c h.1 h.2.1 h.2.2]; finite_lifto
theorem hsv_finite_fpo (M : FPModel) (c : Rgb) (h : U8 c) : FiniteFo (Hsv.as_vec (Hsv.from_Rgb c : Hsv (PRFo M))) := by
  rw [hsv_bridge c h.1 h.2.1 h.2.2]; finite_lifto
theorem hwb_finite_fpo (M : FPModel) (c : Rgb) (h : U8 c) : FiniteFo (Hwb.as_vec (Hwb.from_Rgb c : Hwb (PRFo M))) := by
  rw [hwb_bridge c h.1 h.2.1 h.2.2]; finite_lifto
/-- unlike `Props.C04_fp.yuv_finite_fp` this needs the 8-bit hypothesis: the model's `u8` is an unbounded `Nat` -/
theorem yuv_finite_fpo (M : FPModel) (c : Rgb) (h : U8 c) : FiniteFo (Yuv.as_vec (Yuv.from_Rgb c : Yuv (PRFo M))) := by
  rw [yuv_bridge c h.1 h.2.1 h.2.2]; finite_lifto
theorem srgb_finite_fpo (M : FPModel) (c : Rgb) (h : U8 c) :
    FiniteFo (Srgb.as_vec (Srgb.from_Rgb c : Srgb (PRFo M))) := by
  rw [srgb_bridge c h.1 h.2.1 h.2.2]; finite_lifto
theorem argb_finite_fpo (M : FPModel) (c : Rgb) (h : U8 c) :
    FiniteFo (Argb.as_vec (Argb.from_Rgb c : Argb (PRFo M))) := by
  rw [argb_bridge c h.1 h.2.1 h.2.2]; finite_lifto

/-! ## b. XYZ under every profile -/

theorem xyz_finite_fpo (M : FPModel) (c : Rgb) (h : U8 c) (k : XyzKind) :
    FiniteFo (Xyz.as_vec (Xyz.from_rgb c k : Xyz (PRFo M))) := by
  rw [xyz_bridge c k h.1 h.2.1 h.2.2]; finite_lifto

example (M : FPModel) := xyz_finite_fpo M ⟨0, 0, 0⟩ ⟨by decide, by decide, by decide⟩ XyzKind.D65
example (M : FPModel) := xyz_finite_fpo M ⟨255, 255, 255⟩ ⟨by decide, by decide, by decide⟩ XyzKind.D50
example (M : FPModel) := xyz_finite_fpo M ⟨0, 0, 255⟩ ⟨by decide, by decide, by decide⟩ XyzKind.Adobe
example := hsl_finite_fpo FPModel.exact ⟨0, 0, 255⟩ ⟨by decide, by decide, by decide⟩
example := cymk_finite_fpo FPModel.exact ⟨0, 0, 0⟩ ⟨by decide, by decide, by decide⟩

/-! ## b'. Transfer curves: no overflow for every finite input of magnitude `≤ 10^6` -/

theorem curves_finite_fpo (M : FPModel) (x : ℝ) (hx : |x| ≤ 10 ^ 6) :
    (F64.apply_srgb_gamma_correction (PRFo.fin x : PRFo M)).isFin ∧ (F64.compute_srgb_gamma_expanded (PRFo.fin x : PRFo M)).isFin ∧
    (F64.compute_argb_gamma (PRFo.fin x : PRFo M)).isFin ∧ (F64.compute_argb_gamma_expanded (PRFo.fin x : PRFo M)).isFin ∧
    (F64.compute_rec709_gamma_correction (PRFo.fin x : PRFo M)).isFin ∧
    (F64.compute_rec2020_gamma_correction (PRFo.fin x : PRFo M)).isFin := by
  have e : (PRFo.fin x : PRFo M) = RF.liftO ⟨x⟩ := rfl
  have hx' : |(⟨x⟩ : RF M).val| ≤ 10 ^ 6 := hx
  rw [e, srgb_correct _ hx', srgb_expand _ hx', argb_gamma _ hx', argb_expand _ hx', rec709_correct _ hx',
    rec2020_correct _ hx']
  simp [liftO_isFin]

/-- the PQ "EOTF" of the code does not overflow on `[0, 100]` (the computed BT.2020 components of an 8-bit colour are
`≤ 1.1`) -/
theorem pq_finite_fpo (M : FPModel) (x : ℝ) (h0 : 0 ≤ x) (h1 : x ≤ 100) : (F64.pq_eotf (PRFo.fin x : PRFo M)).isFin := by
  have e : (PRFo.fin x : PRFo M) = RF.liftO ⟨x⟩ := rfl
  rw [e, pq_eotf_nonneg (⟨x⟩ : RF M) h0 (by show |x| ≤ 100; rw [abs_of_nonneg h0]; exact h1)]; rfl
example : (0 : ℝ) ≤ 0.5 ∧ (0.5 : ℝ) ≤ 100 := by norm_num

/-! ## c. XYZ-derived spaces of a finite XYZ of magnitude `≤ 4` -/

theorem from_xyz_unconditional_fpo (M : FPModel) (x y z : ℝ) (hx : |x| ≤ 4) (hy : |y| ≤ 4) (hz : |z| ≤ 4) :
    FiniteFo (Srgb.as_vec (Srgb.from_Xyz (⟨PRFo.fin x, PRFo.fin y, PRFo.fin z⟩ : Xyz (PRFo M)))) ∧
    FiniteFo (Argb.as_vec (Argb.from_Xyz (⟨PRFo.fin x, PRFo.fin y, PRFo.fin z⟩ : Xyz (PRFo M)))) ∧
    FiniteFo (Rec709.as_vec (Rec709.from_Xyz (⟨PRFo.fin x, PRFo.fin y, PRFo.fin z⟩ : Xyz (PRFo M)))) ∧
    FiniteFo (Rec2020.as_vec (Rec2020.from_Xyz (⟨PRFo.fin x, PRFo.fin y, PRFo.fin z⟩ : Xyz (PRFo M)))) ∧
    FiniteFo (Lab.as_vec (Lab.from_Xyz (⟨PRFo.fin x, PRFo.fin y, PRFo.fin z⟩ : Xyz (PRFo M)))) ∧
    FiniteFo (Lchlab.as_vec (Lchlab.from_Xyz (⟨PRFo.fin x, PRFo.fin y, PRFo.fin z⟩ : Xyz (PRFo M)))) ∧
    FiniteFo (OkLab.as_vec (OkLab.from_Xyz (⟨PRFo.fin x, PRFo.fin y, PRFo.fin z⟩ : Xyz (PRFo M)))) ∧
    FiniteFo (OkLch.as_vec (OkLch.from_Xyz (⟨PRFo.fin x, PRFo.fin y, PRFo.fin z⟩ : Xyz (PRFo M)))) := by
  have e : (⟨PRFo.fin x, PRFo.fin y, PRFo.fin z⟩ : Xyz (PRFo M)) = liftXyz ⟨⟨x⟩, ⟨y⟩, ⟨z⟩⟩ := rfl
  have bx : |(⟨⟨x⟩, ⟨y⟩, ⟨z⟩⟩ : Xyz (RF M)).x.val| ≤ 4 := hx
  have by' : |(⟨⟨x⟩, ⟨y⟩, ⟨z⟩⟩ : Xyz (RF M)).y.val| ≤ 4 := hy
  have bz : |(⟨⟨x⟩, ⟨y⟩, ⟨z⟩⟩ : Xyz (RF M)).z.val| ≤ 4 := hz
  rw [e, srgb_from_xyz _ bx by' bz, argb_from_xyz _ bx by' bz, rec709_from_xyz _ bx by' bz,
    rec2020_from_xyz _ bx by' bz, lab_from_xyz _ bx by' bz, lchlab_from_xyz _ bx by' bz, oklab_from_xyz _ bx by' bz,
    oklch_from_xyz _ bx by' bz]
  refine ⟨?_, ?_, ?_, ?_, ?_, ?_, ?_, ?_⟩ <;> finite_lifto
example (M : FPModel) := (from_xyz_unconditional_fpo M 0 0 (-1e-17) (by norm_num) (by norm_num) (by norm_num)).2.2.2.2.2.2.1

theorem from_xyz_ok_fpo (M : FPModel) (x y z : ℝ) (hx : |x| ≤ 4) (hy : |y| ≤ 4) (hz : |z| ≤ 4)
    (h : (x = 0 ∧ y = 0 ∧ z = 0) ∨ (0 ≤ x ∧ 1 / 10 ^ 10 ≤ y ∧ 0 ≤ z)) :
    FiniteFo (Luv.as_vec (Luv.from_Xyz (⟨PRFo.fin x, PRFo.fin y, PRFo.fin z⟩ : Xyz (PRFo M)))) ∧
    FiniteFo (Lchuv.as_vec (Lchuv.from_Xyz (⟨PRFo.fin x, PRFo.fin y, PRFo.fin z⟩ : Xyz (PRFo M)))) ∧
    FiniteFo (Hcl.as_vec (Hcl.from_Xyz (⟨PRFo.fin x, PRFo.fin y, PRFo.fin z⟩ : Xyz (PRFo M)))) ∧
    FiniteFo (Hlab.as_vec (Hlab.from_Xyz (⟨PRFo.fin x, PRFo.fin y, PRFo.fin z⟩ : Xyz (PRFo M)))) ∧
    FiniteFo (Xyy.as_vec (Xyy.from_Xyz (⟨PRFo.fin x, PRFo.fin y, PRFo.fin z⟩ : Xyz (PRFo M)))) := by
  have e : (⟨PRFo.fin x, PRFo.fin y, PRFo.fin z⟩ : Xyz (PRFo M)) = liftXyz ⟨⟨x⟩, ⟨y⟩, ⟨z⟩⟩ := rfl
  have bx : |(⟨⟨x⟩, ⟨y⟩, ⟨z⟩⟩ : Xyz (RF M)).x.val| ≤ 4 := hx
  have by' : |(⟨⟨x⟩, ⟨y⟩, ⟨z⟩⟩ : Xyz (RF M)).y.val| ≤ 4 := hy
  have bz : |(⟨⟨x⟩, ⟨y⟩, ⟨z⟩⟩ : Xyz (RF M)).z.val| ≤ 4 := hz
  have ok : XyzOK (⟨⟨x⟩, ⟨y⟩, ⟨z⟩⟩ : Xyz (RF M)) := h
  have hy0 : (⟨⟨x⟩, ⟨y⟩, ⟨z⟩⟩ : Xyz (RF M)).y.val = 0 ∨ 1 / 10 ^ 10 ≤ (⟨⟨x⟩, ⟨y⟩, ⟨z⟩⟩ : Xyz (RF M)).y.val := by
    rcases h with h | h
    · exact Or.inl h.2.1
    · exact Or.inr h.2.1
  rw [e, luv_from_xyz _ bx by' bz ok, lchuv_from_xyz _ bx by' bz ok, hcl_from_xyz _ bx by' bz ok,
    hlab_from_xyz _ bx by' bz hy0, xyy_from_xyz _ bx by' bz ok]
  refine ⟨?_, ?_, ?_, ?_, ?_⟩ <;> finite_lifto
example : (|(0.4 : ℝ)| ≤ 4 ∧ |(0.2 : ℝ)| ≤ 4 ∧ |(1.2 : ℝ)| ≤ 4) ∧ (0 : ℝ) ≤ 0.4 ∧ (1 / 10 ^ 10 : ℝ) ≤ 0.2 ∧ (0 : ℝ) ≤ 1.2 := by
  refine ⟨⟨?_, ?_, ?_⟩, ?_, ?_, ?_⟩ <;> norm_num [abs_of_nonneg]

/-! ## c'. Every XYZ-derived space of every 8-bit colour (through XYZ under the D65 profile) -/

/-- **C04 in floating point, forward, no infinity**: all fourteen XYZ-derived spaces of an 8-bit colour are finite and
no operation on the way overflows, in every model of floating-point arithmetic.  Same list as
`Props.C04_fp.forward_finite_fp`. -/
theorem forward_finite_fpo (M : FPModel) (c : Rgb) (h : U8 c) :
    FiniteFo (Srgb.as_vec (Srgb.from_Xyz (Xyz.from_rgb c XyzKind.D65 : Xyz (PRFo M)))) ∧
    FiniteFo (Argb.as_vec (Argb.from_Xyz (Xyz.from_rgb c XyzKind.D65 : Xyz (PRFo M)))) ∧
    FiniteFo (Rec709.as_vec (Rec709.from_Xyz (Xyz.from_rgb c XyzKind.D65 : Xyz (PRFo M)))) ∧
    FiniteFo (Rec2020.as_vec (Rec2020.from_Xyz (Xyz.from_rgb c XyzKind.D65 : Xyz (PRFo M)))) ∧
    FiniteFo (Rec2100.as_vec (Rec2100.from_Xyz (Xyz.from_rgb c XyzKind.D65 : Xyz (PRFo M)))) ∧
    FiniteFo (Lab.as_vec (Lab.from_Xyz (Xyz.from_rgb c XyzKind.D65 : Xyz (PRFo M)))) ∧
    FiniteFo (Lchlab.as_vec (Lchlab.from_Xyz (Xyz.from_rgb c XyzKind.D65 : Xyz (PRFo M)))) ∧
    FiniteFo (Luv.as_vec (Luv.from_Xyz (Xyz.from_rgb c XyzKind.D65 : Xyz (PRFo M)))) ∧
    FiniteFo (Lchuv.as_vec (Lchuv.from_Xyz (Xyz.from_rgb c XyzKind.D65 : Xyz (PRFo M)))) ∧
    FiniteFo (Hcl.as_vec (Hcl.from_Xyz (Xyz.from_rgb c XyzKind.D65 : Xyz (PRFo M)))) ∧
    FiniteFo (Hlab.as_vec (Hlab.from_Xyz (Xyz.from_rgb c XyzKind.D65 : Xyz (PRFo M)))) ∧
    FiniteFo (Xyy.as_vec (Xyy.from_Xyz (Xyz.from_rgb c XyzKind.D65 : Xyz (PRFo M)))) ∧
    FiniteFo (OkLab.as_vec (OkLab.from_Xyz (Xyz.from_rgb c XyzKind.D65 : Xyz (PRFo M)))) ∧
    FiniteFo (OkLch.as_vec (OkLch.from_Xyz (Xyz.from_rgb c XyzKind.D65 : Xyz (PRFo M)))) := by
  have ok := xyz_ok (M := M) c h.1 h.2.1 h.2.2
  obtain ⟨bx, by', bz⟩ := xyz_bd (M := M) c XyzKind.D65 h.1 h.2.1 h.2.2
  have hy : (Xyz.from_rgb (α := RF M) c XyzKind.D65).y.val = 0 ∨
      1 / 10 ^ 10 ≤ (Xyz.from_rgb (α := RF M) c XyzKind.D65).y.val := by
    rcases ok with h | h
    · exact Or.inl h.2.1
    · exact Or.inr h.2.1
  obtain ⟨hr, hg, hb⟩ := rec2100_lin_nonneg_fp (M := M) c h.1 h.2.1 h.2.2
  rw [xyz_bridge c _ h.1 h.2.1 h.2.2, srgb_from_xyz _ bx by' bz, argb_from_xyz _ bx by' bz,
    rec709_from_xyz _ bx by' bz, rec2020_from_xyz _ bx by' bz, rec2100_from_xyz _ bx by' bz hr hg hb,
    lab_from_xyz _ bx by' bz, lchlab_from_xyz _ bx by' bz, luv_from_xyz _ bx by' bz ok,
    lchuv_from_xyz _ bx by' bz ok, hcl_from_xyz _ bx by' bz ok, hlab_from_xyz _ bx by' bz hy,
    xyy_from_xyz _ bx by' bz ok, oklab_from_xyz _ bx by' bz, oklch_from_xyz _ bx by' bz]
  refine ⟨?_, ?_, ?_, ?_, ?_, ?_, ?_, ?_, ?_, ?_, ?_, ?_, ?_, ?_⟩ <;> finite_lifto

/-- the same through the other two profiles (Rec.2100 is left out as in `Props.C04_fp`: its non-negativity argument is
specific to the D65 matrix) -/
theorem forward_finite_any_profile_fpo (M : FPModel) (c : Rgb) (h : U8 c) (k : XyzKind) :
    FiniteFo (Srgb.as_vec (Srgb.from_Xyz (Xyz.from_rgb c k : Xyz (PRFo M)))) ∧
    FiniteFo (Argb.as_vec (Argb.from_Xyz (Xyz.from_rgb c k : Xyz (PRFo M)))) ∧
    FiniteFo (Rec709.as_vec (Rec709.from_Xyz (Xyz.from_rgb c k : Xyz (PRFo M)))) ∧
    FiniteFo (Rec2020.as_vec (Rec2020.from_Xyz (Xyz.from_rgb c k : Xyz (PRFo M)))) ∧
    FiniteFo (Lab.as_vec (Lab.from_Xyz (Xyz.from_rgb c k : Xyz (PRFo M)))) ∧
    FiniteFo (Lchlab.as_vec (Lchlab.from_Xyz (Xyz.from_rgb c k : Xyz (PRFo M)))) ∧
    FiniteFo (Luv.as_vec (Luv.from_Xyz (Xyz.from_rgb c k : Xyz (PRFo M)))) ∧
    FiniteFo (Lchuv.as_vec (Lchuv.from_Xyz (Xyz.from_rgb c k : Xyz (PRFo M)))) ∧
    FiniteFo (Hcl.as_vec (Hcl.from_Xyz (Xyz.from_rgb c k : Xyz (PRFo M)))) ∧
    FiniteFo (Hlab.as_vec (Hlab.from_Xyz (Xyz.from_rgb c k : Xyz (PRFo M)))) ∧
    FiniteFo (Xyy.as_vec (Xyy.from_Xyz (Xyz.from_rgb c k : Xyz (PRFo M)))) ∧
    FiniteFo (OkLab.as_vec (OkLab.from_Xyz (Xyz.from_rgb c k : Xyz (PRFo M)))) ∧
    FiniteFo (OkLch.as_vec (OkLch.from_Xyz (Xyz.from_rgb c k : Xyz (PRFo M)))) := by
  have ok := xyz_ok_any (M := M) c k h.1 h.2.1 h.2.2
  obtain ⟨bx, by', bz⟩ := xyz_bd (M := M) c k h.1 h.2.1 h.2.2
  have hy : (Xyz.from_rgb (α := RF M) c k).y.val = 0 ∨ 1 / 10 ^ 10 ≤ (Xyz.from_rgb (α := RF M) c k).y.val := by
    rcases ok with h | h
    · exact Or.inl h.2.1
    · exact Or.inr h.2.1
  rw [xyz_bridge c _ h.1 h.2.1 h.2.2, srgb_from_xyz _ bx by' bz, argb_from_xyz _ bx by' bz,
    rec709_from_xyz _ bx by' bz, rec2020_from_xyz _ bx by' bz,
    lab_from_xyz _ bx by' bz, lchlab_from_xyz _ bx by' bz, luv_from_xyz _ bx by' bz ok,
    lchuv_from_xyz _ bx by' bz ok, hcl_from_xyz _ bx by' bz ok, hlab_from_xyz _ bx by' bz hy,
    xyy_from_xyz _ bx by' bz ok, oklab_from_xyz _ bx by' bz, oklch_from_xyz _ bx by' bz]
  refine ⟨?_, ?_, ?_, ?_, ?_, ?_, ?_, ?_, ?_, ?_, ?_, ?_, ?_⟩ <;> finite_lifto

/-- black, white, pure blue, the darkest blue -/
example (M : FPModel) := forward_finite_fpo M ⟨0, 0, 0⟩ ⟨by decide, by decide, by decide⟩
example (M : FPModel) := forward_finite_fpo M ⟨255, 255, 255⟩ ⟨by decide, by decide, by decide⟩
example (M : FPModel) := forward_finite_fpo M ⟨0, 0, 255⟩ ⟨by decide, by decide, by decide⟩
example (M : FPModel) := forward_finite_any_profile_fpo M ⟨0, 0, 255⟩ ⟨by decide, by decide, by decide⟩ XyzKind.Adobe
/-- the exact-real arithmetic is one of the models -/
example := forward_finite_fpo FPModel.exact ⟨0, 0, 1⟩ ⟨by decide, by decide, by decide⟩

/-! ## d. Forwards and back again (partial: the four RGB encodings) -/

/- GOAL (not proved): the full analogue of `Props.C04_fp.roundtrip_finite_fp` / `roundtrip_finite_all_fp` on `PRFo M`:
theorem roundtrip_finite_fpo (M : FPModel) (c : Rgb) (h : U8 c) :
    FiniteFo (Xyz.as_vec (Xyz.from_X (X.from_Xyz (Xyz.from_rgb c XyzKind.D65 : Xyz (PRFo M)))))   -- for the 14 spaces X
Proved below for X ∈ {Srgb, Argb, Rec709, Rec2020}.  Missing (time box, no obstruction found): Lab, Lchlab, Luv, Lchuv,
Hcl, Hlab, Xyy, OkLab, OkLch, Rec2100.  What is needed: `ho_*` versions of the bridging lemmas of `FpDefinedRev`,
`FpDefinedLuv`, `FpDefinedPolar`, `FpDefinedImage`, with the quantitative divisor bounds those files already state
(e.g. `13·l ≥ 6.5e-3`, `v' ≥ 0.14` for CIELUV), and magnitude lemmas `x_bd` for the forward
results as in `FpOverflowRev`.  The PQ inverse raises a quotient `≤ 1.01·(c1 + c2·t)/(1 + c3·t) ≤ 20` to `m2 = 78.84`:
`≤ 1e103`, still below `10^250`; its argument must be bounded with the true range of the forward PQ result (`≤ 1e4`),
not with the crude `1e68` that composing the bounds of `pq_eotf_nonneg` gives. -/
theorem roundtrip_finite_fpo_partial (M : FPModel) (c : Rgb) (h : U8 c) :
    FiniteFo (Xyz.as_vec (Xyz.from_Srgb (Srgb.from_Xyz (Xyz.from_rgb c XyzKind.D65 : Xyz (PRFo M))))) ∧
    FiniteFo (Xyz.as_vec (Xyz.from_Argb (Argb.from_Xyz (Xyz.from_rgb c XyzKind.D65 : Xyz (PRFo M))))) ∧
    FiniteFo (Xyz.as_vec (Xyz.from_Rec709 (Rec709.from_Xyz (Xyz.from_rgb c XyzKind.D65 : Xyz (PRFo M))))) ∧
    FiniteFo (Xyz.as_vec (Xyz.from_Rec2020 (Rec2020.from_Xyz (Xyz.from_rgb c XyzKind.D65 : Xyz (PRFo M))))) := by
  obtain ⟨bx, by', bz⟩ := xyz_bd (M := M) c XyzKind.D65 h.1 h.2.1 h.2.2
  obtain ⟨s1, s2, s3⟩ := srgb_xyz_bd _ bx by' bz
  obtain ⟨a1, a2, a3⟩ := argb_xyz_bd _ bx by' bz
  obtain ⟨r1, r2, r3⟩ := rec709_xyz_bd _ bx by' bz
  obtain ⟨t1, t2, t3⟩ := rec2020_xyz_bd _ bx by' bz
  rw [xyz_bridge c _ h.1 h.2.1 h.2.2, srgb_from_xyz _ bx by' bz, argb_from_xyz _ bx by' bz,
    rec709_from_xyz _ bx by' bz, rec2020_from_xyz _ bx by' bz, xyz_from_srgb _ s1 s2 s3, xyz_from_argb _ a1 a2 a3,
    xyz_from_rec709 _ r1 r2 r3, xyz_from_rec2020 _ t1 t2 t3]
  refine ⟨?_, ?_, ?_, ?_⟩ <;> finite_lifto
example (M : FPModel) := roundtrip_finite_fpo_partial M ⟨0, 0, 0⟩ ⟨by decide, by decide, by decide⟩
example (M : FPModel) := roundtrip_finite_fpo_partial M ⟨255, 255, 255⟩ ⟨by decide, by decide, by decide⟩
example := roundtrip_finite_fpo_partial FPModel.exact ⟨0, 0, 255⟩ ⟨by decide, by decide, by decide⟩

/-! ## Coverage map

Every theorem is `∀ M : FPModel`.  "finite" = `FiniteFo (X.as_vec …)` on `PRFo M`: no NaN AND no result of magnitude
above `FP.omega = 2^1023`, at any operation on the way.

* directly reachable: `cymk_finite_fpo`, `hue_finite_fpo`, `hsl_finite_fpo`, `hsv_finite_fpo`, `hwb_finite_fpo`,
  `yuv_finite_fpo`, `srgb_finite_fpo`, `argb_finite_fpo`, `xyz_finite_fpo` (every profile).  All need `U8 c` now (an
  unbounded `Nat` channel would overflow).
* curves: `curves_finite_fpo` (`|x| ≤ 1e6`), `pq_finite_fpo` (`0 ≤ x ≤ 100`).
* through XYZ(D65), forwards: `forward_finite_fpo` (the 14 spaces of `Props.C04_fp.forward_finite_fp`); per function
  `from_xyz_unconditional_fpo`, `from_xyz_ok_fpo` (XYZ of magnitude `≤ 4`); other profiles
  `forward_finite_any_profile_fpo` (13 spaces).
* and back: `roundtrip_finite_fpo_partial` (sRGB, Adobe RGB, Rec.709, Rec.2020); the rest is the GOAL above.

Divisors that are COMPUTED quantities, and their lower bounds in every model (so that no quotient can overflow):
CMYK `1 - K ≥ 1e-3` (true `≥ 1/255`); HSL `(2 - max') - min' ≥ 1e-3`, `max' + min' ≥ 1e-3`; hue `max - min ≥ 1` (exact
bytes); HSV `max ≥ 1`; CIELUV `x + 15y + 3z ≥ y/8 ≥ 1.2e-11`; xyY `x + y + z ≥ y/4`; Hunter Lab `sqrt(y/Yn) ≥ 1e-8`;
PQ `(c2 - c3)·e ≥ 1e-2` whenever the numerator `max(e - c1, 0)` is non-zero (when `e ≤ c1` the numerator is exactly `0`,
so a divisor as small as `2^-1075` — which the guard `divider == 0` lets through — gives the quotient `0`).
No path was found on which a quotient by a computed quantity of unknown smallness has a non-zero numerator.
-/

end Props.C04_fp_overflow
