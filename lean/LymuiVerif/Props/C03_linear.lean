import LymuiVerif.Lemmas.Quant
/-!
# C03 (device-model part) — RGB -> CMYK / YUV / YCbCr -> RGB round trips, exact-real reading

For every 8-bit colour `c`:
* CMYK returns `c` exactly.  Form: the value fed to the quantiser `(·).round() as u8` is *exactly* the
  channel (`cmyk_pre_exact`), and that quantiser absorbs any perturbation `|e| ≤ 1/4`
  (`round_margin`), so the result is robust against floating-point noise (`cmyk_roundtrip_robust`);
  `cmyk_roundtrip` is the plain equality on the generated definitions.
* YUV returns each channel within 1 (`yuv_roundtrip`): the value fed to the truncating quantiser
  `as u8` is within 0.07 of the channel (`yuv_pre_close`; the products `1.13983 * 0.877` etc. are not
  exactly 1), hence the result is `n - 1` or `n`.
* YCbCr returns each channel within 4 (`ycbcr_roundtrip`), in fact within `[-3,0]`, `[-2,+1]`, `[-4,0]`
  for R, G, B (`ycbcr_roundtrip_sharp`): the forward step truncates three sums, the backward step
  uses 3-digit constants.

No division by a non-constant occurs except by `max` in CMYK, where the code's guard `k != 1`
(i.e. `max ≠ 0`) is followed: black goes through the `k == 1` branch.
-/
namespace Props.C03_linear
open Gen

/-! ## CMYK -/

/-- the real number that `Rgb::from(Cymk)` rounds, per channel (`x` = C, M or Y) -/
noncomputable def cmykPre (x k : ℝ) : ℝ := 255 * (1 - x) * (1 - k)

/-- `Rgb::from(Cymk)` is `round` then `as u8` of `cmykPre` -/
theorem cmyk_from_eq (p : Cymk ℝ) :
    Rgb.from_Cymk p = ⟨Real.toU8 (Real.roundHA (cmykPre p.c p.k)), Real.toU8 (Real.roundHA (cmykPre p.m p.k)),
      Real.toU8 (Real.roundHA (cmykPre p.y p.k))⟩ := by
  simp only [Rgb.from_Cymk, FltReal.lit_eq, FltReal.toU8_eq, FltReal.round_eq, cmykPre]
  norm_num

/-- **exactness**: after RGB -> CMYK the pre-quantisation value of each channel is the channel itself,
exactly in `ℝ` (black included: it goes through the `k == 1` branch and gives `255 * 1 * 0 = 0`). -/
theorem cmyk_pre_exact (c : Rgb) :
    cmykPre (Cymk.from_Rgb (α := ℝ) c).c (Cymk.from_Rgb (α := ℝ) c).k = c.r ∧
    cmykPre (Cymk.from_Rgb (α := ℝ) c).m (Cymk.from_Rgb (α := ℝ) c).k = c.g ∧
    cmykPre (Cymk.from_Rgb (α := ℝ) c).y (Cymk.from_Rgb (α := ℝ) c).k = c.b := by
  by_cases h : max (c.b : ℝ) (max (c.r : ℝ) (c.g : ℝ)) = 0
  · obtain ⟨hr, hg, hb⟩ := (Quant.max3_eq_zero_iff c.r c.g c.b).mp h
    simp [Cymk.from_Rgb, Rgb.as_f64, Rgb.get_min_max, Cymk.default, cmykPre, hr, hg, hb]
  · have hk : ¬ ((((1 : ℕ) : ℝ) / ((1 : ℕ) : ℝ) -
        max (c.b : ℝ) (max (c.r : ℝ) (c.g : ℝ)) / (((255 : ℕ) : ℝ) / ((1 : ℕ) : ℝ))) =
        ((1 : ℕ) : ℝ) / ((1 : ℕ) : ℝ)) := by
      intro h'; apply h; push_cast at h'; linarith
    simp only [Cymk.from_Rgb, Rgb.as_f64, Rgb.get_min_max, Cymk.default, FltReal.lit_eq, FltReal.ofNat_eq,
      FltReal.max_eq, FltReal.beq_eq, cmykPre, hk, decide_false, Bool.not_false, if_true]
    generalize max (c.b : ℝ) (max (c.r : ℝ) (c.g : ℝ)) = m at h
    norm_num
    refine ⟨?_, ?_, ?_⟩ <;> (field_simp; ring)

/-- **margin** of the rounding quantiser: an 8-bit value perturbed by at most 1/4 is recovered -/
theorem round_margin (n : ℕ) (hn : n ≤ 255) (e : ℝ) (he : |e| ≤ 1 / 4) :
    Real.toU8 (Real.roundHA ((n : ℝ) + e)) = n :=
  Quant.toU8_roundHA_natCast_add hn (lt_of_le_of_lt he (by norm_num))

/-- **CMYK round trip, η-robust form** (η = 1/4 per channel, before the quantiser) -/
theorem cmyk_roundtrip_robust (c : Rgb) (hr : c.r ≤ 255) (hg : c.g ≤ 255) (hb : c.b ≤ 255)
    (e₁ e₂ e₃ : ℝ) (h₁ : |e₁| ≤ 1 / 4) (h₂ : |e₂| ≤ 1 / 4) (h₃ : |e₃| ≤ 1 / 4) :
    (⟨Real.toU8 (Real.roundHA (cmykPre (Cymk.from_Rgb (α := ℝ) c).c (Cymk.from_Rgb (α := ℝ) c).k + e₁)),
      Real.toU8 (Real.roundHA (cmykPre (Cymk.from_Rgb (α := ℝ) c).m (Cymk.from_Rgb (α := ℝ) c).k + e₂)),
      Real.toU8 (Real.roundHA (cmykPre (Cymk.from_Rgb (α := ℝ) c).y (Cymk.from_Rgb (α := ℝ) c).k + e₃))⟩ : Rgb)
      = c := by
  obtain ⟨h1, h2, h3⟩ := cmyk_pre_exact c
  rw [h1, h2, h3, round_margin _ hr _ h₁, round_margin _ hg _ h₂, round_margin _ hb _ h₃]

/-- **C03 / CMYK**: RGB -> CMYK -> RGB is the identity on 8-bit colours. -/
theorem cmyk_roundtrip (c : Rgb) (hr : c.r ≤ 255) (hg : c.g ≤ 255) (hb : c.b ≤ 255) :
    Rgb.from_Cymk (Cymk.from_Rgb (α := ℝ) c) = c := by
  rw [cmyk_from_eq]
  simpa using cmyk_roundtrip_robust c hr hg hb 0 0 0 (by norm_num) (by norm_num) (by norm_num)

/-! ## YUV -/

/-- the real numbers that `Rgb::from(Yuv)` truncates -/
noncomputable def yuvPreR (p : Yuv ℝ) : ℝ := 255 * (p.y + 1.13983 * p.v)
noncomputable def yuvPreG (p : Yuv ℝ) : ℝ := 255 * (p.y - 0.39465 * p.u - 0.58060 * p.v)
noncomputable def yuvPreB (p : Yuv ℝ) : ℝ := 255 * (p.y + 2.03211 * p.u)

/-- `Rgb::from(Yuv)` is `as u8` of `yuvPre*` -/
theorem yuv_from_eq (p : Yuv ℝ) :
    Rgb.from_Yuv p = ⟨Real.toU8 (yuvPreR p), Real.toU8 (yuvPreG p), Real.toU8 (yuvPreB p)⟩ := by
  simp only [Rgb.from_Yuv, FltReal.lit_eq, FltReal.toU8_eq, yuvPreR, yuvPreG, yuvPreB]
  congr 2 <;> (norm_num; ring)

/-- after RGB -> YUV the pre-quantisation values are within 0.07 of the channels -/
theorem yuv_pre_close (c : Rgb) (hr : c.r ≤ 255) (hg : c.g ≤ 255) (hb : c.b ≤ 255) :
    |yuvPreR (Yuv.from_Rgb (α := ℝ) c) - c.r| ≤ 7 / 100 ∧
    |yuvPreG (Yuv.from_Rgb (α := ℝ) c) - c.g| ≤ 7 / 100 ∧
    |yuvPreB (Yuv.from_Rgb (α := ℝ) c) - c.b| ≤ 7 / 100 := by
  have hr' : (c.r : ℝ) ≤ 255 := by exact_mod_cast hr
  have hg' : (c.g : ℝ) ≤ 255 := by exact_mod_cast hg
  have hb' : (c.b : ℝ) ≤ 255 := by exact_mod_cast hb
  have hr0 : (0 : ℝ) ≤ c.r := Nat.cast_nonneg _
  have hg0 : (0 : ℝ) ≤ c.g := Nat.cast_nonneg _
  have hb0 : (0 : ℝ) ≤ c.b := Nat.cast_nonneg _
  simp only [Yuv.from_Rgb, Rgb.as_f64, FltReal.lit_eq, FltReal.ofNat_eq, yuvPreR, yuvPreG, yuvPreB]
  generalize (c.r : ℝ) = r at *
  generalize (c.g : ℝ) = g at *
  generalize (c.b : ℝ) = b at *
  refine ⟨?_, ?_, ?_⟩ <;> (rw [abs_le]; norm_num; constructor <;> linarith)

/-- truncation of a value strictly within 1 of an 8-bit `n` gives `n - 1` or `n` -/
theorem trunc_near (n : ℕ) (hn : n ≤ 255) (x : ℝ) (h : |x - n| < 1) :
    n ≤ Real.toU8 x + 1 ∧ Real.toU8 x ≤ n := by
  obtain ⟨h1, h2⟩ := abs_lt.mp h
  exact Quant.toU8_near_one hn (by linarith) (by linarith)

/-- **C03 / YUV**: every channel of RGB -> YUV -> RGB is the original or one below it
(in particular within 1). -/
theorem yuv_roundtrip (c : Rgb) (hr : c.r ≤ 255) (hg : c.g ≤ 255) (hb : c.b ≤ 255) :
    (c.r ≤ (Rgb.from_Yuv (Yuv.from_Rgb (α := ℝ) c)).r + 1 ∧ (Rgb.from_Yuv (Yuv.from_Rgb (α := ℝ) c)).r ≤ c.r) ∧
    (c.g ≤ (Rgb.from_Yuv (Yuv.from_Rgb (α := ℝ) c)).g + 1 ∧ (Rgb.from_Yuv (Yuv.from_Rgb (α := ℝ) c)).g ≤ c.g) ∧
    (c.b ≤ (Rgb.from_Yuv (Yuv.from_Rgb (α := ℝ) c)).b + 1 ∧ (Rgb.from_Yuv (Yuv.from_Rgb (α := ℝ) c)).b ≤ c.b) := by
  obtain ⟨h1, h2, h3⟩ := yuv_pre_close c hr hg hb
  rw [yuv_from_eq]
  exact ⟨trunc_near _ hr _ (lt_of_le_of_lt h1 (by norm_num)), trunc_near _ hg _ (lt_of_le_of_lt h2 (by norm_num)),
    trunc_near _ hb _ (lt_of_le_of_lt h3 (by norm_num))⟩

/-! ## YCbCr -/

/-- the real numbers that `Rgb::from(Ycbcr)` truncates -/
noncomputable def ycbcrPreR (q : Ycbcr) : ℝ := 1.164 * ((q.y : ℝ) - 16) + 1.596 * ((q.cr : ℝ) - 128)
noncomputable def ycbcrPreG (q : Ycbcr) : ℝ :=
  1.164 * ((q.y : ℝ) - 16) - 0.813 * ((q.cr : ℝ) - 128) - 0.391 * ((q.cb : ℝ) - 128)
noncomputable def ycbcrPreB (q : Ycbcr) : ℝ := 1.164 * ((q.y : ℝ) - 16) + 2.018 * ((q.cb : ℝ) - 128)

/-- `Rgb::from(Ycbcr)` is `as u8` of `ycbcrPre*` -/
theorem ycbcr_from_eq (q : Ycbcr) :
    Rgb.from_Ycbcr ℝ q = ⟨Real.toU8 (ycbcrPreR q), Real.toU8 (ycbcrPreG q), Real.toU8 (ycbcrPreB q)⟩ := by
  simp only [Rgb.from_Ycbcr, Ycbcr.as_f64, C.Y, FltReal.lit_eq, FltReal.ofNat_eq, FltReal.toU8_eq,
    ycbcrPreR, ycbcrPreG, ycbcrPreB]
  congr 2 <;> norm_num

/-- after RGB -> YCbCr (which truncates three sums) the pre-quantisation values of the way back lie
in `(r - 3, r + 1)`, `(g - 2, g + 2)`, `(b - 4, b + 1)` -/
theorem ycbcr_pre_close (c : Rgb) (hr : c.r ≤ 255) (hg : c.g ≤ 255) (hb : c.b ≤ 255) :
    ((c.r : ℝ) - 3 < ycbcrPreR (Ycbcr.from_Rgb ℝ c) ∧ ycbcrPreR (Ycbcr.from_Rgb ℝ c) < c.r + 1) ∧
    ((c.g : ℝ) - 2 < ycbcrPreG (Ycbcr.from_Rgb ℝ c) ∧ ycbcrPreG (Ycbcr.from_Rgb ℝ c) < c.g + 2) ∧
    ((c.b : ℝ) - 4 < ycbcrPreB (Ycbcr.from_Rgb ℝ c) ∧ ycbcrPreB (Ycbcr.from_Rgb ℝ c) < c.b + 1) := by
  have hr' : (c.r : ℝ) ≤ 255 := by exact_mod_cast hr
  have hg' : (c.g : ℝ) ≤ 255 := by exact_mod_cast hg
  have hb' : (c.b : ℝ) ≤ 255 := by exact_mod_cast hb
  have hr0 : (0 : ℝ) ≤ c.r := Nat.cast_nonneg _
  have hg0 : (0 : ℝ) ≤ c.g := Nat.cast_nonneg _
  have hb0 : (0 : ℝ) ≤ c.b := Nat.cast_nonneg _
  simp only [Ycbcr.from_Rgb, Ycbcr.calculate_indices, Rgb.as_f64, FltReal.lit_eq, FltReal.ofNat_eq,
    FltReal.toU8_eq, ycbcrPreR, ycbcrPreG, ycbcrPreB]
  generalize (c.r : ℝ) = r at *
  generalize (c.g : ℝ) = g at *
  generalize (c.b : ℝ) = b at *
  norm_num
  -- the three truncated sums: each lies in [0, 256), so `as u8` is a floor with error in [0, 1)
  generalize hY : (16 + r * (257 / 1000) + g * (63 / 125) + b * (49 / 500) : ℝ) = Y
  generalize hCb : (128 + (-(r * (37 / 250)) - g * (291 / 1000) + b * (439 / 1000)) : ℝ) = Cb
  generalize hCr : (128 + (r * (439 / 1000) - g * (46 / 125) - b * (71 / 1000)) : ℝ) = Cr
  have y1 := Quant.toU8_le_self (x := Y) (by linarith)
  have y2 := Quant.lt_toU8_add_one (x := Y) (by linarith)
  have b1 := Quant.toU8_le_self (x := Cb) (by linarith)
  have b2 := Quant.lt_toU8_add_one (x := Cb) (by linarith)
  have r1 := Quant.toU8_le_self (x := Cr) (by linarith)
  have r2 := Quant.lt_toU8_add_one (x := Cr) (by linarith)
  refine ⟨⟨?_, ?_⟩, ⟨?_, ?_⟩, ⟨?_, ?_⟩⟩ <;> linarith

/-- **C03 / YCbCr, sharp form**: R comes back in `[r-3, r]`, G in `[g-2, g+1]`, B in `[b-4, b]`. -/
theorem ycbcr_roundtrip_sharp (c : Rgb) (hr : c.r ≤ 255) (hg : c.g ≤ 255) (hb : c.b ≤ 255) :
    (c.r ≤ (Rgb.from_Ycbcr ℝ (Ycbcr.from_Rgb ℝ c)).r + 3 ∧ (Rgb.from_Ycbcr ℝ (Ycbcr.from_Rgb ℝ c)).r ≤ c.r) ∧
    (c.g ≤ (Rgb.from_Ycbcr ℝ (Ycbcr.from_Rgb ℝ c)).g + 2 ∧ (Rgb.from_Ycbcr ℝ (Ycbcr.from_Rgb ℝ c)).g ≤ c.g + 1) ∧
    (c.b ≤ (Rgb.from_Ycbcr ℝ (Ycbcr.from_Rgb ℝ c)).b + 4 ∧ (Rgb.from_Ycbcr ℝ (Ycbcr.from_Rgb ℝ c)).b ≤ c.b) := by
  obtain ⟨⟨r1, r2⟩, ⟨g1, g2⟩, ⟨b1, b2⟩⟩ := ycbcr_pre_close c hr hg hb
  rw [ycbcr_from_eq]
  refine ⟨⟨?_, ?_⟩, ⟨?_, ?_⟩, ⟨?_, ?_⟩⟩
  · exact Quant.le_toU8_add_of_sub_lt hr (by push_cast; linarith)
  · simpa using Quant.toU8_le_add_of_lt (x := ycbcrPreR (Ycbcr.from_Rgb ℝ c)) (n := c.r) (a := 0) (by push_cast; linarith)
  · exact Quant.le_toU8_add_of_sub_lt hg (by push_cast; linarith)
  · exact Quant.toU8_le_add_of_lt (by push_cast; linarith)
  · exact Quant.le_toU8_add_of_sub_lt hb (by push_cast; linarith)
  · simpa using Quant.toU8_le_add_of_lt (x := ycbcrPreB (Ycbcr.from_Rgb ℝ c)) (n := c.b) (a := 0) (by push_cast; linarith)

/-- **C03 / YCbCr**: every channel of RGB -> YCbCr -> RGB is within 4 of the original. -/
theorem ycbcr_roundtrip (c : Rgb) (hr : c.r ≤ 255) (hg : c.g ≤ 255) (hb : c.b ≤ 255) :
    (c.r ≤ (Rgb.from_Ycbcr ℝ (Ycbcr.from_Rgb ℝ c)).r + 4 ∧ (Rgb.from_Ycbcr ℝ (Ycbcr.from_Rgb ℝ c)).r ≤ c.r + 4) ∧
    (c.g ≤ (Rgb.from_Ycbcr ℝ (Ycbcr.from_Rgb ℝ c)).g + 4 ∧ (Rgb.from_Ycbcr ℝ (Ycbcr.from_Rgb ℝ c)).g ≤ c.g + 4) ∧
    (c.b ≤ (Rgb.from_Ycbcr ℝ (Ycbcr.from_Rgb ℝ c)).b + 4 ∧ (Rgb.from_Ycbcr ℝ (Ycbcr.from_Rgb ℝ c)).b ≤ c.b + 4) := by
  have := ycbcr_roundtrip_sharp c hr hg hb
  omega

/-! ## Satisfiability of the hypotheses -/

example : ∃ c : Rgb, c.r ≤ 255 ∧ c.g ≤ 255 ∧ c.b ≤ 255 ∧ c.r ≠ c.g ∧ c.g ≠ c.b := ⟨⟨255, 55, 102⟩, by decide⟩
example : ∃ e : ℝ, e ≠ 0 ∧ |e| ≤ 1 / 4 := ⟨1 / 4, by norm_num, by rw [abs_of_pos (by norm_num)]⟩
example : ∃ x : ℝ, x ≠ 200 ∧ |x - (200 : ℕ)| < 1 := ⟨200.5, by norm_num, by rw [abs_lt]; constructor <;> norm_num⟩

end Props.C03_linear
