import LymuiVerif.Props.C08
import LymuiVerif.Lemmas.Rec2020F2
import LymuiVerif.Lemmas.DerivedF2
/-!
# C08 (Rec.2020 forward clause)

"Rec.709 and Rec.2020 values are the BT.709 / BT.2020 OETF of the linear components in the respective
primaries within 2e-6."

Specification: the normalised primary matrix `npm` of BT.2020 is DERIVED here from the primaries
R(0.708, 0.292), G(0.170, 0.797), B(0.131, 0.046) and the D65 white xy = (0.3127, 0.3290) by the
standard construction (columns proportional to the primaries' XYZ, scale factors by Cramer's rule so
that RGB white (1,1,1) maps to the white point, `npm_white`).  The "linear components in BT.2020
primaries" of an XYZ are `lin2020 x = npm⁻¹·x` (`inv3`, adjugate formula, `npm_inverse`).

Results
* the generated rows `C.rec2020_XR, C.XG, C.XB` (15 digits) agree with `npm⁻¹` within `1e-14` per entry
  (`generated_rows_are_inverse`), so the code's linear components agree with the specification's within
  `4e-14` on the XYZ box `[0, 1.1]³` (`linear_close`);
* `forward_rec2020`: when the specification's and the code's linear component lie on the same side of the
  OETF threshold `β = 0.0181`, the encoded channel agrees with the OETF of the specification's component
  within `2e-13` (≤ 2e-6);
* FINDING about the SPECIFICATION function (not the code): with the 12-bit constants `α = 1.0993`,
  `β = 0.0181` the BT.2020 OETF is discontinuous at `β` by `2.7965e-6 > 2e-6` (`oetf2020_jump`).  Hence the
  unconditional statement can only be proved with `2.8e-6` (`forward_rec2020_partial`); the `2e-6` form
  needs that no 8-bit colour has a BT.2020 linear component within `4e-14` of `0.0181` — a finite fact about
  the 2^24 colours that is not proved here (see GOAL below).
-/
noncomputable section
namespace Props.C08_rec2020
open Gen Props.C08 Lemmas.Rec2020F2

/-! ## Specification: BT.2020 primaries → normalised primary matrix -/

/-- XYZ (with Y = 1) of a chromaticity `(x, y)` -/
def xyzOf (x y : ℝ) : V3 := (x / y, 1, (1 - x - y) / y)

def primR : V3 := xyzOf 0.708 0.292
def primG : V3 := xyzOf 0.170 0.797
def primB : V3 := xyzOf 0.131 0.046
/-- D65 white point of BT.2020, xy = (0.3127, 0.3290) -/
def whiteXYZ : V3 := xyzOf 0.3127 0.3290

/-- matrix whose COLUMNS are the given vectors -/
def ofCols (a b c : V3) : M3 := ((a.1, b.1, c.1), (a.2.1, b.2.1, c.2.1), (a.2.2, b.2.2, c.2.2))

/-- scale factors of the primaries (Cramer's rule for `ofCols R G B · S = W`) -/
def sR : ℝ := det3 (ofCols whiteXYZ primG primB) / det3 (ofCols primR primG primB)
def sG : ℝ := det3 (ofCols primR whiteXYZ primB) / det3 (ofCols primR primG primB)
def sB : ℝ := det3 (ofCols primR primG whiteXYZ) / det3 (ofCols primR primG primB)

/-- BT.2020 RGB → XYZ -/
def npm : M3 :=
  ofCols (sR * primR.1, sR * primR.2.1, sR * primR.2.2) (sG * primG.1, sG * primG.2.1, sG * primG.2.2)
    (sB * primB.1, sB * primB.2.1, sB * primB.2.2)

/-- linear components of an XYZ in BT.2020 primaries -/
def lin2020 (x : Xyz ℝ) : V3 := mulVec3 (inv3 npm) (x.x, x.y, x.z)

/-- the generated XYZ → BT.2020 rows -/
def genRows : M3 := (C.rec2020_XR, C.XG, C.XB)

/-- unfolding set -/
macro "unfold_2020" : tactic =>
  `(tactic| simp only [npm, sR, sG, sB, ofCols, primR, primG, primB, whiteXYZ, xyzOf, det3, inv3, mulVec3,
    mulMat3, dot3, col3, one3, genRows, C.rec2020_XR, C.XG, C.XB, FltReal.lit_eq])

/-! ## the specification matrix is what it should be -/

/-- RGB white maps to the white point; each column is a multiple of its primary (by construction) -/
theorem npm_white : mulVec3 npm (1, 1, 1) = whiteXYZ := by
  unfold_2020
  norm_num

/-- the exact rational value of the matrix (four decimals: 0.6370 0.1446 0.1689 / 0.2627 0.6780 0.0593 /
0 0.0281 1.0610) -/
theorem npm_value : npm =
    ((63426534 / 99577255, 20160776 / 139408157, 47086771 / 278816314),
     (26158966 / 99577255, 472592308 / 697040785, 8267143 / 139408157),
     (0, 19567812 / 697040785, 295819943 / 278816314)) := by
  unfold_2020
  norm_num

theorem npm_det_ne : det3 npm ≠ 0 := by
  rw [npm_value]
  simp only [det3]
  norm_num

/-- `inv3 npm` is the inverse of `npm` -/
theorem npm_inverse : mulMat3 (inv3 npm) npm = one3 := inv3_mul npm npm_det_ne

/-- so `lin2020` really solves `npm · ℓ = XYZ`… -/
theorem lin2020_of_mul (l : V3) : lin2020 ⟨(mulVec3 npm l).1, (mulVec3 npm l).2.1, (mulVec3 npm l).2.2⟩ = l := by
  unfold lin2020
  rw [show ((mulVec3 npm l).1, (mulVec3 npm l).2.1, (mulVec3 npm l).2.2) = mulVec3 npm l from rfl,
    ← mulVec3_mulMat3, npm_inverse, mulVec3_one]

/-- the published BT.2020 forward table of the crate (`C.XX, C.XY, C.XZ`, 7 digits) is this matrix within 5e-8 -/
theorem forward_table_close :
    |(C.XX : V3).1 - npm.1.1| ≤ 5e-8 ∧ |(C.XX : V3).2.1 - npm.1.2.1| ≤ 5e-8 ∧ |(C.XX : V3).2.2 - npm.1.2.2| ≤ 5e-8 ∧
    |(C.XY : V3).1 - npm.2.1.1| ≤ 5e-8 ∧ |(C.XY : V3).2.1 - npm.2.1.2.1| ≤ 5e-8 ∧ |(C.XY : V3).2.2 - npm.2.1.2.2| ≤ 5e-8 ∧
    |(C.XZ : V3).1 - npm.2.2.1| ≤ 5e-8 ∧ |(C.XZ : V3).2.1 - npm.2.2.2.1| ≤ 5e-8 ∧ |(C.XZ : V3).2.2 - npm.2.2.2.2| ≤ 5e-8 := by
  rw [npm_value]
  simp only [C.XX, C.XY, C.XZ, FltReal.lit_eq]
  norm_num [abs_le]

/-! ## the generated reverse rows are the inverse of the specification matrix -/

/-- exact rational value of the inverse (1.7167 −0.3557 −0.2534 / −0.6667 1.6165 0.0158 / 0.0176 −0.0428 0.9421) -/
theorem inv_value : inv3 npm =
    ((30757411 / 17917100, -6372589 / 17917100, -4539589 / 17917100),
     (-19765991 / 29648200, 47925759 / 29648200, 467509 / 29648200),
     (792561 / 44930125, -1921689 / 44930125, 42328811 / 44930125)) := by
  rw [npm_value]
  simp only [inv3, det3]
  norm_num

/-- **every entry of the generated rows is within `1e-14` of the inverse of the matrix derived from the
BT.2020 primaries** (the crate's 15-digit constants are correctly rounded) -/
theorem generated_rows_are_inverse :
    |genRows.1.1 - (inv3 npm).1.1| ≤ 1e-14 ∧ |genRows.1.2.1 - (inv3 npm).1.2.1| ≤ 1e-14 ∧
    |genRows.1.2.2 - (inv3 npm).1.2.2| ≤ 1e-14 ∧
    |genRows.2.1.1 - (inv3 npm).2.1.1| ≤ 1e-14 ∧ |genRows.2.1.2.1 - (inv3 npm).2.1.2.1| ≤ 1e-14 ∧
    |genRows.2.1.2.2 - (inv3 npm).2.1.2.2| ≤ 1e-14 ∧
    |genRows.2.2.1 - (inv3 npm).2.2.1| ≤ 1e-14 ∧ |genRows.2.2.2.1 - (inv3 npm).2.2.2.1| ≤ 1e-14 ∧
    |genRows.2.2.2.2 - (inv3 npm).2.2.2.2| ≤ 1e-14 := by
  rw [inv_value]
  simp only [genRows, C.rec2020_XR, C.XG, C.XB, FltReal.lit_eq]
  norm_num [abs_le]

/-- the code's linear components (what it feeds to the OETF) against the specification's, on the box
`[0, 1.1]³` of XYZ values: within `4e-14` -/
theorem linear_close (x : Xyz ℝ) (hx : 0 ≤ x.x ∧ x.x ≤ 1.1) (hy : 0 ≤ x.y ∧ x.y ≤ 1.1) (hz : 0 ≤ x.z ∧ x.z ≤ 1.1) :
    |dot C.rec2020_XR x.x x.y x.z - (lin2020 x).1| ≤ 4e-14 ∧
    |dot C.XG x.x x.y x.z - (lin2020 x).2.1| ≤ 4e-14 ∧
    |dot C.XB x.x x.y x.z - (lin2020 x).2.2| ≤ 4e-14 := by
  obtain ⟨x0, x1⟩ := hx
  obtain ⟨y0, y1⟩ := hy
  obtain ⟨z0, z1⟩ := hz
  unfold lin2020
  rw [inv_value]
  simp only [mulVec3, dot3, dot, C.rec2020_XR, C.XG, C.XB, FltReal.lit_eq]
  norm_num
  refine ⟨?_, ?_, ?_⟩ <;> (rw [abs_le]; constructor <;> linarith)

/-! ## the OETF -/

/-- FINDING (about the specification): the BT.2020 OETF with `α = 1.0993`, `β = 0.0181` drops by more than
`2.78e-6` at `β` — more than the property's tolerance `2e-6` -/
theorem oetf2020_jump : oetf2020 β2020 + 2.78e-6 < 4.5 * β2020 := by
  unfold oetf2020 α2020 β2020
  rw [if_neg (by norm_num)]
  exact bt2020_oetf_jump

theorem oetf2020_lipschitz (a b : ℝ) (h : (a < β2020 ∧ b < β2020) ∨ (β2020 ≤ a ∧ β2020 ≤ b)) :
    |oetf2020 b - oetf2020 a| ≤ 4.52 * |b - a| := by
  unfold β2020 at h
  exact bt2020_oetf_lipschitz oetf2020 (fun _ => by unfold oetf2020 α2020 β2020; rfl) h

theorem oetf2020_quasi_lipschitz (a b : ℝ) : |oetf2020 b - oetf2020 a| ≤ 4.52 * |b - a| + 2.8e-6 :=
  bt2020_oetf_quasi_lipschitz oetf2020 (fun _ => by unfold oetf2020 α2020 β2020; rfl) a b

/-! ## forward theorems for 8-bit colours -/

/-- XYZ of an 8-bit colour (D65 profile) lies in `[0, 1.1]³` -/
theorem xyz_box (c : Rgb) (hr : c.r ≤ 255) (hg : c.g ≤ 255) (hb : c.b ≤ 255) :
    let x : Xyz ℝ := Xyz.from_rgb c XyzKind.D65
    (0 ≤ x.x ∧ x.x ≤ 1.1) ∧ (0 ≤ x.y ∧ x.y ≤ 1.1) ∧ (0 ≤ x.z ∧ x.z ≤ 1.1) := by
  intro x
  obtain ⟨r0, r1⟩ := Lemmas.DerivedF2.dec_unit _ hr
  obtain ⟨g0, g1⟩ := Lemmas.DerivedF2.dec_unit _ hg
  obtain ⟨b0, b1⟩ := Lemmas.DerivedF2.dec_unit _ hb
  have e : x = _ := xyz_from_rgb_d65_def c
  rw [e]
  simp only [dot, C.X65, C.Y65, C.Z65, FltReal.lit_eq]
  norm_num
  refine ⟨⟨?_, ?_⟩, ⟨?_, ?_⟩, ⟨?_, ?_⟩⟩ <;> first | positivity | linarith

/-- side condition: the specification's and the code's linear component are on the same side of `β` -/
def SameSide (a b : ℝ) : Prop := (a < β2020 ∧ b < β2020) ∨ (β2020 ≤ a ∧ β2020 ≤ b)

/-- **C08, Rec.2020 forward** (for every 8-bit colour): each channel of `Rec2020.from_Xyz x` is the BT.2020
OETF of the linear component in BT.2020 primaries within `2e-6` (in fact `2e-13`), PROVIDED the
specification's component and the code's component lie on the same side of the OETF threshold `β`. -/
theorem forward_rec2020 (c : Rgb) (hr : c.r ≤ 255) (hg : c.g ≤ 255) (hb : c.b ≤ 255) :
    let x : Xyz ℝ := Xyz.from_rgb c XyzKind.D65
    (SameSide (lin2020 x).1 (dot C.rec2020_XR x.x x.y x.z) →
      |(Rec2020.from_Xyz x).r - oetf2020 (lin2020 x).1| ≤ 2e-6) ∧
    (SameSide (lin2020 x).2.1 (dot C.XG x.x x.y x.z) →
      |(Rec2020.from_Xyz x).g - oetf2020 (lin2020 x).2.1| ≤ 2e-6) ∧
    (SameSide (lin2020 x).2.2 (dot C.XB x.x x.y x.z) →
      |(Rec2020.from_Xyz x).b - oetf2020 (lin2020 x).2.2| ≤ 2e-6) := by
  intro x
  obtain ⟨bx, by', bz⟩ := xyz_box c hr hg hb
  obtain ⟨l1, l2, l3⟩ := linear_close x bx by' bz
  rw [rec2020_from_xyz_def]
  have key : ∀ a b : ℝ, |b - a| ≤ 4e-14 → SameSide a b → |oetf2020 b - oetf2020 a| ≤ 2e-6 := by
    intro a b hab hs
    have := oetf2020_lipschitz a b hs
    linarith
  exact ⟨key _ _ l1, key _ _ l2, key _ _ l3⟩

/- GOAL (not proved): the same without the `SameSide` hypotheses, i.e.
     ∀ 8-bit c, |(Rec2020.from_Xyz x).r - oetf2020 (lin2020 x).1| ≤ 2e-6   (and g, b).
   Missing: that for no 8-bit colour a BT.2020 linear component lies within 4e-14 of β = 0.0181 (then
   `SameSide` holds automatically because the two components differ by at most 4e-14, `linear_close`).
   This is a finite statement about 3·2^24 real numbers; it is needed because the SPECIFICATION OETF jumps
   by 2.7965e-6 > 2e-6 at β (`oetf2020_jump`).  What is proved unconditionally is the bound 2.8e-6: -/

/-- unconditional form: within `2.8e-6` (the jump of the specification OETF at `β` plus `2e-13`) -/
theorem forward_rec2020_partial (c : Rgb) (hr : c.r ≤ 255) (hg : c.g ≤ 255) (hb : c.b ≤ 255) :
    let x : Xyz ℝ := Xyz.from_rgb c XyzKind.D65
    |(Rec2020.from_Xyz x).r - oetf2020 (lin2020 x).1| ≤ 2.81e-6 ∧
    |(Rec2020.from_Xyz x).g - oetf2020 (lin2020 x).2.1| ≤ 2.81e-6 ∧
    |(Rec2020.from_Xyz x).b - oetf2020 (lin2020 x).2.2| ≤ 2.81e-6 := by
  intro x
  obtain ⟨bx, by', bz⟩ := xyz_box c hr hg hb
  obtain ⟨l1, l2, l3⟩ := linear_close x bx by' bz
  rw [rec2020_from_xyz_def]
  have key : ∀ a b : ℝ, |b - a| ≤ 4e-14 → |oetf2020 b - oetf2020 a| ≤ 2.81e-6 := by
    intro a b hab
    have := oetf2020_quasi_lipschitz a b
    linarith
  exact ⟨key _ _ l1, key _ _ l2, key _ _ l3⟩

/-- the side condition is automatic away from the threshold: if the code's component is not within
`4e-14` of `β`, both components are on the same side -/
theorem sameSide_of_far (c : Rgb) (hr : c.r ≤ 255) (hg : c.g ≤ 255) (hb : c.b ≤ 255) :
    let x : Xyz ℝ := Xyz.from_rgb c XyzKind.D65
    (4e-14 < |dot C.rec2020_XR x.x x.y x.z - β2020| → SameSide (lin2020 x).1 (dot C.rec2020_XR x.x x.y x.z)) ∧
    (4e-14 < |dot C.XG x.x x.y x.z - β2020| → SameSide (lin2020 x).2.1 (dot C.XG x.x x.y x.z)) ∧
    (4e-14 < |dot C.XB x.x x.y x.z - β2020| → SameSide (lin2020 x).2.2 (dot C.XB x.x x.y x.z)) := by
  intro x
  obtain ⟨bx, by', bz⟩ := xyz_box c hr hg hb
  obtain ⟨l1, l2, l3⟩ := linear_close x bx by' bz
  have key : ∀ a b : ℝ, |b - a| ≤ 4e-14 → 4e-14 < |b - β2020| → SameSide a b := by
    intro a b hab hfar
    obtain ⟨h1, h2⟩ := abs_le.mp hab
    unfold SameSide
    rcases lt_abs.mp hfar with h | h
    · right; constructor <;> linarith
    · left; constructor <;> linarith
  exact ⟨key _ _ l1, key _ _ l2, key _ _ l3⟩

/-! ## examples -/

-- the hypotheses are satisfiable: black has all components 0 < β on both sides
example : SameSide 0 0 := Or.inl ⟨by unfold β2020; norm_num, by unfold β2020; norm_num⟩
-- white of BT.2020 is the D65 white point
example : mulVec3 npm (1, 1, 1) = (0.3127 / 0.3290, 1, (1 - 0.3127 - 0.3290) / 0.3290) := npm_white

end Props.C08_rec2020
