import LymuiVerif.Lemmas.CieRtF1b
import LymuiVerif.Lemmas.OkLabXyzF1b
import LymuiVerif.Lemmas.RequantF1a
import LymuiVerif.Props.C14
import LymuiVerif.Props.C13_xyz
/-!
# C02 (CIE and Ok spaces) — XYZ → S → XYZ round trips through the code's own forward conversion

Property text: "For every XYZ value x of an 8-bit colour c under the D65 profile, and every XYZ-derived
space S (… CIELAB, LCh(ab), CIELUV, LCh(uv), HCL, OkLab, OkLch …), converting x to S and back yields an
XYZ within 5e-4 of x in every component.  That XYZ re-quantises to exactly c."

Exact-real reading.  What is proved (all about the GENERATED functions):

* CIELAB / LCh(ab): for EVERY XYZ with non-negative components the round trip is within `8.6e-8` of x
  (`7.6e-8`, `7.9e-8`, `8.6e-8` for X, Y, Z; relative error `8.86e-6`), and it is the identity when the three
  normalised components are on the cube-root branch.  The only mixed-branch region is the luminance sliver
  `0.008856 < Y ≤ 0.00885604` (forward test `y > ε`, reverse test `L > ε·κ`).
* CIELUV / LCh(uv) / HCL: for every XYZ with `X, Z ≥ 0`, `Y > 0` the round trip is `x·(y/Y)` where `y` is the
  recovered luminance; it is EXACTLY x unless `0.008856 < Y ≤ 0.00885604`, and within `4.2e-6·x` always;
  for the XYZ of an 8-bit colour it is within `5e-7` (black goes through the guards and is exact).
* the polar spaces reproduce their Cartesian parent exactly (`Props.C14`), hence the same bounds.
* re-quantisation for these five spaces, from `Lemmas.RequantF1a.requant_stable` (tolerance `1.7e-5`); also
  stated with the stability property as a hypothesis (`*_requant_of_stable`).
* OkLab / OkLch (this is also the numeric reading of C07's "the reverse conversion is the inverse transform"):
  in LINEAR light (`pow22`, the linearisation the code uses) `Srgb::from(OkLab::from(s))` returns `s ∈ [0,1]³`
  within `5.8e-7` per channel (signed: R `[-5.1e-7, 5.8e-7]`, G `[-2.5e-7, 2.3e-7]`, B `[-3.5e-7, 0.8e-7]`;
  the error is proportional to the size of the box, the map being homogeneous of degree 1); in the ENCODED
  domain within `1.47e-3` (Hölder; `x^(1/2.2)` has infinite slope at 0: a channel equal to 0 next to bright
  channels really comes back as `≈ (2.6e-7)^(1/2.2) ≈ 1e-3`) and within `1.2e-5` where the linear value is
  `≥ 1e-3`.  For the XYZ of every 8-bit colour the XYZ round trip is within `1.25e-4 < 5e-4` (measured on
  all 2^24 colours: `1.8e-5`, at pure green), because next to black the sRGB decoder has slope `1/12.92`.
  `1.8e-5` exceeds the tolerance `1.7e-5` of `requant_stable`, so re-quantisation of OkLab / OkLch is proved
  channel by channel instead (`oklab_requant`): a level-0 channel comes back below `1.15e-4` in linear
  sRGB (`0.38` of a level), every other channel within `3.1e-5` of its value.
-/
noncomputable section
namespace Props.C02_cie
open Gen Lemmas.Cie Lemmas.CieRtF1b

/-- sup-norm closeness of two XYZ triples -/
def Close (ε : ℝ) (a b : Xyz ℝ) : Prop := |a.x - b.x| ≤ ε ∧ |a.y - b.y| ≤ ε ∧ |a.z - b.z| ≤ ε

/-- the re-quantisation stability statement (D65): every XYZ within `ε` of the XYZ of an 8-bit colour
converts back to that colour -/
def RequantStable (ε : ℝ) : Prop :=
  ∀ c : Rgb, c.r ≤ 255 → c.g ≤ 255 → c.b ≤ 255 → ∀ x' : Xyz ℝ,
    Close ε x' (Xyz.from_rgb c XyzKind.D65) → Xyz.as_rgb x' XyzKind.D65 = c

/-- `Lemmas.RequantF1a.requant_stable` in this form -/
theorem requantStable : RequantStable 1.7e-5 :=
  fun c hr hg hb x' h => Lemmas.RequantF1a.requant_stable c hr hg hb x' h.1 h.2.1 h.2.2

theorem RequantStable.mono {ε ε' : ℝ} (h : RequantStable ε) (hε : ε' ≤ ε) : RequantStable ε' :=
  fun c hr hg hb x' hx => h c hr hg hb x' ⟨hx.1.trans hε, hx.2.1.trans hε, hx.2.2.trans hε⟩

/-! ## 1. CIELAB and LCh(ab) -/

/-- **CIELAB code∘code**, every XYZ with non-negative components (no upper bound needed): absolute bounds
`7.6e-8`, `7.9e-8`, `8.6e-8` and relative bound `8.86e-6` per component. -/
theorem lab_roundtrip_tight (x : Xyz ℝ) (hx : 0 ≤ x.x) (hy : 0 ≤ x.y) (hz : 0 ≤ x.z) :
    (|(Xyz.from_Lab (Lab.from_Xyz x)).x - x.x| ≤ 76 / 10 ^ 9 ∧
     |(Xyz.from_Lab (Lab.from_Xyz x)).y - x.y| ≤ 79 / 10 ^ 9 ∧
     |(Xyz.from_Lab (Lab.from_Xyz x)).z - x.z| ≤ 86 / 10 ^ 9) ∧
    (|(Xyz.from_Lab (Lab.from_Xyz x)).x - x.x| ≤ 886 / 10 ^ 8 * x.x ∧
     |(Xyz.from_Lab (Lab.from_Xyz x)).y - x.y| ≤ 886 / 10 ^ 8 * x.y ∧
     |(Xyz.from_Lab (Lab.from_Xyz x)).z - x.z| ≤ 886 / 10 ^ 8 * x.z) := by
  rw [lab_roundtrip_shape]
  obtain ⟨a1, a2⟩ := rev_fCode_close (t := x.x / (95047 / 100000)) (by positivity)
  obtain ⟨b1, b2⟩ := yRev_fCode_close hy
  obtain ⟨c1, c2⟩ := rev_fCode_close (t := x.z / (108883 / 100000)) (by positivity)
  have kx : ∀ r : ℝ, 95047 / 100000 * r - x.x = 95047 / 100000 * (r - x.x / (95047 / 100000)) := by
    intro r; field_simp
  have kz : ∀ r : ℝ, 108883 / 100000 * r - x.z = 108883 / 100000 * (r - x.z / (108883 / 100000)) := by
    intro r; field_simp
  have ex : (886 / 10 ^ 8 * (x.x / (95047 / 100000)) : ℝ) * (95047 / 100000) = 886 / 10 ^ 8 * x.x := by
    field_simp
  have ez : (886 / 10 ^ 8 * (x.z / (108883 / 100000)) : ℝ) * (108883 / 100000) = 886 / 10 ^ 8 * x.z := by
    field_simp
  simp only [kx, kz, abs_mul]
  rw [abs_of_pos (by norm_num : (0:ℝ) < 95047 / 100000), abs_of_pos (by norm_num : (0:ℝ) < 108883 / 100000)]
  refine ⟨⟨?_, b1, ?_⟩, ⟨?_, b2, ?_⟩⟩
  · nlinarith
  · nlinarith
  · rw [← ex]; nlinarith
  · rw [← ez]; nlinarith

/-- **CIELAB code∘code**, as asked: within `1e-6` (in fact `8.6e-8`) for every `x ∈ [0, 1.1]³` — the upper bounds
are not needed -/
theorem lab_roundtrip (x : Xyz ℝ) (hx : 0 ≤ x.x) (hy : 0 ≤ x.y) (hz : 0 ≤ x.z) :
    Close (86 / 10 ^ 9) (Xyz.from_Lab (Lab.from_Xyz x)) x := by
  obtain ⟨⟨h1, h2, h3⟩, _⟩ := lab_roundtrip_tight x hx hy hz
  exact ⟨h1.trans (by norm_num), h2.trans (by norm_num), h3⟩

/-- on the cube-root branch (all three normalised components above the thresholds) the round trip is exact -/
theorem lab_roundtrip_exact (x : Xyz ℝ) (hx : 1107 / 125000 < x.x / (95047 / 100000))
    (hy : 885604 / 10 ^ 8 < x.y) (hz : 1107 / 125000 < x.z / (108883 / 100000)) :
    Xyz.from_Lab (Lab.from_Xyz x) = x := by
  have hx0 : 0 ≤ x.x / (95047 / 100000) := by linarith
  have hz0 : 0 ≤ x.z / (108883 / 100000) := by linarith
  have hy0 : 0 ≤ x.y := by linarith
  have hyc : 1107 / 125000 < x.y := by linarith
  rw [lab_roundtrip_shape, rev_fCode_eq hx0, rev_fCode_eq hz0, if_pos hx, if_pos hz]
  have e : yRevCode (116 * fCode x.y - 16) = x.y := by
    have h1 : fCode x.y = x.y ^ ((1 : ℝ) / 3) := by
      unfold fCode; rw [if_pos hyc, cbrt_of_nonneg hy0]
    have h2 := (yRev_lCodeLuv hy0).1 (Or.inr hy)
    unfold lCodeLuv at h2
    rw [if_pos hyc] at h2
    rw [h1]; exact h2
  rw [e]
  cases x with
  | mk X Y Z =>
    simp only [Xyz.mk.injEq, true_and]
    constructor <;> field_simp

/-- on the linear branch the round trip multiplies by `116·7.787/903.3 = 1 − 8.86e-6`: the error is not zero -/
theorem lab_roundtrip_linear_branch :
    (Xyz.from_Lab (Lab.from_Xyz (⟨0, 1 / 200, 0⟩ : Xyz ℝ))).y = 1 / 200 * (116 * (7787 / 1000) / (9033 / 10)) := by
  rw [lab_roundtrip_shape]
  unfold fCode yRevCode
  norm_num

/-- LCh(ab) code∘code is CIELAB code∘code, exactly (polar round trip `Props.C14.lchlab_roundtrip`) -/
theorem lchlab_roundtrip_eq (x : Xyz ℝ) :
    Xyz.from_Lchlab (Lchlab.from_Xyz x) = Xyz.from_Lab (Lab.from_Xyz x) := by
  simp only [Xyz.from_Lchlab, Props.C14.lchlab_roundtrip]

theorem lchlab_roundtrip (x : Xyz ℝ) (hx : 0 ≤ x.x) (hy : 0 ≤ x.y) (hz : 0 ≤ x.z) :
    Close (86 / 10 ^ 9) (Xyz.from_Lchlab (Lchlab.from_Xyz x)) x := by
  rw [lchlab_roundtrip_eq]; exact lab_roundtrip x hx hy hz

/-! ## 2. CIELUV, LCh(uv), HCL -/

/-- **CIELUV code∘code, exact form** (`X, Z ≥ 0`, `Y > 0`; these exclude the code's divisions by `13·L` and
`4·v'`): the chromaticity comes back exactly, the result is `x·(y/Y)`, `y` the recovered luminance; and
`y = Y` exactly unless `Y` is in the sliver `(0.008856, 0.00885604]`. -/
theorem luv_roundtrip_exact (x : Xyz ℝ) (hx : 0 ≤ x.x) (hy : 0 < x.y) (hz : 0 ≤ x.z)
    (hs : x.y ≤ 1107 / 125000 ∨ 885604 / 10 ^ 8 < x.y) :
    Xyz.from_Luv (Luv.from_Xyz x) = x := by
  rw [luv_roundtrip_shape x hx hy hz, (yRev_lCodeLuv hy.le).1 hs, div_self hy.ne', mul_one, mul_one]

/-- **CIELUV code∘code**, every XYZ with `X, Z ≥ 0`, `Y > 0`: relative error at most `4.2e-6` per component
(`Y` within `3.7e-8`) -/
theorem luv_roundtrip_rel (x : Xyz ℝ) (hx : 0 ≤ x.x) (hy : 0 < x.y) (hz : 0 ≤ x.z) :
    |(Xyz.from_Luv (Luv.from_Xyz x)).x - x.x| ≤ 42 / 10 ^ 7 * x.x ∧
    |(Xyz.from_Luv (Luv.from_Xyz x)).y - x.y| ≤ 37 / 10 ^ 9 ∧
    |(Xyz.from_Luv (Luv.from_Xyz x)).y - x.y| ≤ 42 / 10 ^ 7 * x.y ∧
    |(Xyz.from_Luv (Luv.from_Xyz x)).z - x.z| ≤ 42 / 10 ^ 7 * x.z := by
  rw [luv_roundtrip_shape x hx hy hz]
  obtain ⟨_, h1, h2⟩ := yRev_lCodeLuv hy.le
  set y := yRevCode (lCodeLuv x.y) with hydef
  have kx : x.x * (y / x.y) - x.x = x.x * ((y - x.y) / x.y) := by field_simp
  have kz : x.z * (y / x.y) - x.z = x.z * ((y - x.y) / x.y) := by field_simp
  have hq : |(y - x.y) / x.y| ≤ 42 / 10 ^ 7 := by
    rw [abs_div, abs_of_pos hy, div_le_iff₀ hy]; exact h2
  refine ⟨?_, h1, h2, ?_⟩
  · simp only [kx, abs_mul, abs_of_nonneg hx]; nlinarith [abs_nonneg ((y - x.y) / x.y)]
  · simp only [kz, abs_mul, abs_of_nonneg hz]; nlinarith [abs_nonneg ((y - x.y) / x.y)]

/-- **CIELUV code∘code** on the box: `x ∈ [0, 1.1]³`, `Y > 0`: within `4.7e-6` -/
theorem luv_roundtrip_box (x : Xyz ℝ) (hx : 0 ≤ x.x) (hx1 : x.x ≤ 1.1) (hy : 0 < x.y) (hz : 0 ≤ x.z)
    (hz1 : x.z ≤ 1.1) : Close (47 / 10 ^ 7) (Xyz.from_Luv (Luv.from_Xyz x)) x := by
  obtain ⟨h1, h2, _, h3⟩ := luv_roundtrip_rel x hx hy hz
  refine ⟨h1.trans ?_, h2.trans (by norm_num), h3.trans ?_⟩ <;> norm_num at hx1 hz1 ⊢ <;> linarith

/-- black: `Luv::from(black) = (0,0,0)` through the guard of `compute_compounds`, and `Xyz::from((0,0,0))` is
`Xyz::default()` through the guard `u = 0 ∧ l = 0` -/
theorem luv_roundtrip_black : Xyz.from_Luv (Luv.from_Xyz (⟨0, 0, 0⟩ : Xyz ℝ)) = ⟨0, 0, 0⟩ := by
  rw [Props.C06.luv_black.1]
  simp [Xyz.from_Luv, Xyz.default]

/-- **CIELUV code∘code for the XYZ of every 8-bit colour** (black included): within `5e-7`.
In the luminance sliver the colour is dark, and on the sRGB cone `X ≤ 2.5·Y`, `Z ≤ 13.2·Y`. -/
theorem luv_roundtrip_of_rgb (c : Rgb) :
    Close (5 / 10 ^ 7) (Xyz.from_Luv (Luv.from_Xyz (Xyz.from_rgb c XyzKind.D65))) (Xyz.from_rgb c XyzKind.D65) := by
  by_cases hb : c.r = 0 ∧ c.g = 0 ∧ c.b = 0
  · rw [eq_black_of_zero c hb]
    have : (Xyz.from_rgb ⟨0, 0, 0⟩ XyzKind.D65 : Xyz ℝ) = ⟨0, 0, 0⟩ := Props.C13_xyz.black_zero .D65
    rw [this, luv_roundtrip_black]
    simp only [Close, sub_self, abs_zero]
    norm_num
  · obtain ⟨g1, _, g3, _⟩ := Props.C06.luv_gamut_of_srgb_cone c
    have hy := y_pos_of_ne_black c hb
    obtain ⟨r1, r2⟩ := srgb_cone_ratios c
    set x : Xyz ℝ := Xyz.from_rgb c XyzKind.D65 with hxdef
    rw [luv_roundtrip_shape x g1 hy g3]
    obtain ⟨_, h1, _⟩ := yRev_lCodeLuv hy.le
    set y := yRevCode (lCodeLuv x.y) with hydef
    have kx : x.x * (y / x.y) - x.x = x.x / x.y * (y - x.y) := by field_simp
    have kz : x.z * (y / x.y) - x.z = x.z / x.y * (y - x.y) := by field_simp
    have qx : x.x / x.y ≤ 25 / 10 := by rw [div_le_iff₀ hy]; exact r1
    have qz : x.z / x.y ≤ 132 / 10 := by rw [div_le_iff₀ hy]; exact r2
    have px : 0 ≤ x.x / x.y := div_nonneg g1 hy.le
    have pz : 0 ≤ x.z / x.y := div_nonneg g3 hy.le
    refine ⟨?_, h1.trans (by norm_num), ?_⟩
    · simp only [kx, abs_mul, abs_of_nonneg px]; nlinarith [abs_nonneg (y - x.y)]
    · simp only [kz, abs_mul, abs_of_nonneg pz]; nlinarith [abs_nonneg (y - x.y)]

/-- LCh(uv) and HCL code∘code are CIELUV code∘code, exactly -/
theorem lchuv_roundtrip_eq (x : Xyz ℝ) :
    Xyz.from_Lchuv (Lchuv.from_Xyz x) = Xyz.from_Luv (Luv.from_Xyz x) := by
  simp only [Xyz.from_Lchuv, Props.C14.lchuv_roundtrip]

theorem hcl_roundtrip_eq (x : Xyz ℝ) :
    Xyz.from_Hcl (Hcl.from_Xyz x) = Xyz.from_Luv (Luv.from_Xyz x) := by
  simp only [Xyz.from_Hcl, Props.C14.hcl_roundtrip_xyz]

theorem lchuv_roundtrip_of_rgb (c : Rgb) :
    Close (5 / 10 ^ 7) (Xyz.from_Lchuv (Lchuv.from_Xyz (Xyz.from_rgb c XyzKind.D65))) (Xyz.from_rgb c XyzKind.D65) := by
  rw [lchuv_roundtrip_eq]; exact luv_roundtrip_of_rgb c

theorem hcl_roundtrip_of_rgb (c : Rgb) :
    Close (5 / 10 ^ 7) (Xyz.from_Hcl (Hcl.from_Xyz (Xyz.from_rgb c XyzKind.D65))) (Xyz.from_rgb c XyzKind.D65) := by
  rw [hcl_roundtrip_eq]; exact luv_roundtrip_of_rgb c

/-- CIELAB / LCh(ab) for the XYZ of every 8-bit colour -/
theorem lab_roundtrip_of_rgb (c : Rgb) :
    Close (86 / 10 ^ 9) (Xyz.from_Lab (Lab.from_Xyz (Xyz.from_rgb c XyzKind.D65))) (Xyz.from_rgb c XyzKind.D65) := by
  obtain ⟨g1, g2, g3, _⟩ := Props.C06.luv_gamut_of_srgb_cone c
  exact lab_roundtrip _ g1 g2 g3

theorem lchlab_roundtrip_of_rgb (c : Rgb) :
    Close (86 / 10 ^ 9) (Xyz.from_Lchlab (Lchlab.from_Xyz (Xyz.from_rgb c XyzKind.D65))) (Xyz.from_rgb c XyzKind.D65) := by
  rw [lchlab_roundtrip_eq]; exact lab_roundtrip_of_rgb c

/-- C02, first sentence, for the five CIE spaces: within `5e-4` -/
theorem cie_roundtrip_5e4 (c : Rgb) :
    let x : Xyz ℝ := Xyz.from_rgb c XyzKind.D65
    Close 5e-4 (Xyz.from_Lab (Lab.from_Xyz x)) x ∧ Close 5e-4 (Xyz.from_Lchlab (Lchlab.from_Xyz x)) x ∧
    Close 5e-4 (Xyz.from_Luv (Luv.from_Xyz x)) x ∧ Close 5e-4 (Xyz.from_Lchuv (Lchuv.from_Xyz x)) x ∧
    Close 5e-4 (Xyz.from_Hcl (Hcl.from_Xyz x)) x := by
  intro x
  have w : ∀ {ε : ℝ} {a : Xyz ℝ}, Close ε a x → ε ≤ 5e-4 → Close 5e-4 a x :=
    fun h hε => ⟨h.1.trans hε, h.2.1.trans hε, h.2.2.trans hε⟩
  exact ⟨w (lab_roundtrip_of_rgb c) (by norm_num), w (lchlab_roundtrip_of_rgb c) (by norm_num),
    w (luv_roundtrip_of_rgb c) (by norm_num), w (lchuv_roundtrip_of_rgb c) (by norm_num),
    w (hcl_roundtrip_of_rgb c) (by norm_num)⟩

/-! ## 3. OkLab and OkLch -/

open Props.C07 (pow22 pow22Inv ottosson ottossonInv) in
/-- **OkLab code∘code in linear light** (numeric form of C07's reverse clause).  For every encoded sRGB triple
`s ∈ [0,1]³`: the code's round trip is `pow22Inv` of Ottosson's inverse of Ottosson's forward transform of
`lin = pow22 s`, and that returns `lin` within `5.8e-7` per channel. -/
theorem oklab_srgb_roundtrip_linear (s : Srgb ℝ) (hr : 0 ≤ s.r ∧ s.r ≤ 1) (hg : 0 ≤ s.g ∧ s.g ≤ 1)
    (hb : 0 ≤ s.b ∧ s.b ≤ 1) :
    Srgb.from_OkLab (OkLab.from_Srgb s) =
      ⟨pow22Inv (ottossonInv (ottosson (pow22 s.r, pow22 s.g, pow22 s.b))).1,
       pow22Inv (ottossonInv (ottosson (pow22 s.r, pow22 s.g, pow22 s.b))).2.1,
       pow22Inv (ottossonInv (ottosson (pow22 s.r, pow22 s.g, pow22 s.b))).2.2⟩ ∧
    |(ottossonInv (ottosson (pow22 s.r, pow22 s.g, pow22 s.b))).1 - pow22 s.r| ≤ 58 / 10 ^ 8 ∧
    |(ottossonInv (ottosson (pow22 s.r, pow22 s.g, pow22 s.b))).2.1 - pow22 s.g| ≤ 58 / 10 ^ 8 ∧
    |(ottossonInv (ottosson (pow22 s.r, pow22 s.g, pow22 s.b))).2.2 - pow22 s.b| ≤ 58 / 10 ^ 8 := by
  have unit : ∀ t : ℝ, 0 ≤ t ∧ t ≤ 1 → 0 ≤ pow22 t ∧ pow22 t ≤ 1 := by
    intro t ht
    unfold Props.C07.pow22
    rw [max_eq_left ht.1]
    exact ⟨Real.rpow_nonneg ht.1 _, Real.rpow_le_one ht.1 ht.2 (by norm_num)⟩
  obtain ⟨⟨o1, o2⟩, ⟨o3, o4⟩, ⟨o5, o6⟩⟩ :=
    Lemmas.OkLabF1b.ottosson_roundtrip (B := 1) (unit _ hr) (unit _ hg) (unit _ hb)
  refine ⟨?_, ?_, ?_, ?_⟩
  · rw [Props.C07.oklab_is_ottosson_of_pow22, Props.C07.oklab_reverse_def]
  all_goals (rw [abs_le]; constructor <;> linarith)

open Props.C07 (pow22) in
/-- **OkLab code∘code, channel by channel**, `s ∈ [0,1]³`: error `≤ 5.8e-7` when both sides are re-linearised;
`≤ 1.47e-3` in the encoded domain (Hölder form); `≤ 1.2e-5` on a channel whose linear value is `≥ 1e-3`
(encoded value `≥ 0.0433`). -/
theorem oklab_srgb_roundtrip (s : Srgb ℝ) (hr : 0 ≤ s.r ∧ s.r ≤ 1) (hg : 0 ≤ s.g ∧ s.g ≤ 1)
    (hb : 0 ≤ s.b ∧ s.b ≤ 1) :
    (|pow22 (Srgb.from_OkLab (OkLab.from_Srgb s)).r - pow22 s.r| ≤ 58 / 10 ^ 8 ∧
     |pow22 (Srgb.from_OkLab (OkLab.from_Srgb s)).g - pow22 s.g| ≤ 58 / 10 ^ 8 ∧
     |pow22 (Srgb.from_OkLab (OkLab.from_Srgb s)).b - pow22 s.b| ≤ 58 / 10 ^ 8) ∧
    (|(Srgb.from_OkLab (OkLab.from_Srgb s)).r - s.r| ≤ 147 / 10 ^ 5 ∧
     |(Srgb.from_OkLab (OkLab.from_Srgb s)).g - s.g| ≤ 147 / 10 ^ 5 ∧
     |(Srgb.from_OkLab (OkLab.from_Srgb s)).b - s.b| ≤ 147 / 10 ^ 5) ∧
    ((1 / 10 ^ 3 ≤ pow22 s.r → |(Srgb.from_OkLab (OkLab.from_Srgb s)).r - s.r| ≤ 12 / 10 ^ 6) ∧
     (1 / 10 ^ 3 ≤ pow22 s.g → |(Srgb.from_OkLab (OkLab.from_Srgb s)).g - s.g| ≤ 12 / 10 ^ 6) ∧
     (1 / 10 ^ 3 ≤ pow22 s.b → |(Srgb.from_OkLab (OkLab.from_Srgb s)).b - s.b| ≤ 12 / 10 ^ 6)) := by
  obtain ⟨e, h1, h2, h3⟩ := oklab_srgb_roundtrip_linear s hr hg hb
  rw [e]
  obtain ⟨a1, a2, a3⟩ := Lemmas.OkLabXyzF1b.encoded_channel hr.1 h1
  obtain ⟨b1, b2, b3⟩ := Lemmas.OkLabXyzF1b.encoded_channel hg.1 h2
  obtain ⟨c1, c2, c3⟩ := Lemmas.OkLabXyzF1b.encoded_channel hb.1 h3
  exact ⟨⟨a3, b3, c3⟩, ⟨a1, b1, c1⟩, ⟨a2, b2, c2⟩⟩

/-- **OkLab XYZ round trip for the XYZ of every 8-bit colour**: within `1.25e-4` (C02 asks `5e-4`) -/
theorem oklab_roundtrip_of_rgb (c : Rgb) (hr : c.r ≤ 255) (hg : c.g ≤ 255) (hb : c.b ≤ 255) :
    Close (125 / 10 ^ 6) (Xyz.from_OkLab (OkLab.from_Xyz (Xyz.from_rgb c XyzKind.D65))) (Xyz.from_rgb c XyzKind.D65) := by
  obtain ⟨d, hd, hch⟩ := Lemmas.OkLabXyzF1b.oklab_chain c hr hg hb
  rw [hd, Lemmas.XyzDispatch.from_rgb_eq]
  have k := fun i => Lemmas.OkLabXyzF1b.fwd_perturb d (Lemmas.XyzDispatch.lin .D65 c) 1.147e-4
    (hch 0).2.2.1 (hch 1).2.2.1 (hch 2).2.2.1 i
  have k0 := k 0; have k1 := k 1; have k2 := k 2
  simp only [Lemmas.Matrix.V3.get] at k0 k1 k2
  exact ⟨k0.trans (by norm_num), k1.trans (by norm_num), k2.trans (by norm_num)⟩

/-- OkLch code∘code is OkLab code∘code, exactly (polar round trip `Props.C14.oklch_roundtrip_xyz`) -/
theorem oklch_roundtrip_eq (x : Xyz ℝ) :
    Xyz.from_OkLch (OkLch.from_Xyz x) = Xyz.from_OkLab (OkLab.from_Xyz x) := by
  simp only [Xyz.from_OkLch, Props.C14.oklch_roundtrip_xyz]

theorem oklch_roundtrip_of_rgb (c : Rgb) (hr : c.r ≤ 255) (hg : c.g ≤ 255) (hb : c.b ≤ 255) :
    Close (125 / 10 ^ 6) (Xyz.from_OkLch (OkLch.from_Xyz (Xyz.from_rgb c XyzKind.D65))) (Xyz.from_rgb c XyzKind.D65) := by
  rw [oklch_roundtrip_eq]; exact oklab_roundtrip_of_rgb c hr hg hb

/-- C02, first sentence, for OkLab and OkLch: within `5e-4` -/
theorem ok_roundtrip_5e4 (c : Rgb) (hr : c.r ≤ 255) (hg : c.g ≤ 255) (hb : c.b ≤ 255) :
    let x : Xyz ℝ := Xyz.from_rgb c XyzKind.D65
    Close 5e-4 (Xyz.from_OkLab (OkLab.from_Xyz x)) x ∧ Close 5e-4 (Xyz.from_OkLch (OkLch.from_Xyz x)) x := by
  intro x
  have w : ∀ {a : Xyz ℝ}, Close (125 / 10 ^ 6) a x → Close 5e-4 a x :=
    fun h => ⟨h.1.trans (by norm_num), h.2.1.trans (by norm_num), h.2.2.trans (by norm_num)⟩
  exact ⟨w (oklab_roundtrip_of_rgb c hr hg hb), w (oklch_roundtrip_of_rgb c hr hg hb)⟩

/-- **C02, second sentence, for OkLab and OkLch**: the round-tripped XYZ of every 8-bit colour re-quantises to
exactly that colour.  (Not through `requant_stable`: the XYZ error reaches `1.8e-5`; see the header.) -/
theorem oklab_requant (c : Rgb) (hr : c.r ≤ 255) (hg : c.g ≤ 255) (hb : c.b ≤ 255) :
    Xyz.as_rgb (Xyz.from_OkLab (OkLab.from_Xyz (Xyz.from_rgb c XyzKind.D65 : Xyz ℝ))) XyzKind.D65 = c ∧
    Xyz.as_rgb (Xyz.from_OkLch (OkLch.from_Xyz (Xyz.from_rgb c XyzKind.D65 : Xyz ℝ))) XyzKind.D65 = c := by
  have h := Lemmas.RequantF1a.as_rgb_of_pre .D65 _ c hr hg hb (Lemmas.OkLabXyzF1b.oklab_pre_close c hr hg hb)
  exact ⟨h, by rw [oklch_roundtrip_eq]; exact h⟩

/-! ## 4. Re-quantisation (CIE spaces) -/

/-- from any stability statement with tolerance at least `5e-7` -/
theorem cie_requant_of_stable {ε : ℝ} (hstab : RequantStable ε) (hε : 5 / 10 ^ 7 ≤ ε)
    (c : Rgb) (hr : c.r ≤ 255) (hg : c.g ≤ 255) (hb : c.b ≤ 255) :
    let x : Xyz ℝ := Xyz.from_rgb c XyzKind.D65
    Xyz.as_rgb (Xyz.from_Lab (Lab.from_Xyz x)) XyzKind.D65 = c ∧
    Xyz.as_rgb (Xyz.from_Lchlab (Lchlab.from_Xyz x)) XyzKind.D65 = c ∧
    Xyz.as_rgb (Xyz.from_Luv (Luv.from_Xyz x)) XyzKind.D65 = c ∧
    Xyz.as_rgb (Xyz.from_Lchuv (Lchuv.from_Xyz x)) XyzKind.D65 = c ∧
    Xyz.as_rgb (Xyz.from_Hcl (Hcl.from_Xyz x)) XyzKind.D65 = c := by
  intro x
  have w : ∀ {η : ℝ} {a : Xyz ℝ}, Close η a x → η ≤ 5 / 10 ^ 7 → Xyz.as_rgb a XyzKind.D65 = c :=
    fun h hη => hstab c hr hg hb _ ⟨h.1.trans (hη.trans hε), h.2.1.trans (hη.trans hε), h.2.2.trans (hη.trans hε)⟩
  exact ⟨w (lab_roundtrip_of_rgb c) (by norm_num), w (lchlab_roundtrip_of_rgb c) (by norm_num),
    w (luv_roundtrip_of_rgb c) le_rfl, w (lchuv_roundtrip_of_rgb c) le_rfl, w (hcl_roundtrip_of_rgb c) le_rfl⟩

/-- **C02, second sentence, for CIELAB, LCh(ab), CIELUV, LCh(uv), HCL**: the round-tripped XYZ of every 8-bit
colour re-quantises to exactly that colour -/
theorem cie_requant (c : Rgb) (hr : c.r ≤ 255) (hg : c.g ≤ 255) (hb : c.b ≤ 255) :
    let x : Xyz ℝ := Xyz.from_rgb c XyzKind.D65
    Xyz.as_rgb (Xyz.from_Lab (Lab.from_Xyz x)) XyzKind.D65 = c ∧
    Xyz.as_rgb (Xyz.from_Lchlab (Lchlab.from_Xyz x)) XyzKind.D65 = c ∧
    Xyz.as_rgb (Xyz.from_Luv (Luv.from_Xyz x)) XyzKind.D65 = c ∧
    Xyz.as_rgb (Xyz.from_Lchuv (Lchuv.from_Xyz x)) XyzKind.D65 = c ∧
    Xyz.as_rgb (Xyz.from_Hcl (Hcl.from_Xyz x)) XyzKind.D65 = c :=
  cie_requant_of_stable requantStable (by norm_num) c hr hg hb

/-! ## Examples: the hypotheses are satisfiable -/

example : ∃ x : Xyz ℝ, 0 ≤ x.x ∧ x.x ≤ 1.1 ∧ 0 < x.y ∧ 0 ≤ x.z ∧ x.z ≤ 1.1 :=
  ⟨⟨0.4, 0.2, 0.02⟩, by norm_num, by norm_num, by norm_num, by norm_num, by norm_num⟩
-- the exact cases of CIELAB and CIELUV occur (D65 white) ...
example : Xyz.from_Lab (Lab.from_Xyz (⟨0.95047, 1, 1.08883⟩ : Xyz ℝ)) = ⟨0.95047, 1, 1.08883⟩ :=
  lab_roundtrip_exact _ (by norm_num) (by norm_num) (by norm_num)
example : Xyz.from_Luv (Luv.from_Xyz (⟨0.95047, 1, 1.08883⟩ : Xyz ℝ)) = ⟨0.95047, 1, 1.08883⟩ :=
  luv_roundtrip_exact _ (by norm_num) (by norm_num) (by norm_num) (Or.inr (by norm_num))
-- ... and so does the dark branch of CIELUV
example : Xyz.from_Luv (Luv.from_Xyz (⟨0.001, 0.002, 0.003⟩ : Xyz ℝ)) = ⟨0.001, 0.002, 0.003⟩ :=
  luv_roundtrip_exact _ (by norm_num) (by norm_num) (by norm_num) (Or.inl (by norm_num))
-- a non-black 8-bit colour for `y_pos_of_ne_black`
example : ¬ ((⟨0, 0, 1⟩ : Rgb).r = 0 ∧ (⟨0, 0, 1⟩ : Rgb).g = 0 ∧ (⟨0, 0, 1⟩ : Rgb).b = 0) := by simp
-- an encoded sRGB triple in the unit cube with a channel above the Lipschitz threshold (`pow22 s ≥ 1e-3`)
example : ∃ s : Srgb ℝ, (0 ≤ s.r ∧ s.r ≤ 1) ∧ (0 ≤ s.g ∧ s.g ≤ 1) ∧ (0 ≤ s.b ∧ s.b ≤ 1) ∧
    1 / 10 ^ 3 ≤ Props.C07.pow22 s.r :=
  ⟨⟨1, 0, 1 / 2⟩, by norm_num, by norm_num, by norm_num, by simp [Props.C07.pow22]; norm_num⟩
-- pure green, the colour with the largest OkLab XYZ error (1.8e-5 > 1.7e-5), re-quantises correctly
example : Xyz.as_rgb (Xyz.from_OkLab (OkLab.from_Xyz (Xyz.from_rgb ⟨0, 255, 0⟩ XyzKind.D65 : Xyz ℝ))) XyzKind.D65
    = ⟨0, 255, 0⟩ := (oklab_requant ⟨0, 255, 0⟩ (by norm_num) (by norm_num) (by norm_num)).1
-- the stability hypothesis of `cie_requant_of_stable` is inhabited
example : RequantStable 1.7e-5 ∧ (5 / 10 ^ 7 : ℝ) ≤ 1.7e-5 := ⟨requantStable, by norm_num⟩

end Props.C02_cie
