import LymuiVerif.Lemmas.FpLinear
import LymuiVerif.Props.C10
/-!
# C10 in the rounded-arithmetic reading (`RF M`, every `M : FPModel`)

The device-model conversions computed with one rounding after every `+ - * /` and every literal
(`Inst/Rounded.lean`) against the SAME cited formulas `Props.C10.Spec.*` as the exact-real file
`Props/C10.lean`.

* Real-valued outputs (YUV, CMYK forward): `|computed − formula| ≤ tol` with `tol = 1e-12` (YUV, CMYK `K`)
  resp. `1e-10` (CMYK `C/M/Y`: a quotient by `max/255 ≥ 1/255` amplifies the rounding errors by `255²`).
* 8-bit outputs (YCbCr forward, five grayscale modes, the three reverse conversions): the byte equals
  the SAME quantiser as in the exact-real theorem (`Real.toU8` = `as u8`: truncate and saturate; for
  CMYK → RGB `Real.toU8 ∘ Real.roundHA`) applied to the cited formula perturbed by some `|e| ≤ 1e-12`.
  (The byte itself cannot be pinned down more than that: e.g. `0.504 · 125 = 63` exactly, and a
  rounded product just below 63 truncates to 62.)

CMYK forward follows the code's guard: `cmyk_forward_fp` assumes `0 < max` and PROVES that the computed
`K` then differs from `1` (comparisons are exact in `RF M`), `cmyk_black_fp` covers black
(`Props.C10.cmyk_cases` shows the two are exhaustive).  No theorem relies on `x / 0 = 0`.
Helper lemmas: `Lemmas/FpLinear.lean` (`FpLin.Near` calculus, `dot3`).
-/
namespace Props.C10
open Gen FpErr FpLin

/-! ## Forward conversions -/

/-- **YUV forward**, rounded arithmetic: each component within `1e-12` of the BT.601 analogue form. -/
theorem yuv_forward_fp (M : FPModel) (c : Rgb) (hr : c.r ≤ 255) (hg : c.g ≤ 255) (hb : c.b ≤ 255) :
    |(Yuv.from_Rgb (α := RF M) c).y.val - Spec.yuvY c.r c.g c.b| ≤ 1e-12 ∧
    |(Yuv.from_Rgb (α := RF M) c).u.val - Spec.yuvU c.r c.g c.b| ≤ 1e-12 ∧
    |(Yuv.from_Rgb (α := RF M) c).v.val - Spec.yuvV c.r c.g c.b| ≤ 1e-12 := by
  simp only [Yuv.from_Rgb, Rgb.as_f64, FltRF.lit_val, FltRF.ofNat_val, FltRF.add_val, FltRF.sub_val,
    FltRF.mul_val, FltRF.div_val, Spec.yuvY, Spec.yuvU, Spec.yuvV]
  have hr' : (c.r : ℝ) ≤ 255 := by exact_mod_cast hr
  have hg' : (c.g : ℝ) ≤ 255 := by exact_mod_cast hg
  have hb' : (c.b : ℝ) ≤ 255 := by exact_mod_cast hb
  rw [lit_int M 255 (by norm_num)]
  have nr := (Near.nat hr' (by norm_num)).div_const M (c := ((255 : ℕ) : ℝ)) (B' := 1) (by norm_num) (by norm_num) le_rfl
  have ng := (Near.nat hg' (by norm_num)).div_const M (c := ((255 : ℕ) : ℝ)) (B' := 1) (by norm_num) (by norm_num) le_rfl
  have nb := (Near.nat hb' (by norm_num)).div_const M (c := ((255 : ℕ) : ℝ)) (B' := 1) (by norm_num) (by norm_num) le_rfl
  have ny := (((Near.lit M 299 1000 (B := 1) (by norm_num) le_rfl).mul M nr).add M
    ((Near.lit M 587 1000 (B := 1) (by norm_num) le_rfl).mul M ng)).add M
    ((Near.lit M 57 500 (B := 1) (by norm_num) le_rfl).mul M nb)
  have nu := (Near.lit M 123 250 (B := 1) (by norm_num) le_rfl).mul M (nb.sub M ny)
  have nv := (Near.lit M 877 1000 (B := 1) (by norm_num) le_rfl).mul M (nr.sub M ny)
  refine ⟨ny.finish ?_ ?_, nu.finish ?_ ?_, nv.finish ?_ ?_⟩
  · push_cast; ring
  · norm_num [FP.eps]
  · push_cast; ring
  · norm_num [FP.eps]
  · push_cast; ring
  · norm_num [FP.eps]

/-- **CMYK forward** (non-black), rounded arithmetic: `K` within `1e-12`, `C/M/Y` within `1e-10` of
`1 - max/255`, `(max - channel)/max`.  The proof shows that the code takes the `k != 1` branch. -/
theorem cmyk_forward_fp (M : FPModel) (c : Rgb) (hr : c.r ≤ 255) (hg : c.g ≤ 255) (hb : c.b ≤ 255)
    (hmax : 0 < Spec.mx c.r c.g c.b) :
    |(Cymk.from_Rgb (α := RF M) c).k.val - Spec.cmykK c.r c.g c.b| ≤ 1e-12 ∧
    |(Cymk.from_Rgb (α := RF M) c).c.val - Spec.cmykC c.r c.g c.b| ≤ 1e-10 ∧
    |(Cymk.from_Rgb (α := RF M) c).m.val - Spec.cmykM c.r c.g c.b| ≤ 1e-10 ∧
    |(Cymk.from_Rgb (α := RF M) c).y.val - Spec.cmykY c.r c.g c.b| ≤ 1e-10 := by
  have hm : max (c.b : ℝ) (max (c.r : ℝ) (c.g : ℝ)) = Spec.mx c.r c.g c.b := by
    unfold Spec.mx; rw [max_comm, max_assoc]
  -- the largest channel is a whole number in 1..255 and dominates each channel
  have hm1 : (1 : ℝ) ≤ Spec.mx c.r c.g c.b := by
    have : Spec.mx c.r c.g c.b = ((max c.r (max c.g c.b) : ℕ) : ℝ) := by
      unfold Spec.mx; push_cast; rfl
    rw [this] at hmax ⊢
    exact_mod_cast hmax
  have hm255 : Spec.mx c.r c.g c.b ≤ 255 := by
    unfold Spec.mx
    have hr' : (c.r : ℝ) ≤ 255 := by exact_mod_cast hr
    have hg' : (c.g : ℝ) ≤ 255 := by exact_mod_cast hg
    have hb' : (c.b : ℝ) ≤ 255 := by exact_mod_cast hb
    exact max_le hr' (max_le hg' hb')
  have hrm : (c.r : ℝ) ≤ Spec.mx c.r c.g c.b := le_max_left _ _
  have hgm : (c.g : ℝ) ≤ Spec.mx c.r c.g c.b := le_trans (le_max_left _ _) (le_max_right _ _)
  have hbm : (c.b : ℝ) ≤ Spec.mx c.r c.g c.b := le_trans (le_max_right _ _) (le_max_right _ _)
  have hr0 : (0 : ℝ) ≤ c.r := Nat.cast_nonneg _
  have hg0 : (0 : ℝ) ≤ c.g := Nat.cast_nonneg _
  have hb0 : (0 : ℝ) ≤ c.b := Nat.cast_nonneg _
  have c255 : (0 : ℝ) < ((255 : ℕ) : ℝ) := by norm_num
  have one : Near (((1 : ℕ) : ℝ)) 1 0 1 := by simpa using Near.exact (x := 1) (B := 1) (by norm_num) le_rfl
  have nm := (Near.exact_nonneg (B := 255) (by linarith) hm255 (by norm_num)).div_const M (B' := 1) c255 (by norm_num) le_rfl
  have nk := one.sub M nm
  have nmk := one.sub M nk
  -- the guard `k != 1`: the computed K is strictly below 1
  have hk : ¬ (M.rnd (((1 : ℕ) : ℝ) - M.rnd (Spec.mx c.r c.g c.b / ((255 : ℕ) : ℝ))) = ((1 : ℕ) : ℝ)) := by
    intro h
    have e1 := nk.err
    rw [h] at e1
    have : (1 : ℝ) / 255 ≤ Spec.mx c.r c.g c.b / 255 := by gcongr
    have e2 : |((1 : ℕ) : ℝ) - (1 - Spec.mx c.r c.g c.b / ((255 : ℕ) : ℝ))| = Spec.mx c.r c.g c.b / 255 := by
      push_cast; rw [abs_of_nonneg (by linarith)]; ring
    rw [e2] at e1
    have : (0 + (0 / ((255:ℕ):ℝ) + FP.eps * (1 + 0 / ((255:ℕ):ℝ))) + FP.eps * (1 + 1 + (0 + (0 / ((255:ℕ):ℝ) + FP.eps * (1 + 0 / ((255:ℕ):ℝ)))))) < (1:ℝ) / 255 := by
      norm_num [FP.eps]
    linarith
  simp only [Cymk.from_Rgb, Rgb.as_f64, Rgb.get_min_max, Cymk.default, FltRF.lit_val, FltRF.ofNat_val,
    FltRF.sub_val, FltRF.div_val, FltRF.max_val, FltRF.beq_eq, hm]
  rw [lit_int M 255 (by norm_num), lit_int M 1 (by norm_num)]
  simp only [hk, decide_false, Bool.not_false, if_true, FltRF.lit_val, FltRF.ofNat_val,
    FltRF.sub_val, FltRF.div_val, FltRF.max_val, hm]
  rw [lit_int M 255 (by norm_num), lit_int M 1 (by norm_num)]
  simp only [Spec.cmykK, Spec.cmykC, Spec.cmykM, Spec.cmykY]
  generalize Spec.mx c.r c.g c.b = m at *
  generalize (c.r : ℝ) = r at *
  generalize (c.g : ℝ) = g at *
  generalize (c.b : ℝ) = b at *
  -- a channel `x ≤ m`: the computed `((1 - x/255) - K) / (1 - K)` against `(m - x)/m`
  have chan : ∀ x : ℝ, 0 ≤ x → x ≤ m →
      |M.rnd (M.rnd (M.rnd (((1 : ℕ) : ℝ) - M.rnd (x / ((255 : ℕ) : ℝ))) - M.rnd (((1 : ℕ) : ℝ) - M.rnd (m / ((255 : ℕ) : ℝ)))) /
          M.rnd (((1 : ℕ) : ℝ) - M.rnd (((1 : ℕ) : ℝ) - M.rnd (m / ((255 : ℕ) : ℝ))))) - (m - x) / m| ≤ 1e-10 := by
    intro x hx0 hxm
    have hm0 : m ≠ 0 := ne_of_gt hmax
    have e : (1 - x / ((255 : ℕ) : ℝ) - (1 - m / ((255 : ℕ) : ℝ))) / (1 - (1 - m / ((255 : ℕ) : ℝ))) = (m - x) / m := by
      push_cast
      rw [div_eq_div_iff (by intro h; apply hm0; linarith) hm0]; ring
    have nx := (Near.exact_nonneg (B := 255) hx0 (by linarith) (by norm_num)).div_const M (B' := 1) c255 (by norm_num) le_rfl
    have nnum := ((one.sub M nx).sub M nk).remag (B' := 1) (by
      rw [abs_le]; push_cast; constructor
      · have : x / 255 ≤ m / 255 := by gcongr
        linarith
      · have : 0 ≤ x / 255 := by positivity
        have : m / 255 ≤ 1 := by rw [div_le_one (by norm_num)]; exact hm255
        linarith) le_rfl
    have hy : (1 : ℝ) / 255 ≤ |1 - (1 - m / ((255 : ℕ) : ℝ))| := by
      push_cast
      rw [abs_of_nonneg (by have : 0 ≤ m / 255 := by positivity
                            linarith)]
      have : (1 : ℝ) / 255 ≤ m / 255 := by gcongr
      linarith
    have hq : |(1 - x / ((255 : ℕ) : ℝ) - (1 - m / ((255 : ℕ) : ℝ))) / (1 - (1 - m / ((255 : ℕ) : ℝ)))| ≤ 1 := by
      rw [e, abs_of_nonneg (div_nonneg (by linarith) (by linarith)), div_le_one (by linarith)]
      linarith
    have nc := nnum.div M nmk hy (by norm_num [FP.eps]) hq le_rfl
    exact nc.finish e (by norm_num [FP.eps])
  refine ⟨nk.finish (by push_cast; ring) (by norm_num [FP.eps]), chan r hr0 hrm, chan g hg0 hgm, chan b hb0 hbm⟩

/-- **CMYK forward, black**: exactly `(0, 0, 0, 1)` in every model. -/
theorem cmyk_black_fp (M : FPModel) :
    (Cymk.from_Rgb (α := RF M) ⟨0, 0, 0⟩).c.val = 0 ∧ (Cymk.from_Rgb (α := RF M) ⟨0, 0, 0⟩).m.val = 0 ∧
    (Cymk.from_Rgb (α := RF M) ⟨0, 0, 0⟩).y.val = 0 ∧ (Cymk.from_Rgb (α := RF M) ⟨0, 0, 0⟩).k.val = 1 := by
  simp [Cymk.from_Rgb, Rgb.as_f64, Rgb.get_min_max, Cymk.default, rnd_zero, rnd_one]

/-- **YCbCr forward**, rounded arithmetic: each byte is `as u8` of the cited sum perturbed by `|e| ≤ 1e-12`. -/
theorem ycbcr_forward_fp (M : FPModel) (c : Rgb) (hr : c.r ≤ 255) (hg : c.g ≤ 255) (hb : c.b ≤ 255) :
    (∃ e : ℝ, |e| ≤ 1e-12 ∧ (Ycbcr.from_Rgb (RF M) c).y = Real.toU8 (Spec.ycbcrY c.r c.g c.b + e)) ∧
    (∃ e : ℝ, |e| ≤ 1e-12 ∧ (Ycbcr.from_Rgb (RF M) c).cb = Real.toU8 (Spec.ycbcrCb c.r c.g c.b + e)) ∧
    (∃ e : ℝ, |e| ≤ 1e-12 ∧ (Ycbcr.from_Rgb (RF M) c).cr = Real.toU8 (Spec.ycbcrCr c.r c.g c.b + e)) := by
  simp only [Ycbcr.from_Rgb, Ycbcr.calculate_indices, Rgb.as_f64, FltRF.lit_val, FltRF.ofNat_val,
    FltRF.add_val, FltRF.sub_val, FltRF.mul_val, FltRF.neg_val, FltRF.toU8_eq, Spec.ycbcrY, Spec.ycbcrCb, Spec.ycbcrCr]
  rw [lit_int M 16 (by norm_num), lit_int M 128 (by norm_num)]
  have R : Near (c.r : ℝ) c.r 0 255 := Near.nat (by exact_mod_cast hr) (by norm_num)
  have G : Near (c.g : ℝ) c.g 0 255 := Near.nat (by exact_mod_cast hg) (by norm_num)
  have B : Near (c.b : ℝ) c.b 0 255 := Near.nat (by exact_mod_cast hb) (by norm_num)
  have n16 : Near (((16 : ℕ) : ℝ)) ((16 : ℕ) : ℝ) 0 16 := Near.nat (by norm_num) (by norm_num)
  have n128 : Near (((128 : ℕ) : ℝ)) ((128 : ℕ) : ℝ) 0 128 := Near.nat (by norm_num) (by norm_num)
  have l : ∀ n d : ℕ, (n : ℝ) / d ≤ 1 → Near (M.rnd ((n : ℝ) / d)) ((n : ℝ) / d) (FP.eps * 1) 1 :=
    fun n d h => Near.lit M n d h le_rfl
  have nY := ((n16.add M (R.mul M (l 257 1000 (by norm_num)))).add M (G.mul M (l 63 125 (by norm_num)))).add M
    (B.mul M (l 49 500 (by norm_num)))
  have nCb := n128.add M ((((R.mul M (l 37 250 (by norm_num))).neg).sub M (G.mul M (l 291 1000 (by norm_num)))).add M
    (B.mul M (l 439 1000 (by norm_num))))
  have nCr := n128.add M (((R.mul M (l 439 1000 (by norm_num))).sub M (G.mul M (l 46 125 (by norm_num)))).sub M
    (B.mul M (l 71 1000 (by norm_num))))
  refine ⟨nY.pert Real.toU8 ?_ ?_, nCb.pert Real.toU8 ?_ ?_, nCr.pert Real.toU8 ?_ ?_⟩
  · push_cast; ring
  · norm_num [FP.eps]
  · push_cast; ring
  · norm_num [FP.eps]
  · push_cast; ring
  · norm_num [FP.eps]

/-- **Grayscale, lightness**, rounded arithmetic: `as u8` of `(max + min)/2` perturbed by `|e| ≤ 1e-12`. -/
theorem gray_lightness_fp (M : FPModel) (c : Rgb) (hr : c.r ≤ 255) (hg : c.g ≤ 255) (hb : c.b ≤ 255) :
    ∃ e : ℝ, |e| ≤ 1e-12 ∧
      (GrayScale.from_rgb (RF M) c .Lightness)._0 = Real.toU8 (Spec.grayLightness c.r c.g c.b + e) := by
  have hm : max (c.b : ℝ) (max (c.r : ℝ) (c.g : ℝ)) = Spec.mx c.r c.g c.b := by
    unfold Spec.mx; rw [max_comm, max_assoc]
  have hn : min (c.b : ℝ) (min (c.r : ℝ) (c.g : ℝ)) = Spec.mn c.r c.g c.b := by
    unfold Spec.mn; rw [min_comm, min_assoc]
  simp only [GrayScale.from_rgb, Rgb.get_min_max, Rgb.as_f64, FltRF.lit_val, FltRF.ofNat_val,
    FltRF.add_val, FltRF.div_val, FltRF.toU8_eq, FltRF.max_val, FltRF.min_val, hm, hn, Spec.grayLightness]
  rw [lit_int M 2 (by norm_num)]
  have hr' : (c.r : ℝ) ≤ 255 := by exact_mod_cast hr
  have hg' : (c.g : ℝ) ≤ 255 := by exact_mod_cast hg
  have hb' : (c.b : ℝ) ≤ 255 := by exact_mod_cast hb
  have hr0 : (0 : ℝ) ≤ c.r := Nat.cast_nonneg _
  have hg0 : (0 : ℝ) ≤ c.g := Nat.cast_nonneg _
  have hb0 : (0 : ℝ) ≤ c.b := Nat.cast_nonneg _
  have nmx : Near (Spec.mx c.r c.g c.b) (Spec.mx c.r c.g c.b) 0 255 :=
    Near.exact_nonneg (le_trans hr0 (le_max_left _ _)) (max_le hr' (max_le hg' hb')) (by norm_num)
  have nmn : Near (Spec.mn c.r c.g c.b) (Spec.mn c.r c.g c.b) 0 255 :=
    Near.exact_nonneg (le_min hr0 (le_min hg0 hb0)) (le_trans (min_le_left _ _) hr') (by norm_num)
  have h := (nmn.add M nmx).div_const M (c := ((2 : ℕ) : ℝ)) (B' := 255) (by norm_num) (by norm_num) (by norm_num)
  exact h.pert Real.toU8 (by push_cast; ring) (by norm_num [FP.eps])

/-- **Grayscale, average**, rounded arithmetic: `as u8` of `(R + G + B)/3` perturbed by `|e| ≤ 1e-12`. -/
theorem gray_average_fp (M : FPModel) (c : Rgb) (hr : c.r ≤ 255) (hg : c.g ≤ 255) (hb : c.b ≤ 255) :
    ∃ e : ℝ, |e| ≤ 1e-12 ∧
      (GrayScale.from_rgb (RF M) c .Average)._0 = Real.toU8 (Spec.grayAverage c.r c.g c.b + e) := by
  simp only [GrayScale.from_rgb, Rgb.as_f64, FltRF.lit_val, FltRF.ofNat_val,
    FltRF.add_val, FltRF.div_val, FltRF.toU8_eq, Spec.grayAverage]
  rw [lit_int M 3 (by norm_num)]
  have R : Near (c.r : ℝ) c.r 0 255 := Near.nat (by exact_mod_cast hr) (by norm_num)
  have G : Near (c.g : ℝ) c.g 0 255 := Near.nat (by exact_mod_cast hg) (by norm_num)
  have B : Near (c.b : ℝ) c.b 0 255 := Near.nat (by exact_mod_cast hb) (by norm_num)
  have h := ((R.add M G).add M B).div_const M (c := ((3 : ℕ) : ℝ)) (B' := 255) (by norm_num) (by norm_num) (by norm_num)
  exact h.pert Real.toU8 (by push_cast; ring) (by norm_num [FP.eps])

/-- **Grayscale, luminosity**, rounded arithmetic: `as u8` of `0.21 R + 0.72 G + 0.07 B` perturbed by `|e| ≤ 1e-12`. -/
theorem gray_luminosity_fp (M : FPModel) (c : Rgb) (hr : c.r ≤ 255) (hg : c.g ≤ 255) (hb : c.b ≤ 255) :
    ∃ e : ℝ, |e| ≤ 1e-12 ∧
      (GrayScale.from_rgb (RF M) c .Luminosity)._0 = Real.toU8 (Spec.grayLuminosity c.r c.g c.b + e) := by
  simp only [GrayScale.from_rgb, Rgb.as_f64, FltRF.lit_val, FltRF.ofNat_val,
    FltRF.add_val, FltRF.mul_val, FltRF.toU8_eq, Spec.grayLuminosity]
  have R : Near (c.r : ℝ) c.r 0 255 := Near.nat (by exact_mod_cast hr) (by norm_num)
  have G : Near (c.g : ℝ) c.g 0 255 := Near.nat (by exact_mod_cast hg) (by norm_num)
  have B : Near (c.b : ℝ) c.b 0 255 := Near.nat (by exact_mod_cast hb) (by norm_num)
  have h := dot3 M (Near.lit M 21 100 (B := 1) (by norm_num) le_rfl) (Near.lit M 18 25 (B := 1) (by norm_num) le_rfl)
    (Near.lit M 7 100 (B := 1) (by norm_num) le_rfl) R G B
  exact h.pert Real.toU8 (by push_cast; ring) (by norm_num [FP.eps])

/-- **Grayscale, bt709**, rounded arithmetic: `as u8` of `0.2126 R + 0.7152 G + 0.0722 B` perturbed by `|e| ≤ 1e-12`. -/
theorem gray_bt709_fp (M : FPModel) (c : Rgb) (hr : c.r ≤ 255) (hg : c.g ≤ 255) (hb : c.b ≤ 255) :
    ∃ e : ℝ, |e| ≤ 1e-12 ∧
      (GrayScale.from_rgb (RF M) c .BT709)._0 = Real.toU8 (Spec.grayBT709 c.r c.g c.b + e) := by
  simp only [GrayScale.from_rgb, Rgb.as_f64, FltRF.lit_val, FltRF.ofNat_val,
    FltRF.add_val, FltRF.mul_val, FltRF.toU8_eq, Spec.grayBT709]
  have R : Near (c.r : ℝ) c.r 0 255 := Near.nat (by exact_mod_cast hr) (by norm_num)
  have G : Near (c.g : ℝ) c.g 0 255 := Near.nat (by exact_mod_cast hg) (by norm_num)
  have B : Near (c.b : ℝ) c.b 0 255 := Near.nat (by exact_mod_cast hb) (by norm_num)
  have h := dot3 M (Near.lit M 1063 5000 (B := 1) (by norm_num) le_rfl) (Near.lit M 447 625 (B := 1) (by norm_num) le_rfl)
    (Near.lit M 361 5000 (B := 1) (by norm_num) le_rfl) R G B
  exact h.pert Real.toU8 (by push_cast; ring) (by norm_num [FP.eps])

/-- **Grayscale, bt2100**, rounded arithmetic: `as u8` of `0.2627 R + 0.6780 G + 0.0593 B` perturbed by `|e| ≤ 1e-12`. -/
theorem gray_bt2100_fp (M : FPModel) (c : Rgb) (hr : c.r ≤ 255) (hg : c.g ≤ 255) (hb : c.b ≤ 255) :
    ∃ e : ℝ, |e| ≤ 1e-12 ∧
      (GrayScale.from_rgb (RF M) c .BT2100)._0 = Real.toU8 (Spec.grayBT2100 c.r c.g c.b + e) := by
  simp only [GrayScale.from_rgb, Rgb.as_f64, FltRF.lit_val, FltRF.ofNat_val,
    FltRF.add_val, FltRF.mul_val, FltRF.toU8_eq, Spec.grayBT2100]
  have R : Near (c.r : ℝ) c.r 0 255 := Near.nat (by exact_mod_cast hr) (by norm_num)
  have G : Near (c.g : ℝ) c.g 0 255 := Near.nat (by exact_mod_cast hg) (by norm_num)
  have B : Near (c.b : ℝ) c.b 0 255 := Near.nat (by exact_mod_cast hb) (by norm_num)
  have h := dot3 M (Near.lit M 2627 10000 (B := 1) (by norm_num) le_rfl) (Near.lit M 339 500 (B := 1) (by norm_num) le_rfl)
    (Near.lit M 593 10000 (B := 1) (by norm_num) le_rfl) R G B
  exact h.pert Real.toU8 (by push_cast; ring) (by norm_num [FP.eps])

/-! ## Reverse conversions (in-range inputs) -/

/-- **YUV -> RGB**, rounded arithmetic, components of magnitude at most 1: each byte is `as u8` of the
cited inverse (scaled by 255) perturbed by `|e| ≤ 1e-12`. -/
theorem yuv_reverse_fp (M : FPModel) (p : Yuv (RF M))
    (hy : |p.y.val| ≤ 1) (hu : |p.u.val| ≤ 1) (hv : |p.v.val| ≤ 1) :
    (∃ e : ℝ, |e| ≤ 1e-12 ∧ (Rgb.from_Yuv p).r = Real.toU8 (Spec.yuvR p.y.val p.u.val p.v.val + e)) ∧
    (∃ e : ℝ, |e| ≤ 1e-12 ∧ (Rgb.from_Yuv p).g = Real.toU8 (Spec.yuvG p.y.val p.u.val p.v.val + e)) ∧
    (∃ e : ℝ, |e| ≤ 1e-12 ∧ (Rgb.from_Yuv p).b = Real.toU8 (Spec.yuvB p.y.val p.u.val p.v.val + e)) := by
  simp only [Rgb.from_Yuv, FltRF.lit_val, FltRF.add_val, FltRF.sub_val, FltRF.mul_val, FltRF.toU8_eq,
    Spec.yuvR, Spec.yuvG, Spec.yuvB]
  rw [lit_int M 255 (by norm_num)]
  have Y : Near p.y.val p.y.val 0 1 := Near.exact hy le_rfl
  have U : Near p.u.val p.u.val 0 1 := Near.exact hu le_rfl
  have V : Near p.v.val p.v.val 0 1 := Near.exact hv le_rfl
  have n255 : Near (((255 : ℕ) : ℝ)) ((255 : ℕ) : ℝ) 0 255 := Near.nat (by norm_num) (by norm_num)
  have nR := (Y.add M ((Near.lit M 113983 100000 (B := 2) (by norm_num) (by norm_num)).mul M V)).mul M n255
  have nG := ((Y.sub M ((Near.lit M 7893 20000 (B := 1) (by norm_num) le_rfl).mul M U)).sub M
    ((Near.lit M 2903 5000 (B := 1) (by norm_num) le_rfl).mul M V)).mul M n255
  have nB := (Y.add M ((Near.lit M 203211 100000 (B := 3) (by norm_num) (by norm_num)).mul M U)).mul M n255
  refine ⟨nR.pert Real.toU8 ?_ ?_, nG.pert Real.toU8 ?_ ?_, nB.pert Real.toU8 ?_ ?_⟩
  · push_cast; ring
  · norm_num [FP.eps]
  · push_cast; ring
  · norm_num [FP.eps]
  · push_cast; ring
  · norm_num [FP.eps]

/-- **YCbCr -> RGB**, rounded arithmetic, 8-bit inputs: each byte is `as u8` of the cited inverse perturbed
by `|e| ≤ 1e-12`. -/
theorem ycbcr_reverse_fp (M : FPModel) (q : Ycbcr) (hy : q.y ≤ 255) (hcb : q.cb ≤ 255) (hcr : q.cr ≤ 255) :
    (∃ e : ℝ, |e| ≤ 1e-12 ∧ (Rgb.from_Ycbcr (RF M) q).r = Real.toU8 (Spec.ycbcrR q.y q.cb q.cr + e)) ∧
    (∃ e : ℝ, |e| ≤ 1e-12 ∧ (Rgb.from_Ycbcr (RF M) q).g = Real.toU8 (Spec.ycbcrG q.y q.cb q.cr + e)) ∧
    (∃ e : ℝ, |e| ≤ 1e-12 ∧ (Rgb.from_Ycbcr (RF M) q).b = Real.toU8 (Spec.ycbcrB q.y q.cb q.cr + e)) := by
  simp only [Rgb.from_Ycbcr, Ycbcr.as_f64, C.Y, FltRF.lit_val, FltRF.ofNat_val, FltRF.add_val, FltRF.sub_val,
    FltRF.mul_val, FltRF.toU8_eq, Spec.ycbcrR, Spec.ycbcrG, Spec.ycbcrB]
  rw [lit_int M 16 (by norm_num), lit_int M 128 (by norm_num)]
  have Y : Near (q.y : ℝ) q.y 0 255 := Near.nat (by exact_mod_cast hy) (by norm_num)
  have Cb : Near (q.cb : ℝ) q.cb 0 255 := Near.nat (by exact_mod_cast hcb) (by norm_num)
  have Cr : Near (q.cr : ℝ) q.cr 0 255 := Near.nat (by exact_mod_cast hcr) (by norm_num)
  have n16 : Near (((16 : ℕ) : ℝ)) ((16 : ℕ) : ℝ) 0 16 := Near.nat (by norm_num) (by norm_num)
  have n128 : Near (((128 : ℕ) : ℝ)) ((128 : ℕ) : ℝ) 0 128 := Near.nat (by norm_num) (by norm_num)
  have YY := (Near.lit M 291 250 (B := 2) (by norm_num) (by norm_num)).mul M (Y.sub M n16)
  have nR := YY.add M ((Near.lit M 399 250 (B := 2) (by norm_num) (by norm_num)).mul M (Cr.sub M n128))
  have nG := (YY.sub M ((Near.lit M 813 1000 (B := 1) (by norm_num) le_rfl).mul M (Cr.sub M n128))).sub M
    ((Near.lit M 391 1000 (B := 1) (by norm_num) le_rfl).mul M (Cb.sub M n128))
  have nB := YY.add M ((Near.lit M 1009 500 (B := 3) (by norm_num) (by norm_num)).mul M (Cb.sub M n128))
  refine ⟨nR.pert Real.toU8 ?_ ?_, nG.pert Real.toU8 ?_ ?_, nB.pert Real.toU8 ?_ ?_⟩
  · push_cast; ring
  · norm_num [FP.eps]
  · push_cast; ring
  · norm_num [FP.eps]
  · push_cast; ring
  · norm_num [FP.eps]

/-- **CMYK -> RGB**, rounded arithmetic, components in `[0,1]`: each byte is `round` then `as u8` of
`255 (1 - C)(1 - K)` perturbed by `|e| ≤ 1e-12`. -/
theorem cmyk_reverse_fp (M : FPModel) (p : Cymk (RF M))
    (hc : 0 ≤ p.c.val ∧ p.c.val ≤ 1) (hm : 0 ≤ p.m.val ∧ p.m.val ≤ 1) (hy : 0 ≤ p.y.val ∧ p.y.val ≤ 1)
    (hk : 0 ≤ p.k.val ∧ p.k.val ≤ 1) :
    (∃ e : ℝ, |e| ≤ 1e-12 ∧ (Rgb.from_Cymk p).r = Real.toU8 (Real.roundHA (Spec.cmykInv p.c.val p.k.val + e))) ∧
    (∃ e : ℝ, |e| ≤ 1e-12 ∧ (Rgb.from_Cymk p).g = Real.toU8 (Real.roundHA (Spec.cmykInv p.m.val p.k.val + e))) ∧
    (∃ e : ℝ, |e| ≤ 1e-12 ∧ (Rgb.from_Cymk p).b = Real.toU8 (Real.roundHA (Spec.cmykInv p.y.val p.k.val + e))) := by
  simp only [Rgb.from_Cymk, FltRF.lit_val, FltRF.sub_val, FltRF.mul_val, FltRF.toU8_eq, FltRF.round_val,
    Spec.cmykInv]
  rw [lit_int M 255 (by norm_num), lit_int M 1 (by norm_num)]
  have one : Near (((1 : ℕ) : ℝ)) ((1 : ℕ) : ℝ) 0 1 := Near.nat (by norm_num) le_rfl
  have n255 : Near (((255 : ℕ) : ℝ)) ((255 : ℕ) : ℝ) 0 255 := Near.nat (by norm_num) (by norm_num)
  have inv : ∀ x : ℝ, 0 ≤ x ∧ x ≤ 1 → Near (M.rnd (((1 : ℕ) : ℝ) - x)) (((1 : ℕ) : ℝ) - x) (0 + FP.eps * (1 + 0)) 1 := by
    intro x hx
    have h : Near (((1 : ℕ) : ℝ) - x) (((1 : ℕ) : ℝ) - x) 0 1 :=
      Near.exact (by push_cast; rw [abs_le]; constructor <;> linarith [hx.1, hx.2]) le_rfl
    exact h.rnd M
  have ch : ∀ x : ℝ, 0 ≤ x ∧ x ≤ 1 → ∃ e : ℝ, |e| ≤ 1e-12 ∧
      Real.toU8 (Real.roundHA (M.rnd (M.rnd (((255 : ℕ) : ℝ) * M.rnd (((1 : ℕ) : ℝ) - x)) * M.rnd (((1 : ℕ) : ℝ) - p.k.val)))) =
      Real.toU8 (Real.roundHA (255 * (1 - x) * (1 - p.k.val) + e)) := by
    intro x hx
    exact ((n255.mul M (inv x hx)).mul M (inv _ hk)).pert (fun t => Real.toU8 (Real.roundHA t))
      (by push_cast; ring) (by norm_num [FP.eps])
  exact ⟨ch _ hc, ch _ hm, ch _ hy⟩

/-! ## Instances: the exact arithmetic is a model, and a concrete colour -/

example : |(Yuv.from_Rgb (α := RF FPModel.exact) ⟨255, 55, 102⟩).u.val - Spec.yuvU 255 55 102| ≤ 1e-12 := by
  simpa using (yuv_forward_fp FPModel.exact ⟨255, 55, 102⟩ (by norm_num) (by norm_num) (by norm_num)).2.1

example (M : FPModel) : |(Cymk.from_Rgb (α := RF M) ⟨255, 55, 102⟩).m.val - 200 / 255| ≤ 1e-10 := by
  have h := (cmyk_forward_fp M ⟨255, 55, 102⟩ (by norm_num) (by norm_num) (by norm_num)
    (by norm_num [Spec.mx])).2.2.1
  have e : Spec.cmykM ((255 : ℕ) : ℝ) ((55 : ℕ) : ℝ) ((102 : ℕ) : ℝ) = 200 / 255 := by
    norm_num [Spec.cmykM, Spec.mx]
  rwa [e] at h

example (M : FPModel) : ∃ e : ℝ, |e| ≤ 1e-12 ∧
    (Ycbcr.from_Rgb (RF M) ⟨255, 255, 255⟩).y = Real.toU8 (235.045 + e) := by
  obtain ⟨e, he, h⟩ := (ycbcr_forward_fp M ⟨255, 255, 255⟩ (by norm_num) (by norm_num) (by norm_num)).1
  refine ⟨e, he, ?_⟩
  rw [h]; congr 1; norm_num [Spec.ycbcrY]

-- the hypotheses of the reverse theorems are satisfiable by non-trivial inputs
example (M : FPModel) : ∃ p : Yuv (RF M), |p.y.val| ≤ 1 ∧ |p.u.val| ≤ 1 ∧ |p.v.val| ≤ 1 ∧ p.u.val ≠ 0 :=
  ⟨⟨⟨1 / 2⟩, ⟨-1 / 4⟩, ⟨1 / 3⟩⟩, by norm_num [abs_le], by norm_num [abs_le], by norm_num [abs_le], by norm_num⟩
example (M : FPModel) : ∃ p : Cymk (RF M), (0 ≤ p.c.val ∧ p.c.val ≤ 1) ∧ (0 ≤ p.k.val ∧ p.k.val ≤ 1) ∧ p.c.val ≠ 0 :=
  ⟨⟨⟨1 / 2⟩, ⟨0⟩, ⟨1⟩, ⟨1 / 4⟩⟩, by norm_num, by norm_num, by norm_num⟩

end Props.C10
