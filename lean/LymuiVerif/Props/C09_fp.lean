import LymuiVerif.Lemmas.FpHexcone
/-!
# C09 in the rounded-arithmetic reading — hexcone models, forward direction `Rgb → Hue / HSL / HSV / HWB`

Every theorem is for an arbitrary `M : FPModel` (any rounding operator that satisfies the standard model of
floating-point arithmetic, in particular binary64) and is about the GENERATED definitions instantiated at the
carrier `RF M`: `F64.from_Rgb` (`impl From<Rgb> for Hue`), `Hsl.from_Rgb`, `Hsv.from_Rgb`, `Hwb.from_Rgb`.
The specification (`hexAngle`, `stdSHsl`, `stdL`, `stdSHsv`, `stdV`, `stdW`, `stdB`) is the one of `Props/C09.lean`.

What is exact in `RF M` and therefore decided as in ℝ: byte → float, `max`, `min`, `==`, `<`, the differences of
two bytes (`max - min`, `g - b`, …), hence the grey test, the choice of the maximal channel, the black guard
`max > 0` / `max == 0` and the white guard `max != 1 || min != 1`.  The one test that can be decided differently is
`l > 0.5` of `Hsl::compute_saturation` (the literal `0.5` and `l` are both rounded); it can only differ when
`min + max = 255`, where both branches have the same exact value.

Real-valued outputs: within the property's tolerance `1e-9` of the standard formulas (`…_forward_fp`); the bounds
actually proved are `1e-10` (HSL saturation), `1e-12` (lightness, whiteness, blackness), `1e-13` (HSV) —
`…_forward_sharp_fp`.

Hue: a whole number in `[0,360)`, equal to `round(angle + e) mod 360` for some `|e| ≤ 1e-12` (`hue_fp`).  At an exact
half-degree tie of the exact angle either neighbour may come out; everywhere else the result is THE exact-real hue
(`hue_exact_fp`; `hue_tiefree_fp`: "everywhere else" is literally "the exact angle is not a half-integer", because
the angle is a rational number with denominator `≤ 255`).
-/
namespace Props.C09
open Gen

/-! ## Hue -/

/-- **hue, code form, rounded model**: the code computes `round(v) % 360` for a value `v = angle + e` within
`1e-12` of the exact hexcone angle (compare `hue_eq`, where `e = 0`). -/
theorem hue_eq_fp (M : FPModel) (c : Rgb) (hr : c.r ≤ 255) (hg : c.g ≤ 255) (hb : c.b ≤ 255) :
    ∃ e : ℝ, |e| ≤ 1e-12 ∧
      (F64.from_Rgb (α := RF M) c).val = Flt.rem (Real.roundHA (hexAngle c + e)) (360 : ℝ) := by
  obtain ⟨v, hv, h⟩ := FpHexcone.hue_val M c hr hg hb
  exact ⟨v - hexAngle c, hv, by rw [h]; congr 2; ring⟩

/-- **hue_fp**: the hue of the rounded model is the hexcone angle, perturbed by at most `1e-9` (in fact `1e-12`,
`hue_sharp_fp`), rounded half away from zero to a whole number `k ≤ 360` of degrees and reduced modulo 360. -/
theorem hue_sharp_fp (M : FPModel) (c : Rgb) (hr : c.r ≤ 255) (hg : c.g ≤ 255) (hb : c.b ≤ 255) :
    ∃ e : ℝ, |e| ≤ 1e-12 ∧ ∃ k : ℕ, Real.roundHA (hexAngle c + e) = k ∧ k ≤ 360 ∧
      (F64.from_Rgb (α := RF M) c).val = ((k % 360 : ℕ) : ℝ) := by
  obtain ⟨e, he, h⟩ := hue_eq_fp M c hr hg hb
  obtain ⟨a0, a1⟩ := hexAngle_range c
  have he' := abs_le.mp he
  obtain ⟨k, hk, hk1, _⟩ := FpHexcone.roundHA_nat' (x := hexAngle c + e) (by linarith [he'.1])
  have hk360 : k ≤ 360 := by
    have : (k : ℝ) < 361 := by linarith [he'.2]
    have : k < 361 := by exact_mod_cast this
    omega
  exact ⟨e, he, k, hk, hk360, by rw [h, hk, QuantA2.rem360 hk360]⟩

theorem hue_fp (M : FPModel) (c : Rgb) (hr : c.r ≤ 255) (hg : c.g ≤ 255) (hb : c.b ≤ 255) :
    ∃ e : ℝ, |e| ≤ 1e-9 ∧ ∃ k : ℕ, Real.roundHA (hexAngle c + e) = k ∧ k ≤ 360 ∧
      (F64.from_Rgb (α := RF M) c).val = ((k % 360 : ℕ) : ℝ) := by
  obtain ⟨e, he, h⟩ := hue_sharp_fp M c hr hg hb
  exact ⟨e, le_trans he (by norm_num), h⟩

/-- **hue_range_fp**: the hue of the rounded model is a whole number in `[0, 360)` -/
theorem hue_range_fp (M : FPModel) (c : Rgb) (hr : c.r ≤ 255) (hg : c.g ≤ 255) (hb : c.b ≤ 255) :
    ∃ n : ℕ, n < 360 ∧ (F64.from_Rgb (α := RF M) c).val = (n : ℝ) := by
  obtain ⟨_, _, k, _, _, h⟩ := hue_sharp_fp M c hr hg hb
  exact ⟨k % 360, Nat.mod_lt _ (by norm_num), h⟩

/-- **hue_exact_fp**: when the exact angle is farther than `1e-9` from every half-integer, the hue of the rounded
model IS the hue of the exact-real model. -/
theorem hue_exact_fp (M : FPModel) (c : Rgb) (hr : c.r ≤ 255) (hg : c.g ≤ 255) (hb : c.b ≤ 255)
    (hfar : ∀ n : ℤ, 1e-9 < |hexAngle c - ((n : ℝ) + 1 / 2)|) :
    (F64.from_Rgb (α := RF M) c).val = F64.from_Rgb (α := ℝ) c := by
  obtain ⟨e, he, h⟩ := hue_eq_fp M c hr hg hb
  rw [h, hue_eq, FpHexcone.roundHA_stable (hexAngle_range c).1 hfar (le_trans he (by norm_num))]

/-- the exact angle is a fraction with a denominator `1 ≤ d ≤ 255` -/
theorem hexAngle_rational (c : Rgb) (hr : c.r ≤ 255) (hg : c.g ≤ 255) (hb : c.b ≤ 255) :
    ∃ (N : ℤ) (d : ℕ), 1 ≤ d ∧ d ≤ 255 ∧ hexAngle c = (N : ℝ) / (d : ℝ) := by
  obtain ⟨em, eM⟩ := cmin_cmax_nat c
  unfold hexAngle
  simp only []
  by_cases h0 : cmax c = cmin c
  · exact ⟨0, 1, le_refl _, by norm_num, by rw [if_pos h0]; simp⟩
  · rw [if_neg h0]
    rw [em, eM] at h0
    have hlt : min (min c.r c.g) c.b < max (max c.r c.g) c.b := by
      rcases Nat.lt_or_ge (min (min c.r c.g) c.b) (max (max c.r c.g) c.b) with h1 | h1
      · exact h1
      · exfalso; apply h0; congr 1; omega
    obtain ⟨d, hd⟩ : ∃ d : ℕ, max (max c.r c.g) c.b = min (min c.r c.g) c.b + d := ⟨_, (Nat.add_sub_cancel' hlt.le).symm⟩
    have hd1 : 1 ≤ d := by omega
    have hd255 : d ≤ 255 := by omega
    have ed : cmax c - cmin c = (d : ℝ) := by rw [em, eM, hd]; push_cast; ring
    have hdpos : (0 : ℝ) < d := by exact_mod_cast hd1
    rw [ed]
    split_ifs
    · exact ⟨60 * ((c.g : ℤ) - c.b) + 360 * d, d, hd1, hd255, by push_cast; field_simp⟩
    · exact ⟨60 * ((c.g : ℤ) - c.b), d, hd1, hd255, by push_cast; field_simp⟩
    · exact ⟨60 * (2 * d + ((c.b : ℤ) - c.r)), d, hd1, hd255, by push_cast; field_simp⟩
    · exact ⟨60 * (4 * d + ((c.r : ℤ) - c.g)), d, hd1, hd255, by push_cast; field_simp⟩

/-- **hue_tiefree_fp**: unless the exact angle is EXACTLY a half-integer (a tie of `round`), the hue of the rounded
model is the hue of the exact-real model — for every model of the arithmetic.  (The angle is `N/d` with `d ≤ 255`,
so a non-tie is at least `1/510` away from every half-integer.) -/
theorem hue_tiefree_fp (M : FPModel) (c : Rgb) (hr : c.r ≤ 255) (hg : c.g ≤ 255) (hb : c.b ≤ 255)
    (hnotie : ∀ n : ℤ, hexAngle c ≠ (n : ℝ) + 1 / 2) :
    (F64.from_Rgb (α := RF M) c).val = F64.from_Rgb (α := ℝ) c := by
  apply hue_exact_fp M c hr hg hb
  intro n
  obtain ⟨N, d, hd1, hd255, e⟩ := hexAngle_rational c hr hg hb
  have hn := hnotie n
  rw [e] at hn ⊢
  have hdpos : (0 : ℝ) < d := by exact_mod_cast hd1
  have hd255' : (d : ℝ) ≤ 255 := by exact_mod_cast hd255
  have e2 : (N : ℝ) / d - ((n : ℝ) + 1 / 2) = ((2 * N - (2 * n + 1) * d : ℤ) : ℝ) / (2 * d) := by
    push_cast; field_simp
  have hz : (2 * N - (2 * n + 1) * d : ℤ) ≠ 0 := by
    intro hz
    apply hn
    have : (N : ℝ) / d - ((n : ℝ) + 1 / 2) = 0 := by rw [e2, hz]; simp
    linarith
  have h1 : (1 : ℝ) ≤ |((2 * N - (2 * n + 1) * d : ℤ) : ℝ)| := by
    rw [← Int.cast_abs]
    exact_mod_cast Int.one_le_abs hz
  rw [e2, abs_div, abs_of_pos (by positivity : (0 : ℝ) < 2 * d)]
  calc (1e-9 : ℝ) < 1 / 510 := by norm_num
    _ ≤ 1 / (2 * d) := by apply one_div_le_one_div_of_le (by positivity); linarith
    _ ≤ _ := div_le_div_of_nonneg_right h1 (by positivity)

/-- **hue_tie_fp**: at an exact half-degree tie `angle = n + 1/2` the hue of the rounded model is one of the two
neighbours `n`, `n + 1` (modulo 360) — which one depends on the model (on how the quotient happens to be rounded). -/
theorem hue_tie_fp (M : FPModel) (c : Rgb) (hr : c.r ≤ 255) (hg : c.g ≤ 255) (hb : c.b ≤ 255)
    (n : ℕ) (htie : hexAngle c = (n : ℝ) + 1 / 2) :
    (F64.from_Rgb (α := RF M) c).val = ((n % 360 : ℕ) : ℝ) ∨
      (F64.from_Rgb (α := RF M) c).val = (((n + 1) % 360 : ℕ) : ℝ) := by
  obtain ⟨e, he, h⟩ := hue_eq_fp M c hr hg hb
  obtain ⟨_, a1⟩ := hexAngle_range c
  have hn : n + 1 ≤ 360 := by
    have : (n : ℝ) < 360 := by linarith
    have : n < 360 := by exact_mod_cast this
    omega
  have he' := abs_le.mp he
  rw [htie] at h
  rcases lt_or_ge e 0 with hneg | hpos
  · left
    have : Real.roundHA ((n : ℝ) + 1 / 2 + e) = n := by
      rw [show (n : ℝ) + 1 / 2 + e = (n : ℝ) + (1 / 2 + e) by ring]
      exact Quant.roundHA_natCast_add (by rw [abs_lt]; constructor <;> linarith [he'.1])
    rw [h, this, QuantA2.rem360 (by omega)]
  · right
    have : Real.roundHA ((n : ℝ) + 1 / 2 + e) = ((n + 1 : ℕ) : ℝ) := by
      rw [QuantA2.roundHA_nonneg (by positivity)]
      have : ⌊(n : ℝ) + 1 / 2 + e + 1 / 2⌋ = ((n + 1 : ℕ) : ℤ) := by
        rw [Int.floor_eq_iff]; push_cast; constructor <;> linarith [he'.2]
      rw [this]; push_cast; ring
    rw [h, this, QuantA2.rem360 hn]

/-! ## Forward conversions -/

/-- **hsl_forward, rounded model, proved bounds**: saturation within `1e-10`, lightness within `1e-12` of the
standard formulas; the hue field is the hue function. -/
theorem hsl_forward_sharp_fp (M : FPModel) (c : Rgb) (hr : c.r ≤ 255) (hg : c.g ≤ 255) (hb : c.b ≤ 255) :
    (Hsl.from_Rgb (α := RF M) c).h = F64.from_Rgb (α := RF M) c ∧
    |(Hsl.from_Rgb (α := RF M) c).s.val - stdSHsl c * 100| ≤ 1e-10 ∧
    |(Hsl.from_Rgb (α := RF M) c).l.val - stdL c * 100| ≤ 1e-12 := by
  obtain ⟨⟨_, _, hs⟩, ⟨_, _, hl⟩⟩ := FpHexcone.hsl_fields M c hr hg hb
  exact ⟨rfl, hs, hl⟩

/-- **hsl_forward_fp** (the property's tolerance `1e-9`) -/
theorem hsl_forward_fp (M : FPModel) (c : Rgb) (hr : c.r ≤ 255) (hg : c.g ≤ 255) (hb : c.b ≤ 255) :
    (Hsl.from_Rgb (α := RF M) c).h = F64.from_Rgb (α := RF M) c ∧
    |(Hsl.from_Rgb (α := RF M) c).s.val - stdSHsl c * 100| ≤ 1e-9 ∧
    |(Hsl.from_Rgb (α := RF M) c).l.val - stdL c * 100| ≤ 1e-9 := by
  obtain ⟨h, hs, hl⟩ := hsl_forward_sharp_fp M c hr hg hb
  exact ⟨h, le_trans hs (by norm_num), le_trans hl (by norm_num)⟩

/-- **hsv_forward, rounded model, proved bounds**: saturation and value within `1e-13` -/
theorem hsv_forward_sharp_fp (M : FPModel) (c : Rgb) (hr : c.r ≤ 255) (hg : c.g ≤ 255) (hb : c.b ≤ 255) :
    (Hsv.from_Rgb (α := RF M) c).h = F64.from_Rgb (α := RF M) c ∧
    |(Hsv.from_Rgb (α := RF M) c).s.val - stdSHsv c * 100| ≤ 1e-13 ∧
    |(Hsv.from_Rgb (α := RF M) c).v.val - stdV c * 100| ≤ 1e-13 := by
  obtain ⟨h, ⟨_, _, hs⟩, ⟨_, _, hv⟩⟩ := FpHexcone.hsv_fields M c hr hg hb
  exact ⟨h, hs, hv⟩

/-- **hsv_forward_fp** (the property's tolerance `1e-9`) -/
theorem hsv_forward_fp (M : FPModel) (c : Rgb) (hr : c.r ≤ 255) (hg : c.g ≤ 255) (hb : c.b ≤ 255) :
    (Hsv.from_Rgb (α := RF M) c).h = F64.from_Rgb (α := RF M) c ∧
    |(Hsv.from_Rgb (α := RF M) c).s.val - stdSHsv c * 100| ≤ 1e-9 ∧
    |(Hsv.from_Rgb (α := RF M) c).v.val - stdV c * 100| ≤ 1e-9 := by
  obtain ⟨h, hs, hv⟩ := hsv_forward_sharp_fp M c hr hg hb
  exact ⟨h, le_trans hs (by norm_num), le_trans hv (by norm_num)⟩

/-- **hwb_forward, rounded model, proved bounds**: whiteness and blackness within `1e-12` -/
theorem hwb_forward_sharp_fp (M : FPModel) (c : Rgb) (hr : c.r ≤ 255) (hg : c.g ≤ 255) (hb : c.b ≤ 255) :
    (Hwb.from_Rgb (α := RF M) c).h = F64.from_Rgb (α := RF M) c ∧
    |(Hwb.from_Rgb (α := RF M) c).w.val - stdW c * 100| ≤ 1e-12 ∧
    |(Hwb.from_Rgb (α := RF M) c).b.val - stdB c * 100| ≤ 1e-12 := by
  obtain ⟨h, ⟨_, _, hw⟩, ⟨_, _, hbk⟩⟩ := FpHexcone.hwb_fields M c hr hg hb
  exact ⟨h, hw, hbk⟩

/-- **hwb_forward_fp** (the property's tolerance `1e-9`) -/
theorem hwb_forward_fp (M : FPModel) (c : Rgb) (hr : c.r ≤ 255) (hg : c.g ≤ 255) (hb : c.b ≤ 255) :
    (Hwb.from_Rgb (α := RF M) c).h = F64.from_Rgb (α := RF M) c ∧
    |(Hwb.from_Rgb (α := RF M) c).w.val - stdW c * 100| ≤ 1e-9 ∧
    |(Hwb.from_Rgb (α := RF M) c).b.val - stdB c * 100| ≤ 1e-9 := by
  obtain ⟨h, hw, hbk⟩ := hwb_forward_sharp_fp M c hr hg hb
  exact ⟨h, le_trans hw (by norm_num), le_trans hbk (by norm_num)⟩

/-! ## Examples -/

-- the theorems at the exact model (the structure is inhabited; nothing is vacuous)
example : ∃ n : ℕ, n < 360 ∧ (F64.from_Rgb (α := RF FPModel.exact) ⟨5, 10, 95⟩).val = (n : ℝ) :=
  hue_range_fp FPModel.exact ⟨5, 10, 95⟩ (by norm_num) (by norm_num) (by norm_num)

-- rgb(5,10,95): saturation 90 %, lightness 50/255 (the crate's own test vector 237°, 90 %, 19.6 %), in EVERY model
example (M : FPModel) : |(Hsl.from_Rgb (α := RF M) ⟨5, 10, 95⟩).s.val - 90| ≤ 1e-9 := by
  have h := (hsl_forward_fp M ⟨5, 10, 95⟩ (by norm_num) (by norm_num) (by norm_num)).2.1
  have h1 : stdL ⟨5, 10, 95⟩ = 50 / 255 := by norm_num [stdL, cmax, cmin]
  have h2 : stdSHsl ⟨5, 10, 95⟩ = 9 / 10 := by
    rw [stdSHsl, h1]; norm_num [cmax, cmin, abs_of_nonpos]
  rw [h2] at h; norm_num at h ⊢; exact h

-- rgb(5,10,95): the exact angle 710/3 = 236.67 is no tie, so the hue is the exact-real hue in EVERY model
example (M : FPModel) : (F64.from_Rgb (α := RF M) ⟨5, 10, 95⟩).val = F64.from_Rgb (α := ℝ) ⟨5, 10, 95⟩ := by
  apply hue_tiefree_fp M _ (by norm_num) (by norm_num) (by norm_num)
  intro n
  have ha : hexAngle ⟨5, 10, 95⟩ = 710 / 3 := by norm_num [hexAngle, cmax, cmin]
  rw [ha]
  intro h
  have h' : ((1420 : ℤ) : ℝ) = ((6 * n + 3 : ℤ) : ℝ) := by push_cast; linarith
  have : (1420 : ℤ) = 6 * n + 3 := by exact_mod_cast h'
  omega

-- a tie: the exact angle of rgb(120,0,1) is 359.5: a half-integer, excluded by `hue_tiefree_fp`;
-- `hue_fp` leaves both 359 and 0 (= 360 mod 360) possible there
example : hexAngle ⟨120, 0, 1⟩ = 359 + 1 / 2 := by norm_num [hexAngle, cmax, cmin]

example (M : FPModel) : (F64.from_Rgb (α := RF M) ⟨120, 0, 1⟩).val = 359 ∨ (F64.from_Rgb (α := RF M) ⟨120, 0, 1⟩).val = 0 := by
  have := hue_tie_fp M ⟨120, 0, 1⟩ (by norm_num) (by norm_num) (by norm_num) 359
    (by norm_num [hexAngle, cmax, cmin])
  simpa using this

end Props.C09
