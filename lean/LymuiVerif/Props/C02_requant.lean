import LymuiVerif.Props.C01
import LymuiVerif.Lemmas.RoundtripF1a
import LymuiVerif.Lemmas.ArgbRequantF1a
/-!
# C02 (re-quantisation half, and the 8-bit round trips of the "curve" spaces and xyY)

Property text: "For every XYZ value x of an 8-bit colour c under the D65 profile, and every
XYZ-derived space S (...), converting x to S and back yields an XYZ within 5e-4 of x in every
component.  That XYZ re-quantises to exactly c; for Adobe RGB the same holds for x taken under the
Adobe profile."

This file proves, on the generated model at ℝ:

1. **`requant_stable`**: every XYZ within `1.7e-5` (sup norm) of `Xyz.from_rgb c D65` converts back
   (`Xyz.as_rgb · D65`) to exactly `c` (`requant_stable_max`: `2.74e-5`); `requant_stable_adobe`: the same for the Adobe profile with
   `3.1e-7`.  So for every space whose round trip is within `1.7e-5` the second sentence of C02 follows
   from the first.  (Limits of this kind of statement: `2.87e-5` for D65 — slope `12.92·255` of the
   encoder near black times the row norm `5.276` of the reverse matrix; `3.3e-7` for Adobe — a black
   channel sits at the infinite-slope point of `v ↦ v^(256/563)`.)
2. for S ∈ {sRGB, Rec.709, Rec.2020, xyY, Adobe RGB}: `<S>_roundtrip_8bit` (within 5e-4; in fact
   4.6e-7, 4.4e-7, 1.4e-6, 0 and 3e-4) and `<S>_requant_8bit` (re-quantises to `c`), for ALL 8-bit
   colours, black and the threshold slivers of the curves included.  Adobe RGB also under the Adobe
   profile (`argb_*_8bit_adobe`).

Adobe RGB needs a structural argument: the code's XYZ→Adobe rows (`argb::XR..`, 6 digits) and
Adobe→XYZ rows (`argb::RR..`, 7 digits) are not inverse to better than 2.3e-4, fifteen times more
than `requant_stable` tolerates; but the defect is a per-channel scaling in linear light, which a
power-law encoder turns into a shift of at most 0.03 level (`Lemmas.ArgbRequantF1a`).
Rec.2020: the code's decoder switches at 0.081 but its encoder at L = 0.0181, so linear values in
`[0.018, 0.0181)` (reached by 8-bit colours, e.g. the BT.2020 blue component of (0,125,0)) are NOT
restored exactly; the error is `≈ 6e-7` (`Lemmas.Rec2020F1a`), harmless here.

Discrete results are also given in robust form (`*_pre_8bit`: every pre-quantisation value is
within 0.3 — Adobe profile 0.49 — of the level, so a perturbation of 0.01 cannot change the result).
-/
namespace Props.C02_requant
open Gen Lemmas.Matrix Lemmas.XyzDispatch

/-- sup-norm closeness of two XYZ triples (specification vocabulary) -/
def Within (ε : ℝ) (a b : Xyz ℝ) : Prop :=
  |a.x - b.x| ≤ ε ∧ |a.y - b.y| ≤ ε ∧ |a.z - b.z| ≤ ε

theorem within_iff_near (ε : ℝ) (a b : Xyz ℝ) : Within ε a b ↔ Lemmas.RequantF1a.Near ε a b := Iff.rfl

theorem Within.mono {ε ε' : ℝ} {a b : Xyz ℝ} (h : Within ε a b) (hε : ε ≤ ε') : Within ε' a b :=
  Lemmas.RequantF1a.Near.mono h hε

/-- "c is an 8-bit colour" -/
def Is8bit (c : Rgb) : Prop := c.r ≤ 255 ∧ c.g ≤ 255 ∧ c.b ≤ 255

/-- the pre-quantisation values of `as_rgb x k` are all within `η` of the levels of `c` -/
def PreWithin (η : ℝ) (k : XyzKind) (x : Xyz ℝ) (c : Rgb) : Prop :=
  |(pre k x).1 - c.r| ≤ η ∧ |(pre k x).2.1 - c.g| ≤ η ∧ |(pre k x).2.2 - c.b| ≤ η

/-- `PreWithin η` with `η < 1/2` determines `as_rgb` (the quantiser is `round` then `as u8`) -/
theorem as_rgb_of_preWithin {η : ℝ} (hη : η < 1 / 2) (k : XyzKind) (x : Xyz ℝ) (c : Rgb) (hc : Is8bit c)
    (h : PreWithin η k x c) : Xyz.as_rgb x k = c :=
  Lemmas.RequantF1a.as_rgb_of_pre k x c hc.1 hc.2.1 hc.2.2 fun i => by
    fin_cases i
    · exact lt_of_le_of_lt h.1 hη
    · exact lt_of_le_of_lt h.2.1 hη
    · exact lt_of_le_of_lt h.2.2 hη

/-! ## 1. re-quantisation is stable -/

/-- **requant_stable** (D65): an XYZ within `1.7e-5` of the XYZ of an 8-bit colour converts back to it -/
theorem requant_stable (c : Rgb) (hc : Is8bit c) (x' : Xyz ℝ)
    (hx : Within 1.7e-5 x' (Xyz.from_rgb c XyzKind.D65)) : Xyz.as_rgb x' XyzKind.D65 = c :=
  Lemmas.RequantF1a.requant_stable c hc.1 hc.2.1 hc.2.2 x' hx.1 hx.2.1 hx.2.2

/-- robust form: the pre-quantisation values are within 0.3 of the levels -/
theorem requant_stable_pre (c : Rgb) (hc : Is8bit c) (x' : Xyz ℝ)
    (hx : Within 1.7e-5 x' (Xyz.from_rgb c XyzKind.D65)) : PreWithin 0.3 .D65 x' c :=
  ⟨Lemmas.RequantF1a.requant_pre_close c hc.1 hc.2.1 hc.2.2 x' hx 0,
   Lemmas.RequantF1a.requant_pre_close c hc.1 hc.2.1 hc.2.2 x' hx 1,
   Lemmas.RequantF1a.requant_pre_close c hc.1 hc.2.1 hc.2.2 x' hx 2⟩

/-- near-maximal tolerance `2.74e-5` (the statement is false in general beyond `≈ 2.876e-5`); the
pre-quantisation margin shrinks to 0.495 -/
theorem requant_stable_max (c : Rgb) (hc : Is8bit c) (x' : Xyz ℝ)
    (hx : Within 2.74e-5 x' (Xyz.from_rgb c XyzKind.D65)) : Xyz.as_rgb x' XyzKind.D65 = c :=
  Lemmas.RequantF1a.requant_stable_max c hc.1 hc.2.1 hc.2.2 x' hx

/-- the tolerance cannot exceed `≈ 2.876e-5`: an XYZ within `2.88e-5` of the XYZ of black that converts
to red level 1 -/
theorem requant_tolerance_sharp :
    ∃ x' : Xyz ℝ, Within 2.88e-5 x' (Xyz.from_rgb ⟨0, 0, 0⟩ XyzKind.D65) ∧
      (Xyz.as_rgb x' XyzKind.D65).r = 1 :=
  Lemmas.RoundtripF1a.requant_tolerance_sharp

/-- D50 profile, same tolerance -/
theorem requant_stable_d50 (c : Rgb) (hc : Is8bit c) (x' : Xyz ℝ)
    (hx : Within 1.7e-5 x' (Xyz.from_rgb c XyzKind.D50)) : Xyz.as_rgb x' XyzKind.D50 = c :=
  Lemmas.RequantF1a.requant_stable_d50 c hc.1 hc.2.1 hc.2.2 x' hx

/-- **requant_stable_adobe**: Adobe profile on both sides, tolerance `3.1e-7` -/
theorem requant_stable_adobe (c : Rgb) (hc : Is8bit c) (x' : Xyz ℝ)
    (hx : Within 3.1e-7 x' (Xyz.from_rgb c XyzKind.Adobe)) : Xyz.as_rgb x' XyzKind.Adobe = c :=
  Lemmas.RequantF1a.requant_stable_adobe c hc.1 hc.2.1 hc.2.2 x' hx.1 hx.2.1 hx.2.2

theorem requant_stable_adobe_pre (c : Rgb) (hc : Is8bit c) (x' : Xyz ℝ)
    (hx : Within 3.1e-7 x' (Xyz.from_rgb c XyzKind.Adobe)) : PreWithin 0.49 .Adobe x' c :=
  ⟨Lemmas.RequantF1a.requant_pre_close_adobe c hc.1 hc.2.1 hc.2.2 x' hx 0,
   Lemmas.RequantF1a.requant_pre_close_adobe c hc.1 hc.2.1 hc.2.2 x' hx 1,
   Lemmas.RequantF1a.requant_pre_close_adobe c hc.1 hc.2.1 hc.2.2 x' hx 2⟩

/-! ## 2. sRGB -/

/-- sRGB round trip of the XYZ of an 8-bit colour: within `4.6e-7` -/
theorem srgb_roundtrip_8bit_tight (c : Rgb) (hc : Is8bit c) :
    Within 4.6e-7 (Xyz.from_Srgb (Srgb.from_Xyz (Xyz.from_rgb c XyzKind.D65))) (Xyz.from_rgb c XyzKind.D65) :=
  Lemmas.RoundtripF1a.near_of_norm1 (by norm_num)
    (Lemmas.RoundtripF1a.norm1_from_rgb_d65 c hc.1 hc.2.1 hc.2.2) (by norm_num)
    (Props.C02_curves.srgb_roundtrip_all _)

/-- **C02, sRGB, first sentence** -/
theorem srgb_roundtrip_8bit (c : Rgb) (hc : Is8bit c) :
    Within 5e-4 (Xyz.from_Srgb (Srgb.from_Xyz (Xyz.from_rgb c XyzKind.D65))) (Xyz.from_rgb c XyzKind.D65) :=
  (srgb_roundtrip_8bit_tight c hc).mono (by norm_num)

/-- **C02, sRGB, second sentence** -/
theorem srgb_requant_8bit (c : Rgb) (hc : Is8bit c) :
    Xyz.as_rgb (Xyz.from_Srgb (Srgb.from_Xyz (Xyz.from_rgb (α := ℝ) c XyzKind.D65))) XyzKind.D65 = c :=
  requant_stable c hc _ ((srgb_roundtrip_8bit_tight c hc).mono (by norm_num))

theorem srgb_pre_8bit (c : Rgb) (hc : Is8bit c) :
    PreWithin 0.3 .D65 (Xyz.from_Srgb (Srgb.from_Xyz (Xyz.from_rgb c XyzKind.D65))) c :=
  requant_stable_pre c hc _ ((srgb_roundtrip_8bit_tight c hc).mono (by norm_num))

/-! ## Rec.709 -/

theorem rec709_roundtrip_8bit_tight (c : Rgb) (hc : Is8bit c) :
    Within 4.4e-7 (Xyz.from_Rec709 (Rec709.from_Xyz (Xyz.from_rgb c XyzKind.D65))) (Xyz.from_rgb c XyzKind.D65) := by
  have h := Props.C02_curves.rec709_roundtrip (Xyz.from_rgb c XyzKind.D65)
  exact Lemmas.RoundtripF1a.near_of_norm1 (a := 1.43e-7) (b := 0) (by norm_num)
    (Lemmas.RoundtripF1a.norm1_from_rgb_d65 c hc.1 hc.2.1 hc.2.2) (by norm_num)
    ⟨by linarith [h.1], by linarith [h.2.1], by linarith [h.2.2]⟩

/-- **C02, Rec.709, first sentence** -/
theorem rec709_roundtrip_8bit (c : Rgb) (hc : Is8bit c) :
    Within 5e-4 (Xyz.from_Rec709 (Rec709.from_Xyz (Xyz.from_rgb c XyzKind.D65))) (Xyz.from_rgb c XyzKind.D65) :=
  (rec709_roundtrip_8bit_tight c hc).mono (by norm_num)

/-- **C02, Rec.709, second sentence** -/
theorem rec709_requant_8bit (c : Rgb) (hc : Is8bit c) :
    Xyz.as_rgb (Xyz.from_Rec709 (Rec709.from_Xyz (Xyz.from_rgb (α := ℝ) c XyzKind.D65))) XyzKind.D65 = c :=
  requant_stable c hc _ ((rec709_roundtrip_8bit_tight c hc).mono (by norm_num))

theorem rec709_pre_8bit (c : Rgb) (hc : Is8bit c) :
    PreWithin 0.3 .D65 (Xyz.from_Rec709 (Rec709.from_Xyz (Xyz.from_rgb c XyzKind.D65))) c :=
  requant_stable_pre c hc _ ((rec709_roundtrip_8bit_tight c hc).mono (by norm_num))

/-! ## Rec.2020 (sliver `[0.018, 0.0181)` included) -/

theorem rec2020_roundtrip_8bit_tight (c : Rgb) (hc : Is8bit c) :
    Within 1.4e-6 (Xyz.from_Rec2020 (Rec2020.from_Xyz (Xyz.from_rgb c XyzKind.D65))) (Xyz.from_rgb c XyzKind.D65) :=
  Lemmas.RoundtripF1a.near_of_norm1 (by norm_num)
    (Lemmas.RoundtripF1a.norm1_from_rgb_d65 c hc.1 hc.2.1 hc.2.2) (by norm_num)
    (Lemmas.RoundtripF1a.rec2020_roundtrip_tight _)

/-- **C02, Rec.2020, first sentence** -/
theorem rec2020_roundtrip_8bit (c : Rgb) (hc : Is8bit c) :
    Within 5e-4 (Xyz.from_Rec2020 (Rec2020.from_Xyz (Xyz.from_rgb c XyzKind.D65))) (Xyz.from_rgb c XyzKind.D65) :=
  (rec2020_roundtrip_8bit_tight c hc).mono (by norm_num)

/-- **C02, Rec.2020, second sentence** -/
theorem rec2020_requant_8bit (c : Rgb) (hc : Is8bit c) :
    Xyz.as_rgb (Xyz.from_Rec2020 (Rec2020.from_Xyz (Xyz.from_rgb (α := ℝ) c XyzKind.D65))) XyzKind.D65 = c :=
  requant_stable c hc _ ((rec2020_roundtrip_8bit_tight c hc).mono (by norm_num))

theorem rec2020_pre_8bit (c : Rgb) (hc : Is8bit c) :
    PreWithin 0.3 .D65 (Xyz.from_Rec2020 (Rec2020.from_Xyz (Xyz.from_rgb c XyzKind.D65))) c :=
  requant_stable_pre c hc _ ((rec2020_roundtrip_8bit_tight c hc).mono (by norm_num))

/-- the sliver is reached by 8-bit colours, and there the Rec.2020 curve pair of the code is NOT an
exact inverse pair (decoded value strictly larger): colour (0,125,0), BT.2020 blue component -/
theorem rec2020_sliver_inhabited :
    let x : Xyz ℝ := Xyz.from_rgb ⟨0, 125, 0⟩ XyzKind.D65
    let L : ℝ := Props.C08.dot C.XB x.x x.y x.z
    (0.018 ≤ L ∧ L < 0.0181) ∧
    L < F64.compute_rec2020_gamma_expanded (F64.compute_rec2020_gamma_correction L) :=
  Lemmas.RoundtripF1a.rec2020_sliver_inhabited

/-! ## xyY (exact, black included) -/

/-- the xyY round trip is the identity on the XYZ of every 8-bit colour.  Black: the forward conversion
gives the white-point chromaticity with `Y = 0`; the reverse tests the chromaticity `y == 0` (false:
0.32902) and computes `X = x·0/y = 0`, `Z = 0`. -/
theorem xyy_roundtrip_8bit_exact (c : Rgb) :
    Xyz.from_Xyy (Xyy.from_Xyz (Xyz.from_rgb (α := ℝ) c XyzKind.D65)) = Xyz.from_rgb c XyzKind.D65 :=
  Lemmas.RoundtripF1a.xyy_roundtrip_of_rgb c

/-- **C02, xyY, first sentence** -/
theorem xyy_roundtrip_8bit (c : Rgb) (_hc : Is8bit c) :
    Within 5e-4 (Xyz.from_Xyy (Xyy.from_Xyz (Xyz.from_rgb c XyzKind.D65))) (Xyz.from_rgb c XyzKind.D65) := by
  rw [xyy_roundtrip_8bit_exact]
  exact Lemmas.RequantF1a.Near.refl (by norm_num) _

/-- **C02, xyY, second sentence** -/
theorem xyy_requant_8bit (c : Rgb) (hc : Is8bit c) :
    Xyz.as_rgb (Xyz.from_Xyy (Xyy.from_Xyz (Xyz.from_rgb (α := ℝ) c XyzKind.D65))) XyzKind.D65 = c := by
  rw [xyy_roundtrip_8bit_exact]
  exact Props.C01.roundtrip .D65 c hc.1 hc.2.1 hc.2.2

theorem xyy_pre_8bit (c : Rgb) (hc : Is8bit c) :
    PreWithin 0.3 .D65 (Xyz.from_Xyy (Xyy.from_Xyz (Xyz.from_rgb c XyzKind.D65))) c :=
  requant_stable_pre c hc _ (by
    rw [xyy_roundtrip_8bit_exact]; exact Lemmas.RequantF1a.Near.refl (by norm_num) _)

/-! ## Adobe RGB, x under D65 and x under the Adobe profile -/

/-- **C02, Adobe RGB, first sentence** (x under D65): within `3e-4` -/
theorem argb_roundtrip_8bit (c : Rgb) (hc : Is8bit c) :
    Within 5e-4 (Xyz.from_Argb (Argb.from_Xyz (Xyz.from_rgb c XyzKind.D65))) (Xyz.from_rgb c XyzKind.D65) :=
  Within.mono (Lemmas.ArgbRequantF1a.argb_requant_d65 c hc.1 hc.2.1 hc.2.2).2 (by norm_num)

theorem argb_pre_8bit (c : Rgb) (hc : Is8bit c) :
    PreWithin 0.3 .D65 (Xyz.from_Argb (Argb.from_Xyz (Xyz.from_rgb c XyzKind.D65))) c :=
  have h := (Lemmas.ArgbRequantF1a.argb_requant_d65 c hc.1 hc.2.1 hc.2.2).1
  ⟨h 0, h 1, h 2⟩

/-- **C02, Adobe RGB, second sentence** (x under D65, re-quantised with the D65 profile) -/
theorem argb_requant_8bit (c : Rgb) (hc : Is8bit c) :
    Xyz.as_rgb (Xyz.from_Argb (Argb.from_Xyz (Xyz.from_rgb (α := ℝ) c XyzKind.D65))) XyzKind.D65 = c :=
  as_rgb_of_preWithin (by norm_num) _ _ c hc (argb_pre_8bit c hc)

/-- **C02, Adobe RGB, last sentence, closeness** (x under the Adobe profile): within `3e-4` -/
theorem argb_roundtrip_8bit_adobe (c : Rgb) (hc : Is8bit c) :
    Within 5e-4 (Xyz.from_Argb (Argb.from_Xyz (Xyz.from_rgb c XyzKind.Adobe))) (Xyz.from_rgb c XyzKind.Adobe) :=
  Within.mono (Lemmas.ArgbRequantF1a.argb_requant_adobe c hc.1 hc.2.1 hc.2.2).2 (by norm_num)

theorem argb_pre_8bit_adobe (c : Rgb) (hc : Is8bit c) :
    PreWithin 0.49 .Adobe (Xyz.from_Argb (Argb.from_Xyz (Xyz.from_rgb c XyzKind.Adobe))) c :=
  have h := (Lemmas.ArgbRequantF1a.argb_requant_adobe c hc.1 hc.2.1 hc.2.2).1
  ⟨h 0, h 1, h 2⟩

/-- **C02, Adobe RGB, last sentence** (x under the Adobe profile, re-quantised with the Adobe profile) -/
theorem argb_requant_8bit_adobe (c : Rgb) (hc : Is8bit c) :
    Xyz.as_rgb (Xyz.from_Argb (Argb.from_Xyz (Xyz.from_rgb (α := ℝ) c XyzKind.Adobe))) XyzKind.Adobe = c :=
  as_rgb_of_preWithin (by norm_num) _ _ c hc (argb_pre_8bit_adobe c hc)

/-! ## the hypotheses are satisfiable; concrete instances -/

example : Is8bit ⟨50, 10, 95⟩ := by unfold Is8bit; norm_num
example : Is8bit ⟨0, 0, 0⟩ := by unfold Is8bit; norm_num
example : Is8bit ⟨0, 125, 0⟩ := by unfold Is8bit; norm_num

-- a non-trivial `x'` for `requant_stable`: the XYZ itself shifted by 1e-5 in every component
example : Xyz.as_rgb (⟨(Xyz.from_rgb (α := ℝ) ⟨50, 10, 95⟩ .D65).x + 1e-5,
    (Xyz.from_rgb (α := ℝ) ⟨50, 10, 95⟩ .D65).y - 1e-5, (Xyz.from_rgb (α := ℝ) ⟨50, 10, 95⟩ .D65).z + 1e-5⟩ : Xyz ℝ)
    XyzKind.D65 = ⟨50, 10, 95⟩ :=
  requant_stable ⟨50, 10, 95⟩ (by unfold Is8bit; norm_num) _ (by unfold Within; norm_num [abs_le])

example : Xyz.as_rgb (⟨(Xyz.from_rgb (α := ℝ) ⟨0, 1, 255⟩ .Adobe).x + 3e-7,
    (Xyz.from_rgb (α := ℝ) ⟨0, 1, 255⟩ .Adobe).y, (Xyz.from_rgb (α := ℝ) ⟨0, 1, 255⟩ .Adobe).z - 3e-7⟩ : Xyz ℝ)
    XyzKind.Adobe = ⟨0, 1, 255⟩ :=
  requant_stable_adobe ⟨0, 1, 255⟩ (by unfold Is8bit; norm_num) _ (by unfold Within; norm_num [abs_le])

example : Xyz.as_rgb (Xyz.from_Rec2020 (Rec2020.from_Xyz (Xyz.from_rgb (α := ℝ) ⟨0, 125, 0⟩ .D65))) .D65
    = ⟨0, 125, 0⟩ := rec2020_requant_8bit _ (by unfold Is8bit; norm_num)
example : Xyz.as_rgb (Xyz.from_Xyy (Xyy.from_Xyz (Xyz.from_rgb (α := ℝ) ⟨0, 0, 0⟩ .D65))) .D65
    = ⟨0, 0, 0⟩ := xyy_requant_8bit _ (by unfold Is8bit; norm_num)
example : Xyz.as_rgb (Xyz.from_Argb (Argb.from_Xyz (Xyz.from_rgb (α := ℝ) ⟨0, 255, 0⟩ .D65))) .D65
    = ⟨0, 255, 0⟩ := argb_requant_8bit _ (by unfold Is8bit; norm_num)
example : Xyz.as_rgb (Xyz.from_Argb (Argb.from_Xyz (Xyz.from_rgb (α := ℝ) ⟨0, 255, 255⟩ .Adobe))) .Adobe
    = ⟨0, 255, 255⟩ := argb_requant_8bit_adobe _ (by unfold Is8bit; norm_num)

end Props.C02_requant
