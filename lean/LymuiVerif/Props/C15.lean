import LymuiVerif.Core.Hex
import LymuiVerif.Lemmas.HexParse
/-!
# C15 — hexadecimal colour text: formatting and parsing

About `Gen.HexHand.Hex.from_Rgb` (`impl From<Rgb> for Hex`) and `Gen.HexHand.Rgb.try_from_Hex`
(`impl TryFrom<Hex> for Rgb`), the hand model of `hex.rs` (`LymuiVerif/Core/Hex.lean`).
Strings are lists of Unicode code points of ANY length and ANY content (multi-byte characters
included); `String::len` and `str::get(a..b)` are byte based as in Rust.  No real numbers, core Lean only.

The specification below is self-contained: it does not mention any definition of the model.
The main theorem is `parse_iff`: for EVERY string `s`,
`Rgb::try_from(Hex(s)) = Ok(c)  ↔  spelled s = some (c.r, c.g, c.b)`, and otherwise the result is `Err`.
-/
namespace Props.C15
open Gen

/-! ## Specification -/

/-- an ASCII hexadecimal digit, either case -/
def isHexDigit (c : Nat) : Prop := (48 ≤ c ∧ c ≤ 57) ∨ (65 ≤ c ∧ c ≤ 70) ∨ (97 ≤ c ∧ c ≤ 102)
instance : DecidablePred isHexDigit := fun c => by unfold isHexDigit; exact inferInstance

/-- a lower-case hexadecimal digit `0-9a-f` -/
def isLowerHexDigit (c : Nat) : Prop := (48 ≤ c ∧ c ≤ 57) ∨ (97 ≤ c ∧ c ≤ 102)
instance : DecidablePred isLowerHexDigit := fun c => by unfold isLowerHexDigit; exact inferInstance

/-- value of a hexadecimal digit: '0'..'9' ↦ 0..9, 'A'..'F' ↦ 10..15, 'a'..'f' ↦ 10..15 -/
def digitVal (c : Nat) : Nat := if c ≤ 57 then c - 48 else if c ≤ 70 then c - 55 else c - 87

/-- the lower-case digit of value `d < 16`: '0'+d, or 'a'+(d-10) -/
def lowerHexDigit (d : Nat) : Nat := if d < 10 then 48 + d else 97 + (d - 10)

/-- the text minus one optional leading '#' -/
def stripHash : Str → Str
  | 35 :: t => t
  | s => s

/-- the colour spelled by the first six characters, all hexadecimal digits, read two by two -/
def spelled6 : Str → Option (Nat × Nat × Nat)
  | d0 :: d1 :: d2 :: d3 :: d4 :: d5 :: _ =>
    if isHexDigit d0 ∧ isHexDigit d1 ∧ isHexDigit d2 ∧ isHexDigit d3 ∧ isHexDigit d4 ∧ isHexDigit d5 then
      some (16 * digitVal d0 + digitVal d1, 16 * digitVal d2 + digitVal d3, 16 * digitVal d4 + digitVal d5)
    else none
  | _ => none

/-- the colour spelled by the first three characters, all hexadecimal digits, each doubled
(`16·d + d = 17·d`) -/
def spelled3 : Str → Option (Nat × Nat × Nat)
  | d0 :: d1 :: d2 :: _ =>
    if isHexDigit d0 ∧ isHexDigit d1 ∧ isHexDigit d2 then
      some (17 * digitVal d0, 17 * digitVal d1, 17 * digitVal d2)
    else none
  | _ => none

/-- number of UTF-8 bytes of a code point -/
def utf8Bytes (c : Nat) : Nat := if c < 128 then 1 else if c < 2048 then 2 else if c < 65536 then 3 else 4

/-- `String::len`: length in UTF-8 bytes -/
def byteLength : Str → Nat
  | [] => 0
  | c :: cs => utf8Bytes c + byteLength cs

/-- what a text spells: the short form (three doubled digits) when the whole text, '#' included, has
at most four bytes, else the long form (six digits); in both cases after one optional leading '#'.
Characters after the colour positions are not looked at. -/
def spelled (s : Str) : Option (Nat × Nat × Nat) :=
  if byteLength s ≤ 4 then spelled3 (stripHash s) else spelled6 (stripHash s)

/-! ## The model's vocabulary agrees with the specification
(the digit recogniser/value, `strip`, `String::len` of the model are the specification's) -/

theorem model_digit (c : Nat) :
    HexHand.hexDigitVal c = if isHexDigit c then some (digitVal c) else none := by
  unfold HexHand.hexDigitVal isHexDigit digitVal
  by_cases h1 : 48 ≤ c ∧ c ≤ 57
  · simp [h1]
  · by_cases h2 : 97 ≤ c ∧ c ≤ 102
    · have a1 : ¬ c ≤ 57 := by omega
      have a2 : ¬ c ≤ 70 := by omega
      simp [h2, a1, a2]
    · by_cases h3 : 65 ≤ c ∧ c ≤ 70
      · have a1 : ¬ c ≤ 57 := by omega
        simp [h2, h3, a1]
      · simp [h1, h2, h3]

theorem model_strip (s : Str) : HexHand.Hex.strip s = stripHash s := by
  match s with
  | [] => rfl
  | x :: l =>
    by_cases hx : x = 35
    · subst hx; rfl
    · rw [Lemmas.Hex.strip_cons_ne _ hx]
      unfold stripHash
      split
      · rename_i heq; cases heq; exact absurd rfl hx
      · rfl

theorem model_byteLen (s : Str) : Str.byteLen s = byteLength s := by
  induction s with
  | nil => rfl
  | cons c cs ih => simp only [Str.byteLen, byteLength, ih]; rfl

theorem model_read6 (t : Str) : Lemmas.Hex.read6 HexHand.hexDigitVal t = spelled6 t := by
  match t with
  | [] => rfl
  | [_] => rfl
  | [a, b] => cases h : HexHand.hexDigitVal a <;> cases h' : HexHand.hexDigitVal b <;>
      simp [Lemmas.Hex.read6, Lemmas.Hex.take2, Lemmas.Hex.pair, spelled6, h, h']
  | [a, b, _] => cases h : HexHand.hexDigitVal a <;> cases h' : HexHand.hexDigitVal b <;>
      simp [Lemmas.Hex.read6, Lemmas.Hex.take2, Lemmas.Hex.pair, spelled6, h, h']
  | [a, b, c, d] => cases h : HexHand.hexDigitVal a <;> cases h' : HexHand.hexDigitVal b <;>
      cases h2 : HexHand.hexDigitVal c <;> cases h3 : HexHand.hexDigitVal d <;>
      simp [Lemmas.Hex.read6, Lemmas.Hex.take2, Lemmas.Hex.pair, spelled6, h, h', h2, h3]
  | [a, b, c, d, _] => cases h : HexHand.hexDigitVal a <;> cases h' : HexHand.hexDigitVal b <;>
      cases h2 : HexHand.hexDigitVal c <;> cases h3 : HexHand.hexDigitVal d <;>
      simp [Lemmas.Hex.read6, Lemmas.Hex.take2, Lemmas.Hex.pair, spelled6, h, h', h2, h3]
  | d0 :: d1 :: d2 :: d3 :: d4 :: d5 :: _ =>
    simp only [Lemmas.Hex.read6, Lemmas.Hex.take2, Lemmas.Hex.pair, spelled6, model_digit]
    by_cases h0 : isHexDigit d0 <;> by_cases h1 : isHexDigit d1 <;> by_cases h2 : isHexDigit d2 <;>
      by_cases h3 : isHexDigit d3 <;> by_cases h4 : isHexDigit d4 <;> by_cases h5 : isHexDigit d5 <;>
      simp [h0, h1, h2, h3, h4, h5]

theorem model_read3 (t : Str) : Lemmas.Hex.read3 HexHand.hexDigitVal t = spelled3 t := by
  match t with
  | [] => rfl
  | [_] => rfl
  | [_, _] => rfl
  | d0 :: d1 :: d2 :: _ =>
    simp only [Lemmas.Hex.read3, spelled3, model_digit]
    by_cases h0 : isHexDigit d0 <;> by_cases h1 : isHexDigit d1 <;> by_cases h2 : isHexDigit d2 <;>
      simp [h0, h1, h2]

/-! ## Parsing: the characterisation on ALL strings -/

/-- **Totality** (the hex part of C04): on every string the parser returns `Ok` or `Err`, and which of
the two is decided by `spelled`. -/
theorem parse_spec (s : Str) :
    (∃ r g b, HexHand.Rgb.try_from_Hex ⟨s⟩ = .ok ⟨r, g, b⟩ ∧ spelled s = some (r, g, b)) ∨
    (∃ e, HexHand.Rgb.try_from_Hex ⟨s⟩ = .error e ∧ spelled s = none) := by
  have h := Lemmas.Hex.try_from_Hex_eq s
  simp only [model_read6, model_read3, model_strip, model_byteLen] at h
  exact h

/-- **parse_faithful + parse_complete**: parsing succeeds with colour `c` exactly when the text
spells `c` (any string: any code points, any length). -/
theorem parse_iff (s : Str) (c : Rgb) :
    HexHand.Rgb.try_from_Hex ⟨s⟩ = .ok c ↔ spelled s = some (c.r, c.g, c.b) := by
  rcases parse_spec s with ⟨r, g, b, h1, h2⟩ | ⟨e, h1, h2⟩
  · rw [h1, h2]
    constructor
    · intro h; cases h; rfl
    · intro h; cases c; simp at h; obtain ⟨rfl, rfl, rfl⟩ := h; rfl
  · rw [h1, h2]
    constructor
    · intro h; cases h
    · intro h; cases h

/-- whenever parsing succeeds, the result is the colour spelled by the leading digits of the text
(doubled when the text is the short form) -/
theorem parse_faithful (s : Str) (c : Rgb) (h : HexHand.Rgb.try_from_Hex ⟨s⟩ = .ok c) :
    spelled s = some (c.r, c.g, c.b) := (parse_iff s c).1 h

/-- a text that spells a colour is accepted and yields that colour -/
theorem parse_complete (s : Str) (r g b : Nat) (h : spelled s = some (r, g, b)) :
    HexHand.Rgb.try_from_Hex ⟨s⟩ = .ok ⟨r, g, b⟩ := (parse_iff s ⟨r, g, b⟩).2 h

/-- a text that does not spell a colour is rejected with an error, never mapped to a colour -/
theorem parse_rejects (s : Str) (h : spelled s = none) : ∃ e, HexHand.Rgb.try_from_Hex ⟨s⟩ = .error e := by
  rcases parse_spec s with ⟨r, g, b, _, h2⟩ | ⟨e, h1, _⟩
  · rw [h] at h2; cases h2
  · exact ⟨e, h1⟩

/-- `Ok` or `Err` on every input (there is no other outcome in this model: no panic) -/
theorem parse_total (s : Str) :
    (∃ c, HexHand.Rgb.try_from_Hex ⟨s⟩ = .ok c) ∨ (∃ e, HexHand.Rgb.try_from_Hex ⟨s⟩ = .error e) := by
  rcases parse_spec s with ⟨r, g, b, h1, _⟩ | ⟨e, h1, _⟩
  · exact .inl ⟨_, h1⟩
  · exact .inr ⟨e, h1⟩

/-! ### explicit readings of `spelled` -/

/-- long form made explicit: more than four bytes and success force six leading hexadecimal digits
(after the optional '#') that spell the result -/
theorem parse_faithful_long (s : Str) (c : Rgb) (hlen : 4 < byteLength s)
    (h : HexHand.Rgb.try_from_Hex ⟨s⟩ = .ok c) :
    ∃ d0 d1 d2 d3 d4 d5 rest, stripHash s = d0 :: d1 :: d2 :: d3 :: d4 :: d5 :: rest ∧
      isHexDigit d0 ∧ isHexDigit d1 ∧ isHexDigit d2 ∧ isHexDigit d3 ∧ isHexDigit d4 ∧ isHexDigit d5 ∧
      c = ⟨16 * digitVal d0 + digitVal d1, 16 * digitVal d2 + digitVal d3, 16 * digitVal d4 + digitVal d5⟩ := by
  have h' := parse_faithful s c h
  have hn : ¬ byteLength s ≤ 4 := by omega
  simp only [spelled, if_neg hn] at h'
  match ht : stripHash s, h' with
  | d0 :: d1 :: d2 :: d3 :: d4 :: d5 :: rest, h' =>
    simp only [spelled6] at h'
    split at h'
    · rename_i hd
      obtain ⟨a0, a1, a2, a3, a4, a5⟩ := hd
      cases c; simp at h'; obtain ⟨rfl, rfl, rfl⟩ := h'
      exact ⟨d0, d1, d2, d3, d4, d5, rest, rfl, a0, a1, a2, a3, a4, a5, rfl⟩
    · cases h'

/-- short form made explicit: at most four bytes and success force three leading hexadecimal digits
(after the optional '#'), and the result is each digit doubled -/
theorem parse_faithful_short (s : Str) (c : Rgb) (hlen : byteLength s ≤ 4)
    (h : HexHand.Rgb.try_from_Hex ⟨s⟩ = .ok c) :
    ∃ d0 d1 d2 rest, stripHash s = d0 :: d1 :: d2 :: rest ∧
      isHexDigit d0 ∧ isHexDigit d1 ∧ isHexDigit d2 ∧
      c = ⟨16 * digitVal d0 + digitVal d0, 16 * digitVal d1 + digitVal d1, 16 * digitVal d2 + digitVal d2⟩ := by
  have h' := parse_faithful s c h
  simp only [spelled, if_pos hlen] at h'
  match ht : stripHash s, h' with
  | d0 :: d1 :: d2 :: rest, h' =>
    simp only [spelled3] at h'
    split at h'
    · rename_i hd
      obtain ⟨a0, a1, a2⟩ := hd
      cases c; simp at h'; obtain ⟨rfl, rfl, rfl⟩ := h'
      refine ⟨d0, d1, d2, rest, rfl, a0, a1, a2, ?_⟩
      congr 1 <;> omega
    · cases h'

/-- the result of a successful parse is an 8-bit colour -/
theorem parse_result_u8 (s : Str) (c : Rgb) (h : HexHand.Rgb.try_from_Hex ⟨s⟩ = .ok c) :
    c.r ≤ 255 ∧ c.g ≤ 255 ∧ c.b ≤ 255 := by
  have hv : ∀ d, isHexDigit d → digitVal d ≤ 15 := by
    intro d hd; unfold isHexDigit at hd; unfold digitVal; repeat' (first | omega | split)
  by_cases hlen : byteLength s ≤ 4
  · obtain ⟨d0, d1, d2, _, _, a0, a1, a2, rfl⟩ := parse_faithful_short s c hlen h
    have := hv _ a0; have := hv _ a1; have := hv _ a2
    simp only; omega
  · obtain ⟨d0, d1, d2, d3, d4, d5, _, _, a0, a1, a2, a3, a4, a5, rfl⟩ :=
      parse_faithful_long s c (by omega) h
    have := hv _ a0; have := hv _ a1; have := hv _ a2; have := hv _ a3; have := hv _ a4; have := hv _ a5
    simp only; omega

/-! ### acceptance: three or six digits, either case, with or without '#' -/

/-- six hexadecimal digits (either case), whatever follows them -/
theorem parse_accepts_six (d0 d1 d2 d3 d4 d5 : Nat) (rest : Str)
    (h0 : isHexDigit d0) (h1 : isHexDigit d1) (h2 : isHexDigit d2)
    (h3 : isHexDigit d3) (h4 : isHexDigit d4) (h5 : isHexDigit d5) :
    HexHand.Rgb.try_from_Hex ⟨d0 :: d1 :: d2 :: d3 :: d4 :: d5 :: rest⟩ =
      .ok ⟨16 * digitVal d0 + digitVal d1, 16 * digitVal d2 + digitVal d3, 16 * digitVal d4 + digitVal d5⟩ := by
  apply parse_complete
  have hb : ∀ c, 1 ≤ utf8Bytes c := by intro c; unfold utf8Bytes; repeat' (first | omega | split)
  have hlen : ¬ byteLength (d0 :: d1 :: d2 :: d3 :: d4 :: d5 :: rest) ≤ 4 := by
    simp only [byteLength]
    have := hb d0; have := hb d1; have := hb d2; have := hb d3; have := hb d4
    omega
  have hs : stripHash (d0 :: d1 :: d2 :: d3 :: d4 :: d5 :: rest) = d0 :: d1 :: d2 :: d3 :: d4 :: d5 :: rest := by
    have : d0 ≠ 35 := by unfold isHexDigit at h0; omega
    unfold stripHash; split
    · rename_i heq; cases heq; exact absurd rfl this
    · rfl
  simp [spelled, hlen, hs, spelled6, h0, h1, h2, h3, h4, h5]

/-- '#' followed by six hexadecimal digits -/
theorem parse_accepts_hash_six (d0 d1 d2 d3 d4 d5 : Nat) (rest : Str)
    (h0 : isHexDigit d0) (h1 : isHexDigit d1) (h2 : isHexDigit d2)
    (h3 : isHexDigit d3) (h4 : isHexDigit d4) (h5 : isHexDigit d5) :
    HexHand.Rgb.try_from_Hex ⟨35 :: d0 :: d1 :: d2 :: d3 :: d4 :: d5 :: rest⟩ =
      .ok ⟨16 * digitVal d0 + digitVal d1, 16 * digitVal d2 + digitVal d3, 16 * digitVal d4 + digitVal d5⟩ := by
  apply parse_complete
  have hb : ∀ c, 1 ≤ utf8Bytes c := by intro c; unfold utf8Bytes; repeat' (first | omega | split)
  have hlen : ¬ byteLength (35 :: d0 :: d1 :: d2 :: d3 :: d4 :: d5 :: rest) ≤ 4 := by
    simp only [byteLength]
    have := hb 35; have := hb d0; have := hb d1; have := hb d2; have := hb d3
    omega
  have hs : stripHash (35 :: d0 :: d1 :: d2 :: d3 :: d4 :: d5 :: rest) = d0 :: d1 :: d2 :: d3 :: d4 :: d5 :: rest := rfl
  simp [spelled, hlen, hs, spelled6, h0, h1, h2, h3, h4, h5]

/-- three hexadecimal digits: each digit doubled -/
theorem parse_accepts_three (d0 d1 d2 : Nat) (h0 : isHexDigit d0) (h1 : isHexDigit d1) (h2 : isHexDigit d2) :
    HexHand.Rgb.try_from_Hex ⟨[d0, d1, d2]⟩ = .ok ⟨17 * digitVal d0, 17 * digitVal d1, 17 * digitVal d2⟩ := by
  apply parse_complete
  have hb : ∀ c, isHexDigit c → utf8Bytes c = 1 := by
    intro c hc; unfold isHexDigit at hc; unfold utf8Bytes; rw [if_pos (by omega)]
  have hlen : byteLength [d0, d1, d2] ≤ 4 := by
    simp only [byteLength, hb _ h0, hb _ h1, hb _ h2]; omega
  have hs : stripHash [d0, d1, d2] = [d0, d1, d2] := by
    have : d0 ≠ 35 := by unfold isHexDigit at h0; omega
    unfold stripHash; split
    · rename_i heq; cases heq; exact absurd rfl this
    · rfl
  simp [spelled, hlen, hs, spelled3, h0, h1, h2]

/-- '#' followed by three hexadecimal digits -/
theorem parse_accepts_hash_three (d0 d1 d2 : Nat) (h0 : isHexDigit d0) (h1 : isHexDigit d1) (h2 : isHexDigit d2) :
    HexHand.Rgb.try_from_Hex ⟨[35, d0, d1, d2]⟩ = .ok ⟨17 * digitVal d0, 17 * digitVal d1, 17 * digitVal d2⟩ := by
  apply parse_complete
  have hb : ∀ c, isHexDigit c → utf8Bytes c = 1 := by
    intro c hc; unfold isHexDigit at hc; unfold utf8Bytes; rw [if_pos (by omega)]
  have hlen : byteLength [35, d0, d1, d2] ≤ 4 := by
    simp only [byteLength, hb _ h0, hb _ h1, hb _ h2]; decide
  have hs : stripHash [35, d0, d1, d2] = [d0, d1, d2] := rfl
  simp [spelled, hlen, hs, spelled3, h0, h1, h2]

/-! ### rejection -/

/-- a character that is not an ASCII hexadecimal digit — in particular every multi-byte character —
in one of the six colour positions of a text of more than four bytes: error -/
theorem parse_rejects_long (s : Str) (hlen : 4 < byteLength s) (i : Nat) (hi : i < 6) (ch : Nat)
    (hget : (stripHash s)[i]? = some ch) (hnd : ¬ isHexDigit ch) :
    ∃ e, HexHand.Rgb.try_from_Hex ⟨s⟩ = .error e := by
  apply parse_rejects
  have hn : ¬ byteLength s ≤ 4 := by omega
  simp only [spelled, if_neg hn]
  match stripHash s, hget with
  | [], _ => rfl
  | [_], _ => rfl
  | [_, _], _ => rfl
  | [_, _, _], _ => rfl
  | [_, _, _, _], _ => rfl
  | [_, _, _, _, _], _ => rfl
  | d0 :: d1 :: d2 :: d3 :: d4 :: d5 :: _, hget =>
    simp only [spelled6]
    rw [if_neg]
    rintro ⟨a0, a1, a2, a3, a4, a5⟩
    match i, hi, hget with
    | 0, _, hget => simp at hget; subst hget; exact hnd a0
    | 1, _, hget => simp at hget; subst hget; exact hnd a1
    | 2, _, hget => simp at hget; subst hget; exact hnd a2
    | 3, _, hget => simp at hget; subst hget; exact hnd a3
    | 4, _, hget => simp at hget; subst hget; exact hnd a4
    | 5, _, hget => simp at hget; subst hget; exact hnd a5

/-- the same for the three colour positions of a text of at most four bytes -/
theorem parse_rejects_short (s : Str) (hlen : byteLength s ≤ 4) (i : Nat) (hi : i < 3) (ch : Nat)
    (hget : (stripHash s)[i]? = some ch) (hnd : ¬ isHexDigit ch) :
    ∃ e, HexHand.Rgb.try_from_Hex ⟨s⟩ = .error e := by
  apply parse_rejects
  simp only [spelled, if_pos hlen]
  match stripHash s, hget with
  | [], _ => rfl
  | [_], _ => rfl
  | [_, _], _ => rfl
  | d0 :: d1 :: d2 :: _, hget =>
    simp only [spelled3]
    rw [if_neg]
    rintro ⟨a0, a1, a2⟩
    match i, hi, hget with
    | 0, _, hget => simp at hget; subst hget; exact hnd a0
    | 1, _, hget => simp at hget; subst hget; exact hnd a1
    | 2, _, hget => simp at hget; subst hget; exact hnd a2

/-- a colour position that does not exist: error (fewer than six characters after the optional '#'
in a text of more than four bytes; fewer than three in a text of at most four bytes) -/
theorem parse_rejects_missing (s : Str)
    (h : (4 < byteLength s ∧ (stripHash s).length < 6) ∨ (byteLength s ≤ 4 ∧ (stripHash s).length < 3)) :
    ∃ e, HexHand.Rgb.try_from_Hex ⟨s⟩ = .error e := by
  apply parse_rejects
  rcases h with ⟨h1, h2⟩ | ⟨h1, h2⟩
  · have hn : ¬ byteLength s ≤ 4 := by omega
    simp only [spelled, if_neg hn]
    match stripHash s, h2 with
    | [], _ => rfl
    | [_], _ => rfl
    | [_, _], _ => rfl
    | [_, _, _], _ => rfl
    | [_, _, _, _], _ => rfl
    | [_, _, _, _, _], _ => rfl
    | _ :: _ :: _ :: _ :: _ :: _ :: _, h2 => simp at h2; omega
  · simp only [spelled, if_pos h1]
    match stripHash s, h2 with
    | [], _ => rfl
    | [_], _ => rfl
    | [_, _], _ => rfl
    | _ :: _ :: _ :: _, h2 => simp at h2; omega

/-- every non-ASCII (multi-byte) character is a non-digit, so the two theorems above cover it -/
theorem not_hexDigit_of_multibyte (ch : Nat) (h : 128 ≤ ch) : ¬ isHexDigit ch := by
  unfold isHexDigit; omega

/-! ## Formatting -/

/-- **format_canonical**: '#' then exactly six characters, two per channel (high digit first), in
R, G, B order; for an 8-bit colour they are lower-case hexadecimal digits (`format_all_lower`:
`c.r / 16 < 16` needs `c.r ≤ 255`) -/
theorem format_canonical (c : Rgb) :
    (HexHand.Hex.from_Rgb c)._0 =
      [35, lowerHexDigit (c.r / 16), lowerHexDigit (c.r % 16),
           lowerHexDigit (c.g / 16), lowerHexDigit (c.g % 16),
           lowerHexDigit (c.b / 16), lowerHexDigit (c.b % 16)] := by
  have : ∀ d, HexHand.hexDigitChar d = lowerHexDigit d := by
    intro d; unfold HexHand.hexDigitChar lowerHexDigit; split <;> omega
  simp [HexHand.Hex.from_Rgb, HexHand.hex2, this]

/-- the six characters after '#' really are lower-case hexadecimal digits -/
theorem lowerHexDigit_is_lower (d : Nat) (h : d < 16) : isLowerHexDigit (lowerHexDigit d) := by
  unfold isLowerHexDigit lowerHexDigit; split <;> omega

theorem format_all_lower (c : Rgb) (hr : c.r ≤ 255) (hg : c.g ≤ 255) (hb : c.b ≤ 255) :
    ∃ t, (HexHand.Hex.from_Rgb c)._0 = 35 :: t ∧ t.length = 6 ∧ ∀ ch ∈ t, isLowerHexDigit ch := by
  refine ⟨_, format_canonical c, rfl, ?_⟩
  intro ch hch
  simp only [List.mem_cons, List.mem_nil_iff, or_false] at hch
  rcases hch with rfl | rfl | rfl | rfl | rfl | rfl <;> apply lowerHexDigit_is_lower <;> omega

theorem format_length (c : Rgb) : (HexHand.Hex.from_Rgb c)._0.length = 7 := rfl

/-- the digit written for `d < 16` reads back as `d` -/
theorem digitVal_lowerHexDigit (d : Nat) (h : d < 16) :
    isHexDigit (lowerHexDigit d) ∧ digitVal (lowerHexDigit d) = d := by
  unfold isHexDigit digitVal lowerHexDigit
  split
  · constructor
    · omega
    · rw [if_pos (by omega)]; omega
  · constructor
    · omega
    · rw [if_neg (by omega), if_neg (by omega)]; omega

/-- **format_parse_roundtrip**: parsing the formatted text returns the colour -/
theorem format_parse_roundtrip (c : Rgb) (hr : c.r ≤ 255) (hg : c.g ≤ 255) (hb : c.b ≤ 255) :
    HexHand.Rgb.try_from_Hex (HexHand.Hex.from_Rgb c) = .ok c := by
  have e : HexHand.Hex.from_Rgb c = ⟨(HexHand.Hex.from_Rgb c)._0⟩ := rfl
  rw [e, format_canonical c]
  have r1 := digitVal_lowerHexDigit (c.r / 16) (by omega)
  have r2 := digitVal_lowerHexDigit (c.r % 16) (by omega)
  have g1 := digitVal_lowerHexDigit (c.g / 16) (by omega)
  have g2 := digitVal_lowerHexDigit (c.g % 16) (by omega)
  have b1 := digitVal_lowerHexDigit (c.b / 16) (by omega)
  have b2 := digitVal_lowerHexDigit (c.b % 16) (by omega)
  rw [parse_accepts_hash_six _ _ _ _ _ _ [] r1.1 r2.1 g1.1 g2.1 b1.1 b2.1,
    r1.2, r2.2, g1.2, g2.2, b1.2, b2.2]
  cases c
  congr 2 <;> simp only <;> omega

/-! ## Examples (hypotheses satisfiable, spec sanity) -/

instance : DecidableEq (Except LError Rgb) := fun a b =>
  match a, b with
  | .ok x, .ok y => if h : x = y then isTrue (by rw [h]) else isFalse (by intro e; cases e; exact h rfl)
  | .error x, .error y => if h : x = y then isTrue (by rw [h]) else isFalse (by intro e; cases e; exact h rfl)
  | .ok _, .error _ => isFalse (by intro e; cases e)
  | .error _, .ok _ => isFalse (by intro e; cases e)

-- "#66AA77", "66aa77", "#6A7", "6a7" all spell (102, 170, 119)
example : spelled [35, 54, 54, 65, 65, 55, 55] = some (102, 170, 119) := by decide
example : spelled [54, 54, 97, 97, 55, 55] = some (102, 170, 119) := by decide
example : spelled [35, 54, 65, 55] = some (102, 170, 119) := by decide
example : spelled [54, 97, 55] = some (102, 170, 119) := by decide
example : HexHand.Rgb.try_from_Hex ⟨[35, 54, 54, 65, 65, 55, 55]⟩ = .ok ⟨102, 170, 119⟩ := by decide
example : HexHand.Rgb.try_from_Hex ⟨[35, 54, 65, 55]⟩ = .ok ⟨102, 170, 119⟩ := by decide
-- formatting (17, 255, 99) gives "#11ff63"
example : (HexHand.Hex.from_Rgb ⟨17, 255, 99⟩)._0 = [35, 49, 49, 102, 102, 54, 51] := by decide
-- hypotheses of the acceptance theorems: 'F', 'f', '0' are digits, 'g', '#', '+', '€' are not
example : isHexDigit 70 ∧ isHexDigit 102 ∧ isHexDigit 48 ∧ ¬ isHexDigit 103 ∧ ¬ isHexDigit 35
    ∧ ¬ isHexDigit 43 ∧ ¬ isHexDigit 8364 := by decide
-- rejection: "+1+2+3" (a sign is not a digit), "#12345" (too short), "12" , "" , "ééé" (6 bytes, 3 chars),
-- "€€" (6 bytes), "12é456" (multi-byte in a colour position), "##123456"
example : spelled [43, 49, 43, 50, 43, 51] = none := by decide
example : ∃ e, HexHand.Rgb.try_from_Hex ⟨[43, 49, 43, 50, 43, 51]⟩ = .error e :=
  parse_rejects_long _ (by decide) 0 (by decide) 43 rfl (by decide)
example : ∃ e, HexHand.Rgb.try_from_Hex ⟨[35, 49, 50, 51, 52, 53]⟩ = .error e :=
  parse_rejects_missing _ (.inl ⟨by decide, by decide⟩)
example : ∃ e, HexHand.Rgb.try_from_Hex ⟨[]⟩ = .error e := parse_rejects_missing _ (.inr ⟨by decide, by decide⟩)
example : ∃ e, HexHand.Rgb.try_from_Hex ⟨[233, 233, 233]⟩ = .error e :=
  parse_rejects_long _ (by decide) 0 (by decide) 233 rfl (not_hexDigit_of_multibyte _ (by decide))
example : ∃ e, HexHand.Rgb.try_from_Hex ⟨[8364, 8364]⟩ = .error e :=
  parse_rejects_long _ (by decide) 1 (by decide) 8364 rfl (not_hexDigit_of_multibyte _ (by decide))
example : ∃ e, HexHand.Rgb.try_from_Hex ⟨[49, 50, 233, 52, 53, 54]⟩ = .error e :=
  parse_rejects_long _ (by decide) 2 (by decide) 233 rfl (not_hexDigit_of_multibyte _ (by decide))
example : ∃ e, HexHand.Rgb.try_from_Hex ⟨[35, 35, 49, 50, 51, 52, 53, 54]⟩ = .error e :=
  parse_rejects_long _ (by decide) 0 (by decide) 35 rfl (by decide)
-- a short text with a multi-byte character: "1é" is 3 bytes, 2 characters
example : ∃ e, HexHand.Rgb.try_from_Hex ⟨[49, 233]⟩ = .error e :=
  parse_rejects_short _ (by decide) 1 (by decide) 233 rfl (not_hexDigit_of_multibyte _ (by decide))
-- characters after the colour positions are ignored ("leading digits"): "66AA77zz€" and "6a7z"
example : HexHand.Rgb.try_from_Hex ⟨[54, 54, 65, 65, 55, 55, 122, 122, 8364]⟩ = .ok ⟨102, 170, 119⟩ := by decide
example : HexHand.Rgb.try_from_Hex ⟨[54, 97, 55, 122]⟩ = .ok ⟨102, 170, 119⟩ := by decide

end Props.C15
