import LymuiVerif.Lemmas.Quant
/-!
# C10 — the device-model conversions equal their cited formulas (exact-real reading)

Every theorem is about the definitions GENERATED from the crate's MIR, instantiated at `α := ℝ`.
The `Spec` section writes the cited formulas independently of the code (channels `r g b : ℝ` on the
0..255 scale).  "Real-valued results within 1e-9" is proved as exact equality in `ℝ`; "8-bit results
quantised by one uniform rule per conversion" is proved by exhibiting the rule: `Real.toU8`
(truncate toward zero, saturate at 0 and 255) for YCbCr, the grayscale modes and the reverse YUV/YCbCr
conversions, `Real.toU8 ∘ Real.roundHA` (round half away from zero, then saturate) for CMYK -> RGB.

The forward theorems hold for all natural channel values, hence in particular for 8-bit ones
(`c.r ≤ 255` etc. are not needed).  Division by zero: the only division by a non-constant is by
`max` in CMYK; `cmyk_forward` assumes `0 < max` (the guard `k != 1` of the code) and `cmyk_black`
covers the only 8-bit colour with `max = 0`.
-/
namespace Props.C10
open Gen

/-! ## Specification: the cited formulas -/
namespace Spec

/-- largest channel -/
noncomputable def mx (r g b : ℝ) : ℝ := max r (max g b)
/-- smallest channel -/
noncomputable def mn (r g b : ℝ) : ℝ := min r (min g b)

/-- CMYK: `K = 1 - max/255` (channels normalised to 0..1), `C = (max - R)/max`, etc. -/
noncomputable def cmykK (r g b : ℝ) : ℝ := 1 - mx r g b / 255
noncomputable def cmykC (r g b : ℝ) : ℝ := (mx r g b - r) / mx r g b
noncomputable def cmykM (r g b : ℝ) : ℝ := (mx r g b - g) / mx r g b
noncomputable def cmykY (r g b : ℝ) : ℝ := (mx r g b - b) / mx r g b

/-- BT.601 analogue YUV on normalised channels -/
noncomputable def yuvY (r g b : ℝ) : ℝ := (0.299 * r + 0.587 * g + 0.114 * b) / 255
noncomputable def yuvU (r g b : ℝ) : ℝ := 0.492 * (b / 255 - yuvY r g b)
noncomputable def yuvV (r g b : ℝ) : ℝ := 0.877 * (r / 255 - yuvY r g b)

/-- 8-bit studio-range BT.601 sums -/
noncomputable def ycbcrY (r g b : ℝ) : ℝ := 16 + 0.257 * r + 0.504 * g + 0.098 * b
noncomputable def ycbcrCb (r g b : ℝ) : ℝ := 128 - 0.148 * r - 0.291 * g + 0.439 * b
noncomputable def ycbcrCr (r g b : ℝ) : ℝ := 128 + 0.439 * r - 0.368 * g - 0.071 * b

/-- grayscale modes -/
noncomputable def grayLightness (r g b : ℝ) : ℝ := (mx r g b + mn r g b) / 2
noncomputable def grayAverage (r g b : ℝ) : ℝ := (r + g + b) / 3
noncomputable def grayLuminosity (r g b : ℝ) : ℝ := 0.21 * r + 0.72 * g + 0.07 * b
noncomputable def grayBT709 (r g b : ℝ) : ℝ := 0.2126 * r + 0.7152 * g + 0.0722 * b
noncomputable def grayBT2100 (r g b : ℝ) : ℝ := 0.2627 * r + 0.6780 * g + 0.0593 * b

/-- CMYK -> RGB channel: `255 (1 - C)(1 - K)` -/
noncomputable def cmykInv (x k : ℝ) : ℝ := 255 * (1 - x) * (1 - k)

/-- YUV -> RGB (BT.601 analogue inverse), scaled to 0..255 -/
noncomputable def yuvR (y _u v : ℝ) : ℝ := 255 * (y + 1.13983 * v)
noncomputable def yuvG (y u v : ℝ) : ℝ := 255 * (y - 0.39465 * u - 0.58060 * v)
noncomputable def yuvB (y u _v : ℝ) : ℝ := 255 * (y + 2.03211 * u)

/-- YCbCr -> RGB (8-bit studio range BT.601 inverse) -/
noncomputable def ycbcrR (y _cb cr : ℝ) : ℝ := 1.164 * (y - 16) + 1.596 * (cr - 128)
noncomputable def ycbcrG (y cb cr : ℝ) : ℝ := 1.164 * (y - 16) - 0.813 * (cr - 128) - 0.391 * (cb - 128)
noncomputable def ycbcrB (y cb _cr : ℝ) : ℝ := 1.164 * (y - 16) + 2.018 * (cb - 128)

end Spec

/-! ## Forward conversions -/

/-- **CMYK forward** (non-black): `K = 1 - max/255`, `C/M/Y = (max - channel)/max`, exactly in `ℝ`.
Note the field order of the struct is `c, y, m, k`; the theorem names the fields. -/
theorem cmyk_forward (c : Rgb) (hmax : 0 < Spec.mx c.r c.g c.b) :
    (Cymk.from_Rgb (α := ℝ) c).k = Spec.cmykK c.r c.g c.b ∧
    (Cymk.from_Rgb (α := ℝ) c).c = Spec.cmykC c.r c.g c.b ∧
    (Cymk.from_Rgb (α := ℝ) c).m = Spec.cmykM c.r c.g c.b ∧
    (Cymk.from_Rgb (α := ℝ) c).y = Spec.cmykY c.r c.g c.b := by
  have hm : max (c.b : ℝ) (max (c.r : ℝ) (c.g : ℝ)) = Spec.mx c.r c.g c.b := by
    unfold Spec.mx; rw [max_comm, max_assoc]
  have hne : Spec.mx c.r c.g c.b ≠ 0 := ne_of_gt hmax
  simp only [Cymk.from_Rgb, Rgb.as_f64, Rgb.get_min_max, Cymk.default, FltReal.lit_eq, FltReal.ofNat_eq,
    FltReal.max_eq, FltReal.beq_eq, hm]
  have hk : ¬ ((1 : ℝ) / 1 - Spec.mx c.r c.g c.b / (255 / 1) = 1 / 1) := by
    intro h; apply hne; field_simp at h; linarith
  simp only [Nat.cast_one, Nat.cast_ofNat, hk, decide_false, Bool.not_false, if_true,
    Spec.cmykK, Spec.cmykC, Spec.cmykM, Spec.cmykY]
  generalize Spec.mx c.r c.g c.b = m at hne
  refine ⟨by ring, ?_, ?_, ?_⟩ <;>
    (rw [div_eq_div_iff (by intro h; apply hne; linarith) hne]; ring)

/-- **CMYK forward, black**: the `k == 1` branch gives `(C, M, Y, K) = (0, 0, 0, 1)`. -/
theorem cmyk_black :
    (Cymk.from_Rgb (α := ℝ) ⟨0, 0, 0⟩).c = 0 ∧ (Cymk.from_Rgb (α := ℝ) ⟨0, 0, 0⟩).m = 0 ∧
    (Cymk.from_Rgb (α := ℝ) ⟨0, 0, 0⟩).y = 0 ∧ (Cymk.from_Rgb (α := ℝ) ⟨0, 0, 0⟩).k = 1 := by
  simp [Cymk.from_Rgb, Rgb.as_f64, Rgb.get_min_max, Cymk.default]

/-- an 8-bit colour has `max = 0` only if it is black, so `cmyk_forward` and `cmyk_black` are exhaustive -/
theorem cmyk_cases (c : Rgb) : c = ⟨0, 0, 0⟩ ∨ 0 < Spec.mx c.r c.g c.b := by
  rcases c with ⟨r, g, b⟩
  by_cases h : r = 0 ∧ g = 0 ∧ b = 0
  · left; rcases h with ⟨rfl, rfl, rfl⟩; rfl
  · right
    have : 0 < r ∨ 0 < g ∨ 0 < b := by omega
    have h' := (Quant.max3_pos_iff g b r).mpr (by tauto)
    simpa [Spec.mx] using h'

/-- **YUV forward**: BT.601 analogue form, exactly in `ℝ`. -/
theorem yuv_forward (c : Rgb) :
    (Yuv.from_Rgb (α := ℝ) c).y = Spec.yuvY c.r c.g c.b ∧
    (Yuv.from_Rgb (α := ℝ) c).u = Spec.yuvU c.r c.g c.b ∧
    (Yuv.from_Rgb (α := ℝ) c).v = Spec.yuvV c.r c.g c.b := by
  simp only [Yuv.from_Rgb, Rgb.as_f64, FltReal.lit_eq, FltReal.ofNat_eq, Spec.yuvY, Spec.yuvU, Spec.yuvV]
  refine ⟨?_, ?_, ?_⟩ <;> (norm_num; ring)

/-- **YCbCr forward**: the three cited sums under ONE quantiser (`as u8`: truncate, saturate). -/
theorem ycbcr_forward (c : Rgb) :
    Ycbcr.from_Rgb ℝ c = ⟨Real.toU8 (Spec.ycbcrY c.r c.g c.b), Real.toU8 (Spec.ycbcrCb c.r c.g c.b),
      Real.toU8 (Spec.ycbcrCr c.r c.g c.b)⟩ := by
  simp only [Ycbcr.from_Rgb, Ycbcr.calculate_indices, Rgb.as_f64, FltReal.lit_eq, FltReal.ofNat_eq,
    FltReal.toU8_eq, Spec.ycbcrY, Spec.ycbcrCb, Spec.ycbcrCr]
  congr 2 <;> (norm_num; ring)

/-- **Grayscale, lightness**: `(max + min)/2`, truncated. -/
theorem gray_lightness (c : Rgb) :
    (GrayScale.from_rgb ℝ c .Lightness)._0 = Real.toU8 (Spec.grayLightness c.r c.g c.b) := by
  have hm : max (c.b : ℝ) (max (c.r : ℝ) (c.g : ℝ)) = Spec.mx c.r c.g c.b := by
    unfold Spec.mx; rw [max_comm, max_assoc]
  have hn : min (c.b : ℝ) (min (c.r : ℝ) (c.g : ℝ)) = Spec.mn c.r c.g c.b := by
    unfold Spec.mn; rw [min_comm, min_assoc]
  simp only [GrayScale.from_rgb, Rgb.get_min_max, Rgb.as_f64, FltReal.lit_eq, FltReal.ofNat_eq,
    FltReal.toU8_eq, FltReal.max_eq, FltReal.min_eq, hm, hn, Spec.grayLightness]
  congr 1; norm_num; ring

/-- **Grayscale, average**: `(R + G + B)/3`, truncated. -/
theorem gray_average (c : Rgb) :
    (GrayScale.from_rgb ℝ c .Average)._0 = Real.toU8 (Spec.grayAverage c.r c.g c.b) := by
  simp only [GrayScale.from_rgb, Rgb.as_f64, FltReal.lit_eq, FltReal.ofNat_eq, FltReal.toU8_eq,
    Spec.grayAverage]
  congr 1; norm_num

/-- **Grayscale, luminosity**: `0.21 R + 0.72 G + 0.07 B`, truncated. -/
theorem gray_luminosity (c : Rgb) :
    (GrayScale.from_rgb ℝ c .Luminosity)._0 = Real.toU8 (Spec.grayLuminosity c.r c.g c.b) := by
  simp only [GrayScale.from_rgb, Rgb.as_f64, FltReal.lit_eq, FltReal.ofNat_eq, FltReal.toU8_eq,
    Spec.grayLuminosity]
  congr 1; norm_num

/-- **Grayscale, BT.709**: `0.2126 R + 0.7152 G + 0.0722 B`, truncated. -/
theorem gray_bt709 (c : Rgb) :
    (GrayScale.from_rgb ℝ c .BT709)._0 = Real.toU8 (Spec.grayBT709 c.r c.g c.b) := by
  simp only [GrayScale.from_rgb, Rgb.as_f64, FltReal.lit_eq, FltReal.ofNat_eq, FltReal.toU8_eq,
    Spec.grayBT709]
  congr 1; norm_num

/-- **Grayscale, BT.2100**: `0.2627 R + 0.6780 G + 0.0593 B`, truncated. -/
theorem gray_bt2100 (c : Rgb) :
    (GrayScale.from_rgb ℝ c .BT2100)._0 = Real.toU8 (Spec.grayBT2100 c.r c.g c.b) := by
  simp only [GrayScale.from_rgb, Rgb.as_f64, FltReal.lit_eq, FltReal.ofNat_eq, FltReal.toU8_eq,
    Spec.grayBT2100]
  congr 1; norm_num

/-! ## Reverse conversions (arbitrary real inputs) -/

/-- **CMYK -> RGB**: `255 (1 - C)(1 - K)` per channel under one rule: round half away, then `as u8`. -/
theorem cmyk_reverse (p : Cymk ℝ) :
    Rgb.from_Cymk p = ⟨Real.toU8 (Real.roundHA (Spec.cmykInv p.c p.k)),
      Real.toU8 (Real.roundHA (Spec.cmykInv p.m p.k)), Real.toU8 (Real.roundHA (Spec.cmykInv p.y p.k))⟩ := by
  simp only [Rgb.from_Cymk, FltReal.lit_eq, FltReal.toU8_eq, FltReal.round_eq, Spec.cmykInv]
  norm_num

/-- **YUV -> RGB**: the cited inverse, scaled by 255, under `as u8`. -/
theorem yuv_reverse (p : Yuv ℝ) :
    Rgb.from_Yuv p = ⟨Real.toU8 (Spec.yuvR p.y p.u p.v), Real.toU8 (Spec.yuvG p.y p.u p.v),
      Real.toU8 (Spec.yuvB p.y p.u p.v)⟩ := by
  simp only [Rgb.from_Yuv, FltReal.lit_eq, FltReal.toU8_eq, Spec.yuvR, Spec.yuvG, Spec.yuvB]
  congr 2 <;> (norm_num; ring)

/-- **YCbCr -> RGB**: the cited inverse under `as u8`. -/
theorem ycbcr_reverse (p : Ycbcr) :
    Rgb.from_Ycbcr ℝ p = ⟨Real.toU8 (Spec.ycbcrR p.y p.cb p.cr), Real.toU8 (Spec.ycbcrG p.y p.cb p.cr),
      Real.toU8 (Spec.ycbcrB p.y p.cb p.cr)⟩ := by
  simp only [Rgb.from_Ycbcr, Ycbcr.as_f64, C.Y, FltReal.lit_eq, FltReal.ofNat_eq, FltReal.toU8_eq,
    Spec.ycbcrR, Spec.ycbcrG, Spec.ycbcrB]
  congr 2 <;> norm_num

/-- **Saturation** of the common quantiser: results are 8-bit, everything at or below 0 goes to 0,
everything at or above 255 goes to 255. -/
theorem toU8_saturates (x : ℝ) :
    Real.toU8 x ≤ 255 ∧ (x ≤ 0 → Real.toU8 x = 0) ∧ (255 ≤ x → Real.toU8 x = 255) :=
  ⟨Quant.toU8_le_255 x, Quant.toU8_of_nonpos, Quant.toU8_of_ge⟩

/-- consequently every reverse conversion returns an 8-bit colour, for arbitrary real inputs -/
theorem reverse_in_range (p : Cymk ℝ) (q : Yuv ℝ) (s : Ycbcr) :
    ((Rgb.from_Cymk p).r ≤ 255 ∧ (Rgb.from_Cymk p).g ≤ 255 ∧ (Rgb.from_Cymk p).b ≤ 255) ∧
    ((Rgb.from_Yuv q).r ≤ 255 ∧ (Rgb.from_Yuv q).g ≤ 255 ∧ (Rgb.from_Yuv q).b ≤ 255) ∧
    ((Rgb.from_Ycbcr ℝ s).r ≤ 255 ∧ (Rgb.from_Ycbcr ℝ s).g ≤ 255 ∧ (Rgb.from_Ycbcr ℝ s).b ≤ 255) := by
  rw [cmyk_reverse, yuv_reverse, ycbcr_reverse]
  simp only [Quant.toU8_le_255, and_self]

/-! ## Satisfiability of the hypotheses and spot checks of the specification -/

-- `cmyk_forward`'s hypothesis holds for a non-trivial colour
example : 0 < Spec.mx ((⟨255, 55, 102⟩ : Rgb).r) ((⟨255, 55, 102⟩ : Rgb).g) ((⟨255, 55, 102⟩ : Rgb).b) := by
  norm_num [Spec.mx]

-- the specification reproduces the textbook values (checks of the spec, not of the code)
example : Spec.cmykK 255 55 102 = 0 ∧ Spec.cmykC 255 55 102 = 0 ∧ Spec.cmykM 255 55 102 = 200 / 255 := by
  norm_num [Spec.cmykK, Spec.cmykC, Spec.cmykM, Spec.mx]
example : Spec.ycbcrY 255 255 255 = 235.045 ∧ Spec.ycbcrCb 255 255 255 = 128 ∧ Spec.ycbcrY 0 0 0 = 16 := by
  norm_num [Spec.ycbcrY, Spec.ycbcrCb]
example : Spec.yuvY 255 255 255 = 1 ∧ Spec.yuvU 255 255 255 = 0 ∧ Spec.yuvV 255 255 255 = 0 := by
  norm_num [Spec.yuvY, Spec.yuvU, Spec.yuvV]
example : Spec.ycbcrR 235 128 128 = 254.916 ∧ Spec.ycbcrR 16 128 128 = 0 := by
  norm_num [Spec.ycbcrR]

end Props.C10
