import LymuiVerif.Lemmas.FpAssemblePq
import LymuiVerif.Props.C11_fp_derived
import LymuiVerif.Props.C08_fp_rec2100
/-!
# C11 (greys), Rec.2100, rounded-arithmetic reading (`RF M`, every `M : FPModel`)

Closes the GOAL left open at the end of `Props/C11_fp_derived.lean`: for every grey `(v, v, v)` with `1 ≤ v ≤ 255` and every
model of floating-point arithmetic the three Rec.2100 channels of `Rec2100.from_Xyz (Xyz.from_rgb ⟨v,v,v⟩ D65)` are equal in
the sense of `Lemmas.GreyF2.Eq3` (pairwise within `2e-3` relative — the reading of the exact-real
`Props.C11_derived.rec2100_channels_equal`).

Chain: the computed BT.2020 linear components are within `2.7e-12` of the exact ones (`Lemmas.FpEnc2.grey_lin_fp`), which are
at least `3e-4` (`FpAssemblePq.rec2100_grey_real`), i.e. within `9e-9` RELATIVE; the code's forward PQ curve `F64.pq_eotf` in
`RF M` with a relatively perturbed argument is within `7·r + 3e-12` relative of the exact-real curve
(`Lemmas.FpPq.pq_forward_close`), so each computed channel is within `6.4e-8` relative of the exact-real one; the exact-real
channels are sandwiched with spread `4.3e-4` relative (`FpAssemblePq.pq_sandwich_tight`); `Lemmas.FpEnc2.eq3_pert` concludes
(`2.01·6.4e-8·1.00043 + 4.3e-4 ≤ 2e-3`).

Black (`v = 0`) is NOT covered and cannot be for every model: `F64.pq_eotf 0` contains `powf(0, 1/m2)` and `powf(0, 1/m1)`,
which `FPModel` bounds only by `2^-1075` in magnitude, so the three channels lie in `[0, 1e-230]`
(`Props.C08_fp_rec2100.rec2100_forward_black_fp`, re-exported as `rec2100_black_fp`) but need not be equal or zero
(they are exactly `0` on ℝ and in binary64).
-/
noncomputable section
namespace Props.C11_fp_rec2100
open Gen FpErr Lemmas.FpEnc Lemmas.FpEnc2 Lemmas.GreyF2 Lemmas.FpPq FpAssemblePq Props.C11_fp_derived

/-- **Rec.2100**: equal channels (`Eq3`) for every grey `1 ≤ v ≤ 255`, in every model -/
theorem rec2100_channels_equal_fp (M : FPModel) (v : ℕ) (hv : v ≤ 255) (h1 : 1 ≤ v) :
    Eq3 (Rec2100.from_Xyz (greyF M v)).r.val (Rec2100.from_Xyz (greyF M v)).g.val
      (Rec2100.from_Xyz (greyF M v)).b.val := by
  obtain ⟨u0, o1, o2, w1, n, rel, mono⟩ := rec2100_grey_real v hv h1
  obtain ⟨r1, r2, r3⟩ := rec2020_rows M
  have q1 := grey_lin_fp M r1 v hv
  have q2 := grey_lin_fp M r2 v hv
  have q3 := grey_lin_fp M r3 v hv
  have key : ∀ (a : RF M) (E : ℝ), |a.val - E| ≤ 2.7e-12 → 3e-4 ≤ E → E ≤ 1.1 →
      |(F64.pq_eotf a).val - F64.pq_eotf E| ≤ 6.4e-8 * F64.pq_eotf E := by
    intro a E ha h0 h1
    obtain ⟨c1, c2, -⟩ := pq_forward_close M a E 9e-9 (by norm_num at h0 ⊢; linarith) h1
      (ha.trans (by norm_num at h0 ⊢; linarith)) (by norm_num) (by norm_num)
    refine c1.trans ?_
    norm_num at c2 ⊢; nlinarith
  have d1 := key _ _ q1 (u0.trans (o1.trans o2)) w1
  have d2 := key _ _ q2 (u0.trans o1) (o2.trans w1)
  have d3 := key _ _ q3 u0 ((o1.trans o2).trans w1)
  obtain ⟨m1a, m1b⟩ := mono _ (o1.trans o2) le_rfl
  obtain ⟨m2a, m2b⟩ := mono _ o1 o2
  obtain ⟨m3a, m3b⟩ := mono _ le_rfl (o1.trans o2)
  unfold greyF
  rw [Lemmas.FpXyz.from_rgb_eq_fp', rec2100_from_xyz_fp]
  dsimp only
  refine eq3_pert (δ := 6.4e-8 * F64.pq_eotf (Props.C08.dot C.rec2020_XR (gx v) (gy v) (gz v)))
    ⟨m1a, m1b⟩ ⟨m2a, m2b⟩ ⟨m3a, m3b⟩ rel (d1.trans ?_) (d2.trans ?_) (d3.trans ?_) ?_ ?_
  · exact le_rfl
  · exact mul_le_mul_of_nonneg_left m2b (by norm_num)
  · exact mul_le_mul_of_nonneg_left m3b (by norm_num)
  · norm_num at rel n ⊢; linarith
  · norm_num at rel n ⊢; linarith

/-- black: every channel lies in `[0, 1e-230]` (exactly `0` in the exact-real model and in binary64; `FPModel` bounds
`powf(0, y)` only by `2^-1075`, so `Eq3` is not provable for every model) -/
theorem rec2100_black_fp (M : FPModel) :
    (0 ≤ (Rec2100.from_Xyz (greyF M 0)).r.val ∧ (Rec2100.from_Xyz (greyF M 0)).r.val ≤ 1e-230) ∧
    (0 ≤ (Rec2100.from_Xyz (greyF M 0)).g.val ∧ (Rec2100.from_Xyz (greyF M 0)).g.val ≤ 1e-230) ∧
    (0 ≤ (Rec2100.from_Xyz (greyF M 0)).b.val ∧ (Rec2100.from_Xyz (greyF M 0)).b.val ≤ 1e-230) := by
  obtain ⟨h1, h2, h3, -⟩ := Props.C08_fp_rec2100.rec2100_forward_black_fp M
  exact ⟨h1, h2, h3⟩

/- GOAL (not provable from `FPModel`): `Eq3` of the Rec.2100 channels of black in every model — see the file header. -/

/-! ## examples -/

-- the darkest grey (largest amplification of the cancelling difference `E^(1/m2) − c1`), mid grey, white: every model
example (M : FPModel) : Eq3 (Rec2100.from_Xyz (greyF M 1)).r.val (Rec2100.from_Xyz (greyF M 1)).g.val
    (Rec2100.from_Xyz (greyF M 1)).b.val := rec2100_channels_equal_fp M 1 (by norm_num) (by norm_num)
example (M : FPModel) : Eq3 (Rec2100.from_Xyz (greyF M 255)).r.val (Rec2100.from_Xyz (greyF M 255)).g.val
    (Rec2100.from_Xyz (greyF M 255)).b.val := rec2100_channels_equal_fp M 255 (by norm_num) (by norm_num)
-- the exact arithmetic is a model
example : Eq3 (Rec2100.from_Xyz (greyF FPModel.exact 128)).r.val (Rec2100.from_Xyz (greyF FPModel.exact 128)).g.val
    (Rec2100.from_Xyz (greyF FPModel.exact 128)).b.val :=
  rec2100_channels_equal_fp FPModel.exact 128 (by norm_num) (by norm_num)

end Props.C11_fp_rec2100
