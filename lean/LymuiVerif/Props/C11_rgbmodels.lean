import LymuiVerif.Props.C09
/-!
# C11 (RGB-derived models) — greys are achromatic; white and black hit the end points

Exact-real instance.  `c = (v, v, v)` with `v ≤ 255`.
-/
namespace Props.C11_rgbmodels
open Gen Props.C09

/-- the hue of a grey is 0 (the `min == max` shortcut of `impl From<Rgb> for Hue`) -/
theorem grey_hue (v : ℕ) : F64.from_Rgb (α := ℝ) ⟨v, v, v⟩ = 0 := by
  unfold F64.from_Rgb
  simp [get_min_max_spec, cmin, cmax]

/-- HSL: a grey has saturation 0 and hue 0 -/
theorem grey_hsl (v : ℕ) (hv : v ≤ 255) :
    (Hsl.from_Rgb (α := ℝ) ⟨v, v, v⟩).s = 0 ∧ (Hsl.from_Rgb (α := ℝ) ⟨v, v, v⟩).h = 0 := by
  obtain ⟨e1, e2, _⟩ := hsl_forward ⟨v, v, v⟩ hv hv hv
  rw [e1, e2, grey_hue]
  simp [stdSHsl, cmax, cmin]

/-- HSV: a grey has saturation 0 and hue 0 -/
theorem grey_hsv (v : ℕ) (hv : v ≤ 255) :
    (Hsv.from_Rgb (α := ℝ) ⟨v, v, v⟩).s = 0 ∧ (Hsv.from_Rgb (α := ℝ) ⟨v, v, v⟩).h = 0 := by
  obtain ⟨e1, e2, _⟩ := hsv_forward ⟨v, v, v⟩ hv hv hv
  rw [e1, e2, grey_hue]
  simp [stdSHsv, cmax, cmin]

/-- HWB: a grey has whiteness + blackness = 100 (and hue 0) -/
theorem grey_hwb (v : ℕ) (hv : v ≤ 255) :
    (Hwb.from_Rgb (α := ℝ) ⟨v, v, v⟩).w + (Hwb.from_Rgb (α := ℝ) ⟨v, v, v⟩).b = 100 ∧
      (Hwb.from_Rgb (α := ℝ) ⟨v, v, v⟩).h = 0 := by
  obtain ⟨e1, e2, e3⟩ := hwb_forward ⟨v, v, v⟩ hv hv hv
  rw [e1, e2, e3, grey_hue]
  simp [stdW, stdB, cmax, cmin]
  ring

/-- CMYK: a grey has C = M = Y = 0 (for black through the `k != 1` guard, not through `0/0`) -/
theorem grey_cymk (v : ℕ) :
    (Cymk.from_Rgb (α := ℝ) ⟨v, v, v⟩).c = 0 ∧ (Cymk.from_Rgb (α := ℝ) ⟨v, v, v⟩).m = 0 ∧
      (Cymk.from_Rgb (α := ℝ) ⟨v, v, v⟩).y = 0 := by
  unfold Cymk.from_Rgb
  simp only [get_min_max_spec, Rgb.as_f64, Cymk.default, FltReal.lit_eq, FltReal.beq_eq, FltReal.ofNat_eq,
    Nat.cast_ofNat, Nat.cast_one, div_one, Nat.cast_zero, Bool.not_eq_true', decide_eq_false_iff_not]
  have hM : cmax ⟨v, v, v⟩ = (v : ℝ) := by simp [cmax]
  rw [hM]
  split_ifs with h
  · simp
  · simp

/-- YUV: a grey has U = V = 0 exactly (0.299 + 0.587 + 0.114 = 1) -/
theorem grey_yuv (v : ℕ) :
    (Yuv.from_Rgb (α := ℝ) ⟨v, v, v⟩).u = 0 ∧ (Yuv.from_Rgb (α := ℝ) ⟨v, v, v⟩).v = 0 := by
  simp only [Yuv.from_Rgb, Rgb.as_f64, FltReal.lit_eq, FltReal.ofNat_eq]
  constructor <;> (push_cast; ring)

/-- YCbCr: a grey has Cb = Cr = 128 exactly on ℝ (−0.148 − 0.291 + 0.439 = 0 and
0.439 − 0.368 − 0.071 = 0).  Zero margin below: any negative float error gives 127. -/
theorem grey_ycbcr (v : ℕ) :
    (Ycbcr.from_Rgb ℝ ⟨v, v, v⟩).cb = 128 ∧ (Ycbcr.from_Rgb ℝ ⟨v, v, v⟩).cr = 128 := by
  simp only [Ycbcr.from_Rgb, Ycbcr.calculate_indices, Rgb.as_f64, FltReal.lit_eq, FltReal.ofNat_eq,
    FltReal.toU8_eq]
  have e1 : ((128 : ℕ) : ℝ) / ((1 : ℕ) : ℝ) + (-((v : ℝ) * (((37 : ℕ) : ℝ) / ((250 : ℕ) : ℝ))) -
      (v : ℝ) * (((291 : ℕ) : ℝ) / ((1000 : ℕ) : ℝ)) + (v : ℝ) * (((439 : ℕ) : ℝ) / ((1000 : ℕ) : ℝ))) = ((128 : ℕ) : ℝ) := by
    push_cast; ring
  have e2 : ((128 : ℕ) : ℝ) / ((1 : ℕ) : ℝ) + ((v : ℝ) * (((439 : ℕ) : ℝ) / ((1000 : ℕ) : ℝ)) -
      (v : ℝ) * (((46 : ℕ) : ℝ) / ((125 : ℕ) : ℝ)) - (v : ℝ) * (((71 : ℕ) : ℝ) / ((1000 : ℕ) : ℝ))) = ((128 : ℕ) : ℝ) := by
    push_cast; ring
  rw [e1, e2, QuantA2.toU8_natCast (by norm_num)]
  exact ⟨rfl, rfl⟩

/-- white: HSV value 100, HSL lightness 100, CMYK K = 0 -/
theorem white :
    (Hsv.from_Rgb (α := ℝ) ⟨255, 255, 255⟩).v = 100 ∧ (Hsl.from_Rgb (α := ℝ) ⟨255, 255, 255⟩).l = 100 ∧
      (Cymk.from_Rgb (α := ℝ) ⟨255, 255, 255⟩).k = 0 := by
  refine ⟨?_, ?_, ?_⟩
  · rw [(hsv_forward ⟨255, 255, 255⟩ (by norm_num) (by norm_num) (by norm_num)).2.2]
    norm_num [stdV, cmax]
  · rw [(hsl_forward ⟨255, 255, 255⟩ (by norm_num) (by norm_num) (by norm_num)).2.2]
    norm_num [stdL, cmax, cmin]
  · unfold Cymk.from_Rgb
    simp only [get_min_max_spec, Rgb.as_f64, Cymk.default, FltReal.lit_eq, FltReal.beq_eq, FltReal.ofNat_eq]
    norm_num [cmax]

/-- black: HSL lightness 0, CMYK K = 1 -/
theorem black :
    (Hsl.from_Rgb (α := ℝ) ⟨0, 0, 0⟩).l = 0 ∧ (Cymk.from_Rgb (α := ℝ) ⟨0, 0, 0⟩).k = 1 := by
  refine ⟨?_, ?_⟩
  · rw [(hsl_forward ⟨0, 0, 0⟩ (by norm_num) (by norm_num) (by norm_num)).2.2]
    norm_num [stdL, cmax, cmin]
  · unfold Cymk.from_Rgb
    simp only [get_min_max_spec, Rgb.as_f64, Cymk.default, FltReal.lit_eq, FltReal.beq_eq, FltReal.ofNat_eq]
    norm_num [cmax]

-- the hypothesis `v ≤ 255` is satisfiable by a non-trivial grey; e.g. mid grey 128
example : (Hsl.from_Rgb (α := ℝ) ⟨128, 128, 128⟩).s = 0 ∧ (Hsl.from_Rgb (α := ℝ) ⟨128, 128, 128⟩).h = 0 :=
  grey_hsl 128 (by norm_num)

end Props.C11_rgbmodels
