import LymuiVerif.Lemmas.CurvesD2
/-!
# C08 — transfer curves and matrix conversions (sRGB, Adobe RGB, Rec.709, Rec.2020, Rec.2100)

Property text: "For every 8-bit colour c: converting XYZ(c, D65) to sRGB and XYZ(c, Adobe) to Adobe RGB
returns the encoded channel values c/255 (within 5e-6 resp. 2e-3); Rec.709 and Rec.2020 values are the
BT.709 / BT.2020 OETF of the linear components in the respective primaries within 2e-6; Rec.2100 values
follow the SMPTE ST 2084 (PQ) curve on the BT.2020 primaries.  For every in-range encoded triple the
reverse conversions apply the inverse curve and matrix (within 5e-6 in XYZ)."

Exact-real reading (`Flt ℝ`).  Contents
* Specification: IEC 61966-2-1, Adobe RGB (γ = 563/256), BT.709, BT.2020 (12 bit), ST 2084.
* each generated curve function equals its specification function (guards: no power of a negative base
  ever occurs; the Adobe functions clamp negatives to 0, PQ is stated for nonnegative input);
* each conversion is "matrix then curve" / "curve then matrix" (`*_def`), exactly;
* KNOWN FINDING (b): `F64.pq_eotf` (used by `Rec2100.from_Xyz`) is NOT the ST 2084 EOTF:
  `pq_forward_characterisation`, `pq_forward_is_not_st2084`.  `pq_inverse_eotf` is ST 2084.
* FINDING: the BT.2020 decoder switches at 0.081 (the BT.709 value) instead of 4.5·β = 0.08145
  (`rec2020_decode_formula`, `bt2020_threshold_mismatch`); effect ≤ 1.01e-4 on `[0.018, 0.0181)`.
* curve pairs are exact inverses in ℝ outside explicitly characterised slivers;
* forward theorems for 8-bit colours: `forward_srgb` (5e-6; proved 3.6e-6), `forward_argb` (2e-3),
  `forward_rec709` (2e-6; proved 1.3e-6).  Rec.2020/Rec.2100 forward are the definitional theorems.
-/
noncomputable section
namespace Props.C08
open Gen Lemmas.CurvesD2

/-! ## Specification -/
def encSrgb (x : ℝ) : ℝ :=
  if x ≤ 0.0031308 then 12.92 * x else 1.055 * x ^ ((1 : ℝ) / 2.4) - 0.055
def decSrgb (v : ℝ) : ℝ :=
  if v ≤ 0.04045 then v / 12.92 else ((v + 0.055) / 1.055) ^ (2.4 : ℝ)
def adobeGamma : ℝ := 563 / 256
def encAdobe (x : ℝ) : ℝ := x ^ (1 / adobeGamma)
def decAdobe (v : ℝ) : ℝ := v ^ adobeGamma
def oetf709 (L : ℝ) : ℝ :=
  if L < 0.018 then 4.5 * L else 1.099 * L ^ (0.45 : ℝ) - 0.099
def invOetf709 (V : ℝ) : ℝ :=
  if V < 0.081 then V / 4.5 else ((V + 0.099) / 1.099) ^ ((1 : ℝ) / 0.45)
def α2020 : ℝ := 1.0993
def β2020 : ℝ := 0.0181
def oetf2020 (L : ℝ) : ℝ :=
  if L < β2020 then 4.5 * L else α2020 * L ^ (0.45 : ℝ) - (α2020 - 1)
/-- inverse BT.2020 OETF with the linear/power switch at encoded value `θ` -/
def invOetf2020With (θ V : ℝ) : ℝ :=
  if V < θ then V / 4.5 else ((V + (α2020 - 1)) / α2020) ^ ((1 : ℝ) / 0.45)
/-- the consistent inverse switches at `4.5·β` -/
def invOetf2020 (V : ℝ) : ℝ := invOetf2020With (4.5 * β2020) V
def m1 : ℝ := 2610 / 16384
def m2 : ℝ := 2523 / 4096 * 128
def c1 : ℝ := 3424 / 4096
def c2 : ℝ := 2413 / 4096 * 32
def c3 : ℝ := 2392 / 4096 * 32
def pqEotf (E : ℝ) : ℝ :=
  10000 * (max (E ^ (1 / m2) - c1) 0 / (c2 - c3 * E ^ (1 / m2))) ^ (1 / m1)
def pqInvEotf (L : ℝ) : ℝ :=
  ((c1 + c2 * (L / 10000) ^ m1) / (1 + c3 * (L / 10000) ^ m1)) ^ m2
/-- row · column -/
def dot (m : ℝ × ℝ × ℝ) (a b c : ℝ) : ℝ := a * m.1 + b * m.2.1 + c * m.2.2

/-! ## curves -/
theorem srgb_encode_is_iec (x : ℝ) : F64.apply_srgb_gamma_correction x = encSrgb x := by
  simp only [F64.apply_srgb_gamma_correction, encSrgb, FltReal.le_eq, FltReal.lit_eq,
    FltReal.pow_eq, decide_eq_true_eq]
  norm_num
  try (split_ifs <;> ring)

theorem srgb_decode_is_iec (v : ℝ) : F64.compute_srgb_gamma_expanded v = decSrgb v := by
  simp only [F64.compute_srgb_gamma_expanded, decSrgb, FltReal.le_eq, FltReal.lit_eq,
    FltReal.pow_eq, decide_eq_true_eq]
  norm_num

theorem adobe_encode_is_spec (x : ℝ) (hx : 0 ≤ x) : F64.compute_argb_gamma_expanded x = encAdobe x := by
  simp only [F64.compute_argb_gamma_expanded, encAdobe, adobeGamma, FltReal.le_eq, FltReal.lit_eq,
    FltReal.pow_eq, decide_eq_true_eq]
  norm_num
  intro h
  have : x = 0 := le_antisymm h hx
  subst this
  rw [Real.zero_rpow (by norm_num)]

theorem adobe_encode_neg (x : ℝ) (hx : x ≤ 0) : F64.compute_argb_gamma_expanded x = 0 := by
  simp [F64.compute_argb_gamma_expanded, hx]

theorem adobe_decode_is_spec (v : ℝ) (hv : 0 ≤ v) : F64.compute_argb_gamma v = decAdobe v := by
  simp only [F64.compute_argb_gamma, decAdobe, adobeGamma, FltReal.le_eq, FltReal.lit_eq,
    FltReal.pow_eq, decide_eq_true_eq]
  norm_num
  intro h
  have : v = 0 := le_antisymm h hv
  subst this
  rw [Real.zero_rpow (by norm_num)]

theorem adobe_decode_neg (x : ℝ) (hx : x ≤ 0) : F64.compute_argb_gamma x = 0 := by
  simp [F64.compute_argb_gamma, hx]

theorem rec709_encode_is_bt709 (L : ℝ) : F64.compute_rec709_gamma_correction L = oetf709 L := by
  simp only [F64.compute_rec709_gamma_correction, oetf709, FltReal.lt_eq, FltReal.lit_eq,
    FltReal.pow_eq, decide_eq_true_eq]
  norm_num
  try (split_ifs <;> ring)

theorem rec709_decode_is_bt709 (V : ℝ) : F64.compute_rec709_gamma_expanded V = invOetf709 V := by
  simp only [F64.compute_rec709_gamma_expanded, invOetf709, FltReal.lt_eq, FltReal.lit_eq,
    FltReal.pow_eq, decide_eq_true_eq]
  norm_num

theorem rec2020_encode_is_bt2020 (L : ℝ) : F64.compute_rec2020_gamma_correction L = oetf2020 L := by
  simp only [F64.compute_rec2020_gamma_correction, oetf2020, α2020, β2020, FltReal.lt_eq, FltReal.lit_eq,
    FltReal.pow_eq, decide_eq_true_eq]
  norm_num
  try (split_ifs <;> ring)

theorem rec2020_decode_is_bt2020 (V : ℝ) (hV : V < 0.081 ∨ 0.08145 ≤ V) :
    F64.compute_rec2020_gamma_expanded V = invOetf2020 V := by
  simp only [F64.compute_rec2020_gamma_expanded, invOetf2020, invOetf2020With, α2020, β2020, FltReal.lt_eq, FltReal.lit_eq,
    FltReal.pow_eq, decide_eq_true_eq]
  norm_num
  rcases hV with h | h
  · rw [if_pos (by linarith), if_pos (by linarith)]
  · rw [if_neg (by linarith), if_neg (by linarith)]


/-! ## PQ -/
theorem pq_constants_are_st2084 :
    (m1 = 0.1593017578125) ∧ (m2 = 78.84375) ∧ (c1 = 0.8359375) ∧ (c2 = 18.8515625) ∧ (c3 = 18.6875)
    ∧ c1 = c3 - c2 + 1 := by
  simp only [m1, m2, c1, c2, c3]; norm_num

theorem pq_inverse_is_st2084 (L : ℝ) (hL : 0 ≤ L) : F64.pq_inverse_eotf L = pqInvEotf L := by
  have h0 : (0 : ℝ) ≤ (L / 10000) ^ (1305 / 8192 : ℝ) := Real.rpow_nonneg (by positivity) _
  have hd : (1 : ℝ) + 299 / 16 * (L / 10000) ^ (1305 / 8192 : ℝ) ≠ 0 := by positivity
  simp only [F64.pq_inverse_eotf, pqInvEotf, m1, m2, c1, c2, c3, FltReal.beq_eq, FltReal.lit_eq,
    FltReal.pow_eq, decide_eq_true_eq]
  norm_num
  intro h
  exact absurd h hd

theorem pq_inverse_divisor_ge_one (L : ℝ) (hL : 0 ≤ L) : 1 ≤ 1 + c3 * (L / 10000) ^ m1 := by
  have h0 : (0 : ℝ) ≤ (L / 10000) ^ m1 := Real.rpow_nonneg (by positivity) _
  have : (0:ℝ) ≤ c3 := by simp only [c3]; norm_num
  nlinarith

theorem pq_forward_characterisation (E : ℝ) (_hE : 0 ≤ E) :
    F64.pq_eotf E = if (c2 - c3) * E ^ (1 / m2) = 0 then 0
      else 10000 * (max (E ^ (1 / m2) - c1) 0 / ((c2 - c3) * E ^ (1 / m2))) ^ (1 / m1) := by
  simp only [F64.pq_eotf, m1, m2, c1, c2, c3, FltReal.beq_eq, FltReal.lit_eq, FltReal.max_eq,
    FltReal.pow_eq, decide_eq_true_eq]
  norm_num

/-! ## conversions are matrix-then-curve -/
theorem srgb_from_xyz_def (v : Xyz ℝ) :
    Srgb.from_Xyz v = ⟨encSrgb (dot C.RX65 v.x v.y v.z), encSrgb (dot C.RY65 v.x v.y v.z),
      encSrgb (dot C.RZ65 v.x v.y v.z)⟩ := by
  simp only [Srgb.from_Xyz, srgb_encode_is_iec, dot]

theorem xyz_from_srgb_def (s : Srgb ℝ) :
    Xyz.from_Srgb s = ⟨dot C.X65 (decSrgb s.r) (decSrgb s.g) (decSrgb s.b),
      dot C.Y65 (decSrgb s.r) (decSrgb s.g) (decSrgb s.b),
      dot C.Z65 (decSrgb s.r) (decSrgb s.g) (decSrgb s.b)⟩ := by
  simp only [Xyz.from_Srgb, srgb_decode_is_iec, dot]


/-! ## curve inverses (exact in ℝ) -/


theorem srgb_dec_enc_linear (x : ℝ) (hx : x ≤ 0.0031308) : decSrgb (encSrgb x) = x := by
  unfold encSrgb
  rw [if_pos hx]
  unfold decSrgb
  rw [if_pos (by linarith)]
  field_simp

/-- the power branch lands above the decoder's threshold as soon as `x > 0.00313081` -/
theorem srgb_enc_gt (x : ℝ) (hx : 0.00313081 < x) : 0.04045 < encSrgb x := by
  unfold encSrgb
  rw [if_neg (by linarith), e24]
  have h0 : (0:ℝ) ≤ x := by linarith
  have h5 : (0.00313081:ℝ) ^ 5 < x ^ 5 := pow_lt_pow_left₀ hx (by norm_num) (by norm_num)
  have := lt_rpow_div (x := x) (a := 0.09545 / 1.055) 5 12 (by norm_num) h0 (by norm_num)
    (lt_of_le_of_lt (by norm_num) h5)
  linarith

theorem srgb_dec_enc_power (x : ℝ) (hx : 0.0031308 < x) (h : 0.04045 < encSrgb x) :
    decSrgb (encSrgb x) = x := by
  unfold decSrgb
  rw [if_neg (by linarith)]
  unfold encSrgb
  rw [if_neg (by linarith)]
  have h0 : (0:ℝ) ≤ x := by linarith
  have : (1.055 * x ^ ((1:ℝ) / 2.4) - 0.055 + 0.055) / 1.055 = x ^ ((1:ℝ) / 2.4) := by field_simp; ring
  rw [this]
  exact rpow_inv_rpow h0 (by norm_num)



/-- in the sliver `(0.0031308, 0.00313081]` the encoder already uses the power branch while the
decoder may still use the linear one; the round trip is then off by at most 1.4e-8 -/
theorem srgb_dec_enc_sliver (x : ℝ) (hx : 0.0031308 < x) (hx' : x ≤ 0.00313081) :
    |decSrgb (encSrgb x) - x| ≤ 1.4e-8 := by
  by_cases h : 0.04045 < encSrgb x
  · have : decSrgb (encSrgb x) = x := by
      unfold decSrgb
      rw [if_neg (by linarith)]
      unfold encSrgb
      rw [if_neg (by linarith)]
      have h0 : (0:ℝ) ≤ x := by linarith
      have : (1.055 * x ^ ((1:ℝ) / 2.4) - 0.055 + 0.055) / 1.055 = x ^ ((1:ℝ) / 2.4) := by field_simp; ring
      rw [this]
      exact rpow_inv_rpow h0 (by norm_num)
    rw [this]; norm_num
  · have h0 : (0:ℝ) ≤ x := by linarith
    unfold decSrgb
    rw [if_pos (by linarith)]
    unfold encSrgb
    rw [if_neg (by linarith), e24]
    have lo : (0.09047384:ℝ) ≤ x ^ (((5:ℕ):ℝ) / ((12:ℕ):ℝ)) :=
      le_rpow_div 5 12 (by norm_num) h0 (by norm_num)
        (le_trans (by norm_num) (pow_le_pow_left₀ (by norm_num) hx.le 5))
    have hi : x ^ (((5:ℕ):ℝ) / ((12:ℕ):ℝ)) ≤ (0.09047397:ℝ) :=
      rpow_div_le 5 12 (by norm_num) h0 (by norm_num)
        (le_trans (pow_le_pow_left₀ h0 hx' 5) (by norm_num))
    rw [abs_le]
    constructor
    · rw [le_sub_iff_add_le, le_div_iff₀ (by norm_num)]; nlinarith
    · rw [sub_le_iff_le_add, div_le_iff₀ (by norm_num)]; nlinarith

theorem srgb_enc_dec_linear (v : ℝ) (hv : v ≤ 0.040449936) : encSrgb (decSrgb v) = v := by
  unfold decSrgb
  rw [if_pos (by linarith)]
  unfold encSrgb
  rw [if_pos (by rw [div_le_iff₀ (by norm_num)]; linarith)]
  field_simp

theorem srgb_enc_dec_power (v : ℝ) (hv : 0.04045 < v) : encSrgb (decSrgb v) = v := by
  unfold decSrgb
  rw [if_neg (by linarith)]
  have hb : (0.09545 / 1.055 : ℝ) < (v + 0.055) / 1.055 := by
    rw [div_lt_div_iff_of_pos_right (by norm_num)]; linarith
  have hb0 : (0:ℝ) ≤ (v + 0.055) / 1.055 := le_trans (by norm_num) hb.le
  have e : (2.4 : ℝ) = ((12:ℕ):ℝ) / ((5:ℕ):ℝ) := by norm_num
  have hgt : (0.0031308 : ℝ) < ((v + 0.055) / 1.055) ^ (2.4:ℝ) := by
    rw [e]
    exact lt_rpow_div 12 5 (by norm_num) hb0 (by norm_num)
      (lt_of_le_of_lt (by norm_num) (pow_lt_pow_left₀ hb (by norm_num) (by norm_num)))
  unfold encSrgb
  rw [if_neg (by linarith)]
  have : (((v + 0.055) / 1.055) ^ (2.4:ℝ)) ^ ((1:ℝ) / 2.4) = (v + 0.055) / 1.055 :=
    rpow_rpow_inv hb0 (by norm_num)
  rw [this]; field_simp; ring

/-- sliver `(0.040449936, 0.04045]`: decoded linearly, re-encoded with the power branch -/
theorem srgb_enc_dec_sliver (v : ℝ) (hv : 0.040449936 < v) (hv' : v ≤ 0.04045) :
    |encSrgb (decSrgb v) - v| ≤ 1e-7 := by
  unfold decSrgb
  rw [if_pos hv']
  have h1 : (0.0031308:ℝ) < v / 12.92 := by rw [lt_div_iff₀ (by norm_num)]; linarith
  have h2 : v / 12.92 ≤ (0.003130805:ℝ) := by rw [div_le_iff₀ (by norm_num)]; linarith
  have h0 : (0:ℝ) ≤ v / 12.92 := by linarith
  unfold encSrgb
  rw [if_neg (by linarith), e24]
  have lo : (0.09047384:ℝ) ≤ (v / 12.92) ^ (((5:ℕ):ℝ) / ((12:ℕ):ℝ)) :=
    le_rpow_div 5 12 (by norm_num) h0 (by norm_num)
      (le_trans (by norm_num) (pow_le_pow_left₀ (by norm_num) h1.le 5))
  have hi : (v / 12.92) ^ (((5:ℕ):ℝ) / ((12:ℕ):ℝ)) ≤ (0.09047391:ℝ) :=
    rpow_div_le 5 12 (by norm_num) h0 (by norm_num)
      (le_trans (pow_le_pow_left₀ h0 h2 5) (by norm_num))
  rw [abs_le]
  constructor <;> nlinarith


theorem adobe_dec_enc (x : ℝ) (hx : 0 ≤ x) : decAdobe (encAdobe x) = x := by
  unfold decAdobe encAdobe
  exact rpow_inv_rpow hx (by unfold adobeGamma; norm_num)

theorem adobe_enc_dec (v : ℝ) (hv : 0 ≤ v) : encAdobe (decAdobe v) = v := by
  unfold decAdobe encAdobe
  exact rpow_rpow_inv hv (by unfold adobeGamma; norm_num)


theorem bt709_thresholds_match : (0.018 : ℝ) * 4.5 = 0.081 := by norm_num

theorem bt709_dec_enc (L : ℝ) : invOetf709 (oetf709 L) = L := by
  unfold oetf709
  split_ifs with h
  · unfold invOetf709
    rw [if_pos (by linarith)]; field_simp
  · rw [not_lt] at h
    have h0 : (0:ℝ) ≤ L := by linarith
    have lo : (0.164:ℝ) ≤ L ^ (0.45:ℝ) := by
      rw [e045]
      exact le_rpow_div 9 20 (by norm_num) h0 (by norm_num)
        (le_trans (by norm_num) (pow_le_pow_left₀ (by norm_num) h 9))
    unfold invOetf709
    rw [if_neg (by linarith)]
    have : (1.099 * L ^ (0.45:ℝ) - 0.099 + 0.099) / 1.099 = L ^ (0.45:ℝ) := by field_simp; ring
    rw [this]
    exact rpow_rpow_inv h0 (by norm_num)

theorem bt709_enc_dec (V : ℝ) (hV : V < 0.081 ∨ 0.081248 ≤ V) : oetf709 (invOetf709 V) = V := by
  unfold invOetf709
  rcases hV with h | h
  · rw [if_pos h]
    unfold oetf709
    rw [if_pos (by rw [div_lt_iff₀ (by norm_num)]; linarith)]
    field_simp
  · rw [if_neg (by linarith)]
    have hb : (0.1640109 : ℝ) ≤ (V + 0.099) / 1.099 := by
      rw [le_div_iff₀ (by norm_num)]; linarith
    have hb0 : (0:ℝ) ≤ (V + 0.099) / 1.099 := le_trans (by norm_num) hb
    have hge : (0.018 : ℝ) ≤ ((V + 0.099) / 1.099) ^ ((1:ℝ) / 0.45) := by
      rw [e045i]
      exact le_rpow_div 20 9 (by norm_num) hb0 (by norm_num)
        (le_trans (by norm_num) (pow_le_pow_left₀ (by norm_num) hb 20))
    unfold oetf709
    rw [if_neg (by linarith)]
    have : (((V + 0.099) / 1.099) ^ ((1:ℝ) / 0.45)) ^ (0.45:ℝ) = (V + 0.099) / 1.099 :=
      rpow_inv_rpow hb0 (by norm_num)
    rw [this]; field_simp; ring

/-- sliver of BT.709 itself (the OETF with the rounded constants jumps from 0.081 to 0.081248 at
L = 0.018): an encoded value in `[0.081, 0.081248)` decodes below 0.018 or not -/
theorem bt709_enc_dec_sliver (V : ℝ) (h1 : 0.081 ≤ V) (h2 : V < 0.081248) :
    |oetf709 (invOetf709 V) - V| ≤ 5e-4 := by
  unfold invOetf709
  rw [if_neg (by linarith)]
  have hb : (0.163785 : ℝ) ≤ (V + 0.099) / 1.099 := by
    rw [le_div_iff₀ (by norm_num)]; linarith
  have hb0 : (0:ℝ) ≤ (V + 0.099) / 1.099 := le_trans (by norm_num) hb
  have hge : (0.0179449 : ℝ) ≤ ((V + 0.099) / 1.099) ^ ((1:ℝ) / 0.45) := by
    rw [e045i]
    exact le_rpow_div 20 9 (by norm_num) hb0 (by norm_num)
      (le_trans (by norm_num) (pow_le_pow_left₀ (by norm_num) hb 20))
  unfold oetf709
  split_ifs with h
  · rw [abs_le]; constructor <;> linarith
  · have : (((V + 0.099) / 1.099) ^ ((1:ℝ) / 0.45)) ^ (0.45:ℝ) = (V + 0.099) / 1.099 :=
      rpow_inv_rpow hb0 (by norm_num)
    rw [this]
    have : 1.099 * ((V + 0.099) / 1.099) - 0.099 - V = 0 := by field_simp; ring
    rw [this]; norm_num

/-- the code's BT.2020 decoder switches at 0.081 (the BT.709 value), not at 4.5·β = 0.08145 -/
theorem rec2020_decode_formula (V : ℝ) :
    F64.compute_rec2020_gamma_expanded V = invOetf2020With 0.081 V := by
  simp only [F64.compute_rec2020_gamma_expanded, invOetf2020With, α2020, FltReal.lt_eq, FltReal.lit_eq,
    FltReal.pow_eq, decide_eq_true_eq]
  norm_num

theorem bt2020_threshold_mismatch : (4.5 : ℝ) * β2020 = 0.08145 ∧ (0.081 : ℝ) < 4.5 * β2020 := by
  unfold β2020; norm_num

theorem rec2020_dec_enc (L : ℝ) (hL : L < 0.018 ∨ 0.0181 ≤ L) :
    F64.compute_rec2020_gamma_expanded (F64.compute_rec2020_gamma_correction L) = L := by
  rw [rec2020_encode_is_bt2020, rec2020_decode_formula]
  unfold oetf2020 β2020 α2020
  rcases hL with h | h
  · rw [if_pos (by linarith)]
    unfold invOetf2020With
    rw [if_pos (by linarith)]; field_simp
  · rw [if_neg (by linarith)]
    have h0 : (0:ℝ) ≤ L := by linarith
    have lo : (0.1644:ℝ) ≤ L ^ (0.45:ℝ) := by
      rw [e045]
      exact le_rpow_div 9 20 (by norm_num) h0 (by norm_num)
        (le_trans (by norm_num) (pow_le_pow_left₀ (by norm_num) h 9))
    unfold invOetf2020With α2020
    rw [if_neg (by linarith)]
    have : (1.0993 * L ^ (0.45:ℝ) - (1.0993 - 1) + (1.0993 - 1)) / 1.0993 = L ^ (0.45:ℝ) := by
      field_simp; ring
    rw [this]
    exact rpow_rpow_inv h0 (by norm_num)

/-- sliver `[0.018, 0.0181)`: encoded linearly (4.5 L ∈ [0.081, 0.08145)), decoded by the power branch -/
theorem rec2020_dec_enc_sliver (L : ℝ) (h1 : 0.018 ≤ L) (h2 : L < 0.0181) :
    F64.compute_rec2020_gamma_expanded (F64.compute_rec2020_gamma_correction L)
      = ((4.5 * L + (α2020 - 1)) / α2020) ^ ((1 : ℝ) / 0.45)
    ∧ |F64.compute_rec2020_gamma_expanded (F64.compute_rec2020_gamma_correction L) - L| ≤ 1.01e-4 := by
  rw [rec2020_encode_is_bt2020, rec2020_decode_formula]
  unfold oetf2020 β2020
  rw [if_pos h2]
  unfold invOetf2020With
  rw [if_neg (by linarith)]
  refine ⟨rfl, ?_⟩
  unfold α2020
  have hb : (0.1640134 : ℝ) ≤ (4.5 * L + (1.0993 - 1)) / 1.0993 := by
    rw [le_div_iff₀ (by norm_num)]; linarith
  have hb' : (4.5 * L + (1.0993 - 1)) / 1.0993 ≤ (0.1644229 : ℝ) := by
    rw [div_le_iff₀ (by norm_num)]; linarith
  have hb0 : (0:ℝ) ≤ (4.5 * L + (1.0993 - 1)) / 1.0993 := le_trans (by norm_num) hb
  rw [e045i]
  have lo : (0.0180006 : ℝ) ≤ ((4.5 * L + (1.0993 - 1)) / 1.0993) ^ (((20:ℕ):ℝ) / ((9:ℕ):ℝ)) :=
    le_rpow_div 20 9 (by norm_num) hb0 (by norm_num)
      (le_trans (by norm_num) (pow_le_pow_left₀ (by norm_num) hb 20))
  have hi : ((4.5 * L + (1.0993 - 1)) / 1.0993) ^ (((20:ℕ):ℝ) / ((9:ℕ):ℝ)) ≤ (0.0181007 : ℝ) :=
    rpow_div_le 20 9 (by norm_num) hb0 (by norm_num)
      (le_trans (pow_le_pow_left₀ hb0 hb' 20) (by norm_num))
  rw [abs_le]; constructor <;> linarith

theorem rec2020_enc_dec (V : ℝ) (hV : V < 0.081 ∨ 0.08145 ≤ V) :
    F64.compute_rec2020_gamma_correction (F64.compute_rec2020_gamma_expanded V) = V := by
  rw [rec2020_encode_is_bt2020, rec2020_decode_formula]
  unfold invOetf2020With α2020
  rcases hV with h | h
  · rw [if_pos h]
    unfold oetf2020 β2020
    rw [if_pos (by rw [div_lt_iff₀ (by norm_num)]; linarith)]
    field_simp
  · rw [if_neg (by linarith)]
    have hb : (0.1644228 : ℝ) ≤ (V + (1.0993 - 1)) / 1.0993 := by
      rw [le_div_iff₀ (by norm_num)]; linarith
    have hb0 : (0:ℝ) ≤ (V + (1.0993 - 1)) / 1.0993 := le_trans (by norm_num) hb
    have hge : (0.0181 : ℝ) ≤ ((V + (1.0993 - 1)) / 1.0993) ^ ((1:ℝ) / 0.45) := by
      rw [e045i]
      exact le_rpow_div 20 9 (by norm_num) hb0 (by norm_num)
        (le_trans (by norm_num) (pow_le_pow_left₀ (by norm_num) hb 20))
    unfold oetf2020 β2020 α2020
    rw [if_neg (by linarith)]
    have : (((V + (1.0993 - 1)) / 1.0993) ^ ((1:ℝ) / 0.45)) ^ (0.45:ℝ) = (V + (1.0993 - 1)) / 1.0993 :=
      rpow_inv_rpow hb0 (by norm_num)
    rw [this]; field_simp; ring

theorem rec2020_enc_dec_sliver (V : ℝ) (h1 : 0.081 ≤ V) (h2 : V < 0.08145) :
    |F64.compute_rec2020_gamma_correction (F64.compute_rec2020_gamma_expanded V) - V| ≤ 4.6e-4 := by
  rw [rec2020_encode_is_bt2020, rec2020_decode_formula]
  unfold invOetf2020With α2020
  rw [if_neg (by linarith)]
  have hb : (0.1640134 : ℝ) ≤ (V + (1.0993 - 1)) / 1.0993 := by
    rw [le_div_iff₀ (by norm_num)]; linarith
  have hb' : (V + (1.0993 - 1)) / 1.0993 ≤ (0.1644229 : ℝ) := by
    rw [div_le_iff₀ (by norm_num)]; linarith
  have hb0 : (0:ℝ) ≤ (V + (1.0993 - 1)) / 1.0993 := le_trans (by norm_num) hb
  have lo : (0.0180006 : ℝ) ≤ ((V + (1.0993 - 1)) / 1.0993) ^ ((1:ℝ) / 0.45) := by
    rw [e045i]
    exact le_rpow_div 20 9 (by norm_num) hb0 (by norm_num)
      (le_trans (by norm_num) (pow_le_pow_left₀ (by norm_num) hb 20))
  have hi : ((V + (1.0993 - 1)) / 1.0993) ^ ((1:ℝ) / 0.45) ≤ (0.0181007 : ℝ) := by
    rw [e045i]
    exact rpow_div_le 20 9 (by norm_num) hb0 (by norm_num)
      (le_trans (pow_le_pow_left₀ hb0 hb' 20) (by norm_num))
  unfold oetf2020 β2020 α2020
  split_ifs with h
  · rw [abs_le]; constructor <;> linarith
  · have : (((V + (1.0993 - 1)) / 1.0993) ^ ((1:ℝ) / 0.45)) ^ (0.45:ℝ) = (V + (1.0993 - 1)) / 1.0993 :=
      rpow_inv_rpow hb0 (by norm_num)
    rw [this]
    have : 1.0993 * ((V + (1.0993 - 1)) / 1.0993) - (1.0993 - 1) - V = 0 := by field_simp; ring
    rw [this]; norm_num



/-! ## more definitional theorems -/

/-- negative (out-of-gamut) linear components are clamped to 0 by the Adobe encoder -/
theorem adobe_encode_total (x : ℝ) : F64.compute_argb_gamma_expanded x = encAdobe (max x 0) := by
  rcases le_or_gt 0 x with h | h
  · rw [max_eq_left h]; exact adobe_encode_is_spec x h
  · rw [max_eq_right h.le, adobe_encode_neg x h.le]
    unfold encAdobe adobeGamma
    rw [Real.zero_rpow (by norm_num)]

theorem adobe_decode_total (v : ℝ) : F64.compute_argb_gamma v = decAdobe (max v 0) := by
  rcases le_or_gt 0 v with h | h
  · rw [max_eq_left h]; exact adobe_decode_is_spec v h
  · rw [max_eq_right h.le, adobe_decode_neg v h.le]
    unfold decAdobe adobeGamma
    rw [Real.zero_rpow (by norm_num)]

theorem adobe_exponent : (1 : ℝ) / 2.19921875 = 256 / 563 ∧ adobeGamma = 2.19921875 := by
  unfold adobeGamma; norm_num

theorem argb_from_xyz_def (v : Xyz ℝ) :
    Argb.from_Xyz v = ⟨encAdobe (max (dot C.argb_XR v.x v.y v.z) 0), encAdobe (max (dot C.YG v.x v.y v.z) 0),
      encAdobe (max (dot C.ZB v.x v.y v.z) 0)⟩ := by
  simp only [Argb.from_Xyz, adobe_encode_total, dot]

theorem xyz_from_argb_def (s : Argb ℝ) :
    Xyz.from_Argb s = ⟨dot C.RR (decAdobe (max s.r 0)) (decAdobe (max s.g 0)) (decAdobe (max s.b 0)),
      dot C.GG (decAdobe (max s.r 0)) (decAdobe (max s.g 0)) (decAdobe (max s.b 0)),
      dot C.BB (decAdobe (max s.r 0)) (decAdobe (max s.g 0)) (decAdobe (max s.b 0))⟩ := by
  simp only [Xyz.from_Argb, adobe_decode_total, dot]

theorem rec709_from_xyz_def (v : Xyz ℝ) :
    Rec709.from_Xyz v = ⟨oetf709 (dot C.RX65 v.x v.y v.z), oetf709 (dot C.RY65 v.x v.y v.z),
      oetf709 (dot C.RZ65 v.x v.y v.z)⟩ := by
  simp only [Rec709.from_Xyz, rec709_encode_is_bt709, dot]

theorem xyz_from_rec709_def (s : Rec709 ℝ) :
    Xyz.from_Rec709 s = ⟨dot C.X65 (invOetf709 s.r) (invOetf709 s.g) (invOetf709 s.b),
      dot C.Y65 (invOetf709 s.r) (invOetf709 s.g) (invOetf709 s.b),
      dot C.Z65 (invOetf709 s.r) (invOetf709 s.g) (invOetf709 s.b)⟩ := by
  simp only [Xyz.from_Rec709, rec709_decode_is_bt709, dot]

theorem rec2020_from_xyz_def (v : Xyz ℝ) :
    Rec2020.from_Xyz v = ⟨oetf2020 (dot C.rec2020_XR v.x v.y v.z), oetf2020 (dot C.XG v.x v.y v.z),
      oetf2020 (dot C.XB v.x v.y v.z)⟩ := by
  simp only [Rec2020.from_Xyz, rec2020_encode_is_bt2020, dot]

theorem xyz_from_rec2020_def (s : Rec2020 ℝ) :
    Xyz.from_Rec2020 s = ⟨dot C.XX (invOetf2020With 0.081 s.r) (invOetf2020With 0.081 s.g) (invOetf2020With 0.081 s.b),
      dot C.XY (invOetf2020With 0.081 s.r) (invOetf2020With 0.081 s.g) (invOetf2020With 0.081 s.b),
      dot C.XZ (invOetf2020With 0.081 s.r) (invOetf2020With 0.081 s.g) (invOetf2020With 0.081 s.b)⟩ := by
  simp only [Xyz.from_Rec2020, rec2020_decode_formula, dot]

/-- Rec.2100: BT.2020 matrix, then the code's forward PQ curve (which is NOT ST 2084, see
`pq_forward_characterisation`) -/
theorem rec2100_from_xyz_def (v : Xyz ℝ) :
    Rec2100.from_Xyz v = ⟨F64.pq_eotf (dot C.rec2020_XR v.x v.y v.z), F64.pq_eotf (dot C.XG v.x v.y v.z),
      F64.pq_eotf (dot C.XB v.x v.y v.z)⟩ := by
  simp only [Rec2100.from_Xyz, dot]

theorem xyz_from_rec2100_def (s : Rec2100 ℝ) (hr : 0 ≤ s.r) (hg : 0 ≤ s.g) (hb : 0 ≤ s.b) :
    Xyz.from_Rec2100 s = ⟨dot C.XX (pqInvEotf s.r) (pqInvEotf s.g) (pqInvEotf s.b),
      dot C.XY (pqInvEotf s.r) (pqInvEotf s.g) (pqInvEotf s.b),
      dot C.XZ (pqInvEotf s.r) (pqInvEotf s.g) (pqInvEotf s.b)⟩ := by
  simp only [Xyz.from_Rec2100, pq_inverse_is_st2084 _ hr, pq_inverse_is_st2084 _ hg,
    pq_inverse_is_st2084 _ hb, dot]

/-- the matrices are the published ones (sRGB/BT.709 D65 by Lindbloom, 7 digits) -/
theorem matrices_published :
    (C.X65 : ℝ × ℝ × ℝ) = (0.4124564, 0.3575761, 0.1804375) ∧
    (C.Y65 : ℝ × ℝ × ℝ) = (0.2126729, 0.7151522, 0.0721750) ∧
    (C.Z65 : ℝ × ℝ × ℝ) = (0.0193339, 0.1191920, 0.9503041) ∧
    (C.RX65 : ℝ × ℝ × ℝ) = (3.2404542, -1.5371385, -0.4985314) ∧
    (C.RY65 : ℝ × ℝ × ℝ) = (-0.9692660, 1.8760108, 0.0415560) ∧
    (C.RZ65 : ℝ × ℝ × ℝ) = (0.0556434, -0.2040259, 1.0572252) := by
  simp only [C.X65, C.Y65, C.Z65, C.RX65, C.RY65, C.RZ65, FltReal.lit_eq, Prod.mk.injEq]
  norm_num


/-! ## known finding (b): the forward PQ curve is not ST 2084 -/

/-- at E = 1/2 the code's forward PQ value is strictly larger than the ST 2084 EOTF
(numerically ≈ 7490 against ≈ 92 cd/m²) -/
theorem pq_forward_is_not_st2084 : pqEotf (1 / 2) < F64.pq_eotf (1 / 2) := by
  rw [pq_forward_characterisation _ (by norm_num)]
  unfold pqEotf
  have em2 : (1 : ℝ) / m2 = ((32 : ℕ) : ℝ) / ((2523 : ℕ) : ℝ) := by unfold m2; norm_num
  have ht1 : ((1:ℝ) / 2) ^ (1 / m2) < 1 :=
    Real.rpow_lt_one (by norm_num) (by norm_num) (by unfold m2; norm_num)
  have htc : c1 < ((1:ℝ) / 2) ^ (1 / m2) := by
    rw [em2]; unfold c1
    refine lt_rpow_div 32 2523 (by norm_num) (by norm_num) (by norm_num) ?_
    calc ((3424:ℝ) / 4096) ^ 2523 ≤ ((3424:ℝ) / 4096) ^ 128 :=
          pow_le_pow_of_le_one (by norm_num) (by norm_num) (by norm_num)
      _ < ((1:ℝ) / 2) ^ 32 := by norm_num
  generalize ((1:ℝ) / 2) ^ (1 / m2) = t at ht1 htc
  have hc1 : (0:ℝ) < c1 := by unfold c1; norm_num
  have ht0 : 0 < t := lt_trans hc1 htc
  have hd : 0 < (c2 - c3) * t := mul_pos (by unfold c2 c3; norm_num) ht0
  have hc2 : (0:ℝ) < c2 := by unfold c2; norm_num
  have hdd : (c2 - c3) * t < c2 - c3 * t := by nlinarith
  rw [if_neg hd.ne']
  have hn : 0 < max (t - c1) 0 := lt_max_of_lt_left (by linarith)
  have hlt : max (t - c1) 0 / (c2 - c3 * t) < max (t - c1) 0 / ((c2 - c3) * t) :=
    div_lt_div_of_pos_left hn hd hdd
  have h0 : 0 ≤ max (t - c1) 0 / (c2 - c3 * t) := div_nonneg hn.le (by linarith)
  have := Real.rpow_lt_rpow h0 hlt (by unfold m1; norm_num : (0:ℝ) < 1 / m1)
  linarith


/-! ## forward sRGB for 8-bit colours -/

theorem xyz_from_rgb_d65_def (c : Rgb) :
    (Xyz.from_rgb c XyzKind.D65 : Xyz ℝ) =
      ⟨dot C.X65 (decSrgb (c.r / 255)) (decSrgb (c.g / 255)) (decSrgb (c.b / 255)),
       dot C.Y65 (decSrgb (c.r / 255)) (decSrgb (c.g / 255)) (decSrgb (c.b / 255)),
       dot C.Z65 (decSrgb (c.r / 255)) (decSrgb (c.g / 255)) (decSrgb (c.b / 255))⟩ := by
  simp only [Xyz.from_rgb, Xyz.compute_xyz_from_matrix, Srgb.as_f64, Srgb.from_Rgb, Rgb.as_f64,
    srgb_decode_is_iec, dot, FltReal.ofNat_eq, FltReal.lit_eq, Xyz.mk.injEq]
  norm_num
  refine ⟨?_, ?_, ?_⟩ <;> ring

/-- the XYZ→sRGB table is the inverse of the sRGB→XYZ table up to 2.76e-7 (row sums) on the unit cube -/
theorem srgb_matrix_roundtrip (a b c : ℝ) (ha : 0 ≤ a ∧ a ≤ 1) (hb : 0 ≤ b ∧ b ≤ 1) (hc : 0 ≤ c ∧ c ≤ 1) :
    |dot C.RX65 (dot C.X65 a b c) (dot C.Y65 a b c) (dot C.Z65 a b c) - a| ≤ 2.76e-7 ∧
    |dot C.RY65 (dot C.X65 a b c) (dot C.Y65 a b c) (dot C.Z65 a b c) - b| ≤ 1.87e-7 ∧
    |dot C.RZ65 (dot C.X65 a b c) (dot C.Y65 a b c) (dot C.Z65 a b c) - c| ≤ 8.2e-8 := by
  obtain ⟨ha0, ha1⟩ := ha
  obtain ⟨hb0, hb1⟩ := hb
  obtain ⟨hc0, hc1⟩ := hc
  simp only [dot, C.X65, C.Y65, C.Z65, C.RX65, C.RY65, C.RZ65, FltReal.lit_eq]
  norm_num
  refine ⟨?_, ?_, ?_⟩ <;> (rw [abs_le]; constructor <;> linarith)

theorem decSrgb_unit (v : ℝ) (h0 : 0 ≤ v) (h1 : v ≤ 1) : 0 ≤ decSrgb v ∧ decSrgb v ≤ 1 := by
  unfold decSrgb
  split_ifs with h
  · constructor
    · positivity
    · rw [div_le_iff₀ (by norm_num)]; linarith
  · have hb0 : (0:ℝ) ≤ (v + 0.055) / 1.055 := by positivity
    have hb1 : (v + 0.055) / 1.055 ≤ 1 := by rw [div_le_iff₀ (by norm_num)]; linarith
    exact ⟨Real.rpow_nonneg hb0 _, Real.rpow_le_one hb0 hb1 (by norm_num)⟩

/-- no 8-bit level falls into the sliver `(0.040449936, 0.04045]` (10/255 < … < 11/255) -/
theorem srgb_enc_dec_8bit (k : ℕ) : encSrgb (decSrgb ((k : ℝ) / 255)) = (k : ℝ) / 255 := by
  rcases Nat.lt_or_ge k 11 with h | h
  · apply srgb_enc_dec_linear
    have : (k : ℝ) ≤ 10 := by exact_mod_cast Nat.lt_succ_iff.mp h
    rw [div_le_iff₀ (by norm_num)]; linarith
  · apply srgb_enc_dec_power
    have : (11 : ℝ) ≤ k := by exact_mod_cast h
    rw [lt_div_iff₀ (by norm_num)]; linarith

theorem srgb_encode_quasi_lipschitz (a b : ℝ) : |encSrgb b - encSrgb a| ≤ 12.92 * |b - a| + 3e-8 := by
  rcases le_total a b with h | h
  · rw [abs_of_nonneg (sub_nonneg.mpr h)]
    exact srgb_enc_quasi_lipschitz encSrgb (fun _ => rfl) h
  · rw [abs_sub_comm, abs_sub_comm b a, abs_of_nonneg (sub_nonneg.mpr h)]
    exact srgb_enc_quasi_lipschitz encSrgb (fun _ => rfl) h

theorem forward_srgb_tight (c : Rgb) (hr : c.r ≤ 255) (hg : c.g ≤ 255) (hb : c.b ≤ 255) :
    |(Srgb.from_Xyz (Xyz.from_rgb c XyzKind.D65 : Xyz ℝ)).r - (c.r : ℝ) / 255| ≤ 3.6e-6 ∧
    |(Srgb.from_Xyz (Xyz.from_rgb c XyzKind.D65 : Xyz ℝ)).g - (c.g : ℝ) / 255| ≤ 3.6e-6 ∧
    |(Srgb.from_Xyz (Xyz.from_rgb c XyzKind.D65 : Xyz ℝ)).b - (c.b : ℝ) / 255| ≤ 3.6e-6 := by
  have u : ∀ k : ℕ, k ≤ 255 → 0 ≤ decSrgb ((k:ℝ) / 255) ∧ decSrgb ((k:ℝ) / 255) ≤ 1 := by
    intro k hk
    have : (k:ℝ) ≤ 255 := by exact_mod_cast hk
    exact decSrgb_unit _ (by positivity) (by rw [div_le_iff₀ (by norm_num)]; linarith)
  obtain ⟨m1, m2, m3⟩ := srgb_matrix_roundtrip _ _ _ (u _ hr) (u _ hg) (u _ hb)
  rw [srgb_from_xyz_def, xyz_from_rgb_d65_def]
  dsimp only
  have key : ∀ (k : ℕ) (t : ℝ), |t - decSrgb ((k:ℝ) / 255)| ≤ 2.76e-7 → |encSrgb t - (k:ℝ) / 255| ≤ 3.6e-6 := by
    intro k t ht
    have h := srgb_encode_quasi_lipschitz (decSrgb ((k:ℝ) / 255)) t
    rw [srgb_enc_dec_8bit] at h
    linarith
  exact ⟨key _ _ m1, key _ _ (le_trans m2 (by norm_num)), key _ _ (le_trans m3 (by norm_num))⟩

/-- **C08, sRGB forward**: XYZ(c, D65) → sRGB returns c/255 within 5e-6 -/
theorem forward_srgb (c : Rgb) (hr : c.r ≤ 255) (hg : c.g ≤ 255) (hb : c.b ≤ 255) :
    |(Srgb.from_Xyz (Xyz.from_rgb c XyzKind.D65 : Xyz ℝ)).r - (c.r : ℝ) / 255| ≤ 5e-6 ∧
    |(Srgb.from_Xyz (Xyz.from_rgb c XyzKind.D65 : Xyz ℝ)).g - (c.g : ℝ) / 255| ≤ 5e-6 ∧
    |(Srgb.from_Xyz (Xyz.from_rgb c XyzKind.D65 : Xyz ℝ)).b - (c.b : ℝ) / 255| ≤ 5e-6 := by
  obtain ⟨h1, h2, h3⟩ := forward_srgb_tight c hr hg hb
  exact ⟨le_trans h1 (by norm_num), le_trans h2 (by norm_num), le_trans h3 (by norm_num)⟩



/-- the remaining tables: Adobe RGB (1998) by Lindbloom (`xyz::A*`, `argb::RR..`), the 6-digit Adobe
inverse (`argb::XR..`), BT.2020 -/
theorem matrices_published_adobe_2020 :
    (C.AX : ℝ × ℝ × ℝ) = (0.5767309, 0.1855540, 0.1881852) ∧
    (C.AY : ℝ × ℝ × ℝ) = (0.2973769, 0.6273491, 0.0752741) ∧
    (C.AZ : ℝ × ℝ × ℝ) = (0.0270343, 0.0706872, 0.9911085) ∧
    (C.RR : ℝ × ℝ × ℝ) = C.AX ∧ (C.GG : ℝ × ℝ × ℝ) = C.AY ∧ (C.BB : ℝ × ℝ × ℝ) = C.AZ ∧
    (C.argb_XR : ℝ × ℝ × ℝ) = (2.041588, -0.565007, -0.344731) ∧
    (C.YG : ℝ × ℝ × ℝ) = (-0.969244, 1.875968, 0.041555) ∧
    (C.ZB : ℝ × ℝ × ℝ) = (0.013444, -0.118362, 1.015175) ∧
    (C.XX : ℝ × ℝ × ℝ) = (0.6369580, 0.1446169, 0.1688810) ∧
    (C.XY : ℝ × ℝ × ℝ) = (0.2627002, 0.6779981, 0.0593017) ∧
    (C.XZ : ℝ × ℝ × ℝ) = (0, 0.0280727, 1.0609851) := by
  simp only [C.AX, C.AY, C.AZ, C.RR, C.GG, C.BB, C.argb_XR, C.YG, C.ZB, C.XX, C.XY, C.XZ,
    FltReal.lit_eq, Prod.mk.injEq]
  norm_num

/-! ## Rec.709 forward for 8-bit colours -/

/-- no 8-bit level decodes near the BT.709 threshold 0.018: levels ≤ 36 stay below 0.0177, levels
≥ 37 are above 0.0185 -/
theorem decSrgb_8bit_avoids_bt709_threshold (k : ℕ) :
    (k ≤ 36 → decSrgb ((k:ℝ) / 255) ≤ 0.0177) ∧ (37 ≤ k → 0.0185 ≤ decSrgb ((k:ℝ) / 255)) := by
  have e : (2.4 : ℝ) = ((12:ℕ):ℝ) / ((5:ℕ):ℝ) := by norm_num
  constructor
  · intro hk
    have hk' : (k:ℝ) ≤ 36 := by exact_mod_cast hk
    have hv : (k:ℝ) / 255 ≤ 36 / 255 := by gcongr
    unfold decSrgb
    split_ifs with h
    · rw [div_le_iff₀ (by norm_num)]; linarith
    · have hb0 : (0:ℝ) ≤ ((k:ℝ) / 255 + 0.055) / 1.055 := by positivity
      have hb : ((k:ℝ) / 255 + 0.055) / 1.055 ≤ (36 / 255 + 0.055) / 1.055 := by gcongr
      rw [e]
      exact rpow_div_le 12 5 (by norm_num) hb0 (by norm_num)
        (le_trans (pow_le_pow_left₀ hb0 hb 12) (by norm_num))
  · intro hk
    have hk' : (37:ℝ) ≤ k := by exact_mod_cast hk
    have hv : (37:ℝ) / 255 ≤ (k:ℝ) / 255 := by gcongr
    unfold decSrgb
    rw [if_neg (by rw [not_le]; exact lt_of_lt_of_le (by norm_num) hv)]
    have hb : ((37:ℝ) / 255 + 0.055) / 1.055 ≤ ((k:ℝ) / 255 + 0.055) / 1.055 := by gcongr
    have hb0 : (0:ℝ) ≤ ((k:ℝ) / 255 + 0.055) / 1.055 := by positivity
    rw [e]
    exact le_rpow_div 12 5 (by norm_num) hb0 (by norm_num)
      (le_trans (by norm_num) (pow_le_pow_left₀ (by norm_num) hb 12))

theorem oetf709_lipschitz (a b : ℝ) (h : (a < 0.018 ∧ b < 0.018) ∨ (0.018 ≤ a ∧ 0.018 ≤ b)) :
    |oetf709 b - oetf709 a| ≤ 4.52 * |b - a| :=
  bt709_oetf_lipschitz oetf709 (fun _ => rfl) h

/-- **C08, Rec.709 forward**: XYZ(c, D65) → Rec.709 is the BT.709 OETF of the linear-light sRGB
(= BT.709 primaries) components `decSrgb(c/255)` within 1.3e-6 (property: 2e-6) -/
theorem forward_rec709 (c : Rgb) (hr : c.r ≤ 255) (hg : c.g ≤ 255) (hb : c.b ≤ 255) :
    |(Rec709.from_Xyz (Xyz.from_rgb c XyzKind.D65 : Xyz ℝ)).r - oetf709 (decSrgb ((c.r : ℝ) / 255))| ≤ 1.3e-6 ∧
    |(Rec709.from_Xyz (Xyz.from_rgb c XyzKind.D65 : Xyz ℝ)).g - oetf709 (decSrgb ((c.g : ℝ) / 255))| ≤ 1.3e-6 ∧
    |(Rec709.from_Xyz (Xyz.from_rgb c XyzKind.D65 : Xyz ℝ)).b - oetf709 (decSrgb ((c.b : ℝ) / 255))| ≤ 1.3e-6 := by
  have u : ∀ k : ℕ, k ≤ 255 → 0 ≤ decSrgb ((k:ℝ) / 255) ∧ decSrgb ((k:ℝ) / 255) ≤ 1 := by
    intro k hk
    have : (k:ℝ) ≤ 255 := by exact_mod_cast hk
    exact decSrgb_unit _ (by positivity) (by rw [div_le_iff₀ (by norm_num)]; linarith)
  obtain ⟨m1, m2, m3⟩ := srgb_matrix_roundtrip _ _ _ (u _ hr) (u _ hg) (u _ hb)
  rw [rec709_from_xyz_def, xyz_from_rgb_d65_def]
  dsimp only
  have key : ∀ (k : ℕ) (t : ℝ), |t - decSrgb ((k:ℝ) / 255)| ≤ 2.76e-7 →
      |oetf709 t - oetf709 (decSrgb ((k:ℝ) / 255))| ≤ 1.3e-6 := by
    intro k t ht
    obtain ⟨lo, hi⟩ := decSrgb_8bit_avoids_bt709_threshold k
    have ht' := abs_le.mp ht
    have side : (decSrgb ((k:ℝ) / 255) < 0.018 ∧ t < 0.018) ∨ (0.018 ≤ decSrgb ((k:ℝ) / 255) ∧ 0.018 ≤ t) := by
      rcases Nat.lt_or_ge k 37 with h | h
      · left; have := lo (Nat.lt_succ_iff.mp h); constructor <;> linarith [ht'.1, ht'.2]
      · right; have := hi h; constructor <;> linarith [ht'.1, ht'.2]
    have := oetf709_lipschitz _ _ side
    linarith
  exact ⟨key _ _ m1, key _ _ (le_trans m2 (by norm_num)), key _ _ (le_trans m3 (by norm_num))⟩


/-! ## Adobe RGB forward for 8-bit colours -/

theorem xyz_from_rgb_adobe_def (c : Rgb) :
    (Xyz.from_rgb c XyzKind.Adobe : Xyz ℝ) =
      ⟨dot C.AX (decAdobe (c.r / 255)) (decAdobe (c.g / 255)) (decAdobe (c.b / 255)),
       dot C.AY (decAdobe (c.r / 255)) (decAdobe (c.g / 255)) (decAdobe (c.b / 255)),
       dot C.AZ (decAdobe (c.r / 255)) (decAdobe (c.g / 255)) (decAdobe (c.b / 255))⟩ := by
  have h : ∀ k : ℕ, F64.compute_argb_gamma ((k:ℝ) / 255) = decAdobe ((k:ℝ) / 255) :=
    fun k => adobe_decode_is_spec _ (by positivity)
  simp only [Xyz.from_rgb, Xyz.compute_xyz_from_matrix, Argb.as_f64, Argb.from_Rgb, Rgb.as_f64,
    dot, FltReal.ofNat_eq, FltReal.lit_eq, Xyz.mk.injEq]
  norm_num
  simp only [h]
  refine ⟨?_, ?_, ?_⟩ <;> ring

/-- `argb::XR..` (6 digits) against `xyz::AX..` (Lindbloom, 7 digits) on the unit cube: the diagonal
is off by up to 2.32e-4 (relative), the off-diagonal part by at most 5.5e-7 -/
theorem argb_matrix_forward (a b c : ℝ) (ha : 0 ≤ a ∧ a ≤ 1) (hb : 0 ≤ b ∧ b ≤ 1) (hc : 0 ≤ c ∧ c ≤ 1) :
    |dot C.argb_XR (dot C.AX a b c) (dot C.AY a b c) (dot C.AZ a b c) - a| ≤ 2.32e-4 * a + 5.5e-7 ∧
    |dot C.YG (dot C.AX a b c) (dot C.AY a b c) (dot C.AZ a b c) - b| ≤ 2.32e-4 * b + 5.5e-7 ∧
    |dot C.ZB (dot C.AX a b c) (dot C.AY a b c) (dot C.AZ a b c) - c| ≤ 2.32e-4 * c + 5.5e-7 := by
  obtain ⟨ha0, ha1⟩ := ha
  obtain ⟨hb0, hb1⟩ := hb
  obtain ⟨hc0, hc1⟩ := hc
  simp only [dot, C.AX, C.AY, C.AZ, C.argb_XR, C.YG, C.ZB, FltReal.lit_eq]
  norm_num
  refine ⟨?_, ?_, ?_⟩ <;> (rw [abs_le]; constructor <;> linarith)

theorem decAdobe_unit (v : ℝ) (h0 : 0 ≤ v) (h1 : v ≤ 1) : 0 ≤ decAdobe v ∧ decAdobe v ≤ 1 := by
  unfold decAdobe adobeGamma
  exact ⟨Real.rpow_nonneg h0 _, Real.rpow_le_one h0 h1 (by norm_num)⟩

/-- the Adobe encoder applied to a slightly perturbed linear value `l ∈ [0,1]`: Hölder near 0,
relative perturbation elsewhere -/
theorem encAdobe_perturb (l t : ℝ) (hl0 : 0 ≤ l) (hl1 : l ≤ 1) (ht : |t - l| ≤ 2.32e-4 * l + 5.5e-7) :
    |encAdobe (max t 0) - encAdobe l| ≤ 2e-3 := by
  have hp0 : (0:ℝ) < 1 / adobeGamma := by unfold adobeGamma; norm_num
  have hp1 : (1:ℝ) / adobeGamma ≤ 1 := by unfold adobeGamma; norm_num
  have ht' := abs_le.mp ht
  unfold encAdobe
  rcases le_or_gt l 2e-3 with h | h
  · have hm : |max t 0 - l| ≤ 1.014e-6 := by
      rcases le_total 0 t with h0 | h0
      · rw [max_eq_left h0]; exact le_trans ht (by linarith)
      · rw [max_eq_right h0, abs_le]; constructor <;> linarith [ht'.1]
    have h1 := rpow_holder hp0 hp1 (le_max_right t 0) hl0
    have h2 : |max t 0 - l| ^ (1 / adobeGamma) ≤ (1.014e-6 : ℝ) ^ (1 / adobeGamma) :=
      Real.rpow_le_rpow (abs_nonneg _) hm hp0.le
    have h3 : (1.014e-6 : ℝ) ^ (1 / adobeGamma) ≤ (1.014e-6 : ℝ) ^ (((5:ℕ):ℝ) / ((11:ℕ):ℝ)) :=
      Real.rpow_le_rpow_of_exponent_ge (by norm_num) (by norm_num) (by unfold adobeGamma; norm_num)
    have h4 : (1.014e-6 : ℝ) ^ (((5:ℕ):ℝ) / ((11:ℕ):ℝ)) ≤ 2e-3 :=
      rpow_div_le 5 11 (by norm_num) (by norm_num) (by norm_num) (by norm_num)
    linarith
  · have htpos : 0 < t := by linarith [ht'.1]
    rw [max_eq_left htpos.le]
    have hrel : |t - l| ≤ 5.1e-4 * l := le_trans ht (by linarith)
    have h1 := rpow_rel_perturb hp0.le hp1 (by linarith : 0 < l) htpos hrel
    have h2 : l ^ (1 / adobeGamma) ≤ 1 := Real.rpow_le_one hl0 hl1 hp0.le
    have h3 : (0:ℝ) ≤ l ^ (1 / adobeGamma) := Real.rpow_nonneg hl0 _
    linarith

/-- **C08, Adobe RGB forward**: XYZ(c, Adobe) → Adobe RGB returns c/255 within 2e-3 -/
theorem forward_argb (c : Rgb) (hr : c.r ≤ 255) (hg : c.g ≤ 255) (hb : c.b ≤ 255) :
    |(Argb.from_Xyz (Xyz.from_rgb c XyzKind.Adobe : Xyz ℝ)).r - (c.r : ℝ) / 255| ≤ 2e-3 ∧
    |(Argb.from_Xyz (Xyz.from_rgb c XyzKind.Adobe : Xyz ℝ)).g - (c.g : ℝ) / 255| ≤ 2e-3 ∧
    |(Argb.from_Xyz (Xyz.from_rgb c XyzKind.Adobe : Xyz ℝ)).b - (c.b : ℝ) / 255| ≤ 2e-3 := by
  have u : ∀ k : ℕ, k ≤ 255 → 0 ≤ decAdobe ((k:ℝ) / 255) ∧ decAdobe ((k:ℝ) / 255) ≤ 1 := by
    intro k hk
    have : (k:ℝ) ≤ 255 := by exact_mod_cast hk
    exact decAdobe_unit _ (by positivity) (by rw [div_le_iff₀ (by norm_num)]; linarith)
  obtain ⟨m1, m2, m3⟩ := argb_matrix_forward _ _ _ (u _ hr) (u _ hg) (u _ hb)
  rw [argb_from_xyz_def, xyz_from_rgb_adobe_def]
  dsimp only
  have key : ∀ (k : ℕ) (t : ℝ), k ≤ 255 →
      |t - decAdobe ((k:ℝ) / 255)| ≤ 2.32e-4 * decAdobe ((k:ℝ) / 255) + 5.5e-7 →
      |encAdobe (max t 0) - (k:ℝ) / 255| ≤ 2e-3 := by
    intro k t hk ht
    have h := encAdobe_perturb _ t (u k hk).1 (u k hk).2 ht
    rwa [adobe_enc_dec _ (by positivity)] at h
  exact ⟨key _ _ hr m1, key _ _ hg m2, key _ _ hb m3⟩


/- Status of the C08 clauses
   * sRGB forward 5e-6: PROVED (`forward_srgb`, tight 3.6e-6).  Adobe forward 2e-3: PROVED (`forward_argb`).
   * Rec.709 forward 2e-6: PROVED (`forward_rec709`, 1.3e-6).
   * Rec.2020 forward: exact, definitional (`rec2020_from_xyz_def` + `rec2020_encode_is_bt2020`).
   * "Rec.2100 values follow ST 2084": FALSE of the code (known finding (b)):
     `rec2100_from_xyz_def` + `pq_forward_characterisation` + `pq_forward_is_not_st2084`.
   * reverse conversions: exact, definitional (`xyz_from_*_def`), with the BT.2020 decoder threshold
     finding (`rec2020_decode_formula`); `pq_inverse_eotf` is ST 2084 (`pq_inverse_is_st2084`).
   GOAL (not proved at full strength): the sliver bounds are crude interval bounds —
     `rec2020_dec_enc_sliver` 1.01e-4 (numerically ≈ 6.4e-7), `rec2020_enc_dec_sliver` 4.6e-4
     (≈ 2.9e-6), `bt709_enc_dec_sliver` 5e-4 (≈ 2.5e-4, a discontinuity of BT.709 itself).
     Missing: a second-order (convexity) estimate of `x^(20/9)` on the sliver. -/

/-! ## the hypotheses of the implications are satisfiable -/
example : (0.0031308 : ℝ) < 0.003130805 ∧ (0.003130805 : ℝ) ≤ 0.00313081 := by norm_num
example : (0.040449936 : ℝ) < 0.04045 ∧ (0.04045 : ℝ) ≤ 0.04045 := by norm_num
example : (0.00313081 : ℝ) < 0.5 := by norm_num
example : (0.081 : ℝ) ≤ 0.0811 ∧ (0.0811 : ℝ) < 0.081248 := by norm_num
example : (0.018 : ℝ) ≤ 0.01805 ∧ (0.01805 : ℝ) < 0.0181 := by norm_num
example : (0.081 : ℝ) ≤ 0.0812 ∧ (0.0812 : ℝ) < 0.08145 := by norm_num
example : ∃ c : Rgb, c.r ≤ 255 ∧ c.g ≤ 255 ∧ c.b ≤ 255 ∧ c = ⟨12, 200, 255⟩ := ⟨⟨12, 200, 255⟩, by decide⟩
example : ∃ s : Rec2100 ℝ, 0 ≤ s.r ∧ 0 ≤ s.g ∧ 0 ≤ s.b ∧ s.r = 100 := ⟨⟨100, 58, 0⟩, by norm_num⟩
/-- the encoder/decoder specifications at familiar points -/
example : encSrgb 0 = 0 ∧ decSrgb 0 = 0 ∧ encSrgb 1 = 1 ∧ decSrgb 1 = 1 := by
  unfold encSrgb decSrgb; norm_num
example : oetf709 1 = 1 ∧ oetf709 0 = 0 ∧ oetf2020 1 = 1 := by
  unfold oetf709 oetf2020 α2020 β2020; norm_num
/-- ST 2084: 10000 cd/m² is code value 1 (`c1 + c2 = 1 + c3`) -/
example : pqInvEotf 10000 = 1 := by
  unfold pqInvEotf c1 c2 c3 m1 m2; norm_num

end Props.C08
