import LymuiVerif.Props.C09
/-!
# C13 (RGB-derived models) — output ranges of HSL, HSV, HWB, CMYK, YUV, YCbCr, grayscale

Exact-real instance.  Every statement is about the generated conversion applied to an 8-bit colour
(`c.r, c.g, c.b ≤ 255`).
-/
namespace Props.C13_rgbmodels
open Gen Props.C09

/-- HSL: hue a whole number in `[0,360)`, saturation and lightness in `[0,100]` -/
theorem hsl_range (c : Rgb) (hr : c.r ≤ 255) (hg : c.g ≤ 255) (hb : c.b ≤ 255) :
    (∃ n : ℕ, n < 360 ∧ (Hsl.from_Rgb (α := ℝ) c).h = (n : ℝ)) ∧
    0 ≤ (Hsl.from_Rgb (α := ℝ) c).s ∧ (Hsl.from_Rgb (α := ℝ) c).s ≤ 100 ∧
    0 ≤ (Hsl.from_Rgb (α := ℝ) c).l ∧ (Hsl.from_Rgb (α := ℝ) c).l ≤ 100 := by
  obtain ⟨e1, e2, e3⟩ := hsl_forward c hr hg hb
  obtain ⟨b0, b1, b2⟩ := cmin_cmax_bounds c hr hg hb
  rw [e1, e2, e3]
  have hL0 : 0 ≤ stdL c := by
    have := le_trans b0 b1
    exact div_nonneg (div_nonneg (by linarith) (by norm_num)) (by norm_num)
  have hL1 : stdL c ≤ 1 := by unfold stdL; linarith
  have hS : 0 ≤ stdSHsl c ∧ stdSHsl c ≤ 1 := by
    unfold stdSHsl
    by_cases h : cmax c = cmin c
    · simp [h]
    · rw [if_neg h]
      have hd : 0 < cmax c - cmin c := by
        rcases lt_or_eq_of_le b1 with h' | h'
        · linarith
        · exact absurd h'.symm h
      have hden : (cmax c - cmin c) / 255 ≤ 1 - |2 * stdL c - 1| := by
        rcases abs_cases (2 * stdL c - 1) with ⟨ha, _⟩ | ⟨ha, _⟩ <;> rw [ha] <;> unfold stdL <;> linarith
      have hpos : 0 < 1 - |2 * stdL c - 1| := lt_of_lt_of_le (by positivity) hden
      exact ⟨div_nonneg (by positivity) hpos.le, (div_le_one hpos).mpr hden⟩
  refine ⟨hue_range c, ?_, ?_, ?_, ?_⟩ <;> nlinarith [hS.1, hS.2]

/-- HSV: hue a whole number in `[0,360)`, saturation and value in `[0,100]` -/
theorem hsv_range (c : Rgb) (hr : c.r ≤ 255) (hg : c.g ≤ 255) (hb : c.b ≤ 255) :
    (∃ n : ℕ, n < 360 ∧ (Hsv.from_Rgb (α := ℝ) c).h = (n : ℝ)) ∧
    0 ≤ (Hsv.from_Rgb (α := ℝ) c).s ∧ (Hsv.from_Rgb (α := ℝ) c).s ≤ 100 ∧
    0 ≤ (Hsv.from_Rgb (α := ℝ) c).v ∧ (Hsv.from_Rgb (α := ℝ) c).v ≤ 100 := by
  obtain ⟨e1, e2, e3⟩ := hsv_forward c hr hg hb
  obtain ⟨b0, b1, b2⟩ := cmin_cmax_bounds c hr hg hb
  rw [e1, e2, e3]
  have hS : 0 ≤ stdSHsv c ∧ stdSHsv c ≤ 1 := by
    unfold stdSHsv
    by_cases h : cmax c = 0
    · simp [h]
    · rw [if_neg h]
      have hp : 0 < cmax c := lt_of_le_of_ne (le_trans b0 b1) (Ne.symm h)
      exact ⟨div_nonneg (by linarith) hp.le, (div_le_one hp).mpr (by linarith)⟩
  have hV0 : 0 ≤ stdV c := by unfold stdV; have := le_trans b0 b1; positivity
  have hV1 : stdV c ≤ 1 := by unfold stdV; linarith
  refine ⟨hue_range c, ?_, ?_, ?_, ?_⟩ <;> nlinarith [hS.1, hS.2]

/-- HWB: hue a whole number in `[0,360)`, whiteness and blackness in `[0,100]`, sum at most 100 -/
theorem hwb_range (c : Rgb) (hr : c.r ≤ 255) (hg : c.g ≤ 255) (hb : c.b ≤ 255) :
    (∃ n : ℕ, n < 360 ∧ (Hwb.from_Rgb (α := ℝ) c).h = (n : ℝ)) ∧
    0 ≤ (Hwb.from_Rgb (α := ℝ) c).w ∧ (Hwb.from_Rgb (α := ℝ) c).w ≤ 100 ∧
    0 ≤ (Hwb.from_Rgb (α := ℝ) c).b ∧ (Hwb.from_Rgb (α := ℝ) c).b ≤ 100 ∧
    (Hwb.from_Rgb (α := ℝ) c).w + (Hwb.from_Rgb (α := ℝ) c).b ≤ 100 := by
  obtain ⟨e1, e2, e3⟩ := hwb_forward c hr hg hb
  obtain ⟨b0, b1, b2⟩ := cmin_cmax_bounds c hr hg hb
  rw [e1, e2, e3]
  unfold stdW stdB
  refine ⟨hue_range c, ?_, ?_, ?_, ?_, ?_⟩ <;> linarith

/-- CMYK: all four components in `[0,1]` (the black guard `k != 1` protects the division) -/
theorem cymk_range (c : Rgb) (hr : c.r ≤ 255) (hg : c.g ≤ 255) (hb : c.b ≤ 255) :
    (0 ≤ (Cymk.from_Rgb (α := ℝ) c).c ∧ (Cymk.from_Rgb (α := ℝ) c).c ≤ 1) ∧
    (0 ≤ (Cymk.from_Rgb (α := ℝ) c).m ∧ (Cymk.from_Rgb (α := ℝ) c).m ≤ 1) ∧
    (0 ≤ (Cymk.from_Rgb (α := ℝ) c).y ∧ (Cymk.from_Rgb (α := ℝ) c).y ≤ 1) ∧
    (0 ≤ (Cymk.from_Rgb (α := ℝ) c).k ∧ (Cymk.from_Rgb (α := ℝ) c).k ≤ 1) := by
  obtain ⟨b0, b1, b2⟩ := cmin_cmax_bounds c hr hg hb
  obtain ⟨⟨m1, m2, m3⟩, ⟨M1, M2, M3⟩⟩ := channel_bounds c
  have p1 : (0 : ℝ) ≤ c.r := Nat.cast_nonneg _
  have p2 : (0 : ℝ) ≤ c.g := Nat.cast_nonneg _
  have p3 : (0 : ℝ) ≤ c.b := Nat.cast_nonneg _
  unfold Cymk.from_Rgb
  simp only [get_min_max_spec, Rgb.as_f64, Cymk.default, FltReal.lit_eq, FltReal.beq_eq, FltReal.ofNat_eq,
    Nat.cast_ofNat, Nat.cast_one, div_one, Nat.cast_zero, Bool.not_eq_true', decide_eq_false_iff_not]
  by_cases h : cmax c = 0
  · have hk : (1 : ℝ) - cmax c / 255 = 1 := by rw [h]; norm_num
    simp [hk]
  · have hp : 0 < cmax c := lt_of_le_of_ne (le_trans b0 b1) (Ne.symm h)
    have hk : ¬ ((1 : ℝ) - cmax c / 255 = 1) := by intro e; apply h; linarith
    rw [if_pos hk]
    have hmk : 0 < 1 - (1 - cmax c / 255) := by linarith
    refine ⟨⟨div_nonneg (by linarith) hmk.le, (div_le_one hmk).mpr (by linarith)⟩,
      ⟨div_nonneg (by linarith) hmk.le, (div_le_one hmk).mpr (by linarith)⟩,
      ⟨div_nonneg (by linarith) hmk.le, (div_le_one hmk).mpr (by linarith)⟩, by linarith, by linarith⟩

/-- YUV: `Y ∈ [0,1]`, `|U| ≤ 0.436`, `|V| ≤ 0.615` -/
theorem yuv_range (c : Rgb) (hr : c.r ≤ 255) (hg : c.g ≤ 255) (hb : c.b ≤ 255) :
    0 ≤ (Yuv.from_Rgb (α := ℝ) c).y ∧ (Yuv.from_Rgb (α := ℝ) c).y ≤ 1 ∧
    |(Yuv.from_Rgb (α := ℝ) c).u| ≤ 0.436 ∧ |(Yuv.from_Rgb (α := ℝ) c).v| ≤ 0.615 := by
  have h1 : (c.r : ℝ) ≤ 255 := by exact_mod_cast hr
  have h2 : (c.g : ℝ) ≤ 255 := by exact_mod_cast hg
  have h3 : (c.b : ℝ) ≤ 255 := by exact_mod_cast hb
  have p1 : (0 : ℝ) ≤ c.r := Nat.cast_nonneg _
  have p2 : (0 : ℝ) ≤ c.g := Nat.cast_nonneg _
  have p3 : (0 : ℝ) ≤ c.b := Nat.cast_nonneg _
  simp only [Yuv.from_Rgb, Rgb.as_f64, FltReal.lit_eq, FltReal.ofNat_eq, Nat.cast_ofNat, Nat.cast_one, div_one]
  generalize (c.r : ℝ) = r at *; generalize (c.g : ℝ) = g at *; generalize (c.b : ℝ) = b at *
  refine ⟨by positivity, by linarith, ?_, ?_⟩
  · rw [abs_le]; constructor <;> linarith
  · rw [abs_le]; constructor <;> linarith

/-- YCbCr: `Y ∈ [16,235]`, `Cb, Cr ∈ [16,240]` (`as u8` is the floor here) -/
theorem ycbcr_range (c : Rgb) (hr : c.r ≤ 255) (hg : c.g ≤ 255) (hb : c.b ≤ 255) :
    (16 ≤ (Ycbcr.from_Rgb ℝ c).y ∧ (Ycbcr.from_Rgb ℝ c).y ≤ 235) ∧
    (16 ≤ (Ycbcr.from_Rgb ℝ c).cb ∧ (Ycbcr.from_Rgb ℝ c).cb ≤ 240) ∧
    (16 ≤ (Ycbcr.from_Rgb ℝ c).cr ∧ (Ycbcr.from_Rgb ℝ c).cr ≤ 240) := by
  have h1 : (c.r : ℝ) ≤ 255 := by exact_mod_cast hr
  have h2 : (c.g : ℝ) ≤ 255 := by exact_mod_cast hg
  have h3 : (c.b : ℝ) ≤ 255 := by exact_mod_cast hb
  have p1 : (0 : ℝ) ≤ c.r := Nat.cast_nonneg _
  have p2 : (0 : ℝ) ≤ c.g := Nat.cast_nonneg _
  have p3 : (0 : ℝ) ≤ c.b := Nat.cast_nonneg _
  simp only [Ycbcr.from_Rgb, Ycbcr.calculate_indices, Rgb.as_f64, FltReal.lit_eq, FltReal.ofNat_eq,
    FltReal.toU8_eq, Nat.cast_ofNat, Nat.cast_one, div_one]
  generalize (c.r : ℝ) = r at *; generalize (c.g : ℝ) = g at *; generalize (c.b : ℝ) = b at *
  refine ⟨?_, ?_, ?_⟩
  · exact QuantA2.toU8_bounds (a := 16) (b := 235) (by push_cast; linarith) (by push_cast; linarith) (by norm_num)
  · exact QuantA2.toU8_bounds (a := 16) (b := 240) (by push_cast; linarith) (by push_cast; linarith) (by norm_num)
  · exact QuantA2.toU8_bounds (a := 16) (b := 240) (by push_cast; linarith) (by push_cast; linarith) (by norm_num)

/-- Grayscale, all five modes, with the perturbation that explains the "minus one": the value
before `as u8` is a convex combination `x` of the channels (`cmin ≤ x ≤ cmax`), so on ℝ the result
lies between the smallest and the largest channel, and for any perturbation `|e| ≤ 1e-9` of `x`
(the float error) it lies between the smallest channel minus one and the largest channel. -/
theorem grayscale_value (c : Rgb) (hr : c.r ≤ 255) (hg : c.g ≤ 255) (hb : c.b ≤ 255)
    (k : GrayscaleKind) :
    ∃ x : ℝ, GrayScale.from_rgb ℝ c k = ⟨Real.toU8 x⟩ ∧ cmin c ≤ x ∧ x ≤ cmax c ∧
      ∀ e : ℝ, |e| ≤ 1e-9 →
        min (min c.r c.g) c.b ≤ Real.toU8 (x + e) + 1 ∧ Real.toU8 (x + e) ≤ max (max c.r c.g) c.b := by
  obtain ⟨⟨m1, m2, m3⟩, ⟨M1, M2, M3⟩⟩ := channel_bounds c
  obtain ⟨b0, b1, b2⟩ := cmin_cmax_bounds c hr hg hb
  obtain ⟨em, eM⟩ := cmin_cmax_nat c
  have hM255 : max (max c.r c.g) c.b ≤ 255 := by omega
  have rob : ∀ x : ℝ, cmin c ≤ x → x ≤ cmax c → ∀ e : ℝ, |e| ≤ 1e-9 →
      min (min c.r c.g) c.b ≤ Real.toU8 (x + e) + 1 ∧ Real.toU8 (x + e) ≤ max (max c.r c.g) c.b := by
    intro x hx0 hx1 e he
    rw [abs_le] at he
    have up : Real.toU8 (x + e) ≤ max (max c.r c.g) c.b :=
      QuantA2.toU8_le_of_lt (by rw [← eM]; linarith [he.2])
    refine ⟨?_, up⟩
    rcases Nat.eq_zero_or_pos (min (min c.r c.g) c.b) with h0 | hpos
    · omega
    · obtain ⟨n, hn⟩ : ∃ n, min (min c.r c.g) c.b = n + 1 := ⟨_, (Nat.succ_pred_eq_of_pos hpos).symm⟩
      have hcm : cmin c = (n : ℝ) + 1 := by rw [em, hn]; push_cast; ring
      have := (QuantA2.toU8_bounds (x := x + e) (a := n) (b := max (max c.r c.g) c.b)
        (by linarith [he.1]) (by rw [← eM]; linarith [he.2]) hM255).1
      omega
  cases k
  · refine ⟨(cmin c + cmax c) / 2, ?_, by linarith, by linarith, rob _ (by linarith) (by linarith)⟩
    simp [GrayScale.from_rgb, get_min_max_spec]
  · refine ⟨((c.r : ℝ) + c.g + c.b) / 3, ?_, by linarith, by linarith, rob _ (by linarith) (by linarith)⟩
    simp [GrayScale.from_rgb, Rgb.as_f64]
  · refine ⟨21 / 100 * (c.r : ℝ) + 18 / 25 * c.g + 7 / 100 * c.b, ?_, by linarith, by linarith,
      rob _ (by linarith) (by linarith)⟩
    simp [GrayScale.from_rgb, Rgb.as_f64]
  · refine ⟨1063 / 5000 * (c.r : ℝ) + 447 / 625 * c.g + 361 / 5000 * c.b, ?_, by linarith, by linarith,
      rob _ (by linarith) (by linarith)⟩
    simp [GrayScale.from_rgb, Rgb.as_f64]
  · refine ⟨2627 / 10000 * (c.r : ℝ) + 339 / 500 * c.g + 593 / 10000 * c.b, ?_, by linarith, by linarith,
      rob _ (by linarith) (by linarith)⟩
    simp [GrayScale.from_rgb, Rgb.as_f64]

/-- Grayscale (the property as stated): smallest channel minus one ≤ grey ≤ largest channel.
On ℝ the lower bound holds even without the "minus one" (`grayscale_range_exact`). -/
theorem grayscale_range (c : Rgb) (hr : c.r ≤ 255) (hg : c.g ≤ 255) (hb : c.b ≤ 255)
    (k : GrayscaleKind) :
    min (min c.r c.g) c.b - 1 ≤ (GrayScale.from_rgb ℝ c k)._0 ∧
      (GrayScale.from_rgb ℝ c k)._0 ≤ max (max c.r c.g) c.b := by
  obtain ⟨x, hx, _, _, h⟩ := grayscale_value c hr hg hb k
  have := h 0 (by norm_num)
  rw [add_zero] at this
  rw [hx]
  refine ⟨?_, this.2⟩
  show _ - 1 ≤ Real.toU8 x
  omega

/-- Grayscale on ℝ: smallest channel ≤ grey ≤ largest channel -/
theorem grayscale_range_exact (c : Rgb) (hr : c.r ≤ 255) (hg : c.g ≤ 255) (hb : c.b ≤ 255)
    (k : GrayscaleKind) :
    min (min c.r c.g) c.b ≤ (GrayScale.from_rgb ℝ c k)._0 ∧
      (GrayScale.from_rgb ℝ c k)._0 ≤ max (max c.r c.g) c.b := by
  obtain ⟨x, hx, h0, h1, _⟩ := grayscale_value c hr hg hb k
  obtain ⟨em, eM⟩ := cmin_cmax_nat c
  rw [hx]
  exact QuantA2.toU8_bounds (by rw [← em]; exact h0) (by rw [← eM]; linarith) (by omega)

/-! ## Examples -/

-- the hypotheses are satisfiable, e.g. by rgb(5,10,95); its YCbCr luma is 16 + ⌊15.635⌋ = 31
example : (Ycbcr.from_Rgb ℝ ⟨5, 10, 95⟩).y = 31 := by
  simp only [Ycbcr.from_Rgb, Ycbcr.calculate_indices, Rgb.as_f64, FltReal.lit_eq, FltReal.ofNat_eq,
    FltReal.toU8_eq, Nat.cast_ofNat, Nat.cast_one, div_one]
  have := QuantA2.toU8_bounds (x := (16 : ℝ) + 5 * (257 / 1000) + 10 * (63 / 125) + 95 * (49 / 500))
    (a := 31) (b := 31) (by norm_num) (by norm_num) (by norm_num)
  omega

-- white reaches the upper ends: Y = 235
example : (Ycbcr.from_Rgb ℝ ⟨255, 255, 255⟩).y = 235 := by
  simp only [Ycbcr.from_Rgb, Ycbcr.calculate_indices, Rgb.as_f64, FltReal.lit_eq, FltReal.ofNat_eq,
    FltReal.toU8_eq, Nat.cast_ofNat, Nat.cast_one, div_one]
  have := QuantA2.toU8_bounds (x := (16 : ℝ) + 255 * (257 / 1000) + 255 * (63 / 125) + 255 * (49 / 500))
    (a := 235) (b := 235) (by norm_num) (by norm_num) (by norm_num)
  omega

-- the U bound is nearly attained by blue: U = 0.492 * 0.886 = 0.435912
example : (Yuv.from_Rgb (α := ℝ) ⟨0, 0, 255⟩).u = 0.435912 := by
  simp only [Yuv.from_Rgb, Rgb.as_f64, FltReal.lit_eq, FltReal.ofNat_eq]; norm_num

end Props.C13_rgbmodels
