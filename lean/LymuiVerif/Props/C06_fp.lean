import LymuiVerif.Lemmas.FpCie
import LymuiVerif.Props.C06
/-!
# C06 in the rounded-arithmetic reading (`RF M`, every `M : FPModel`): forward conversions of the CIE family

Each theorem compares the generated conversion evaluated in `RF M` (one rounding after every `+ - * /`, every
literal, `cbrt`, `sqrt`; `Inst/Rounded.lean`) with the SAME generated conversion evaluated on exact reals at the
same input values `⟨x.x.val, x.y.val, x.z.val⟩` — the exact-real model is the one `Props/C06.lean` compares with
the CIE formulas (`lab_forward_tight`: `4e-5`, `3.3e-4`, `1.4e-4`; `xyy_forward`: exact), so the triangle
inequality gives the distance to the CIE formulas.

* `lab_forward_fp` — CIELAB, XYZ in `[0, 1.1]³`: `L` within `1e-11`, `a`, `b` within `1e-10`.
  SIDE CONDITION (`Clear`): each normalised component `X/Xn`, `Y/Yn`, `Z/Zn` is farther than `1e-12` from the
  threshold `0.008856` of `Lab::compute_f`.  Within rounding error of the threshold the computed and the real
  evaluation may take different branches, and the two branch formulas differ there by `3.3e-7` (the standard's
  rounded constants are not continuous), so no `1e-9` bound can hold without it.
  (Without the side condition: `FpCie.fwd_f_fp` + `FpCie.fwd_spec` show that the computed `f` value is within
  `3.4e-7 + 4e-15` of the exact CIE function at the computed ratio whichever branch is taken.)
* `xyy_forward_fp` — xyY, `X, Y, Z ≥ 0`, `X + Y + Z ≥ 1e-100`: chromaticities within `1e-15`, `Y` exact;
  `xyy_black_fp` — the `is_null` guard (exact comparison).
* `hlab_forward_fp` — Hunter Lab, `X, Z ∈ [0, 1.1]`, `Y ∈ [1e-5, 1.1]`: `L` within `1e-12`, `a`, `b` within `1e-9`
  (the quotient by `√(Y/100) ≥ 3e-4` is handled in relative error); `hlab_black_fp` — the guard `Y == 0`.
* CIELUV forward: see `Props/C06_fp_luv.lean`.
-/
namespace Props.C06_fp
open Gen FpErr FpLin FpCie

/-- the normalised component is clear of the threshold of `Lab::compute_f` by `1e-12` -/
def Clear (t : ℝ) : Prop := 1 / 10 ^ 12 ≤ |t - (C.EPSILON : ℝ)|

theorem lab_forward_fp (M : FPModel) (x : Xyz (RF M)) (hx0 : 0 ≤ x.x.val) (hx1 : x.x.val ≤ 11 / 10)
    (hy0 : 0 ≤ x.y.val) (hy1 : x.y.val ≤ 11 / 10) (hz0 : 0 ≤ x.z.val) (hz1 : x.z.val ≤ 11 / 10)
    (sx : Clear (x.x.val / (C.D65 : ℝ × ℝ × ℝ).1)) (sy : Clear (x.y.val / (C.D65 : ℝ × ℝ × ℝ).2.1))
    (sz : Clear (x.z.val / (C.D65 : ℝ × ℝ × ℝ).2.2)) :
    |(Lab.from_Xyz x).l.val - (Lab.from_Xyz (α := ℝ) ⟨x.x.val, x.y.val, x.z.val⟩).l| ≤ 1 / 10 ^ 11 ∧
    |(Lab.from_Xyz x).a.val - (Lab.from_Xyz (α := ℝ) ⟨x.x.val, x.y.val, x.z.val⟩).a| ≤ 1 / 10 ^ 10 ∧
    |(Lab.from_Xyz x).b.val - (Lab.from_Xyz (α := ℝ) ⟨x.x.val, x.y.val, x.z.val⟩).b| ≤ 1 / 10 ^ 10 := by
  obtain ⟨-, -, -, rx, -, rx0, rx1⟩ := ratio_fp M 95047 100000 (by norm_num) (by norm_num) hx0 hx1
  obtain ⟨-, -, -, ry, -, ry0, ry1⟩ := ratio_fp M 1 1 (by norm_num) (by norm_num) hy0 hy1
  obtain ⟨-, -, -, rz, -, rz0, rz1⟩ := ratio_fp M 108883 100000 (by norm_num) (by norm_num) hz0 hz1
  have cl : ∀ t : ℝ, Clear t → 1 / 10 ^ 12 ≤ |t - 1107 / 125000| := by
    intro t h; unfold Clear at h; simpa [C.EPSILON] using h
  have nx := fwd_f_close M (x.x / (C.D65 : RF M × RF M × RF M).1) _ (rx.trans (by norm_num)) rx0 rx1 (cl _ sx)
  have ny := fwd_f_close M (x.y / (C.D65 : RF M × RF M × RF M).2.1) _ (ry.trans (by norm_num)) ry0 ry1 (cl _ sy)
  have nz := fwd_f_close M (x.z / (C.D65 : RF M × RF M × RF M).2.2) _ (rz.trans (by norm_num)) rz0 rz1 (cl _ sz)
  simp only [Lab.from_Xyz, FltRF.sub_val, FltRF.mul_val, FltRF.lit_val]
  rw [lit_int M 16 (by norm_num), lit_int M 116 (by norm_num), lit_int M 500 (by norm_num),
    lit_int M 200 (by norm_num)]
  have n116 : Near ((116 : ℕ) : ℝ) 116 0 116 := Near.exact (by norm_num) (by norm_num)
  have n16 : Near ((16 : ℕ) : ℝ) 16 0 16 := Near.exact (by norm_num) (by norm_num)
  have n500 : Near ((500 : ℕ) : ℝ) 500 0 500 := Near.exact (by norm_num) (by norm_num)
  have n200 : Near ((200 : ℕ) : ℝ) 200 0 200 := Near.exact (by norm_num) (by norm_num)
  refine ⟨((n116.mul M ny).sub M n16).finish ?_ (by norm_num [FP.eps]),
    (n500.mul M (nx.sub M ny)).finish ?_ (by norm_num [FP.eps]),
    (n200.mul M (ny.sub M nz)).finish ?_ (by norm_num [FP.eps])⟩
  · simp only [C.D65, FltReal.lit_eq]; push_cast; ring
  · simp only [C.D65, FltReal.lit_eq]; push_cast; ring
  · simp only [C.D65, FltReal.lit_eq]; push_cast; ring

/-- **xyY forward in `RF M`**, non-negative XYZ with `X + Y + Z ≥ 1e-100` (not black, so the `is_null` guard —
an exact comparison — is not taken in either model): the chromaticities are within `1e-15` of the real
model's, `Y` is copied exactly.  No upper bound on the components is needed. -/
theorem xyy_forward_fp (M : FPModel) (x : Xyz (RF M)) (hx0 : 0 ≤ x.x.val) (hy0 : 0 ≤ x.y.val) (hz0 : 0 ≤ x.z.val)
    (hS : 1e-100 ≤ x.x.val + x.y.val + x.z.val) :
    |(Xyy.from_Xyz x).x.val - (Xyy.from_Xyz (α := ℝ) ⟨x.x.val, x.y.val, x.z.val⟩).x| ≤ 1 / 10 ^ 15 ∧
    |(Xyy.from_Xyz x).y.val - (Xyy.from_Xyz (α := ℝ) ⟨x.x.val, x.y.val, x.z.val⟩).y| ≤ 1 / 10 ^ 15 ∧
    (Xyy.from_Xyz x)._y.val = (Xyy.from_Xyz (α := ℝ) ⟨x.x.val, x.y.val, x.z.val⟩)._y := by
  have hS0 : 0 < x.x.val + x.y.val + x.z.val := lt_of_lt_of_le (by norm_num) hS
  have hn : ¬ (x.x.val = 0 ∧ x.y.val = 0 ∧ x.z.val = 0) := by
    rintro ⟨h1, h2, h3⟩; rw [h1, h2, h3] at hS0; norm_num at hS0
  rw [Props.C06.xyy_forward _ hS0.ne']
  simp only [Props.C06.xyY, if_neg hS0.ne']
  simp only [Xyy.from_Xyz, Xyy.get_fields_from_xyz, Xyy.compute_xyy, is_null_fp, hn, decide_false,
    Bool.false_eq_true, if_false, Option.getD_some, FltRF.div_val, FltRF.add_val]
  exact ⟨chroma_fp M hx0 hy0 hz0 hS hx0 (by linarith), chroma_fp M hx0 hy0 hz0 hS hy0 (by linarith), trivial⟩


/-- **Hunter Lab forward in `RF M`**, `X, Z ∈ [0, 1.1]`, `Y ∈ [1e-5, 1.1]` (the XYZ of every non-black 8-bit colour
has `Y ≥ 2e-5`; `Y = 0` takes the exact guard, `hlab_black_fp`): `L` within `1e-12`, `a`, `b` within `1e-9` of
the real model at the same values (which equals the Hunter formulas exactly, `Props.C06.hlab_forward`). -/
theorem hlab_forward_fp (M : FPModel) (x : Xyz (RF M)) (hx0 : 0 ≤ x.x.val) (hx1 : x.x.val ≤ 11 / 10)
    (hy0 : 1 / 10 ^ 5 ≤ x.y.val) (hy1 : x.y.val ≤ 11 / 10) (hz0 : 0 ≤ x.z.val) (hz1 : x.z.val ≤ 11 / 10) :
    |(Hlab.from_Xyz x).l.val - (Hlab.from_Xyz (α := ℝ) ⟨x.x.val, x.y.val, x.z.val⟩).l| ≤ 1 / 10 ^ 12 ∧
    |(Hlab.from_Xyz x).a.val - (Hlab.from_Xyz (α := ℝ) ⟨x.x.val, x.y.val, x.z.val⟩).a| ≤ 1 / 10 ^ 9 ∧
    |(Hlab.from_Xyz x).b.val - (Hlab.from_Xyz (α := ℝ) ⟨x.x.val, x.y.val, x.z.val⟩).b| ≤ 1 / 10 ^ 9 := by
  set X := x.x.val with hX
  set Y := x.y.val with hY
  set Z := x.z.val with hZ
  have hYne : ¬ Y = 0 := by intro h; rw [h] at hy0; norm_num at hy0
  obtain ⟨s1, s2, s3⟩ := hunter_sqrt M hy0 hy1
  -- unfold both models; whole-number literals are exact
  simp only [Hlab.from_Xyz, Hlab.get_ka_kb, C.XN, C.YN, C.ZN, FltRF.beq_eq, FltRF.lit_val, lit_zero,
    decide_eq_true_eq, ← hY, if_neg hYne]
  simp only [FltRF.mul_val, FltRF.div_val, FltRF.sub_val, FltRF.add_val, FltRF.sqrt_val, FltRF.lit_val, ← hX, ← hY, ← hZ]
  rw [lit_int M 100 (by norm_num), lit_int M 1000 (by norm_num), lit_int M 10 (by norm_num),
    lit_int M 175 (by norm_num), lit_int M 70 (by norm_num)]
  simp only [FltReal.beq_eq, FltReal.lit_eq, FltReal.sqrt_eq, decide_eq_true_eq, Nat.cast_ofNat, Nat.cast_one,
    Nat.cast_zero, div_one, if_neg hYne]
  -- normalised components with their true magnitudes
  have tyb : |Y / 100| ≤ 116 / 10 ^ 4 := by
    rw [abs_of_nonneg (by positivity), div_le_iff₀ (by norm_num)]; linarith
  have ty := rnd_abs M tyb (by norm_num)
  have lx : |M.rnd (95047 / 1000) - 95047 / 1000| ≤ FP.eps * 96 := by
    have := lit_close M 95047 1000 (B := 96) (by norm_num) (by norm_num); push_cast at this; exact this
  have lz : |M.rnd (108883 / 1000) - 108883 / 1000| ≤ FP.eps * 109 := by
    have := lit_close M 108883 1000 (B := 109) (by norm_num) (by norm_num); push_cast at this; exact this
  have z0 : ∀ t : ℝ, |t - t| ≤ 0 := fun t => by simp
  have txb : |X / (95047 / 1000)| ≤ 116 / 10 ^ 4 := by
    rw [abs_of_nonneg (by positivity), div_le_iff₀ (by norm_num)]; linarith
  have tzb : |Z / (108883 / 1000)| ≤ 116 / 10 ^ 4 := by
    rw [abs_of_nonneg (by positivity), div_le_iff₀ (by norm_num)]; linarith
  have tx := div_close M (z0 X) lx (Bx := 11 / 10) (m := 95) (by rw [abs_of_nonneg hx0]; exact hx1)
    (by rw [abs_of_pos (by norm_num)]; norm_num) (by norm_num [FP.eps]) txb (by norm_num)
  have tz := div_close M (z0 Z) lz (Bx := 11 / 10) (m := 108) (by rw [abs_of_nonneg hz0]; exact hz1)
    (by rw [abs_of_pos (by norm_num)]; norm_num) (by norm_num [FP.eps]) tzb (by norm_num)
  have dab : |X / (95047 / 1000) - Y / 100| ≤ 116 / 10 ^ 4 := by
    rw [abs_of_nonneg (by positivity)] at txb tyb
    have : 0 ≤ X / (95047 / 1000) := by positivity
    have : 0 ≤ Y / 100 := by positivity
    rw [abs_le]; constructor <;> linarith
  have dbb : |Y / 100 - Z / (108883 / 1000)| ≤ 116 / 10 ^ 4 := by
    rw [abs_of_nonneg (by positivity)] at tzb tyb
    have : 0 ≤ Z / (108883 / 1000) := by positivity
    have : 0 ≤ Y / 100 := by positivity
    rw [abs_le]; constructor <;> linarith
  have da := sub_close M tx ty dab (by norm_num)
  have db := sub_close M ty tz dbb (by norm_num)
  -- the coefficients 10·Ka, 10·Kb
  have n10 : Near (10 : ℝ) 10 0 10 := Near.exact (by norm_num) (by norm_num)
  have n100 : Near (100 : ℝ) 100 0 100 := Near.exact (by norm_num) (by norm_num)
  have n175 : Near (175 : ℝ) 175 0 175 := Near.exact (by norm_num) (by norm_num)
  have n70 : Near (70 : ℝ) 70 0 70 := Near.exact (by norm_num) (by norm_num)
  have l1 : Near (M.rnd (4951 / 25)) (4951 / 25) (FP.eps * 199) 199 := by
    have := Near.lit M 4951 25 (B := 199) (by norm_num) (by norm_num); push_cast at this; exact this
  have l2 : Near (M.rnd (21811 / 100)) (21811 / 100) (FP.eps * 219) 219 := by
    have := Near.lit M 21811 100 (B := 219) (by norm_num) (by norm_num); push_cast at this; exact this
  have l3 : Near (M.rnd (95047 / 1000)) (95047 / 1000) (FP.eps * 96) 96 := by
    have := Near.lit M 95047 1000 (B := 96) (by norm_num) (by norm_num); push_cast at this; exact this
  have l4 : Near (M.rnd (108883 / 1000)) (108883 / 1000) (FP.eps * 109) 109 := by
    have := Near.lit M 108883 1000 (B := 109) (by norm_num) (by norm_num); push_cast at this; exact this
  have nka := n10.mul M ((n175.div M l1 (m := 198) (Bq := 1)
    (by rw [abs_of_pos (by norm_num)]; norm_num) (by norm_num [FP.eps])
    (by rw [abs_of_pos (by norm_num)]; norm_num) le_rfl).mul M (n100.add M l3))
  have nkb := n10.mul M ((n70.div M l2 (m := 218) (Bq := 1)
    (by rw [abs_of_pos (by norm_num)]; norm_num) (by norm_num [FP.eps])
    (by rw [abs_of_pos (by norm_num)]; norm_num) le_rfl).mul M (n100.add M l4))
  refine ⟨?_, ?_, ?_⟩
  · -- L = 1000·√(Y/100)
    have nsq : Near (M.rnd (√(M.rnd (Y / 100)))) (√(Y / 100)) (4 / 10 ^ 17) 1 :=
      ⟨s1.trans (by have := Real.sqrt_nonneg (Y / 100); norm_num [FP.eps] at s3 ⊢; nlinarith),
        by rw [abs_of_nonneg (Real.sqrt_nonneg _)]; linarith, le_rfl⟩
    have n1000 : Near (1000 : ℝ) 1000 0 1000 := Near.exact (by norm_num) (by norm_num)
    exact (n1000.mul M nsq).finish rfl (by norm_num [FP.eps])
  · have h := hunter_term M hy0 hy1 (da.trans (by norm_num [FP.eps])) dab
      (nka.err.trans (by norm_num [FP.eps])) (by rw [abs_of_nonneg (by positivity)]; norm_num)
    exact h
  · have h := hunter_term M hy0 hy1 (db.trans (by norm_num [FP.eps])) dbb
      (nkb.err.trans (by norm_num [FP.eps])) (by rw [abs_of_nonneg (by positivity)]; norm_num)
    exact h


/-- Hunter Lab, `Y = 0` (black): the code's guard is an exact comparison and returns `(0, 0, 0)` in every model -/
theorem hlab_black_fp (M : FPModel) (x : Xyz (RF M)) (hy : x.y.val = 0) :
    (Hlab.from_Xyz x).l.val = 0 ∧ (Hlab.from_Xyz x).a.val = 0 ∧ (Hlab.from_Xyz x).b.val = 0 := by
  simp only [Hlab.from_Xyz, FltRF.beq_eq, FltRF.lit_val, lit_zero, hy, decide_true, if_true, and_self]

/-- xyY of black: the `is_null` guard returns the white-point chromaticity literals (each rounded once) and `Y` -/
theorem xyy_black_fp (M : FPModel) (x : Xyz (RF M)) (h1 : x.x.val = 0) (h2 : x.y.val = 0) (h3 : x.z.val = 0) :
    |(Xyy.from_Xyz x).x.val - (Xyy.from_Xyz (α := ℝ) ⟨0, 0, 0⟩).x| ≤ 1 / 10 ^ 16 ∧
    |(Xyy.from_Xyz x).y.val - (Xyy.from_Xyz (α := ℝ) ⟨0, 0, 0⟩).y| ≤ 1 / 10 ^ 16 ∧
    (Xyy.from_Xyz x)._y.val = 0 := by
  rw [Props.C06.xyy_black.2]
  simp only [Xyy.from_Xyz, Xyy.get_fields_from_xyz, Xyy.compute_xyy, is_null_fp, h1, h2, h3, and_self,
    decide_true, if_true, Option.getD_none, C.CHROMA_X, C.CHROMA_Y, FltRF.lit_val]
  have l1 := lit_close M 31271 100000 (B := 1 / 2) (by norm_num) (by norm_num)
  have l2 := lit_close M 16451 50000 (B := 1 / 2) (by norm_num) (by norm_num)
  refine ⟨?_, ?_, trivial⟩
  · refine le_trans (le_of_eq ?_) (l1.trans (by norm_num [FP.eps])); norm_num
  · refine le_trans (le_of_eq ?_) (l2.trans (by norm_num [FP.eps])); norm_num

/- CIELUV forward in `RF M`: proved in `Props/C06_fp_luv.lean` (`Props.C06_fp_luv.luv_forward_fp`, `luv_black_fp`,
`luv_forward_of_rgb_fp`, `luv_forward_cie_fp`; helper lemmas in `Lemmas/FpLuv.lean`). -/

/-! ## examples: the hypotheses are satisfiable -/

-- D65 white is clear of the threshold and in range
example : Clear ((95047 / 100000 : ℝ) / (C.D65 : ℝ × ℝ × ℝ).1) := by
  unfold Clear; simp only [C.D65, C.EPSILON, FltReal.lit_eq]; norm_num [abs_le, le_abs]
-- a concrete computed XYZ (exactly representable halves) in the exact model
example : |(Xyy.from_Xyz (⟨⟨1 / 2⟩, ⟨1 / 4⟩, ⟨1 / 4⟩⟩ : Xyz (RF FPModel.exact))).x.val -
    (Xyy.from_Xyz (α := ℝ) ⟨1 / 2, 1 / 4, 1 / 4⟩).x| ≤ 1 / 10 ^ 15 :=
  (xyy_forward_fp FPModel.exact ⟨⟨1 / 2⟩, ⟨1 / 4⟩, ⟨1 / 4⟩⟩ (by norm_num) (by norm_num) (by norm_num) (by norm_num)).1
example (M : FPModel) : |(Hlab.from_Xyz (⟨⟨1 / 2⟩, ⟨1 / 4⟩, ⟨1 / 4⟩⟩ : Xyz (RF M))).a.val -
    (Hlab.from_Xyz (α := ℝ) ⟨1 / 2, 1 / 4, 1 / 4⟩).a| ≤ 1 / 10 ^ 9 :=
  (hlab_forward_fp M ⟨⟨1 / 2⟩, ⟨1 / 4⟩, ⟨1 / 4⟩⟩ (by norm_num) (by norm_num) (by norm_num) (by norm_num) (by norm_num)
    (by norm_num)).2.1
example (M : FPModel) : |(Lab.from_Xyz (⟨⟨1 / 2⟩, ⟨1 / 4⟩, ⟨1 / 4⟩⟩ : Xyz (RF M))).a.val -
    (Lab.from_Xyz (α := ℝ) ⟨1 / 2, 1 / 4, 1 / 4⟩).a| ≤ 1 / 10 ^ 10 :=
  (lab_forward_fp M ⟨⟨1 / 2⟩, ⟨1 / 4⟩, ⟨1 / 4⟩⟩ (by norm_num) (by norm_num) (by norm_num) (by norm_num) (by norm_num)
    (by norm_num)
    (by unfold Clear; simp only [C.D65, C.EPSILON, FltReal.lit_eq]; norm_num [le_abs])
    (by unfold Clear; simp only [C.D65, C.EPSILON, FltReal.lit_eq]; norm_num [le_abs])
    (by unfold Clear; simp only [C.D65, C.EPSILON, FltReal.lit_eq]; norm_num [le_abs])).2.1

end Props.C06_fp
