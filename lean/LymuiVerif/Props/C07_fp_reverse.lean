import LymuiVerif.Lemmas.FpRevOk
import LymuiVerif.Props.C07
import LymuiVerif.Props.C14_fp
/-!
# C07 in the rounded-arithmetic reading (`RF M`, every `M : FPModel`): the REVERSE conversions
`Srgb::from(OkLab)`, `Xyz::from(OkLab)`, `Xyz::from(OkLch)` on arbitrary in-range inputs

Input box: `L ∈ [0, 1]`, `|a|, |b| ≤ 0.51` (OkLch: chroma `≤ 0.5`, EVERY real hue).  Every statement compares the generated
function evaluated in `RF M` with the SAME generated function on exact reals at the same input values (for OkLch: at the
exact polar→Cartesian image), which `Props.C07.oklab_reverse_def` identifies with Ottosson's inverse transform
(`pow22Inv ∘ R2 ∘ cube ∘ R1`, signed published matrices).

* The comparison is made in LINEAR light, as the real theorems and the oracle do: `FpRevOk.okLin` is the generated
  expression of `Srgb::from(OkLab)` before the final `as_non_linear` (`reverse_is_encode_of_linear`, by `rfl` for every
  carrier).  `linear_fp`: each linear-light component within `5e-13` of the exact-real one; `linear_ottosson_fp`: of
  Ottosson's inverse transform.
* The final `max(·,0)^(1/2.2)` has unbounded slope at 0, so the encoded values carry the Hölder bound
  `(5e-13)^(5/11) ≤ 3.6e-6` in general (`encoded_fp`; sharp in order of magnitude at a linear value 0) and `1.2e-11` for a
  channel whose real linear value is `≥ 1e-3` (`encoded_bright_fp`).  Hypothesis `lin ≤ 1.5` (in gamut means `≤ 1`): the
  exponent-perturbation lemma `FpXyz.rpow_exp_close` covers bases up to 2.
* `Xyz::from(OkLab)` = sRGB decoder ∘ `x^(1/2.2)` ∘ linear: `xyz_from_oklab_fp`, each XYZ component within `4e-10` of the
  real model, under the side condition `FpRevOk.ChanOK` for each REAL linear-light channel: clearly negative (`≤ −1e-9`:
  clamped to 0 in both evaluations) or bright and in gamut (`1e-3 ≤ lin ≤ 1`).  What the side condition excludes, and why:
  (i) `lin ∈ (−1e-9, 1e-3)`: the decoder is linear there (`/12.92`) but the encoder is only Hölder, the best bound is
  `(5e-13)^(5/11)/12.92 ≈ 3e-7 > 1e-9`; moreover the decoder's branch `v ≤ 0.04045` sits at `lin ≈ 8.6e-4`, where its two
  formulas differ (the sRGB standard's constants are not continuous); (ii) `lin > 1`: out of gamut.
* `Xyz::from(OkLch)`: `OkLab::from(OkLch)` in `RF M` is within `1.1e-14·c + 1e-240` of `(L, c·cos h, c·sin h)` for every
  real hue (`Props.C14.oklch_reverse_sharp_fp`, cited); `xyz_from_oklch_fp`: XYZ within `2.5e-9` of the real model at the
  same `(L, c, h)` (the input perturbation `5.6e-15` is amplified by `≈ 3e5`: `4.1` (matrix R1) · `10` (cube) · `8.5`
  (matrix R2) · `22` (slope of `x^(1/2.2)` at `1e-3`) · `36` (decoder and XYZ matrix)); `linear_oklch_fp`: linear light
  within `3e-12`.

* `xyz_from_oklab_any_fp`: NO side condition on the channels beyond "in gamut from above" (`lin ≤ 1`; any sign, any
  darkness): each XYZ component within `1e-6` of the real model (the property's tolerance is `1e-5`).  Dark channels
  (`lin ≤ 7e-4`) go through the decoder's linear segment, where the Hölder bound `3.6e-6` is divided by `12.92`; brighter
  channels have a Lipschitz encoder, and if the two evaluations take different branches of the decoder at `0.04045` the
  jump of the decoder there is at most `4e-8` (`FpRevOk.dec_gap`: rational certificates for `x^(12/5)`; the exact jump
  is `2.3e-9`).

/- GOAL (not proved): (1) the unconditional form for the OkLch path (the same argument with the Hölder certificate
   `(3e-12)^(5/11)`; about `2e-6`); (2) out-of-gamut channels `lin > 1.5` (`FpXyz.rpow_exp_close` bounds the effect of the
   rounded exponent `1/2.2` only for bases `≤ 2`; on the input box the linear values reach `≈ 10`). -/
-/
noncomputable section
namespace Props.C07_fp_reverse
open Gen FpRevOk Props.C07

/-- `Srgb::from(OkLab)` is `as_non_linear` applied to the linear-light triple `okLin` — for every carrier -/
theorem reverse_is_encode_of_linear {α : Type} [Flt α] (o : OkLab α) :
    Srgb.from_OkLab o = Srgb.as_non_linear (okLin o) := from_oklab_eq o

/-- on exact reals the linear-light triple is Ottosson's inverse transform `R2 · cube (R1 · lab)` -/
theorem oklin_is_ottossonInv (q : OkLab ℝ) :
    okLin q = ⟨(ottossonInv (q.l, q.a, q.b)).1, (ottossonInv (q.l, q.a, q.b)).2.1, (ottossonInv (q.l, q.a, q.b)).2.2⟩ := by
  simp only [okLin, ottossonInv, mulVec, row, cube3, R1, R2, C.ROL, C.ROM, C.ROS, C.ROR, C.ROG, C.ROB,
    FltReal.lit_eq, FltReal.powi_eq, Srgb.mk.injEq]
  norm_num
  refine ⟨?_, ?_, ?_⟩ <;> ring_nf

/-- **linear light**: each component of the linear-light triple computed in `RF M` is within `5e-13` of the exact-real
triple at the same `(L, a, b)` -/
theorem linear_fp (M : FPModel) (o : OkLab (RF M)) (hL0 : 0 ≤ o.l.val) (hL1 : o.l.val ≤ 1)
    (ha : |o.a.val| ≤ 51 / 100) (hb : |o.b.val| ≤ 51 / 100) :
    |(okLin o).r.val - (okLin (α := ℝ) ⟨o.l.val, o.a.val, o.b.val⟩).r| ≤ 5 / 10 ^ 13 ∧
    |(okLin o).g.val - (okLin (α := ℝ) ⟨o.l.val, o.a.val, o.b.val⟩).g| ≤ 5 / 10 ^ 13 ∧
    |(okLin o).b.val - (okLin (α := ℝ) ⟨o.l.val, o.a.val, o.b.val⟩).b| ≤ 5 / 10 ^ 13 :=
  oklin_fp M o hL0 hL1 ha hb

/-- linear light against Ottosson's inverse transform -/
theorem linear_ottosson_fp (M : FPModel) (o : OkLab (RF M)) (hL0 : 0 ≤ o.l.val) (hL1 : o.l.val ≤ 1)
    (ha : |o.a.val| ≤ 51 / 100) (hb : |o.b.val| ≤ 51 / 100) :
    |(okLin o).r.val - (ottossonInv (o.l.val, o.a.val, o.b.val)).1| ≤ 5 / 10 ^ 13 ∧
    |(okLin o).g.val - (ottossonInv (o.l.val, o.a.val, o.b.val)).2.1| ≤ 5 / 10 ^ 13 ∧
    |(okLin o).b.val - (ottossonInv (o.l.val, o.a.val, o.b.val)).2.2| ≤ 5 / 10 ^ 13 := by
  have h := linear_fp M o hL0 hL1 ha hb
  rwa [oklin_is_ottossonInv] at h

/-- **encoded values, Hölder bound**: every channel whose real linear value is `≤ 1.5` (any sign): the encoded value is
within `3.7e-6` of the real model's -/
theorem encoded_fp (M : FPModel) (o : OkLab (RF M)) (hL0 : 0 ≤ o.l.val) (hL1 : o.l.val ≤ 1)
    (ha : |o.a.val| ≤ 51 / 100) (hb : |o.b.val| ≤ 51 / 100) :
    let q : OkLab ℝ := ⟨o.l.val, o.a.val, o.b.val⟩
    ((okLin q).r ≤ 3 / 2 → |(Srgb.from_OkLab o).r.val - (Srgb.from_OkLab q).r| ≤ 37 / 10 ^ 7) ∧
    ((okLin q).g ≤ 3 / 2 → |(Srgb.from_OkLab o).g.val - (Srgb.from_OkLab q).g| ≤ 37 / 10 ^ 7) ∧
    ((okLin q).b ≤ 3 / 2 → |(Srgb.from_OkLab o).b.val - (Srgb.from_OkLab q).b| ≤ 37 / 10 ^ 7) := by
  intro q
  obtain ⟨l1, l2, l3⟩ := oklin_fp M o hL0 hL1 ha hb
  obtain ⟨f1, f2, f3⟩ := as_non_linear_fp M (okLin o)
  rw [from_oklab_eq o, from_oklab_eq q, as_non_linear_real, f1, f2, f3]
  have hc := holder_cert
  refine ⟨fun h => (enc_holder M l1 (by norm_num) hc h).trans (by norm_num),
    fun h => (enc_holder M l2 (by norm_num) hc h).trans (by norm_num),
    fun h => (enc_holder M l3 (by norm_num) hc h).trans (by norm_num)⟩

/-- **encoded values, bright channels**: a channel whose real linear value lies in `[1e-3, 1.5]`: within `1.2e-11` -/
theorem encoded_bright_fp (M : FPModel) (o : OkLab (RF M)) (hL0 : 0 ≤ o.l.val) (hL1 : o.l.val ≤ 1)
    (ha : |o.a.val| ≤ 51 / 100) (hb : |o.b.val| ≤ 51 / 100) :
    let q : OkLab ℝ := ⟨o.l.val, o.a.val, o.b.val⟩
    (1 / 1000 ≤ (okLin q).r → (okLin q).r ≤ 3 / 2 →
      |(Srgb.from_OkLab o).r.val - (Srgb.from_OkLab q).r| ≤ 12 / 10 ^ 12) ∧
    (1 / 1000 ≤ (okLin q).g → (okLin q).g ≤ 3 / 2 →
      |(Srgb.from_OkLab o).g.val - (Srgb.from_OkLab q).g| ≤ 12 / 10 ^ 12) ∧
    (1 / 1000 ≤ (okLin q).b → (okLin q).b ≤ 3 / 2 →
      |(Srgb.from_OkLab o).b.val - (Srgb.from_OkLab q).b| ≤ 12 / 10 ^ 12) := by
  intro q
  obtain ⟨l1, l2, l3⟩ := oklin_fp M o hL0 hL1 ha hb
  obtain ⟨f1, f2, f3⟩ := as_non_linear_fp M (okLin o)
  rw [from_oklab_eq o, from_oklab_eq q, as_non_linear_real, f1, f2, f3]
  refine ⟨fun h0 h => (enc_bright M l1 (by norm_num) h0 h).trans (by norm_num),
    fun h0 h => (enc_bright M l2 (by norm_num) h0 h).trans (by norm_num),
    fun h0 h => (enc_bright M l3 (by norm_num) h0 h).trans (by norm_num)⟩

/-- **`Xyz::from(OkLab)` in `RF M`**: every real linear-light channel clearly negative or bright and in gamut (`ChanOK`):
each XYZ component within `4e-10` of the real model at the same `(L, a, b)` -/
theorem xyz_from_oklab_fp (M : FPModel) (o : OkLab (RF M)) (hL0 : 0 ≤ o.l.val) (hL1 : o.l.val ≤ 1)
    (ha : |o.a.val| ≤ 51 / 100) (hb : |o.b.val| ≤ 51 / 100)
    (cr : ChanOK (okLin (α := ℝ) ⟨o.l.val, o.a.val, o.b.val⟩).r)
    (cg : ChanOK (okLin (α := ℝ) ⟨o.l.val, o.a.val, o.b.val⟩).g)
    (cb : ChanOK (okLin (α := ℝ) ⟨o.l.val, o.a.val, o.b.val⟩).b) :
    |(Xyz.from_OkLab o).x.val - (Xyz.from_OkLab (α := ℝ) ⟨o.l.val, o.a.val, o.b.val⟩).x| ≤ 4 / 10 ^ 10 ∧
    |(Xyz.from_OkLab o).y.val - (Xyz.from_OkLab (α := ℝ) ⟨o.l.val, o.a.val, o.b.val⟩).y| ≤ 4 / 10 ^ 10 ∧
    |(Xyz.from_OkLab o).z.val - (Xyz.from_OkLab (α := ℝ) ⟨o.l.val, o.a.val, o.b.val⟩).z| ≤ 4 / 10 ^ 10 := by
  have := xyz_from_oklab_close M o ⟨o.l.val, o.a.val, o.b.val⟩ 0 (by norm_num) rfl (by simp) (by simp) hL0 hL1 ha hb
    cr cg cb
  simpa using this

/-- **`Xyz::from(OkLab)` in `RF M`, no side condition on the channels** beyond `lin ≤ 1`: each XYZ component within `1e-6`
of the real model at the same `(L, a, b)`, whatever the sign or darkness of the linear-light channels and whatever
branches the sRGB decoder takes in either evaluation -/
theorem xyz_from_oklab_any_fp (M : FPModel) (o : OkLab (RF M)) (hL0 : 0 ≤ o.l.val) (hL1 : o.l.val ≤ 1)
    (ha : |o.a.val| ≤ 51 / 100) (hb : |o.b.val| ≤ 51 / 100)
    (cr : (okLin (α := ℝ) ⟨o.l.val, o.a.val, o.b.val⟩).r ≤ 1) (cg : (okLin (α := ℝ) ⟨o.l.val, o.a.val, o.b.val⟩).g ≤ 1)
    (cb : (okLin (α := ℝ) ⟨o.l.val, o.a.val, o.b.val⟩).b ≤ 1) :
    |(Xyz.from_OkLab o).x.val - (Xyz.from_OkLab (α := ℝ) ⟨o.l.val, o.a.val, o.b.val⟩).x| ≤ 1 / 10 ^ 6 ∧
    |(Xyz.from_OkLab o).y.val - (Xyz.from_OkLab (α := ℝ) ⟨o.l.val, o.a.val, o.b.val⟩).y| ≤ 1 / 10 ^ 6 ∧
    |(Xyz.from_OkLab o).z.val - (Xyz.from_OkLab (α := ℝ) ⟨o.l.val, o.a.val, o.b.val⟩).z| ≤ 1 / 10 ^ 6 :=
  xyz_from_oklab_any M o hL0 hL1 ha hb cr cg cb

/-! ## OkLch -/

/-- `OkLab::from(OkLch)` in `RF M` (cited: `Props.C14.oklch_reverse_sharp_fp`), chroma `≤ 0.5`, every real hue: the
computed Cartesian coordinates are within `5.6e-15` of those of the real model at the same `(L, c, h)`, which lie in the
input box of the theorems above -/
theorem oklab_from_oklch_fp (M : FPModel) (p : OkLch (RF M)) (hc0 : 0 ≤ p.c.val) (hc1 : p.c.val ≤ 1 / 2) :
    let q : OkLab ℝ := OkLab.from_OkLch (⟨p.l.val, p.c.val, p.h.val⟩ : OkLch ℝ)
    (OkLab.from_OkLch p).l.val = q.l ∧ |(OkLab.from_OkLch p).a.val - q.a| ≤ 56 / 10 ^ 16 ∧
    |(OkLab.from_OkLch p).b.val - q.b| ≤ 56 / 10 ^ 16 ∧ |q.a| ≤ 51 / 100 ∧ |q.b| ≤ 51 / 100 := by
  intro q
  obtain ⟨h1, h2, h3⟩ := Props.C14.oklch_reverse_sharp_fp M p hc0
  have hq : q = ⟨p.l.val, p.c.val * Real.cos p.h.val, p.c.val * Real.sin p.h.val⟩ := oklab_from_oklch_def _
  have hb : ∀ t : ℝ, |t| ≤ 1 → |p.c.val * t| ≤ 51 / 100 := by
    intro t ht
    rw [abs_mul, abs_of_nonneg hc0]
    nlinarith [abs_nonneg t]
  have he : (1.1e-14 : ℝ) * p.c.val + 1e-240 ≤ 56 / 10 ^ 16 := by norm_num; linarith
  rw [hq]
  exact ⟨by rw [h1], h2.trans he, h3.trans he, hb _ (Real.abs_cos_le_one _), hb _ (Real.abs_sin_le_one _)⟩

/-- linear light of the OkLch path: within `3e-12` of the real model at the same `(L, c, h)` -/
theorem linear_oklch_fp (M : FPModel) (p : OkLch (RF M)) (hL0 : 0 ≤ p.l.val) (hL1 : p.l.val ≤ 1)
    (hc0 : 0 ≤ p.c.val) (hc1 : p.c.val ≤ 1 / 2) :
    let q : OkLab ℝ := OkLab.from_OkLch (⟨p.l.val, p.c.val, p.h.val⟩ : OkLch ℝ)
    |(okLin (OkLab.from_OkLch p)).r.val - (okLin q).r| ≤ 3 / 10 ^ 12 ∧
    |(okLin (OkLab.from_OkLch p)).g.val - (okLin q).g| ≤ 3 / 10 ^ 12 ∧
    |(okLin (OkLab.from_OkLch p)).b.val - (okLin q).b| ≤ 3 / 10 ^ 12 := by
  intro q
  obtain ⟨k1, k2, k3, k4, k5⟩ := oklab_from_oklch_fp M p hc0 hc1
  have hql : q.l = p.l.val := by
    have hq : q = ⟨p.l.val, p.c.val * Real.cos p.h.val, p.c.val * Real.sin p.h.val⟩ := oklab_from_oklch_def _
    rw [hq]
  obtain ⟨l1, l2, l3⟩ := oklin_close M (OkLab.from_OkLch p) q (56 / 10 ^ 16) (by norm_num) k1 k2 k3
    (by rw [hql]; exact hL0) (by rw [hql]; exact hL1) k4 k5
  exact ⟨l1.trans (by norm_num), l2.trans (by norm_num), l3.trans (by norm_num)⟩

/-- **`Xyz::from(OkLch)` in `RF M`**, `L ∈ [0, 1]`, chroma `∈ [0, 0.5]`, EVERY real hue (radians), the real linear-light
channels `ChanOK`: each XYZ component within `2.5e-9` of the real model at the same `(L, c, h)` -/
theorem xyz_from_oklch_fp (M : FPModel) (p : OkLch (RF M)) (hL0 : 0 ≤ p.l.val) (hL1 : p.l.val ≤ 1)
    (hc0 : 0 ≤ p.c.val) (hc1 : p.c.val ≤ 1 / 2)
    (cr : ChanOK (okLin (OkLab.from_OkLch (⟨p.l.val, p.c.val, p.h.val⟩ : OkLch ℝ))).r)
    (cg : ChanOK (okLin (OkLab.from_OkLch (⟨p.l.val, p.c.val, p.h.val⟩ : OkLch ℝ))).g)
    (cb : ChanOK (okLin (OkLab.from_OkLch (⟨p.l.val, p.c.val, p.h.val⟩ : OkLch ℝ))).b) :
    |(Xyz.from_OkLch p).x.val - (Xyz.from_OkLch (α := ℝ) ⟨p.l.val, p.c.val, p.h.val⟩).x| ≤ 25 / 10 ^ 10 ∧
    |(Xyz.from_OkLch p).y.val - (Xyz.from_OkLch (α := ℝ) ⟨p.l.val, p.c.val, p.h.val⟩).y| ≤ 25 / 10 ^ 10 ∧
    |(Xyz.from_OkLch p).z.val - (Xyz.from_OkLch (α := ℝ) ⟨p.l.val, p.c.val, p.h.val⟩).z| ≤ 25 / 10 ^ 10 := by
  obtain ⟨k1, k2, k3, k4, k5⟩ := oklab_from_oklch_fp M p hc0 hc1
  set q : OkLab ℝ := OkLab.from_OkLch (⟨p.l.val, p.c.val, p.h.val⟩ : OkLch ℝ) with hqd
  have hql : q.l = p.l.val := by
    have hq : q = ⟨p.l.val, p.c.val * Real.cos p.h.val, p.c.val * Real.sin p.h.val⟩ := oklab_from_oklch_def _
    rw [hq]
  have hx : Xyz.from_OkLch p = Xyz.from_OkLab (OkLab.from_OkLch p) := rfl
  have hr : Xyz.from_OkLch (α := ℝ) ⟨p.l.val, p.c.val, p.h.val⟩ = Xyz.from_OkLab q := rfl
  rw [hx, hr]
  obtain ⟨x1, x2, x3⟩ := xyz_from_oklab_close M (OkLab.from_OkLch p) q (56 / 10 ^ 16) le_rfl k1 k2 k3
    (by rw [hql]; exact hL0) (by rw [hql]; exact hL1) k4 k5 cr cg cb
  exact ⟨x1.trans (by norm_num), x2.trans (by norm_num), x3.trans (by norm_num)⟩

/-! ## examples: the hypotheses are satisfiable by concrete non-trivial inputs -/

-- OkLab (0.5, 0.1, 0): all three real linear-light channels are bright and in gamut
theorem chanOK_example : ChanOK (okLin (α := ℝ) ⟨1 / 2, 1 / 10, 0⟩).r ∧ ChanOK (okLin (α := ℝ) ⟨1 / 2, 1 / 10, 0⟩).g ∧
    ChanOK (okLin (α := ℝ) ⟨1 / 2, 1 / 10, 0⟩).b := by
  simp only [ChanOK, okLin, C.ROL, C.ROM, C.ROS, C.ROR, C.ROG, C.ROB, FltReal.lit_eq, FltReal.powi_eq]
  norm_num

example (M : FPModel) :
    |(Xyz.from_OkLab (⟨⟨1 / 2⟩, ⟨1 / 10⟩, ⟨0⟩⟩ : OkLab (RF M))).y.val - (Xyz.from_OkLab (α := ℝ) ⟨1 / 2, 1 / 10, 0⟩).y|
      ≤ 4 / 10 ^ 10 :=
  (xyz_from_oklab_fp M ⟨⟨1 / 2⟩, ⟨1 / 10⟩, ⟨0⟩⟩ (by norm_num) (by norm_num) (by norm_num [abs_le]) (by norm_num)
    chanOK_example.1 chanOK_example.2.1 chanOK_example.2.2).2.1

example : |(okLin (⟨⟨1 / 2⟩, ⟨1 / 10⟩, ⟨0⟩⟩ : OkLab (RF FPModel.exact))).r.val
    - (ottossonInv (1 / 2, 1 / 10, 0)).1| ≤ 5 / 10 ^ 13 :=
  (linear_ottosson_fp FPModel.exact ⟨⟨1 / 2⟩, ⟨1 / 10⟩, ⟨0⟩⟩ (by norm_num) (by norm_num) (by norm_num [abs_le])
    (by norm_num)).1

-- an out-of-gamut input is inside the box of the linear-light theorem: (1, 0.5, -0.5)
example (M : FPModel) :
    |(okLin (⟨⟨1⟩, ⟨1 / 2⟩, ⟨-(1 / 2)⟩⟩ : OkLab (RF M))).b.val - (okLin (α := ℝ) ⟨1, 1 / 2, -(1 / 2)⟩).b| ≤ 5 / 10 ^ 13 :=
  (linear_fp M ⟨⟨1⟩, ⟨1 / 2⟩, ⟨-(1 / 2)⟩⟩ (by norm_num) (by norm_num) (by norm_num [abs_le]) (by norm_num [abs_le])).2.2

-- OkLch (0.5, 0.1, hue 0): the polar→Cartesian image is the OkLab value of the example above
example (M : FPModel) :
    |(Xyz.from_OkLch (⟨⟨1 / 2⟩, ⟨1 / 10⟩, ⟨0⟩⟩ : OkLch (RF M))).y.val - (Xyz.from_OkLch (α := ℝ) ⟨1 / 2, 1 / 10, 0⟩).y|
      ≤ 25 / 10 ^ 10 := by
  have hq : OkLab.from_OkLch (⟨1 / 2, 1 / 10, 0⟩ : OkLch ℝ) = ⟨1 / 2, 1 / 10, 0⟩ := by
    rw [oklab_from_oklch_def]; simp
  exact (xyz_from_oklch_fp M ⟨⟨1 / 2⟩, ⟨1 / 10⟩, ⟨0⟩⟩ (by norm_num) (by norm_num) (by norm_num) (by norm_num)
    (by rw [hq]; exact chanOK_example.1) (by rw [hq]; exact chanOK_example.2.1)
    (by rw [hq]; exact chanOK_example.2.2)).2.1

-- black (0, 0, 0): every linear channel is 0 (dark) — covered by the unconditional theorem, in every model
example (M : FPModel) :
    |(Xyz.from_OkLab (⟨⟨0⟩, ⟨0⟩, ⟨0⟩⟩ : OkLab (RF M))).y.val - (Xyz.from_OkLab (α := ℝ) ⟨0, 0, 0⟩).y| ≤ 1 / 10 ^ 6 := by
  have h : (okLin (α := ℝ) ⟨0, 0, 0⟩).r ≤ 1 ∧ (okLin (α := ℝ) ⟨0, 0, 0⟩).g ≤ 1 ∧ (okLin (α := ℝ) ⟨0, 0, 0⟩).b ≤ 1 := by
    simp only [okLin, C.ROL, C.ROM, C.ROS, C.ROR, C.ROG, C.ROB, FltReal.lit_eq, FltReal.powi_eq]; norm_num
  exact (xyz_from_oklab_any_fp M ⟨⟨0⟩, ⟨0⟩, ⟨0⟩⟩ (by norm_num) (by norm_num) (by norm_num) (by norm_num)
    h.1 h.2.1 h.2.2).2.1
-- a saturated blue-ish value with a NEGATIVE red channel, (0.45, -0.1, -0.2): covered by the unconditional theorem
theorem negative_red_example : (okLin (α := ℝ) ⟨9 / 20, -(1 / 10), -(1 / 5)⟩).r < 0 ∧
    (okLin (α := ℝ) ⟨9 / 20, -(1 / 10), -(1 / 5)⟩).r ≤ 1 ∧ (okLin (α := ℝ) ⟨9 / 20, -(1 / 10), -(1 / 5)⟩).g ≤ 1 ∧
    (okLin (α := ℝ) ⟨9 / 20, -(1 / 10), -(1 / 5)⟩).b ≤ 1 := by
  simp only [okLin, C.ROL, C.ROM, C.ROS, C.ROR, C.ROG, C.ROB, FltReal.lit_eq, FltReal.powi_eq]; norm_num
example (M : FPModel) :
    |(Xyz.from_OkLab (⟨⟨9 / 20⟩, ⟨-(1 / 10)⟩, ⟨-(1 / 5)⟩⟩ : OkLab (RF M))).z.val
      - (Xyz.from_OkLab (α := ℝ) ⟨9 / 20, -(1 / 10), -(1 / 5)⟩).z| ≤ 1 / 10 ^ 6 :=
  (xyz_from_oklab_any_fp M ⟨⟨9 / 20⟩, ⟨-(1 / 10)⟩, ⟨-(1 / 5)⟩⟩ (by norm_num) (by norm_num) (by norm_num [abs_le])
    (by norm_num [abs_le]) negative_red_example.2.1 negative_red_example.2.2.1 negative_red_example.2.2.2).2.2

end Props.C07_fp_reverse
