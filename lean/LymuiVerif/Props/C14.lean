import LymuiVerif.Lemmas.Polar
/-!
# C14 — polar forms (LCh(ab), LCh(uv), HCL, OkLch, HWB) and their Cartesian parents

Exact-real reading (`Flt ℝ`): `atan2 y x = Complex.arg ⟨x, y⟩ ∈ (-π, π]`, `sqrt = Real.sqrt`,
`sin`/`cos` the real functions, `π = Real.pi`.

Forward theorems are stated for an ARBITRARY `x : Xyz ℝ` (in particular for the XYZ of every 8-bit
colour, see `*_of_rgb`), reverse theorems for arbitrary reals.  All identities are exact in ℝ, so the
"within 1e-9 relative" of the property text is what remains for the floating-point evaluation of
`sqrt`, `atan2`, `sin`, `cos` (not modelled here).

Findings recorded by the statements below (none contradicts the property text):
* `Lchlab` wraps the hue with `h ≥ 0` (range `[0, 360)`), `Lchuv` with `h > 0` (range `(0, 360]`),
  `Hue::from(Luv)` (HCL) with `h < 0` (range `[0, 360)`); its first branch `h > 360` is dead.
  Consequently LCh(uv) and HCL agree except when the angle is exactly 0 (`v = 0 ∧ u ≥ 0`, which
  includes every grey `u = v = 0`): there LCh(uv) reports 360 and HCL reports 0.
-/
namespace Props.C14
open Gen Lemmas.Polar

/-! ## Specification -/

/-- hue angle of the vector `(a, b)` in degrees, in `(-180, 180]` (`atan2 (b, a)` in degrees) -/
noncomputable def hueDeg (a b : ℝ) : ℝ := Complex.arg ⟨a, b⟩ * 180 / Real.pi
/-- hue angle of the vector `(a, b)` in radians, in `(-π, π]` -/
noncomputable def hueRad (a b : ℝ) : ℝ := Complex.arg ⟨a, b⟩
/-- chroma -/
noncomputable def chroma (a b : ℝ) : ℝ := Real.sqrt (a ^ 2 + b ^ 2)

theorem hueDeg_range (a b : ℝ) : -180 < hueDeg a b ∧ hueDeg a b ≤ 180 := by
  have h : hueDeg a b = 180 * Complex.arg ⟨a, b⟩ / Real.pi := by unfold hueDeg; ring
  rw [h]; exact ⟨neg_lt_deg_arg a b, deg_arg_le a b⟩

theorem hueDeg_eq_zero_iff (a b : ℝ) : hueDeg a b = 0 ↔ 0 ≤ a ∧ b = 0 := by
  have h : hueDeg a b = 180 * Complex.arg ⟨a, b⟩ / Real.pi := by unfold hueDeg; ring
  rw [h]; exact deg_arg_eq_zero_iff a b

/-! ## Forward: LCh(ab) -/

/-- LCh(ab) has the lightness of CIELAB, chroma `√(a²+b²)`, hue `atan2(b,a)` in degrees wrapped by
`if h ≥ 0 then h else h + 360`. -/
theorem lchlab_forward (x : Xyz ℝ) :
    (Lchlab.from_Xyz x).l = (Lab.from_Xyz x).l ∧
    (Lchlab.from_Xyz x).c = chroma (Lab.from_Xyz x).a (Lab.from_Xyz x).b ∧
    (Lchlab.from_Xyz x).h =
      (if 0 ≤ hueDeg (Lab.from_Xyz x).a (Lab.from_Xyz x).b then hueDeg (Lab.from_Xyz x).a (Lab.from_Xyz x).b
       else hueDeg (Lab.from_Xyz x).a (Lab.from_Xyz x).b + 360) := by
  have e : ∀ a b, 180 * Complex.arg ⟨a, b⟩ / Real.pi = hueDeg a b := by intros; unfold hueDeg; ring
  simp only [Lchlab.from_Xyz, F64.get_degree_from_radian, FltReal.atan2_eq, FltReal.lit_eq, FltReal.le_eq,
    FltReal.pi_eq, FltReal.powi_eq, FltReal.sqrt_eq, chroma]
  -- `← sq` makes the proof indifferent to the source writing `x * x` or `x.powi(2)`
  norm_num [← sq]
  simp only [e]
  split <;> simp

/-- the LCh(ab) hue lies in `[0, 360)` -/
theorem lchlab_hue_range (x : Xyz ℝ) : 0 ≤ (Lchlab.from_Xyz x).h ∧ (Lchlab.from_Xyz x).h < 360 := by
  rw [(lchlab_forward x).2.2]
  have := hueDeg_range (Lab.from_Xyz x).a (Lab.from_Xyz x).b
  split <;> constructor <;> linarith

/-! ## Forward: LCh(uv) and HCL -/

/-- LCh(uv): same relation to CIELUV; the wrap is `if h > 0 then h else h + 360`. -/
theorem lchuv_forward (x : Xyz ℝ) :
    (Lchuv.from_Xyz x).l = (Luv.from_Xyz x).l ∧
    (Lchuv.from_Xyz x).c = chroma (Luv.from_Xyz x).u (Luv.from_Xyz x).v ∧
    (Lchuv.from_Xyz x).h =
      (if 0 < hueDeg (Luv.from_Xyz x).u (Luv.from_Xyz x).v then hueDeg (Luv.from_Xyz x).u (Luv.from_Xyz x).v
       else hueDeg (Luv.from_Xyz x).u (Luv.from_Xyz x).v + 360) := by
  have e : ∀ a b, 180 * Complex.arg ⟨a, b⟩ / Real.pi = hueDeg a b := by intros; unfold hueDeg; ring
  simp only [Lchuv.from_Xyz, F64.get_degree_from_radian, FltReal.atan2_eq, FltReal.lit_eq, FltReal.lt_eq,
    FltReal.pi_eq, FltReal.powi_eq, FltReal.sqrt_eq, chroma]
  norm_num
  simp only [e]
  split <;> simp

/-- the LCh(uv) hue lies in `(0, 360]` (360, not 0, on the positive `u` axis and for greys) -/
theorem lchuv_hue_range (x : Xyz ℝ) : 0 < (Lchuv.from_Xyz x).h ∧ (Lchuv.from_Xyz x).h ≤ 360 := by
  rw [(lchuv_forward x).2.2]
  have := hueDeg_range (Luv.from_Xyz x).u (Luv.from_Xyz x).v
  split <;> constructor <;> linarith

/-- `impl From<Luv> for Hue`: the angle in degrees, `+360` when negative (the `> 360` branch is dead). -/
theorem hue_from_luv (p : Luv ℝ) :
    (F64.from_Luv p : ℝ) = (if hueDeg p.u p.v < 0 then hueDeg p.u p.v + 360 else hueDeg p.u p.v) := by
  have e : ∀ a b, 180 * Complex.arg ⟨a, b⟩ / Real.pi = hueDeg a b := by intros; unfold hueDeg; ring
  simp only [F64.from_Luv, F64.get_degree_from_radian, FltReal.atan2_eq, FltReal.lit_eq, FltReal.lt_eq,
    FltReal.pi_eq]
  norm_num
  simp only [e]
  have := hueDeg_range p.u p.v
  rw [if_neg (by linarith)]

/-- HCL from CIELUV: lightness, chroma `√(u²+v²)`, hue as in `hue_from_luv`. -/
theorem hcl_from_luv (p : Luv ℝ) :
    (Hcl.from_Luv p).l = p.l ∧ (Hcl.from_Luv p).c = chroma p.u p.v ∧
    (Hcl.from_Luv p).h = (if hueDeg p.u p.v < 0 then hueDeg p.u p.v + 360 else hueDeg p.u p.v) := by
  refine ⟨rfl, ?_, ?_⟩
  · simp [Hcl.from_Luv, chroma, sq]
  · simp only [Hcl.from_Luv]; exact hue_from_luv p

/-- HCL of an XYZ: same relation to `Luv.from_Xyz x`. -/
theorem hcl_forward (x : Xyz ℝ) :
    (Hcl.from_Xyz x).l = (Luv.from_Xyz x).l ∧
    (Hcl.from_Xyz x).c = chroma (Luv.from_Xyz x).u (Luv.from_Xyz x).v ∧
    (Hcl.from_Xyz x).h =
      (if hueDeg (Luv.from_Xyz x).u (Luv.from_Xyz x).v < 0 then hueDeg (Luv.from_Xyz x).u (Luv.from_Xyz x).v + 360
       else hueDeg (Luv.from_Xyz x).u (Luv.from_Xyz x).v) :=
  hcl_from_luv (Luv.from_Xyz x)

/-- the HCL hue lies in `[0, 360)` -/
theorem hcl_hue_range (x : Xyz ℝ) : 0 ≤ (Hcl.from_Xyz x).h ∧ (Hcl.from_Xyz x).h < 360 := by
  rw [(hcl_forward x).2.2]
  have := hueDeg_range (Luv.from_Xyz x).u (Luv.from_Xyz x).v
  split <;> constructor <;> linarith

/-- LCh(uv) and HCL agree: same lightness, same chroma, and the same hue unless the angle is exactly 0
(`v = 0 ∧ 0 ≤ u`, which includes greys), where LCh(uv) gives 360 and HCL gives 0. -/
theorem hcl_lchuv_agree (x : Xyz ℝ) :
    (Hcl.from_Xyz x).l = (Lchuv.from_Xyz x).l ∧ (Hcl.from_Xyz x).c = (Lchuv.from_Xyz x).c ∧
    ((¬ (0 ≤ (Luv.from_Xyz x).u ∧ (Luv.from_Xyz x).v = 0) → (Hcl.from_Xyz x).h = (Lchuv.from_Xyz x).h) ∧
     ((0 ≤ (Luv.from_Xyz x).u ∧ (Luv.from_Xyz x).v = 0) → (Hcl.from_Xyz x).h = 0 ∧ (Lchuv.from_Xyz x).h = 360)) := by
  obtain ⟨h1, h2, h3⟩ := hcl_forward x
  obtain ⟨k1, k2, k3⟩ := lchuv_forward x
  refine ⟨h1.trans k1.symm, h2.trans k2.symm, ?_, ?_⟩
  · intro hne
    rw [← hueDeg_eq_zero_iff] at hne
    rw [h3, k3]
    rcases lt_trichotomy (hueDeg (Luv.from_Xyz x).u (Luv.from_Xyz x).v) 0 with h | h | h
    · rw [if_pos h, if_neg (by linarith)]
    · exact absurd h hne
    · rw [if_neg (by linarith), if_pos h]
  · intro he
    rw [← hueDeg_eq_zero_iff] at he
    rw [h3, k3, he]; norm_num

/-- in every case the two hues are equal modulo 360 -/
theorem hcl_lchuv_hue_mod (x : Xyz ℝ) :
    (Lchuv.from_Xyz x).h = (Hcl.from_Xyz x).h ∨ (Lchuv.from_Xyz x).h = (Hcl.from_Xyz x).h + 360 := by
  obtain ⟨_, _, h1, h2⟩ := hcl_lchuv_agree x
  by_cases h : 0 ≤ (Luv.from_Xyz x).u ∧ (Luv.from_Xyz x).v = 0
  · right; rw [(h2 h).1, (h2 h).2]; norm_num
  · left; exact (h1 h).symm

/-! ## Forward: OkLch (radians) -/

/-- OkLch has the lightness of OkLab, chroma `√(a²+b²)` and hue `atan2(b,a)` in radians. -/
theorem oklch_from_oklab (o : OkLab ℝ) :
    (OkLch.from_OkLab o).l = o.l ∧ (OkLch.from_OkLab o).c = chroma o.a o.b ∧
    (OkLch.from_OkLab o).h = hueRad o.a o.b := by
  refine ⟨rfl, ?_, rfl⟩
  simp [OkLch.from_OkLab, chroma]

theorem oklch_forward (x : Xyz ℝ) :
    (OkLch.from_Xyz x).l = (OkLab.from_Xyz x).l ∧
    (OkLch.from_Xyz x).c = chroma (OkLab.from_Xyz x).a (OkLab.from_Xyz x).b ∧
    (OkLch.from_Xyz x).h = hueRad (OkLab.from_Xyz x).a (OkLab.from_Xyz x).b :=
  oklch_from_oklab (OkLab.from_Xyz x)

/-- the OkLch hue lies in `(-π, π]` (it is not wrapped to `[0, 2π)`) -/
theorem oklch_hue_range (o : OkLab ℝ) :
    -Real.pi < (OkLch.from_OkLab o).h ∧ (OkLch.from_OkLab o).h ≤ Real.pi :=
  ⟨Complex.neg_pi_lt_arg _, Complex.arg_le_pi _⟩

/-! ## Forward: HWB -/

/-- HWB has the hue of HSV, whiteness `(100 - S)·V/100` and blackness `100 - V`. -/
theorem hwb_forward (c : Rgb) :
    (Hwb.from_Rgb c : Hwb ℝ).h = (Hsv.from_Rgb c : Hsv ℝ).h ∧
    (Hwb.from_Rgb c : Hwb ℝ).w = (100 - (Hsv.from_Rgb c : Hsv ℝ).s) * (Hsv.from_Rgb c : Hsv ℝ).v / 100 ∧
    (Hwb.from_Rgb c : Hwb ℝ).b = 100 - (Hsv.from_Rgb c : Hsv ℝ).v := by
  refine ⟨rfl, ?_, ?_⟩
  · simp only [Hwb.from_Rgb, FltReal.lit_eq]; norm_num; ring
  · simp only [Hwb.from_Rgb, FltReal.lit_eq]; norm_num; ring

/-! ## Reverse: polar → Cartesian (definitional form) -/

/-- `Lab::from(Lchlab)` is `(L, C·cos h°, C·sin h°)` for all reals -/
theorem lab_from_lchlab_def (L C h : ℝ) :
    Lab.from_Lchlab ⟨L, C, h⟩ = ⟨L, C * Real.cos (h * Real.pi / 180), C * Real.sin (h * Real.pi / 180)⟩ := by
  simp [Lab.from_Lchlab, F64.get_radian_from_degree]

theorem luv_from_lchuv_def (L C h : ℝ) :
    Luv.from_Lchuv ⟨L, C, h⟩ = ⟨L, C * Real.cos (h * Real.pi / 180), C * Real.sin (h * Real.pi / 180)⟩ := by
  simp [Luv.from_Lchuv, F64.get_radian_from_degree]

/-- note the field order of `Hcl`: `h, c, l` -/
theorem luv_from_hcl_def (L C h : ℝ) :
    Luv.from_Hcl ⟨h, C, L⟩ = ⟨L, C * Real.cos (h * Real.pi / 180), C * Real.sin (h * Real.pi / 180)⟩ := by
  simp [Luv.from_Hcl, F64.get_radian_from_degree]

/-- OkLch is in radians -/
theorem oklab_from_oklch_def (L C h : ℝ) :
    OkLab.from_OkLch ⟨L, C, h⟩ = ⟨L, C * Real.cos h, C * Real.sin h⟩ := by
  simp [OkLab.from_OkLch]

/-- zero chroma gives `(L, 0, 0)` whatever the hue -/
theorem zero_chroma (L h : ℝ) :
    Lab.from_Lchlab ⟨L, 0, h⟩ = ⟨L, 0, 0⟩ ∧ Luv.from_Lchuv ⟨L, 0, h⟩ = ⟨L, 0, 0⟩ ∧
    Luv.from_Hcl ⟨h, 0, L⟩ = ⟨L, 0, 0⟩ ∧ OkLab.from_OkLch ⟨L, 0, h⟩ = ⟨L, 0, 0⟩ := by
  simp [lab_from_lchlab_def, luv_from_lchuv_def, luv_from_hcl_def, oklab_from_oklch_def]

/-! ## Reverse ∘ forward = identity (exact), for every representative of the hue

For every Cartesian `(L, a, b)` — including `a = b = 0`, where the chroma is 0 — and every whole number
of turns `k` added to the hue, the code's reverse conversion applied to `(L, √(a²+b²), atan2(b,a)° + 360k)`
returns `(L, a, b)` exactly. -/

theorem lab_of_polar (L a b : ℝ) (k : ℤ) :
    Lab.from_Lchlab ⟨L, chroma a b, hueDeg a b + 360 * k⟩ = ⟨L, a, b⟩ := by
  rw [lab_from_lchlab_def]; unfold chroma hueDeg
  rw [(cos_sin_polar a b k).1, (cos_sin_polar a b k).2]

theorem luv_of_polar_lchuv (L u v : ℝ) (k : ℤ) :
    Luv.from_Lchuv ⟨L, chroma u v, hueDeg u v + 360 * k⟩ = ⟨L, u, v⟩ := by
  rw [luv_from_lchuv_def]; unfold chroma hueDeg
  rw [(cos_sin_polar u v k).1, (cos_sin_polar u v k).2]

theorem luv_of_polar_hcl (L u v : ℝ) (k : ℤ) :
    Luv.from_Hcl ⟨hueDeg u v + 360 * k, chroma u v, L⟩ = ⟨L, u, v⟩ := by
  rw [luv_from_hcl_def]; unfold chroma hueDeg
  rw [(cos_sin_polar u v k).1, (cos_sin_polar u v k).2]

theorem oklab_of_polar (L a b : ℝ) (k : ℤ) :
    OkLab.from_OkLch ⟨L, chroma a b, hueRad a b + k * (2 * Real.pi)⟩ = ⟨L, a, b⟩ := by
  rw [oklab_from_oklch_def, Real.cos_add_int_mul_two_pi, Real.sin_add_int_mul_two_pi]
  unfold chroma hueRad
  rw [sqrt_mul_cos_arg, sqrt_mul_sin_arg]

/-- the code's LCh(ab) of an XYZ converts back to the code's CIELAB of that XYZ, exactly -/
theorem lchlab_roundtrip (x : Xyz ℝ) : Lab.from_Lchlab (Lchlab.from_Xyz x) = Lab.from_Xyz x := by
  obtain ⟨h1, h2, h3⟩ := lchlab_forward x
  rw [show Lchlab.from_Xyz x = ⟨(Lchlab.from_Xyz x).l, (Lchlab.from_Xyz x).c, (Lchlab.from_Xyz x).h⟩ from rfl,
    h1, h2, h3]
  split
  · simpa using lab_of_polar (Lab.from_Xyz x).l (Lab.from_Xyz x).a (Lab.from_Xyz x).b 0
  · simpa using lab_of_polar (Lab.from_Xyz x).l (Lab.from_Xyz x).a (Lab.from_Xyz x).b 1

/-- the code's LCh(uv) of an XYZ converts back to the code's CIELUV of that XYZ, exactly -/
theorem lchuv_roundtrip (x : Xyz ℝ) : Luv.from_Lchuv (Lchuv.from_Xyz x) = Luv.from_Xyz x := by
  obtain ⟨h1, h2, h3⟩ := lchuv_forward x
  rw [show Lchuv.from_Xyz x = ⟨(Lchuv.from_Xyz x).l, (Lchuv.from_Xyz x).c, (Lchuv.from_Xyz x).h⟩ from rfl,
    h1, h2, h3]
  split
  · simpa using luv_of_polar_lchuv (Luv.from_Xyz x).l (Luv.from_Xyz x).u (Luv.from_Xyz x).v 0
  · simpa using luv_of_polar_lchuv (Luv.from_Xyz x).l (Luv.from_Xyz x).u (Luv.from_Xyz x).v 1

/-- HCL of ANY CIELUV value converts back to it, exactly -/
theorem hcl_roundtrip (p : Luv ℝ) : Luv.from_Hcl (Hcl.from_Luv p) = p := by
  obtain ⟨h1, h2, h3⟩ := hcl_from_luv p
  rw [show Hcl.from_Luv p = ⟨(Hcl.from_Luv p).h, (Hcl.from_Luv p).c, (Hcl.from_Luv p).l⟩ from rfl,
    h1, h2, h3]
  split
  · simpa using luv_of_polar_hcl p.l p.u p.v 1
  · simpa using luv_of_polar_hcl p.l p.u p.v 0

theorem hcl_roundtrip_xyz (x : Xyz ℝ) : Luv.from_Hcl (Hcl.from_Xyz x) = Luv.from_Xyz x :=
  hcl_roundtrip (Luv.from_Xyz x)

/-- OkLch of ANY OkLab value converts back to it, exactly -/
theorem oklch_roundtrip (o : OkLab ℝ) : OkLab.from_OkLch (OkLch.from_OkLab o) = o := by
  obtain ⟨h1, h2, h3⟩ := oklch_from_oklab o
  rw [show OkLch.from_OkLab o = ⟨(OkLch.from_OkLab o).l, (OkLch.from_OkLab o).c, (OkLch.from_OkLab o).h⟩ from rfl,
    h1, h2, h3]
  simpa using oklab_of_polar o.l o.a o.b 0

theorem oklch_roundtrip_xyz (x : Xyz ℝ) : OkLab.from_OkLch (OkLch.from_Xyz x) = OkLab.from_Xyz x :=
  oklch_roundtrip (OkLab.from_Xyz x)

/-! ## Forward ∘ reverse: every polar value `(L, C ≥ 0, h)` is the polar form of its Cartesian image -/

/-- the Cartesian image of `(L, C, h)` has chroma `C` (needs `C ≥ 0`) -/
theorem chroma_of_cartesian (L C h : ℝ) (hC : 0 ≤ C) :
    chroma (Lab.from_Lchlab ⟨L, C, h⟩).a (Lab.from_Lchlab ⟨L, C, h⟩).b = C ∧
    chroma (Luv.from_Lchuv ⟨L, C, h⟩).u (Luv.from_Lchuv ⟨L, C, h⟩).v = C ∧
    chroma (Luv.from_Hcl ⟨h, C, L⟩).u (Luv.from_Hcl ⟨h, C, L⟩).v = C ∧
    chroma (OkLab.from_OkLch ⟨L, C, h⟩).a (OkLab.from_OkLch ⟨L, C, h⟩).b = C := by
  simp only [lab_from_lchlab_def, luv_from_lchuv_def, luv_from_hcl_def, oklab_from_oklch_def, chroma]
  exact ⟨sqrt_polar C _ hC, sqrt_polar C _ hC, sqrt_polar C _ hC, sqrt_polar C _ hC⟩

/-- ... and, when `C > 0`, hue `h` up to a whole number of turns (for `C = 0` the hue is lost) -/
theorem hue_of_cartesian (L C h : ℝ) (hC : 0 < C) :
    (∃ k : ℤ, hueDeg (Lab.from_Lchlab ⟨L, C, h⟩).a (Lab.from_Lchlab ⟨L, C, h⟩).b = h + 360 * k) ∧
    (∃ k : ℤ, hueDeg (Luv.from_Lchuv ⟨L, C, h⟩).u (Luv.from_Lchuv ⟨L, C, h⟩).v = h + 360 * k) ∧
    (∃ k : ℤ, hueDeg (Luv.from_Hcl ⟨h, C, L⟩).u (Luv.from_Hcl ⟨h, C, L⟩).v = h + 360 * k) ∧
    (∃ k : ℤ, hueRad (OkLab.from_OkLch ⟨L, C, h⟩).a (OkLab.from_OkLch ⟨L, C, h⟩).b = h + k * (2 * Real.pi)) := by
  simp only [lab_from_lchlab_def, luv_from_lchuv_def, luv_from_hcl_def, oklab_from_oklch_def, hueDeg, hueRad]
  have key : ∃ k : ℤ, Complex.arg ⟨C * Real.cos (h * Real.pi / 180), C * Real.sin (h * Real.pi / 180)⟩ * 180 / Real.pi
      = h + 360 * k := by
    obtain ⟨k, hk⟩ := arg_polar C (h * Real.pi / 180) hC
    refine ⟨k, ?_⟩
    rw [hk]; field_simp; ring
  exact ⟨key, key, key, arg_polar C h hC⟩

/-! ## The same for the XYZ of an 8-bit colour (instances of the general theorems)

No bound `c.r ≤ 255` is needed: the theorems hold for every XYZ. -/

theorem lchlab_of_rgb (c : Rgb) (k : XyzKind) :
    let x : Xyz ℝ := Xyz.from_rgb c k
    (Lchlab.from_Xyz x).l = (Lab.from_Xyz x).l ∧
    (Lchlab.from_Xyz x).c = chroma (Lab.from_Xyz x).a (Lab.from_Xyz x).b ∧
    0 ≤ (Lchlab.from_Xyz x).h ∧ (Lchlab.from_Xyz x).h < 360 ∧
    Lab.from_Lchlab (Lchlab.from_Xyz x) = Lab.from_Xyz x := by
  intro x
  exact ⟨(lchlab_forward x).1, (lchlab_forward x).2.1, (lchlab_hue_range x).1, (lchlab_hue_range x).2,
    lchlab_roundtrip x⟩

theorem lchuv_hcl_of_rgb (c : Rgb) (k : XyzKind) :
    let x : Xyz ℝ := Xyz.from_rgb c k
    (Lchuv.from_Xyz x).l = (Luv.from_Xyz x).l ∧ (Hcl.from_Xyz x).l = (Luv.from_Xyz x).l ∧
    (Lchuv.from_Xyz x).c = chroma (Luv.from_Xyz x).u (Luv.from_Xyz x).v ∧
    (Hcl.from_Xyz x).c = chroma (Luv.from_Xyz x).u (Luv.from_Xyz x).v ∧
    Luv.from_Lchuv (Lchuv.from_Xyz x) = Luv.from_Xyz x ∧ Luv.from_Hcl (Hcl.from_Xyz x) = Luv.from_Xyz x := by
  intro x
  exact ⟨(lchuv_forward x).1, (hcl_forward x).1, (lchuv_forward x).2.1, (hcl_forward x).2.1,
    lchuv_roundtrip x, hcl_roundtrip_xyz x⟩

theorem oklch_of_rgb (c : Rgb) (k : XyzKind) :
    let x : Xyz ℝ := Xyz.from_rgb c k
    (OkLch.from_Xyz x).l = (OkLab.from_Xyz x).l ∧
    (OkLch.from_Xyz x).c = chroma (OkLab.from_Xyz x).a (OkLab.from_Xyz x).b ∧
    (OkLch.from_Xyz x).h = hueRad (OkLab.from_Xyz x).a (OkLab.from_Xyz x).b ∧
    OkLab.from_OkLch (OkLch.from_Xyz x) = OkLab.from_Xyz x := by
  intro x
  exact ⟨(oklch_forward x).1, (oklch_forward x).2.1, (oklch_forward x).2.2, oklch_roundtrip_xyz x⟩

/-! ## Examples (hypotheses are satisfiable; the special case of `hcl_lchuv_agree` really occurs) -/

-- `0 ≤ C`, `0 < C` of `chroma_of_cartesian` / `hue_of_cartesian`
example : chroma (Lab.from_Lchlab ⟨50, 30, 400⟩).a (Lab.from_Lchlab ⟨50, 30, 400⟩).b = 30 :=
  (chroma_of_cartesian 50 30 400 (by norm_num)).1
example : ∃ k : ℤ, hueDeg (Lab.from_Lchlab ⟨50, 30, 400⟩).a (Lab.from_Lchlab ⟨50, 30, 400⟩).b = 400 + 360 * k :=
  (hue_of_cartesian 50 30 400 (by norm_num)).1

-- black is a grey: `u = v = 0`, LCh(uv) reports hue 360 while HCL reports 0
example : (Luv.from_Xyz (⟨0, 0, 0⟩ : Xyz ℝ)).u = 0 ∧ (Luv.from_Xyz (⟨0, 0, 0⟩ : Xyz ℝ)).v = 0 := by
  simp [Luv.from_Xyz, Luv.compute_compounds, C.D65, C.EPSILON, C.KAPPA]
  norm_num
example : (Hcl.from_Xyz (⟨0, 0, 0⟩ : Xyz ℝ)).h = 0 ∧ (Lchuv.from_Xyz (⟨0, 0, 0⟩ : Xyz ℝ)).h = 360 := by
  refine (hcl_lchuv_agree _).2.2.2 ?_
  simp [Luv.from_Xyz, Luv.compute_compounds, C.D65, C.EPSILON, C.KAPPA]
  norm_num

-- the generic case occurs too: the equal-energy point (1,1,1) has `v ≠ 0`
example : ¬ (0 ≤ (Luv.from_Xyz (⟨1, 1, 1⟩ : Xyz ℝ)).u ∧ (Luv.from_Xyz (⟨1, 1, 1⟩ : Xyz ℝ)).v = 0) := by
  simp [Luv.from_Xyz, Luv.compute_compounds, C.D65, C.EPSILON, C.KAPPA]
  norm_num

-- HWB of a concrete colour
example : (Hwb.from_Rgb ⟨255, 0, 0⟩ : Hwb ℝ).b = 100 - (Hsv.from_Rgb ⟨255, 0, 0⟩ : Hsv ℝ).v :=
  (hwb_forward _).2.2

end Props.C14
