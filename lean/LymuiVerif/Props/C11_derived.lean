import LymuiVerif.Lemmas.GreyF2
import LymuiVerif.Props.C14
import LymuiVerif.Props.C13_xyz
/-!
# C11 (remaining greys) — OkLab / OkLch and the encoded RGB spaces

"Every grey (v,v,v) is reported as achromatic …: |a|, |b| … and chroma … below 1e-6 in OkLab/OkLch …,
and equal R = G = B channels (within 2e-3 relative) in sRGB, Adobe RGB, Rec.709, Rec.2020 and Rec.2100.
White has lightness … 1 in OkLab … and black has lightness 0."

XYZ of the grey under the D65 profile (Adobe profile for Adobe RGB), exact-real reading, all 256 greys.

* "equal within 2e-3 relative" is `Eq3` (`Lemmas.GreyF2.Eq3`, restated by `eq3_def`): every pairwise
  difference is at most `2e-3` times the largest magnitude of the three — the reading of the test oracle.
* The channels are NOT exactly equal: the linear components are `σᵢ·t` with `σ` the row sums of
  (XYZ→RGB table)·(RGB→XYZ table): sRGB/Rec.709 `1 ± 2.5e-7`, Rec.2020 `(1.0000818, 0.9999872, 0.9997857)`,
  Adobe `(1.0001078, 0.9999771, 0.9997691)`.
* BT.709's OETF jumps by `2.5e-4` (3e-3 relative) at `0.018`; the proofs use that no 8-bit level decodes
  between `0.0177` and `0.0185` (`Props.C08.decSrgb_8bit_avoids_bt709_threshold`), so no grey straddles it.
-/
namespace Props.C11_derived
open Gen Lemmas.GreyF2

/-- XYZ of the grey `(v,v,v)`, D65 profile / Adobe profile -/
noncomputable abbrev grey (v : ℕ) : Xyz ℝ := Xyz.from_rgb ⟨v, v, v⟩ XyzKind.D65
noncomputable abbrev greyA (v : ℕ) : Xyz ℝ := Xyz.from_rgb ⟨v, v, v⟩ XyzKind.Adobe

/-- the meaning of `Eq3` -/
theorem eq3_def (a b c : ℝ) : Eq3 a b c ↔
    (|a - b| ≤ 2e-3 * max |a| (max |b| |c|) ∧ |a - c| ≤ 2e-3 * max |a| (max |b| |c|) ∧
      |b - c| ≤ 2e-3 * max |a| (max |b| |c|)) := Iff.rfl

/-! ## equal channels -/

/-- **sRGB**: equal channels (in fact within `7.2e-7` relative) -/
theorem srgb_channels_equal (v : ℕ) (hv : v ≤ 255) :
    Eq3 (Srgb.from_Xyz (grey v)).r (Srgb.from_Xyz (grey v)).g (Srgb.from_Xyz (grey v)).b :=
  srgb_grey v hv

/-- **Adobe RGB** (from the Adobe-profile XYZ): within `4e-4` relative -/
theorem argb_channels_equal (v : ℕ) (hv : v ≤ 255) :
    Eq3 (Argb.from_Xyz (greyA v)).r (Argb.from_Xyz (greyA v)).g (Argb.from_Xyz (greyA v)).b :=
  argb_grey v hv

/-- **Rec.709**: within `6.8e-7` relative -/
theorem rec709_channels_equal (v : ℕ) (hv : v ≤ 255) :
    Eq3 (Rec709.from_Xyz (grey v)).r (Rec709.from_Xyz (grey v)).g (Rec709.from_Xyz (grey v)).b :=
  rec709_grey v hv

/-- **Rec.2020**: within `6.8e-4` relative -/
theorem rec2020_channels_equal (v : ℕ) (hv : v ≤ 255) :
    Eq3 (Rec2020.from_Xyz (grey v)).r (Rec2020.from_Xyz (grey v)).g (Rec2020.from_Xyz (grey v)).b :=
  rec2020_grey v hv

/-- **Rec.2100**: within `4.3e-4` relative.  (`Rec2100.from_Xyz` applies the crate's forward PQ curve — which is
not the ST 2084 EOTF, known finding (b) of C08 — to the Rec.2020 linear components `σᵢ·t`; the curve is
increasing on `E ≥ 3e-4`, i.e. for every grey but black, and its logarithmic sensitivity there is at most
`(1/m1)·(1/m2)·E^(1/m2)/(E^(1/m2) − c1) ≤ 1.2`; for black all three channels are 0.) -/
theorem rec2100_channels_equal (v : ℕ) (hv : v ≤ 255) :
    Eq3 (Rec2100.from_Xyz (grey v)).r (Rec2100.from_Xyz (grey v)).g (Rec2100.from_Xyz (grey v)).b :=
  rec2100_grey v hv

/-! ## OkLab / OkLch -/

/-- **OkLab**: `|a|, |b| < 1e-6` (proved: `4e-7`, `3e-7`; the oracle measures `3.4e-8`, `5.3e-8`) -/
theorem oklab_ab (v : ℕ) (hv : v ≤ 255) :
    |(OkLab.from_Xyz (grey v)).a| < 1e-6 ∧ |(OkLab.from_Xyz (grey v)).b| < 1e-6 := by
  obtain ⟨a, b⟩ := oklab_grey v hv
  exact ⟨lt_of_le_of_lt a (by norm_num), lt_of_le_of_lt b (by norm_num)⟩

/-- **OkLch**: chroma `< 1e-6` (proved `≤ 5e-7`) -/
theorem oklch_chroma (v : ℕ) (hv : v ≤ 255) : (OkLch.from_Xyz (grey v)).c < 1e-6 := by
  obtain ⟨a, b⟩ := oklab_grey v hv
  rw [(Props.C14.oklch_forward _).2.1, Props.C14.chroma, Real.sqrt_lt' (by norm_num)]
  rw [abs_le] at a b
  nlinarith

/-- **white has OkLab lightness 1 within 1e-5** (proved `4e-6`), **black has lightness 0** exactly -/
theorem oklab_white_black :
    |(OkLab.from_Xyz (grey 255)).l - 1| ≤ 1e-5 ∧ (OkLab.from_Xyz (grey 0)).l = 0 := by
  constructor
  · obtain ⟨s1, s2, s3⟩ := Props.C08.forward_srgb_tight ⟨255, 255, 255⟩ le_rfl le_rfl le_rfl
    rw [abs_le] at s1 s2 s3
    have e : (OkLab.from_Xyz (grey 255)).l = _ := Lemmas.OkLabF2.oklab_l_eq (Srgb.from_Xyz (grey 255))
    have one : (((255 : ℕ) : ℝ)) / 255 = 1 := by norm_num
    simp only [one] at s1 s2 s3
    have up := Lemmas.DerivedF2.okL_range (Lemmas.OkLabF2.p22_nonneg (Srgb.from_Xyz (grey 255)).r)
      (Lemmas.OkLabF2.p22_nonneg (Srgb.from_Xyz (grey 255)).g) (Lemmas.OkLabF2.p22_nonneg (Srgb.from_Xyz (grey 255)).b)
      (Lemmas.DerivedF2.p22_le (by norm_num at s1 ⊢; linarith [s1.2]))
      (Lemmas.DerivedF2.p22_le (by norm_num at s2 ⊢; linarith [s2.2]))
      (Lemmas.DerivedF2.p22_le (by norm_num at s3 ⊢; linarith [s3.2]))
    have lo := Lemmas.DerivedF2.okL_lower
      (Lemmas.DerivedF2.p22_ge (x := (Srgb.from_Xyz (grey 255)).r) (by norm_num at s1 ⊢; linarith [s1.1]))
      (Lemmas.DerivedF2.p22_ge (x := (Srgb.from_Xyz (grey 255)).g) (by norm_num at s2 ⊢; linarith [s2.1]))
      (Lemmas.DerivedF2.p22_ge (x := (Srgb.from_Xyz (grey 255)).b) (by norm_num at s3 ⊢; linarith [s3.1]))
    rw [e, abs_le]
    constructor <;> norm_num at up lo ⊢ <;> linarith [up.2]
  · have hb : grey 0 = ⟨0, 0, 0⟩ := Props.C13_xyz.black_zero XyzKind.D65
    have e : (OkLab.from_Xyz (grey 0)).l = _ := Lemmas.OkLabF2.oklab_l_eq (Srgb.from_Xyz (grey 0))
    rw [e, hb, Props.C08.srgb_from_xyz_def]
    have z : Props.C08.encSrgb 0 = 0 := by unfold Props.C08.encSrgb; norm_num
    have p : Lemmas.OkLabF2.p22 0 = 0 := by
      unfold Lemmas.OkLabF2.p22; rw [max_self, Real.zero_rpow (by norm_num)]
    simp only [Props.C08.dot, zero_mul, add_zero, z, p]
    exact Lemmas.DerivedF2.okL_zero

/-! ## every listed clause for every 8-bit grey -/

theorem grey_of_rgb (v : ℕ) (hv : v ≤ 255) :
    |(OkLab.from_Xyz (grey v)).a| < 1e-6 ∧ |(OkLab.from_Xyz (grey v)).b| < 1e-6 ∧
    (OkLch.from_Xyz (grey v)).c < 1e-6 ∧
    Eq3 (Srgb.from_Xyz (grey v)).r (Srgb.from_Xyz (grey v)).g (Srgb.from_Xyz (grey v)).b ∧
    Eq3 (Argb.from_Xyz (greyA v)).r (Argb.from_Xyz (greyA v)).g (Argb.from_Xyz (greyA v)).b ∧
    Eq3 (Rec709.from_Xyz (grey v)).r (Rec709.from_Xyz (grey v)).g (Rec709.from_Xyz (grey v)).b ∧
    Eq3 (Rec2020.from_Xyz (grey v)).r (Rec2020.from_Xyz (grey v)).g (Rec2020.from_Xyz (grey v)).b ∧
    Eq3 (Rec2100.from_Xyz (grey v)).r (Rec2100.from_Xyz (grey v)).g (Rec2100.from_Xyz (grey v)).b :=
  ⟨(oklab_ab v hv).1, (oklab_ab v hv).2, oklch_chroma v hv, srgb_channels_equal v hv,
    argb_channels_equal v hv, rec709_channels_equal v hv, rec2020_channels_equal v hv,
    rec2100_channels_equal v hv⟩

-- the hypothesis is satisfiable: mid grey 128, and the greys next to the branch points (10/11, 36/37)
example : (128 : ℕ) ≤ 255 ∧ (10 : ℕ) ≤ 255 ∧ (37 : ℕ) ≤ 255 := by norm_num
example : Eq3 (Rec709.from_Xyz (grey 36)).r (Rec709.from_Xyz (grey 36)).g (Rec709.from_Xyz (grey 36)).b :=
  rec709_channels_equal 36 (by norm_num)

end Props.C11_derived
