import LymuiVerif.Lemmas.FpMono
import LymuiVerif.Lemmas.FpMonoOk
import LymuiVerif.Props.C12_weak
import LymuiVerif.Props.C12_lightness
/-!
# C12 in the rounded-arithmetic reading — monotonicity of lightness-like quantities, for EVERY `M : FPModel`

"Raising any single channel of an 8-bit colour by one step never lowers XYZ's X, Y or Z (any profile), the
CIELAB/CIELUV/Hunter/OkLab lightness, YUV/YCbCr luma, HSV value, HSL lightness or any grayscale mode, and
never raises CMYK's K; for X, Y, Z and the CIE/OkLab lightnesses the increase is strict."
Here every quantity is computed in `RF M` (`Inst/Rounded.lean`: each `+ - * /`, literal, `sqrt`, `cbrt`
is the exact operation followed by `M.rnd`; `powf` is `M.pow` with a 1-ulp bound and NO monotonicity).

Every clause of the exact-real theorems (`Props.C12_xyz`, `Props.C12_lightness`, `Props.C12_weak`) is
transferred (`step_fp`):

* `Step` is `Props.C12_lightness.Step` (one channel raised by one, BOTH colours 8-bit: the error bounds
  need all three channels `≤ 255`, which the exact-real `Props.C12_xyz.step_*` did not); the weak clauses
  are stated, as in `Props.C12_weak`, for the componentwise order `Props.C12_weak.Le` and then for
  `Props.C12_weak.Step` (no bound on the channels needed).
* strict clauses (X, Y, Z for every profile; CIELAB, CIELUV, Hunter, OkLab lightness via
  `Xyz.from_rgb … D65`): (exact-real QUANTITATIVE gap) + (error bound of the computed value), never a
  monotonicity of `M.pow`.  XYZ is also given quantitatively (`xyz_gap_fp`: at least `5e-10` per step) and
  for a raise by several steps (`raise_*_fp`).
* weak clauses (YUV/YCbCr luma, HSV value, HSL lightness, grayscale modes, CMYK K): `M.rnd_mono` alone.
  They stay WEAK in the rounded model for a reason: two different inputs may round to the same value.
-/
namespace Props.C12_fp
open Gen FpErr Lemmas.Matrix Lemmas.XyzDispatch Lemmas.FpXyz Lemmas.FpMono
open Props.C12_lightness (Step)
open Props.C12_weak (Le)

/-! ## XYZ, every profile: strict -/

/-- componentwise strict order on XYZ computed in `RF M` -/
def XyzLtF {M : FPModel} (a b : Xyz (RF M)) : Prop :=
  a.x.val < b.x.val ∧ a.y.val < b.y.val ∧ a.z.val < b.z.val

/-- componentwise order with a gap `d` on XYZ computed in `RF M` -/
def XyzGapF {M : FPModel} (d : ℝ) (a b : Xyz (RF M)) : Prop :=
  a.x.val + d ≤ b.x.val ∧ a.y.val + d ≤ b.y.val ∧ a.z.val + d ≤ b.z.val

theorem XyzGapF.lt {M : FPModel} {d : ℝ} {a b : Xyz (RF M)} (hd : 0 < d) (h : XyzGapF d a b) :
    XyzLtF a b :=
  ⟨by linarith [h.1], by linarith [h.2.1], by linarith [h.2.2]⟩

/-- raising R (by any amount, within the 8-bit range) raises the computed X, Y, Z by at least `5e-10` -/
theorem raise_r_fp (M : FPModel) (k : XyzKind) (c : Rgb) (r' : ℕ) (h : c.r < r') (hr' : r' ≤ 255)
    (hg : c.g ≤ 255) (hb : c.b ≤ 255) :
    XyzGapF (5 / 10 ^ 10) (Xyz.from_rgb (α := RF M) c k) (Xyz.from_rgb { c with r := r' } k) := by
  rw [from_rgb_eq_fp', from_rgb_eq_fp']
  obtain ⟨h1, h2, h3⟩ := xyzF_gap M k c { c with r := r' } (by omega) hg hb hr' hg hb (xyz_gap_r k c r' h)
  refine ⟨?_, ?_, ?_⟩ <;> norm_num at h1 h2 h3 ⊢ <;> linarith

theorem raise_g_fp (M : FPModel) (k : XyzKind) (c : Rgb) (g' : ℕ) (h : c.g < g') (hg' : g' ≤ 255)
    (hr : c.r ≤ 255) (hb : c.b ≤ 255) :
    XyzGapF (5 / 10 ^ 10) (Xyz.from_rgb (α := RF M) c k) (Xyz.from_rgb { c with g := g' } k) := by
  rw [from_rgb_eq_fp', from_rgb_eq_fp']
  obtain ⟨h1, h2, h3⟩ := xyzF_gap M k c { c with g := g' } hr (by omega) hb hr hg' hb (xyz_gap_g k c g' h)
  refine ⟨?_, ?_, ?_⟩ <;> norm_num at h1 h2 h3 ⊢ <;> linarith

theorem raise_b_fp (M : FPModel) (k : XyzKind) (c : Rgb) (b' : ℕ) (h : c.b < b') (hb' : b' ≤ 255)
    (hr : c.r ≤ 255) (hg : c.g ≤ 255) :
    XyzGapF (5 / 10 ^ 10) (Xyz.from_rgb (α := RF M) c k) (Xyz.from_rgb { c with b := b' } k) := by
  rw [from_rgb_eq_fp', from_rgb_eq_fp']
  obtain ⟨h1, h2, h3⟩ := xyzF_gap M k c { c with b := b' } hr hg (by omega) hr hg hb' (xyz_gap_b k c b' h)
  refine ⟨?_, ?_, ?_⟩ <;> norm_num at h1 h2 h3 ⊢ <;> linarith

/-- one step raises each of the computed X, Y, Z by at least `5e-10` (any profile, any model) -/
theorem xyz_gap_fp (M : FPModel) (k : XyzKind) {c c' : Rgb} (h : Step c c') :
    XyzGapF (5 / 10 ^ 10) (Xyz.from_rgb (α := RF M) c k) (Xyz.from_rgb c' k) := by
  cases h with
  | r h hg hb => exact raise_r_fp M k c _ (Nat.lt_succ_self _) (by omega) hg hb
  | g hr h hb => exact raise_g_fp M k c _ (Nat.lt_succ_self _) (by omega) hr hb
  | b hr hg h => exact raise_b_fp M k c _ (Nat.lt_succ_self _) (by omega) hr hg

/-- **C12, XYZ clause, rounded model**: one step up in R, G or B strictly raises each of X, Y, Z
computed in `RF M`, for every profile and every model of floating-point arithmetic -/
theorem xyz_strict_fp (M : FPModel) (k : XyzKind) {c c' : Rgb} (h : Step c c') :
    XyzLtF (Xyz.from_rgb (α := RF M) c k) (Xyz.from_rgb c' k) :=
  (xyz_gap_fp M k h).lt (by norm_num)


/-! ## CIELAB, CIELUV, Hunter lightness of `Xyz.from_rgb … D65`: strict

`xyzF M c` is the XYZ of the 8-bit colour `c` computed in `RF M` under the D65 profile; the lightness
functions are then evaluated, again in `RF M`, on that computed value.  One step raises the computed
luminance by at least `1e-5` (`Lemmas.FpMono.yF_gap`: exact gap `2e-5`, `LightnessF2.y_raise_*`, minus twice
the forward error `2e-13`); each computed lightness is within `1e-12` of a real shape (with the ROUNDED
threshold literal) that rises by a quantitative amount across such a gap. -/

/-- XYZ of an 8-bit colour under the D65 profile, computed in `RF M` -/
noncomputable abbrev xyzF (M : FPModel) (c : Rgb) : Xyz (RF M) := Xyz.from_rgb c XyzKind.D65

/-- a step raises the COMPUTED luminance by at least `1e-5`; the computed luminances lie in `[0, 1.01]` -/
theorem step_luminance_fp (M : FPModel) {c c' : Rgb} (h : Step c c') :
    0 ≤ (xyzF M c).y.val ∧ (xyzF M c).y.val + 1 / 10 ^ 5 ≤ (xyzF M c').y.val ∧
      (xyzF M c').y.val ≤ 101 / 100 := by
  have hy := Props.C12_lightness.step_luminance h
  cases h with
  | r h hg hb =>
    exact ⟨yF_nonneg M c (by omega) hg hb, yF_gap M c _ (by omega) hg hb (by simp; omega) hg hb hy,
      yF_le M _ (by simp; omega) hg hb⟩
  | g hr h hb =>
    exact ⟨yF_nonneg M c hr (by omega) hb, yF_gap M c _ hr (by omega) hb hr (by simp; omega) hb hy,
      yF_le M _ hr (by simp; omega) hb⟩
  | b hr hg h =>
    exact ⟨yF_nonneg M c hr hg (by omega), yF_gap M c _ hr hg (by omega) hr hg (by simp; omega) hy,
      yF_le M _ hr hg (by simp; omega)⟩

/-- **C12, CIELAB, rounded model**: a step strictly raises the computed `L*` -/
theorem lab_lightness_strict_fp (M : FPModel) {c c' : Rgb} (h : Step c c') :
    (Lab.from_Xyz (xyzF M c)).l.val < (Lab.from_Xyz (xyzF M c')).l.val := by
  obtain ⟨h0, hg, h1⟩ := step_luminance_fp M h
  rw [lab_l_eq_fp, lab_l_eq_fp]
  exact labLF_lt M h0 hg h1

/-- **C12, CIELUV, rounded model**: a step strictly raises the computed `L*` (computed with `M.pow`,
of which no monotonicity is assumed; the downward jump of the library's formula at `Y = 0.008856`
is dominated by the rise over a luminance step) -/
theorem luv_lightness_strict_fp (M : FPModel) {c c' : Rgb} (h : Step c c') :
    (Luv.from_Xyz (xyzF M c)).l.val < (Luv.from_Xyz (xyzF M c')).l.val := by
  obtain ⟨h0, hg, h1⟩ := step_luminance_fp M h
  rw [luv_l_eq_fp, luv_l_eq_fp]
  exact luvLF_lt M h0 hg h1

/-- **C12, Hunter Lab, rounded model**: a step strictly raises the computed `L` (black, where the guard
`Y == 0 ↦ 0` applies because the computed `Y` of black is exactly `0`, included) -/
theorem hlab_lightness_strict_fp (M : FPModel) {c c' : Rgb} (h : Step c c') :
    (Hlab.from_Xyz (xyzF M c)).l.val < (Hlab.from_Xyz (xyzF M c')).l.val := by
  obtain ⟨h0, hg, h1⟩ := step_luminance_fp M h
  rw [hlab_l_eq_fp, hlab_l_eq_fp]
  exact hunterF_lt M h0 hg h1

/-! ## OkLab lightness: strict

`OkLab.from_Xyz` re-encodes the computed XYZ to sRGB (reverse matrix, sRGB encoder), linearises with
`max(·,0)^2.2` (`M.pow`), applies the M1 rows, `cbrt`, and the OKL row `0.21·l' + 0.79·m' − 0.004·s'`.
A uniform "error + gap" argument is NOT enough here (the cube root amplifies the absolute error of dark
colours by up to `1e4`, while the smallest exact increase over the cube is `≈ 1e-7`).  Instead
(`Lemmas/FpMonoOk.lean`): the computed linear-light triple is within `1e-8` of the exact one
(`linOk_close`: fine Lipschitz bound of the encoder away from its threshold, `M.pow` error); the robust
real inequality `Lemmas.OkLabF2.okcore` — in a quantitative form, `okK_gap` — is applied to the COMPUTED
M1 outputs, whose hypotheses (`m ≤ 2.5 s`, `Δs ≤ 10 Δm`, …) hold with relative slack; the final OKL row
costs `1e-14`.  The step away from black is separate (`M.pow 0 y` is only known to be within `η` of 0). -/

/-- **C12, OkLab, rounded model**: a step strictly raises the computed OkLab lightness -/
theorem oklab_lightness_strict_fp (M : FPModel) {c c' : Rgb} (h : Step c c') :
    (OkLab.from_Xyz (xyzF M c)).l.val < (OkLab.from_Xyz (xyzF M c')).l.val := by
  show (OkLab.from_Xyz (Xyz.from_rgb (α := RF M) c XyzKind.D65)).l.val <
    (OkLab.from_Xyz (Xyz.from_rgb (α := RF M) c' XyzKind.D65)).l.val
  rw [Lemmas.FpMonoOk.oklab_l_rgb_fp, Lemmas.FpMonoOk.oklab_l_rgb_fp]
  cases h with
  | r h hg hb => exact Lemmas.FpMonoOk.okl_step_r_fp M c h hg hb
  | g hr h hb => exact Lemmas.FpMonoOk.okl_step_g_fp M c hr h hb
  | b hr hg h => exact Lemmas.FpMonoOk.okl_step_b_fp M c hr hg h

/-! ## weak clauses: YUV / YCbCr luma, HSV value, HSL lightness, grayscale, CMYK K

Pure `M.rnd_mono` arguments: the computed quantities are compositions of `max`, `min`, rounded sums,
rounded products with non-negative rounded literals, rounded quotients by positive literals and the
quantiser `as u8`; each is monotone in every model.  No bound on the channels is needed. -/

/-- the three channel inequalities, cast to ℝ, and the inequalities of `max` and `min` -/
theorem Le.cast {c d : Rgb} (h : Le c d) :
    ((c.r : ℝ) ≤ d.r ∧ (c.g : ℝ) ≤ d.g ∧ (c.b : ℝ) ≤ d.b) ∧
    max (c.b : ℝ) (max (c.r : ℝ) (c.g : ℝ)) ≤ max (d.b : ℝ) (max (d.r : ℝ) (d.g : ℝ)) ∧
    min (c.b : ℝ) (min (c.r : ℝ) (c.g : ℝ)) ≤ min (d.b : ℝ) (min (d.r : ℝ) (d.g : ℝ)) := by
  obtain ⟨hr, hg, hb⟩ := h
  have hr' : (c.r : ℝ) ≤ d.r := by exact_mod_cast hr
  have hg' : (c.g : ℝ) ≤ d.g := by exact_mod_cast hg
  have hb' : (c.b : ℝ) ≤ d.b := by exact_mod_cast hb
  exact ⟨⟨hr', hg', hb'⟩, Quant.max3_mono hr' hg' hb', Quant.min3_mono hr' hg' hb'⟩

theorem yuv_luma_mono_fp (M : FPModel) {c d : Rgb} (h : Le c d) :
    (Yuv.from_Rgb (α := RF M) c).y.val ≤ (Yuv.from_Rgb (α := RF M) d).y.val := by
  obtain ⟨⟨hr, hg, hb⟩, -, -⟩ := Le.cast h
  simp only [Yuv.from_Rgb, Rgb.as_f64, FltRF.lit_val, FltRF.ofNat_val, FltRF.add_val, FltRF.mul_val,
    FltRF.div_val]
  gcongr <;> exact lit_nonneg M _ _

theorem ycbcr_luma_mono_fp (M : FPModel) {c d : Rgb} (h : Le c d) :
    (Ycbcr.from_Rgb (RF M) c).y ≤ (Ycbcr.from_Rgb (RF M) d).y := by
  obtain ⟨⟨hr, hg, hb⟩, -, -⟩ := Le.cast h
  simp only [Ycbcr.from_Rgb, Ycbcr.calculate_indices, Rgb.as_f64, FltRF.lit_val, FltRF.ofNat_val,
    FltRF.add_val, FltRF.mul_val, FltRF.toU8_eq]
  apply Quant.toU8_mono
  gcongr <;> exact lit_nonneg M _ _

theorem hsv_value_mono_fp (M : FPModel) {c d : Rgb} (h : Le c d) :
    (Hsv.from_Rgb (α := RF M) c).v.val ≤ (Hsv.from_Rgb (α := RF M) d).v.val := by
  obtain ⟨-, hm, -⟩ := Le.cast h
  have hv : ∀ e : Rgb, (Hsv.from_Rgb (α := RF M) e).v.val =
      M.rnd (M.rnd (max (e.b : ℝ) (max (e.r : ℝ) (e.g : ℝ)) / M.rnd (((255 : ℕ) : ℝ) / ((1 : ℕ) : ℝ))) *
        M.rnd (((100 : ℕ) : ℝ) / ((1 : ℕ) : ℝ))) := by
    intro e
    simp only [Hsv.from_Rgb]
    split_ifs <;> simp only [Rgb.get_min_max, Rgb.as_f64, FltRF.lit_val, FltRF.ofNat_val, FltRF.max_val,
      FltRF.mul_val, FltRF.div_val]
  rw [hv, hv]
  gcongr <;> exact lit_nonneg M _ _

theorem hsl_lightness_mono_fp (M : FPModel) {c d : Rgb} (h : Le c d) :
    (Hsl.from_Rgb (α := RF M) c).l.val ≤ (Hsl.from_Rgb (α := RF M) d).l.val := by
  obtain ⟨-, hm, hn⟩ := Le.cast h
  simp only [Hsl.from_Rgb, Rgb.get_min_max, Rgb.as_f64, FltRF.lit_val, FltRF.ofNat_val, FltRF.max_val,
    FltRF.min_val, FltRF.mul_val, FltRF.div_val, FltRF.add_val]
  gcongr <;> exact lit_nonneg M _ _

theorem gray_mono_fp (M : FPModel) {c d : Rgb} (h : Le c d) (k : GrayscaleKind) :
    (GrayScale.from_rgb (RF M) c k)._0 ≤ (GrayScale.from_rgb (RF M) d k)._0 := by
  obtain ⟨⟨hr, hg, hb⟩, hm, hn⟩ := Le.cast h
  cases k <;>
    (simp only [GrayScale.from_rgb, Rgb.get_min_max, Rgb.as_f64, FltRF.lit_val, FltRF.ofNat_val,
      FltRF.max_val, FltRF.min_val, FltRF.toU8_eq, FltRF.mul_val, FltRF.div_val, FltRF.add_val]
     apply Quant.toU8_mono
     gcongr <;> exact lit_nonneg M _ _)

theorem cmyk_k_anti_fp (M : FPModel) {c d : Rgb} (h : Le c d) :
    (Cymk.from_Rgb (α := RF M) d).k.val ≤ (Cymk.from_Rgb (α := RF M) c).k.val := by
  obtain ⟨-, hm, -⟩ := Le.cast h
  have hk : ∀ e : Rgb, (Cymk.from_Rgb (α := RF M) e).k.val =
      M.rnd (M.rnd (((1 : ℕ) : ℝ) / ((1 : ℕ) : ℝ)) -
        M.rnd (max (e.b : ℝ) (max (e.r : ℝ) (e.g : ℝ)) / M.rnd (((255 : ℕ) : ℝ) / ((1 : ℕ) : ℝ)))) := by
    intro e
    simp only [Cymk.from_Rgb]
    split_ifs <;> simp only [Rgb.get_min_max, Rgb.as_f64, FltRF.lit_val, FltRF.ofNat_val, FltRF.max_val,
      FltRF.sub_val, FltRF.div_val]
  rw [hk, hk]
  gcongr
  exact lit_nonneg M _ _

/-- the conclusion of C12's weak clauses for a pair of colours, every quantity computed in `RF M` -/
def WeakF (M : FPModel) (c d : Rgb) : Prop :=
  (Yuv.from_Rgb (α := RF M) c).y.val ≤ (Yuv.from_Rgb (α := RF M) d).y.val ∧
  (Ycbcr.from_Rgb (RF M) c).y ≤ (Ycbcr.from_Rgb (RF M) d).y ∧
  (Hsv.from_Rgb (α := RF M) c).v.val ≤ (Hsv.from_Rgb (α := RF M) d).v.val ∧
  (Hsl.from_Rgb (α := RF M) c).l.val ≤ (Hsl.from_Rgb (α := RF M) d).l.val ∧
  (∀ k, (GrayScale.from_rgb (RF M) c k)._0 ≤ (GrayScale.from_rgb (RF M) d k)._0) ∧
  (Cymk.from_Rgb (α := RF M) d).k.val ≤ (Cymk.from_Rgb (α := RF M) c).k.val

/-- **C12, weak clauses, rounded model**: raising any single channel of an 8-bit colour by one step
never lowers the computed YUV or YCbCr luma, HSV value, HSL lightness or any grayscale mode, and never
raises the computed CMYK K — in every model of floating-point arithmetic. -/
theorem step_monotone_fp (M : FPModel) {c d : Rgb} (h : Props.C12_weak.Step c d) : WeakF M c d :=
  ⟨yuv_luma_mono_fp M h.le, ycbcr_luma_mono_fp M h.le, hsv_value_mono_fp M h.le,
    hsl_lightness_mono_fp M h.le, gray_mono_fp M h.le, cmyk_k_anti_fp M h.le⟩

/-- the two `Step` relations: the one of `C12_lightness` (with 8-bit bounds) implies the one of `C12_weak` -/
theorem step_weak {c c' : Rgb} (h : Step c c') : Props.C12_weak.Step c c' := by
  cases h with
  | r h _ _ => exact Or.inl ⟨h, rfl⟩
  | g _ h _ => exact Or.inr (Or.inl ⟨h, rfl⟩)
  | b _ _ h => exact Or.inr (Or.inr ⟨h, rfl⟩)

/-- the strict clauses, bundled: XYZ (D65) and the four lightnesses -/
def StrictF (M : FPModel) (c c' : Rgb) : Prop :=
  XyzLtF (xyzF M c) (xyzF M c') ∧
  (Lab.from_Xyz (xyzF M c)).l.val < (Lab.from_Xyz (xyzF M c')).l.val ∧
  (Luv.from_Xyz (xyzF M c)).l.val < (Luv.from_Xyz (xyzF M c')).l.val ∧
  (Hlab.from_Xyz (xyzF M c)).l.val < (Hlab.from_Xyz (xyzF M c')).l.val ∧
  (OkLab.from_Xyz (xyzF M c)).l.val < (OkLab.from_Xyz (xyzF M c')).l.val

/-- **C12 in the rounded model, all clauses**: for every model of floating-point arithmetic,
one step up in one channel of an 8-bit colour strictly raises the computed X, Y, Z and the computed
CIELAB / CIELUV / Hunter / OkLab lightness, does not lower the computed YUV / YCbCr luma, HSV value, HSL lightness
or any grayscale mode, and does not raise the computed CMYK K. -/
theorem step_fp (M : FPModel) {c c' : Rgb} (h : Step c c') : StrictF M c c' ∧ WeakF M c c' :=
  ⟨⟨xyz_strict_fp M .D65 h, lab_lightness_strict_fp M h, luv_lightness_strict_fp M h,
    hlab_lightness_strict_fp M h, oklab_lightness_strict_fp M h⟩, step_monotone_fp M (step_weak h)⟩

/-! ## examples: the hypotheses are satisfiable; instances at the exact model and at concrete colours -/

-- the step that crosses the sRGB decode threshold (level 10 → 11) in the green channel
example : Step ⟨200, 10, 3⟩ ⟨200, 11, 3⟩ := Step.g ⟨200, 10, 3⟩ (by norm_num) (by norm_num) (by norm_num)
-- the first step away from black under the Adobe profile (smallest gap of all: `(1/255)^2.2·0.027`)
example (M : FPModel) : XyzLtF (Xyz.from_rgb (α := RF M) ⟨0, 0, 0⟩ .Adobe) (Xyz.from_rgb ⟨1, 0, 0⟩ .Adobe) :=
  xyz_strict_fp M .Adobe (Step.r ⟨0, 0, 0⟩ (by norm_num) (by norm_num) (by norm_num))
-- at the exact model (`FPModel` is inhabited: nothing above is vacuous)
example : XyzLtF (Xyz.from_rgb (α := RF FPModel.exact) ⟨10, 200, 3⟩ .D50) (Xyz.from_rgb ⟨11, 200, 3⟩ .D50) :=
  xyz_strict_fp FPModel.exact .D50 (Step.r ⟨10, 200, 3⟩ (by norm_num) (by norm_num) (by norm_num))
-- the Hunter guard: black → (0,0,1), in every model
example (M : FPModel) : (Hlab.from_Xyz (xyzF M ⟨0, 0, 0⟩)).l.val < (Hlab.from_Xyz (xyzF M ⟨0, 0, 1⟩)).l.val :=
  hlab_lightness_strict_fp M (Step.b ⟨0, 0, 0⟩ (by norm_num) (by norm_num) (by norm_num))
-- Y crosses the CIE branch point 0.008856 between (24,23,24) and (24,24,24): the CIELUV jump is harmless
example (M : FPModel) :
    (Luv.from_Xyz (xyzF M ⟨24, 23, 24⟩)).l.val < (Luv.from_Xyz (xyzF M ⟨24, 24, 24⟩)).l.val :=
  luv_lightness_strict_fp M (Step.g ⟨24, 23, 24⟩ (by norm_num) (by norm_num) (by norm_num))
example : (Lab.from_Xyz (xyzF FPModel.exact ⟨24, 23, 24⟩)).l.val <
    (Lab.from_Xyz (xyzF FPModel.exact ⟨24, 24, 24⟩)).l.val :=
  lab_lightness_strict_fp FPModel.exact (Step.g ⟨24, 23, 24⟩ (by norm_num) (by norm_num) (by norm_num))
-- OkLab: the step away from black and the weakest step of the cube, in every model
example (M : FPModel) : (OkLab.from_Xyz (xyzF M ⟨0, 0, 0⟩)).l.val < (OkLab.from_Xyz (xyzF M ⟨0, 0, 1⟩)).l.val :=
  oklab_lightness_strict_fp M (Step.b ⟨0, 0, 0⟩ (by norm_num) (by norm_num) (by norm_num))
example (M : FPModel) :
    (OkLab.from_Xyz (xyzF M ⟨255, 255, 0⟩)).l.val < (OkLab.from_Xyz (xyzF M ⟨255, 255, 1⟩)).l.val :=
  oklab_lightness_strict_fp M (Step.b ⟨255, 255, 0⟩ (by norm_num) (by norm_num) (by norm_num))
-- the weak clauses for a raise by more than one step, and for a one-step raise up to 255
example (M : FPModel) : WeakF M ⟨10, 55, 102⟩ ⟨12, 55, 200⟩ :=
  have h : Le ⟨10, 55, 102⟩ ⟨12, 55, 200⟩ := by simp [Le]
  ⟨yuv_luma_mono_fp M h, ycbcr_luma_mono_fp M h, hsv_value_mono_fp M h, hsl_lightness_mono_fp M h,
    gray_mono_fp M h, cmyk_k_anti_fp M h⟩
example : StrictF FPModel.exact ⟨254, 55, 102⟩ ⟨255, 55, 102⟩ ∧ WeakF FPModel.exact ⟨254, 55, 102⟩ ⟨255, 55, 102⟩ :=
  step_fp FPModel.exact (Step.r ⟨254, 55, 102⟩ (by norm_num) (by norm_num) (by norm_num))

end Props.C12_fp
