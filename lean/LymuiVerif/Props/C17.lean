import LymuiVerif.Lemmas.QuantB2
import LymuiVerif.Props.C16
/-!
# C17 — RGB to ANSI-256 / ANSI-16

Instance: `α := ℝ` (every `f64` operation of `Ansi::from_rgb` acts on small integers divided by
constants, followed by `round`; the exact-real reading decides what the rounded value is.  Ties of
`round` do not occur except where stated, so the IEEE reading agrees; that part is covered by the
correspondence tests, not here).

The specification is written on natural numbers and is computable:

* `rnd5 v = round(5v/255)` (half away from zero) `= (10v+255)/510`,
* `ramp v = 232 + round(24(v-8)/247) = 232 + (48(v-8)+247)/494`,
* `code256`, `code16` below.

`c256_formula` / `c16_formula` state that the GENERATED `Ansi.from_rgb ℝ` returns exactly these codes,
without panic (all checked `u8` additions and shifts stay in range; the final `as u8` is applied to an
exact integer in `0..=255`).  Everything else is a corollary obtained by computation over the 256
channel levels (never over the 2^24 colours).

Boundary grey levels: the property text allows either neighbouring rule at levels 8 and 248.  The code
takes the constant side: level 8 ↦ 16 (the ramp would give 232) and level 248 ↦ 231 (the ramp would
give 255); see `c256_grey_spec`.
-/
namespace Props.C17
open Gen Lemmas.QuantB2 Props.C16

/-! ## Specification -/

/-- `round(5v/255)`, half away from zero -/
def rnd5 (v : ℕ) : ℕ := (10 * v + 255) / 510
/-- `232 + round(24(v-8)/247)` -/
def ramp (v : ℕ) : ℕ := 232 + (48 * (v - 8) + 247) / 494
/-- the ANSI-256 code of a colour -/
def code256 (c : Rgb) : ℕ :=
  if c.r = c.g ∧ c.g = c.b then
    (if c.r ≤ 8 then 16 else if 248 ≤ c.r then 231 else ramp c.r)
  else 16 + 36 * rnd5 c.r + 6 * rnd5 c.g + rnd5 c.b
/-- `1` when the channel is in the upper half -/
def bit (v : ℕ) : ℕ := if 128 ≤ v then 1 else 0
/-- the ANSI-16 code of a colour; `m` is the brightest channel, "below 25%" is `4m < 255`,
"at or above 75%" is `4m ≥ 765` -/
def code16 (c : Rgb) : ℕ :=
  let m := max c.b (max c.r c.g)
  if 4 * m < 255 then 30
  else 30 + (bit c.r + 2 * bit c.g + 4 * bit c.b) + (if 765 ≤ 4 * m then 60 else 0)
/-- `|a - b| ≤ k` on naturals -/
@[reducible] def near (k a b : ℕ) : Prop := a ≤ b + k ∧ b ≤ a + k
/-- channel-wise `near` -/
@[reducible] def nearRgb (k : ℕ) (d c : Rgb) : Prop := near k d.r c.r ∧ near k d.g c.g ∧ near k d.b c.b
/-- the decoded brightness of the grey of level `v` -/
def greyOut (v : ℕ) : ℕ := (xterm (code256 ⟨v, v, v⟩)).r

/-! ## The spec functions are the rounded quotients of the property text -/

/-- `rnd5 v` is `round(5v/255)` -/
theorem rnd5_is_round (v : ℕ) : Real.roundHA ((v : ℝ) / 255 * 5) = (rnd5 v : ℝ) := roundHA_scale5 v

/-- `rnd5 v` is `round(5v/255)`, with the quotient written as in the property text -/
theorem rnd5_is_round' (v : ℕ) : Real.roundHA (5 * (v : ℝ) / 255) = (rnd5 v : ℝ) := by
  rw [← rnd5_is_round v]; congr 1; ring

/-- `ramp v` is `232 + round(24(v-8)/247)` (for `v ≥ 8`) -/
theorem ramp_is_round (v : ℕ) (h : 8 ≤ v) :
    232 + Real.roundHA (24 * ((v : ℝ) - 8) / 247) = (ramp v : ℝ) := by
  have e : 24 * ((v : ℝ) - 8) / 247 = ((24 * (v - 8) : ℕ) : ℝ) / ((247 : ℕ) : ℝ) := by
    push_cast [Nat.cast_sub h]; ring
  rw [e, roundHA_nat_div _ _ (by norm_num)]
  unfold ramp; push_cast; congr 2; omega

/-- "brightest channel below 25%" (`4m < 255`) is `round(m/255*100/50) = 0`, and "at or above 75%"
(`4m ≥ 765`) is `round(m/255*100/50) = 2`, the tests the code performs -/
theorem value_tests (m : ℕ) (h : m ≤ 255) :
    (Real.roundHA ((m : ℝ) / 255 * 100 / 50) = 0 ↔ 4 * m < 255) ∧
    (Real.roundHA ((m : ℝ) / 255 * 100 / 50) = 2 ↔ 765 ≤ 4 * m) := by
  rw [roundHA_value]
  constructor
  · rw [show (0 : ℝ) = ((0 : ℕ) : ℝ) by simp, Nat.cast_inj]; omega
  · rw [show (2 : ℝ) = ((2 : ℕ) : ℝ) by simp, Nat.cast_inj]; omega

/-- `bit v` is `round(v/255) as u8` -/
theorem bit_is_round (v : ℕ) (h : v ≤ 255) : Real.toU8 (Real.roundHA ((v : ℝ) / 255)) = bit v :=
  bit_toU8 v h

/-! ## The formulas -/

/-- **C17, ANSI-256**: for every 8-bit colour the code returns `code256 c` — no panic, and the final
`as u8` does not saturate or truncate. -/
theorem c256_formula (c : Rgb) (hr : c.r ≤ 255) (hg : c.g ≤ 255) (hb : c.b ≤ 255) :
    Ansi.from_rgb ℝ c AnsiKind.C256 = Res.ok ⟨code256 c⟩ := by
  simp only [Ansi.from_rgb, Rgb.as_f64, FltReal.lit_eq, FltReal.ofNat_eq, FltReal.round_eq,
    FltReal.toU8_eq, Nat.cast_ofNat, Nat.cast_one, div_one, Res.pure_eq]
  rw [cube_toU8 c.r c.g c.b hr hg hb]
  unfold code256 rnd5 ramp
  simp only [beq_iff_eq, decide_eq_true_eq]
  split_ifs <;> first | rfl | (exfalso; omega) | (rw [ramp_toU8 c.r (by omega) (by omega)])

example : Ansi.from_rgb ℝ ⟨92, 191, 84⟩ AnsiKind.C256 = Res.ok ⟨114⟩ :=
  c256_formula ⟨92, 191, 84⟩ (by decide) (by decide) (by decide)

/-- **C17, ANSI-16**: for every 8-bit colour the code returns `code16 c`; none of the checked `u8`
additions overflows and the shifted bits do not overlap. -/
theorem c16_formula (c : Rgb) (hr : c.r ≤ 255) (hg : c.g ≤ 255) (hb : c.b ≤ 255) :
    Ansi.from_rgb ℝ c AnsiKind.C16 = Res.ok ⟨code16 c⟩ := by
  simp only [Ansi.from_rgb, Rgb.as_f64, Rgb.get_min_max, FltReal.lit_eq, FltReal.ofNat_eq,
    FltReal.round_eq, FltReal.toU8_eq, FltReal.beq_eq, FltReal.max_eq, Nat.cast_ofNat, Nat.cast_one,
    div_one, Res.pure_eq]
  rw [value_eq, bit_toU8 c.r hr, bit_toU8 c.g hg, bit_toU8 c.b hb]
  have e2 : ∀ n : ℕ, ((n : ℝ) = 2) ↔ n = 2 := fun n => by exact_mod_cast Iff.rfl
  simp only [Nat.cast_inj, e2, decide_eq_true_eq]
  unfold code16 bit
  generalize hm : max c.b (max c.r c.g) = m
  have hm255 : m ≤ 255 := by omega
  have k0 : ((4 * m + 255) / 510 = 0) ↔ 4 * m < 255 := by omega
  have k2 : ((4 * m + 255) / 510 = 2) ↔ 765 ≤ 4 * m := by omega
  have hx : (if 128 ≤ c.b then 1 else 0) ≤ 1 := by split_ifs <;> omega
  have hy : (if 128 ≤ c.g then 1 else 0) ≤ 1 := by split_ifs <;> omega
  have hz : (if 128 ≤ c.r then 1 else 0) ≤ 1 := by split_ifs <;> omega
  rw [bits_pack _ _ _ hx hy hz, add60 _ (by omega)]
  simp only [k0, k2]
  split_ifs <;> first | rfl | (exfalso; omega)

example : Ansi.from_rgb ℝ ⟨92, 191, 84⟩ AnsiKind.C16 = Res.ok ⟨32⟩ :=
  c16_formula ⟨92, 191, 84⟩ (by decide) (by decide) (by decide)
example : Ansi.from_rgb ℝ ⟨250, 10, 200⟩ AnsiKind.C16 = Res.ok ⟨95⟩ :=
  c16_formula ⟨250, 10, 200⟩ (by decide) (by decide) (by decide)

/-! ## Greys: the three rules and the two boundary levels -/

/-- the grey rule in the words of the property: 16 below level 8, 231 above level 248, the ramp in
between; at the boundary levels the code returns the constant (16 resp. 231), which is one of the two
values the property allows (the other would be `ramp 8 = 232` resp. `ramp 248 = 255`). -/
theorem c256_grey_spec (v : ℕ) :
    (v < 8 → code256 ⟨v, v, v⟩ = 16) ∧ (248 < v → code256 ⟨v, v, v⟩ = 231) ∧
    (8 < v → v < 248 → code256 ⟨v, v, v⟩ = ramp v) ∧
    (code256 ⟨8, 8, 8⟩ = 16 ∧ ramp 8 = 232) ∧ (code256 ⟨248, 248, 248⟩ = 231 ∧ ramp 248 = 255) := by
  refine ⟨fun h => ?_, fun h => ?_, fun h h' => ?_, by decide, by decide⟩ <;>
    (unfold code256; simp only [and_self, if_true]; split_ifs <;> first | rfl | (exfalso; omega))

/-- non-grey colours: the cube formula -/
theorem c256_cube_spec (c : Rgb) (h : ¬(c.r = c.g ∧ c.g = c.b)) :
    code256 c = 16 + 36 * rnd5 c.r + 6 * rnd5 c.g + rnd5 c.b := by
  unfold code256; rw [if_neg h]

example : ¬((⟨92, 191, 84⟩ : Rgb).r = (⟨92, 191, 84⟩ : Rgb).g ∧ (⟨92, 191, 84⟩ : Rgb).g = (⟨92, 191, 84⟩ : Rgb).b) := by
  decide

/-! ## Corollaries (computed over the 256 levels) -/

/-- every level maps to a cube digit `0..5` -/
theorem rnd5_le (v : ℕ) (h : v ≤ 255) : rnd5 v ≤ 5 := by unfold rnd5; omega

/-- the code is a `u8` and never names one of the 16 system colours -/
theorem code256_range (c : Rgb) (hr : c.r ≤ 255) (hg : c.g ≤ 255) (hb : c.b ≤ 255) :
    16 ≤ code256 c ∧ code256 c ≤ 255 := by
  have := rnd5_le c.r hr; have := rnd5_le c.g hg; have := rnd5_le c.b hb
  unfold code256 ramp; split_ifs <;> omega

/-- the same about the generated function -/
theorem c256_no_system_colour (c : Rgb) (hr : c.r ≤ 255) (hg : c.g ≤ 255) (hb : c.b ≤ 255) :
    ∃ a, Ansi.from_rgb ℝ c AnsiKind.C256 = Res.ok a ∧ 16 ≤ a._0 ∧ a._0 ≤ 255 :=
  ⟨_, c256_formula c hr hg hb, code256_range c hr hg hb⟩

example : (92 : ℕ) ≤ 255 ∧ (191 : ℕ) ≤ 255 ∧ (84 : ℕ) ≤ 255 := by decide

/-- for a non-grey colour the three base-6 digits of `code - 16` are `rnd5 r`, `rnd5 g`, `rnd5 b` -/
theorem code256_digits (c : Rgb) (hr : c.r ≤ 255) (hg : c.g ≤ 255) (hb : c.b ≤ 255)
    (h : ¬(c.r = c.g ∧ c.g = c.b)) :
    (code256 c - 16) / 36 = rnd5 c.r ∧ (code256 c - 16) / 6 % 6 = rnd5 c.g ∧ (code256 c - 16) % 6 = rnd5 c.b := by
  have := rnd5_le c.r hr; have := rnd5_le c.g hg; have := rnd5_le c.b hb
  rw [c256_cube_spec c h]; omega

/-- hence a non-grey colour decodes (in the xterm palette) channel by channel -/
theorem xterm_code256_cube (c : Rgb) (hr : c.r ≤ 255) (hg : c.g ≤ 255) (hb : c.b ≤ 255)
    (h : ¬(c.r = c.g ∧ c.g = c.b)) :
    xterm (code256 c) = ⟨level (rnd5 c.r), level (rnd5 c.g), level (rnd5 c.b)⟩ := by
  obtain ⟨d1, d2, d3⟩ := code256_digits c hr hg hb h
  have := rnd5_le c.r hr; have := rnd5_le c.g hg; have := rnd5_le c.b hb
  have h16 : ¬ code256 c < 16 := by have := code256_range c hr hg hb; omega
  have h232 : ¬ 232 ≤ code256 c := by rw [c256_cube_spec c h]; omega
  unfold xterm; rw [if_neg h16, if_neg h232, d1, d2, d3]

/-- per-level fact: a cube level is within 69 of the channel it encodes (worst case: 26 ↦ 95) -/
theorem level_near : ∀ v : Fin 256, near 69 (level (rnd5 v.val)) v.val := by decide +kernel

example : rnd5 26 = 1 ∧ level 1 = 95 ∧ ¬ near 68 (level (rnd5 26)) 26 := by decide

/-- per-level fact: a grey decodes to a neutral palette entry within 11 of its level (sharp: 239 ↦ 228) -/
theorem grey_near : ∀ v : Fin 256,
    (xterm (code256 ⟨v.val, v.val, v.val⟩)).g = greyOut v.val ∧
    (xterm (code256 ⟨v.val, v.val, v.val⟩)).b = greyOut v.val ∧ near 11 (greyOut v.val) v.val := by
  decide +kernel

/-- per-level fact: the decoded brightness does not decrease from one grey level to the next -/
theorem grey_step : ∀ v : Fin 255, greyOut v.val ≤ greyOut (v.val + 1) := by decide +kernel

/-- the decoded brightness of greys is monotone in the level -/
theorem grey_monotone (v w : ℕ) (hvw : v ≤ w) (hw : w ≤ 255) : greyOut v ≤ greyOut w := by
  induction w, hvw using Nat.le_induction with
  | base => exact le_rfl
  | succ k hk ih => exact le_trans (ih (by omega)) (grey_step ⟨k, by omega⟩)

example : (100 : ℕ) ≤ 200 ∧ (200 : ℕ) ≤ 255 ∧ greyOut 100 = 98 ∧ greyOut 200 = 198 := by decide

/-- the palette entry named by the code is within 69 of the colour per channel -/
theorem xterm_code256_near (c : Rgb) (hr : c.r ≤ 255) (hg : c.g ≤ 255) (hb : c.b ≤ 255) :
    nearRgb 69 (xterm (code256 c)) c := by
  by_cases h : c.r = c.g ∧ c.g = c.b
  · rcases c with ⟨r, g, b⟩
    simp only at h hr
    obtain ⟨rfl, rfl⟩ := h
    have k := grey_near ⟨r, by omega⟩
    simp only [greyOut] at k
    obtain ⟨k1, k2, k3, k4⟩ := k
    refine ⟨⟨?_, ?_⟩, ⟨?_, ?_⟩, ⟨?_, ?_⟩⟩ <;> simp only [k1, k2] <;> omega
  · rw [xterm_code256_cube c hr hg hb h]
    exact ⟨level_near ⟨c.r, by omega⟩, level_near ⟨c.g, by omega⟩, level_near ⟨c.b, by omega⟩⟩

/-- **C17, round trip**: encoding with the generated `Ansi.from_rgb` and decoding with the generated
`Rgb.try_from_Ansi` succeeds and returns a colour within 69 of the input per channel. -/
theorem c256_roundtrip_near (c : Rgb) (hr : c.r ≤ 255) (hg : c.g ≤ 255) (hb : c.b ≤ 255) :
    ∃ a d, Ansi.from_rgb ℝ c AnsiKind.C256 = Res.ok a ∧ Rgb.try_from_Ansi a = Res.ok (Except.ok d) ∧
      nearRgb 69 d c :=
  ⟨_, _, c256_formula c hr hg hb,
    ansi_decodes_to_xterm_nat _ (by have := code256_range c hr hg hb; omega),
    xterm_code256_near c hr hg hb⟩

/-- **C17, greys**: a grey of level `v` is encoded and decoded (generated functions) to a neutral
colour `⟨k,k,k⟩` with `k = greyOut v` within 11 of `v` (sharp); `greyOut` is monotone
(`grey_monotone`). -/
theorem c256_grey_roundtrip (v : ℕ) (hv : v ≤ 255) :
    ∃ a, Ansi.from_rgb ℝ ⟨v, v, v⟩ AnsiKind.C256 = Res.ok a ∧
      Rgb.try_from_Ansi a = Res.ok (Except.ok ⟨greyOut v, greyOut v, greyOut v⟩) ∧
      near 11 (greyOut v) v := by
  refine ⟨_, c256_formula ⟨v, v, v⟩ hv hv hv, ?_, ?_⟩
  · rw [ansi_decodes_to_xterm_nat _ (by have := code256_range ⟨v, v, v⟩ hv hv hv; omega)]
    obtain ⟨k1, k2, _⟩ := grey_near ⟨v, by omega⟩
    have hx : ∀ x : Rgb, x.g = x.r → x.b = x.r → x = ⟨x.r, x.r, x.r⟩ := by
      rintro ⟨a, b, c⟩ h1 h2; simp only at h1 h2; subst h1 h2; rfl
    exact congrArg _ (congrArg _ (hx _ k1 k2))
  · obtain ⟨_, _, k3⟩ := grey_near ⟨v, by omega⟩
    exact k3

example : greyOut 239 = 228 ∧ near 11 (greyOut 239) 239 ∧ ¬ near 10 (greyOut 239) 239 := by decide

/-- the ANSI-16 code is a foreground colour code: 30..37 or 90..97 -/
theorem code16_range (c : Rgb) :
    (30 ≤ code16 c ∧ code16 c ≤ 37) ∨ (90 ≤ code16 c ∧ code16 c ≤ 97) := by
  unfold code16 bit; simp only; split_ifs <;> omega

/-- the same about the generated function -/
theorem c16_range (c : Rgb) (hr : c.r ≤ 255) (hg : c.g ≤ 255) (hb : c.b ≤ 255) :
    ∃ a, Ansi.from_rgb ℝ c AnsiKind.C16 = Res.ok a ∧
      ((30 ≤ a._0 ∧ a._0 ≤ 37) ∨ (90 ≤ a._0 ∧ a._0 ≤ 97)) :=
  ⟨_, c16_formula c hr hg hb, code16_range c⟩

end Props.C17
