import LymuiVerif.Lemmas.FpMiscC
import LymuiVerif.Props.C18
/-!
# C18 — shades and tints, in the rounded-arithmetic reading (`RF M`, every `M : FPModel`)

The generators `Shade::compute` / `Tint::compute` evaluated with one rounding `M.rnd` after every
`+ - * /` and every literal (`Inst/Rounded.lean`); comparisons, `floor`, `round`, `as u8` and the
byte → float conversion are exact, as in IEEE-754.  What transfers from `Props/C18.lean`:

* **rejection** (`shade_rejects_fp`, `tint_rejects_fp`): unchanged — the guard `0.0 < f && f <= 1.0`
  uses exact comparisons with exactly representable literals.  (NaN/±∞ are not values of `RF M`.)
* **closed form** (`shade_closed_fp`, `tint_closed_fp`): the loop terminates after exactly
  `stepsFp M f + 1 = ⌊M.rnd (1/f)⌋₊ + 1` iterations and returns the list of the `shadeAtFp M c f i`
  — the f64 reading of the `i`-th entry in which the float loop counter is the natural number `i`
  EXACTLY.  Hypothesis `1 / f ≤ 2^52` (implied by `1e-15 ≤ f`, `…_closed_ge_fp`): the counter is a
  float incremented by `i + 1.0`; it stays an exactly representable integer only up to `2^53`
  (beyond that `i + 1.0` rounds back to `i` and the Rust loop does not terminate).
* **what differs from the exact-real reading**: the number of steps is `⌊M.rnd (1/f)⌋`, which is
  `⌊1/f⌋` or `⌊1/f⌋ + 1` (`steps_vs_exact_fp`; e.g. binary64 `1.0 / 0.1 = 10.0` although the double
  `0.1` is larger than 1/10) — so the last index may satisfy `i·f > 1` by at most `1.2e-16`
  (`index_le_fp`); and every entry is the quantiser `Q` of the exact position perturbed by
  `|e| ≤ 1e-12` (`shade_entry_fp`, `tint_entry_fp`).  The byte cannot be pinned down further in
  general (ties such as `177.5` are decided by the rounding errors).
* **first entry** is the colour (`shade_first_fp`, `tint_first_fp`); **monotonicity** along the list
  holds exactly, without tolerance (`shade_antitone_fp`, `tint_monotone_fp`, list forms): `M.rnd`,
  `round` and `as u8` are monotone.
* **against the exact-real specification** (`shade_vs_exact_fp`, `tint_vs_exact_fp`): every computed
  channel is at most one away from `Props.C18.shadeAt` / `tintAt` at the same index.
* **last entry** (`shade_last_fp`, `tint_last_fp`): when `f` is exactly `1/m` the list has `m + 1`
  entries and ends in black / white, in every model (`m·f = 1` and `1/f = m` are exact).
* **termination**: for `1/256 ≤ f ≤ 1` fuel 258 suffices and the list has at most 257 entries
  (`shade_terminates_fp`, `tint_terminates_fp`) — rounding never crosses the integer 256.

Helper lemmas: `Lemmas/FpMiscC.lean`.
-/
namespace Props.C18_fp
open Gen Lemmas.QuantB2 Props.C18

/-! ## Specification (the f64 reading of one entry) -/

/-- the number of loop steps: `(1.0 / f).floor()` with the quotient rounded -/
noncomputable def stepsFp (M : FPModel) (f : RF M) : ℕ := ⌊M.rnd (1 / f.val)⌋₊

/-- the `i`-th shade as computed: scale `1.0 - i*f` (two roundings), one rounded product per channel,
then `round() as u8` -/
noncomputable def shadeAtFp (M : FPModel) (c : Rgb) (f : RF M) (i : ℕ) : Rgb :=
  ⟨Q (M.rnd (c.r * M.rnd (1 - M.rnd (i * f.val)))),
   Q (M.rnd (c.g * M.rnd (1 - M.rnd (i * f.val)))),
   Q (M.rnd (c.b * M.rnd (1 - M.rnd (i * f.val))))⟩

/-- the `i`-th tint as computed: `r + (255.0 - r) * (i*f)`, every operation rounded -/
noncomputable def tintAtFp (M : FPModel) (c : Rgb) (f : RF M) (i : ℕ) : Rgb :=
  ⟨Q (M.rnd (c.r + M.rnd (M.rnd (255 - c.r) * M.rnd (i * f.val)))),
   Q (M.rnd (c.g + M.rnd (M.rnd (255 - c.g) * M.rnd (i * f.val)))),
   Q (M.rnd (c.b + M.rnd (M.rnd (255 - c.b) * M.rnd (i * f.val))))⟩

noncomputable def shadeListFp (M : FPModel) (c : Rgb) (f : RF M) : List Rgb :=
  List.map (shadeAtFp M c f) (List.range (stepsFp M f + 1))
noncomputable def tintListFp (M : FPModel) (c : Rgb) (f : RF M) : List Rgb :=
  List.map (tintAtFp M c f) (List.range (stepsFp M f + 1))

/-- channel-wise "at most one apart" -/
def Rgb.near1 (a b : Rgb) : Prop :=
  (a.r ≤ b.r + 1 ∧ b.r ≤ a.r + 1) ∧ (a.g ≤ b.g + 1 ∧ b.g ≤ a.g + 1) ∧ (a.b ≤ b.b + 1 ∧ b.b ≤ a.b + 1)

/-! ## Rejection -/

/-- a factor outside `]0, 1]` is rejected with `Error::Generator`, for every fuel (even 0) -/
theorem shade_rejects_fp (M : FPModel) (c : Rgb) (f : RF M) (h : f.val ≤ 0 ∨ 1 < f.val) :
    ∀ fuel, Shade.compute fuel c f = Res.ok (Except.error LError.Generator) :=
  FpMiscC.shade_compute_rejects_fp M c f h

theorem tint_rejects_fp (M : FPModel) (c : Rgb) (f : RF M) (h : f.val ≤ 0 ∨ 1 < f.val) :
    ∀ fuel, Tint.compute fuel c f = Res.ok (Except.error LError.Generator) :=
  FpMiscC.tint_compute_rejects_fp M c f h

example (M : FPModel) : Shade.compute 0 ⟨102, 170, 119⟩ (⟨1.1⟩ : RF M) = Res.ok (Except.error LError.Generator) :=
  shade_rejects_fp M _ _ (Or.inr (by norm_num)) 0
example (M : FPModel) : Tint.compute 0 ⟨102, 170, 119⟩ (⟨0⟩ : RF M) = Res.ok (Except.error LError.Generator) :=
  tint_rejects_fp M _ _ (Or.inl le_rfl) 0
example (M : FPModel) : Tint.compute 7 ⟨102, 170, 119⟩ (⟨-3⟩ : RF M) = Res.ok (Except.error LError.Generator) :=
  tint_rejects_fp M _ _ (Or.inl (by norm_num)) 7

/-! ## Closed form -/

/-- **C18, shade, rounded arithmetic**: for `0 < f ≤ 1`, `1/f ≤ 2^52` (so that the float counter
`i + 1.0` stays exact) and any fuel above `⌊M.rnd (1/f)⌋ + 1`, the result is the list of the
`⌊M.rnd (1/f)⌋ + 1` colours `shadeAtFp M c f i`. -/
theorem shade_closed_fp (M : FPModel) (c : Rgb) (f : RF M) (h0 : 0 < f.val) (h1 : f.val ≤ 1)
    (hN : 1 / f.val ≤ 2 ^ 52) (fuel : ℕ) (hf : stepsFp M f + 1 < fuel) :
    Shade.compute fuel c f = Res.ok (Except.ok ⟨shadeListFp M c f⟩) :=
  FpMiscC.shade_compute_closed_fp M c f h0 h1 hN fuel hf

/-- **C18, tint, rounded arithmetic** -/
theorem tint_closed_fp (M : FPModel) (c : Rgb) (f : RF M) (h0 : 0 < f.val) (h1 : f.val ≤ 1)
    (hN : 1 / f.val ≤ 2 ^ 52) (fuel : ℕ) (hf : stepsFp M f + 1 < fuel) :
    Tint.compute fuel c f = Res.ok (Except.ok ⟨tintListFp M c f⟩) :=
  FpMiscC.tint_compute_closed_fp M c f h0 h1 hN fuel hf

/-- the same with the bound on the factor written as `1e-15 ≤ f` -/
theorem shade_closed_ge_fp (M : FPModel) (c : Rgb) (f : RF M) (h0 : 1e-15 ≤ f.val) (h1 : f.val ≤ 1)
    (fuel : ℕ) (hf : stepsFp M f + 1 < fuel) :
    Shade.compute fuel c f = Res.ok (Except.ok ⟨shadeListFp M c f⟩) :=
  shade_closed_fp M c f (lt_of_lt_of_le (by norm_num) h0) h1 (FpMiscC.inv_le_of_ge h0) fuel hf

theorem tint_closed_ge_fp (M : FPModel) (c : Rgb) (f : RF M) (h0 : 1e-15 ≤ f.val) (h1 : f.val ≤ 1)
    (fuel : ℕ) (hf : stepsFp M f + 1 < fuel) :
    Tint.compute fuel c f = Res.ok (Except.ok ⟨tintListFp M c f⟩) :=
  tint_closed_fp M c f (lt_of_lt_of_le (by norm_num) h0) h1 (FpMiscC.inv_le_of_ge h0) fuel hf

/-- for a factor `1/m` with `m` a whole number the step count is `m` in every model when the quotient
is exact; here `f = 1/4` (the real number): `1/f = 4` is an integer, so `M.rnd` leaves it alone -/
example (M : FPModel) : stepsFp M ⟨1 / 4⟩ = 4 := by
  unfold stepsFp
  rw [show (1 : ℝ) / (1 / 4) = ((4 : ℕ) : ℝ) by norm_num, FpErr.rnd_nat M 4 (by norm_num), Nat.floor_natCast]

-- hypotheses satisfiable: f = 1/4, fuel 6
example (M : FPModel) : (0 : ℝ) < (⟨1 / 4⟩ : RF M).val ∧ (⟨1 / 4⟩ : RF M).val ≤ 1 ∧
    1 / (⟨1 / 4⟩ : RF M).val ≤ 2 ^ 52 ∧ (1e-15 : ℝ) ≤ (⟨1 / 4⟩ : RF M).val := by
  refine ⟨by norm_num, by norm_num, by norm_num, by norm_num⟩

/-- instance at the exact model: the theorem specialises to the exact-real arithmetic -/
example (c : Rgb) (f : RF FPModel.exact) (h0 : 0 < f.val) (h1 : f.val ≤ 1) (hN : 1 / f.val ≤ 2 ^ 52)
    (fuel : ℕ) (hf : ⌊1 / f.val⌋₊ + 1 < fuel) :
    Shade.compute fuel c f = Res.ok (Except.ok ⟨shadeListFp FPModel.exact c f⟩) :=
  shade_closed_fp FPModel.exact c f h0 h1 hN fuel hf

/-! ## Consequences -/

/-- the list has `⌊M.rnd (1/f)⌋ + 1` entries -/
theorem shade_length_fp (M : FPModel) (c : Rgb) (f : RF M) :
    (shadeListFp M c f).length = ⌊M.rnd (1 / f.val)⌋₊ + 1 := by
  simp [shadeListFp, stepsFp]
theorem tint_length_fp (M : FPModel) (c : Rgb) (f : RF M) :
    (tintListFp M c f).length = ⌊M.rnd (1 / f.val)⌋₊ + 1 := by
  simp [tintListFp, stepsFp]

/-- the `i`-th entry is `shadeAtFp M c f i` -/
theorem shade_get_fp (M : FPModel) (c : Rgb) (f : RF M) (i : ℕ) (hi : i ≤ stepsFp M f) :
    (shadeListFp M c f)[i]? = some (shadeAtFp M c f i) := by
  rw [shadeListFp, List.getElem?_map, List.getElem?_range (by omega : i < stepsFp M f + 1)]; rfl
theorem tint_get_fp (M : FPModel) (c : Rgb) (f : RF M) (i : ℕ) (hi : i ≤ stepsFp M f) :
    (tintListFp M c f)[i]? = some (tintAtFp M c f i) := by
  rw [tintListFp, List.getElem?_map, List.getElem?_range (by omega : i < stepsFp M f + 1)]; rfl

/-- the rounded step count is the exact one, or one more: rounding never crosses an integer, but
`M.rnd (1/f)` can be the next integer although `1/f` is below it -/
theorem steps_vs_exact_fp (M : FPModel) (f : RF M) (h0 : 0 < f.val) (hN : 1 / f.val ≤ 2 ^ 52) :
    ⌊1 / f.val⌋₊ ≤ stepsFp M f ∧ stepsFp M f ≤ ⌊1 / f.val⌋₊ + 1 :=
  FpMiscC.steps_vs_exact M f.val h0 hN

/-- every index of the loop satisfies `i·f ≤ 1 + 1.2e-16`: the fraction moved towards black/white
exceeds 1 by at most one rounding error -/
theorem index_le_fp (M : FPModel) (f : RF M) (h0 : 0 < f.val) (h1 : f.val ≤ 1) (i : ℕ)
    (hi : i ≤ stepsFp M f) : (i : ℝ) * f.val ≤ 1 + 1.2e-16 :=
  FpMiscC.pos_le M f.val h0 h1 i hi

/-- the first entry is the colour itself (channels are `u8`): at `i = 0` nothing is rounded away -/
theorem shade_first_fp (M : FPModel) (c : Rgb) (f : RF M) (hr : c.r ≤ 255) (hg : c.g ≤ 255) (hb : c.b ≤ 255) :
    shadeAtFp M c f 0 = c ∧ (shadeListFp M c f).head? = some c := by
  have e : shadeAtFp M c f 0 = c := by
    have h := fun r hr => FpMiscC.shadeCh_zero M r f.val hr
    unfold FpMiscC.shadeCh at h
    cases c
    simp only [shadeAtFp, Q] at *
    rw [h _ hr, h _ hg, h _ hb, FpMiscC.quant_byte _ hr, FpMiscC.quant_byte _ hg, FpMiscC.quant_byte _ hb]
  refine ⟨e, ?_⟩
  rw [shadeListFp, List.range_succ_eq_map]
  simp [e]

theorem tint_first_fp (M : FPModel) (c : Rgb) (f : RF M) (hr : c.r ≤ 255) (hg : c.g ≤ 255) (hb : c.b ≤ 255) :
    tintAtFp M c f 0 = c ∧ (tintListFp M c f).head? = some c := by
  have e : tintAtFp M c f 0 = c := by
    have h := fun r hr => FpMiscC.tintCh_zero M r f.val hr
    unfold FpMiscC.tintCh at h
    cases c
    simp only [tintAtFp, Q] at *
    rw [h _ hr, h _ hg, h _ hb, FpMiscC.quant_byte _ hr, FpMiscC.quant_byte _ hg, FpMiscC.quant_byte _ hb]
  refine ⟨e, ?_⟩
  rw [tintListFp, List.range_succ_eq_map]
  simp [e]

example : (102 : ℕ) ≤ 255 ∧ (170 : ℕ) ≤ 255 ∧ (119 : ℕ) ≤ 255 := by decide

/-- **entries, shade**: for every index of the loop each channel is the quantiser `round() as u8` of the
exact position `channel · (1 − i·f)` perturbed by some `|e| ≤ 1e-12` -/
theorem shade_entry_fp (M : FPModel) (c : Rgb) (f : RF M) (h0 : 0 < f.val) (h1 : f.val ≤ 1)
    (hr : c.r ≤ 255) (hg : c.g ≤ 255) (hb : c.b ≤ 255) (i : ℕ) (hi : i ≤ stepsFp M f) :
    ∃ er eg eb : ℝ, |er| ≤ 1e-12 ∧ |eg| ≤ 1e-12 ∧ |eb| ≤ 1e-12 ∧
      shadeAtFp M c f i = ⟨Q (c.r * (1 - i * f.val) + er), Q (c.g * (1 - i * f.val) + eg),
                           Q (c.b * (1 - i * f.val) + eb)⟩ := by
  have hp : (0 : ℝ) ≤ (i : ℝ) * f.val := mul_nonneg (Nat.cast_nonneg _) h0.le
  have h2 : (i : ℝ) * f.val ≤ 2 := by linarith [index_le_fp M f h0 h1 i hi]
  refine ⟨_, _, _, FpMiscC.shadeCh_close M c.r hr f.val i hp h2, FpMiscC.shadeCh_close M c.g hg f.val i hp h2,
    FpMiscC.shadeCh_close M c.b hb f.val i hp h2, ?_⟩
  simp only [shadeAtFp, FpMiscC.shadeCh, add_sub_cancel]

/-- **entries, tint**: each channel is the quantiser of `channel + (255 − channel)·(i·f)` perturbed by
some `|e| ≤ 1e-12` -/
theorem tint_entry_fp (M : FPModel) (c : Rgb) (f : RF M) (h0 : 0 < f.val) (h1 : f.val ≤ 1)
    (hr : c.r ≤ 255) (hg : c.g ≤ 255) (hb : c.b ≤ 255) (i : ℕ) (hi : i ≤ stepsFp M f) :
    ∃ er eg eb : ℝ, |er| ≤ 1e-12 ∧ |eg| ≤ 1e-12 ∧ |eb| ≤ 1e-12 ∧
      tintAtFp M c f i = ⟨Q (c.r + (255 - c.r) * (i * f.val) + er), Q (c.g + (255 - c.g) * (i * f.val) + eg),
                          Q (c.b + (255 - c.b) * (i * f.val) + eb)⟩ := by
  have hp : (0 : ℝ) ≤ (i : ℝ) * f.val := mul_nonneg (Nat.cast_nonneg _) h0.le
  have h2 : (i : ℝ) * f.val ≤ 2 := by linarith [index_le_fp M f h0 h1 i hi]
  refine ⟨_, _, _, FpMiscC.tintCh_close M c.r hr f.val i hp h2, FpMiscC.tintCh_close M c.g hg f.val i hp h2,
    FpMiscC.tintCh_close M c.b hb f.val i hp h2, ?_⟩
  simp only [tintAtFp, FpMiscC.tintCh, add_sub_cancel]

/-- **against the exact-real specification**: for every index of the loop, each channel of the computed
shade is at most ONE away from the specified `Props.C18.shadeAt c f i` (the positions differ by
`≤ 1e-12`, so the bytes differ only when the exact position is within `1e-12` of a tie `n + 1/2`) -/
theorem shade_vs_exact_fp (M : FPModel) (c : Rgb) (f : RF M) (h0 : 0 < f.val) (h1 : f.val ≤ 1)
    (hr : c.r ≤ 255) (hg : c.g ≤ 255) (hb : c.b ≤ 255) (i : ℕ) (hi : i ≤ stepsFp M f) :
    Rgb.near1 (shadeAtFp M c f i) (shadeAt c f.val i) := by
  have hp : (0 : ℝ) ≤ (i : ℝ) * f.val := mul_nonneg (Nat.cast_nonneg _) h0.le
  have h2 : (i : ℝ) * f.val ≤ 2 := by linarith [index_le_fp M f h0 h1 i hi]
  have k := fun r hr => FpMiscC.quant_pert
    (le_trans (FpMiscC.shadeCh_close M r hr f.val i hp h2) (by norm_num : (1e-12 : ℝ) ≤ 1))
  exact ⟨k c.r hr, k c.g hg, k c.b hb⟩

theorem tint_vs_exact_fp (M : FPModel) (c : Rgb) (f : RF M) (h0 : 0 < f.val) (h1 : f.val ≤ 1)
    (hr : c.r ≤ 255) (hg : c.g ≤ 255) (hb : c.b ≤ 255) (i : ℕ) (hi : i ≤ stepsFp M f) :
    Rgb.near1 (tintAtFp M c f i) (tintAt c f.val i) := by
  have hp : (0 : ℝ) ≤ (i : ℝ) * f.val := mul_nonneg (Nat.cast_nonneg _) h0.le
  have h2 : (i : ℝ) * f.val ≤ 2 := by linarith [index_le_fp M f h0 h1 i hi]
  have k := fun r hr => FpMiscC.quant_pert
    (le_trans (FpMiscC.tintCh_close M r hr f.val i hp h2) (by norm_num : (1e-12 : ℝ) ≤ 1))
  exact ⟨k c.r hr, k c.g hg, k c.b hb⟩

/-- channels never increase along a shade — exactly, no tolerance: every rounding is monotone -/
theorem shade_antitone_fp (M : FPModel) (c : Rgb) (f : RF M) (h0 : 0 < f.val) (i j : ℕ) (hij : i ≤ j) :
    Rgb.le (shadeAtFp M c f j) (shadeAtFp M c f i) :=
  ⟨Q_mono (FpMiscC.shadeCh_antitone M c.r f.val h0.le hij), Q_mono (FpMiscC.shadeCh_antitone M c.g f.val h0.le hij),
    Q_mono (FpMiscC.shadeCh_antitone M c.b f.val h0.le hij)⟩

/-- channels never decrease along a tint (channels are `u8`) -/
theorem tint_monotone_fp (M : FPModel) (c : Rgb) (f : RF M) (h0 : 0 < f.val)
    (hr : c.r ≤ 255) (hg : c.g ≤ 255) (hb : c.b ≤ 255) (i j : ℕ) (hij : i ≤ j) :
    Rgb.le (tintAtFp M c f i) (tintAtFp M c f j) :=
  ⟨Q_mono (FpMiscC.tintCh_monotone M c.r hr f.val h0.le hij), Q_mono (FpMiscC.tintCh_monotone M c.g hg f.val h0.le hij),
    Q_mono (FpMiscC.tintCh_monotone M c.b hb f.val h0.le hij)⟩

/-- the same on the output lists: every earlier entry dominates every later one -/
theorem shade_list_antitone_fp (M : FPModel) (c : Rgb) (f : RF M) (h0 : 0 < f.val) :
    (shadeListFp M c f).Pairwise (fun a b => Rgb.le b a) := by
  rw [shadeListFp, List.pairwise_map]
  exact List.Pairwise.imp (fun h => shade_antitone_fp M c f h0 _ _ (le_of_lt h)) List.pairwise_lt_range

theorem tint_list_monotone_fp (M : FPModel) (c : Rgb) (f : RF M) (h0 : 0 < f.val)
    (hr : c.r ≤ 255) (hg : c.g ≤ 255) (hb : c.b ≤ 255) :
    (tintListFp M c f).Pairwise (fun a b => Rgb.le a b) := by
  rw [tintListFp, List.pairwise_map]
  exact List.Pairwise.imp (fun h => tint_monotone_fp M c f h0 hr hg hb _ _ (le_of_lt h)) List.pairwise_lt_range

example : (0 : ℝ) < 1 / 10 := by norm_num

/-- when `1/f` is a whole number `m` (as a real number: `f` is exactly `1/m`) there are `m + 1` entries
and the last shade is pure black — in every model: `m·f = 1` is rounded to `1` -/
theorem shade_last_fp (M : FPModel) (c : Rgb) (f : RF M) (h0 : 0 < f.val) (m : ℕ) (hm : 1 / f.val = m)
    (hm2 : m ≤ 2 ^ 52) :
    stepsFp M f = m ∧ shadeAtFp M c f (stepsFp M f) = ⟨0, 0, 0⟩ ∧ (shadeListFp M c f).getLast? = some ⟨0, 0, 0⟩ := by
  have hmf : (m : ℝ) * f.val = 1 := by rw [← hm]; field_simp
  have hs : stepsFp M f = m := FpMiscC.steps_of_inv M f.val m hm (le_trans hm2 (by norm_num))
  have z : Q 0 = 0 := by
    have := FpMiscC.quant_byte 0 (by norm_num); simpa [Q] using this
  have h := fun r => FpMiscC.shadeCh_last M r f.val m hmf
  unfold FpMiscC.shadeCh at h
  have e : shadeAtFp M c f (stepsFp M f) = ⟨0, 0, 0⟩ := by
    rw [hs]; simp only [shadeAtFp, h, z]
  refine ⟨hs, e, ?_⟩
  rw [shadeListFp, List.range_succ, List.map_append]
  simp [e]

/-- when `1/f` is a whole number the last tint is pure white (channels are `u8`) -/
theorem tint_last_fp (M : FPModel) (c : Rgb) (f : RF M) (h0 : 0 < f.val) (m : ℕ) (hm : 1 / f.val = m)
    (hm2 : m ≤ 2 ^ 52) (hr : c.r ≤ 255) (hg : c.g ≤ 255) (hb : c.b ≤ 255) :
    stepsFp M f = m ∧ tintAtFp M c f (stepsFp M f) = ⟨255, 255, 255⟩ ∧
      (tintListFp M c f).getLast? = some ⟨255, 255, 255⟩ := by
  have hmf : (m : ℝ) * f.val = 1 := by rw [← hm]; field_simp
  have hs : stepsFp M f = m := FpMiscC.steps_of_inv M f.val m hm (le_trans hm2 (by norm_num))
  have z : Q 255 = 255 := by
    have := FpMiscC.quant_byte 255 (by norm_num); simpa [Q] using this
  have h := fun r hr => FpMiscC.tintCh_last M r hr f.val m hmf
  unfold FpMiscC.tintCh at h
  have e : tintAtFp M c f (stepsFp M f) = ⟨255, 255, 255⟩ := by
    rw [hs]; simp only [tintAtFp, h _ hr, h _ hg, h _ hb, z]
  refine ⟨hs, e, ?_⟩
  rw [tintListFp, List.range_succ, List.map_append]
  simp [e]

example : (0 : ℝ) < 1 / 4 ∧ 1 / (1 / 4 : ℝ) = ((4 : ℕ) : ℝ) ∧ 4 ≤ 2 ^ 52 := by norm_num

/-- for `f ≥ 1/256` there are at most 257 entries: `1/f ≤ 256` and rounding does not cross `256` -/
theorem steps_bound_fp (M : FPModel) (f : RF M) (hf : 1 / 256 ≤ f.val) : stepsFp M f ≤ 256 := by
  have h0 : (0 : ℝ) < f.val := by linarith
  have h : 1 / f.val ≤ ((256 : ℕ) : ℝ) := by rw [div_le_iff₀ h0]; push_cast; linarith
  have := Nat.floor_le_floor (FpErr.rnd_le_nat M 256 (by norm_num) h)
  rwa [Nat.floor_natCast] at this

/-- **C18, termination, rounded arithmetic**: for every `f ∈ [1/256, 1]` any fuel `≥ 258` gives the
specified list, of at most 257 entries -/
theorem shade_terminates_fp (M : FPModel) (c : Rgb) (f : RF M) (hf : 1 / 256 ≤ f.val) (h1 : f.val ≤ 1)
    (fuel : ℕ) (h : 258 ≤ fuel) :
    Shade.compute fuel c f = Res.ok (Except.ok ⟨shadeListFp M c f⟩) ∧ (shadeListFp M c f).length ≤ 257 := by
  have hs := steps_bound_fp M f hf
  refine ⟨shade_closed_ge_fp M c f (by linarith) h1 fuel (by omega), ?_⟩
  rw [shade_length_fp]; exact Nat.succ_le_succ hs

theorem tint_terminates_fp (M : FPModel) (c : Rgb) (f : RF M) (hf : 1 / 256 ≤ f.val) (h1 : f.val ≤ 1)
    (fuel : ℕ) (h : 258 ≤ fuel) :
    Tint.compute fuel c f = Res.ok (Except.ok ⟨tintListFp M c f⟩) ∧ (tintListFp M c f).length ≤ 257 := by
  have hs := steps_bound_fp M f hf
  refine ⟨tint_closed_ge_fp M c f (by linarith) h1 fuel (by omega), ?_⟩
  rw [tint_length_fp]; exact Nat.succ_le_succ hs

/-! ## A concrete run, valid in every model -/

/-- `f = 1`: two entries, the colour and black — in every model (all intermediate values are
integers, hence exact) -/
example (M : FPModel) :
    Shade.compute 3 ⟨100, 200, 50⟩ (⟨1⟩ : RF M) = Res.ok (Except.ok ⟨[⟨100, 200, 50⟩, ⟨0, 0, 0⟩]⟩) := by
  have hs : stepsFp M ⟨1⟩ = 1 := by
    unfold stepsFp; rw [div_one, FpErr.rnd_one, Nat.floor_one]
  rw [shade_closed_fp M _ _ (by norm_num) (by norm_num) (by norm_num) 3 (by rw [hs]; norm_num)]
  have e0 := (shade_first_fp M ⟨100, 200, 50⟩ ⟨1⟩ (by norm_num) (by norm_num) (by norm_num)).1
  have z : Q 0 = 0 := by
    have := FpMiscC.quant_byte 0 (by norm_num); simpa [Q] using this
  have e1 : shadeAtFp M ⟨100, 200, 50⟩ ⟨1⟩ 1 = ⟨0, 0, 0⟩ := by
    simp only [shadeAtFp, Nat.cast_one, mul_one, FpErr.rnd_one, sub_self, FpErr.rnd_zero, mul_zero, z]
  simp only [shadeListFp, hs, List.range_succ, List.range_zero, List.nil_append,
    List.map_cons, List.map_nil, List.cons_append, e0, e1]

/-- `f = 1`: the colour and white -/
example (M : FPModel) :
    Tint.compute 3 ⟨100, 200, 50⟩ (⟨1⟩ : RF M) = Res.ok (Except.ok ⟨[⟨100, 200, 50⟩, ⟨255, 255, 255⟩]⟩) := by
  have hl := tint_last_fp M ⟨100, 200, 50⟩ ⟨1⟩ (by norm_num) 1 (by norm_num) (by norm_num) (by norm_num)
    (by norm_num) (by norm_num)
  have hs := hl.1
  rw [tint_closed_fp M _ _ (by norm_num) (by norm_num) (by norm_num) 3 (by rw [hs]; norm_num)]
  have e0 := (tint_first_fp M ⟨100, 200, 50⟩ ⟨1⟩ (by norm_num) (by norm_num) (by norm_num)).1
  have e1 := hl.2.1
  rw [hs] at e1
  simp only [tintListFp, hs, List.range_succ, List.range_zero, List.nil_append,
    List.map_cons, List.map_nil, List.cons_append, e0, e1]

end Props.C18_fp
