import LymuiVerif.Lemmas.XyzDispatch
/-!
# C12 (XYZ clause) — raising one channel strictly raises X, Y and Z, for every profile

"Raising any single channel of an 8-bit colour by one step never lowers XYZ's X, Y or Z (any
profile); the increase is strict."

Proved on the generated `Xyz.from_rgb` at ℝ: every generated forward matrix entry is positive
(`Lemmas.Matrix.fwd_pos`) and the generated decode curve of the profile is strictly increasing on
the nonnegative reals (`Lemmas.XyzDispatch.dec_strictMonoOn`; for sRGB this includes the jump
across the threshold 0.04045, where the linear branch ends BELOW the start of the power branch).
The theorems are stated for an arbitrary raise `c.r < r'` (no bound needed: the exact-real curves
are increasing everywhere); the one-step form is the corollary `step_*`.
-/
namespace Props.C12_xyz
open Gen Lemmas.Matrix Lemmas.XyzDispatch

/-- componentwise strict order on XYZ -/
def XyzLt (a b : Xyz ℝ) : Prop := a.x < b.x ∧ a.y < b.y ∧ a.z < b.z

theorem raise_r (k : XyzKind) (c : Rgb) (r' : ℕ) (h : c.r < r') :
    XyzLt (Xyz.from_rgb c k) (Xyz.from_rgb { c with r := r' } k) := by
  rw [from_rgb_eq, from_rgb_eq]
  have hd := dec_level_lt k h
  have p0 : 0 < (fwd k).1.1 := fwd_pos k 0 0
  have p1 : 0 < (fwd k).2.1.1 := fwd_pos k 1 0
  have p2 : 0 < (fwd k).2.2.1 := fwd_pos k 2 0
  have q0 := mul_lt_mul_of_pos_left hd p0
  have q1 := mul_lt_mul_of_pos_left hd p1
  have q2 := mul_lt_mul_of_pos_left hd p2
  refine ⟨?_, ?_, ?_⟩ <;> simp only [toXyz, mulVec, dot, lin] <;> linarith

theorem raise_g (k : XyzKind) (c : Rgb) (g' : ℕ) (h : c.g < g') :
    XyzLt (Xyz.from_rgb c k) (Xyz.from_rgb { c with g := g' } k) := by
  rw [from_rgb_eq, from_rgb_eq]
  have hd := dec_level_lt k h
  have p0 : 0 < (fwd k).1.2.1 := fwd_pos k 0 1
  have p1 : 0 < (fwd k).2.1.2.1 := fwd_pos k 1 1
  have p2 : 0 < (fwd k).2.2.2.1 := fwd_pos k 2 1
  have q0 := mul_lt_mul_of_pos_left hd p0
  have q1 := mul_lt_mul_of_pos_left hd p1
  have q2 := mul_lt_mul_of_pos_left hd p2
  refine ⟨?_, ?_, ?_⟩ <;> simp only [toXyz, mulVec, dot, lin] <;> linarith

theorem raise_b (k : XyzKind) (c : Rgb) (b' : ℕ) (h : c.b < b') :
    XyzLt (Xyz.from_rgb c k) (Xyz.from_rgb { c with b := b' } k) := by
  rw [from_rgb_eq, from_rgb_eq]
  have hd := dec_level_lt k h
  have p0 : 0 < (fwd k).1.2.2 := fwd_pos k 0 2
  have p1 : 0 < (fwd k).2.1.2.2 := fwd_pos k 1 2
  have p2 : 0 < (fwd k).2.2.2.2 := fwd_pos k 2 2
  have q0 := mul_lt_mul_of_pos_left hd p0
  have q1 := mul_lt_mul_of_pos_left hd p1
  have q2 := mul_lt_mul_of_pos_left hd p2
  refine ⟨?_, ?_, ?_⟩ <;> simp only [toXyz, mulVec, dot, lin] <;> linarith

/-- **C12, XYZ clause**: one step up in R, G or B strictly raises each of X, Y, Z (any profile).
The hypotheses `< 255` only say that the raised colour is still an 8-bit colour. -/
theorem step_r (k : XyzKind) (c : Rgb) (_h : c.r < 255) :
    XyzLt (Xyz.from_rgb c k) (Xyz.from_rgb { c with r := c.r + 1 } k) :=
  raise_r k c _ (Nat.lt_succ_self _)

theorem step_g (k : XyzKind) (c : Rgb) (_h : c.g < 255) :
    XyzLt (Xyz.from_rgb c k) (Xyz.from_rgb { c with g := c.g + 1 } k) :=
  raise_g k c _ (Nat.lt_succ_self _)

theorem step_b (k : XyzKind) (c : Rgb) (_h : c.b < 255) :
    XyzLt (Xyz.from_rgb c k) (Xyz.from_rgb { c with b := c.b + 1 } k) :=
  raise_b k c _ (Nat.lt_succ_self _)

-- the hypotheses are satisfiable; the step across the sRGB threshold (level 10 → 11) is covered
example : XyzLt (Xyz.from_rgb (α := ℝ) ⟨10, 200, 3⟩ .D65) (Xyz.from_rgb ⟨11, 200, 3⟩ .D65) :=
  step_r .D65 ⟨10, 200, 3⟩ (by norm_num)
example : XyzLt (Xyz.from_rgb (α := ℝ) ⟨0, 0, 0⟩ .Adobe) (Xyz.from_rgb ⟨0, 0, 1⟩ .Adobe) :=
  step_b .Adobe ⟨0, 0, 0⟩ (by norm_num)

end Props.C12_xyz
