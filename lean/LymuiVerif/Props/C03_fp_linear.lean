import LymuiVerif.Props.C10_fp
import LymuiVerif.Props.C03_linear
/-!
# C03 (device-model part) in the rounded-arithmetic reading (`RF M`, every `M : FPModel`)

RGB -> CMYK / YUV / YCbCr -> RGB, BOTH legs computed with rounded arithmetic, with the SAME conclusions as
the exact-real file `Props/C03_linear.lean`:

* `cmyk_roundtrip_fp`: the identity, EXACTLY, for every 8-bit colour.  The computed C, M, Y, K are within
  `1e-9` of the exact ones (`Props.C10.cmyk_forward_fp`), so the value fed to `round() as u8` is within
  `1/4` (in fact `~1e-6`) of the exact pre-quantisation value, which IS the channel
  (`C03_linear.cmyk_pre_exact`); `C03_linear.round_margin` (margin 1/4) gives the channel back.  Black goes
  through the `k == 1` branch (`Props.C10.cmyk_black_fp`).
* `yuv_roundtrip_fp`: each channel comes back as itself or one below (within 1), as in `yuv_roundtrip`:
  the computed pre-quantisation value is within `1e-8` of the exact-real one, which is within `0.07` of
  the channel (`C03_linear.yuv_pre_close`); `0.07 + 1e-8 < 1`.
* `ycbcr_roundtrip_sharp_fp` / `ycbcr_roundtrip_fp`: R in `[r-3, r]`, G in `[g-2, g+1]`, B in `[b-4, b]`
  (within 4), as in `ycbcr_roundtrip_sharp`.  Here the intermediate BYTES may differ from the exact-real
  ones (a sum that is a whole number in ℝ may be computed just below it and truncate one lower), so
  `C03_linear.ycbcr_pre_close` cannot be cited; the interval argument is redone with the perturbed
  truncations `Props.C10.ycbcr_forward_fp` / `ycbcr_reverse_fp` (its slack, ≥ 0.015 at every end, absorbs
  the `1e-12` perturbations).
-/
namespace Props.C03
open Gen FpErr FpLin Props.C10 Props.C03_linear

/-- **C03 / CMYK**, rounded arithmetic: RGB -> CMYK -> RGB is the identity on 8-bit colours, exactly. -/
theorem cmyk_roundtrip_fp (M : FPModel) (c : Rgb) (hr : c.r ≤ 255) (hg : c.g ≤ 255) (hb : c.b ≤ 255) :
    Rgb.from_Cymk (Cymk.from_Rgb (α := RF M) c) = c := by
  rcases cmyk_cases c with rfl | hmax
  · -- black: the `k == 1` branch, then `255 * 1 * 0 = 0` exactly
    obtain ⟨h1, h2, h3, h4⟩ := cmyk_black_fp M
    simp only [Rgb.from_Cymk, FltRF.lit_val, FltRF.sub_val, FltRF.mul_val, FltRF.toU8_eq, FltRF.round_val,
      h1, h2, h3, h4]
    simp [rnd_zero, rnd_one, Quant.roundHA_zero, Quant.toU8_of_nonpos]
  · obtain ⟨hK, hC, hM, hY⟩ := cmyk_forward_fp M c hr hg hb hmax
    -- the exact-real facts: the exact C, M, Y, K reproduce the channels
    obtain ⟨x1, x2, x3⟩ := cmyk_pre_exact c
    obtain ⟨f1, f2, f3, f4⟩ := cmyk_forward c hmax
    rw [f1, f2] at x1; rw [f1, f3] at x2; rw [f1, f4] at x3
    have hm1 : (1 : ℝ) ≤ Spec.mx c.r c.g c.b := by
      have : Spec.mx c.r c.g c.b = ((max c.r (max c.g c.b) : ℕ) : ℝ) := by
        unfold Spec.mx; push_cast; rfl
      rw [this] at hmax ⊢
      exact_mod_cast hmax
    have hm255 : Spec.mx c.r c.g c.b ≤ 255 := by
      unfold Spec.mx
      have hr' : (c.r : ℝ) ≤ 255 := by exact_mod_cast hr
      have hg' : (c.g : ℝ) ≤ 255 := by exact_mod_cast hg
      have hb' : (c.b : ℝ) ≤ 255 := by exact_mod_cast hb
      exact max_le hr' (max_le hg' hb')
    have hrm : (c.r : ℝ) ≤ Spec.mx c.r c.g c.b := le_max_left _ _
    have hgm : (c.g : ℝ) ≤ Spec.mx c.r c.g c.b := le_trans (le_max_left _ _) (le_max_right _ _)
    have hbm : (c.b : ℝ) ≤ Spec.mx c.r c.g c.b := le_trans (le_max_right _ _) (le_max_right _ _)
    have hr0 : (0 : ℝ) ≤ c.r := Nat.cast_nonneg _
    have hg0 : (0 : ℝ) ≤ c.g := Nat.cast_nonneg _
    have hb0 : (0 : ℝ) ≤ c.b := Nat.cast_nonneg _
    have mag : ∀ x : ℝ, 0 ≤ x → x ≤ Spec.mx c.r c.g c.b →
        |(Spec.mx c.r c.g c.b - x) / Spec.mx c.r c.g c.b| ≤ 1 := by
      intro x h0 h1
      rw [abs_of_nonneg (div_nonneg (by linarith) (by linarith)), div_le_one (by linarith)]
      linarith
    have nK : Near (Cymk.from_Rgb (α := RF M) c).k.val (Spec.cmykK c.r c.g c.b) 1e-9 1 :=
      ⟨hK.trans (by norm_num), by
        unfold Spec.cmykK
        have : 0 ≤ Spec.mx c.r c.g c.b / 255 := by positivity
        have : Spec.mx c.r c.g c.b / 255 ≤ 1 := by rw [div_le_one (by norm_num)]; exact hm255
        rw [abs_le]; constructor <;> linarith, le_rfl⟩
    have nC : Near (Cymk.from_Rgb (α := RF M) c).c.val (Spec.cmykC c.r c.g c.b) 1e-9 1 := ⟨hC.trans (by norm_num), mag _ hr0 hrm, le_rfl⟩
    have nM : Near (Cymk.from_Rgb (α := RF M) c).m.val (Spec.cmykM c.r c.g c.b) 1e-9 1 := ⟨hM.trans (by norm_num), mag _ hg0 hgm, le_rfl⟩
    have nY : Near (Cymk.from_Rgb (α := RF M) c).y.val (Spec.cmykY c.r c.g c.b) 1e-9 1 := ⟨hY.trans (by norm_num), mag _ hb0 hbm, le_rfl⟩
    have one : Near (((1 : ℕ) : ℝ)) ((1 : ℕ) : ℝ) 0 1 := Near.nat (by norm_num) le_rfl
    have n255 : Near (((255 : ℕ) : ℝ)) ((255 : ℕ) : ℝ) 0 255 := Near.nat (by norm_num) (by norm_num)
    have pR := (n255.mul M (one.sub M nC)).mul M (one.sub M nK)
    have pG := (n255.mul M (one.sub M nM)).mul M (one.sub M nK)
    have pB := (n255.mul M (one.sub M nY)).mul M (one.sub M nK)
    have eR := pR.finish (x' := (c.r : ℝ)) (tol := 1 / 4) (Eq.trans (by unfold cmykPre; push_cast; ring) x1) (by norm_num [FP.eps])
    have eG := pG.finish (x' := (c.g : ℝ)) (tol := 1 / 4) (Eq.trans (by unfold cmykPre; push_cast; ring) x2) (by norm_num [FP.eps])
    have eB := pB.finish (x' := (c.b : ℝ)) (tol := 1 / 4) (Eq.trans (by unfold cmykPre; push_cast; ring) x3) (by norm_num [FP.eps])
    have qR := round_margin c.r hr _ eR
    have qG := round_margin c.g hg _ eG
    have qB := round_margin c.b hb _ eB
    rw [add_sub_cancel] at qR qG qB
    simp only [Rgb.from_Cymk, FltRF.lit_val, FltRF.sub_val, FltRF.mul_val, FltRF.toU8_eq, FltRF.round_val]
    rw [lit_int M 255 (by norm_num), lit_int M 1 (by norm_num), qR, qG, qB]

/-- **C03 / YUV**, rounded arithmetic: every channel of RGB -> YUV -> RGB is the original or one below it. -/
theorem yuv_roundtrip_fp (M : FPModel) (c : Rgb) (hr : c.r ≤ 255) (hg : c.g ≤ 255) (hb : c.b ≤ 255) :
    (c.r ≤ (Rgb.from_Yuv (Yuv.from_Rgb (α := RF M) c)).r + 1 ∧ (Rgb.from_Yuv (Yuv.from_Rgb (α := RF M) c)).r ≤ c.r) ∧
    (c.g ≤ (Rgb.from_Yuv (Yuv.from_Rgb (α := RF M) c)).g + 1 ∧ (Rgb.from_Yuv (Yuv.from_Rgb (α := RF M) c)).g ≤ c.g) ∧
    (c.b ≤ (Rgb.from_Yuv (Yuv.from_Rgb (α := RF M) c)).b + 1 ∧ (Rgb.from_Yuv (Yuv.from_Rgb (α := RF M) c)).b ≤ c.b) := by
  obtain ⟨hY, hU, hV⟩ := yuv_forward_fp M c hr hg hb
  -- the exact-real facts: 0.07-closeness of the pre-quantisation values (`yuv_pre_close`)
  obtain ⟨x1, x2, x3⟩ := yuv_pre_close c hr hg hb
  obtain ⟨f1, f2, f3⟩ := yuv_forward c
  unfold yuvPreR at x1; unfold yuvPreG at x2; unfold yuvPreB at x3
  rw [f1, f3] at x1; rw [f1, f2, f3] at x2; rw [f1, f2] at x3
  have hr' : (c.r : ℝ) ≤ 255 := by exact_mod_cast hr
  have hg' : (c.g : ℝ) ≤ 255 := by exact_mod_cast hg
  have hb' : (c.b : ℝ) ≤ 255 := by exact_mod_cast hb
  have hr0 : (0 : ℝ) ≤ c.r := Nat.cast_nonneg _
  have hg0 : (0 : ℝ) ≤ c.g := Nat.cast_nonneg _
  have hb0 : (0 : ℝ) ≤ c.b := Nat.cast_nonneg _
  have Y0 : 0 ≤ Spec.yuvY c.r c.g c.b := by unfold Spec.yuvY; positivity
  have Y1 : Spec.yuvY c.r c.g c.b ≤ 1 := by
    unfold Spec.yuvY; rw [div_le_one (by norm_num)]; linarith
  have mY : |Spec.yuvY c.r c.g c.b| ≤ 1 := by rw [abs_le]; constructor <;> linarith
  have mU : |Spec.yuvU c.r c.g c.b| ≤ 1 := by
    unfold Spec.yuvU; rw [abs_le]
    have : (c.b : ℝ) / 255 ≤ 1 := by rw [div_le_one (by norm_num)]; exact hb'
    have : (0 : ℝ) ≤ c.b / 255 := by positivity
    constructor <;> linarith
  have mV : |Spec.yuvV c.r c.g c.b| ≤ 1 := by
    unfold Spec.yuvV; rw [abs_le]
    have : (c.r : ℝ) / 255 ≤ 1 := by rw [div_le_one (by norm_num)]; exact hr'
    have : (0 : ℝ) ≤ c.r / 255 := by positivity
    constructor <;> linarith
  have nY : Near (Yuv.from_Rgb (α := RF M) c).y.val (Spec.yuvY c.r c.g c.b) 1e-12 1 := ⟨hY, mY, le_rfl⟩
  have nU : Near (Yuv.from_Rgb (α := RF M) c).u.val (Spec.yuvU c.r c.g c.b) 1e-12 1 := ⟨hU, mU, le_rfl⟩
  have nV : Near (Yuv.from_Rgb (α := RF M) c).v.val (Spec.yuvV c.r c.g c.b) 1e-12 1 := ⟨hV, mV, le_rfl⟩
  have n255 : Near (((255 : ℕ) : ℝ)) ((255 : ℕ) : ℝ) 0 255 := Near.nat (by norm_num) (by norm_num)
  have pR := (nY.add M ((Near.lit M 113983 100000 (B := 2) (by norm_num) (by norm_num)).mul M nV)).mul M n255
  have pG := ((nY.sub M ((Near.lit M 7893 20000 (B := 1) (by norm_num) le_rfl).mul M nU)).sub M
    ((Near.lit M 2903 5000 (B := 1) (by norm_num) le_rfl).mul M nV)).mul M n255
  have pB := (nY.add M ((Near.lit M 203211 100000 (B := 3) (by norm_num) (by norm_num)).mul M nU)).mul M n255
  have eR := pR.finish (tol := 1e-8) (x' := 255 * (Spec.yuvY c.r c.g c.b + 1.13983 * Spec.yuvV c.r c.g c.b))
    (by push_cast; ring) (by norm_num [FP.eps])
  have eG := pG.finish (tol := 1e-8)
    (x' := 255 * (Spec.yuvY c.r c.g c.b - 0.39465 * Spec.yuvU c.r c.g c.b - 0.58060 * Spec.yuvV c.r c.g c.b))
    (by push_cast; ring) (by norm_num [FP.eps])
  have eB := pB.finish (tol := 1e-8) (x' := 255 * (Spec.yuvY c.r c.g c.b + 2.03211 * Spec.yuvU c.r c.g c.b))
    (by push_cast; ring) (by norm_num [FP.eps])
  have close : ∀ a t n : ℝ, |a - t| ≤ 1e-8 → |t - n| ≤ 7 / 100 → |a - n| < 1 := by
    intro a t n h1 h2
    have := abs_sub_le a t n
    have : (1e-8 : ℝ) + 7 / 100 < 1 := by norm_num
    linarith
  simp only [Rgb.from_Yuv, FltRF.lit_val, FltRF.add_val, FltRF.sub_val, FltRF.mul_val, FltRF.toU8_eq]
  rw [lit_int M 255 (by norm_num)]
  exact ⟨trunc_near _ hr _ (close _ _ _ eR x1), trunc_near _ hg _ (close _ _ _ eG x2),
    trunc_near _ hb _ (close _ _ _ eB x3)⟩

/-- **C03 / YCbCr, sharp form**, rounded arithmetic: R in `[r-3, r]`, G in `[g-2, g+1]`, B in `[b-4, b]`. -/
theorem ycbcr_roundtrip_sharp_fp (M : FPModel) (c : Rgb) (hr : c.r ≤ 255) (hg : c.g ≤ 255) (hb : c.b ≤ 255) :
    (c.r ≤ (Rgb.from_Ycbcr (RF M) (Ycbcr.from_Rgb (RF M) c)).r + 3 ∧ (Rgb.from_Ycbcr (RF M) (Ycbcr.from_Rgb (RF M) c)).r ≤ c.r) ∧
    (c.g ≤ (Rgb.from_Ycbcr (RF M) (Ycbcr.from_Rgb (RF M) c)).g + 2 ∧ (Rgb.from_Ycbcr (RF M) (Ycbcr.from_Rgb (RF M) c)).g ≤ c.g + 1) ∧
    (c.b ≤ (Rgb.from_Ycbcr (RF M) (Ycbcr.from_Rgb (RF M) c)).b + 4 ∧ (Rgb.from_Ycbcr (RF M) (Ycbcr.from_Rgb (RF M) c)).b ≤ c.b) := by
  obtain ⟨⟨e1, he1, hy⟩, ⟨e2, he2, hcb⟩, ⟨e3, he3, hcr⟩⟩ := ycbcr_forward_fp M c hr hg hb
  generalize Ycbcr.from_Rgb (RF M) c = q at *
  have qy : q.y ≤ 255 := by rw [hy]; exact Quant.toU8_le_255 _
  have qcb : q.cb ≤ 255 := by rw [hcb]; exact Quant.toU8_le_255 _
  have qcr : q.cr ≤ 255 := by rw [hcr]; exact Quant.toU8_le_255 _
  obtain ⟨⟨d1, hd1, hR⟩, ⟨d2, hd2, hG⟩, ⟨d3, hd3, hB⟩⟩ := ycbcr_reverse_fp M q qy qcb qcr
  have hr' : (c.r : ℝ) ≤ 255 := by exact_mod_cast hr
  have hg' : (c.g : ℝ) ≤ 255 := by exact_mod_cast hg
  have hb' : (c.b : ℝ) ≤ 255 := by exact_mod_cast hb
  have hr0 : (0 : ℝ) ≤ c.r := Nat.cast_nonneg _
  have hg0 : (0 : ℝ) ≤ c.g := Nat.cast_nonneg _
  have hb0 : (0 : ℝ) ≤ c.b := Nat.cast_nonneg _
  obtain ⟨a1, b1⟩ := abs_le.mp he1
  obtain ⟨a2, b2⟩ := abs_le.mp he2
  obtain ⟨a3, b3⟩ := abs_le.mp he3
  obtain ⟨a4, b4⟩ := abs_le.mp hd1
  obtain ⟨a5, b5⟩ := abs_le.mp hd2
  obtain ⟨a6, b6⟩ := abs_le.mp hd3
  -- the three truncated (perturbed) sums lie in [0, 256): `as u8` is a floor with error in [0, 1)
  have y1 := Quant.toU8_le_self (x := Spec.ycbcrY c.r c.g c.b + e1) (by unfold Spec.ycbcrY; linarith)
  have y2 := Quant.lt_toU8_add_one (x := Spec.ycbcrY c.r c.g c.b + e1) (by unfold Spec.ycbcrY; linarith)
  have c1 := Quant.toU8_le_self (x := Spec.ycbcrCb c.r c.g c.b + e2) (by unfold Spec.ycbcrCb; linarith)
  have c2 := Quant.lt_toU8_add_one (x := Spec.ycbcrCb c.r c.g c.b + e2) (by unfold Spec.ycbcrCb; linarith)
  have r1 := Quant.toU8_le_self (x := Spec.ycbcrCr c.r c.g c.b + e3) (by unfold Spec.ycbcrCr; linarith)
  have r2 := Quant.lt_toU8_add_one (x := Spec.ycbcrCr c.r c.g c.b + e3) (by unfold Spec.ycbcrCr; linarith)
  rw [← hy] at y1 y2; rw [← hcb] at c1 c2; rw [← hcr] at r1 r2
  unfold Spec.ycbcrY at y1 y2; unfold Spec.ycbcrCb at c1 c2; unfold Spec.ycbcrCr at r1 r2
  rw [hR, hG, hB]
  unfold Spec.ycbcrR Spec.ycbcrG Spec.ycbcrB
  refine ⟨⟨?_, ?_⟩, ⟨?_, ?_⟩, ⟨?_, ?_⟩⟩
  · exact Quant.le_toU8_add_of_sub_lt hr (by push_cast; linarith)
  · simpa using Quant.toU8_le_add_of_lt (n := c.r) (a := 0) (by push_cast; linarith)
  · exact Quant.le_toU8_add_of_sub_lt hg (by push_cast; linarith)
  · exact Quant.toU8_le_add_of_lt (by push_cast; linarith)
  · exact Quant.le_toU8_add_of_sub_lt hb (by push_cast; linarith)
  · simpa using Quant.toU8_le_add_of_lt (n := c.b) (a := 0) (by push_cast; linarith)

/-- **C03 / YCbCr**, rounded arithmetic: every channel of RGB -> YCbCr -> RGB is within 4 of the original. -/
theorem ycbcr_roundtrip_fp (M : FPModel) (c : Rgb) (hr : c.r ≤ 255) (hg : c.g ≤ 255) (hb : c.b ≤ 255) :
    (c.r ≤ (Rgb.from_Ycbcr (RF M) (Ycbcr.from_Rgb (RF M) c)).r + 4 ∧ (Rgb.from_Ycbcr (RF M) (Ycbcr.from_Rgb (RF M) c)).r ≤ c.r + 4) ∧
    (c.g ≤ (Rgb.from_Ycbcr (RF M) (Ycbcr.from_Rgb (RF M) c)).g + 4 ∧ (Rgb.from_Ycbcr (RF M) (Ycbcr.from_Rgb (RF M) c)).g ≤ c.g + 4) ∧
    (c.b ≤ (Rgb.from_Ycbcr (RF M) (Ycbcr.from_Rgb (RF M) c)).b + 4 ∧ (Rgb.from_Ycbcr (RF M) (Ycbcr.from_Rgb (RF M) c)).b ≤ c.b + 4) := by
  have := ycbcr_roundtrip_sharp_fp M c hr hg hb
  omega

/-! ## Instances -/

example : Rgb.from_Cymk (Cymk.from_Rgb (α := RF FPModel.exact) ⟨255, 55, 102⟩) = ⟨255, 55, 102⟩ :=
  cmyk_roundtrip_fp FPModel.exact ⟨255, 55, 102⟩ (by norm_num) (by norm_num) (by norm_num)

example (M : FPModel) : Rgb.from_Cymk (Cymk.from_Rgb (α := RF M) ⟨0, 0, 0⟩) = ⟨0, 0, 0⟩ :=
  cmyk_roundtrip_fp M ⟨0, 0, 0⟩ (by norm_num) (by norm_num) (by norm_num)

example (M : FPModel) : (Rgb.from_Yuv (Yuv.from_Rgb (α := RF M) ⟨255, 55, 102⟩)).g ≤ 55 ∧
    54 ≤ (Rgb.from_Yuv (Yuv.from_Rgb (α := RF M) ⟨255, 55, 102⟩)).g := by
  have h := (yuv_roundtrip_fp M ⟨255, 55, 102⟩ (by norm_num) (by norm_num) (by norm_num)).2.1
  simp only at h
  omega

end Props.C03
