import LymuiVerif.Gen.Model
/-!
# C16 — ANSI-256 codes decode to the xterm palette

Statement: for every code 0..=255, `Rgb::try_from(Ansi(n))` succeeds and returns the xterm-256
palette entry.  The quantifier is the finite set of 256 codes; the theorem is decided by the
kernel (`decide +kernel`) on the definition GENERATED from the crate's MIR, including its checked
`u8` arithmetic (an overflow would be `Res.panic`) and the hand model of the hex parser that the
system-colour table goes through.
-/
namespace Props.C16
open Gen

/-- the 16 system colours of xterm -/
def system : List (Nat × Nat × Nat) :=
  [(0,0,0),(128,0,0),(0,128,0),(128,128,0),(0,0,128),(128,0,128),(0,128,128),(192,192,192),
   (128,128,128),(255,0,0),(0,255,0),(255,255,0),(0,0,255),(255,0,255),(0,255,255),(255,255,255)]

/-- channel level of the 6x6x6 cube -/
def level (d : Nat) : Nat := if d = 0 then 0 else 55 + 40 * d

/-- xterm-256 palette (specification) -/
def xterm (n : Nat) : Rgb :=
  if n < 16 then (match system[n]? with | some (r, g, b) => ⟨r, g, b⟩ | none => ⟨0, 0, 0⟩)
  else if 232 ≤ n then ⟨8 + 10 * (n - 232), 8 + 10 * (n - 232), 8 + 10 * (n - 232)⟩
  else ⟨level ((n - 16) / 36), level ((n - 16) / 6 % 6), level ((n - 16) % 6)⟩

instance : DecidableEq (Except LError Rgb) := fun a b =>
  match a, b with
  | .ok x, .ok y => if h : x = y then isTrue (by rw [h]) else isFalse (by intro e; cases e; exact h rfl)
  | .error x, .error y => if h : x = y then isTrue (by rw [h]) else isFalse (by intro e; cases e; exact h rfl)
  | .ok _, .error _ => isFalse (by intro e; cases e)
  | .error _, .ok _ => isFalse (by intro e; cases e)

/-- **C16**: every code decodes, without panic or error, to its xterm palette entry. -/
theorem ansi_decodes_to_xterm :
    ∀ n : Fin 256, Rgb.try_from_Ansi ⟨n.val⟩ = Res.ok (Except.ok (xterm n.val)) := by
  decide +kernel

/-- the same for every `u8` written as a natural number -/
theorem ansi_decodes_to_xterm_nat (n : Nat) (h : n < 256) :
    Rgb.try_from_Ansi ⟨n⟩ = Res.ok (Except.ok (xterm n)) :=
  ansi_decodes_to_xterm ⟨n, h⟩

/-- corollary: no code panics or is rejected (the part of C04 about ANSI codes) -/
theorem ansi_total (n : Nat) (h : n < 256) : ∃ c, Rgb.try_from_Ansi ⟨n⟩ = Res.ok (Except.ok c) :=
  ⟨_, ansi_decodes_to_xterm_nat n h⟩

-- the specification is the xterm table (spot checks of the spec itself, not of the code)
example : xterm 9 = ⟨255, 0, 0⟩ ∧ xterm 16 = ⟨0, 0, 0⟩ ∧ xterm 231 = ⟨255, 255, 255⟩ ∧ xterm 232 = ⟨8, 8, 8⟩
    ∧ xterm 255 = ⟨238, 238, 238⟩ ∧ xterm 196 = ⟨255, 0, 0⟩ ∧ xterm 110 = ⟨135, 175, 215⟩ := by decide

end Props.C16
