import LymuiVerif.Gen.Model
import LymuiVerif.Lemmas.ListLast
/-!
# C19 — generic conversion helpers, `as_vec`/`from_vec`, `Xyz::scale`

Everything here is stated over an ARBITRARY carrier `α` with `[Flt α]` (so it holds of `f64` itself,
of ℝ, ...) and, for the four helpers, over ARBITRARY `Into`/`From` dictionaries.  No real numbers.

* `helper_*`: the four generic helpers of `lib.rs` are the explicit two-step conversion, an absent
  profile meaning `XyzKind.D65`.
* `create_color_from_vec_eq`: `create_color_from_vec` is the `from_vec` it is given.
* per colour type `T` (22 types): `T.as_vec_order` (documented component order), `T.roundtrip`
  (`from_vec (as_vec x) = x`), and the behaviour of `from_vec` on every other length
  (`T.from_vec_nil`, `_one`, `_two`, `_long`): `from_vec` is a pure total function of the model (not in
  the `Res` monad: it cannot panic), missing components default to the zero literal, the LAST
  component is `vec.last()` (so it repeats an earlier element of a short vector and skips the middle
  of a long one).
* `scale_eq`: `Xyz::scale` multiplies each component by the literal 100.
-/
namespace Props.C19
open Gen

/-! ## The four generic helpers -/

section helpers
variable {α : Type} [Flt α] {T E : Type}

/-- the profile a helper uses: `k.unwrap_or(Kind::D65)` (specification) -/
def profile : Option XyzKind → XyzKind
  | none => XyzKind.D65
  | some k => k

/-- `from_rgb_compatible_to_xyz_subtype(f, k) = E::from(Xyz::from_rgb(f.into(), k or D65))`,
for arbitrary `Into<Rgb>`/`From<Xyz>` dictionaries. -/
theorem helper_rgb_to_xyz_subtype (into : T → Rgb) (frm : Xyz α → E) (f : T) (k : Option XyzKind) :
    from_rgb_compatible_to_xyz_subtype α into frm f k = frm (Xyz.from_rgb (into f) (profile k)) := by
  cases k <;> rfl

theorem helper_rgb_to_xyz_subtype_none (into : T → Rgb) (frm : Xyz α → E) (f : T) :
    from_rgb_compatible_to_xyz_subtype α into frm f none = frm (Xyz.from_rgb (into f) XyzKind.D65) := rfl

theorem helper_rgb_to_xyz_subtype_some (into : T → Rgb) (frm : Xyz α → E) (f : T) (k : XyzKind) :
    from_rgb_compatible_to_xyz_subtype α into frm f (some k) = frm (Xyz.from_rgb (into f) k) := rfl

/-- `from_xyz_compatible_type_to_rgb_subtype(c, k) = E::from(c.into().as_rgb(k or D65))`. -/
theorem helper_xyz_to_rgb_subtype (into : T → Xyz α) (frm : Rgb → E) (c : T) (k : Option XyzKind) :
    from_xyz_compatible_type_to_rgb_subtype α into frm c k = frm (Xyz.as_rgb (into c) (profile k)) := by
  cases k <;> rfl

theorem helper_xyz_to_rgb_subtype_none (into : T → Xyz α) (frm : Rgb → E) (c : T) :
    from_xyz_compatible_type_to_rgb_subtype α into frm c none = frm (Xyz.as_rgb (into c) XyzKind.D65) := rfl

theorem helper_xyz_to_rgb_subtype_some (into : T → Xyz α) (frm : Rgb → E) (c : T) (k : XyzKind) :
    from_xyz_compatible_type_to_rgb_subtype α into frm c (some k) = frm (Xyz.as_rgb (into c) k) := rfl

/-- `from_rgb_compatible_to_rgb_subtype(c) = E::from(c.into())` -/
theorem helper_rgb_to_rgb_subtype (into : T → Rgb) (frm : Rgb → E) (c : T) :
    from_rgb_compatible_to_rgb_subtype into frm c = frm (into c) := rfl

/-- `from_xyz_to_xyz_subtype(c) = E::from(c.into())` -/
theorem helper_xyz_to_xyz_subtype (into : T → Xyz α) (frm : Xyz α → E) (c : T) :
    from_xyz_to_xyz_subtype α into frm c = frm (into c) := rfl

/-- `create_color_from_vec(vec) = T::from_vec(vec)` for an arbitrary `FromVec` dictionary -/
theorem create_color_from_vec_eq {K : Type} (from_vec : List K → T) (v : List K) :
    create_color_from_vec from_vec v = from_vec v := rfl

-- the helpers instantiated with the crate's own conversions (the dictionaries are the generated
-- `From` impls), e.g. Hsl → Lab with no profile is Lab::from(Xyz::from_rgb(Rgb::from(hsl), D65))
example (c : Hsl α) :
    from_rgb_compatible_to_xyz_subtype α Rgb.from_Hsl Lab.from_Xyz c none
      = Lab.from_Xyz (Xyz.from_rgb (Rgb.from_Hsl c) XyzKind.D65) := rfl
example (c : Luv α) :
    from_xyz_compatible_type_to_rgb_subtype α Xyz.from_Luv Hex.from_Rgb c (some XyzKind.Adobe)
      = Hex.from_Rgb (Xyz.as_rgb (Xyz.from_Luv c) XyzKind.Adobe) := rfl
-- the default really is D65 and nothing else: with the identity dictionaries the helper IS from_rgb
example (c : Rgb) : from_rgb_compatible_to_xyz_subtype α id id c none = (Xyz.from_rgb c XyzKind.D65 : Xyz α) := rfl
example : profile none = XyzKind.D65 ∧ profile (some XyzKind.D50) = XyzKind.D50 := ⟨rfl, rfl⟩
end helpers

/-! ## `as_vec` / `from_vec`, one block per colour type -/

/-- the zero literal `0.0_f64` that `unwrap_or_default()` yields -/
abbrev z (α : Type) [Flt α] : α := Flt.lit 0x0000000000000000 0 1

/-- all the facts for a three-component `f64` colour type `T` with fields `f1 f2 f3` (in the
documented `as_vec` order). -/
local macro "vec3_props " T:ident f1:ident f2:ident f3:ident : command => do
  let n (s : String) := Lean.mkIdent (T.getId ++ Lean.Name.mkSimple s)
  let asv := Lean.mkIdent (`Gen ++ T.getId ++ `as_vec)
  let frv := Lean.mkIdent (`Gen ++ T.getId ++ `from_vec)
  let ty := Lean.mkIdent (`Gen ++ T.getId)
  `(
    /-- documented component order -/
    theorem $(n "as_vec_order") {α : Type} [Flt α] (x : $ty α) : $asv x = [x.$f1, x.$f2, x.$f3] := rfl
    /-- `from_vec (as_vec x) = x` -/
    theorem $(n "roundtrip") {α : Type} [Flt α] (x : $ty α) : $frv ($asv x) = x := rfl
    /-- a three-element vector is read in the same order -/
    theorem $(n "from_vec_three") {α : Type} [Flt α] (a b c : α) :
        $frv [a, b, c] = { $f1:ident := a, $f2:ident := b, $f3:ident := c } := rfl
    theorem $(n "from_vec_nil") {α : Type} [Flt α] :
        $frv ([] : List α) = { $f1:ident := z α, $f2:ident := z α, $f3:ident := z α } := rfl
    /-- one element: it is both first and last -/
    theorem $(n "from_vec_one") {α : Type} [Flt α] (a : α) :
        $frv [a] = { $f1:ident := a, $f2:ident := z α, $f3:ident := a } := rfl
    /-- two elements: the second is also the last -/
    theorem $(n "from_vec_two") {α : Type} [Flt α] (a b : α) :
        $frv [a, b] = { $f1:ident := a, $f2:ident := b, $f3:ident := b } := rfl
    /-- four or more elements: first, second and LAST -/
    theorem $(n "from_vec_long") {α : Type} [Flt α] (a b c : α) (mid : List α) (l : α) :
        $frv (a :: b :: c :: (mid ++ [l])) = { $f1:ident := a, $f2:ident := b, $f3:ident := l } := by
      simp [$frv:ident, Lemmas.getLast?_cons_snoc]
  )

vec3_props Hsl h s l
vec3_props Hsv h s v
vec3_props Hwb h w b
vec3_props Yuv y u v
vec3_props Xyz x y z
vec3_props Xyy x y _y
vec3_props Hcl h c l
vec3_props Lab l a b
vec3_props Luv l u v
vec3_props Hlab l a b
vec3_props Lchlab l c h
vec3_props Lchuv l c h
vec3_props OkLab l a b
vec3_props OkLch l c h
vec3_props Srgb r g b
vec3_props Argb r g b
vec3_props Rec709 r g b
vec3_props Rec2020 r g b
vec3_props Rec2100 r g b

/-! ### Cymk: four components, documented order `[c, y, m, k]` -/

section cymk
variable {α : Type} [Flt α]
theorem Cymk.as_vec_order (x : Cymk α) : Gen.Cymk.as_vec x = [x.c, x.y, x.m, x.k] := rfl
theorem Cymk.roundtrip (x : Cymk α) : Gen.Cymk.from_vec (Gen.Cymk.as_vec x) = x := rfl
theorem Cymk.from_vec_four (a b c d : α) : Gen.Cymk.from_vec [a, b, c, d] = { c := a, y := b, m := c, k := d } := rfl
theorem Cymk.from_vec_nil : Gen.Cymk.from_vec ([] : List α) = { c := z α, y := z α, m := z α, k := z α } := rfl
theorem Cymk.from_vec_one (a : α) : Gen.Cymk.from_vec [a] = { c := a, y := z α, m := z α, k := a } := rfl
theorem Cymk.from_vec_two (a b : α) : Gen.Cymk.from_vec [a, b] = { c := a, y := b, m := z α, k := b } := rfl
theorem Cymk.from_vec_three (a b c : α) : Gen.Cymk.from_vec [a, b, c] = { c := a, y := b, m := c, k := c } := rfl
theorem Cymk.from_vec_long (a b c d : α) (mid : List α) (l : α) :
    Gen.Cymk.from_vec (a :: b :: c :: d :: (mid ++ [l])) = { c := a, y := b, m := c, k := l } := by
  simp [Gen.Cymk.from_vec, Lemmas.getLast?_cons_snoc]
end cymk

/-! ### The 8-bit types: `as_vec` yields `f64`s (`as f64` of the bytes), `from_vec` takes bytes -/

section bytes
variable {α : Type} [Flt α]

theorem Rgb.as_vec_order (x : Rgb) :
    (Gen.Rgb.as_vec x : List α) = [Flt.ofNat x.r, Flt.ofNat x.g, Flt.ofNat x.b] := rfl
/-- `as_vec` is the list of the bytes `[r, g, b]`, each cast `as f64` … -/
theorem Rgb.as_vec_eq_map (x : Rgb) : (Gen.Rgb.as_vec x : List α) = [x.r, x.g, x.b].map Flt.ofNat := rfl
/-- … and building from those bytes reproduces the value -/
theorem Rgb.roundtrip (x : Rgb) : Gen.Rgb.from_vec [x.r, x.g, x.b] = x := rfl
theorem Rgb.from_vec_three (a b c : Nat) : Gen.Rgb.from_vec [a, b, c] = ⟨a, b, c⟩ := rfl
theorem Rgb.from_vec_nil : Gen.Rgb.from_vec [] = ⟨0, 0, 0⟩ := rfl
theorem Rgb.from_vec_one (a : Nat) : Gen.Rgb.from_vec [a] = ⟨a, 0, a⟩ := rfl
theorem Rgb.from_vec_two (a b : Nat) : Gen.Rgb.from_vec [a, b] = ⟨a, b, b⟩ := rfl
theorem Rgb.from_vec_long (a b c : Nat) (mid : List Nat) (l : Nat) :
    Gen.Rgb.from_vec (a :: b :: c :: (mid ++ [l])) = ⟨a, b, l⟩ := by
  simp [Gen.Rgb.from_vec, Lemmas.getLast?_cons_snoc]

theorem Ycbcr.as_vec_order (x : Ycbcr) :
    (Gen.Ycbcr.as_vec x : List α) = [Flt.ofNat x.y, Flt.ofNat x.cb, Flt.ofNat x.cr] := rfl
theorem Ycbcr.as_vec_eq_map (x : Ycbcr) : (Gen.Ycbcr.as_vec x : List α) = [x.y, x.cb, x.cr].map Flt.ofNat := rfl
theorem Ycbcr.roundtrip (x : Ycbcr) : Gen.Ycbcr.from_vec [x.y, x.cb, x.cr] = x := rfl
theorem Ycbcr.from_vec_three (a b c : Nat) : Gen.Ycbcr.from_vec [a, b, c] = ⟨a, b, c⟩ := rfl
theorem Ycbcr.from_vec_nil : Gen.Ycbcr.from_vec [] = ⟨0, 0, 0⟩ := rfl
theorem Ycbcr.from_vec_one (a : Nat) : Gen.Ycbcr.from_vec [a] = ⟨a, 0, a⟩ := rfl
theorem Ycbcr.from_vec_two (a b : Nat) : Gen.Ycbcr.from_vec [a, b] = ⟨a, b, b⟩ := rfl
theorem Ycbcr.from_vec_long (a b c : Nat) (mid : List Nat) (l : Nat) :
    Gen.Ycbcr.from_vec (a :: b :: c :: (mid ++ [l])) = ⟨a, b, l⟩ := by
  simp [Gen.Ycbcr.from_vec, Lemmas.getLast?_cons_snoc]
end bytes

/-! ### `create_color_from_vec` with the crate's own `FromVec` impls -/

example {α : Type} [Flt α] (x : Hsl α) : create_color_from_vec Gen.Hsl.from_vec (Gen.Hsl.as_vec x) = x := rfl
example (x : Rgb) : create_color_from_vec Gen.Rgb.from_vec [x.r, x.g, x.b] = x := rfl
example {α : Type} [Flt α] (v : List α) : create_color_from_vec Gen.Cymk.from_vec v = Gen.Cymk.from_vec v := rfl

/-! ## `Xyz::scale` -/

/-- `Xyz::scale` multiplies each of x, y, z by exactly the literal `100.0` (bit pattern
`0x4059000000000000`, decimal `100/1`) -/
theorem scale_eq {α : Type} [Flt α] (p : Xyz α) :
    Xyz.scale p = { x := p.x * Flt.lit 0x4059000000000000 100 1,
                    y := p.y * Flt.lit 0x4059000000000000 100 1,
                    z := p.z * Flt.lit 0x4059000000000000 100 1 } := rfl

/-- on any carrier whose literals are read through their decimal value (`lit _ 100 1 = hundred`) -/
theorem scale_eq_of_lit {α : Type} [Flt α] (hundred : α) (h : ∀ bits, (Flt.lit bits 100 1 : α) = hundred)
    (p : Xyz α) : Xyz.scale p = { x := p.x * hundred, y := p.y * hundred, z := p.z * hundred } := by
  rw [scale_eq, h]

end Props.C19
