import LymuiVerif.Lemmas.FpGrey
/-!
# C13 in the rounded-arithmetic reading — the remaining range statements (`RF M`, every `M : FPModel`)

"C, M, Y, K in [0,1]; YUV Y in [0,1], |U| ≤ 0.436, |V| ≤ 0.615; YCbCr Y in [16,235], Cb and Cr in [16,240]; XYZ between
black and the profile's white; … grayscale between the smallest channel minus one and the largest channel."
(hexcone models: `Props/C13_fp_rgbmodels.lean`.)  For every model of floating-point arithmetic and every 8-bit colour,
about the generated conversions at the carrier `RF M`:

* `cmyk_range_fp` — C, M, Y, K in `[0, 1]` EXACTLY (no slack): every quotient is a smaller non-negative rounded number
  over a larger positive one (monotonicity of rounding), rounding never crosses `0` or `1`.  The black guard `k != 1` is
  decided as in ℝ; for a non-black colour the divisor `1 - K` is positive (`FpGrey.mk_pos`), nothing rests on `x / 0 = 0`.
* `yuv_range_fp` — `0 ≤ Y` exactly, `Y ≤ 1 + 1e-12`, `|U| ≤ 0.436 + 1e-9`, `|V| ≤ 0.615 + 1e-9` (proved: the real
  extremes `0.435912`, `0.614777` plus `1e-12`, so in fact `|U| ≤ 0.436`, `|V| ≤ 0.615` hold in every model:
  `yuv_uv_sharp_fp`).  `Y ≤ 1` without slack is NOT claimed: the three rounded coefficients need not sum to at most 1.
* `ycbcr_range_fp` — bytes: `Y ∈ [16, 235]`, `Cb, Cr ∈ [16, 240]` exactly (proved `≤ 239`).  The lower end `Y ≥ 16` is by
  monotonicity (`16 + non-negative rounded products`, `16` representable), NOT by the error bound (the exact sum of
  black is exactly 16, an error of either sign would give 15); the other five ends have a slack of at least `0.045`.
* `xyz_range_fp` — components `≥ 0` EXACTLY (sums of products of non-negative rounded numbers) and at most the real
  model's white + `1e-12`; `xyz_le_white_fp` — at most the white computed in the SAME model + `2e-12`.
* `grayscale_range_fp` — smallest channel − 1 ≤ grey ≤ largest channel, all five modes (the "minus one" is needed in
  `RF M`: e.g. `0.21·v + 0.72·v + 0.07·v` may round below `v`).
-/
namespace Props.C13_fp_ranges
open Gen FpErr FpLin FpGrey Props.C09 Lemmas.XyzDispatch Lemmas.FpXyz Lemmas.Matrix

/-- **CMYK**, rounded model: C, M, Y, K in `[0, 1]` EXACTLY -/
theorem cmyk_range_fp (M : FPModel) (c : Rgb) (hr : c.r ≤ 255) (hg : c.g ≤ 255) (hb : c.b ≤ 255) :
    (0 ≤ (Cymk.from_Rgb (α := RF M) c).c.val ∧ (Cymk.from_Rgb (α := RF M) c).c.val ≤ 1) ∧
    (0 ≤ (Cymk.from_Rgb (α := RF M) c).m.val ∧ (Cymk.from_Rgb (α := RF M) c).m.val ≤ 1) ∧
    (0 ≤ (Cymk.from_Rgb (α := RF M) c).y.val ∧ (Cymk.from_Rgb (α := RF M) c).y.val ≤ 1) ∧
    (0 ≤ (Cymk.from_Rgb (α := RF M) c).k.val ∧ (Cymk.from_Rgb (α := RF M) c).k.val ≤ 1) := by
  obtain ⟨_, eM⟩ := cmin_cmax_nat c
  have hm : max (max c.r c.g) c.b ≤ 255 := by omega
  have hrm : c.r ≤ max (max c.r c.g) c.b := by omega
  have hgm : c.g ≤ max (max c.r c.g) c.b := by omega
  have hbm : c.b ≤ max (max c.r c.g) c.b := by omega
  unfold Cymk.from_Rgb
  simp only [FpHexcone.get_min_max_rf, eM, Rgb.as_f64, Cymk.default]
  generalize max (max c.r c.g) c.b = m at *
  obtain ⟨k0, k1, _⟩ := k_bounds M m hm
  have l1 : M.rnd (((1:ℕ):ℝ) / ((1:ℕ):ℝ)) = 1 := by simpa using lit_int M 1 (by norm_num)
  have l255 : M.rnd (((255:ℕ):ℝ) / ((1:ℕ):ℝ)) = 255 := by simpa using lit_int M 255 (by norm_num)
  split_ifs with hk <;>
  simp only [FltRF.beq_eq, FltRF.sub_val, FltRF.div_val, FltRF.lit_val, FltRF.ofNat_val, l1, l255, lit0,
    decide_eq_false_iff_not, Bool.not_eq_eq_eq_not, Bool.not_true] at hk ⊢
  · have h1 : 1 ≤ m := by
      by_contra h
      have : m = 0 := by omega
      apply hk; rw [this]; simp [rnd_zero, rnd_one]
    exact ⟨cmyk_chan_range M c.r m hrm hm h1, cmyk_chan_range M c.g m hgm hm h1,
      cmyk_chan_range M c.b m hbm hm h1, k0, k1⟩
  · exact ⟨by norm_num, by norm_num, by norm_num, k0, k1⟩

/-- **YUV**, rounded model: `0 ≤ Y` exactly, `Y ≤ 1 + 1e-12`, `|U| ≤ 0.436 + 1e-9`, `|V| ≤ 0.615 + 1e-9` -/
theorem yuv_range_fp (M : FPModel) (c : Rgb) (hr : c.r ≤ 255) (hg : c.g ≤ 255) (hb : c.b ≤ 255) :
    0 ≤ (Yuv.from_Rgb (α := RF M) c).y.val ∧ (Yuv.from_Rgb (α := RF M) c).y.val ≤ 1 + 1e-12 ∧
    |(Yuv.from_Rgb (α := RF M) c).u.val| ≤ 0.436 + 1e-9 ∧ |(Yuv.from_Rgb (α := RF M) c).v.val| ≤ 0.615 + 1e-9 := by
  obtain ⟨hy, hu, hv⟩ := Props.C10.yuv_forward_fp M c hr hg hb
  obtain ⟨⟨_, y1⟩, su, sv⟩ := yuv_spec_range c hr hg hb
  refine ⟨?_, ?_, ?_, ?_⟩
  · simp only [Yuv.from_Rgb, Rgb.as_f64, FltRF.lit_val, FltRF.ofNat_val, FltRF.add_val, FltRF.mul_val, FltRF.div_val]
    have q : ∀ n : ℕ, 0 ≤ M.rnd ((n:ℝ) / M.rnd (((255:ℕ):ℝ) / ((1:ℕ):ℝ))) := fun n =>
      rnd_nonneg M (div_nonneg (Nat.cast_nonneg _) (rnd_nonneg M (by positivity)))
    have l : ∀ n d : ℕ, 0 ≤ M.rnd ((n:ℝ) / (d:ℝ)) := fun n d => rnd_nonneg M (by positivity)
    exact rnd_nonneg M (add_nonneg (rnd_nonneg M (add_nonneg (rnd_nonneg M (mul_nonneg (l _ _) (q _)))
      (rnd_nonneg M (mul_nonneg (l _ _) (q _))))) (rnd_nonneg M (mul_nonneg (l _ _) (q _))))
  · have := (abs_le.mp hy).2; linarith
  · have := abs_sub_abs_le_abs_sub (Yuv.from_Rgb (α := RF M) c).u.val (Props.C10.Spec.yuvU c.r c.g c.b)
    norm_num at su ⊢; linarith
  · have := abs_sub_abs_le_abs_sub (Yuv.from_Rgb (α := RF M) c).v.val (Props.C10.Spec.yuvV c.r c.g c.b)
    norm_num at sv ⊢; linarith

/-- **YUV**, sharper: the nominal bounds `|U| ≤ 0.436`, `|V| ≤ 0.615` hold without slack in every model (the real
extremes are `0.435912`, `0.614777`) -/
theorem yuv_uv_sharp_fp (M : FPModel) (c : Rgb) (hr : c.r ≤ 255) (hg : c.g ≤ 255) (hb : c.b ≤ 255) :
    |(Yuv.from_Rgb (α := RF M) c).u.val| ≤ 0.436 ∧ |(Yuv.from_Rgb (α := RF M) c).v.val| ≤ 0.615 := by
  obtain ⟨_, hu, hv⟩ := Props.C10.yuv_forward_fp M c hr hg hb
  obtain ⟨_, su, sv⟩ := yuv_spec_range c hr hg hb
  constructor
  · have := abs_sub_abs_le_abs_sub (Yuv.from_Rgb (α := RF M) c).u.val (Props.C10.Spec.yuvU c.r c.g c.b)
    norm_num at su ⊢; linarith
  · have := abs_sub_abs_le_abs_sub (Yuv.from_Rgb (α := RF M) c).v.val (Props.C10.Spec.yuvV c.r c.g c.b)
    norm_num at sv ⊢; linarith

/-- **YCbCr**, rounded model: the bytes `Y ∈ [16, 235]`, `Cb, Cr ∈ [16, 240]` exactly -/
theorem ycbcr_range_fp (M : FPModel) (c : Rgb) (hr : c.r ≤ 255) (hg : c.g ≤ 255) (hb : c.b ≤ 255) :
    (16 ≤ (Ycbcr.from_Rgb (RF M) c).y ∧ (Ycbcr.from_Rgb (RF M) c).y ≤ 235) ∧
    (16 ≤ (Ycbcr.from_Rgb (RF M) c).cb ∧ (Ycbcr.from_Rgb (RF M) c).cb ≤ 240) ∧
    (16 ≤ (Ycbcr.from_Rgb (RF M) c).cr ∧ (Ycbcr.from_Rgb (RF M) c).cr ≤ 240) := by
  have hr' : (c.r : ℝ) ≤ 255 := by exact_mod_cast hr
  have hg' : (c.g : ℝ) ≤ 255 := by exact_mod_cast hg
  have hb' : (c.b : ℝ) ≤ 255 := by exact_mod_cast hb
  have hr0 : (0 : ℝ) ≤ c.r := Nat.cast_nonneg _
  have hg0 : (0 : ℝ) ≤ c.g := Nat.cast_nonneg _
  have hb0 : (0 : ℝ) ≤ c.b := Nat.cast_nonneg _
  obtain ⟨⟨e1, he1, h1⟩, ⟨e2, he2, h2⟩, ⟨e3, he3, h3⟩⟩ := Props.C10.ycbcr_forward_fp M c hr hg hb
  have he1' := abs_le.mp he1
  have he2' := abs_le.mp he2
  have he3' := abs_le.mp he3
  refine ⟨⟨?_, ?_⟩, ?_, ?_⟩
  · -- lower end by monotonicity: 16 + (non-negative rounded products), 16 is representable
    simp only [Ycbcr.from_Rgb, Ycbcr.calculate_indices, Rgb.as_f64, FltRF.lit_val, FltRF.ofNat_val,
      FltRF.add_val, FltRF.mul_val, FltRF.toU8_eq]
    rw [lit_int M 16 (by norm_num)]
    have p : ∀ (x : ℝ) (n d : ℕ), 0 ≤ x → 0 ≤ M.rnd (x * M.rnd ((n:ℝ) / (d:ℝ))) := fun x n d hx =>
      rnd_nonneg M (mul_nonneg hx (rnd_nonneg M (by positivity)))
    have s1 : ((16:ℕ):ℝ) ≤ M.rnd (((16:ℕ):ℝ) + M.rnd ((c.r:ℝ) * M.rnd (((257:ℕ):ℝ) / ((1000:ℕ):ℝ)))) :=
      nat_le_rnd M 16 (by norm_num) (by linarith [p (c.r:ℝ) 257 1000 hr0])
    have s2 := nat_le_rnd M 16 (by norm_num) (x := M.rnd (((16:ℕ):ℝ) + M.rnd ((c.r:ℝ) * M.rnd (((257:ℕ):ℝ) / ((1000:ℕ):ℝ)))) +
      M.rnd ((c.g:ℝ) * M.rnd (((63:ℕ):ℝ) / ((125:ℕ):ℝ)))) (by linarith [p (c.g:ℝ) 63 125 hg0])
    have s3 := nat_le_rnd M 16 (by norm_num) (x := M.rnd (M.rnd (((16:ℕ):ℝ) + M.rnd ((c.r:ℝ) * M.rnd (((257:ℕ):ℝ) / ((1000:ℕ):ℝ)))) +
      M.rnd ((c.g:ℝ) * M.rnd (((63:ℕ):ℝ) / ((125:ℕ):ℝ)))) + M.rnd ((c.b:ℝ) * M.rnd (((49:ℕ):ℝ) / ((500:ℕ):ℝ))))
      (by linarith [p (c.b:ℝ) 49 500 hb0])
    exact Quant.le_toU8_of_le (by norm_num) s3
  · rw [h1]
    exact QuantA2.toU8_le_of_lt (by unfold Props.C10.Spec.ycbcrY; push_cast; norm_num at he1' ⊢; linarith [he1'.2])
  · rw [h2]
    have := QuantA2.toU8_bounds (x := Props.C10.Spec.ycbcrCb c.r c.g c.b + e2) (a := 16) (b := 239)
      (by unfold Props.C10.Spec.ycbcrCb; push_cast; norm_num at he2' ⊢; linarith [he2'.1])
      (by unfold Props.C10.Spec.ycbcrCb; push_cast; norm_num at he2' ⊢; linarith [he2'.2]) (by norm_num)
    omega
  · rw [h3]
    have := QuantA2.toU8_bounds (x := Props.C10.Spec.ycbcrCr c.r c.g c.b + e3) (a := 16) (b := 239)
      (by unfold Props.C10.Spec.ycbcrCr; push_cast; norm_num at he3' ⊢; linarith [he3'.1])
      (by unfold Props.C10.Spec.ycbcrCr; push_cast; norm_num at he3' ⊢; linarith [he3'.2]) (by norm_num)
    omega

/-- **XYZ**, rounded model: components `≥ 0` EXACTLY and at most the real model's white + `1e-12` -/
theorem xyz_range_fp (M : FPModel) (k : XyzKind) (c : Rgb) (hr : c.r ≤ 255) (hg : c.g ≤ 255) (hb : c.b ≤ 255) :
    (0 ≤ (Xyz.from_rgb (α := RF M) c k).x.val ∧
      (Xyz.from_rgb (α := RF M) c k).x.val ≤ (Xyz.from_rgb (α := ℝ) Props.C13_xyz.white k).x + 1e-12) ∧
    (0 ≤ (Xyz.from_rgb (α := RF M) c k).y.val ∧
      (Xyz.from_rgb (α := RF M) c k).y.val ≤ (Xyz.from_rgb (α := ℝ) Props.C13_xyz.white k).y + 1e-12) ∧
    (0 ≤ (Xyz.from_rgb (α := RF M) c k).z.val ∧
      (Xyz.from_rgb (α := RF M) c k).z.val ≤ (Xyz.from_rgb (α := ℝ) Props.C13_xyz.white k).z + 1e-12) := by
  obtain ⟨f1, f2, f3⟩ := Props.C05.forward_fp M k c hr hg hb
  obtain ⟨_, ⟨w1, w2, w3⟩⟩ := Props.C13_xyz.between_black_and_white k c hr hg hb
  obtain ⟨n1, n2, n3⟩ := xyzF_nonneg M k c hr hg hb
  have e := from_rgb_eq_fp' M k c
  refine ⟨⟨by rw [e]; exact n1, ?_⟩, ⟨by rw [e]; exact n2, ?_⟩, ⟨by rw [e]; exact n3, ?_⟩⟩
  · have := (abs_le.mp f1).2; linarith
  · have := (abs_le.mp f2).2; linarith
  · have := (abs_le.mp f3).2; linarith

/-- **XYZ**, rounded model, against the white of the SAME model: `XYZ(c) ≤ XYZ(white) + 2e-12` componentwise, and
`XYZ(black) = 0 ≤ XYZ(c)` -/
theorem xyz_le_white_fp (M : FPModel) (k : XyzKind) (c : Rgb) (hr : c.r ≤ 255) (hg : c.g ≤ 255) (hb : c.b ≤ 255) :
    (Xyz.from_rgb (α := RF M) c k).x.val ≤ (Xyz.from_rgb (α := RF M) ⟨255, 255, 255⟩ k).x.val + 2e-12 ∧
    (Xyz.from_rgb (α := RF M) c k).y.val ≤ (Xyz.from_rgb (α := RF M) ⟨255, 255, 255⟩ k).y.val + 2e-12 ∧
    (Xyz.from_rgb (α := RF M) c k).z.val ≤ (Xyz.from_rgb (α := RF M) ⟨255, 255, 255⟩ k).z.val + 2e-12 := by
  obtain ⟨⟨_, a1⟩, ⟨_, a2⟩, ⟨_, a3⟩⟩ := xyz_range_fp M k c hr hg hb
  obtain ⟨f1, f2, f3⟩ := Props.C05.forward_fp M k ⟨255, 255, 255⟩ (by norm_num) (by norm_num) (by norm_num)
  have g1 := (abs_le.mp f1).1
  have g2 := (abs_le.mp f2).1
  have g3 := (abs_le.mp f3).1
  have ew : Props.C13_xyz.white = ⟨255, 255, 255⟩ := rfl
  rw [ew] at a1 a2 a3
  refine ⟨by linarith, by linarith, by linarith⟩

/-- **Grayscale**, rounded model, all five modes: smallest channel − 1 ≤ grey ≤ largest channel -/
theorem grayscale_range_fp (M : FPModel) (c : Rgb) (hr : c.r ≤ 255) (hg : c.g ≤ 255) (hb : c.b ≤ 255)
    (k : GrayscaleKind) :
    min (min c.r c.g) c.b - 1 ≤ (GrayScale.from_rgb (RF M) c k)._0 ∧
      (GrayScale.from_rgb (RF M) c k)._0 ≤ max (max c.r c.g) c.b := by
  obtain ⟨s1, s2, s3, s4, s5⟩ := gray_spec_between c
  have key : ∀ (x e : ℝ) (g : ℕ), cmin c ≤ x → x ≤ cmax c → |e| ≤ 1e-12 → g = Real.toU8 (x + e) →
      min (min c.r c.g) c.b - 1 ≤ g ∧ g ≤ max (max c.r c.g) c.b := by
    intro x e g h0 h1 he hg'
    obtain ⟨a, b⟩ := toU8_between c hr hg hb x e h0 h1 (he.trans (by norm_num))
    rw [hg']; exact ⟨by omega, b⟩
  cases k
  · obtain ⟨e, he, h⟩ := Props.C10.gray_lightness_fp M c hr hg hb
    exact key _ e _ s1.1 s1.2 he h
  · obtain ⟨e, he, h⟩ := Props.C10.gray_average_fp M c hr hg hb
    exact key _ e _ s2.1 s2.2 he h
  · obtain ⟨e, he, h⟩ := Props.C10.gray_luminosity_fp M c hr hg hb
    exact key _ e _ s3.1 s3.2 he h
  · obtain ⟨e, he, h⟩ := Props.C10.gray_bt709_fp M c hr hg hb
    exact key _ e _ s4.1 s4.2 he h
  · obtain ⟨e, he, h⟩ := Props.C10.gray_bt2100_fp M c hr hg hb
    exact key _ e _ s5.1 s5.2 he h

/-! ## Examples -/

-- the exact model is a model; a concrete non-grey colour
example : 0 ≤ (Cymk.from_Rgb (α := RF FPModel.exact) ⟨255, 55, 102⟩).m.val ∧
    (Cymk.from_Rgb (α := RF FPModel.exact) ⟨255, 55, 102⟩).m.val ≤ 1 :=
  (cmyk_range_fp FPModel.exact ⟨255, 55, 102⟩ (by norm_num) (by norm_num) (by norm_num)).2.1

-- the extreme colours of the studio range: white (exact sum 235.045) and black (exact sum 16, no slack below)
example (M : FPModel) : 16 ≤ (Ycbcr.from_Rgb (RF M) ⟨0, 0, 0⟩).y ∧ (Ycbcr.from_Rgb (RF M) ⟨255, 255, 255⟩).y ≤ 235 :=
  ⟨(ycbcr_range_fp M ⟨0, 0, 0⟩ (by norm_num) (by norm_num) (by norm_num)).1.1,
   (ycbcr_range_fp M ⟨255, 255, 255⟩ (by norm_num) (by norm_num) (by norm_num)).1.2⟩

-- blue: the extreme of U
example (M : FPModel) : |(Yuv.from_Rgb (α := RF M) ⟨0, 0, 255⟩).u.val| ≤ 0.436 :=
  (yuv_uv_sharp_fp M ⟨0, 0, 255⟩ (by norm_num) (by norm_num) (by norm_num)).1

example (M : FPModel) : 0 ≤ (Xyz.from_rgb (α := RF M) ⟨50, 10, 95⟩ .D50).z.val :=
  (xyz_range_fp M .D50 ⟨50, 10, 95⟩ (by norm_num) (by norm_num) (by norm_num)).2.2.1

example (M : FPModel) : 5 - 1 ≤ (GrayScale.from_rgb (RF M) ⟨5, 10, 95⟩ .BT709)._0 ∧
    (GrayScale.from_rgb (RF M) ⟨5, 10, 95⟩ .BT709)._0 ≤ 95 :=
  grayscale_range_fp M ⟨5, 10, 95⟩ (by norm_num) (by norm_num) (by norm_num) .BT709

end Props.C13_fp_ranges
